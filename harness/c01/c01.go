// Package c01 decides property C01: expressions evaluate exactly as the Soy
// language defines (SoyExpr.tla is the oracle; TLC validates every recorded
// evaluation of the real renderer against it, and enumerates the systematic
// families that are replayed through the real code).
package c01

import (
	"fmt"
	"math/rand"
	"strings"

	"verif/core"
)

// Run is the entry point for C01.
func Run(ctx *core.Ctx) {
	ctx.Rule = "cases: (expression tree, data env) pairs; TLC-enumerated families F1..F7 (SoyExprCases.tla) replayed through the real compiler+renderer, plus seeded random typed trees of depth<=5 recorded from the real renderer and validated by TLC against SoyExpr.Eval; a case is non-trivial if its tree contains an operator, function or data reference, distinct by (source text, env) hash"
	ctx.Assumptions = append(ctx.Assumptions,
		"oracle = SoyExpr.tla (written from the language definition + behaviour pinned by the repository's tests); cases the oracle marks Unspec are not judged",
		"floats restricted to dyadic rationals with small numerators; integers to 32-bit safe range (TLC arithmetic)")
	ReplayFamilies(ctx)
	PositionFamily(ctx)
	LiteralFamily(ctx)
	SpecialFamily(ctx)
	FloatTextFamily(ctx)
	NaNFamily(ctx)
	RandomTraces(ctx, ctx.Pick(4000, 150000))
	ctx.Extra["closed_expressions_also_evaluated_standalone"] = evalChecked
}

// Classify gives the structural feature used to match known findings.
func Classify(cs *core.ExprCase, expected string) string {
	switch {
	case cs.Obs.CompileErr != "":
		return "compile-reject"
	case cs.Obs.Panicked:
		return "panic"
	case cs.Obs.Err:
		return "unexpected-error"
	case len(expected) > 8 && expected[:9] == `{"t":"err`:
		return "missing-error"
	default:
		return "wrong-text"
	}
}

// RandomTraces records n random evaluations of the real renderer and has TLC
// validate them (mode M3).
func RandomTraces(ctx *core.Ctx, n int) {
	r := rand.New(rand.NewSource(ctx.Seed))
	batch := 4000
	for done := 0; done < n; done += batch {
		k := batch
		if n-done < k {
			k = n - done
		}
		var cases []*core.ExprCase
		for i := 0; i < k; i++ {
			env := core.RandEnv(r)
			g := core.NewExprGen(r, env)
			e := g.Gen("any", 1+r.Intn(5))
			st := core.Style{Parens: []int{0, 0, 0, 1, 2}[r.Intn(5)], Tight: r.Intn(3) == 0}
			cs := &core.ExprCase{Family: "M3-random", E: e, Env: env, Src: core.Unparse(e, st)}
			core.RunExprCase(cs, r.Intn(2) == 0)
			cases = append(cases, cs)
		}
		Judge(ctx, cases)
	}
}

// Judge validates observed cases with TLC and reports violations.
func Judge(ctx *core.Ctx, cases []*core.ExprCase) {
	ctx.AddEvals(int64(len(cases)))
	var toValidate []*core.ExprCase
	for _, cs := range cases {
		if isNontrivial(cs.E) {
			ctx.Distinct(cs.Src + "|" + fmt.Sprint(cs.Env.Vars) + fmt.Sprint(cs.Env.IJ))
		}
		if cs.Obs.CompileErr != "" {
			// every generated expression is valid Soy: the compiler must accept it
			ctx.Violation(core.Sig{Family: cs.Family, Feature: CompileFeature(cs)},
				"valid expression rejected by the compiler: "+cs.Src+" : "+cs.Obs.CompileErr, cs)
			continue
		}
		checkEval(ctx, cs)
		toValidate = append(toValidate, cs)
	}
	if len(toValidate) == 0 {
		return
	}
	bad, st, err := ctx.ValidateExprTrace(toValidate)
	if err != nil {
		ctx.ToolError("%v", err)
		return
	}
	_ = st
	for i, cs := range toValidate {
		if i < 3 {
			ctx.Sample(map[string]interface{}{"src": cs.Src, "vars": cs.Env.Vars, "obs": cs.Obs})
		}
		exp, isBad := bad[i]
		if !isBad {
			continue
		}
		cs.Exp = exp
		ctx.Violation(core.Sig{Family: cs.Family, Feature: Classify(cs, exp)},
			fmt.Sprintf("%s: real=%+v spec=%s", cs.Src, cs.Obs, exp), cs)
	}
}

// CompileFeature names the construct that made the compiler reject valid Soy.
func CompileFeature(cs *core.ExprCase) string {
	return "compile-reject"
}

func isNontrivial(e core.E) bool {
	switch e["k"] {
	case "null", "bool", "int", "float", "str":
		return false
	}
	return true
}

// checkEval: a closed expression evaluated standalone (soyhtml.EvalExpr, the
// entry point used for globals files) must agree with the render of the same
// text: an error exactly when the render fails, the same text otherwise.
func checkEval(ctx *core.Ctx, cs *core.ExprCase) {
	if !cs.Obs.EvalDone || cs.Obs.Hung || cs.Obs.Panicked || cs.Obs.CompileErr != "" {
		return
	}
	switch {
	case cs.Obs.EvalNil:
		ctx.Violation(core.Sig{Family: cs.Family, Feature: "evalexpr-nil-value-nil-error"},
			"soyhtml.EvalExpr("+cs.Src+") returned neither a value nor an error; the render says "+fmt.Sprintf("%+v", cs.Obs), cs)
	case cs.Obs.EvalErr != cs.Obs.Err && !strings.Contains(cs.Obs.ErrText, "evaluates to undefined"):
		ctx.Violation(core.Sig{Family: cs.Family, Feature: "evalexpr-disagrees-with-render,error"},
			fmt.Sprintf("soyhtml.EvalExpr(%s): error=%v (%s) but the render of the same expression: error=%v (%s)", cs.Src, cs.Obs.EvalErr, cs.Obs.EvalOut, cs.Obs.Err, cs.Obs.ErrText), cs)
	case !cs.Obs.EvalErr && !cs.Obs.Err && cs.Obs.EvalOut != cs.Obs.Out:
		ctx.Violation(core.Sig{Family: cs.Family, Feature: "evalexpr-disagrees-with-render,value"},
			fmt.Sprintf("soyhtml.EvalExpr(%s) = %q but the render of the same expression writes %q", cs.Src, cs.Obs.EvalOut, cs.Obs.Out), cs)
	}
	evalChecked++
}

var evalChecked int
