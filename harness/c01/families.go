package c01

import (
	"encoding/json"
	"fmt"
	"strings"
	"sync"
	"time"

	"verif/core"
)

// tlcCase is one case exported by SoyExprCases.tla.
type tlcCase struct {
	D map[string]interface{} `json:"d"`
	R struct {
		Skip bool                   `json:"skip"`
		E    map[string]interface{} `json:"e"`
		Vars interface{}            `json:"vars"`
		IJ   map[string]interface{} `json:"ij"`
		Glob interface{}            `json:"glob"`
		Exp  struct {
			T string `json:"t"`
			S string `json:"s"`
		} `json:"exp"`
	} `json:"r"`
}

func objOrEmpty(v interface{}) map[string]interface{} {
	if m, ok := v.(map[string]interface{}); ok {
		return m
	}
	return map[string]interface{}{}
}

func asVMap(m map[string]interface{}) map[string]core.V {
	r := map[string]core.V{}
	for k, v := range m {
		r[k] = v.(map[string]interface{})
	}
	return r
}

// EnumerateFamily runs TLC on SoyExprCases for one family and returns the cases.
func EnumerateFamily(ctx *core.Ctx, fam string, maxAcc int, workers int) ([]tlcCase, error) {
	cfg := fmt.Sprintf("CONSTANT Family = \"%s\"\nCONSTANT MaxAcc = %d\nINIT Init\nNEXT Next\nINVARIANT Emit\nINVARIANT Total\nCHECK_DEADLOCK FALSE\n", fam, maxAcc)
	res, err := ctx.RunTLC(core.TLCOpts{Module: "SoyExprCases", Cfg: cfg, Workers: workers, Timeout: 15 * time.Minute, Label: "enumerate-" + fam})
	if err != nil {
		return nil, err
	}
	if res.Violated != "" {
		return nil, fmt.Errorf("SoyExprCases %s violates %s: %s", fam, res.Violated, res.Trace)
	}
	var out []tlcCase
	for _, p := range res.Printed {
		if !strings.HasPrefix(p, "{") {
			continue
		}
		var c tlcCase
		d := json.NewDecoder(strings.NewReader(p))
		d.UseNumber()
		if err := d.Decode(&c); err != nil {
			return nil, fmt.Errorf("bad case JSON from TLC: %v: %.200s", err, p)
		}
		out = append(out, c)
	}
	if len(out) == 0 {
		return nil, fmt.Errorf("SoyExprCases %s produced no cases", fam)
	}
	return out, nil
}

var styles = []core.Style{{Parens: 0}, {Parens: 0, Tight: true}, {Parens: 1}, {Parens: 2, Tight: true}}

// ReplayFamilies enumerates the TLC families and replays them on the real code (M2).
func ReplayFamilies(ctx *core.Ctx) {
	type famSpec struct {
		name   string
		maxAcc int
	}
	fams := []famSpec{{"F1", 1}, {"F2", 1}, {"F5", ctx.Pick(2, 3)}, {"F6", 1}}
	var wg sync.WaitGroup
	results := make([][]tlcCase, len(fams))
	errs := make([]error, len(fams))
	for i, f := range fams {
		wg.Add(1)
		go func(i int, f famSpec) {
			defer wg.Done()
			results[i], errs[i] = EnumerateFamily(ctx, f.name, f.maxAcc, 4)
		}(i, f)
	}
	wg.Wait()
	counts := map[string]int{}
	for i, f := range fams {
		if errs[i] != nil {
			ctx.ToolError("family %s: %v", f.name, errs[i])
			continue
		}
		for _, tc := range results[i] {
			if tc.R.Skip {
				if f.name == "F2" {
					counts["F2-no-discriminating-triple"]++
				}
				continue
			}
			counts[f.name]++
			replayCase(ctx, f.name, tc)
		}
	}
	ctx.Extra["family_cases"] = counts
}

func replayCase(ctx *core.Ctx, fam string, tc tlcCase) {
	env := &core.Env{Vars: asVMap(objOrEmpty(tc.R.Vars)), Glob: asVMap(objOrEmpty(tc.R.Glob))}
	if tc.R.IJ["t"] == "map" {
		env.IJ = asVMap(objOrEmpty(tc.R.IJ["v"]))
	}
	e := core.E(tc.R.E)
	for si, st := range styles {
		if fam != "F2" && si > 1 {
			break // precedence spellings matter for F2; elsewhere two spellings suffice
		}
		src := core.Unparse(e, st)
		cs := &core.ExprCase{Family: fam, E: e, Env: env, Src: src}
		core.RunExprCase(cs, si%2 == 1)
		ctx.AddEvals(1)
		ctx.AddTraces(1)
		if isNontrivial(e) {
			ctx.Distinct(fam + "|" + src + "|" + fmt.Sprint(env.Vars) + fmt.Sprint(env.IJ))
		}
		cs.Exp = tc.R.Exp.T + ":" + tc.R.Exp.S
		checkEval(ctx, cs)
		feature := ""
		switch {
		case cs.Obs.CompileErr != "":
			feature = "compile-reject"
		case cs.Obs.Panicked:
			feature = "panic"
		case tc.R.Exp.T == "unspec":
		case tc.R.Exp.T == "noval":
			if !cs.Obs.Err && cs.Obs.Out != "" && cs.Obs.Out != "null" && cs.Obs.Out != "undefined" {
				feature = "text-for-an-expression-without-value"
			}
		case tc.R.Exp.T == "err" && !cs.Obs.Err:
			feature = "missing-error"
		case tc.R.Exp.T == "out" && cs.Obs.Err:
			feature = "unexpected-error"
		case tc.R.Exp.T == "out" && cs.Obs.Out != tc.R.Exp.S:
			feature = "wrong-text"
		}
		if feature != "" {
			ctx.Violation(core.Sig{Family: fam, Feature: feature + describe(fam, tc)},
				fmt.Sprintf("%s with %v: real=%+v spec=%s", src, env.Vars, cs.Obs, cs.Exp), cs)
		}
		if fam == "F2" && si == 0 && strings.ContainsAny(src, "()") {
			ctx.ToolError("F2 minimal spelling contains parentheses: %s", src)
		}
	}
	if n := len(ctx.Samples); n < 6 {
		ctx.Sample(map[string]interface{}{"family": fam, "src": core.Unparse(e, styles[0]), "vars": env.Vars, "expected": tc.R.Exp})
	}
}

// describe adds the structural coordinates of the case to the feature.
func describe(fam string, tc tlcCase) string {
	switch fam {
	case "F2":
		return fmt.Sprintf(",ops=%v/%v", tc.D["o1"], tc.D["o2"])
	case "F6":
		return fmt.Sprintf(",fn=%v", tc.D["fn"])
	case "F1":
		if op, ok := tc.D["op"]; ok {
			return fmt.Sprintf(",op=%v", op)
		}
	}
	return ""
}
