package c01

import (
	"fmt"

	"verif/core"
)

// LiteralFamily (F4): every literal class in several spellings — decimal,
// negative and hexadecimal integers, floats with point and exponent, every
// string escape, Unicode and HTML-special text, nested list/map literals,
// empty [] and [:] — and compile-time globals of every primitive kind (F7).
// The value each spelling denotes is in the tree; TLC validates the renders.
func LiteralFamily(ctx *core.Ctx) {
	type lit struct {
		e core.E
	}
	sp := func(e core.E, spell string) core.E { e["spell"] = spell; return e }
	var es []core.E
	// integers
	for _, n := range []int{0, 1, 7, 10, 255, 4095, 65535, 1000000, 2147483647 / 2} {
		es = append(es, core.EInt(n), core.EInt(-n), sp(core.EInt(n), fmt.Sprintf("0x%X", n)))
	}
	es = append(es, core.EBigInt("9007199254740991"), core.EBigInt("-9007199254740991"), core.EBigInt("2147483648"),
		sp(core.EBigInt("4294967295"), "0xFFFFFFFF"), sp(core.EBigInt("1099511627775"), "0xFFFFFFFFFF"))
	// floats: point and exponent spellings of dyadic values
	es = append(es, core.EFloat(1, 1), core.EFloat(-1, 1), core.EFloat(3, 2), core.EFloat(1, 0), core.EFloat(0, 0), core.EFloat(25, 0),
		sp(core.EFloat(3000, 0), "3e3"), sp(core.EFloat(150, 0), "1.5e2"), sp(core.EFloat(1, 1), "5e-1"), sp(core.EFloat(1, 2), "25e-2"),
		sp(core.EFloat(-3000, 0), "-3e3"), sp(core.EFloat(12, 0), "1.2e+1"), sp(core.EFloat(2097153, 1), "1048576.5"),
		sp(core.EFloat(1, 3), "0.125"), sp(core.EFloat(1, 10), "0.0009765625"), sp(core.EFloat(100000000, 0), "1e8"), sp(core.EFloat(100000000, 0), "100000000.0"))
	// strings: every escape, unicode, specials
	for _, s := range []string{"", "a", "a b", "it's", `back\slash`, "nl\nx", "cr\rx", "tab\tx", "bs\bx", "ff\fx", "é", "日本語", "😀", "<b>&\"'", "{", "}", "{{}}", "//x", "/*x*/", "a\\'b", " lead", "trail ", "\\n"} {
		es = append(es, core.EStr(s))
	}
	// raw non-ASCII text and an escape sequence in ONE literal (the unquoter's slow path)
	for _, s := range []string{"l'été", "é\n", "日\t本", "😀\\", "'é'", "ü\rö", "naïve \"q\" café", "\u00e9"} {
		es = append(es, core.EStr(s))
	}
	es = append(es, sp(core.EStr("éé"), `'\u00e9é'`), sp(core.EStr("é'日"), `'é\'\u65e5'`), sp(core.EStr("😀\n"), `'😀\n'`))
	es = append(es, sp(core.EStr("é"), `'é'`), sp(core.EStr("A"), `'A'`), sp(core.EStr("a b"), `'a b'`), sp(core.EStr("日"), `'日'`), sp(core.EStr("<"), `'<'`))
	// collections
	es = append(es, core.EList(), core.EMap(), core.EList(core.EList(), core.EMap()), core.EList(core.EInt(1), core.EStr("a"), core.EList(core.EFloat(5, 1)), core.EList(core.ENull())),
		core.EMap("a", core.EInt(5), "b", core.EList(core.EBool(true)), "c", core.EMap()), core.EMap("k", core.EMap("j", core.EStr("<v>"))),
		sp(core.EList(core.EInt(1), core.EInt(2)), "[1, 2,]"), sp(core.EMap("a", core.EInt(1)), "['a': 1,]"), sp(core.EList(core.EInt(1)), "[ 1 ]"))
	// maps whose escaped keys sit in every position, and lookups of those keys
	for _, ks := range [][]string{{"a", "it's"}, {"it's", "a"}, {"a", "b\\c", "z"}, {"k", "t\tb"}, {"x", "q\"q", "y"}, {"a", "é"}} {
		var kv []interface{}
		for i, k := range ks {
			kv = append(kv, k, core.EInt(i+1))
		}
		es = append(es, core.EMap(kv...))
		for _, k := range ks {
			es = append(es, core.EFn("isNonnull", core.EVar("mm", core.AExpr(core.EStr(k), false))))
		}
	}
	es = append(es, core.ENull(), core.EBool(true), core.EBool(false))
	glob := map[string]core.V{"G_INT": core.VInt(42), "G_NEG": core.VInt(-7), "G_STR": core.VStr("g<s>"), "G_EMPTY": core.VStr(""), "ns.G_BOOL": core.VBool(false),
		"a.b.G_FLOAT": core.VFloat(5, 1), "G_NULL": core.VNull(), "G_BIG": core.VBigInt("9007199254740991")}
	for g := range glob {
		es = append(es, core.EGlobal(g), core.EBin("add", core.EGlobal(g), core.EStr("|")), core.EFn("isNonnull", core.EGlobal(g)), core.EBin("eq", core.EGlobal(g), core.EGlobal(g)))
	}
	var cases []*core.ExprCase
	for i, e := range es {
		// bare, and as operand of a few operators so that the value (not only the text) matters
		variants := []core.E{e, core.EBin("add", e, core.EStr("|")), core.EBin("eq", e, e), core.EList(e), core.ETern(e, core.EStr("T"), core.EStr("F"))}
		for j, v := range variants {
			env := &core.Env{Vars: map[string]core.V{"mm": core.VMap(map[string]core.V{"a": core.VInt(1), "it's": core.VInt(2), "b\\c": core.VInt(3), "t\tb": core.VInt(4), "q\"q": core.VInt(5), "é": core.VInt(6)})}, Glob: glob}
			cs := &core.ExprCase{Family: "F4-literals", E: v, Env: env, Src: core.Unparse(v, core.Style{Tight: (i+j)%2 == 0})}
			core.RunExprCase(cs, j%2 == 0)
			cases = append(cases, cs)
		}
	}
	// F7b: the same primitive literals supplied through a globals FILE
	// (soy.ParseGlobals / AddGlobalsFile): "NAME = literal" lines with blank
	// lines, // comment lines and padding around them; string values may
	// contain '=', '//' and '/*' (a comment starts only at the beginning of a line)
	prims := []core.E{core.EInt(0), core.EInt(-12), sp(core.EInt(255), "0xFF"), core.EFloat(3, 1), core.EFloat(-1, 2), sp(core.EFloat(3000, 0), "3e3"),
		core.EBool(true), core.EBool(false), core.ENull(), core.EStr(""), core.EStr("plain"), core.EStr("a = b"), core.EStr("http://example.com/home"),
		core.EStr(" // "), core.EStr("//"), core.EStr("x//y"), core.EStr("/* c */"), core.EStr("it's"), core.EStr("tab\tnl\n"), core.EStr("é日😀"), core.EStr("<b>&"), core.EStr("#"), core.EStr("a;b"),
		core.EStr("trailing  "), core.EStr("  leading")}
	for i, lit := range prims {
		val := litValue(lit)
		if val == nil {
			continue
		}
		name := fmt.Sprintf("app.G%d", i)
		src := core.Unparse(lit, core.Style{})
		for j, text := range []string{
			name + " = " + src + "\n",
			"// header comment\n\n" + name + "=" + src + "\n// trailer = 1\n",
			"OTHER_A = 1\n  " + name + "   =   " + src + "   \nOTHER_B = 'x // y'\n",
			name + " = " + src, // no final newline
		} {
			g := map[string]core.V{name: val}
			if j == 2 {
				g["OTHER_A"], g["OTHER_B"] = core.VInt(1), core.VStr("x // y")
			}
			for _, v := range []core.E{core.EGlobal(name), core.EBin("add", core.EGlobal(name), core.EStr("|")), core.EBin("eq", core.EGlobal(name), lit), core.EFn("isNonnull", core.EGlobal(name))} {
				cs := &core.ExprCase{Family: "F7b-globals-file", E: v, Env: &core.Env{Vars: map[string]core.V{}, Glob: g}, Src: core.Unparse(v, core.Style{}), GlobText: text}
				core.RunExprCase(cs, false)
				cases = append(cases, cs)
			}
		}
	}
	Judge(ctx, cases)
	ctx.Extra["F4_literal_cases"] = len(cases)
}

// litValue is the value a primitive literal denotes.
func litValue(e core.E) core.V {
	switch e["k"] {
	case "int":
		return core.VInt(e["v"].(int))
	case "float":
		return core.VFloat(e["num"].(int), e["sh"].(int))
	case "str":
		return core.VStr(e["v"].(string))
	case "bool":
		return core.VBool(e["v"].(bool))
	case "null":
		return core.VNull()
	}
	return nil
}
