package c01

import (
	"fmt"

	"verif/c02"
	"verif/core"
)

// posExpr is an expression with its static type, used in every syntactic
// position that takes an expression (family F3) — chosen so that the
// expressions start with every token kind.
type posExpr struct {
	e   core.E
	typ string
}

func positionExprs() []posExpr {
	I, S, B := core.EInt, core.EStr, core.EBool
	v := func(n string, acc ...core.E) core.E { return core.EVar(n, acc...) }
	bin := core.EBin
	return []posExpr{
		{I(-1), "int"}, {core.ENeg(v("a")), "int"}, {core.ENeg(bin("add", I(1), I(2))), "int"},
		{bin("sub", I(2), I(1)), "int"}, {bin("sub", v("a"), I(1)), "int"}, {bin("sub", I(1), I(-2)), "int"},
		{bin("mul", bin("add", I(1), I(2)), I(3)), "int"}, {I(0), "int"}, {I(7), "int"},
		{core.EFn("length", v("x")), "int"}, {v("x", core.AIdx(0, false)), "int"}, {v("x", core.AExpr(I(0), true)), "int"},
		{core.ETern(v("c"), I(-1), I(-2)), "int"}, {core.EGlobal("G_INT"), "int"}, {core.ENeg(core.EGlobal("G_INT")), "int"},
		{core.EFloat(3, 1), "float"}, {core.EFloat(-3, 1), "float"}, {core.ENeg(core.EFloat(5, 2)), "float"},
		{bin("div", I(3), I(2)), "float"},
		{S("a"), "str"}, {S(""), "str"}, {S("<b>"), "str"}, {S("q\"d\\s'x"), "str"}, {bin("add", S("C:\\temp\\"), v("b")), "str"}, {v("b"), "str"}, {bin("add", S("a"), I(-1)), "str"},
		{v("m", core.AKey("b", false)), "str"}, {v("m", core.AExpr(S("b"), false)), "str"}, {core.EGlobal("G_STR"), "str"},
		{bin("elvis", v("u"), S("d")), "str"}, {v("ij", core.AKey("k", false)), "str"},
		{B(true), "bool"}, {B(false), "bool"}, {core.ENot(v("c")), "bool"}, {core.ENot(bin("eq", I(1), I(2))), "bool"},
		{bin("and", v("c"), core.ENot(v("c"))), "bool"}, {bin("lt", I(-1), I(0)), "bool"}, {bin("lt", v("a"), I(-1)), "bool"},
		{core.EFn("isNonnull", v("u")), "bool"}, {bin("eq", v("a"), I(-1)), "bool"},
		{core.ENull(), "null"}, {v("u"), "undef"}, {v("n"), "null"},
		{core.EList(I(-1), I(2)), "list"}, {core.EList(), "list"}, {v("x"), "list"}, {core.EFn("range", I(2)), "list"},
		{core.EList(core.ENeg(v("a"))), "list"},
		{core.EMap("b", I(-1)), "map"}, {core.EMap("b", S("say \"hi\""), "s", S("back\\slash")), "map"}, {core.EMap(), "map"}, {v("m"), "map"}, {core.EMap("b", core.ENeg(v("a")), "s", S("z")), "map"},
	}
}

// PositionFamily builds one program per (expression, position) and validates
// the real renders against SoyExec with TLC (family F3/F7).
func PositionFamily(ctx *core.Ctx) {
	data := map[string]core.V{
		"a": core.VInt(3), "b": core.VStr("bee"), "c": core.VBool(true), "n": core.VNull(),
		"x": core.VList(core.VInt(4), core.VInt(5)), "m": core.VMap(map[string]core.V{"b": core.VStr("mb"), "s": core.VStr("ms")}),
	}
	glob := map[string]core.V{"G_INT": core.VInt(42), "G_STR": core.VStr("gs")}
	ij := core.VMap(map[string]core.V{"k": core.VStr("inj")})
	z := func() core.E { return core.EVar("z") }
	var cases []*core.ProgCase
	for ei, pe := range positionExprs() {
		e := pe.e
		type pos struct {
			name string
			body []core.Cmd
			ok   bool
		}
		T, F := core.CText("T"), core.CText("F")
		positions := []pos{
			{"print", []core.Cmd{core.CPrint(e)}, true},
			{"print-explicit", []core.Cmd{func() core.Cmd { c := core.CPrint(e); c["explicit"] = true; return c }()}, true},
			{"if", []core.Cmd{core.CIf([]core.Cmd{core.CBr(e, []core.Cmd{T})}, core.Opt(true, []core.Cmd{F}))}, true},
			{"elseif", []core.Cmd{core.CIf([]core.Cmd{core.CBr(core.EBool(false), []core.Cmd{F}), core.CBr(e, []core.Cmd{T})}, core.Opt(true, []core.Cmd{F}))}, true},
			{"let", []core.Cmd{core.CLetV("z", e), core.CPrint(core.EFn("isNonnull", z())), core.CPrint(core.EBin("elvis", z(), core.EStr("?")))}, true},
			{"param", []core.Cmd{core.CCall("t.c", "none", nil, core.CPV("z", e))}, true},
			{"param-attr", []core.Cmd{func() core.Cmd {
				c := core.CCall("t.c", "none", nil, core.CPV("z", e))
				c["paramattrs"] = true
				return c
			}()}, true},
			{"case", []core.Cmd{core.CSwitch(e, []core.Cmd{core.CCase([]core.E{core.EStr("zz"), e}, []core.Cmd{T})}, core.Opt(true, []core.Cmd{F}))}, true},
			{"list-elem", []core.Cmd{core.CLetV("z", core.EList(core.EInt(0), e)), core.CPrint(core.EFn("length", z()))}, true},
			{"map-value", []core.Cmd{core.CLetV("z", core.EMap("k", e)), core.CPrint(core.EFn("isNonnull", core.EVar("z", core.AKey("k", false))))}, true},
			{"fn-arg", []core.Cmd{core.CPrint(core.EFn("isNonnull", e))}, true},
			{"msg", []core.Cmd{core.CMsg("d", []core.Cmd{core.CText("M"), core.CPrint(e)})}, true},
			{"dir-arg", []core.Cmd{core.CPrint(core.EStr("abcdefghij"), core.CDir("truncate", e))}, pe.typ == "int"},
			{"dir-arg2", []core.Cmd{core.CPrint(core.EStr("abcdefghij"), core.CDir("truncate", core.EInt(5), e))}, pe.typ == "bool"},
			{"foreach", []core.Cmd{core.CForeach("foreach", "q", e, []core.Cmd{core.CPrint(core.EVar("q")), core.CText(",")}, core.Opt(true, []core.Cmd{F}))}, pe.typ == "list"},
			{"for-range", []core.Cmd{core.CForeach("for", "q", core.EFn("range", e), []core.Cmd{core.CPrint(core.EVar("q"))}, core.Opt(false, nil))}, pe.typ == "int"},
			{"for-range2", []core.Cmd{core.CForeach("for", "q", core.EFn("range", e, core.EInt(4)), []core.Cmd{core.CPrint(core.EVar("q"))}, core.Opt(false, nil))}, pe.typ == "int"},
			{"index", []core.Cmd{core.CPrint(core.EBin("elvis", core.EVar("x", core.AExpr(e, true)), core.EStr("none")))}, pe.typ == "int"},
			{"key", []core.Cmd{core.CPrint(core.EBin("elvis", core.EVar("m", core.AExpr(e, true)), core.EStr("none")))}, pe.typ == "str"},
			{"css", []core.Cmd{core.CCss(e, "suf")}, pe.typ == "str" || pe.typ == "int"},
			{"call-data", []core.Cmd{core.CCall("t.d", "expr", e)}, pe.typ == "map"},
			{"let-content", []core.Cmd{core.CLetC("w", []core.Cmd{core.CText("["), core.CPrint(e), core.CText("]")}), core.CPrint(core.EVar("w"))}, pe.typ != "undef"},
			{"param-content", []core.Cmd{core.CCall("t.c", "none", nil, core.CPC("z", []core.Cmd{core.CPrint(e), core.CText("|")}))}, pe.typ != "undef"},
			{"log-content", []core.Cmd{core.CLog([]core.Cmd{core.CPrint(e)}), T}, pe.typ != "undef"},
			{"nested-content", []core.Cmd{core.CLetC("w", []core.Cmd{core.CCall("t.c", "none", nil, core.CPC("z", []core.Cmd{core.CLog([]core.Cmd{core.CPrint(e)}), core.CPrint(e)}))}), core.CPrint(core.EVar("w"))}, pe.typ != "undef"},
			{"callee-from-content", []core.Cmd{core.CLetC("w", []core.Cmd{core.CCall("t.c", "none", nil, core.CPV("z", e))}), core.CPrint(core.EVar("w")),
				core.CCall("t.c", "none", nil, core.CPC("z", []core.Cmd{core.CCall("t.c", "none", nil, core.CPV("z", e))}))}, true},
			{"ij-in-callee-from-content", []core.Cmd{core.CLetC("w", []core.Cmd{core.CCall("t.i", "none", nil)}), core.CPrint(core.EVar("w")),
				core.CCall("t.c", "none", nil, core.CPC("z", []core.Cmd{core.CCall("t.i", "all", nil)})), core.CLog([]core.Cmd{core.CCall("t.i", "none", nil)})}, ei == 0},
			{"tern-branch", []core.Cmd{core.CPrint(core.ETern(core.EVar("c"), e, e))}, pe.typ != "undef"},
		}
		// a print through every directive: an undefined value is an error whatever
		// directive follows (the other values are judged where the model knows the directive)
		for _, dn := range []string{"json", "id", "noAutoescape", "escapeHtml", "escapeUri", "escapeJsString", "changeNewlineToBr", "text", "bidiSpanWrap"} {
			positions = append(positions, pos{"print-dir-" + dn, []core.Cmd{core.CPrint(e, core.CDir(dn))}, pe.typ == "undef" || pe.typ == "null" || ei%7 == 0})
		}
		positions = append(positions, pos{"print-dir-truncate", []core.Cmd{core.CPrint(e, core.CDir("truncate", core.EInt(3)))}, pe.typ == "undef" || ei%7 == 0},
			pos{"print-dir-insertWordBreaks", []core.Cmd{core.CPrint(e, core.CDir("insertWordBreaks", core.EInt(3)))}, pe.typ == "undef" || ei%7 == 0},
			pos{"print-dir-chain", []core.Cmd{core.CPrint(e, core.CDir("noAutoescape"), core.CDir("json"))}, pe.typ == "undef" || ei%7 == 0})
		for _, po := range positions {
			if !po.ok {
				continue
			}
			body := append([]core.Cmd{}, po.body...)
			// keep every declared param used
			body = append(body, core.CLog([]core.Cmd{
				core.CPrint(core.EVar("a")), core.CPrint(core.EVar("b")), core.CPrint(core.EVar("c")),
				core.CPrint(core.EFn("isNonnull", core.EVar("n"))), core.CPrint(core.EFn("isNonnull", core.EVar("u"))),
				core.CPrint(core.EFn("length", core.EVar("x"))), core.CPrint(core.EFn("isNonnull", core.EVar("m")))}))
			p := &core.Program{
				Bundle: map[string]*core.Tmpl{
					"t.m": {Params: []core.Param{{Name: "a"}, {Name: "b"}, {Name: "c"}, {Name: "n"}, {Name: "u", Opt: true}, {Name: "x"}, {Name: "m"}}, Body: body, TA: "false"},
					"t.c": {Params: []core.Param{{Name: "z", Opt: true}}, Body: []core.Cmd{core.CPrint(core.EFn("isNonnull", z())), core.CPrint(core.EBin("elvis", z(), core.EStr("?")))}, TA: "false"},
					"t.i": {Params: []core.Param{}, Body: []core.Cmd{core.CPrint(core.EVar("ij", core.AKey("k", false))), core.CLetC("v", []core.Cmd{core.CPrint(core.EVar("ij", core.AKey("k", false)))}), core.CPrint(core.EVar("v"))}, TA: "false"},
					"t.d": {Params: []core.Param{{Name: "b", Opt: true}, {Name: "s", Opt: true}}, Body: []core.Cmd{core.CPrint(core.EBin("elvis", core.EVar("b"), core.EStr("nob"))), core.CPrint(core.EBin("elvis", core.EVar("s"), core.EStr("nos")))}, TA: "false"},
				},
				Entry: "t.m", Data: data, IJ: ij, Glob: glob, Plan: map[string]interface{}{"kind": "none"},
			}
			cs := &core.ProgCase{Family: fmt.Sprintf("F3-position=%s", po.name), Prog: p}
			core.RunProgCase(cs, core.Style{Tight: ei%2 == 0})
			cases = append(cases, cs)
		}
	}
	// a compile failure here is a valid expression rejected in that position
	var ok []*core.ProgCase
	for _, cs := range cases {
		if cs.Obs.CompileErr != "" {
			ctx.AddEvals(1)
			ctx.Violation(core.Sig{Family: cs.Family, Feature: "compile-reject"},
				"valid expression rejected in this position: "+cs.Obs.CompileErr+"\n"+cs.Files[0].Text, cs)
			continue
		}
		ok = append(ok, cs)
	}
	c02.Judge(ctx, ok)
	ctx.Extra["F3_position_cases"] = len(cases)
}
