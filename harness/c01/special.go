package c01

import (
	"verif/core"
)

// SpecialFamily (F8): expressions whose value is a zero float reached from
// the negative side (IEEE -0.0: the language prints it as "0", it equals 0 and
// is falsy), results on the boundary between int and float arithmetic, and the
// same values used as operands, list elements, map values and conditions.
func SpecialFamily(ctx *core.Ctx) {
	f0 := core.EVar("f") // 0.0 from data
	z := core.EVar("z")  // int 0 from data
	h := core.EVar("h")  // 0.5
	neg := core.ENeg
	mul := func(a, b core.E) core.E { return core.EBin("mul", a, b) }
	div := func(a, b core.E) core.E { return core.EBin("div", a, b) }
	zeros := []core.E{
		neg(f0), neg(core.EFloat(0, 0)), mul(f0, core.EInt(-1)), mul(core.EInt(-1), f0), mul(core.EFloat(0, 0), core.EInt(-1)),
		mul(z, core.EFloat(-3, 1)), mul(core.EFloat(-3, 1), z), div(f0, core.EInt(-2)), div(z, core.EInt(-2)), div(z, core.EFloat(-1, 1)),
		mul(neg(f0), core.EInt(1)), neg(neg(f0)), core.EBin("sub", neg(f0), f0), core.EBin("add", neg(f0), f0), core.EBin("sub", core.EFloat(0, 0), f0),
		mul(neg(h), z), mul(neg(h), f0), neg(mul(h, z)), neg(z), mul(z, core.EInt(-1)),
		core.EFn("round", neg(f0)), core.EFn("floor", neg(f0)), core.EFn("ceiling", neg(f0)), core.EFn("ceiling", neg(h)), core.EFn("round", core.EFloat(-1, 2)),
		core.EFn("min", neg(f0), f0), core.EFn("max", neg(f0), z), core.EFn("min", z, neg(f0)), core.EFn("max", f0, neg(f0)),
		core.ETern(core.EBool(true), neg(f0), f0), core.EBin("elvis", neg(f0), core.EInt(1)),
	}
	var cases []*core.ExprCase
	for i, e := range zeros {
		variants := []core.E{e, core.EBin("add", e, core.EStr("|")), core.EBin("add", core.EStr("|"), e), core.EBin("eq", e, core.EInt(0)), core.EBin("eq", e, core.EFloat(0, 0)),
			core.EBin("eq", e, f0), core.EBin("lt", e, core.EInt(0)), core.EBin("ge", e, f0), core.EList(e), core.EMap("k", e), core.ETern(e, core.EStr("T"), core.EStr("F")),
			core.ENot(e), core.EBin("and", e, core.EStr("x")), core.EBin("or", e, core.EStr("x")), core.EBin("add", e, core.EInt(1)), core.EBin("mul", e, core.EInt(5)), neg(e)}
		for j, v := range variants {
			env := &core.Env{Vars: map[string]core.V{"f": core.VFloat(0, 0), "z": core.VInt(0), "h": core.VFloat(1, 1)}, Glob: map[string]core.V{}}
			cs := &core.ExprCase{Family: "F8-special", E: v, Env: env, Src: core.Unparse(v, core.Style{Tight: (i+j)%2 == 0})}
			core.RunExprCase(cs, j%3 == 0)
			cases = append(cases, cs)
		}
	}
	Judge(ctx, cases)
	ctx.Extra["F8_special_cases"] = len(cases)
}
