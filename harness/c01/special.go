package c01

import (
	"encoding/json"
	"fmt"
	"math"
	"math/rand"
	"regexp"
	"strconv"
	"strings"
	"time"

	"github.com/robfig/soy/data"

	"verif/core"
)

// SpecialFamily (F8): expressions whose value is a zero float reached from
// the negative side (IEEE -0.0: the language prints it as "0", it equals 0 and
// is falsy), results on the boundary between int and float arithmetic, and the
// same values used as operands, list elements, map values and conditions.
func SpecialFamily(ctx *core.Ctx) {
	f0 := core.EVar("f") // 0.0 from data
	z := core.EVar("z")  // int 0 from data
	h := core.EVar("h")  // 0.5
	neg := core.ENeg
	mul := func(a, b core.E) core.E { return core.EBin("mul", a, b) }
	div := func(a, b core.E) core.E { return core.EBin("div", a, b) }
	zeros := []core.E{
		neg(f0), neg(core.EFloat(0, 0)), mul(f0, core.EInt(-1)), mul(core.EInt(-1), f0), mul(core.EFloat(0, 0), core.EInt(-1)),
		mul(z, core.EFloat(-3, 1)), mul(core.EFloat(-3, 1), z), div(f0, core.EInt(-2)), div(z, core.EInt(-2)), div(z, core.EFloat(-1, 1)),
		mul(neg(f0), core.EInt(1)), neg(neg(f0)), core.EBin("sub", neg(f0), f0), core.EBin("add", neg(f0), f0), core.EBin("sub", core.EFloat(0, 0), f0),
		mul(neg(h), z), mul(neg(h), f0), neg(mul(h, z)), neg(z), mul(z, core.EInt(-1)),
		core.EFn("round", neg(f0)), core.EFn("floor", neg(f0)), core.EFn("ceiling", neg(f0)), core.EFn("ceiling", neg(h)), core.EFn("round", core.EFloat(-1, 2)),
		core.EFn("min", neg(f0), f0), core.EFn("max", neg(f0), z), core.EFn("min", z, neg(f0)), core.EFn("max", f0, neg(f0)),
		core.ETern(core.EBool(true), neg(f0), f0), core.EBin("elvis", neg(f0), core.EInt(1)),
	}
	var cases []*core.ExprCase
	for i, e := range zeros {
		variants := []core.E{e, core.EBin("add", e, core.EStr("|")), core.EBin("add", core.EStr("|"), e), core.EBin("eq", e, core.EInt(0)), core.EBin("eq", e, core.EFloat(0, 0)),
			core.EBin("eq", e, f0), core.EBin("lt", e, core.EInt(0)), core.EBin("ge", e, f0), core.EList(e), core.EMap("k", e), core.ETern(e, core.EStr("T"), core.EStr("F")),
			core.ENot(e), core.EBin("and", e, core.EStr("x")), core.EBin("or", e, core.EStr("x")), core.EBin("add", e, core.EInt(1)), core.EBin("mul", e, core.EInt(5)), neg(e)}
		for j, v := range variants {
			env := &core.Env{Vars: map[string]core.V{"f": core.VFloat(0, 0), "z": core.VInt(0), "h": core.VFloat(1, 1)}, Glob: map[string]core.V{}}
			cs := &core.ExprCase{Family: "F8-special", E: v, Env: env, Src: core.Unparse(v, core.Style{Tight: (i+j)%2 == 0})}
			core.RunExprCase(cs, j%3 == 0)
			cases = append(cases, cs)
		}
	}
	Judge(ctx, cases)
	ctx.Extra["F8_special_cases"] = len(cases)
}

var reJSNumber = regexp.MustCompile(`^-?(\d+(\.\d+)?|\d(\.\d+)?e[+-]\d+)$`)

// FloatTextFamily (F9): floats whose text the model does not compute (the
// exponent forms below 1e-6 and from 1e21 on, and long positional fractions).
// The language's number-to-text is the shortest decimal that reads back as the
// same number; a NECESSARY condition that needs no model of the algorithm is
// checked on the real output: it is a JavaScript number literal and it reads
// back (strconv.ParseFloat) to exactly the value printed. This part of C01 is
// decided outside the TLA+ model (TLC has 32-bit integers, no floats); C04
// compares the same values with the generated JavaScript's text.
func FloatTextFamily(ctx *core.Ctx) {
	r := rand.New(rand.NewSource(ctx.Seed))
	vals := []float64{1e-10, 1e-7, 1.5e-7, 9.999e-7, math.Pow(2, -33), math.Pow(2, -60), 5e-324, 2.2250738585072014e-308, 1e21, 1e22, 1e30, 1.5e21, 123456789e20,
		1.7976931348623157e308, 1e100, 1e-100, 1e-20, 1e20, 1e-6, 0.1, 0.2 + 0.1, 1.0 / 3, 2.0 / 3, 100.0 / 7, 1e15 + 0.5, 123456789.123456789, 4.35, 0.000001234, 1e300 * 10}
	for i := 0; i < ctx.Pick(300, 20000); i++ {
		f := math.Float64frombits(r.Uint64())
		if math.IsNaN(f) || math.IsInf(f, 0) {
			continue
		}
		vals = append(vals, f)
		vals = append(vals, math.Pow(10, float64(r.Intn(80)-40))*float64(1+r.Intn(9999)))
	}
	comp, err, _ := core.Compile([]core.File{{Name: "t.soy", Text: "{namespace t}\n/** @param f */\n{template .m autoescape=\"false\"}\n{$f}|{$f + ''}|{-$f}|{[$f]}\n{/template}\n"}}, nil)
	if err != nil {
		ctx.ToolError("float text family does not compile: %v", err)
		return
	}
	n := 0
	for _, f := range vals {
		if math.IsInf(f, 0) || f == 0 {
			continue
		}
		res := comp.Render("t.m", data.Map{"f": data.Float(f)}, nil)
		ctx.AddEvals(1)
		n++
		if res.Err != nil {
			ctx.Violation(core.Sig{Family: "F9-float-text", Feature: "unexpected-error"}, fmt.Sprintf("printing the float %v failed: %v", f, res.Err), map[string]interface{}{"float_bits": math.Float64bits(f)})
			continue
		}
		parts := strings.Split(res.Out, "|")
		if len(parts) != 4 {
			ctx.Violation(core.Sig{Family: "F9-float-text", Feature: "wrong-shape"}, fmt.Sprintf("float %v rendered %q", f, res.Out), map[string]interface{}{"float_bits": math.Float64bits(f)})
			continue
		}
		want := []float64{f, f, -f, f}
		for k, p := range parts {
			if k == 3 {
				p = strings.TrimSuffix(strings.TrimPrefix(p, "["), "]")
			}
			back, perr := strconv.ParseFloat(p, 64)
			switch {
			case !reJSNumber.MatchString(p):
				ctx.Violation(core.Sig{Family: "F9-float-text", Feature: "not-a-number-literal"}, fmt.Sprintf("float %v printed as %q (position %d), not a number in the language's format", f, p, k), map[string]interface{}{"float_bits": math.Float64bits(f), "out": res.Out})
			case perr != nil || back != want[k]:
				ctx.Violation(core.Sig{Family: "F9-float-text", Feature: "text-denotes-another-number"}, fmt.Sprintf("float %v printed as %q (position %d), which reads back as %v", want[k], p, k, back), map[string]interface{}{"float_bits": math.Float64bits(f), "out": res.Out})
			}
		}
		ctx.Distinct(fmt.Sprint("F9:", math.Float64bits(f)))
	}
	ctx.Extra["F9_float_text_cases"] = n
}

// NaNFamily (F10): SoyNaN.tla states what the language fixes for the
// not-a-number float (unordered under every comparison, != true, falsy) and
// exports every (operator, operand, operand) and condition case; NaN is
// spelled ($z / $z) with $z = 0 and the cases are rendered by the real code.
func NaNFamily(ctx *core.Ctx) {
	cfg := func(dev string, emit bool) string {
		s := "CONSTANT Dev = {" + dev + "}\nINIT Init\nNEXT Next\nINVARIANT NaNUnordered\nINVARIANT NaNFalsy\nCHECK_DEADLOCK FALSE\n"
		if emit {
			s += "INVARIANT EmitCase\n"
		}
		return s
	}
	res, err := ctx.RunTLC(core.TLCOpts{Module: "SoyNaN", Cfg: cfg("", true), Workers: 1, Timeout: 3 * time.Minute, Label: "nan-reference"})
	if err != nil {
		ctx.ToolError("%v", err)
		return
	}
	if res.Violated != "" {
		ctx.ToolError("SoyNaN reference violates %s", res.Violated)
		return
	}
	for _, dev := range []string{"nan_counts_as_equal", "nan_truthy"} {
		r, err := ctx.RunTLC(core.TLCOpts{Module: "SoyNaN", Cfg: cfg(`"`+dev+`"`, false), Workers: 1, Timeout: 3 * time.Minute, Label: "nan-deviation-" + dev})
		if err != nil {
			ctx.ToolError("%v", err)
			continue
		}
		if r.Violated == "" {
			ctx.ToolError("SoyNaN deviation %s not caught", dev)
		}
	}
	spell := map[string]string{"nan": "($z / $z)", "zero": "$z", "one": "1", "minus": "-1", "half": "0.5"}
	ops := map[string]string{"lt": "<", "le": "<=", "gt": ">", "ge": ">=", "eq": "==", "ne": "!="}
	n := 0
	for _, p := range res.Printed {
		if !strings.HasPrefix(p, "{") {
			continue
		}
		var c struct {
			C struct {
				Kind, Op, A, B string
			} `json:"c"`
			Exp bool `json:"exp"`
		}
		if err := json.Unmarshal([]byte(p), &c); err != nil {
			ctx.ToolError("bad JSON from SoyNaN: %v", err)
			return
		}
		a := spell[c.C.A]
		var body, want string
		tf := map[bool]string{true: "true", false: "false"}
		switch c.C.Kind {
		case "cmp":
			body, want = "{"+a+" "+ops[c.C.Op]+" "+spell[c.C.B]+"}|{$w "+ops[c.C.Op]+" "+spell[c.C.B]+"}", tf[c.Exp]
			if c.C.A != "nan" {
				body = "{" + a + " " + ops[c.C.Op] + " " + spell[c.C.B] + "}|{" + a + " " + ops[c.C.Op] + " " + strings.ReplaceAll(spell[c.C.B], "($z / $z)", "$w") + "}"
			}
			want = want + "|" + want
		case "tern":
			body, want = "{"+a+" ? 'true' : 'false'}", tf[c.Exp]
		case "not":
			body, want = "{not "+a+"}", tf[c.Exp]
		case "if":
			body, want = "{if "+a+"}true{else}false{/if}", tf[c.Exp]
		case "and":
			body, want = "{("+a+" and true) ? 'true' : 'false'}", tf[c.Exp]
		case "or":
			body, want = "{("+a+" or false) ? 'true' : 'false'}", tf[c.Exp]
		}
		src := "{namespace t}\n/** @param z\n @param w */\n{template .m autoescape=\"false\"}\n" + body + "{if $w or $z}{/if}\n{/template}\n"
		comp, cerr, _ := core.Compile([]core.File{{Name: "t.soy", Text: src}}, nil)
		ctx.AddEvals(1)
		if cerr != nil {
			ctx.Violation(core.Sig{Family: "F10-nan", Feature: "compile-reject"}, "valid expression rejected: "+body+": "+cerr.Error(), map[string]interface{}{"src": src})
			continue
		}
		for _, z := range []data.Value{data.Int(0), data.Float(0)} {
			r := comp.Render("t.m", data.Map{"z": z, "w": data.Float(math.NaN())}, nil)
			n++
			ctx.AddTraces(1)
			switch {
			case r.Err != nil:
				ctx.Violation(core.Sig{Family: "F10-nan", Feature: "unexpected-error,kind=" + c.C.Kind + ",op=" + c.C.Op}, fmt.Sprintf("%s with $z = %v: %v", body, z, r.Err), map[string]interface{}{"src": src})
			case r.Out != want:
				ctx.Violation(core.Sig{Family: "F10-nan", Feature: "wrong-text,kind=" + c.C.Kind + ",op=" + c.C.Op + ",a=" + c.C.A + ",b=" + c.C.B},
					fmt.Sprintf("%s with $z = %v ($w = NaN as data) renders %q; the language says %q (NaN is unordered, != to everything, falsy)", body, z, r.Out, want), map[string]interface{}{"src": src})
			}
		}
		ctx.Distinct("F10:" + body)
	}
	if n == 0 {
		ctx.ToolError("SoyNaN exported no cases")
	}
	ctx.Extra["F10_nan_cases"] = n
}
