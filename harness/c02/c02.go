// Package c02 decides property C02: commands, variable scoping and calls
// behave as the language defines. SoyExec.tla (small-step reference
// interpreter) is the oracle.
package c02

import (
	"fmt"
	"math/rand"
	"strings"

	"verif/core"
)

// Run is the entry point for C02.
func Run(ctx *core.Ctx) {
	ctx.Rule = "cases: (a) the interaction families of SoyExecFamilies.tla - every (enclosing block x binder x use site x shadowing) program, model-checked on the reference interpreter and on four named deviations (each must change some outcome), replayed on the real code; (b) whole bundles (2-4 templates over 2 namespaces/files, nesting depth<=3, names drawn from an 8-name pool so params, lets and loop variables collide) with data satisfying the declared params; each is rendered by the real code and TLC runs the reference interpreter SoyExec on it; non-trivial = contains a binder (let/foreach/param) or a call; distinct by source text + data"
	ctx.Assumptions = append(ctx.Assumptions,
		"oracle = SoyExec.tla + SoyExpr.tla; programs whose run reaches an Unspec expression are not judged",
		"failing renders are compared on error/no-error only")
	Families(ctx)
	RandomTraces(ctx, ctx.Pick(1500, 30000))
}

// RandomTraces records n random renders and validates them with TLC (M3).
func RandomTraces(ctx *core.Ctx, n int) {
	r := rand.New(rand.NewSource(ctx.Seed))
	batch := 1500
	for done := 0; done < n; done += batch {
		k := batch
		if n-done < k {
			k = n - done
		}
		var cases []*core.ProgCase
		for i := 0; i < k; i++ {
			g := &core.ProgGen{R: r, MaxDepth: 1 + r.Intn(3)}
			p := g.Gen()
			cs := &core.ProgCase{Family: "M3-random", Prog: p}
			core.RunProgCase(cs, core.Style{Parens: r.Intn(2), Tight: r.Intn(3) == 0})
			cases = append(cases, cs)
		}
		Judge(ctx, cases)
	}
}

func src(cs *core.ProgCase) string {
	var b strings.Builder
	for _, f := range cs.Files {
		b.WriteString(f.Text)
	}
	return b.String()
}

// Judge validates observed cases with TLC and reports violations.
func Judge(ctx *core.Ctx, cases []*core.ProgCase) {
	ctx.AddEvals(int64(len(cases)))
	var ok []*core.ProgCase
	rejects := 0
	for _, cs := range cases {
		if cs.Obs.CompileErr != "" {
			rejects++
			if rejects <= 3 {
				ctx.ToolError("generated bundle rejected by the compiler (generator or checker problem): %s\n%s", cs.Obs.CompileErr, src(cs))
			}
			continue
		}
		ctx.Distinct(src(cs) + fmt.Sprint(cs.Prog.Data))
		ok = append(ok, cs)
	}
	if len(ok) == 0 {
		return
	}
	bad, _, err := ctx.ValidateProgTrace(ok, "")
	if err != nil {
		ctx.ToolError("%v", err)
		return
	}
	for i, cs := range ok {
		if i < 2 {
			ctx.Sample(map[string]interface{}{"files": cs.Files, "data": cs.Prog.Data, "obs": cs.Obs})
		}
		exp, isBad := bad[i]
		if !isBad {
			continue
		}
		cs.ExpSt, cs.ExpOut = exp[0], exp[1]
		ctx.Violation(core.Sig{Family: cs.Family, Feature: Classify(cs)},
			fmt.Sprintf("real: err=%v out=%q (%s)  spec: status=%s out=%q\n%s data=%v", cs.Obs.Err, cs.Obs.Out, cs.Obs.ErrText, cs.ExpSt, cs.ExpOut, src(cs), cs.Prog.Data), cs)
	}
}

// Classify gives the structural feature of a disagreement.
func Classify(cs *core.ProgCase) string {
	switch {
	case cs.Obs.Panicked:
		return "panic"
	case cs.Obs.Err && cs.ExpSt == "ok":
		return "unexpected-error"
	case !cs.Obs.Err && cs.ExpSt == "err":
		return "missing-error"
	default:
		return "wrong-output"
	}
}
