// Package c02 decides property C02: commands, variable scoping and calls
// behave as the language defines. SoyExec.tla (small-step reference
// interpreter) is the oracle.
package c02

import (
	"bytes"
	"encoding/json"
	"fmt"
	"math/rand"
	"regexp"
	"strconv"
	"strings"
	"time"

	"verif/core"
)

// Run is the entry point for C02.
func Run(ctx *core.Ctx) {
	ctx.Rule = "cases: (a) the interaction families of SoyExecFamilies.tla - every (enclosing block x binder x use site x shadowing) program, model-checked on the reference interpreter and on four named deviations (each must change some outcome), replayed on the real code; (b) recursion families (direct, mutual, through data=all / data=expr, inside loops with content params) on a decreasing argument 0..5; (c) whole bundles (2-4 templates over 2 namespaces/files, nesting depth<=3, names drawn from an 8-name pool so params, lets and loop variables collide) with data satisfying the declared params; each is rendered by the real code and TLC runs the reference interpreter SoyExec on it; non-trivial = contains a binder (let/foreach/param) or a call; distinct by source text + data"
	ctx.Assumptions = append(ctx.Assumptions,
		"oracle = SoyExec.tla + SoyExpr.tla; programs whose run reaches an Unspec expression are not judged",
		"failing renders are compared on error/no-error only")
	Families(ctx)
	RecursionFamily(ctx)
	SwitchValuesFamily(ctx)
	ChainFamily(ctx)
	LoopHelperFamily(ctx)
	RandomTraces(ctx, ctx.Pick(1500, 60000))
}

// RandomTraces records n random renders and validates them with TLC (M3).
func RandomTraces(ctx *core.Ctx, n int) {
	r := rand.New(rand.NewSource(ctx.Seed))
	batch := 1500
	for done := 0; done < n; done += batch {
		k := batch
		if n-done < k {
			k = n - done
		}
		var cases []*core.ProgCase
		for i := 0; i < k; i++ {
			g := &core.ProgGen{R: r, MaxDepth: 1 + r.Intn(3), Rich: true}
			p := g.Gen()
			cs := &core.ProgCase{Family: "M3-random", Prog: p}
			core.RunProgCase(cs, core.Style{Parens: r.Intn(2), Tight: r.Intn(3) == 0})
			cases = append(cases, cs)
		}
		Judge(ctx, cases)
	}
}

func src(cs *core.ProgCase) string {
	var b strings.Builder
	for _, f := range cs.Files {
		b.WriteString(f.Text)
	}
	return b.String()
}

// Judge validates observed cases with TLC and reports violations.
func Judge(ctx *core.Ctx, cases []*core.ProgCase) {
	ctx.AddEvals(int64(len(cases)))
	var ok, rejected []*core.ProgCase
	for _, cs := range cases {
		if cs.Obs.CompileErr != "" {
			rejected = append(rejected, cs)
			continue
		}
		ctx.Distinct(src(cs) + fmt.Sprint(cs.Prog.Data))
		ok = append(ok, cs)
	}
	judgeRejected(ctx, rejected)
	if len(ok) == 0 {
		return
	}
	bad, _, err := ctx.ValidateProgTrace(ok, "")
	if err != nil {
		ctx.ToolError("%v", err)
		return
	}
	for i, cs := range ok {
		if i < 2 {
			ctx.Sample(map[string]interface{}{"files": cs.Files, "data": cs.Prog.Data, "obs": cs.Obs})
		}
		exp, isBad := bad[i]
		if !isBad {
			continue
		}
		cs.ExpSt, cs.ExpOut = exp[0], exp[1]
		ctx.Violation(core.Sig{Family: cs.Family, Feature: Classify(cs)},
			fmt.Sprintf("real: err=%v out=%q (%s)  spec: status=%s out=%q\n%s data=%v", cs.Obs.Err, cs.Obs.Out, cs.Obs.ErrText, cs.ExpSt, cs.ExpOut, src(cs), cs.Prog.Data), cs)
	}
}

// Classify gives the structural feature of a disagreement.
func Classify(cs *core.ProgCase) string {
	switch {
	case cs.Obs.Panicked:
		return "panic"
	case cs.Obs.Err && cs.ExpSt == "ok":
		return "unexpected-error"
	case !cs.Obs.Err && cs.ExpSt == "err":
		return "missing-error"
	default:
		return "wrong-output"
	}
}

var reBadV = regexp.MustCompile(`^<<"BAD", (\d+), "(\w+)">>$`)

// judgeRejected: a generated bundle the compiler rejects is a violation if the
// data-reference rules (SoyCheck.Verdict, evaluated by TLC) say it is valid —
// e.g. a call through an alias that no longer resolves — and a generator
// problem (tool error) otherwise.
func judgeRejected(ctx *core.Ctx, rejected []*core.ProgCase) {
	if len(rejected) == 0 {
		return
	}
	var buf bytes.Buffer
	for _, cs := range rejected {
		b, _ := json.Marshal(map[string]interface{}{"bundle": cs.Prog.Bundle, "accepted": false})
		buf.Write(b)
		buf.WriteByte('\n')
	}
	cfg := "CONSTANT Dev = {}\nINIT Init7\nNEXT Next7\nINVARIANT Report7\nCHECK_DEADLOCK FALSE\n"
	res, err := ctx.RunTLC(core.TLCOpts{Module: "C07Trace", Cfg: cfg, Files: map[string][]byte{"c07_trace.ndjson": buf.Bytes()},
		Workers: 1, Timeout: 5 * time.Minute, Label: "verdict-of-rejected-bundles"})
	if err != nil {
		ctx.ToolError("%v", err)
		return
	}
	valid := map[int]bool{}
	for _, t := range res.Tuples {
		if m := reBadV.FindStringSubmatch(t); m != nil && m[2] == "valid" {
			i, _ := strconv.Atoi(m[1])
			valid[i-1] = true
		}
	}
	nerr := 0
	for i, cs := range rejected {
		if valid[i] {
			ctx.Violation(core.Sig{Family: cs.Family, Feature: "valid-bundle-rejected"},
				"a bundle that satisfies the rules is rejected: "+cs.Obs.CompileErr+"\n"+src(cs), cs)
		} else if nerr < 3 {
			nerr++
			ctx.ToolError("generated bundle rejected by the compiler and not valid by the rules (generator problem): %s\n%s", cs.Obs.CompileErr, src(cs))
		}
	}
}
