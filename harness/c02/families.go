package c02

import (
	"encoding/json"
	"fmt"
	"sort"
	"strings"
	"sync"
	"time"

	"verif/core"
)

// FamCase is one program of SoyExecFamilies.tla with the spec's expectations.
type FamCase struct {
	D       map[string]interface{} `json:"d"`
	Prog    *core.Program          `json:"prog"`
	Verdict string                 `json:"verdict"`
	Status  string                 `json:"status"`
	Out     string                 `json:"out"`
}

// Key identifies the family member.
func (f *FamCase) Key() string {
	return fmt.Sprintf("blk=%v,binder=%v,use=%v,shadow=%v", f.D["blk"], f.D["binder"], f.D["use"], f.D["shadow"])
}

// EnumerateFamilies model-checks SoyExec on the interaction families (with
// the given deviation set, "" for the reference) and returns the programs
// with their expected outcomes.
func EnumerateFamilies(ctx *core.Ctx, dev string) ([]*FamCase, error) {
	cfg := "CONSTANT Dev = {" + dev + "}\nINIT FInit\nNEXT FNext\nINVARIANT EmitCase\nINVARIANT FramesOK\nINVARIANT InputUnchanged\nINVARIANT Consequent\n"
	label := "families-reference"
	if dev != "" {
		label = "families-deviation-" + strings.Trim(dev, `"`)
		cfg = strings.Replace(cfg, "INVARIANT Consequent\n", "", 1)
	}
	res, err := ctx.RunTLC(core.TLCOpts{Module: "SoyExecFamilies", Cfg: cfg, Workers: 1, Timeout: 10 * time.Minute, Label: label})
	if err != nil {
		return nil, err
	}
	if res.Violated != "" {
		return nil, fmt.Errorf("SoyExecFamilies (%s) violates %s:\n%s", label, res.Violated, res.Trace)
	}
	var out []*FamCase
	for _, p := range res.Printed {
		if !strings.HasPrefix(p, "{") {
			continue
		}
		var fc FamCase
		// TLC prints an empty function as [] : restore the empty objects
		p = strings.NewReplacer(`"data":[]`, `"data":{}`, `"glob":[]`, `"glob":{}`).Replace(p)
		d := json.NewDecoder(strings.NewReader(p))
		d.UseNumber()
		if err := d.Decode(&fc); err != nil {
			return nil, fmt.Errorf("bad JSON from TLC: %v: %.300s", err, p)
		}
		out = append(out, &fc)
	}
	sort.Slice(out, func(i, j int) bool { return out[i].Key() < out[j].Key() })
	if len(out) == 0 {
		return nil, fmt.Errorf("SoyExecFamilies produced no cases")
	}
	return out, nil
}

// Deviations are the named deviations of SoyExec the families must discriminate.
var Deviations = []string{"if_block_no_frame", "content_block_no_frame", "loop_body_no_frame", "alldata_includes_locals"}

// Families runs M1 (reference + deviations) and M2 (replay on the real code).
func Families(ctx *core.Ctx) {
	ref, err := EnumerateFamilies(ctx, "")
	if err != nil {
		ctx.ToolError("%v", err)
		return
	}
	byKey := map[string]*FamCase{}
	for _, f := range ref {
		byKey[f.Key()] = f
	}
	// each deviation must change the outcome of some family member
	discr := map[string]int{}
	type devRes struct {
		got []*FamCase
		err error
	}
	results := make([]devRes, len(Deviations))
	var wg sync.WaitGroup
	for i, dev := range Deviations {
		wg.Add(1)
		go func(i int, dev string) {
			defer wg.Done()
			results[i].got, results[i].err = EnumerateFamilies(ctx, `"`+dev+`"`)
		}(i, dev)
	}
	wg.Wait()
	for i, dev := range Deviations {
		if results[i].err != nil {
			ctx.ToolError("%v", results[i].err)
			continue
		}
		n := 0
		for _, g := range results[i].got {
			if r := byKey[g.Key()]; r != nil && r.Verdict == "valid" && (r.Status != g.Status || r.Out != g.Out) {
				n++
			}
		}
		discr[dev] = n
		if n == 0 {
			ctx.ToolError("the families do not discriminate deviation %s (vacuous)", dev)
		}
	}
	ctx.Extra["family_members_discriminating_each_deviation"] = discr
	// replay the reference expectations on the real code
	nvalid := 0
	for _, f := range ref {
		if f.Verdict != "valid" {
			continue
		}
		nvalid++
		cs := &core.ProgCase{Family: "family", Prog: f.Prog}
		core.RunProgCase(cs, core.Style{})
		ctx.AddEvals(1)
		if cs.Obs.CompileErr != "" {
			// acceptance is C07's matter; recorded, not judged here
			ctx.Extra["family_valid_but_rejected"] = fmt.Sprint(ctx.Extra["family_valid_but_rejected"], " ", f.Key())
			continue
		}
		ctx.AddTraces(1)
		ctx.Distinct("family:" + f.Key())
		cs.ExpSt, cs.ExpOut = f.Status, f.Out
		bad := false
		switch f.Status {
		case "ok":
			bad = cs.Obs.Err || cs.Obs.Out != f.Out
		case "err":
			bad = !cs.Obs.Err
		}
		if bad {
			ctx.Violation(core.Sig{Family: "family", Feature: "wrong-output," + f.Key()},
				fmt.Sprintf("real: err=%v out=%q (%s)  spec: status=%s out=%q\n%s", cs.Obs.Err, cs.Obs.Out, cs.Obs.ErrText, f.Status, f.Out, src(cs)), cs)
		}
		if nvalid%97 == 0 {
			ctx.Sample(map[string]interface{}{"family": f.Key(), "files": cs.Files, "expected": f.Out})
		}
	}
	ctx.Extra["family_programs"] = len(ref)
	ctx.Extra["family_valid"] = nvalid
}
