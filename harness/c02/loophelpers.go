package c02

import (
	"fmt"

	"verif/core"
)

// LoopHelperFamily: index / isFirst / isLast of every loop variable in scope,
// before, inside and AFTER nested loops, with the inner loop using the same or
// another variable name, over lists of different lengths, for foreach over a
// list and for over range(); the helpers must always refer to the loop that
// binds the variable they name.
func LoopHelperFamily(ctx *core.Ctx) {
	v := func(n string) core.E { return core.EVar(n) }
	helpers := func(name string) []core.Cmd {
		return []core.Cmd{core.CText("<"), core.CPrint(core.EFn("index", v(name))),
			core.CPrint(core.ETern(core.EFn("isFirst", v(name)), core.EStr("F"), core.EStr("-"))),
			core.CPrint(core.ETern(core.EFn("isLast", v(name)), core.EStr("L"), core.EStr("-"))), core.CText(">")}
	}
	var cases []*core.ProgCase
	for _, innerVar := range []string{"x", "y"} {
		for _, kw := range []string{"foreach", "for"} {
			for outerLen := 1; outerLen <= 3; outerLen++ {
				for innerLen := 0; innerLen <= 3; innerLen++ {
					outerList := core.EFn("range", core.EInt(outerLen))
					innerList := core.EFn("range", core.EInt(innerLen))
					if kw == "foreach" {
						outerList, innerList = core.EVar("ol"), core.EVar("il")
					}
					var innerBody []core.Cmd
					innerBody = append(innerBody, helpers(innerVar)...)
					if innerVar != "x" {
						innerBody = append(innerBody, helpers("x")...) // the outer loop's helpers inside the inner loop
					}
					body := append([]core.Cmd{}, helpers("x")...)
					body = append(body, core.CForeach(kw, innerVar, innerList, innerBody, core.Opt(true, []core.Cmd{core.CText("E")})))
					body = append(body, helpers("x")...) // after the inner loop: must be the outer loop's again
					body = append(body, core.CText(";"))
					tbody := []core.Cmd{core.CForeach(kw, "x", outerList, body, core.Opt(false, nil)), core.CPrint(core.EFn("length", core.EBin("elvis", v("ol"), core.EList()))), core.CPrint(core.EFn("length", core.EBin("elvis", v("il"), core.EList())))}
					mk := func(n int) core.V {
						xs := []core.V{}
						for i := 0; i < n; i++ {
							xs = append(xs, core.VInt(10+i))
						}
						return core.VList(xs...)
					}
					p := &core.Program{Bundle: map[string]*core.Tmpl{"h.t": {Params: []core.Param{{Name: "ol", Opt: true}, {Name: "il", Opt: true}}, Body: tbody, TA: "false"}},
						Entry: "h.t", Data: map[string]core.V{"ol": mk(outerLen), "il": mk(innerLen)}, IJ: core.V{"t": "none"}, Glob: map[string]core.V{},
						Plan: map[string]interface{}{"kind": "none"}, Aliases: map[string]bool{}}
					cs := &core.ProgCase{Family: fmt.Sprintf("loop-helpers:inner=%s,%s", innerVar, kw), Prog: p}
					core.RunProgCase(cs, core.Style{})
					cases = append(cases, cs)
				}
			}
		}
	}
	Judge(ctx, cases)
	ctx.Extra["loop_helper_cases"] = len(cases)
}
