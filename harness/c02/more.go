package c02

import (
	"fmt"

	"verif/core"
)

// SwitchValuesFamily: {switch} whose cases list SEVERAL values, the later ones
// being expressions (a param, a let, a loop variable, $ij, a global) that occur
// nowhere else in the template. Every subject value that selects each position
// is rendered; the spec (SoyExec.PickCase) says which case is taken, and the
// checker must accept a param that is used only as a later case value.
func SwitchValuesFamily(ctx *core.Ctx) {
	v := func(n string, acc ...core.E) core.E { return core.EVar(n, acc...) }
	I := core.EInt
	T := core.CText
	glob := map[string]core.V{"app.G_K": core.VInt(7), "G_S": core.VStr("gs")}
	ij := core.VMap(map[string]core.V{"n": core.VInt(8), "s": core.VStr("is")})
	type variant struct {
		name string
		body []core.Cmd
		pars []core.Param
	}
	variants := []variant{
		{"int-values", []core.Cmd{core.CSwitch(v("subj"), []core.Cmd{
			core.CCase([]core.E{I(1), v("p"), core.EGlobal("app.G_K")}, []core.Cmd{T("A")}),
			core.CCase([]core.E{I(2), v("ij", core.AKey("n", false)), v("q")}, []core.Cmd{T("B")})}, core.Opt(true, []core.Cmd{T("D")}))},
			[]core.Param{{Name: "subj"}, {Name: "p"}, {Name: "q"}}},
		{"str-values", []core.Cmd{core.CSwitch(v("subj"), []core.Cmd{
			core.CCase([]core.E{core.EStr("x"), core.EGlobal("G_S"), v("p")}, []core.Cmd{T("A")}),
			core.CCase([]core.E{core.EStr("y"), v("q"), v("ij", core.AKey("s", false))}, []core.Cmd{T("B")})}, core.Opt(false, nil))},
			[]core.Param{{Name: "subj"}, {Name: "p"}, {Name: "q"}}},
		{"let-and-loop-values", []core.Cmd{core.CLetV("l", I(11)), core.CForeach("foreach", "i", core.EList(I(12), I(13)), []core.Cmd{
			core.CSwitch(v("subj"), []core.Cmd{
				core.CCase([]core.E{I(0), v("l")}, []core.Cmd{T("L")}),
				core.CCase([]core.E{I(3), v("i"), v("p")}, []core.Cmd{T("I"), core.CPrint(v("i"))})}, core.Opt(true, []core.Cmd{T("d")}))}, core.Opt(false, nil))},
			[]core.Param{{Name: "subj"}, {Name: "p"}}},
		{"nested-switch-in-case", []core.Cmd{core.CSwitch(v("subj"), []core.Cmd{
			core.CCase([]core.E{I(1), I(2), v("p")}, []core.Cmd{core.CSwitch(v("q"), []core.Cmd{
				core.CCase([]core.E{I(0), v("subj")}, []core.Cmd{T("same")})}, core.Opt(true, []core.Cmd{T("other")}))})}, core.Opt(true, []core.Cmd{T("D")}))},
			[]core.Param{{Name: "subj"}, {Name: "p"}, {Name: "q"}}},
	}
	subjects := []core.V{core.VInt(0), core.VInt(1), core.VInt(2), core.VInt(3), core.VInt(5), core.VInt(6), core.VInt(7), core.VInt(8), core.VInt(9), core.VInt(11), core.VInt(12), core.VInt(13),
		core.VStr("x"), core.VStr("y"), core.VStr("gs"), core.VStr("is"), core.VStr("ps"), core.VStr("qs"), core.VStr("zz")}
	var cases []*core.ProgCase
	for _, vr := range variants {
		for _, subj := range subjects {
			isStr := subj["t"] == "str"
			if isStr != (vr.name == "str-values") {
				continue
			}
			data := map[string]core.V{"subj": subj, "p": core.VInt(5), "q": core.VInt(6)}
			if isStr {
				data["p"], data["q"] = core.VStr("ps"), core.VStr("qs")
			}
			for k := range data {
				declared := false
				for _, pa := range vr.pars {
					declared = declared || pa.Name == k
				}
				if !declared {
					delete(data, k)
				}
			}
			p := &core.Program{Bundle: map[string]*core.Tmpl{"s.m": {Params: vr.pars, Body: vr.body, TA: "false"}}, Entry: "s.m", Data: data, IJ: ij, Glob: glob,
				Plan: map[string]interface{}{"kind": "none"}, Aliases: map[string]bool{}}
			cs := &core.ProgCase{Family: "switch-values:" + vr.name, Prog: p}
			core.RunProgCase(cs, core.Style{})
			cases = append(cases, cs)
		}
	}
	Judge(ctx, cases)
	ctx.Extra["switch_values_cases"] = len(cases)
}

// ChainFamily: call chains t0 -> t1 -> t2 -> t3 -> t4 in which every link
// chooses how data is passed (data="all", data="$m", nothing) and whether it
// adds a value param, a content param or none; the last template prints every
// name. What the leaf sees is decided by SoyExec (CallBegin/CallEnter): a
// callee started with data="all" sees the caller's params and the params added
// on the way, a data="$m" link replaces them, a link without data drops them.
func ChainFamily(ctx *core.Ctx) {
	v := func(n string, acc ...core.E) core.E { return core.EVar(n, acc...) }
	names := []string{"x", "m", "p1", "p2", "p3", "p4"}
	opt := func() []core.Param {
		var ps []core.Param
		for _, n := range names {
			ps = append(ps, core.Param{Name: n, Opt: true})
		}
		return ps
	}
	show := func(tag string) []core.Cmd {
		out := []core.Cmd{core.CText(tag + "(")}
		for _, n := range names {
			if n == "m" {
				out = append(out, core.CPrint(core.EBin("elvis", v("m", core.AKey("x", true)), core.EStr("-"))), core.CText("/"))
				continue
			}
			out = append(out, core.CPrint(core.EBin("elvis", v(n), core.EStr("-"))), core.CText("/"))
		}
		return append(out, core.CText(")"))
	}
	modes := []string{"all", "expr", "none"}
	pkinds := []string{"none", "value", "content"}
	depth := 4
	var cases []*core.ProgCase
	// every assignment of (mode, param kind) to the 4 links: 9^4 = 6561; the
	// quick tier takes those where at most two links differ from (all, value)
	total := 1
	for i := 0; i < depth; i++ {
		total *= 9
	}
	for code := 0; code < total; code++ {
		c := code
		var ms, ks []int
		diff := 0
		for i := 0; i < depth; i++ {
			d := c % 9
			c /= 9
			ms, ks = append(ms, d/3), append(ks, d%3)
			if d != 1 { // (all, value)
				diff++
			}
		}
		if !ctx.Thorough() && diff > 2 {
			continue
		}
		bundle := map[string]*core.Tmpl{}
		for i := 0; i < depth; i++ {
			callee := fmt.Sprintf("c.t%d", i+1)
			var params []core.Cmd
			pn := fmt.Sprintf("p%d", i+1)
			switch pkinds[ks[i]] {
			case "value":
				params = append(params, core.CPV(pn, core.EStr(fmt.Sprintf("v%d", i+1))))
			case "content":
				params = append(params, core.CPC(pn, []core.Cmd{core.CText(fmt.Sprintf("c%d", i+1)), core.CPrint(core.EBin("elvis", v("x"), core.EStr("nox")))}))
			}
			var de core.E
			if modes[ms[i]] == "expr" {
				de = v("m")
			}
			body := append(show(fmt.Sprintf("t%d", i)), core.CCall(callee, modes[ms[i]], de, params...))
			// something after the call: the caller's own view must be unchanged
			body = append(body, show(fmt.Sprintf("t%d'", i))...)
			bundle[fmt.Sprintf("c.t%d", i)] = &core.Tmpl{Params: opt(), Body: body, TA: "false"}
		}
		bundle[fmt.Sprintf("c.t%d", depth)] = &core.Tmpl{Params: opt(), Body: show("leaf"), TA: "false"}
		data := map[string]core.V{"x": core.VStr("X"), "m": core.VMap(map[string]core.V{"x": core.VStr("MX"), "p1": core.VStr("Mp1"),
			"m": core.VMap(map[string]core.V{"x": core.VStr("MMX"), "p2": core.VStr("MMp2")})})}
		p := &core.Program{Bundle: bundle, Entry: "c.t0", Data: data, IJ: core.V{"t": "none"}, Glob: map[string]core.V{},
			Plan: map[string]interface{}{"kind": "none"}, Aliases: map[string]bool{}}
		cs := &core.ProgCase{Family: "call-chain", Prog: p}
		core.RunProgCase(cs, core.Style{})
		cases = append(cases, cs)
	}
	Judge(ctx, cases)
	ctx.Extra["call_chain_cases"] = len(cases)
}
