package c02

import (
	"fmt"

	"verif/core"
)

// RecursionFamily: templates that call themselves (directly and mutually) on
// a decreasing argument, with data="all" forwarding, explicit params, lets
// that shadow the recursion argument and loop variables in scope at the call:
// every activation must see exactly its own data. Validated against SoyExec.
func RecursionFamily(ctx *core.Ctx) {
	v := func(n string, acc ...core.E) core.E { return core.EVar(n, acc...) }
	I := core.EInt
	dec := func(name string) core.E { return core.EBin("sub", v(name), I(1)) }
	pos := func(name string) core.E { return core.EBin("gt", v(name), I(0)) }
	type variant struct {
		name   string
		bundle map[string]*core.Tmpl
		entry  string
	}
	P := func(names ...string) []core.Param {
		var ps []core.Param
		for _, n := range names {
			ps = append(ps, core.Param{Name: n})
		}
		return ps
	}
	variants := []variant{
		{"direct-explicit-param", map[string]*core.Tmpl{
			"r.a": {Params: P("n"), Body: []core.Cmd{core.CIf([]core.Cmd{core.CBr(pos("n"), []core.Cmd{
				core.CPrint(v("n")), core.CText(","), core.CCall("r.a", "none", nil, core.CPV("n", dec("n"))), core.CText(";"), core.CPrint(v("n"))})},
				core.Opt(true, []core.Cmd{core.CText("end")}))}}}, "r.a"},
		{"direct-data-all-with-shadowing-let", map[string]*core.Tmpl{
			"r.a": {Params: P("n", "tag"), Body: []core.Cmd{core.CPrint(v("tag")), core.CIf([]core.Cmd{core.CBr(pos("n"), []core.Cmd{
				core.CLetV("m", dec("n")), core.CPrint(v("m")),
				core.CCall("r.a", "all", nil, core.CPV("n", v("m"))), core.CText("<"), core.CPrint(v("n")), core.CText(">")})}, core.Opt(false, nil))}}}, "r.a"},
		{"mutual", map[string]*core.Tmpl{
			"r.even": {Params: P("n"), Body: []core.Cmd{core.CIf([]core.Cmd{core.CBr(core.EBin("eq", v("n"), I(0)), []core.Cmd{core.CText("even")})},
				core.Opt(true, []core.Cmd{core.CCall("r.odd", "none", nil, core.CPV("n", dec("n")))}))}},
			"r.odd": {Params: P("n"), Body: []core.Cmd{core.CIf([]core.Cmd{core.CBr(core.EBin("eq", v("n"), I(0)), []core.Cmd{core.CText("odd")})},
				core.Opt(true, []core.Cmd{core.CCall("r.even", "none", nil, core.CPV("n", dec("n")))}))}}}, "r.even"},
		{"recursion-inside-loop-with-content-param", map[string]*core.Tmpl{
			"r.a": {Params: []core.Param{{Name: "n"}, {Name: "pre", Opt: true}}, Body: []core.Cmd{
				core.CPrint(core.EBin("elvis", v("pre"), core.EStr("-"))),
				core.CForeach("foreach", "i", core.EFn("range", v("n")), []core.Cmd{
					core.CCall("r.a", "none", nil, core.CPV("n", v("i")), core.CPC("pre", []core.Cmd{core.CText("["), core.CPrint(v("i")), core.CPrint(v("n")), core.CText("]")})),
				}, core.Opt(true, []core.Cmd{core.CText(".")}))}}}, "r.a"},
		{"recursion-over-list-tail-via-data-expr", map[string]*core.Tmpl{
			"r.a": {Params: []core.Param{{Name: "node", Opt: true}}, Body: []core.Cmd{core.CIf([]core.Cmd{core.CBr(core.EFn("isNonnull", v("node")), []core.Cmd{
				core.CPrint(v("node", core.AKey("val", false))), core.CCall("r.a", "expr", v("node"))})},
				core.Opt(true, []core.Cmd{core.CText("nil")}))}}}, "r.a"},
	}
	// linked list data for the last variant: node -> {val, node: {...}}
	var list func(k int) core.V
	list = func(k int) core.V {
		m := map[string]core.V{"val": core.VInt(k)}
		if k > 0 {
			m["node"] = list(k - 1)
		}
		return core.VMap(m)
	}
	var cases []*core.ProgCase
	for _, vr := range variants {
		for n := 0; n <= 5; n++ {
			data := map[string]core.V{"n": core.VInt(n), "tag": core.VStr("t")}
			if vr.name == "recursion-over-list-tail-via-data-expr" {
				data = map[string]core.V{"node": list(n)}
			}
			// keep only declared params
			for k := range data {
				declared := false
				for _, pa := range vr.bundle[vr.entry].Params {
					if pa.Name == k {
						declared = true
					}
				}
				if !declared {
					delete(data, k)
				}
			}
			for _, t := range vr.bundle {
				t.TA = "false"
			}
			p := &core.Program{Bundle: vr.bundle, Entry: vr.entry, Data: data, IJ: core.V{"t": "none"}, Glob: map[string]core.V{},
				Plan: map[string]interface{}{"kind": "none"}, Aliases: map[string]bool{}}
			cs := &core.ProgCase{Family: fmt.Sprintf("recursion:%s", vr.name), Prog: p}
			core.RunProgCase(cs, core.Style{})
			cases = append(cases, cs)
		}
	}
	Judge(ctx, cases)
	ctx.Extra["recursion_cases"] = len(cases)
}
