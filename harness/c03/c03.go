// Package c03 decides property C03: autoescaping -- data never reaches HTML
// output raw unless explicitly cancelled.
//
// M1: TLC checks spec/C03Model.tla (reference design holds; every named
//
//	deviation is rejected).
//
// M2: TLC exports the case tables (print site x autoescape attribute 4-tuple
//
//	-> is escaping on at the print, chain -> class / expected texts); the
//	harness renders every case with the real soyhtml over a large adversarial
//	value set and judges the bytes written with independent decoders.
//
// M3: seeded random (site, attributes, chain, value) cases are recorded from
//
//	the real renderer and validated by TLC (spec/C03Trace.tla).
package c03

import (
	"bytes"
	"encoding/json"
	"fmt"
	"math/rand"
	"os"
	"regexp"
	"runtime"
	"strconv"
	"strings"
	"sync"
	"time"

	"github.com/robfig/soy/data"

	"verif/c16"
	"verif/core"
)

// ---------------------------------------------------------------------------
// tables exported by TLC

// ModeRow is one (site, attributes) row: is escaping on at the print under
// test, and how many times is the printed text escaped on its way out.
type ModeRow struct {
	Site  string `json:"mode"`
	NS    string `json:"ns"`
	T     string `json:"t"`
	CNS   string `json:"cns"`
	CT    string `json:"ct"`
	On    bool   `json:"on"`
	Depth int    `json:"depth"`
}

func (m ModeRow) String() string {
	return fmt.Sprintf("site=%s ns=%s t=%s callee-ns=%s callee-t=%s", m.Site, m.NS, m.T, m.CNS, m.CT)
}

// ChainCase is the reference result of a chain on one exported value.
type ChainCase struct {
	Det  bool   `json:"det"`
	Kind string `json:"kind"`
	On   string `json:"on"`
	Off  string `json:"off"`
}

// ChainRow is one directive chain with its C03 class.
type ChainRow struct {
	Chain []c16.Dir   `json:"chain"`
	Text  string      `json:"text"`
	Class string      `json:"class"` // ESC | HTML | RAW
	K     int         `json:"k"`     // index (1-based) of the last self-escaping directive, 0 if none
	Cases []ChainCase `json:"cases"`
}

// Tables is everything TLC exported.
type Tables struct {
	Modes                   []ModeRow
	Chains                  []ChainRow
	Cmds                    []string                 // C03Sites.CmdKinds
	Shapes, Kinds, Privates []string                 // SoyDirectives.ExprShapes, TemplateKinds, PrivateAttrs
	Vals                    []map[string]interface{} // exported values (spec encoding)
	Texts                   []string                 // their texts (ToText)
}

const canary = "é€\"\\\n<&>'"

func cfg03(dev, mode string, maxLen int) string {
	d := "{}"
	if dev != "" {
		d = `{"` + dev + `"}`
	}
	return fmt.Sprintf("CONSTANTS\n DirDev = %s\n Mode = \"%s\"\n MaxLen = %d\nINIT Init\nNEXT Next\nINVARIANTS Safe ModeDef ClassTotal Export\nCHECK_DEADLOCK FALSE\n", d, mode, maxLen)
}

// ExportTables asks TLC for the M2 tables.
func ExportTables(ctx *core.Ctx) *Tables {
	res, err := c16.RunTLC(ctx, core.TLCOpts{Module: "C03Model", Cfg: cfg03("", "export", 1), Workers: 1,
		Timeout: 5 * time.Minute, Label: "M2-export"})
	if err != nil {
		ctx.ToolError("M2 export: %v", err)
		return nil
	}
	if res.Violated != "" {
		ctx.ToolError("M2 export: unexpected %s", res.Violated)
		return nil
	}
	t := &Tables{}
	for _, p := range res.Printed {
		if !strings.HasPrefix(p, "{") {
			continue
		}
		d := json.NewDecoder(strings.NewReader(p))
		d.UseNumber()
		switch {
		case strings.HasPrefix(p, `{"vals"`):
			var h struct {
				Vals   []map[string]interface{} `json:"vals"`
				Texts  []string                 `json:"texts"`
				Cmds   []string                 `json:"cmds"`
				Shapes []string                 `json:"shapes"`
				Kinds  []string                 `json:"kinds"`
				Privs  []string                 `json:"privates"`
				Canary string                   `json:"canary"`
			}
			if err := d.Decode(&h); err != nil || h.Canary != canary {
				ctx.ToolError("M2 export: header/canary did not survive the TLC->Go boundary (%v, %q)", err, h.Canary)
				return nil
			}
			t.Vals, t.Texts, t.Cmds = h.Vals, h.Texts, h.Cmds
			t.Shapes, t.Kinds, t.Privates = h.Shapes, h.Kinds, h.Privs
		case strings.HasPrefix(p, `{"mode"`):
			var m ModeRow
			if err := d.Decode(&m); err != nil {
				ctx.ToolError("M2 export: bad mode row: %v", err)
				return nil
			}
			t.Modes = append(t.Modes, m)
		default:
			var r ChainRow
			if err := d.Decode(&r); err != nil {
				ctx.ToolError("M2 export: bad chain row: %v: %s", err, clip(p))
				return nil
			}
			r.Text = c16.ChainText(r.Chain) // Soy source of the chain (string arguments quoted)
			t.Chains = append(t.Chains, r)
		}
	}
	if len(t.Modes) != 4*25+3*625 || len(t.Chains) < 100 || len(t.Vals) == 0 || len(t.Vals) != len(t.Texts) {
		ctx.ToolError("M2 export: incomplete tables (%d modes, %d chains, %d vals): %s", len(t.Modes), len(t.Chains), len(t.Vals), tailS(res.Stdout, 400))
		return nil
	}
	for _, r := range t.Chains {
		if len(r.Cases) != len(t.Vals) {
			ctx.ToolError("M2 export: chain %s has %d cases for %d values", r.Text, len(r.Cases), len(t.Vals))
			return nil
		}
	}
	ctx.Extra["m2_mode_rows"] = len(t.Modes)
	ctx.Extra["m2_chains"] = len(t.Chains)
	ctx.Extra["m2_exported_values"] = len(t.Vals)
	return t
}

func clip(s string) string {
	if len(s) > 300 {
		return s[:300] + "...(" + strconv.Itoa(len(s)) + " bytes)"
	}
	return s
}

func tailS(s string, n int) string {
	if len(s) > n {
		return s[len(s)-n:]
	}
	return s
}

// ---------------------------------------------------------------------------
// templates of the print sites

func attr(a string) string {
	if a == "unspecified" {
		return ""
	}
	return ` autoescape="` + a + `"`
}

// SiteFiles builds the two Soy files of a case: the print under test is
// {$x<chain>}; everything else only carries its bytes to the output.
func SiteFiles(m ModeRow, chain string) []core.File {
	p := "{$x" + chain + "}"
	var body, callee string
	calleeParam := "x"
	switch m.Site {
	case "direct":
		body = p
	case "msg":
		body = `{msg desc="d"}` + p + `{/msg}`
	case "let":
		body = "{let $y}" + p + "{/let}{$y|noAutoescape}"
	case "letesc":
		body = "{let $y}" + p + "{/let}{$y}"
	case "param":
		body = "{call b.c}{param y}" + p + "{/param}{/call}"
		callee = "{$y|noAutoescape}"
		calleeParam = "y"
	case "call":
		body = "{call b.c}{param x: $x/}{/call}"
		callee = p
	case "dataall":
		body = `{call b.c data="all"/}`
		callee = p
	}
	a := "{namespace a" + attr(m.NS) + "}\n/** @param x */\n{template .m" + attr(m.T) + "}\n" + body + "\n{/template}\n"
	files := []core.File{{Name: "a.soy", Text: a}}
	if callee != "" {
		b := "{namespace b" + attr(m.CNS) + "}\n/** @param " + calleeParam + " */\n{template .c" + attr(m.CT) + "}\n" + callee + "\n{/template}\n"
		files = append(files, core.File{Name: "b.soy", Text: b})
	}
	return files
}

// ---------------------------------------------------------------------------
// values

// Value is one value of the replay set.
type Value struct {
	X      data.Value
	Spec   map[string]interface{} // spec encoding (nil for strings that cannot cross JSON)
	Text   string                 // its text (the string itself / ToText from TLC)
	IsStr  bool
	ExpIdx int // index in the exported values, -1 if not exported
}

func hasSpecial(s string) bool { return strings.ContainsAny(s, "&<>\"'") }

// Values builds the replay set: the exported values (with their expected
// texts) followed by the adversarial strings.
func Values(t *Tables, thorough bool) []Value {
	var vs []Value
	seen := map[string]bool{}
	for i, v := range t.Vals {
		val := Value{X: core.ToData(v), Spec: v, Text: t.Texts[i], IsStr: v["t"] == "str", ExpIdx: i}
		if val.IsStr {
			seen[val.Text] = true
		}
		vs = append(vs, val)
	}
	for _, s := range c16.AdversarialStrings(thorough) {
		if seen[s] {
			continue
		}
		seen[s] = true
		vs = append(vs, Value{X: data.String(s), Text: s, IsStr: true, ExpIdx: -1})
	}
	return vs
}

// ---------------------------------------------------------------------------
// the C03 oracle on one observed output

// Obs is what the real code wrote for one case.
type Obs struct {
	Out string // the site's output
	Off string // the same chain in a template with autoescape="false"
	Y   string // the chain before its last self-escaping directive, there
	Err bool
}

func onlyTransparent(ch []c16.Dir) bool {
	for _, d := range ch {
		if d.Name != "noAutoescape" && d.Name != "id" {
			return false
		}
	}
	return true
}

// Judge applies the C03 predicate.  It returns "" (holds / not judged) or a
// signature and a description.
func Judge(m ModeRow, row *ChainRow, v *Value, o Obs) (sig core.Sig, what string) {
	if o.Err {
		return // nothing reached the output; whether the error is right is C16's / C06's business
	}
	p := o.Out
	if m.Depth == 2 {
		dec, raw := c16.HTMLDecode(o.Out)
		if raw {
			return core.Sig{Family: "autoescape", Feature: "site=" + m.Site + ",raw-special,outer-print"},
				"the captured block is printed again where escaping is on, yet a special character is written raw"
		}
		p = dec
	}
	class := row.Class
	if !m.On {
		class = "RAW"
	}
	kind := "string"
	if !v.IsStr {
		kind = "non-string"
	}
	switch class {
	case "ESC":
		dec, raw := c16.HTMLDecode(p)
		if raw {
			return core.Sig{Family: "autoescape", Feature: "site=" + m.Site + ",raw-special," + kind},
				"escaping is on and no directive cancels it, yet a special character is written raw"
		}
		// independent of any expected text: the text node decodes to the value;
		// with a truncate in the chain it decodes to what the chain writes with
		// escaping off (whether THAT is a correct truncation is C16's question)
		fault := ""
		if (len(row.Chain) == 0 || onlyTransparent(row.Chain)) && !c16.SameText(dec, v.Text) {
			fault = "decodes-wrong"
		}
		// and it is the escaped form of what the chain produces with escaping off
		if fault == "" && !c16.SameText(dec, o.Off) {
			fault = "decodes-wrong,differs-from-unescaped-render"
		}
		if fault != "" {
			return core.Sig{Family: "autoescape", Feature: "site=" + m.Site + "," + fault + "," + kind},
				fmt.Sprintf("escaping is on: the output decodes to %s, not to the value", strconv.Quote(clip(dec)))
		}
	case "HTML":
		h := row.Chain[row.K-1]
		y := o.Y
		if onlyTransparent(row.Chain[:row.K-1]) {
			y = v.Text
		}
		if f := c16.HTMLDirFault(h.Name, y, p); f != "" {
			return core.Sig{Family: "print-directive", Feature: c16.Feature(h, y, p, f)},
				"the self-escaping directive |" + h.Name + " cancels autoescaping but does not write a faithful encoding of its input: " + f
		}
	default:
		if p != o.Off {
			if !m.On {
				return core.Sig{Family: "autoescape", Feature: "site=" + m.Site + ",changed-though-mode-off," + kind},
					"autoescaping is off for this template, yet the output differs from the chain's result"
			}
			return core.Sig{Family: "cancel", Feature: "chain-last=" + lastName(row.Chain) + ",changed-on-top," + kind},
				"a directive of the chain cancels autoescaping, yet the output differs from the chain's result"
		}
	}
	return
}

func lastName(ch []c16.Dir) string {
	if len(ch) == 0 {
		return "none"
	}
	return ch[len(ch)-1].Name
}

// ---------------------------------------------------------------------------
// replay

type replayCase struct {
	Kind     string                 `json:"kind"`
	Mode     ModeRow                `json:"mode"`
	Chain    []c16.Dir              `json:"chain"`
	Files    []core.File            `json:"files"`
	Template string                 `json:"render"`
	Value    map[string]interface{} `json:"value,omitempty"`
	InputQ   string                 `json:"x_go_quoted"`
	InputHex string                 `json:"x_hex,omitempty"`
	Class    string                 `json:"class"`
	On       bool                   `json:"escaping_on_at_print"`
	OutQ     string                 `json:"observed_go_quoted"`
	OffQ     string                 `json:"chain_result_with_autoescape_off"`
	Expected string                 `json:"expected"`
}

var reporter = c16.NewReporter()

// guard watches every in-process render (a directive that never returns must
// not take the checker down; see c16/guard.go)
var guard *c16.Guard

// renderGuarded renders a.m of comp on d under watch.
func renderGuarded(cs *c16.Case, comp *core.Compiled, x data.Value, d, ij data.Map) (res core.RenderResult) {
	guard.Run(cs, x, func() { res = comp.Render(cs.Render, d, ij) })
	return
}

func report(ctx *core.Ctx, sig core.Sig, what string, m ModeRow, row *ChainRow, v *Value, o Obs, expected string) {
	if !reporter.First(sig) {
		return
	}
	rc := replayCase{Kind: "c03", Mode: m, Chain: row.Chain, Files: SiteFiles(m, row.Text), Template: "a.m", Value: v.Spec,
		InputQ: strconv.Quote(clip(v.Text)), Class: row.Class, On: m.On, OutQ: strconv.Quote(clip(o.Out)), OffQ: strconv.Quote(clip(o.Off)), Expected: expected}
	if v.IsStr && len(v.Text) <= 4096 {
		rc.InputHex = fmt.Sprintf("%x", v.Text)
	}
	ctx.Violation(sig, fmt.Sprintf("%s {$x%s} x=%s wrote %s: %s", m, row.Text, strconv.Quote(clip(v.Text)), strconv.Quote(clip(o.Out)), what), rc)
}

// offTables renders every chain (and the prefix before its last
// self-escaping directive) on every value with autoescaping off.
func offTables(real *c16.Real, t *Tables, vals []Value) (off, y [][]string, errs [][]bool) {
	off = make([][]string, len(t.Chains))
	y = make([][]string, len(t.Chains))
	errs = make([][]bool, len(t.Chains))
	var wg sync.WaitGroup
	sem := make(chan struct{}, runtime.NumCPU())
	for ci := range t.Chains {
		wg.Add(1)
		sem <- struct{}{}
		go func(ci int) {
			defer wg.Done()
			defer func() { <-sem }()
			row := &t.Chains[ci]
			off[ci] = make([]string, len(vals))
			y[ci] = make([]string, len(vals))
			errs[ci] = make([]bool, len(vals))
			needY := row.Class == "HTML" && !onlyTransparent(row.Chain[:row.K-1])
			for vi := range vals {
				o, err := real.RenderOff(row.Text, vals[vi].X)
				off[ci][vi], errs[ci][vi] = o, err != nil
				if needY {
					y[ci][vi], _ = real.RenderOff(c16.ChainText(row.Chain[:row.K-1]), vals[vi].X)
				}
			}
		}(ci)
	}
	wg.Wait()
	return
}

// Run is the entry point for C03.
func Run(ctx *core.Ctx) {
	ctx.Rule = "cases: (print site kind in {direct, msg placeholder, let content (printed raw / printed again), param content, through a call, through data=\"all\"}) x (namespace attr, template attr, callee namespace attr, callee template attr) in {unspecified,true,false,contextual,deprecated-contextual}^4 x directive chain of length 0..2 with in-range arguments x value; " +
		"the tables (is escaping on at the print; class of the chain) are enumerated by TLC from C03Model.tla, the values are the exported ones (strings and non-strings with their texts) plus every single byte, every pair and triple of the five specials, multi-byte/astral/invalid UTF-8, entity-like, tag-like texts and 4KB runs; M3 adds seeded random cases validated by TLC (C03Trace). " +
		"A case is non-trivial if its value is a non-string or contains one of & < > \" '; distinct by (site, attributes, chain, value)"
	ctx.Assumptions = append(ctx.Assumptions,
		"oracle where escaping is on is independent of any expected text: no raw special in the bytes written and the text node decodes (named, decimal and hexadecimal references) to the value / to the input of the last self-escaping directive; where specials may pass (autoescape=\"false\", noAutoescape/id, escapeUri, escapeJsString, json, or a directive applied on top of escaped text) the bytes must equal what the same chain writes in a template with autoescape=\"false\"",
		"'contextual' and its old spelling 'deprecated-contextual' count as on; the mode of a callee is derived from its own template/namespace attributes only (pinned by TestAutoescapeModes)",
		"NUL and non-UTF-8 bytes are identified with U+FFFD when texts are compared; a render that returns an error is not judged here")
	ctx.Trusted = append(ctx.Trusted, "Go decoders of harness/c16/decoders.go (cross-checked against the TLA+ decoders on every M3 line)")
	RegisterCustom()
	if ctx.ReplayPath != "" {
		Replay(ctx)
		return
	}
	var wg sync.WaitGroup
	wg.Add(1)
	go func() { defer wg.Done(); ModelCheck(ctx) }()

	t := ExportTables(ctx)
	if t != nil {
		real := c16.NewReal()
		guard = c16.NewGuard(ctx, "print-directive")
		real.G = guard
		defer func() { ctx.Extra["renders_slow_not_confirmed"] = guard.SlowNotConfirmed() }()
		vals := Values(t, ctx.Thorough())
		ctx.Extra["replay_values"] = len(vals)
		off, y, errs := offTables(real, t, vals)
		CancelTable(ctx, t)
		Grid(ctx, real, t, vals, off, y, errs)
		MsgBundles(ctx, real, t, vals)
		PrecedingCommands(ctx, t, vals, off, y)
		ExprShapes(ctx, real, t, vals)
		ExtraAttrs(ctx, t, vals, off, y)
		RandomTraces(ctx, real, t, ctx.Pick(4000, 50000))
	}
	wg.Wait()
	ctx.Extra["cases_violating_per_signature"] = reporter.Counts()
}

// ---------------------------------------------------------------------------
// M1

var devs = []string{"iwb_returns_input", "iwb_counts_escaped", "escaper_drops_apos", "callee_inherits", "truncate_cancels",
	"escapehtml_keeps_autoescape", "nonstring_raw", "nl2br_unescaped", "ns_attr_ignored", "deprecated_contextual_unspecified",
	"nonstring_input_raw", "placeholder_name_ignores_directives", "log_leaves_escaping_off",
	"arith_expr_unescaped", "kind_attr_turns_escaping_off"}

// ModelCheck runs the reference model (must hold) and the deviations (each
// must be rejected).
func ModelCheck(ctx *core.Ctx) {
	var wg sync.WaitGroup
	ref := func(label, mode string, maxLen, workers int) {
		defer wg.Done()
		res, err := c16.RunTLC(ctx, core.TLCOpts{Module: "C03Model", Cfg: cfg03("", mode, maxLen), Workers: workers, Timeout: 9 * time.Minute, Label: label})
		if err != nil {
			ctx.ToolError("M1 %s: %v", label, err)
		} else if res.Violated != "" {
			ctx.ToolError("M1: the reference model violates %s (spec bug): %s", res.Violated, clip(res.Trace))
		}
	}
	wg.Add(4)
	go ref("M1-cmds", "cmds", 1, 3)
	go ref("M1-msgs", "msgs", 1, 2)
	go ref("M1-sites", "sites", 1, 2)
	go ref("M1-chains", "chains", ctx.Pick(2, 3), ctx.Pick(4, 10))
	rejected := map[string]string{}
	var mu sync.Mutex
	for _, dev := range c16.QuickSubset(ctx, devs, 3) {
		wg.Add(1)
		go func(dev string) {
			defer wg.Done()
			mode := "chains"
			if dev == "callee_inherits" || dev == "ns_attr_ignored" || dev == "deprecated_contextual_unspecified" {
				mode = "sites"
			}
			if dev == "placeholder_name_ignores_directives" {
				mode = "msgs"
			}
			if dev == "log_leaves_escaping_off" || dev == "arith_expr_unescaped" || dev == "kind_attr_turns_escaping_off" {
				mode = "cmds"
			}
			res, err := c16.RunTLC(ctx, core.TLCOpts{Module: "C03Model", Cfg: cfg03(dev, mode, 1), Workers: 1, Timeout: 5 * time.Minute, Label: "M1-dev-" + dev})
			if err != nil {
				ctx.ToolError("M1 deviation %s: %v", dev, err)
				return
			}
			mu.Lock()
			rejected[dev] = res.Violated
			mu.Unlock()
			if res.Violated == "" {
				ctx.ToolError("M1 self-test: deviation %s is not rejected by the model's invariants (vacuous invariant)", dev)
			}
		}(dev)
	}
	wg.Wait()
	ctx.Extra["deviations_rejected_by"] = rejected
}

// ---------------------------------------------------------------------------
// M2 grid

func isSiteChain(text string) bool {
	switch text {
	case "", "|noAutoescape", "|escapeHtml", "|insertWordBreaks:3", "|insertWordBreaks:30", "|truncate:5", "|escapeUri", "|changeNewlineToBr|id", "|vfQuote":
		return true
	}
	return false
}

// structures used with every chain: one per site, escaping on at the print
// (and off around it where the site has a second frame), plus direct off and
// direct contextual
func isChainStructure(m ModeRow) bool {
	u := "unspecified"
	switch m.Site {
	case "direct":
		return m.NS == u && (m.T == u || m.T == "false" || m.T == "contextual") || (m.NS == "false" && (m.T == "true" || m.T == "deprecated-contextual"))
	case "msg", "let", "letesc":
		return m.NS == u && m.T == u
	case "param":
		return m.NS == u && m.T == "true" && m.CNS == "false" && m.CT == u
	case "call", "dataall":
		return m.NS == "false" && m.T == u && m.CNS == u && m.CT == "contextual"
	}
	return false
}

// Grid replays the systematic families.
func Grid(ctx *core.Ctx, real *c16.Real, t *Tables, vals []Value, off, y [][]string, errs [][]bool) {
	type job struct {
		mi, ci int
		sample int // 0: every value; 1: the mode-grid sample; 2: the sample for chains of two
	}
	var jobs []job
	// quick tier: rows with two or more "deprecated-contextual" attributes are sampled by
	// seed (1/3); every row with at most one is kept, so every attribute value still
	// appears at every position with every other combination of the four older values
	rowRand := rand.New(rand.NewSource(ctx.Seed + 11))
	for mi, m := range t.Modes {
		dc := 0
		for _, a := range []string{m.NS, m.T, m.CNS, m.CT} {
			if a == "deprecated-contextual" {
				dc++
			}
		}
		if dc >= 2 && !ctx.Thorough() && rowRand.Intn(3) != 0 && !isChainStructure(m) {
			continue
		}
		for ci := range t.Chains {
			if isChainStructure(m) {
				k := 0
				if len(t.Chains[ci].Chain) == 2 {
					k = 2
				}
				jobs = append(jobs, job{mi, ci, k})
			} else if isSiteChain(t.Chains[ci].Text) {
				jobs = append(jobs, job{mi, ci, 1})
			}
		}
	}
	// the samples: all exported values, the specials alone and in pairs, the rest by seed
	// (quick: 1/12 of the rest for the mode grid, 1/8 for chains of two; thorough: 1/6 and 1/3)
	r := rand.New(rand.NewSource(ctx.Seed))
	inSample := [3][]bool{nil, make([]bool, len(vals)), make([]bool, len(vals))}
	for vi, v := range vals {
		must := v.ExpIdx >= 0 || (len(v.Text) <= 2 && v.Text != "" && strings.Trim(v.Text, "&<>\"'") == "")
		inSample[1][vi] = must || r.Intn(ctx.Pick(12, 6)) == 0
		inSample[2][vi] = must || r.Intn(ctx.Pick(8, 3)) == 0
	}
	ch := make(chan job, 256)
	var wg sync.WaitGroup
	var n, nexact, nerr int64
	var mu sync.Mutex
	for w := 0; w < (runtime.NumCPU()*3)/4; w++ {
		wg.Add(1)
		go func() {
			defer wg.Done()
			var ln, lexact, lerr int64
			for j := range ch {
				m, row := t.Modes[j.mi], &t.Chains[j.ci]
				files := SiteFiles(m, row.Text)
				comp, err, _ := core.Compile(files, nil)
				if err != nil {
					ctx.Violation(core.Sig{Family: "compile", Feature: "site=" + m.Site + ",rejected"},
						"valid site program rejected: "+err.Error(), map[string]interface{}{"files": files})
					continue
				}
				cs := &c16.Case{Files: files, Render: "a.m", ChainText: row.Text}
				for vi := range vals {
					if j.sample != 0 && !inSample[j.sample][vi] {
						continue
					}
					v := &vals[vi]
					res := renderGuarded(cs, comp, v.X, data.Map{"x": v.X}, nil)
					o := Obs{Out: res.Out, Off: off[j.ci][vi], Y: y[j.ci][vi], Err: res.Err != nil}
					ln++
					if o.Err {
						lerr++
						if !errs[j.ci][vi] {
							ctx.Violation(core.Sig{Family: "autoescape", Feature: "site=" + m.Site + ",error-only-at-this-site"},
								fmt.Sprintf("%s {$x%s}: the render fails (%v) although the same print succeeds in a plain template", m, row.Text, res.Err),
								map[string]interface{}{"files": files, "x": strconv.Quote(clip(v.Text))})
						}
						continue
					}
					if !v.IsStr || hasSpecial(v.Text) {
						ctx.Distinct(strconv.Itoa(j.mi) + "." + strconv.Itoa(j.ci) + "." + strconv.Itoa(vi))
					}
					if sig, what := Judge(m, row, v, o); what != "" {
						report(ctx, sig, what, m, row, v, o, "C03 predicate (C03Sites.TraceVerdict)")
						continue
					}
					// the exported reference texts (only where they are pinned)
					if v.ExpIdx >= 0 && m.Depth == 1 && (m.Site == "direct" || m.Site == "call") {
						cs := row.Cases[v.ExpIdx]
						if cs.Det && cs.Kind != "contract" && !strings.Contains(row.Text, "|truncate") {
							want := cs.Off
							if m.On {
								want = cs.On
							}
							lexact++
							if c16.HTMLCanon(o.Out) != c16.HTMLCanon(want) || (cs.Kind == "exact" && !m.On && o.Out != want) {
								report(ctx, core.Sig{Family: "reference", Feature: "class=" + row.Class + ",last=" + lastName(row.Chain) + ",differs-from-reference"},
									"differs from the reference text "+strconv.Quote(clip(want)), m, row, v, o, want)
							}
						}
					}
				}
			}
			mu.Lock()
			n += ln
			nexact += lexact
			nerr += lerr
			mu.Unlock()
		}()
	}
	for _, j := range jobs {
		ch <- j
	}
	close(ch)
	wg.Wait()
	ctx.AddEvals(n)
	ctx.AddTraces(n)
	ctx.Extra["grid_structures"] = len(jobs)
	ctx.Extra["grid_cases"] = n
	ctx.Extra["grid_cases_compared_with_reference_text"] = nexact
	ctx.Extra["grid_renders_returning_error"] = nerr
	ctx.Sample(map[string]interface{}{"family": "GRID", "files": SiteFiles(t.Modes[len(t.Modes)/2], "|insertWordBreaks:3"), "mode": t.Modes[len(t.Modes)/2], "x": "a<bcdefg"})
}

// ---------------------------------------------------------------------------
// M3

var reBad = regexp.MustCompile(`^<<"BAD", (\d+), "bad:([^"]*)">>$`)
var reDone = regexp.MustCompile(`^<<"DONE", (\d+), (\d+), (\d+)>>$`)

type traceLine struct {
	Site  string                 `json:"site"`
	NS    string                 `json:"ns"`
	T     string                 `json:"t"`
	CNS   string                 `json:"cns"`
	CT    string                 `json:"ct"`
	Chain []c16.Dir              `json:"chain"`
	V     map[string]interface{} `json:"v"`
	Err   bool                   `json:"err"`
	Out   string                 `json:"out"`
	Off   string                 `json:"off"`
	Y     string                 `json:"y"`
}

// RandomTraces records n random cases from the real renderer; TLC validates
// each against C03Sites.TraceVerdict (the spec's own decoders).
func RandomTraces(ctx *core.Ctx, real *c16.Real, t *Tables, n int) {
	r := rand.New(rand.NewSource(ctx.Seed + 7))
	batch := 5000
	for done := 0; done < n; done += batch {
		k := batch
		if n-done < k {
			k = n - done
		}
		var lines []traceLine
		var metas []struct {
			m   ModeRow
			row *ChainRow
			v   Value
			o   Obs
		}
		for len(lines) < k {
			m := t.Modes[r.Intn(len(t.Modes))]
			row := &t.Chains[r.Intn(len(t.Chains))]
			var v Value
			if r.Intn(4) == 0 {
				sv := core.RandValue(r, 2)
				v = Value{X: core.ToData(sv), Spec: sv, IsStr: sv["t"] == "str", ExpIdx: -1}
				// the text of a non-string as the real code prints it (whether that text is
				// right is not C03's question; TLC judges the same line with the spec's ToText)
				v.Text, _ = real.RenderOff("", v.X)
			} else {
				s := c16.RandString(r, true)
				v = Value{X: data.String(s), Spec: core.VStr(s), Text: s, IsStr: true, ExpIdx: -1}
			}
			comp, err := real.Compiled(SiteFiles(m, row.Text))
			if err != nil {
				ctx.ToolError("M3: site program does not compile: %v", err)
				return
			}
			res := renderGuarded(&c16.Case{Files: SiteFiles(m, row.Text), Render: "a.m", ChainText: row.Text}, comp, v.X, data.Map{"x": v.X}, nil)
			o := Obs{Out: res.Out, Err: res.Err != nil}
			o.Off, _ = real.RenderOff(row.Text, v.X)
			if row.K > 1 {
				o.Y, _ = real.RenderOff(c16.ChainText(row.Chain[:row.K-1]), v.X)
			}
			ctx.AddEvals(1)
			if hasSpecial(v.Text) {
				ctx.Distinct("r|" + m.String() + "|" + row.Text + "|" + v.Text)
			}
			if sig, what := Judge(m, row, &v, o); what != "" {
				report(ctx, sig, what, m, row, &v, o, "C03 predicate")
			}
			if !c16.TLCSafe(v.Text) || !c16.TLCSafe(o.Out) || !c16.TLCSafe(o.Off) || !c16.TLCSafe(o.Y) {
				continue
			}
			lines = append(lines, traceLine{m.Site, m.NS, m.T, m.CNS, m.CT, row.Chain, v.Spec, o.Err, o.Out, o.Off, o.Y})
			metas = append(metas, struct {
				m   ModeRow
				row *ChainRow
				v   Value
				o   Obs
			}{m, row, v, o})
		}
		var buf bytes.Buffer
		for _, l := range lines {
			b, err := json.Marshal(l)
			if err != nil {
				ctx.ToolError("trace: %v", err)
				return
			}
			buf.Write(b)
			buf.WriteByte('\n')
		}
		cfg := "CONSTANT DirDev = {}\nINIT Init\nNEXT Next\nINVARIANT Report\nPOSTCONDITION TraceAccepted\nCHECK_DEADLOCK FALSE\n"
		res, err := c16.RunTLC(ctx, core.TLCOpts{Module: "C03Trace", Cfg: cfg, Files: map[string][]byte{"c03_trace.ndjson": buf.Bytes()},
			Workers: 1, Timeout: 9 * time.Minute, Label: "M3-trace-validation"})
		if err != nil {
			ctx.ToolError("M3: %v", err)
			return
		}
		if res.Violated != "" {
			ctx.ToolError("M3: trace spec reported %s: %s", res.Violated, clip(res.Trace))
			return
		}
		doneOK := false
		for _, tu := range res.Tuples {
			if mm := reBad.FindStringSubmatch(tu); mm != nil {
				i, _ := strconv.Atoi(mm[1])
				me := metas[i-1]
				sig, what := Judge(me.m, me.row, &me.v, me.o)
				if what == "" {
					// only the spec's decoders / the spec's text of the value reject the line
					kind := "string"
					if !me.v.IsStr {
						kind = "non-string"
					}
					sig = core.Sig{Family: "tlc-only", Feature: "site=" + me.m.Site + ",class=" + me.row.Class + "," + mm[2] + "," + kind}
					what = "rejected by TLC against C03Sites.TraceVerdict (the Go decoders accept it): " + mm[2]
				}
				report(ctx, sig, what, me.m, me.row, &me.v, me.o, "trace validation")
			} else if mm := reDone.FindStringSubmatch(tu); mm != nil {
				cnt, _ := strconv.Atoi(mm[1])
				skip, _ := strconv.Atoi(mm[3])
				doneOK = cnt == len(lines)
				ctx.AddTraces(int64(cnt - skip))
			}
		}
		if !doneOK {
			ctx.ToolError("M3: TLC did not consume the whole trace: %s", tailS(res.Stdout, 500))
			return
		}
		ctx.Sample(map[string]interface{}{"family": "M3", "line": lines[len(lines)/2]})
	}
}

// ---------------------------------------------------------------------------
// replay of a saved case

// Replay re-runs one saved case.
func Replay(ctx *core.Ctx) {
	b, err := os.ReadFile(ctx.ReplayPath)
	if err != nil {
		ctx.ToolError("replay: %v", err)
		return
	}
	var f struct {
		Replay replayCase `json:"replay"`
	}
	if err := json.Unmarshal(b, &f); err != nil {
		ctx.ToolError("replay: %v", err)
		return
	}
	rc := f.Replay
	if rc.Kind == "no-return" {
		fmt.Println("replay: this finding is a render that does not return; it is not re-run (render the saved files with the saved value under a deadline)")
		return
	}
	var x data.Value
	text := ""
	isStr := true
	if rc.InputHex != "" || rc.Value == nil {
		var raw []byte
		fmt.Sscanf(rc.InputHex, "%x", &raw)
		x, text = data.String(raw), string(raw)
	} else {
		x = core.ToData(rc.Value)
		isStr = rc.Value["t"] == "str"
		if isStr {
			text = rc.Value["v"].(string)
		} else {
			text, _ = strconv.Unquote(rc.InputQ)
		}
	}
	real := c16.NewReal()
	comp, err, _ := core.Compile(rc.Files, nil)
	if err != nil {
		ctx.ToolError("replay: compile: %v", err)
		return
	}
	res := comp.Render("a.m", data.Map{"x": x}, nil)
	row := &ChainRow{Chain: rc.Chain, Text: c16.ChainText(rc.Chain), Class: rc.Class}
	for i, d := range rc.Chain {
		if d.Name == "escapeHtml" || d.Name == "changeNewlineToBr" || d.Name == "insertWordBreaks" {
			if onlyTransparent(rc.Chain[i+1:]) {
				row.K = i + 1
			}
		}
	}
	o := Obs{Out: res.Out, Err: res.Err != nil}
	o.Off, _ = real.RenderOff(row.Text, x)
	if row.K > 1 {
		o.Y, _ = real.RenderOff(c16.ChainText(rc.Chain[:row.K-1]), x)
	}
	v := Value{X: x, Spec: rc.Value, Text: text, IsStr: isStr, ExpIdx: -1}
	ctx.AddEvals(1)
	fmt.Printf("replay: %s {$x%s} x=%s -> %s (err=%v)\n", rc.Mode, row.Text, strconv.Quote(clip(text)), strconv.Quote(clip(res.Out)), res.Err)
	if sig, what := Judge(rc.Mode, row, &v, o); what != "" {
		report(ctx, sig, what, rc.Mode, row, &v, o, "replay")
	}
}
