package c03

// Round 4: (a) directives registered by the embedder in soyhtml.PrintDirectives
// (the six of SoyDirectives.CustomNames) take part in every chain family, and
// the spec's cancel table is compared with the flags actually registered;
// (b) messages are also rendered THROUGH A TRANSLATION (soymsg.Bundle): the
// identity translation built from soymsg.PlaceholderString, the identity built
// by walking the message node, and a reordering/repeating one; every print of
// the message is cut out of the output by its markers and judged by the same
// C03 predicate as every other print site.

import (
	"bytes"
	"encoding/json"
	"fmt"
	"math/rand"
	"runtime"
	"strconv"
	"strings"
	"sync"
	"time"

	"github.com/robfig/soy/ast"
	"github.com/robfig/soy/data"
	"github.com/robfig/soy/soyhtml"
	"github.com/robfig/soy/soymsg"

	"verif/c16"
	"verif/core"
)

var registerOnce sync.Once

// RegisterCustom registers the embedder's directives of the model
// (SoyDirectives.CustomNames) in the real table, once, before any render.
func RegisterCustom() {
	registerOnce.Do(func() {
		app := func(v data.Value, a []data.Value) data.Value { return data.String(v.String() + a[0].String()) }
		ident := func(v data.Value, _ []data.Value) data.Value { return v }
		soyhtml.PrintDirectives["vfAppend"] = soyhtml.PrintDirective{Apply: app, ValidArgLengths: []int{1}, CancelAutoescape: false}
		soyhtml.PrintDirectives["vfRawAppend"] = soyhtml.PrintDirective{Apply: app, ValidArgLengths: []int{1}, CancelAutoescape: true}
		soyhtml.PrintDirectives["vfIdent"] = soyhtml.PrintDirective{Apply: ident, ValidArgLengths: []int{0}, CancelAutoescape: false}
		soyhtml.PrintDirectives["vfRawIdent"] = soyhtml.PrintDirective{Apply: ident, ValidArgLengths: []int{0}, CancelAutoescape: true}
		soyhtml.PrintDirectives["vfQuote"] = soyhtml.PrintDirective{
			Apply:           func(v data.Value, _ []data.Value) data.Value { return data.String(`"` + v.String() + `"`) },
			ValidArgLengths: []int{0}, CancelAutoescape: false}
		soyhtml.PrintDirectives["vfList"] = soyhtml.PrintDirective{
			Apply:           func(v data.Value, _ []data.Value) data.Value { return data.List{v, data.String("<i>")} },
			ValidArgLengths: []int{0}, CancelAutoescape: false}
	})
}

// CancelTable compares the spec's cancel table (class of every chain of one
// directive: ESC = does not cancel) with the flags in the real table.
func CancelTable(ctx *core.Ctx, t *Tables) {
	n := 0
	for i := range t.Chains {
		row := &t.Chains[i]
		if len(row.Chain) != 1 {
			continue
		}
		name := row.Chain[0].Name
		d, ok := soyhtml.PrintDirectives[name]
		n++
		if !ok {
			ctx.Violation(core.Sig{Family: "cancel-table", Feature: "directive=" + name + ",missing"}, "directive |"+name+" is not in soyhtml.PrintDirectives", name)
			continue
		}
		if specCancels := row.Class != "ESC"; specCancels != d.CancelAutoescape {
			ctx.Violation(core.Sig{Family: "cancel-table", Feature: fmt.Sprintf("directive=%s,flag=%v", name, d.CancelAutoescape)},
				fmt.Sprintf("soyhtml.PrintDirectives[%q].CancelAutoescape = %v, the documented/registered table says %v", name, d.CancelAutoescape, specCancels), name)
		}
	}
	ctx.AddEvals(int64(n))
}

// ---------------------------------------------------------------------------
// messages through a translation

type msgShape struct {
	name   string
	params string
	body   func(c1, c2 string) string
	chains func(c1, c2 int) []int // chain (index into the pair) of print 1..k
	plural bool
}

func mk(i int, expr, chain string) string {
	return fmt.Sprintf("ZqS%dZq{%s%s}ZqE%dZq", i, expr, chain, i)
}

var msgShapes = []msgShape{
	{"two", "x", func(a, b string) string { return mk(1, "$x", a) + " mid " + mk(2, "$x", b) },
		func(a, b int) []int { return []int{a, b} }, false},
	{"tags", "x", func(a, b string) string {
		return "<b>" + mk(1, "$x", a) + "</b> <i class=\"k\">" + mk(2, "$x", b) + "</i><br/>"
	}, func(a, b int) []int { return []int{a, b} }, false},
	{"xyx", "x y", func(a, b string) string {
		return mk(1, "$x", a) + " " + mk(2, "$y", b) + " " + mk(3, "$x", b) + " " + mk(4, "$y", a)
	},
		func(a, b int) []int { return []int{a, b, b, a} }, false},
	{"plural", "x n", func(a, b string) string {
		return "{plural $n}{case 1}one " + mk(1, "$x", a) + "{default}many " + mk(2, "$x", b) + " and " + mk(3, "$x", a) + "{/plural}"
	}, func(a, b int) []int { return []int{a, b, a} }, true},
}

func msgTemplate(sh msgShape, ns, tt, c1, c2 string) string {
	var doc strings.Builder
	doc.WriteString("/**\n")
	for _, p := range strings.Fields(sh.params) {
		doc.WriteString(" * @param " + p + "\n")
	}
	doc.WriteString(" */\n")
	return "{namespace a" + attr(ns) + "}\n" + doc.String() + "{template .m" + attr(tt) + "}\n{msg desc=\"d\"}" + sh.body(c1, c2) + "{/msg}\n{/template}\n"
}

type fakeBundle struct {
	msgs   map[uint64]*soymsg.Message
	plural func(n int) int
}

func (b fakeBundle) Locale() string                    { return "xx" }
func (b fakeBundle) Message(id uint64) *soymsg.Message { return b.msgs[id] }
func (b fakeBundle) PluralCase(n int) int {
	if b.plural == nil {
		return 0
	}
	return b.plural(n)
}

func findMsg(n ast.Node) *ast.MsgNode {
	if m, ok := n.(*ast.MsgNode); ok {
		return m
	}
	if p, ok := n.(ast.ParentNode); ok {
		for _, c := range p.Children() {
			if c == nil {
				continue
			}
			if m := findMsg(c); m != nil {
				return m
			}
		}
	}
	return nil
}

// identity translation by walking the message node
func walkParts(body ast.ParentNode) []soymsg.Part {
	var parts []soymsg.Part
	for _, c := range body.Children() {
		switch c := c.(type) {
		case *ast.RawTextNode:
			parts = append(parts, soymsg.RawTextPart{Text: string(c.Text)})
		case *ast.MsgPlaceholderNode:
			parts = append(parts, soymsg.PlaceholderPart{Name: c.Name})
		case *ast.MsgPluralNode:
			pp := soymsg.PluralPart{VarName: c.VarName}
			for _, cs := range c.Cases {
				pp.Cases = append(pp.Cases, soymsg.PluralCase{Spec: soymsg.PluralSpec{Type: soymsg.PluralSpecExplicit, ExplicitValue: cs.Value}, Parts: walkParts(cs.Body)})
			}
			pp.Cases = append(pp.Cases, soymsg.PluralCase{Spec: soymsg.PluralSpec{Type: soymsg.PluralSpecOther}, Parts: walkParts(c.Default)})
			parts = append(parts, pp)
		}
	}
	return parts
}

// a translation that reorders the prints, repeats the first one and moves the
// tags to the end; the markers travel with the placeholder they belong to
func reorderParts(parts []soymsg.Part) []soymsg.Part {
	type seg struct{ pre, ph, post soymsg.Part }
	var segs []seg
	var tags []soymsg.Part
	var out []soymsg.Part
	for i := 0; i < len(parts); i++ {
		switch p := parts[i].(type) {
		case soymsg.PluralPart:
			q := soymsg.PluralPart{VarName: p.VarName}
			for _, c := range p.Cases {
				q.Cases = append(q.Cases, soymsg.PluralCase{Spec: c.Spec, Parts: reorderParts(c.Parts)})
			}
			return []soymsg.Part{q}
		case soymsg.PlaceholderPart:
			// a print placeholder stands between its two markers; anything else is a tag
			if i > 0 && i+1 < len(parts) {
				pre, ok1 := parts[i-1].(soymsg.RawTextPart)
				post, ok2 := parts[i+1].(soymsg.RawTextPart)
				if ok1 && ok2 {
					if a, b := strings.LastIndex(pre.Text, "ZqS"), strings.Index(post.Text, "Zq"); a >= 0 && strings.HasPrefix(post.Text, "ZqE") && b == 0 {
						end := strings.Index(post.Text[2:], "Zq") + 4
						segs = append(segs, seg{soymsg.RawTextPart{Text: pre.Text[a:]}, p, soymsg.RawTextPart{Text: post.Text[:end]}})
						continue
					}
				}
			}
			tags = append(tags, p)
		}
	}
	out = append(out, soymsg.RawTextPart{Text: "[xx] "})
	for i := len(segs) - 1; i >= 0; i-- {
		out = append(out, segs[i].pre, segs[i].ph, segs[i].post, soymsg.RawTextPart{Text: " ; "})
	}
	if len(segs) > 0 {
		out = append(out, segs[0].pre, segs[0].ph, segs[0].post)
	}
	return append(out, tags...)
}

// segments cuts the output of print i out of the rendered message.
func segments(out string, i int) []string {
	var segs []string
	s, e := fmt.Sprintf("ZqS%dZq", i), fmt.Sprintf("ZqE%dZq", i)
	for {
		a := strings.Index(out, s)
		if a < 0 {
			return segs
		}
		out = out[a+len(s):]
		b := strings.Index(out, e)
		if b < 0 {
			return segs
		}
		segs = append(segs, out[:b])
		out = out[b+len(e):]
	}
}

var msgChainTexts = []string{"", "|noAutoescape", "|id", "|escapeHtml", "|insertWordBreaks:3", "|truncate:5", "|escapeUri", "|vfQuote", "|vfRawAppend:'<u>&\"'"}

// MsgBundles renders messages without a bundle and through translations.
func MsgBundles(ctx *core.Ctx, real *c16.Real, t *Tables, vals []Value) {
	rows := make([]*ChainRow, len(msgChainTexts))
	for i, txt := range msgChainTexts {
		for ci := range t.Chains {
			if t.Chains[ci].Text == txt {
				rows[i] = &t.Chains[ci]
			}
		}
		if rows[i] == nil {
			ctx.ToolError("msg family: chain %q is not in the exported table", txt)
			return
		}
	}
	modeOf := func(ns, tt string) (ModeRow, bool) {
		for _, m := range t.Modes {
			if m.Site == "msg" && m.NS == ns && m.T == tt {
				return m, true
			}
		}
		return ModeRow{}, false
	}
	attrs := [][2]string{{"unspecified", "unspecified"}, {"false", "unspecified"}, {"false", "deprecated-contextual"}}
	if ctx.Thorough() {
		attrs = append(attrs, [2]string{"false", "true"}, [2]string{"unspecified", "contextual"}, [2]string{"true", "false"})
	}
	r := rand.New(rand.NewSource(ctx.Seed + 23))
	var sample []int
	for vi, v := range vals {
		if strings.Contains(v.Text, "Zq") || len(v.Text) > 300 {
			continue
		}
		must := (v.ExpIdx >= 0 && (!v.IsStr || hasSpecial(v.Text))) || (len(v.Text) <= 2 && v.Text != "" && strings.Trim(v.Text, "&<>\"'") == "")
		if must || r.Intn(ctx.Pick(40, 5)) == 0 {
			sample = append(sample, vi)
		}
	}
	type job struct{ a, b int }
	var jobs []job
	for a := range rows {
		for b := range rows {
			core3 := a <= 2 || b <= 2 // a pair with a plain / noAutoescape / id print
			if core3 || ctx.Thorough() || r.Intn(3) == 0 {
				jobs = append(jobs, job{a, b})
			}
		}
	}
	ch := make(chan job, 64)
	var wg sync.WaitGroup
	var mu sync.Mutex
	var n, nseg int64
	var lines []traceLine
	for w := 0; w < runtime.NumCPU()/2; w++ {
		wg.Add(1)
		go func() {
			defer wg.Done()
			var ln, lseg int64
			var llines []traceLine
			for j := range ch {
				pair := [2]*ChainRow{rows[j.a], rows[j.b]}
				// what each chain writes with escaping off / before its last self-escaping directive
				offs := [2]map[int]Obs{{}, {}}
				for k, row := range pair {
					for _, vi := range sample {
						o := Obs{}
						var err error
						o.Off, err = real.RenderOff(row.Text, vals[vi].X)
						o.Err = err != nil
						if row.K > 1 {
							o.Y, _ = real.RenderOff(c16.ChainText(row.Chain[:row.K-1]), vals[vi].X)
						}
						offs[k][vi] = o
					}
				}
				for _, sh := range msgShapes {
					which := sh.chains(0, 1)
					for _, at := range attrs {
						m, ok := modeOf(at[0], at[1])
						if !ok {
							continue
						}
						src := msgTemplate(sh, at[0], at[1], pair[0].Text, pair[1].Text)
						comp, err, _ := core.Compile([]core.File{{Name: "a.soy", Text: src}}, nil)
						if err != nil {
							ctx.Violation(core.Sig{Family: "compile", Feature: "site=msg,shape=" + sh.name + ",rejected"}, "valid message template rejected: "+err.Error(), src)
							continue
						}
						tm, ok := comp.Registry.Template("a.m")
						if !ok {
							continue
						}
						msg := findMsg(tm.Node)
						if msg == nil {
							ctx.ToolError("msg family: no MsgNode in %s", src)
							return
						}
						cs := &c16.Case{Files: []core.File{{Name: "a.soy", Text: src}}, Render: "a.m", ChainText: pair[0].Text + pair[1].Text}
						walk := walkParts(msg.Body)
						pluralIdx := func(nv int) int {
							if nv == 1 {
								return 0
							}
							return 1
						}
						bundles := []struct {
							name string
							b    soymsg.Bundle
						}{
							{"none", nil},
							{"identity-walk", fakeBundle{map[uint64]*soymsg.Message{msg.ID: {ID: msg.ID, Parts: walk}}, pluralIdx}},
							{"reorder", fakeBundle{map[uint64]*soymsg.Message{msg.ID: {ID: msg.ID, Parts: reorderParts(walk)}}, pluralIdx}},
						}
						if !sh.plural {
							bundles = append(bundles, struct {
								name string
								b    soymsg.Bundle
							}{"identity-phstring", fakeBundle{map[uint64]*soymsg.Message{msg.ID: soymsg.NewMessage(msg.ID, "[xx] "+soymsg.PlaceholderString(msg))}, nil}})
						}
						ns := []int{0}
						if sh.plural {
							ns = []int{1, 5}
						}
						for _, vi := range sample {
							v := &vals[vi]
							for _, nv := range ns {
								d := data.Map{"x": v.X, "y": v.X, "n": data.Int(nv)}
								for _, bd := range bundles {
									var buf bytes.Buffer
									rd := comp.Tofu.NewRenderer("a.m")
									if bd.b != nil {
										rd = rd.WithMessages(bd.b)
									}
									rerr := func() (err error) {
										defer func() {
											if p := recover(); p != nil {
												err = fmt.Errorf("PANIC: %v", p)
											}
										}()
										guard.Run(cs, v.X, func() { err = rd.Execute(&buf, d) })
										return
									}()
									ln++
									if rerr != nil {
										continue // not judged (the chain fails on this value in a plain template too, or C06's business)
									}
									out := buf.String()
									for pi, k := range which {
										want := !sh.plural || (nv == 1) == (pi == 0)
										segs := segments(out, pi+1)
										if want && len(segs) == 0 && !offs[k][vi].Err {
											sig := core.Sig{Family: "msg-bundle", Feature: "shape=" + sh.name + ",bundle=" + bd.name + ",print-missing"}
											if reporter.First(sig) {
												ctx.Violation(sig, fmt.Sprintf("print %d of the message is missing from the output %s", pi+1, strconv.Quote(clip(out))),
													map[string]interface{}{"kind": "c03-msg", "template": src, "bundle": bd.name, "x_go_quoted": strconv.Quote(clip(v.Text)), "n": nv})
											}
										}
										for _, sg := range segs {
											lseg++
											o := offs[k][vi]
											o.Out = sg
											if !v.IsStr || hasSpecial(v.Text) {
												ctx.Distinct("msg|" + sh.name + "|" + bd.name + "|" + at[0] + at[1] + "|" + pair[0].Text + pair[1].Text + "|" + strconv.Itoa(pi) + "|" + strconv.Itoa(vi))
											}
											if sig, what := Judge(m, pair[k], v, o); what != "" {
												sig.Feature += ",msg-shape=" + sh.name
												if bd.b != nil {
													sig.Feature += ",through-translation"
												}
												if reporter.First(sig) {
													ctx.Violation(sig, fmt.Sprintf("%s, message %s, bundle %s, print %d {$x%s} x=%s wrote %s: %s", m, sh.name, bd.name, pi+1,
														pair[k].Text, strconv.Quote(clip(v.Text)), strconv.Quote(clip(sg)), what),
														map[string]interface{}{"kind": "c03-msg", "template": src, "bundle": bd.name, "placeholder_string": soymsg.PlaceholderString(msg),
															"x_go_quoted": strconv.Quote(clip(v.Text)), "n": nv, "observed": strconv.Quote(clip(out))})
												}
											} else if bd.b != nil && v.Spec != nil && (ln+int64(pi))%97 == 0 && len(llines) < 400 &&
												c16.TLCSafe(v.Text) && c16.TLCSafe(sg) && c16.TLCSafe(o.Off) && c16.TLCSafe(o.Y) {
												llines = append(llines, traceLine{"msg", at[0], at[1], "unspecified", "unspecified", pair[k].Chain, v.Spec, false, sg, o.Off, o.Y})
											}
										}
									}
								}
							}
						}
					}
				}
			}
			mu.Lock()
			n += ln
			nseg += lseg
			lines = append(lines, llines...)
			mu.Unlock()
		}()
	}
	for _, j := range jobs {
		ch <- j
	}
	close(ch)
	wg.Wait()
	ctx.AddEvals(nseg)
	ctx.AddTraces(nseg)
	ctx.Extra["msg_bundle_renders"] = n
	ctx.Extra["msg_bundle_prints_judged"] = nseg
	ctx.Extra["msg_bundle_chain_pairs"] = len(jobs)
	ctx.Sample(map[string]interface{}{"family": "MSG-BUNDLE", "template": msgTemplate(msgShapes[0], "unspecified", "unspecified", "|noAutoescape", ""), "bundles": "none, identity-walk, identity-phstring, reorder"})
	validateLines(ctx, lines, "M3-msg-bundle")
}

// validateLines has TLC validate print observations (C03Trace).
func validateLines(ctx *core.Ctx, lines []traceLine, label string) {
	if len(lines) == 0 {
		return
	}
	var buf bytes.Buffer
	for _, l := range lines {
		b, err := json.Marshal(l)
		if err != nil {
			ctx.ToolError("trace: %v", err)
			return
		}
		buf.Write(b)
		buf.WriteByte('\n')
	}
	cfg := "CONSTANT DirDev = {}\nINIT Init\nNEXT Next\nINVARIANT Report\nPOSTCONDITION TraceAccepted\nCHECK_DEADLOCK FALSE\n"
	res, err := c16.RunTLC(ctx, core.TLCOpts{Module: "C03Trace", Cfg: cfg, Files: map[string][]byte{"c03_trace.ndjson": buf.Bytes()},
		Workers: 1, Timeout: 9 * time.Minute, Label: label})
	if err != nil {
		ctx.ToolError("%s: %v", label, err)
		return
	}
	if res.Violated != "" {
		ctx.ToolError("%s: trace spec reported %s: %s", label, res.Violated, clip(res.Trace))
		return
	}
	done := false
	for _, tu := range res.Tuples {
		if mm := reBad.FindStringSubmatch(tu); mm != nil {
			i, _ := strconv.Atoi(mm[1])
			l := lines[i-1]
			sig := core.Sig{Family: "tlc-only", Feature: "site=msg,through-translation," + mm[2]}
			if reporter.First(sig) {
				ctx.Violation(sig, "a print of a translated message is rejected by TLC against C03Sites.TraceVerdict (the Go decoders accept it): "+mm[2], l)
			}
		} else if mm := reDone.FindStringSubmatch(tu); mm != nil {
			cnt, _ := strconv.Atoi(mm[1])
			skip, _ := strconv.Atoi(mm[3])
			done = cnt == len(lines)
			ctx.AddTraces(int64(cnt - skip))
		}
	}
	if !done {
		ctx.ToolError("%s: TLC did not consume the whole trace: %s", label, tailS(res.Stdout, 400))
	}
}
