package c03

// Round 5: a print site preceded / surrounded / followed by another command
// executed by the same template invocation (C03Sites.CmdKinds).  The
// effective escaping of a print is a function of the attributes and the
// directive chain only: no command may leave interpreter state behind.
// Every kind is rendered with soyhtml.Logger nil (the default); the {log}
// kinds also with a logger installed.

import (
	"fmt"
	"io"
	"log"
	"math/rand"
	"runtime"
	"strconv"
	"strings"
	"sync"

	"github.com/robfig/soy/data"
	"github.com/robfig/soy/soyhtml"

	"verif/c16"
	"verif/core"
)

// cmdKind is the Soy text of one kind: before(v) is put in front of the unit,
// wrap(u) surrounds it, between(v) stands between two units; v is the name of
// a parameter the frame has ("$x" or "$y").
type cmdKind struct {
	before  func(v string) string
	wrap    func(u string) string
	between func(v string) string
}

var cmdKinds = map[string]cmdKind{
	"log":                {before: func(v string) string { return "{log}L{" + v + "}{/log}" }},
	"log-print":          {before: func(v string) string { return "{log}{" + v + "|noAutoescape}{'<b>'}{/log}" }},
	"let":                {before: func(v string) string { return "{let $q}Q{" + v + "}{/let}{$q|noAutoescape}" }},
	"callparam":          {before: func(v string) string { return "{call h.p}{param w}W{" + v + "}{/param}{/call}" }},
	"msg":                {before: func(v string) string { return "{msg desc=\"k\"}M{" + v + "|noAutoescape}{/msg}" }},
	"css":                {before: func(v string) string { return "{css Qzc}" }},
	"debugger":           {before: func(v string) string { return "{debugger}" }},
	"foreach":            {before: func(v string) string { return "{foreach $i in [1, 2]}{$i}{" + v + "|noAutoescape}{/foreach}" }},
	"if":                 {before: func(v string) string { return "{if true}I{" + v + "|id}{/if}" }},
	"ifelse":             {before: func(v string) string { return "{if false}a{else}{" + v + "|noAutoescape}{/if}" }},
	"switch":             {before: func(v string) string { return "{switch 1}{case 1}S{" + v + "|noAutoescape}{default}d{/switch}" }},
	"print-noautoescape": {before: func(v string) string { return "{" + v + "|noAutoescape}" }},
	"literal":            {before: func(v string) string { return "{literal}<{lit}>&{/literal}" }},
	"around-if":          {wrap: func(u string) string { return "{if true}" + u + "{/if}" }},
	"around-else":        {wrap: func(u string) string { return "{if false}z{else}" + u + "{/if}" }},
	"around-foreach":     {wrap: func(u string) string { return "{foreach $i in [1]}{$i}" + u + "{/foreach}" }},
	"around-switch":      {wrap: func(u string) string { return "{switch 2}{case 1}z{default}" + u + "{/switch}" }},
	"around-let-if":      {wrap: func(u string) string { return "{let $k: 1/}{if $k}" + u + "{/if}" }},
	"between-log":        {between: func(v string) string { return "{log}x{" + v + "}{/log}" }},
	"between-let":        {between: func(v string) string { return "{let $q}Q{/let}{$q}" }},
	"between-callparam":  {between: func(v string) string { return "{call h.p}{param w}W{/param}{/call}" }},
}

const helperFile = "{namespace h}\n/** @param w */\n{template .p autoescape=\"false\"}\n{$w}\n{/template}\n"

func marked(i int, chain string) string { return fmt.Sprintf("ZqS%dZq{$x%s}ZqE%dZq", i, chain, i) }

// unit is the site's commands around print i (suffix keeps let names apart).
func unit(site string, i int, chain string) (caller, callee, calleeParam string) {
	p := marked(i, chain)
	sfx := strconv.Itoa(i)
	switch site {
	case "direct":
		return p, "", ""
	case "msg":
		return `{msg desc="d` + sfx + `"}` + p + `{/msg}`, "", ""
	case "let":
		return "{let $y" + sfx + "}" + p + "{/let}{$y" + sfx + "|noAutoescape}", "", ""
	case "letesc":
		return "{let $y" + sfx + "}" + p + "{/let}{$y" + sfx + "}", "", ""
	case "param":
		return "{call b.c}{param y}" + p + "{/param}{/call}", "{$y|noAutoescape}", "y"
	case "call":
		return "{call b.c}{param x: $x/}{/call}", p, "x"
	case "dataall":
		return `{call b.c data="all"/}`, p, "x"
	}
	return "", "", ""
}

// CmdFiles builds the files of a site with a command of the given kind in the
// frame that executes the print (where = "exec") or in the other frame.
func CmdFiles(m ModeRow, chain, kind, where string) (files []core.File, prints int) {
	k := cmdKinds[kind]
	c1, e1, cp := unit(m.Site, 1, chain)
	execIsCallee := m.Site == "call" || m.Site == "dataall"
	caller, callee := c1, e1
	prints = 1
	apply := func(body, v string) string {
		switch {
		case k.before != nil:
			return k.before(v) + body
		case k.wrap != nil:
			return k.wrap(body)
		default:
			c2, e2, _ := unit(m.Site, 2, chain)
			second := c2
			if execIsCallee {
				second = e2
			}
			prints = 2
			return body + k.between(v) + second
		}
	}
	inCallee := execIsCallee
	if where == "other" {
		inCallee = !execIsCallee
	}
	if inCallee {
		callee = apply(callee, "$"+cp)
	} else {
		caller = apply(caller, "$x")
	}
	a := "{namespace a" + attr(m.NS) + "}\n/** @param x */\n{template .m" + attr(m.T) + "}\n" + caller + "\n{/template}\n"
	files = []core.File{{Name: "a.soy", Text: a}, {Name: "h.soy", Text: helperFile}}
	if callee != "" {
		b := "{namespace b" + attr(m.CNS) + "}\n/** @param " + cp + " */\n{template .c" + attr(m.CT) + "}\n" + callee + "\n{/template}\n"
		files = append(files, core.File{Name: "b.soy", Text: b})
	}
	return files, prints
}

// PrecedingCommands replays the sites with a command of every kind around
// the print(s).
func PrecedingCommands(ctx *core.Ctx, t *Tables, vals []Value, off, y [][]string) {
	for _, k := range t.Cmds {
		if _, ok := cmdKinds[k]; !ok && k != "none" {
			ctx.ToolError("command kind %q of C03Sites.CmdKinds has no Soy text in the harness", k)
			return
		}
	}
	if len(t.Cmds) != len(cmdKinds)+1 {
		ctx.ToolError("C03Sites.CmdKinds (%d) and the harness's kinds (%d + none) differ", len(t.Cmds), len(cmdKinds))
		return
	}
	r := rand.New(rand.NewSource(ctx.Seed + 31))
	var sample []int
	for vi, v := range vals {
		if strings.Contains(v.Text, "Zq") || len(v.Text) > 300 {
			continue
		}
		must := (v.ExpIdx >= 0 && (!v.IsStr || hasSpecial(v.Text))) || (len(v.Text) <= 2 && v.Text != "" && strings.Trim(v.Text, "&<>\"'") == "")
		if must || r.Intn(ctx.Pick(40, 6)) == 0 {
			sample = append(sample, vi)
		}
	}
	type job struct {
		mi, ci      int
		kind, where string
	}
	var jobsNil, jobsLog []job
	for mi, m := range t.Modes {
		if !isChainStructure(m) {
			continue
		}
		for ci := range t.Chains {
			if !isSiteChain(t.Chains[ci].Text) {
				continue
			}
			for kind := range cmdKinds {
				jobsNil = append(jobsNil, job{mi, ci, kind, "exec"})
				isLog := strings.Contains(kind, "log")
				if isLog {
					jobsLog = append(jobsLog, job{mi, ci, kind, "exec"})
				}
				if m.Site == "param" || m.Site == "call" || m.Site == "dataall" {
					if kind == "log" || kind == "let" || kind == "msg" || kind == "css" {
						jobsNil = append(jobsNil, job{mi, ci, kind, "other"})
						if isLog {
							jobsLog = append(jobsLog, job{mi, ci, kind, "other"})
						}
					}
				}
			}
		}
	}
	var n, nseg int64
	var mu sync.Mutex
	run := func(jobs []job, logger string) {
		ch := make(chan job, 64)
		var wg sync.WaitGroup
		for w := 0; w < runtime.NumCPU()/2; w++ {
			wg.Add(1)
			go func() {
				defer wg.Done()
				var ln, lseg int64
				for j := range ch {
					m, row := t.Modes[j.mi], &t.Chains[j.ci]
					files, prints := CmdFiles(m, row.Text, j.kind, j.where)
					comp, err, _ := core.Compile(files, nil)
					if err != nil {
						sig := core.Sig{Family: "compile", Feature: "site=" + m.Site + ",cmd=" + j.kind + ",rejected"}
						if reporter.First(sig) {
							ctx.Violation(sig, "valid site program rejected: "+err.Error(), map[string]interface{}{"files": files})
						}
						continue
					}
					cs := &c16.Case{Files: files, Render: "a.m", ChainText: row.Text}
					for _, vi := range sample {
						v := &vals[vi]
						res := renderGuarded(cs, comp, v.X, data.Map{"x": v.X}, nil)
						ln++
						if res.Err != nil {
							continue
						}
						for pi := 1; pi <= prints; pi++ {
							segs := segments(res.Out, pi)
							if len(segs) == 0 {
								sig := core.Sig{Family: "preceding-command", Feature: "site=" + m.Site + ",cmd=" + j.kind + ",print-missing"}
								if reporter.First(sig) {
									ctx.Violation(sig, fmt.Sprintf("print %d is missing from the output %s", pi, strconv.Quote(clip(res.Out))),
										map[string]interface{}{"kind": "c03-cmd", "files": files, "x_go_quoted": strconv.Quote(clip(v.Text)), "logger": logger})
								}
							}
							for _, sg := range segs {
								lseg++
								if !v.IsStr || hasSpecial(v.Text) {
									ctx.Distinct("cmd|" + logger + "|" + j.kind + j.where + "|" + strconv.Itoa(j.mi) + "." + strconv.Itoa(j.ci) + "." + strconv.Itoa(vi) + "." + strconv.Itoa(pi))
								}
								o := Obs{Out: sg, Off: off[j.ci][vi], Y: y[j.ci][vi]}
								if sig, what := Judge(m, row, v, o); what != "" {
									sig.Feature += ",after-cmd=" + j.kind + ",frame=" + j.where + ",logger=" + logger
									if reporter.First(sig) {
										ctx.Violation(sig, fmt.Sprintf("%s with a %s command (%s frame, soyhtml.Logger %s) {$x%s} x=%s wrote %s: %s", m, j.kind, j.where, logger,
											row.Text, strconv.Quote(clip(v.Text)), strconv.Quote(clip(sg)), what),
											map[string]interface{}{"kind": "c03-cmd", "files": files, "render": "a.m", "x_go_quoted": strconv.Quote(clip(v.Text)),
												"logger": logger, "observed": strconv.Quote(clip(res.Out))})
									}
								}
							}
						}
					}
				}
				mu.Lock()
				n += ln
				nseg += lseg
				mu.Unlock()
			}()
		}
		for _, j := range jobs {
			ch <- j
		}
		close(ch)
		wg.Wait()
	}
	// no other render is in flight while the global logger is switched
	saved := soyhtml.Logger
	soyhtml.Logger = nil
	run(jobsNil, "nil")
	soyhtml.Logger = log.New(io.Discard, "", 0)
	run(jobsLog, "set")
	soyhtml.Logger = saved
	ctx.AddEvals(nseg)
	ctx.AddTraces(nseg)
	ctx.Extra["cmd_family_renders"] = n
	ctx.Extra["cmd_family_prints_judged"] = nseg
	ctx.Extra["cmd_family_structures"] = len(jobsNil) + len(jobsLog)
	ctx.Extra["soyhtml_Logger_configurations"] = "nil (default; everything) and installed (the {log} kinds again)"
	f, _ := CmdFiles(ModeRow{Site: "direct", NS: "unspecified", T: "unspecified", CNS: "unspecified", CT: "unspecified"}, "", "log", "exec")
	ctx.Sample(map[string]interface{}{"family": "PRECEDING-COMMAND", "files": f})
}
