package c03

// Round 6: two more dimensions of the site description that must NOT influence
// escaping (SoyDirectives.ExprShapes / EffectiveEscapeX):
//   EXPR-SHAPE  the shape of the printed expression: the same value printed as
//               $x, $x + '', $a + $b, $c ? $x : '', $m.k, $l[0], $ij.x, a global,
//               a {let} value, a function result, a list literal ...
//   EXTRA-ATTRS every other attribute the parser accepts on {template}
//               (kind="...", private="...") and on {let}/{param} content blocks
//               (kind="..."): only `autoescape` may matter.

import (
	"fmt"
	"math/rand"
	"runtime"
	"strconv"
	"strings"
	"sync"
	"unicode/utf8"

	"github.com/robfig/soy/data"

	"verif/c16"
	"verif/core"
)

type exprShape struct {
	expr    string   // the printed expression
	params  []string // parameters it reads
	prelude string   // commands before the site in the executing frame
	strOnly bool     // defined only for string values
	text    func(t string) string
}

var exprShapes = map[string]exprShape{
	"var":           {expr: "$x", params: []string{"x"}},
	"concat-right":  {expr: "$x + ''", params: []string{"x"}},
	"concat-left":   {expr: "'' + $x", params: []string{"x"}},
	"concat-split":  {expr: "$a + $b", params: []string{"a", "b"}, strOnly: true},
	"concat-number": {expr: "1 + $x", params: []string{"x"}, strOnly: true, text: func(t string) string { return "1" + t }},
	"elvis":         {expr: "$x ?: $x", params: []string{"x"}},
	"ternary":       {expr: "$c ? $x : ''", params: []string{"c", "x"}},
	"paren":         {expr: "($x)", params: []string{"x"}},
	"map-dot":       {expr: "$m.k", params: []string{"m"}},
	"list-index":    {expr: "$l[0]", params: []string{"l"}},
	"map-bracket":   {expr: "$m['k']", params: []string{"m"}},
	"injected":      {expr: "$ij.x"},
	"global":        {expr: "GLOB_X"},
	"let-value":     {expr: "$v", params: []string{"x"}, prelude: "{let $v: $x/}"},
	// (this generation of Soy cannot index a function call directly: through a {let} value)
	"fn-augmentMap": {expr: "$am['k']", params: []string{"m"}, prelude: "{let $am: augmentMap($m, $m)/}"},
	"fn-keys":       {expr: "$ks[0]", params: []string{"km"}, prelude: "{let $ks: keys($km)/}", strOnly: true},
	"eq-ternary":    {expr: "$c == $c ? $x : ''", params: []string{"c", "x"}},
	"and-ternary":   {expr: "($c and not false) ? $x : ''", params: []string{"c", "x"}},
	"list-literal":  {expr: "[$x]", params: []string{"x"}, text: func(t string) string { return "[" + t + "]" }},
}

func paramDoc(ps []string) string {
	var b strings.Builder
	b.WriteString("/**\n")
	for _, p := range ps {
		b.WriteString(" * @param " + p + "\n")
	}
	b.WriteString(" */\n")
	return b.String()
}

// ShapeFiles builds the site with the print {EXPR|chain} (marked).
func ShapeFiles(m ModeRow, chain string, sh exprShape) []core.File {
	p := "ZqS1Zq{" + sh.expr + chain + "}ZqE1Zq"
	var caller, callee string
	callerParams, calleeParams := sh.params, []string(nil)
	switch m.Site {
	case "direct":
		caller = sh.prelude + p
	case "msg":
		caller = sh.prelude + `{msg desc="d"}` + p + `{/msg}`
	case "let":
		caller = sh.prelude + "{let $y}" + p + "{/let}{$y|noAutoescape}"
	case "letesc":
		caller = sh.prelude + "{let $y}" + p + "{/let}{$y}"
	case "param":
		caller = sh.prelude + "{call b.c}{param y}" + p + "{/param}{/call}"
		callee, calleeParams = "{$y|noAutoescape}", []string{"y"}
	case "call":
		caller = "{call b.c}"
		for _, q := range sh.params {
			caller += "{param " + q + ": $" + q + "/}"
		}
		caller += "{/call}"
		if len(sh.params) == 0 {
			caller = "{call b.c/}"
		}
		callee, calleeParams = sh.prelude+p, sh.params
	case "dataall":
		caller = `{call b.c data="all"/}`
		callee, calleeParams = sh.prelude+p, sh.params
	}
	files := []core.File{{Name: "a.soy", Text: "{namespace a" + attr(m.NS) + "}\n" + paramDoc(callerParams) + "{template .m" + attr(m.T) + "}\n" + caller + "\n{/template}\n"}}
	if callee != "" {
		files = append(files, core.File{Name: "b.soy", Text: "{namespace b" + attr(m.CNS) + "}\n" + paramDoc(calleeParams) + "{template .c" + attr(m.CT) + "}\n" + callee + "\n{/template}\n"})
	}
	return files
}

func shapeData(v *Value) (d, ij, glob data.Map) {
	d = data.Map{"x": v.X, "m": data.Map{"k": v.X}, "l": data.List{v.X}, "c": data.Bool(true)}
	if v.IsStr {
		s := v.Text
		h := len(s) / 2
		for h > 0 && h < len(s) && !utf8.RuneStart(s[h]) {
			h--
		}
		d["a"], d["b"] = data.String(s[:h]), data.String(s[h:])
		d["km"] = data.Map{s: data.Int(1)}
	}
	return d, data.Map{"x": v.X}, data.Map{"GLOB_X": v.X}
}

// ExprShapes prints the same value through every expression shape.
func ExprShapes(ctx *core.Ctx, real *c16.Real, t *Tables, vals []Value) {
	if len(t.Shapes) != len(exprShapes) {
		ctx.ToolError("SoyDirectives.ExprShapes (%d) and the harness's shapes (%d) differ", len(t.Shapes), len(exprShapes))
		return
	}
	for _, k := range t.Shapes {
		if _, ok := exprShapes[k]; !ok {
			ctx.ToolError("expression shape %q of the spec has no Soy text in the harness", k)
			return
		}
	}
	r := rand.New(rand.NewSource(ctx.Seed + 41))
	var sample []int
	for vi, v := range vals {
		if strings.Contains(v.Text, "Zq") || len(v.Text) > 300 {
			continue
		}
		must := (v.ExpIdx >= 0 && (!v.IsStr || hasSpecial(v.Text))) || (len(v.Text) <= 2 && v.Text != "" && strings.Trim(v.Text, "&<>\"'") == "")
		if must || r.Intn(ctx.Pick(40, 6)) == 0 {
			sample = append(sample, vi)
		}
	}
	type job struct {
		mi, ci int
		shape  string
	}
	var jobs []job
	for mi, m := range t.Modes {
		if !isChainStructure(m) {
			continue
		}
		for ci := range t.Chains {
			if isSiteChain(t.Chains[ci].Text) {
				for name := range exprShapes {
					jobs = append(jobs, job{mi, ci, name})
				}
			}
		}
	}
	offRender := func(sh exprShape, chain string, glob data.Map, d, ij data.Map) (string, bool) {
		src := "{namespace t}\n" + paramDoc(sh.params) + "{template .m autoescape=\"false\"}\n" + sh.prelude + "{" + sh.expr + chain + "}\n{/template}\n"
		var comp *core.Compiled
		var err error
		if sh.expr == "GLOB_X" {
			comp, err, _ = core.Compile([]core.File{{Name: "t.soy", Text: src}}, glob)
		} else {
			comp, err = real.Compiled([]core.File{{Name: "t.soy", Text: src}})
		}
		if err != nil {
			return "", false
		}
		res := renderGuarded(&c16.Case{Files: []core.File{{Name: "t.soy", Text: src}}, Render: "t.m", ChainText: chain}, comp, d["x"], d, ij)
		return res.Out, res.Err == nil
	}
	ch := make(chan job, 64)
	var wg sync.WaitGroup
	var mu sync.Mutex
	var n int64
	for w := 0; w < runtime.NumCPU()/2; w++ {
		wg.Add(1)
		go func() {
			defer wg.Done()
			var ln int64
			for j := range ch {
				m, row, sh := t.Modes[j.mi], &t.Chains[j.ci], exprShapes[j.shape]
				files := ShapeFiles(m, row.Text, sh)
				var comp *core.Compiled
				if j.shape != "global" {
					var err error
					comp, err, _ = core.Compile(files, nil)
					if err != nil {
						sig := core.Sig{Family: "compile", Feature: "site=" + m.Site + ",shape=" + j.shape + ",rejected"}
						if reporter.First(sig) {
							ctx.Violation(sig, "valid site program rejected: "+err.Error(), map[string]interface{}{"files": files})
						}
						continue
					}
				}
				for _, vi := range sample {
					v := &vals[vi]
					if sh.strOnly && (!v.IsStr || v.Text == "") {
						continue
					}
					d, ij, glob := shapeData(v)
					c := comp
					if j.shape == "global" {
						if v.ExpIdx < 0 { // one compilation per value: the exported values only
							continue
						}
						var err error
						c, err, _ = core.Compile(files, glob)
						if err != nil {
							continue
						}
					}
					res := renderGuarded(&c16.Case{Files: files, Render: "a.m", ChainText: row.Text}, c, v.X, d, ij)
					ln++
					if res.Err != nil {
						continue
					}
					o := Obs{}
					var ok bool
					if o.Off, ok = offRender(sh, row.Text, glob, d, ij); !ok {
						continue // the expression/chain fails on this value in a plain template too
					}
					if row.K > 1 {
						o.Y, _ = offRender(sh, c16.ChainText(row.Chain[:row.K-1]), glob, d, ij)
					}
					ev := *v
					if sh.text != nil {
						ev.Text = sh.text(v.Text)
					}
					segs := segments(res.Out, 1)
					if len(segs) != 1 {
						continue
					}
					o.Out = segs[0]
					if !v.IsStr || hasSpecial(v.Text) {
						ctx.Distinct("shape|" + j.shape + "|" + strconv.Itoa(j.mi) + "." + strconv.Itoa(j.ci) + "." + strconv.Itoa(vi))
					}
					if sig, what := Judge(m, row, &ev, o); what != "" {
						sig.Feature += ",expr-shape=" + j.shape
						if reporter.First(sig) {
							ctx.Violation(sig, fmt.Sprintf("%s {%s%s} (value %s) wrote %s: %s", m, sh.expr, row.Text, strconv.Quote(clip(v.Text)), strconv.Quote(clip(o.Out)), what),
								map[string]interface{}{"kind": "c03-shape", "files": files, "render": "a.m", "x_go_quoted": strconv.Quote(clip(v.Text)), "shape": j.shape,
									"data": "x=value, m={k: value}, l=[value], c=true, a+b=value split in two, km={value: 1}, $ij.x=value, global GLOB_X=value"})
						}
					}
				}
			}
			mu.Lock()
			n += ln
			mu.Unlock()
		}()
	}
	for _, j := range jobs {
		ch <- j
	}
	close(ch)
	wg.Wait()
	ctx.AddEvals(n)
	ctx.AddTraces(n)
	ctx.Extra["expr_shape_prints_judged"] = n
	ctx.Extra["expr_shape_structures"] = len(jobs)
	ctx.Sample(map[string]interface{}{"family": "EXPR-SHAPE", "files": ShapeFiles(t.Modes[0], "", exprShapes["concat-split"])})
}

// ---------------------------------------------------------------------------

type extraAttrs struct{ kind, private string }

func (e extraAttrs) tmpl(auto string, flip bool) string {
	var parts []string
	if auto != "" {
		parts = append(parts, strings.TrimSpace(auto))
	}
	if e.kind != "none" {
		parts = append(parts, `kind="`+e.kind+`"`)
	}
	if e.private != "none" {
		parts = append(parts, `private="`+e.private+`"`)
	}
	if flip { // attribute order must not matter either
		for i, j := 0, len(parts)-1; i < j; i, j = i+1, j-1 {
			parts[i], parts[j] = parts[j], parts[i]
		}
	}
	if len(parts) == 0 {
		return ""
	}
	return " " + strings.Join(parts, " ")
}

func (e extraAttrs) block() string {
	if e.kind == "none" {
		return ""
	}
	return ` kind="` + e.kind + `"`
}

// AttrFiles builds the site with the extra attributes on both templates and
// on the {let}/{param} content block of the site.
func AttrFiles(m ModeRow, chain string, e extraAttrs, flip bool) []core.File {
	p := "ZqS1Zq{$x" + chain + "}ZqE1Zq"
	var caller, callee, cp string
	switch m.Site {
	case "direct":
		caller = p
	case "msg":
		caller = `{msg desc="d"}` + p + `{/msg}`
	case "let":
		caller = "{let $y" + e.block() + "}" + p + "{/let}{$y|noAutoescape}"
	case "letesc":
		caller = "{let $y" + e.block() + "}" + p + "{/let}{$y}"
	case "param":
		caller = "{call b.c}{param y" + e.block() + "}" + p + "{/param}{/call}"
		callee, cp = "{$y|noAutoescape}", "y"
	case "call":
		caller, callee, cp = "{call b.c}{param x: $x/}{/call}", p, "x"
	case "dataall":
		caller, callee, cp = `{call b.c data="all"/}`, p, "x"
	}
	files := []core.File{{Name: "a.soy", Text: "{namespace a" + attr(m.NS) + "}\n/** @param x */\n{template .m" + e.tmpl(attr(m.T), flip) + "}\n" + caller + "\n{/template}\n"}}
	if callee != "" {
		files = append(files, core.File{Name: "b.soy", Text: "{namespace b" + attr(m.CNS) + "}\n/** @param " + cp + " */\n{template .c" + e.tmpl(attr(m.CT), !flip) + "}\n" + callee + "\n{/template}\n"})
	}
	return files
}

// ExtraAttrs replays the sites with every other accepted attribute.
func ExtraAttrs(ctx *core.Ctx, t *Tables, vals []Value, off, y [][]string) {
	var extras []extraAttrs
	for _, k := range t.Kinds {
		extras = append(extras, extraAttrs{k, "none"})
	}
	for _, p := range t.Privates {
		if p != "none" {
			extras = append(extras, extraAttrs{"none", p}, extraAttrs{"text", p}, extraAttrs{"html", p})
		}
	}
	if len(t.Kinds) < 5 || len(t.Privates) != 3 {
		ctx.ToolError("the export carries no attribute domains (kinds %v, privates %v)", t.Kinds, t.Privates)
		return
	}
	r := rand.New(rand.NewSource(ctx.Seed + 43))
	var sample []int
	for vi, v := range vals {
		if strings.Contains(v.Text, "Zq") || len(v.Text) > 300 {
			continue
		}
		must := (v.ExpIdx >= 0 && (!v.IsStr || hasSpecial(v.Text))) || (len(v.Text) <= 2 && v.Text != "" && strings.Trim(v.Text, "&<>\"'") == "")
		if must || r.Intn(ctx.Pick(40, 6)) == 0 {
			sample = append(sample, vi)
		}
	}
	type job struct {
		mi, ci, ei int
	}
	var jobs []job
	for mi, m := range t.Modes {
		// the chain structures and, for the entry template, every namespace attribute with no template attribute
		if !isChainStructure(m) && !(m.Site == "direct" && m.T == "unspecified") {
			continue
		}
		for ci := range t.Chains {
			if isSiteChain(t.Chains[ci].Text) {
				for ei := range extras {
					jobs = append(jobs, job{mi, ci, ei})
				}
			}
		}
	}
	ch := make(chan job, 64)
	var wg sync.WaitGroup
	var mu sync.Mutex
	var n int64
	for w := 0; w < runtime.NumCPU()/2; w++ {
		wg.Add(1)
		go func() {
			defer wg.Done()
			var ln int64
			for j := range ch {
				m, row, e := t.Modes[j.mi], &t.Chains[j.ci], extras[j.ei]
				files := AttrFiles(m, row.Text, e, (j.mi+j.ci+j.ei)%2 == 1)
				comp, err, _ := core.Compile(files, nil)
				if err != nil {
					sig := core.Sig{Family: "compile", Feature: "site=" + m.Site + ",kind=" + e.kind + ",private=" + e.private + ",rejected"}
					if reporter.First(sig) {
						ctx.Violation(sig, "a site program with attributes the parser accepts is rejected: "+err.Error(), map[string]interface{}{"files": files})
					}
					continue
				}
				cs := &c16.Case{Files: files, Render: "a.m", ChainText: row.Text}
				for _, vi := range sample {
					v := &vals[vi]
					res := renderGuarded(cs, comp, v.X, data.Map{"x": v.X}, nil)
					ln++
					if res.Err != nil {
						continue
					}
					segs := segments(res.Out, 1)
					if len(segs) != 1 {
						continue
					}
					if !v.IsStr || hasSpecial(v.Text) {
						ctx.Distinct("attrs|" + e.kind + e.private + "|" + strconv.Itoa(j.mi) + "." + strconv.Itoa(j.ci) + "." + strconv.Itoa(vi))
					}
					o := Obs{Out: segs[0], Off: off[j.ci][vi], Y: y[j.ci][vi]}
					if sig, what := Judge(m, row, v, o); what != "" {
						sig.Feature += ",template-kind=" + e.kind + ",private=" + e.private
						if reporter.First(sig) {
							ctx.Violation(sig, fmt.Sprintf("%s with kind=%s private=%s on the templates/blocks {$x%s} x=%s wrote %s: %s", m, e.kind, e.private, row.Text,
								strconv.Quote(clip(v.Text)), strconv.Quote(clip(o.Out)), what),
								map[string]interface{}{"kind": "c03-attrs", "files": files, "render": "a.m", "x_go_quoted": strconv.Quote(clip(v.Text))})
						}
					}
				}
			}
			mu.Lock()
			n += ln
			mu.Unlock()
		}()
	}
	for _, j := range jobs {
		ch <- j
	}
	close(ch)
	wg.Wait()
	ctx.AddEvals(n)
	ctx.AddTraces(n)
	ctx.Extra["extra_attr_prints_judged"] = n
	ctx.Extra["extra_attr_structures"] = len(jobs)
	ctx.Extra["extra_attr_sets"] = len(extras)
	ctx.Sample(map[string]interface{}{"family": "EXTRA-ATTRS", "files": AttrFiles(t.Modes[0], "", extraAttrs{"text", "true"}, false)})
}
