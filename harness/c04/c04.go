// Package c04 decides property C04: the Go renderer and the generated
// JavaScript produce the same output on the subset both back ends define.
// Level: translation validation. Every program is translated by soyjs, the
// translation is executed in node, the Go renderer renders the same program,
// and TLC (C04Trace.tla = SoyExec + SoyCommon) judges the pair against the
// reference semantics and the common-subset predicate.
package c04

import (
	"context"
	"encoding/json"
	"fmt"
	"html"
	"math/rand"
	"os"
	"runtime/debug"
	"sort"
	"strings"
	"sync"

	"verif/core"
	"verif/jsrun"
)

// Run is the entry point for C04.
func Run(ctx *core.Ctx) {
	ctx.Rule = "cases: whole programs (bundle, entry, data, $ij, globals, translation catalogue); each is translated file by file with soyjs.Write, loaded into a fresh node vm context after soyutils.js and called with the JSON form of the data, and rendered by soyhtml; TLC runs the reference interpreter on it, evaluates InCommonSubset along the run and compares JS, Go and spec up to the spelling of character references. Sources: (a) seeded random typed expression trees (depth<=5) in one-print templates, (b) seeded random bundles (2-4 templates over 2 files, control flow, let, calls, msg, css, directives, autoescape modes, globals, $ij), (c) systematic families (functions, directives and chains, msg/plural with catalogues, loop helpers, null-safe accesses, scoping hazards from the SoyJsScope model). non-trivial = in the common subset per the spec and containing an operator, reference, directive or command other than raw text; distinct by Soy source + data + catalogue"
	ctx.Assumptions = append(ctx.Assumptions,
		"oracle = SoyExec/SoyExpr/SoyDirectives (reference semantics) and SoyCommon.InCommonSubset; cases outside the subset or Unspec are not judged",
		"JavaScript engine = node (vm context per program) with the repository's soyjs/lib/soyutils.js; console.log stubbed; soy.$$pluralIndex supplied by the harness (same function as Bundle.PluralCase)",
		"data is JSON-representable; model integers are 32-bit, floats dyadic")
	ctx.Trusted = append(ctx.Trusted, "node's ECMAScript semantics", "encoding/json for the data hand-over")

	pool, err := jsrun.NewPool(context.Background(), 8)
	if err != nil {
		ctx.ToolError("cannot start node: %v", err)
		return
	}
	defer pool.Close()
	run := &Runner{Pool: pool}
	ctx.Extra["js_engine"] = pool.Engine()

	h := &Harness{ctx: ctx, run: run, reasons: map[string]int{}, verdicts: map[string]int{}, sigs: map[string]int{}, rejected: map[string]int{}}
	if ctx.ReplayPath != "" {
		h.Replay(ctx.ReplayPath)
		return
	}
	// the four sources run concurrently (node pool and TLC runs are shared
	// through semaphores); their reports are emitted afterwards in a fixed
	// order so that the run is reproducible line by line
	h.tlcSem = make(chan struct{}, 6)
	phases := []func() []*report{
		h.ScopeModel,
		h.Families,
		h.Compositions,
		func() []*report { return h.RandomExprs(ctx.Pick(4000, 60000)) },
		func() []*report { return h.RandomProgs(ctx.Pick(1500, 30000)) },
	}
	out := make([][]*report, len(phases))
	var wg sync.WaitGroup
	for i, ph := range phases {
		wg.Add(1)
		go func(i int, ph func() []*report) {
			defer wg.Done()
			defer func() {
				if p := recover(); p != nil {
					ctx.ToolError("harness panic in phase %d: %v\n%s", i, p, debug.Stack())
				}
			}()
			out[i] = ph()
		}(i, ph)
	}
	wg.Wait()
	for _, rs := range out {
		h.Emit(rs)
	}
	ctx.Extra["out_of_subset_reasons"] = h.reasons
	ctx.Extra["verdicts"] = h.verdicts
	ctx.Extra["violations_by_signature"] = h.sigs
	ctx.Extra["rejected_by_compiler_by_family"] = h.rejected
	ctx.Extra["node_restarts"] = pool.Restarts()
}

// Harness carries the shared state of one run.
type Harness struct {
	ctx      *core.Ctx
	run      *Runner
	mu       sync.Mutex
	tlcSem   chan struct{}
	reasons  map[string]int
	verdicts map[string]int
	samples  int
	sigs     map[string]int
	rejected map[string]int // cases the compiler rejects, by family (expected for model / edge shapes)
	verbose  bool
	// fixedFiles, when set (replay), are used instead of unparsing the program
	fixedFiles []core.File
}

// ExprCase wraps an expression into a one-print program.
func ExprCase(family string, e core.E, env *core.Env, st core.Style) *Case {
	params := []core.Param{}
	for _, v := range core.ExprVars(e) {
		params = append(params, core.Param{Name: v, Opt: true})
	}
	p := &core.Program{
		Bundle: map[string]*core.Tmpl{"t.m": {Params: params, Body: []core.Cmd{core.CPrint(e)}, TA: "false"}},
		Entry:  "t.m", Data: env.Vars, IJ: env.IJV(), Glob: env.Glob,
		Plan: map[string]interface{}{"kind": "none"}, Aliases: map[string]bool{},
	}
	if p.Data == nil {
		p.Data = map[string]core.V{}
	}
	if p.Glob == nil {
		p.Glob = map[string]core.V{}
	}
	return &Case{Family: family, Prog: p, Style: st}
}

// RandomExprs is level (a): random typed expression trees.
func (h *Harness) RandomExprs(n int) []*report {
	r := rand.New(rand.NewSource(h.ctx.Seed*7919 + 1))
	batch := 4000
	var bs batches
	for done := 0; done < n; done += batch {
		k := batch
		if n-done < k {
			k = n - done
		}
		var cases []*Case
		for i := 0; i < k; i++ {
			env := core.RandEnv(r)
			g := core.NewExprGen(r, env)
			g.Wild = 0.03
			e := g.Gen([]string{"num", "int", "bool", "str", "str", "any"}[r.Intn(6)], 1+r.Intn(5))
			st := core.Style{Parens: []int{0, 0, 1}[r.Intn(3)], Tight: r.Intn(3) == 0}
			cases = append(cases, ExprCase("expr-random", e, env, st))
		}
		bs.start(h, cases, "expr-random")
	}
	return bs.wait()
}

// RandomProgs is level (b): random bundles.
func (h *Harness) RandomProgs(n int) []*report {
	r := rand.New(rand.NewSource(h.ctx.Seed*104729 + 2))
	batch := 1500
	var bs batches
	for done := 0; done < n; done += batch {
		k := batch
		if n-done < k {
			k = n - done
		}
		var cases []*Case
		for i := 0; i < k; i++ {
			g := &core.ProgGen{R: r, MaxDepth: 1 + r.Intn(3)}
			p := g.Gen()
			Decorate(r, p)
			// dotted namespaces whose later segment repeats (part of) an earlier one
			if r.Intn(2) == 0 {
				RenameNamespace(p, "n.two", []string{"n.on", "n.one.n", "two", "n.two.two"}[r.Intn(4)])
			}
			// {alias n.two.n} makes Soy read the fully qualified n.one.t0 as
			// n.two.n.one.t0 (language rule): such an alias cannot be declared
			dropAmbiguousAliases(p)
			c := &Case{Family: "prog-random", Prog: p, Style: core.Style{Parens: r.Intn(2), Tight: r.Intn(3) == 0}}
			// one body in four programs is emptied (empty case / branch / loop body / content block)
			if r.Intn(4) == 0 && EmptySomeBody(r.Intn, p) {
				c.SkipOK = true
			}
			cases = append(cases, c)
		}
		bs.start(h, cases, "prog-random")
	}
	return bs.wait()
}

// batches judges batches of cases concurrently and keeps their reports in
// the order the batches were started.
type batches struct {
	wg    sync.WaitGroup
	slots []*[]*report
}

func (b *batches) start(h *Harness, cases []*Case, label string) {
	slot := new([]*report)
	b.slots = append(b.slots, slot)
	b.wg.Add(1)
	go func() {
		defer b.wg.Done()
		defer func() {
			if p := recover(); p != nil {
				h.ctx.ToolError("harness panic judging %s: %v\n%s", label, p, debug.Stack())
			}
		}()
		*slot = h.Judge(cases, label)
	}()
}

func (b *batches) wait() []*report {
	b.wg.Wait()
	var all []*report
	for _, s := range b.slots {
		all = append(all, (*s)...)
	}
	return all
}

// report is one judged disagreement, ready to be emitted.
type report struct {
	c    *Case
	what string
}

// Judge executes the cases on both back ends, has TLC judge them, classifies
// the disagreements and returns them (in case order) for Emit.
func (h *Harness) Judge(cases []*Case, label string) []*report {
	ctx := h.ctx
	if h.fixedFiles != nil {
		for _, c := range cases {
			c.FixedFiles = h.fixedFiles
		}
	}
	h.run.ExecAll(cases)
	var ok []*Case
	skips := 0
	for _, c := range cases {
		if c.Skip != "" {
			if c.SkipOK && strings.HasPrefix(c.Skip, "compile:") {
				h.mu.Lock()
				h.rejected[c.Family]++
				h.mu.Unlock()
				continue // a model program the Soy checker rejects (e.g. an unused let)
			}
			skips++
			if skips <= 3 {
				ctx.ToolError("%s: case could not be executed (%s)\n%s", label, c.Skip, c.Src())
			}
			continue
		}
		ok = append(ok, c)
	}
	ctx.AddEvals(int64(len(ok)))
	if len(ok) == 0 {
		return nil
	}
	if h.tlcSem != nil {
		h.tlcSem <- struct{}{}
	}
	_, err := Validate(ctx, ok, label)
	if h.tlcSem != nil {
		<-h.tlcSem
	}
	if err != nil {
		ctx.ToolError("%v", err)
		return nil
	}
	if p := os.Getenv("VERIF_C04_DUMP_ALL"); p != "" {
		h.mu.Lock()
		if f, err := os.OpenFile(p, os.O_APPEND|os.O_CREATE|os.O_WRONLY, 0o644); err == nil {
			for _, c := range ok {
				b, _ := json.Marshal(map[string]interface{}{"family": c.Family, "feature": c.Feature, "verdict": c.Verdict, "reason": c.Reason, "src": c.Src(), "data": c.Prog.Data, "go": c.Go, "js": c.JSObs})
				f.Write(append(b, '\n'))
			}
			f.Close()
		}
		h.mu.Unlock()
	}
	var reps []*report
	for _, c := range ok {
		key := c.Src() + fmt.Sprint(c.Prog.Data, c.Prog.IJ, c.Msgs, c.Rule)
		h.mu.Lock()
		ctx.Programs++
		h.verdicts[c.Verdict]++
		if c.Verdict == "OUT" {
			h.reasons[c.Reason]++
		}
		h.mu.Unlock()
		switch c.Verdict {
		case "OUT":
			continue
		case "OK":
			ctx.Distinct(key)
			continue
		}
		ctx.Distinct(key)
		h.mu.Lock()
		ctx.Disagree++
		h.mu.Unlock()
		what := fmt.Sprintf("[%s] go: err=%v %q (%s) | js: err=%v %q (%s) | spec: %q\n%s data=%v ij=%v msgs=%s",
			c.Verdict, c.Go.Err, c.Go.Out, firstLine(c.Go.ErrText), c.JSObs.Err, c.JSObs.Out, firstLine(c.JSObs.ErrText), c.ExpOut,
			c.Src(), c.Prog.Data, c.Prog.IJ, c.Msgs)
		if c.Verdict != "SPEC" {
			c.Features = h.Classify(c)
		}
		reps = append(reps, &report{c, what})
	}
	return reps
}

// Emit reports judged disagreements (sequentially, in a fixed order).
func (h *Harness) Emit(reps []*report) {
	for _, r := range reps {
		c := r.c
		if c.Verdict == "SPEC" {
			// Go and JS agree with each other but not with the reference semantics:
			// not a C04 violation (a C01/C02/C03/C16 matter); recorded for the notes.
			n, _ := h.ctx.Extra["go_eq_js_ne_spec"].(int)
			h.ctx.Extra["go_eq_js_ne_spec"] = n + 1
			if n < 5 {
				h.ctx.Extra[fmt.Sprintf("go_eq_js_ne_spec_example_%d", n+1)] = r.what
			}
			continue
		}
		for _, f := range c.Features {
			h.sigs[c.Family+"/"+f]++
			h.ctx.Violation(core.Sig{Family: c.Family, Feature: f}, r.what, c)
		}
		if p := os.Getenv("VERIF_C04_DUMP"); p != "" {
			if f, err := os.OpenFile(p, os.O_APPEND|os.O_CREATE|os.O_WRONLY, 0o644); err == nil {
				b, _ := json.Marshal(c)
				f.Write(append(b, '\n'))
				f.Close()
			}
		}
	}
}

// Replay re-runs one saved case (out/replay/*.json) verbosely.
func (h *Harness) Replay(path string) {
	b, err := os.ReadFile(path)
	if err != nil {
		h.ctx.ToolError("replay: %v", err)
		return
	}
	var v struct {
		Sig    core.Sig
		Replay json.RawMessage
	}
	if err := json.Unmarshal(b, &v); err != nil {
		h.ctx.ToolError("replay: %v", err)
		return
	}
	c := &Case{}
	if err := json.Unmarshal(v.Replay, c); err != nil {
		h.ctx.ToolError("replay: %v", err)
		return
	}
	// unparse-only fields are not in the JSON: keep the recorded source text
	files := c.Files
	c.Go, c.JSObs, c.JS, c.Verdict, c.Features = core.Obs{}, core.Obs{}, nil, "", nil
	h.verbose = true
	h.fixedFiles = files
	h.Emit(h.Judge([]*Case{c}, "replay"))
	fmt.Printf("REPLAY verdict=%s reason=%s features=%v\n go: %+v\n js: %+v\n spec: %q\n", c.Verdict, c.Reason, c.Features, c.Go, c.JSObs, c.ExpOut)
	for _, f := range c.Files {
		fmt.Println(f.Text)
	}
	for _, j := range c.JS {
		fmt.Println(j)
	}
}

// agree compares two observations the way the property does (classification
// only; verdicts come from TLC).
func agree(a, b core.Obs) bool {
	if a.Err != b.Err {
		return false
	}
	return a.Err || canon(a.Out) == canon(b.Out)
}

type rewrite struct {
	class string
	f     func(*core.Program) (*core.Program, bool)
}

// scopeClasses are the classes that alpha-renaming-like rewrites explain.
var scopeClasses = map[string]bool{"let-reads-the-name-it-binds": true, "let-visible-after-its-block": true}

var rewrites = []rewrite{
	{"neg-of-negative-literal", DropDoubleNeg},
	{"neg-before-nullsafe-ref", ParenNegNullSafe},
	{"isNonnull-of-nullsafe-ref", ParenIsNonnullNullSafe},
	{"css-base-is-nullsafe-ref", ParenCssNullSafe},
	{"ifempty-on-range-loop", RangeToList(true)},
	{"loop-helper-on-range-loop", RangeToList(false)},
	{"loop-helper-on-outer-loop-var", HoistOuterHelpers},
	{"let-reads-the-name-it-binds", SplitSelfRef},
	{"loop-list-reads-the-name-the-loop-binds", SplitLoopSelfRef},
	{"ifempty-block-sees-the-loop-naming-scope", MoveIfEmptyOut},
	{"let-visible-after-its-block", func(p *core.Program) (*core.Program, bool) { return AlphaRename(p), true }},
}

// Classify names the structural features of a disagreement. Each rewrite
// removes the trigger of one class of generator defects while preserving the
// program's meaning (the Go output must stay the same); a rewrite that changes
// what the JavaScript prints names a class the disagreement belongs to. What
// is left after all rewrites is named by the construct of the family (if any)
// and its symptom.
func (h *Harness) Classify(c *Case) []string {
	base := c.Base()
	with := func(class string) string {
		if base == "" {
			return class
		}
		return base + "," + class
	}
	if c.Verdict == "GO" {
		// JS = spec, Go differs: the Go side left the language
		return []string{with("go-differs-from-spec-and-js")}
	}
	var feats []string
	cur := c
	for _, rw := range rewrites {
		if c.Msgs != "" || c.Direct != nil {
			break // catalogue fields are tied to the original bodies; direct cases have hand-written source
		}
		q, changed := rw.f(cur.Prog)
		if !changed {
			continue
		}
		nc := &Case{Family: c.Family, Prog: q, Style: c.Style, NoData: c.NoData}
		h.run.Exec(nc)
		h.ctx.AddEvals(1)
		if h.verbose {
			fmt.Printf("rewrite %s: skip=%q go=%+v js=%+v\n%s\n", rw.class, nc.Skip, nc.Go, nc.JSObs, nc.Src())
		}
		if nc.Skip != "" || !agree(nc.Go, c.Go) {
			continue // not applicable (compiler rejects it) or not meaning-preserving here
		}
		if !agree(nc.JSObs, cur.JSObs) || nc.JSObs.ErrText != cur.JSObs.ErrText {
			if c.Family == "scope" && scopeClasses[rw.class] && strings.HasPrefix(base, "let-in-") {
				feats = append(feats, base) // the family's own structural name
			} else {
				feats = append(feats, rw.class)
			}
		}
		cur = nc
		if agree(cur.Go, cur.JSObs) {
			break
		}
	}
	if !agree(cur.Go, cur.JSObs) || len(feats) == 0 {
		feats = append(feats, with(h.symptomOf(cur)))
	}
	return feats
}

// Base is the coarse construct name of a family case (the part of Feature
// before the first comma); "" for random cases.
func (c *Case) Base() string {
	if i := strings.IndexByte(c.Feature, ','); i >= 0 {
		return c.Feature[:i]
	}
	return c.Feature
}

// printDirs returns the directive chain of the single print of a one-print
// program, or nil.
func printDirs(c *Case) (core.Cmd, []core.Cmd) {
	t := c.Prog.Bundle[c.Prog.Entry]
	if t == nil || len(t.Body) != 1 || t.Body[0]["k"] != "print" {
		return nil, nil
	}
	return t.Body[0], asCmds(t.Body[0]["dirs"])
}

// symptomOf names what is observably wrong; for print directives it tests two
// hypotheses on the real code: "JS leaves raw what Go escapes" and "JS applies
// the chain in the reverse order".
func (h *Harness) symptomOf(c *Case) string {
	if c.Direct != nil {
		return symptom(c)
	}
	if pc, dirs := printDirs(c); pc != nil && len(dirs) > 0 && !c.Go.Err && !c.JSObs.Err {
		if html.UnescapeString(c.Go.Out) == c.JSObs.Out && c.Go.Out != c.JSObs.Out {
			return "js-unescaped"
		}
		if len(dirs) > 1 {
			q := CloneProgram(c.Prog)
			b := q.Bundle[q.Entry].Body[0]
			ds := asCmds(b["dirs"])
			rev := make([]core.Cmd, len(ds))
			for i := range ds {
				rev[len(ds)-1-i] = ds[i]
			}
			b["dirs"] = rev
			nc := &Case{Family: c.Family, Prog: q, Style: c.Style, NoData: c.NoData}
			h.run.Exec(nc)
			h.ctx.AddEvals(1)
			if nc.Skip == "" && !nc.Go.Err && canon(nc.Go.Out) == canon(c.JSObs.Out) {
				return "js-applies-chain-in-reverse-order"
			}
		}
	}
	return symptom(c)
}

func symptom(c *Case) string {
	switch {
	case c.JSObs.Err && strings.HasPrefix(c.JSObs.ErrText, "soyjs.Write"):
		return "js-generation-error"
	case c.JSObs.Err && strings.HasPrefix(c.JSObs.ErrText, "load "):
		return "js-load-error"
	case c.JSObs.Err:
		return "js-throws"
	case c.Go.Err:
		return "go-error"
	}
	return "output-differs"
}

func firstLine(s string) string {
	if i := strings.IndexByte(s, '\n'); i >= 0 {
		s = s[:i]
	}
	if len(s) > 160 {
		s = s[:160]
	}
	return s
}

func sortedReasonKeys(m map[string]int) []string {
	var ks []string
	for k := range m {
		ks = append(ks, k)
	}
	sort.Strings(ks)
	return ks
}
