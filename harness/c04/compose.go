package c04

import (
	"encoding/json"
	"fmt"
	"regexp"
	"sort"
	"time"

	"verif/core"
)

// Compositions of built-ins (mode M2): C04Compose.tla enumerates every
// type-compatible pair f(.., g(..), ..) over the built-in functions and the
// collection operators; each expression is replayed in several data
// environments through both back ends and judged by C04Trace.

var reComp = regexp.MustCompile(`^<<"COMP", "(\w+)", "(\w+)", (\d+), (".*")>>$`)

type compExpr struct {
	f, g string
	e    core.E
}

func (h *Harness) composeExprs() ([]compExpr, error) {
	res, err := h.ctx.RunTLC(core.TLCOpts{Module: "C04Compose", Cfg: "INIT Init\nNEXT Next\nCHECK_DEADLOCK FALSE\n", Workers: 1,
		Timeout: 5 * time.Minute, Label: "C04Compose: enumeration of function compositions"})
	if err != nil {
		return nil, err
	}
	seen := map[string]bool{}
	var out []compExpr
	for _, t := range res.Tuples {
		m := reComp.FindStringSubmatch(t)
		if m == nil {
			continue
		}
		js := core.TLAUnquote(m[4])
		key := m[1] + "|" + m[2] + "|" + js
		if seen[key] {
			continue
		}
		seen[key] = true
		var v struct{ E core.E }
		if err := json.Unmarshal([]byte(js), &v); err != nil {
			return nil, fmt.Errorf("C04Compose: bad JSON: %v", err)
		}
		out = append(out, compExpr{m[1], m[2], v.E})
	}
	if len(out) == 0 {
		return nil, fmt.Errorf("C04Compose printed no case")
	}
	sort.SliceStable(out, func(i, j int) bool {
		if out[i].f != out[j].f {
			return out[i].f < out[j].f
		}
		return out[i].g < out[j].g
	})
	return out, nil
}

// lowerAccesses turns the pseudo-functions mapget/listget into data
// reference accesses; a collection that is not a variable is bound by a {let}.
func lowerAccesses(e core.E) (core.E, []core.Cmd) {
	var lets []core.Cmd
	n := 0
	out := mapExprDeep(e, func(x core.E) core.E {
		if x["k"] != "fn" || (x["name"] != "mapget" && x["name"] != "listget") {
			return x
		}
		args := asEs(x["args"])
		coll, key := args[0], args[1]
		if coll["k"] != "var" {
			n++
			name := fmt.Sprintf("t%d", n)
			lets = append(lets, core.CLetV(name, coll))
			coll = core.EVar(name)
		}
		acc := append([]core.E{}, asEs(coll["acc"])...)
		acc = append(acc, core.AExpr(key, false))
		return core.EVar(coll["name"].(string), acc...)
	})
	return out, lets
}

var composeEnvs = []map[string]core.V{
	dm("a", vm("k", core.VStr("A"), "z", core.VInt(1)), "b", vm("k", core.VStr("B"), "y", core.VInt(2)), "x", core.VList(core.VInt(4), core.VStr("k")),
		"s", core.VStr("k"), "n", core.VInt(1), "f", core.VFloat(3, 1), "c", core.VBool(true)),
	dm("a", vm("k", core.VStr("A")), "b", vm(), "x", core.VList(), "s", core.VStr(""), "n", core.VInt(0), "f", core.VFloat(-3, 2), "c", core.VBool(false)),
	dm("a", vm(), "b", vm("y", core.VInt(2)), "x", core.VList(core.VStr("k")), "s", core.VStr("zed"), "n", core.VInt(3), "f", core.VFloat(29, 2), "c", core.VBool(true)),
	dm("a", vm(), "b", vm(), "x", core.VList(core.VInt(0), core.VInt(1), core.VInt(2)), "s", core.VStr("<k>"), "n", core.VInt(-2), "f", core.VFloat(5, 1), "c", core.VBool(false)),
}

// Compositions is the phase that replays the TLC-enumerated compositions.
func (h *Harness) Compositions() []*report {
	exprs, err := h.composeExprs()
	if err != nil {
		h.ctx.ToolError("%v", err)
		return nil
	}
	envs := composeEnvs[:h.ctx.Pick(2, 4)]
	var cases []*Case
	for _, ce := range exprs {
		e, lets := lowerAccesses(ce.e)
		for i, env := range envs {
			body := append(cloneCmds(lets), core.CPrint(cloneAny(e).(map[string]interface{})))
			p := one(body, env, "false", "u")
			cases = append(cases, &Case{Family: "compositions", Feature: fmt.Sprintf("compose:%s.%s,env=%d", ce.f, ce.g, i+1), Prog: p})
		}
	}
	// the keys of an augmented map, one at a time (total of at most one key:
	// the order of keys() is unspecified beyond that)
	am := core.EFn("augmentMap", vA, vB)
	for i, env := range envs {
		for _, m := range []core.E{am, core.EFn("augmentMap", vB, vA), core.EFn("augmentMap", am, core.EMap()), core.EFn("augmentMap", core.EMap(), am)} {
			cases = append(cases,
				&Case{Family: "compositions", Feature: fmt.Sprintf("compose:foreach.keys.augmentMap,env=%d", i+1), Prog: one(cmds(core.CForeach("foreach", "q", core.EFn("keys", m), cmds(pr(core.EVar("q")), txt(";")), core.Opt(true, cmds(txt("none"))))), env, "false")},
				&Case{Family: "compositions", Feature: fmt.Sprintf("compose:let.keys.augmentMap,env=%d", i+1), Prog: one(cmds(core.CLetV("t", m), core.CLetV("q", core.EFn("keys", core.EVar("t"))), pr(core.EFn("length", core.EVar("q"))), txt("|"), pr(core.EBin("elvis", core.EVar("t", core.AKey("k", false)), core.EStr("~")))), env, "false")},
				&Case{Family: "compositions", Feature: fmt.Sprintf("compose:call-data.augmentMap,env=%d", i+1), Prog: &core.Program{Bundle: map[string]*core.Tmpl{
					"t.m": {Params: []core.Param{{Name: "a"}, {Name: "b"}}, Body: cmds(core.CCall("t.c", "expr", m)), TA: "false"},
					"t.c": {Params: []core.Param{{Name: "k", Opt: true}, {Name: "y", Opt: true}}, Body: cmds(pr(core.EBin("elvis", core.EVar("k"), core.EStr("~"))), pr(core.EBin("elvis", core.EVar("y"), core.EStr("~"))), core.CCall("t.d", "all", nil)), TA: "false"},
					"t.d": {Params: []core.Param{{Name: "k", Opt: true}, {Name: "z", Opt: true}}, Body: cmds(txt("/"), pr(core.EBin("elvis", core.EVar("k"), core.EStr("~"))), pr(core.EBin("elvis", core.EVar("z"), core.EStr("~")))), TA: "false"},
				}, Entry: "t.m", Data: dm("a", env["a"], "b", env["b"]), IJ: core.V{"t": "none"}, Glob: map[string]core.V{}, Plan: noPlan(), Aliases: map[string]bool{}}})
		}
	}
	h.mu.Lock()
	h.ctx.Extra["composition_cases"] = len(cases)
	h.ctx.Extra["composition_expressions"] = len(exprs)
	h.mu.Unlock()
	batch := 2000
	var bs batches
	for i := 0; i < len(cases); i += batch {
		j := i + batch
		if j > len(cases) {
			j = len(cases)
		}
		bs.start(h, cases[i:j], "compositions")
	}
	return bs.wait()
}
