package c04

import (
	"fmt"

	"verif/core"
)

// ---- empty bodies -------------------------------------------------------------------
//
// Every place where a body may be empty, with the three ways of writing
// "nothing": no text at all, white space with a line break (removed by the
// line-joining rule) and a comment. In the spec program all three are the
// empty text; the "spell" of the command is what is written into the file.

var emptySpells = []struct{ name, spell string }{{"none", ""}, {"newline", "\n  "}, {"comment", "/* nothing */"}, {"line-comment", "\n// nothing\n"}}

func emptyBody(spell string) []core.Cmd {
	if spell == "" {
		return []core.Cmd{}
	}
	return []core.Cmd{{"k": "text", "s": "", "spell": spell}}
}

func (f *fam) emptyBodies() {
	F := "empty-bodies"
	add := func(feature string, p *core.Program) *Case {
		c := f.add(F, feature, p)
		c.SkipOK = true
		return c
	}
	for _, es := range emptySpells {
		E := func() []core.Cmd { return emptyBody(es.spell) }
		tag := ",empty=" + es.name
		// switch
		type sw struct {
			name  string
			cases []core.Cmd
			def   core.Cmd
		}
		c := func(body []core.Cmd, vals ...int) core.Cmd {
			var vs []core.E
			for _, v := range vals {
				vs = append(vs, core.EInt(v))
			}
			return core.CCase(vs, body)
		}
		T := func(s string) []core.Cmd { return cmds(txt(s)) }
		sws := []sw{
			{"first-case", cmds(c(E(), 0), c(T("one"), 1), c(T("two"), 2)), core.Opt(true, T("dflt"))},
			{"middle-case", cmds(c(T("zero"), 0), c(E(), 1), c(T("two"), 2)), core.Opt(true, T("dflt"))},
			{"last-case", cmds(c(T("zero"), 0), c(T("one"), 1), c(E(), 2)), core.Opt(true, T("dflt"))},
			{"last-case-no-default", cmds(c(T("zero"), 0), c(E(), 2)), core.Opt(false, nil)},
			{"multi-value-case", cmds(c(E(), 0, 1), c(T("two"), 2)), core.Opt(true, T("dflt"))},
			{"adjacent-empty-cases", cmds(c(E(), 0), c(E(), 1), c(T("two"), 2)), core.Opt(true, T("dflt"))},
			{"default", cmds(c(T("zero"), 0), c(T("one"), 1)), core.Opt(true, E())},
			{"all", cmds(c(E(), 0), c(E(), 1)), core.Opt(true, E())},
			{"only-case", cmds(c(E(), 1)), core.Opt(false, nil)},
			{"only-case-with-default", cmds(c(E(), 1)), core.Opt(true, T("dflt"))},
		}
		for _, s := range sws {
			for a := 0; a <= 3; a++ {
				add("switch-"+s.name+tag, one(cmds(txt("["), core.CSwitch(vA, cloneCmds(s.cases), cloneAny(s.def).(map[string]interface{})), txt("]")), dm("a", core.VInt(a)), "false"))
			}
			add("switch-"+s.name+",string-subject"+tag, one(cmds(txt("["), core.CSwitch(core.EVar("s"), cmds(core.CCase([]core.E{core.EStr("x")}, E()), core.CCase([]core.E{core.EStr("y"), core.EStr("")}, T("y"))), core.Opt(true, T("dflt"))), txt("]")), dm("s", core.VStr("x")), "false"))
		}
		// if / elseif / else
		for _, cv := range []bool{true, false} {
			for _, dv := range []bool{true, false} {
				d := dm("c", core.VBool(cv), "d", core.VBool(dv))
				vC, vD := core.EVar("c"), core.EVar("d")
				add("if-then"+tag, one(cmds(txt("["), core.CIf(cmds(core.CBr(vC, E())), noElse), txt("]"), pr(vD)), d, "false"))
				add("if-then-with-else"+tag, one(cmds(txt("["), core.CIf(cmds(core.CBr(vC, E())), core.Opt(true, T("else"))), txt("]"), pr(vD)), d, "false"))
				add("if-else"+tag, one(cmds(txt("["), core.CIf(cmds(core.CBr(vC, T("then"))), core.Opt(true, E())), txt("]"), pr(vD)), d, "false"))
				add("if-elseif"+tag, one(cmds(txt("["), core.CIf(cmds(core.CBr(vC, T("then")), core.CBr(vD, E())), core.Opt(true, T("else"))), txt("]")), d, "false"))
				add("if-then-before-elseif"+tag, one(cmds(txt("["), core.CIf(cmds(core.CBr(vC, E()), core.CBr(vD, T("elseif"))), core.Opt(true, T("else"))), txt("]")), d, "false"))
				add("if-all"+tag, one(cmds(txt("["), core.CIf(cmds(core.CBr(vC, E()), core.CBr(vD, E())), core.Opt(true, E())), txt("]"), pr(vD)), d, "false"))
			}
		}
		// loops
		for _, xs := range []core.V{core.VList(), core.VList(core.VInt(1), core.VInt(2))} {
			d := dm("x", xs)
			add("foreach-body"+tag, one(cmds(txt("["), core.CForeach("foreach", "v", vX, E(), noElse), txt("]")), d, "false"))
			add("foreach-body-with-ifempty"+tag, one(cmds(txt("["), core.CForeach("foreach", "v", vX, E(), core.Opt(true, T("none"))), txt("]")), d, "false"))
			add("ifempty"+tag, one(cmds(txt("["), core.CForeach("foreach", "v", vX, cmds(pr(core.EVar("v"))), core.Opt(true, E())), txt("]")), d, "false"))
			add("foreach-body-and-ifempty"+tag, one(cmds(txt("["), core.CForeach("for", "v", vX, E(), core.Opt(true, E())), txt("]")), d, "false"))
		}
		for _, n := range []int{0, 2} {
			add("range-body"+tag, one(cmds(txt("["), core.CForeach("for", "v", core.EFn("range", core.EInt(n)), E(), noElse), txt("]")), nil, "false"))
			add("range-body-with-ifempty"+tag, one(cmds(txt("["), core.CForeach("foreach", "v", core.EFn("range", core.EInt(n)), E(), core.Opt(true, T("none"))), txt("]")), nil, "false"))
			add("range-ifempty"+tag, one(cmds(txt("["), core.CForeach("foreach", "v", core.EFn("range", core.EInt(n)), cmds(pr(core.EVar("v"))), core.Opt(true, E())), txt("]")), nil, "false"))
		}
		// content blocks
		use := func(n string) []core.Cmd {
			v := core.EVar(n)
			return cmds(txt("["), pr(v), txt("]"), core.CIf(cmds(core.CBr(v, T("T"))), core.Opt(true, T("F"))), pr(core.EFn("isNonnull", v)), pr(core.EBin("eq", v, core.EStr(""))), pr(core.EBin("add", v, core.EStr("+"))), pr(core.EBin("elvis", v, core.EStr("dflt"))))
		}
		for _, ta := range []string{"true", "false"} {
			add("let-content"+tag, one(append(cmds(core.CLetC("q", E())), use("q")...), nil, ta))
			add("param-content"+tag, &core.Program{Bundle: map[string]*core.Tmpl{
				"t.m": {Params: []core.Param{}, Body: cmds(core.CCall("t.c", "none", nil, core.CPC("q", E()), core.CPV("r", core.EStr("R")))), TA: ta},
				"t.c": {Params: []core.Param{{Name: "q"}, {Name: "r"}}, Body: append(use("q"), pr(core.EVar("r"))), TA: ta},
			}, Entry: "t.m", Data: dm(), IJ: core.V{"t": "none"}, Glob: map[string]core.V{}, Plan: noPlan(), Aliases: map[string]bool{}})
		}
		add("log"+tag, one(cmds(txt("a"), core.CLog(E()), txt("b")), nil, "false"))
		for _, strat := range []string{"", "identity"} {
			m := add("msg"+tag+",catalogue="+orNone(strat), one(cmds(txt("["), core.CMsg("d", E()), txt("]")), nil, "false"))
			m.Msgs = strat
			pl := core.Cmd{"k": "plural", "e": core.EVar("n"), "cases": []core.Cmd{{"n": 1, "body": E()}}, "def": T("many")}
			m2 := add("plural-case"+tag+",catalogue="+orNone(strat), one(cmds(txt("["), core.CMsg("d", cmds(pl)), txt("]")), dm("n", core.VInt(1)), "false"))
			m2.Msgs = strat
			pl2 := core.Cmd{"k": "plural", "e": core.EVar("n"), "cases": []core.Cmd{{"n": 1, "body": T("one")}}, "def": E()}
			m3 := add("plural-default"+tag+",catalogue="+orNone(strat), one(cmds(txt("["), core.CMsg("d", cmds(pl2)), txt("]")), dm("n", core.VInt(5)), "false"))
			m3.Msgs = strat
		}
		// template bodies: the entry itself, a callee
		add("template-body"+tag, one(E(), nil, "false"))
		add("callee-body"+tag, &core.Program{Bundle: map[string]*core.Tmpl{
			"t.m": {Params: []core.Param{}, Body: cmds(txt("["), core.CCall("t.c", "none", nil), txt("|"), core.CLetC("q", cmds(core.CCall("t.c", "none", nil))), pr(core.EBin("eq", core.EVar("q"), core.EStr(""))), txt("]")), TA: "true"},
			"t.c": {Params: []core.Param{}, Body: E(), TA: "true"},
		}, Entry: "t.m", Data: dm(), IJ: core.V{"t": "none"}, Glob: map[string]core.V{}, Plan: noPlan(), Aliases: map[string]bool{}})
	}
	// {literal}{/literal}, {nil}, an empty string print
	for _, sp := range []string{"{literal}{/literal}", "{nil}", "{literal}{/literal}{nil}"} {
		lit := core.Cmd{"k": "text", "s": "", "spell": sp}
		add("literal-empty", one(cmds(txt("["), lit, txt("]")), nil, "true"))
		add("literal-empty,in-case", one(cmds(txt("["), core.CSwitch(vA, cmds(core.CCase([]core.E{i0}, cmds(lit)), core.CCase([]core.E{i1}, cmds(txt("one")))), core.Opt(true, cmds(txt("dflt")))), txt("]")), dm("a", core.VInt(0)), "true"))
		add("literal-empty,in-let", one(cmds(core.CLetC("q", cmds(lit)), txt("["), pr(core.EVar("q")), txt("]"), pr(core.EBin("eq", core.EVar("q"), core.EStr("")))), nil, "true"))
	}
	f.add(F, "print-empty-string", one(cmds(txt("["), pr(core.EStr("")), pr(vA), txt("]")), dm("a", core.VStr("")), "true"))
}

// ---- bundles at the edge of validity ---------------------------------------------------
//
// Hand-written bundles that a compiler might or might not accept. Those the
// compiler of the tree under test rejects are counted and skipped; for each
// one it ACCEPTS the two back ends must render the entry template alike
// (SoyCommon.BundleClassInSubset).

type edgeBundle struct {
	name  string
	files []string // each "{namespace ..}..." text; names are f1.soy, f2.soy, ...
	entry string
	// notPlain: the bundle needs a name that JavaScript cannot use the way the
	// ES5 output uses namespaces (a global variable per first segment, one
	// object per prefix): reported to the spec as not plain => outside
	notPlain bool
}

func tmpl(name, body string) string {
	return "\n/** */\n{template ." + name + "}\n" + body + "\n{/template}\n"
}

func edgeBundles() []edgeBundle {
	page := func(calls ...string) string {
		b := "["
		for _, c := range calls {
			b += "{call " + c + " /}|"
		}
		return tmpl("page", b+"]")
	}
	var out []edgeBundle
	out = append(out,
		edgeBundle{"duplicate-name-in-one-file", []string{"{namespace demo}\n" + page(".greet") + tmpl("greet", "Hello") + tmpl("greet", "Goodbye")}, "demo.page", false},
		edgeBundle{"duplicate-name-in-one-file,callee-first", []string{"{namespace demo}\n" + tmpl("greet", "Hello") + tmpl("greet", "Goodbye") + page(".greet")}, "demo.page", false},
		edgeBundle{"duplicate-name-in-one-file,identical-bodies", []string{"{namespace demo}\n" + page(".greet") + tmpl("greet", "Hello") + tmpl("greet", "Hello")}, "demo.page", false},
		edgeBundle{"duplicate-name-in-one-file,three-times", []string{"{namespace demo}\n" + tmpl("greet", "A") + page(".greet") + tmpl("greet", "B") + tmpl("greet", "C")}, "demo.page", false},
		edgeBundle{"duplicate-entry-in-one-file", []string{"{namespace demo}\n" + tmpl("page", "first") + tmpl("page", "second")}, "demo.page", false},
		edgeBundle{"duplicate-name-across-files", []string{"{namespace demo}\n" + page(".greet") + tmpl("greet", "Hello"), "{namespace demo}\n" + tmpl("greet", "Goodbye")}, "demo.page", false},
		edgeBundle{"duplicate-name-across-files,duplicate-first", []string{"{namespace demo}\n" + tmpl("greet", "Goodbye"), "{namespace demo}\n" + page(".greet") + tmpl("greet", "Hello")}, "demo.page", false},
		edgeBundle{"same-namespace-in-two-files", []string{"{namespace demo}\n" + page(".greet", ".bye"), "{namespace demo}\n" + tmpl("greet", "Hello") + tmpl("bye", "Bye")}, "demo.page", false},
		edgeBundle{"names-differ-only-in-case", []string{"{namespace demo}\n" + page(".greet", ".Greet", ".GREET") + tmpl("greet", "lower") + tmpl("Greet", "Capital") + tmpl("GREET", "UPPER")}, "demo.page", false},
		edgeBundle{"namespaces-differ-only-in-case", []string{"{namespace demo}\n" + page(".greet", "Demo.greet") + tmpl("greet", "lower"), "{namespace Demo}\n" + tmpl("greet", "Capital")}, "demo.page", false},
		edgeBundle{"template-named-like-its-namespace-segment", []string{"{namespace a.b}\n" + page(".b", ".a") + tmpl("b", "tb") + tmpl("a", "ta")}, "a.b.page", false},
		edgeBundle{"template-name-is-another-namespace,template-file-first", []string{"{namespace a.b}\n" + page(".c", "a.b.c.x") + tmpl("c", "template-c"), "{namespace a.b.c}\n" + tmpl("x", "x-in-abc")}, "a.b.page", true},
		edgeBundle{"template-name-is-another-namespace,namespace-file-first", []string{"{namespace a.b.c}\n" + tmpl("x", "x-in-abc"), "{namespace a.b}\n" + page(".c", "a.b.c.x") + tmpl("c", "template-c")}, "a.b.page", true},
		edgeBundle{"namespace-is-prefix-of-another", []string{"{namespace a.b}\n" + page(".t", "a.b.c.t", "a.t") + tmpl("t", "ab"), "{namespace a.b.c}\n" + tmpl("t", "abc"), "{namespace a}\n" + tmpl("t", "a")}, "a.b.page", false},
		edgeBundle{"namespace-is-prefix-of-another,deep-first", []string{"{namespace a.b.c}\n" + tmpl("t", "abc"), "{namespace a}\n" + tmpl("t", "a"), "{namespace a.b}\n" + page(".t", "a.b.c.t", "a.t") + tmpl("t", "ab")}, "a.b.page", false},
		edgeBundle{"two-namespaces-in-one-file", []string{"{namespace one}\n" + page(".t", "two.t") + tmpl("t", "in-one") + "{namespace two}\n" + tmpl("t", "in-two")}, "one.page", false},
		edgeBundle{"namespace-declared-twice-in-one-file", []string{"{namespace one}\n" + page(".t") + "{namespace one}\n" + tmpl("t", "in-one")}, "one.page", false},
		edgeBundle{"same-short-name-in-two-namespaces", []string{"{namespace p.x}\n" + page(".t", "q.x.t") + tmpl("t", "px"), "{namespace q.x}\n" + tmpl("t", "qx")}, "p.x.page", false},
		edgeBundle{"template-before-its-callee-file", []string{"{namespace z.last}\n" + page("a.first.t"), "{namespace a.first}\n" + tmpl("t", "first")}, "z.last.page", false},
		edgeBundle{"private-template-called-from-other-file", []string{"{namespace one}\n" + page("two.t"), "{namespace two}\n\n/** */\n{template .t private=\"true\"}\npriv\n{/template}\n"}, "one.page", false},
		edgeBundle{"soydoc-param-declared-twice", []string{"{namespace demo}\n\n/**\n * @param a\n * @param a\n */\n{template .page}\n[{$a}]\n{/template}\n"}, "demo.page", false},
		edgeBundle{"param-both-optional-and-required", []string{"{namespace demo}\n\n/**\n * @param? a\n * @param a\n */\n{template .page}\n[{$a ?: 'none'}]\n{/template}\n"}, "demo.page", false},
		edgeBundle{"header-and-soydoc-param", []string{"{namespace demo}\n\n/**\n * @param a\n */\n{template .page}\n{@param b: any}\n[{$a}{$b}]\n{/template}\n"}, "demo.page", false},
		edgeBundle{"call-passes-param-twice", []string{"{namespace demo}\n\n/** */\n{template .page}\n[{call .t}{param a: 'first' /}{param a: 'second' /}{/call}]\n{/template}\n\n/** @param a */\n{template .t}\n{$a}\n{/template}\n"}, "demo.page", false},
		edgeBundle{"call-passes-param-twice,value-then-content", []string{"{namespace demo}\n\n/** */\n{template .page}\n[{call .t}{param a: 'value' /}{param a}content{/param}{/call}]\n{/template}\n\n/** @param a */\n{template .t}\n{$a}\n{/template}\n"}, "demo.page", false},
		edgeBundle{"call-passes-undeclared-param", []string{"{namespace demo}\n\n/** */\n{template .page}\n[{call .t}{param zz: 'extra' /}{/call}]\n{/template}\n\n/** */\n{template .t}\nT\n{/template}\n"}, "demo.page", false},
		edgeBundle{"let-declared-twice-in-one-block", []string{"{namespace demo}\n\n/** */\n{template .page}\n{let $x: 'one' /}{$x}{let $x: 'two' /}{$x}\n{/template}\n"}, "demo.page", false},
		edgeBundle{"switch-same-case-value-twice", []string{"{namespace demo}\n\n/** @param a */\n{template .page}\n{switch $a}{case 'v'}first{case 'v'}second{default}d{/switch}\n{/template}\n"}, "demo.page", false},
		edgeBundle{"switch-case-value-twice-in-one-case", []string{"{namespace demo}\n\n/** @param a */\n{template .page}\n{switch $a}{case 'v', 'v'}hit{default}d{/switch}\n{/template}\n"}, "demo.page", false},
	)
	for _, n := range []string{"constructor", "toString", "hasOwnProperty", "length", "name", "call", "apply", "prototype", "valueOf", "caller", "arguments"} {
		out = append(out, edgeBundle{"template-named-like-an-object-member,name=" + n, []string{"{namespace demo}\n" + page("."+n) + tmpl(n, "<"+n+">")}, "demo.page", false})
	}
	for _, n := range []string{"var", "function", "new", "delete", "typeof", "class", "default", "in", "this", "null", "true", "undefined", "NaN", "soy", "opt_data", "output", "goog"} {
		out = append(out, edgeBundle{"template-named-like-a-js-word,name=" + n, []string{"{namespace demo}\n" + page("."+n) + tmpl(n, "<"+n+">")}, "demo.page", false},
			edgeBundle{"namespace-named-like-a-js-word,name=" + n, []string{"{namespace " + n + ".x}\n" + page(".t") + tmpl("t", "<"+n+">")}, n + ".x.page", true})
	}
	return out
}

func (f *fam) edgeBundleCases() {
	for _, eb := range edgeBundles() {
		c := f.add("edge-bundles", eb.name, placeholderProg())
		for i, text := range eb.files {
			c.FixedFiles = append(c.FixedFiles, core.File{Name: fmt.Sprintf("f%d.soy", i+1), Text: text})
		}
		c.Entry = eb.entry
		c.SkipOK = true
		c.Direct = &FloatClass{Kind: "bundle", Plain: !eb.notPlain}
		c.StrData = map[string]string{"a": "v", "b": "w"}
	}
}

// EmptySomeBody empties one randomly chosen nested body (a case, a branch, a
// loop body, an ifempty, a content block) of a random program; it reports
// whether it changed anything. The result may be rejected by the checker
// (a param or let whose only use was in that body): such cases are skipped.
func EmptySomeBody(pick func(int) int, p *core.Program) bool {
	type slot struct{ set func() }
	var slots []slot
	var block func(cmds []core.Cmd)
	block = func(cmds []core.Cmd) {
		for _, c := range cmds {
			c := c
			switch c["k"] {
			case "if":
				for _, br := range asCmds(c["brs"]) {
					br := br
					slots = append(slots, slot{func() { br["body"] = []core.Cmd{} }})
				}
				if els := c["els"].(core.Cmd); els["has"].(bool) {
					slots = append(slots, slot{func() { els["body"] = []core.Cmd{} }})
				}
			case "switch":
				for _, cs := range asCmds(c["cases"]) {
					cs := cs
					slots = append(slots, slot{func() { cs["body"] = []core.Cmd{} }})
				}
				if def := c["def"].(core.Cmd); def["has"].(bool) {
					slots = append(slots, slot{func() { def["body"] = []core.Cmd{} }})
				}
			case "foreach":
				slots = append(slots, slot{func() { c["body"] = []core.Cmd{} }})
				if em := c["empty"].(core.Cmd); em["has"].(bool) {
					slots = append(slots, slot{func() { em["body"] = []core.Cmd{} }})
				}
			case "letc", "log":
				slots = append(slots, slot{func() { c["body"] = []core.Cmd{} }})
			case "call":
				for _, pa := range asCmds(c["params"]) {
					pa := pa
					if pa["k"] == "pc" {
						slots = append(slots, slot{func() { pa["body"] = []core.Cmd{} }})
					}
				}
			}
			mapBodies(c, func(kind string, b []core.Cmd) []core.Cmd { block(b); return b })
		}
	}
	for _, name := range sortedTmplNames(p) {
		block(p.Bundle[name].Body)
	}
	if len(slots) == 0 {
		return false
	}
	slots[pick(len(slots))].set()
	return true
}
