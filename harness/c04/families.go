package c04

import (
	"fmt"
	"strings"

	"verif/core"
)

// Systematic families (c). Every case names the construct it exercises in
// Feature; the defect class is appended by Classify when a case disagrees.

type fam struct {
	cases []*Case
}

func noPlan() map[string]interface{} { return map[string]interface{}{"kind": "none"} }

// one builds a single-template program t.m. Params are derived from the data
// keys plus extra (declared optional so that missing values are allowed).
func one(body []core.Cmd, data map[string]core.V, ta string, extra ...string) *core.Program {
	seen := map[string]bool{}
	params := []core.Param{}
	names := map[string]int{}
	for k := range data {
		names[k] = 1
	}
	for _, k := range extra {
		names[k] = 1
	}
	for _, k := range sortedKeys(names) {
		if !seen[k] && mentions(body, k) {
			seen[k] = true
			params = append(params, core.Param{Name: k, Opt: true})
		}
	}
	if data == nil {
		data = map[string]core.V{}
	}
	return &core.Program{
		Bundle: map[string]*core.Tmpl{"t.m": {Params: params, Body: body, TA: ta}},
		Entry:  "t.m", Data: data, IJ: core.V{"t": "none"}, Glob: map[string]core.V{}, Plan: noPlan(), Aliases: map[string]bool{},
	}
}

func optParams(body []core.Cmd, names ...string) []core.Param {
	ps := []core.Param{}
	for _, n := range names {
		if mentions(body, n) {
			ps = append(ps, core.Param{Name: n, Opt: true})
		}
	}
	return ps
}

func (f *fam) add(family, feature string, p *core.Program) *Case {
	c := &Case{Family: family, Feature: feature, Prog: p}
	f.cases = append(f.cases, c)
	return c
}

func (f *fam) expr(family, feature string, e core.E, data map[string]core.V) *Case {
	return f.add(family, feature, one([]core.Cmd{core.CPrint(e)}, data, "false", core.ExprVars(e)...))
}

func vm(kv ...interface{}) core.V {
	m := map[string]core.V{}
	for i := 0; i+1 < len(kv); i += 2 {
		m[kv[i].(string)] = kv[i+1].(core.V)
	}
	return core.VMap(m)
}

func dm(kv ...interface{}) map[string]core.V {
	m := map[string]core.V{}
	for i := 0; i+1 < len(kv); i += 2 {
		m[kv[i].(string)] = kv[i+1].(core.V)
	}
	return m
}

var (
	i0     = core.EInt(0)
	i1     = core.EInt(1)
	i2     = core.EInt(2)
	vA     = core.EVar("a")
	vB     = core.EVar("b")
	vX     = core.EVar("x")
	noElse = core.Opt(false, nil)
)

func txt(s string) core.Cmd                  { return core.CText(s) }
func pr(e core.E, dirs ...core.Cmd) core.Cmd { return core.CPrint(e, dirs...) }
func cmds(cs ...core.Cmd) []core.Cmd         { return cs }

// ---- functions ------------------------------------------------------------------

func (f *fam) functions() {
	F := "functions"
	nums := []core.V{core.VInt(0), core.VInt(3), core.VInt(-7), core.VFloat(1, 1), core.VFloat(5, 1), core.VFloat(-5, 1), core.VFloat(-7, 2),
		core.VFloat(9, 2), core.VFloat(2097153, 1), core.VFloat(-3, 1), core.VFloat(3, 1), core.VInt(2000000)}
	for _, fn := range []string{"round", "floor", "ceiling"} {
		for _, v := range nums {
			f.expr(F, "fn="+fn, core.EFn(fn, vA), dm("a", v))
			f.expr(F, "fn="+fn+",literal", core.EFn(fn, core.LitOf(v)), nil)
		}
	}
	for _, v := range []core.V{core.VFloat(5, 1), core.VFloat(13, 2), core.VInt(4), core.VFloat(-13, 2), core.VFloat(1, 3)} {
		for n := 0; n <= 3; n++ {
			f.expr(F, "fn=round,digits", core.EFn("round", vA, core.EInt(n)), dm("a", v))
		}
	}
	for _, fn := range []string{"min", "max"} {
		for _, a := range nums[:8] {
			for _, b := range nums[:8] {
				f.expr(F, "fn="+fn, core.EFn(fn, vA, vB), dm("a", a, "b", b))
			}
		}
	}
	for _, v := range []core.V{core.VNull(), core.VInt(0), core.VStr(""), core.VBool(false), core.VList(), vm(), core.VStr("x"), core.VFloat(0, 0)} {
		f.expr(F, "fn=isNonnull", core.EFn("isNonnull", vA), dm("a", v))
		f.expr(F, "fn=isNonnull,key", core.EFn("isNonnull", core.EVar("m", core.AKey("k", false))), dm("m", vm("k", v)))
		f.expr(F, "fn=isNonnull,nullsafe-key", core.EFn("isNonnull", core.EVar("m", core.AKey("k", true))), dm("m", vm("k", v)))
		// truthiness contexts of the same call
		f.add(F, "fn=isNonnull,if", one(cmds(core.CIf(cmds(core.CBr(core.EFn("isNonnull", core.EVar("m", core.AKey("k", true))), cmds(txt("Y")))), core.Opt(true, cmds(txt("N"))))), dm("m", vm("k", v)), "false"))
	}
	f.expr(F, "fn=isNonnull,undefined", core.EFn("isNonnull", vA), nil)
	f.expr(F, "fn=isNonnull,missing-key", core.EFn("isNonnull", core.EVar("m", core.AKey("nokey", false))), dm("m", vm()))
	f.expr(F, "fn=isNonnull,nullsafe-on-null", core.EFn("isNonnull", core.EVar("m", core.AKey("k", true))), dm("m", core.VNull()))
	f.expr(F, "fn=isNonnull,nullsafe-on-undefined", core.EFn("isNonnull", core.EVar("m", core.AKey("k", true))), nil)
	f.expr(F, "fn=isNonnull,nullsafe-on-null,eq", core.EBin("eq", core.EFn("isNonnull", core.EVar("m", core.AKey("k", true))), core.EBool(false)), dm("m", core.VNull()))
	for n := 0; n <= 3; n++ {
		xs := []core.V{}
		m := map[string]core.V{}
		for i := 0; i < n; i++ {
			xs = append(xs, core.VInt(i))
			m[fmt.Sprintf("k%d", i)] = core.VInt(i)
		}
		f.expr(F, "fn=length", core.EFn("length", vX), dm("x", core.VList(xs...)))
		f.expr(F, "fn=length-of-keys", core.EFn("length", core.EFn("keys", core.EVar("m"))), dm("m", core.VMap(m)))
		if n <= 1 {
			f.add(F, "fn=keys", one(cmds(core.CForeach("foreach", "k", core.EFn("keys", core.EVar("m")), cmds(pr(core.EVar("k")), txt(";")), core.Opt(true, cmds(txt("none"))))), dm("m", core.VMap(m)), "false"))
		}
	}
	f.expr(F, "fn=length,literal", core.EFn("length", core.EList(i1, i2, core.EStr("a"))), nil)
	am := core.EFn("augmentMap", core.EVar("m"), core.EMap("k", core.EStr("new"), "z", i2))
	for _, key := range []string{"k", "a", "z", "nokey"} {
		f.expr(F, "fn=augmentMap", core.EBin("elvis", core.EVar("q", core.AKey(key, false)), core.EStr("~")), nil).Prog =
			one(cmds(core.CLetV("q", am), pr(core.EBin("elvis", core.EVar("q", core.AKey(key, false)), core.EStr("~")))), dm("m", vm("k", core.VStr("old"), "a", core.VInt(7))), "false")
	}
	f.add(F, "fn=augmentMap,call-data", &core.Program{
		Bundle: map[string]*core.Tmpl{
			"t.m": {Params: []core.Param{{Name: "m"}}, Body: cmds(core.CCall("t.c", "expr", am)), TA: "false"},
			"t.c": {Params: []core.Param{{Name: "k", Opt: true}, {Name: "a", Opt: true}, {Name: "z", Opt: true}}, Body: cmds(pr(core.EVar("k")), txt("|"), pr(vA), txt("|"), pr(core.EVar("z"))), TA: "false"},
		}, Entry: "t.m", Data: dm("m", vm("k", core.VStr("old"), "a", core.VInt(7))), IJ: core.V{"t": "none"}, Glob: map[string]core.V{}, Plan: noPlan(), Aliases: map[string]bool{}})
	for _, s := range []string{"", "a", "abc", "<b>", "two words"} {
		for _, sub := range []string{"", "a", "b", "<", "wo w", "abcd"} {
			f.expr(F, "fn=strContains", core.EFn("strContains", core.EVar("s"), core.EStr(sub)), dm("s", core.VStr(s)))
		}
	}
	f.expr(F, "fn=strContains,concat", core.EFn("strContains", core.EBin("add", core.EVar("s"), core.EStr("xyz")), core.EStr("bx")), dm("s", core.VStr("ab")))
	f.expr(F, "fn=hasData", core.EFn("hasData"), nil)
	f.add(F, "fn=hasData,if", one(cmds(core.CIf(cmds(core.CBr(core.EFn("hasData"), cmds(txt("Y")))), noElse)), nil, "false"))
}

// ---- operators ------------------------------------------------------------------

func (f *fam) operators() {
	F := "operators"
	nums := []core.V{core.VInt(0), core.VInt(2), core.VInt(-3), core.VInt(7), core.VFloat(1, 1), core.VFloat(-5, 1), core.VFloat(3, 2), core.VInt(1048576), core.VFloat(2097153, 1)}
	for _, op := range []string{"add", "sub", "mul", "div", "mod", "lt", "gt", "le", "ge", "eq", "ne"} {
		for _, a := range nums {
			for _, b := range nums {
				f.expr(F, "op="+op, core.EBin(op, vA, vB), dm("a", a, "b", b))
			}
		}
	}
	for _, a := range nums {
		f.expr(F, "op=neg", core.ENeg(vA), dm("a", a))
		f.expr(F, "op=neg,literal", core.ENeg(core.LitOf(a)), nil)
		f.expr(F, "op=neg,neg", core.ENeg(core.ENeg(vA)), dm("a", a))
		f.expr(F, "op=neg,key", core.ENeg(core.EVar("m", core.AKey("k", false))), dm("m", vm("k", a)))
		f.expr(F, "op=neg,nullsafe-key", core.ENeg(core.EVar("m", core.AKey("k", true))), dm("m", vm("k", a)))
		f.expr(F, "op=neg,nullsafe-index", core.ENeg(core.EVar("x", core.AIdx(0, true))), dm("x", core.VList(a)))
		f.expr(F, "op=neg,nullsafe-bracket", core.ENeg(core.EVar("m", core.AExpr(core.EStr("k"), true))), dm("m", vm("k", a)))
		f.expr(F, "op=sub,nullsafe-key", core.EBin("sub", i1, core.EVar("m", core.AKey("k", true))), dm("m", vm("k", a)))
	}
	strs := []core.V{core.VStr(""), core.VStr("a"), core.VStr("<b>"), core.VStr("1"), core.VStr("q\"t")}
	others := []core.V{core.VInt(0), core.VInt(5), core.VFloat(3, 1), core.VBool(true), core.VBool(false), core.VNull()}
	for _, s := range strs {
		for _, t := range strs {
			f.expr(F, "op=add,concat", core.EBin("add", vA, vB), dm("a", s, "b", t))
			f.expr(F, "op=eq,str", core.EBin("eq", vA, vB), dm("a", s, "b", t))
			f.expr(F, "op=ne,str", core.EBin("ne", vA, vB), dm("a", s, "b", t))
		}
		for _, o := range others {
			f.expr(F, "op=add,concat-mixed", core.EBin("add", vA, vB), dm("a", s, "b", o))
			f.expr(F, "op=add,concat-mixed", core.EBin("add", vA, vB), dm("a", o, "b", s))
		}
	}
	vals := []core.V{core.VNull(), core.VBool(true), core.VBool(false), core.VInt(0), core.VInt(1), core.VFloat(0, 0), core.VStr(""), core.VStr("0"), core.VStr("a"), core.VList(), vm(), core.VList(core.VInt(0))}
	for _, a := range vals {
		// truthiness: not, ternary condition, if condition
		f.expr(F, "op=not", core.ENot(vA), dm("a", a))
		f.expr(F, "op=tern", core.ETern(vA, core.EStr("T"), core.EStr("F")), dm("a", a))
		f.add(F, "cmd=if,truthiness", one(cmds(core.CIf(cmds(core.CBr(vA, cmds(txt("T")))), core.Opt(true, cmds(txt("F"))))), dm("a", a), "false"))
		// elvis keeps falsy non-null values
		if a["t"] != "list" && a["t"] != "map" {
			f.expr(F, "op=elvis", core.EBin("elvis", vA, core.EStr("dflt")), dm("a", a))
			f.expr(F, "op=elvis,key", core.EBin("elvis", core.EVar("m", core.AKey("k", false)), core.EStr("dflt")), dm("m", vm("k", a)))
			f.expr(F, "op=elvis,nullsafe-key", core.EBin("elvis", core.EVar("m", core.AKey("k", true)), core.EStr("dflt")), dm("m", vm("k", a)))
			f.expr(F, "op=elvis,chain", core.EBin("elvis", vA, core.EBin("elvis", vB, core.EStr("dflt"))), dm("a", core.VNull(), "b", a))
			f.expr(F, "op=eq,same", core.EBin("eq", vA, vB), dm("a", a, "b", a))
		} else {
			f.expr(F, "op=elvis,collection", core.EFn("length", core.EBin("elvis", vA, core.EList(i1))), dm("a", core.VList(core.VInt(1), core.VInt(2))))
		}
		for _, b := range vals {
			// and / or in conditions (any operands) ...
			for _, op := range []string{"and", "or"} {
				f.add(F, "op="+op+",condition", one(cmds(core.CIf(cmds(core.CBr(core.EBin(op, vA, vB), cmds(txt("T")))), core.Opt(true, cmds(txt("F"))))), dm("a", a, "b", b), "false"))
				f.expr(F, "op="+op+",tern-condition", core.ETern(core.EBin(op, vA, vB), core.EStr("T"), core.EStr("F")), dm("a", a, "b", b))
				f.expr(F, "op=not-"+op, core.ENot(core.EBin(op, vA, vB)), dm("a", a, "b", b))
				// ... and as values (only booleans are in the subset)
				f.expr(F, "op="+op+",value", core.EBin(op, vA, vB), dm("a", a, "b", b))
			}
		}
	}
	f.expr(F, "op=elvis,undefined", core.EBin("elvis", vA, core.EStr("dflt")), nil)
	f.expr(F, "op=or,short-circuit", core.EBin("or", core.EBool(true), core.EVar("u", core.AKey("k", false))), nil)
	f.expr(F, "op=and,short-circuit", core.EBin("and", core.EBool(false), core.EVar("u", core.AKey("k", false))), nil)
	f.expr(F, "op=tern,lazy", core.ETern(core.EBool(true), core.EStr("T"), core.EVar("u", core.AKey("k", false))), nil)
	// precedence / grouping through the translation
	exprs := []core.E{
		core.EBin("mul", core.EBin("add", i1, i2), core.EInt(3)),
		core.EBin("sub", core.EInt(9), core.EBin("sub", core.EInt(4), i1)),
		core.EBin("div", core.EInt(8), core.EBin("mul", i2, i2)),
		core.ENeg(core.EBin("add", i1, i2)),
		core.ENot(core.EBin("eq", i1, i2)),
		core.EBin("eq", core.EBin("lt", i1, i2), core.EBool(true)),
		core.ETern(core.EBin("gt", vA, i1), core.ETern(core.EBin("gt", vA, core.EInt(5)), core.EStr("big"), core.EStr("mid")), core.EStr("small")),
		core.EBin("add", core.EStr("n="), core.EBin("add", vA, i1)),
		core.EBin("add", core.EBin("add", core.EStr("n="), vA), i1),
		core.EBin("mod", core.ENeg(core.EInt(7)), core.EInt(3)),
		core.EBin("mod", core.EInt(7), core.ENeg(core.EInt(3))),
		core.EBin("elvis", core.ETern(vA, core.ENull(), i1), core.EStr("dflt")),
	}
	for _, e := range exprs {
		for _, a := range []int{0, 3, 9} {
			f.expr(F, "grouping", e, dm("a", core.VInt(a)))
		}
	}
}

// ---- data references ----------------------------------------------------------------

func (f *fam) refs() {
	F := "data-refs"
	shapes := map[string]core.V{
		"map":     vm("k", vm("j", core.VInt(5), "s", core.VStr("<v>")), "n", core.VNull(), "l", core.VList(core.VInt(8), vm("j", core.VStr("in")))),
		"null":    core.VNull(),
		"missing": nil,
	}
	accs := [][]core.E{
		{core.AKey("k", false)}, {core.AKey("k", true)}, {core.AKey("n", false)}, {core.AKey("n", true)}, {core.AKey("nokey", true)},
		{core.AKey("k", false), core.AKey("j", false)}, {core.AKey("k", true), core.AKey("j", true)}, {core.AKey("n", false), core.AKey("j", true)},
		{core.AKey("n", true), core.AKey("j", true)}, {core.AKey("nokey", false), core.AKey("j", true)},
		{core.AKey("l", false), core.AIdx(0, false)}, {core.AKey("l", true), core.AIdx(0, true)}, {core.AKey("l", false), core.AIdx(1, false), core.AKey("j", false)},
		{core.AKey("l", false), core.AExpr(core.EInt(0), false)}, {core.AKey("l", false), core.AExpr(core.EBin("sub", i1, i1), true)},
		{core.AExpr(core.EStr("k"), false), core.AExpr(core.EStr("j"), false)}, {core.AExpr(core.EBin("add", core.EStr("k"), core.EStr("")), true), core.AKey("s", false)},
		{core.AKey("k", true), core.AKey("s", false)},
	}
	for _, sn := range []string{"map", "null", "missing"} {
		d := map[string]core.V{}
		if shapes[sn] != nil {
			d["m"] = shapes[sn]
		}
		for _, acc := range accs {
			ref := core.EVar("m", acc...)
			feat := ",shape=" + sn
			f.expr(F, "ctx=print-elvis"+feat, core.EBin("elvis", ref, core.EStr("~")), d)
			f.expr(F, "ctx=print"+feat, ref, d)
			f.expr(F, "ctx=isNonnull"+feat, core.EFn("isNonnull", ref), d)
			f.expr(F, "ctx=not"+feat, core.ENot(ref), d)
			f.expr(F, "ctx=tern-cond"+feat, core.ETern(ref, core.EStr("T"), core.EStr("F")), d)
			f.expr(F, "ctx=eq-null"+feat, core.EBin("eq", core.EBin("elvis", ref, core.ENull()), core.ENull()), d)
			f.expr(F, "ctx=concat"+feat, core.EBin("add", core.EStr("v="), ref), d)
			f.add(F, "ctx=css"+feat, one(cmds(core.CCss(ref, "suf")), d, "false", "m"))
			f.add(F, "ctx=let"+feat, one(cmds(core.CLetV("q", ref), pr(core.EBin("elvis", core.EVar("q"), core.EStr("~")))), d, "false", "m"))
			f.add(F, "ctx=escaped"+feat, one(cmds(pr(core.EBin("elvis", ref, core.EStr("<~>")))), d, "true", "m"))
		}
	}
	// injected data
	ij := vm("k", core.VStr("<ij>"), "n", core.VInt(4), "m", vm("j", core.VStr("deep")))
	for _, e := range []core.E{core.EVar("ij", core.AKey("k", false)), core.EVar("ij", core.AKey("n", true)), core.EVar("ij", core.AKey("m", false), core.AKey("j", false)),
		core.EBin("elvis", core.EVar("ij", core.AKey("nokey", false)), core.EStr("~")), core.ENeg(core.EVar("ij", core.AKey("n", false)))} {
		c := f.expr(F, "ij", e, nil)
		c.Prog.IJ = ij
		c2 := f.expr(F, "ij,escaped", e, nil)
		c2.Prog.IJ = ij
		c2.Prog.Bundle["t.m"].TA = "true"
	}
}

// ---- directives --------------------------------------------------------------------

func (f *fam) directives() {
	F := "directives"
	vals := []core.V{core.VStr("plain"), core.VStr("a<b"), core.VStr("x&y"), core.VStr("q\"t'"), core.VStr("l1\nl2"), core.VStr("l1\r\nl2\rl3"), core.VStr("<a>\n</a>"),
		core.VStr("abcdefghij"), core.VStr("abcdefgh<"), core.VStr("ab cdefgh ij"), core.VStr("Lorem Ipsum"), core.VStr(""), core.VInt(1234567), core.VFloat(5, 1), core.VBool(true), core.VNull()}
	dirs := [][]core.Cmd{
		{}, {core.CDir("noAutoescape")}, {core.CDir("id")}, {core.CDir("escapeHtml")}, {core.CDir("changeNewlineToBr")},
		{core.CDir("insertWordBreaks", core.EInt(3))}, {core.CDir("insertWordBreaks", core.EInt(6))}, {core.CDir("insertWordBreaks", core.EInt(30))},
		{core.CDir("truncate", core.EInt(8))}, {core.CDir("truncate", core.EInt(5), core.EBool(false))}, {core.CDir("truncate", core.EInt(3))}, {core.CDir("truncate", core.EInt(8), core.EBool(true))},
	}
	name := func(ds []core.Cmd) string {
		s := ""
		for i, d := range ds {
			if i > 0 {
				s += "|"
			}
			s += d["name"].(string)
		}
		if s == "" {
			s = "none"
		}
		return s
	}
	for _, ta := range []string{"true", "false"} {
		for _, v := range vals {
			for _, ds := range dirs {
				f.add(F, "directive="+name(ds)+",autoescape="+ta, one(cmds(pr(vX, ds...)), dm("x", v), ta))
			}
		}
	}
	// chains of two
	single := []core.Cmd{core.CDir("noAutoescape"), core.CDir("id"), core.CDir("escapeHtml"), core.CDir("changeNewlineToBr"), core.CDir("insertWordBreaks", core.EInt(4)), core.CDir("truncate", core.EInt(8))}
	cvals := []core.V{core.VStr("a<b\n<<<<<c>"), core.VStr("abcdefghijkl"), core.VStr("<<<<<"), core.VStr("x\ny"), core.VStr("plain")}
	for _, ta := range []string{"true", "false"} {
		for _, d1 := range single {
			for _, d2 := range single {
				for _, v := range cvals {
					ds := []core.Cmd{d1, d2}
					base := "directive-chain"
					for _, special := range []string{"changeNewlineToBr", "insertWordBreaks"} {
						if d1["name"] == special || d2["name"] == special {
							base += "-with-" + special
						}
					}
					f.add(F, base+",chain="+name(ds)+",autoescape="+ta, one(cmds(pr(vX, ds...)), dm("x", v), ta))
				}
			}
		}
	}
	// directive arguments that are expressions
	f.add(F, "directive=truncate,arg-expr", one(cmds(pr(vX, core.CDir("truncate", core.EBin("add", vA, i1)))), dm("x", core.VStr("abcdefghijkl"), "a", core.VInt(6)), "false"))
	f.add(F, "directive=insertWordBreaks,arg-expr", one(cmds(pr(vX, core.CDir("insertWordBreaks", vA))), dm("x", core.VStr("abcdefghijkl"), "a", core.VInt(5)), "false"))
	// autoescape modes: namespace x template x callee
	for _, nsa := range []string{"", "true", "false", "contextual"} {
		for _, ta := range []string{"", "true", "false", "contextual"} {
			for _, cta := range []string{"", "true", "false"} {
				p := &core.Program{Bundle: map[string]*core.Tmpl{
					"t.m": {Params: []core.Param{{Name: "x"}}, Body: cmds(pr(vX), txt("|"), core.CCall("t.c", "all", nil), txt("|"), core.CCall("o.c", "all", nil)), NsA: nsa, TA: ta},
					"t.c": {Params: []core.Param{{Name: "x"}}, Body: cmds(pr(vX)), NsA: nsa, TA: cta},
					"o.c": {Params: []core.Param{{Name: "x"}}, Body: cmds(pr(vX), core.CLetC("y", cmds(pr(vX))), pr(core.EVar("y"), core.CDir("noAutoescape"))), NsA: "", TA: cta},
				}, Entry: "t.m", Data: dm("x", core.VStr("<a href='u'>&</a>")), IJ: core.V{"t": "none"}, Glob: map[string]core.V{}, Plan: noPlan(), Aliases: map[string]bool{}}
				f.add(F, "autoescape-modes", p)
			}
		}
	}
}

// ---- messages --------------------------------------------------------------------

func (f *fam) messages() {
	F := "messages"
	bodies := map[string][]core.Cmd{
		"text":          cmds(txt("Hello world")),
		"var":           cmds(txt("a: "), pr(vA)),
		"vars":          cmds(pr(vA), pr(vA), txt(" xx "), pr(vB), txt("!")),
		"html":          cmds(txt("Click <a>here</a> "), pr(vA)),
		"html-attr":     cmds(txt("<b class=\"c\">"), pr(vB), txt("</b><br/>")),
		"keys":          cmds(pr(core.EVar("m", core.AKey("a", false))), txt("-"), pr(core.EVar("m", core.AKey("b", false), core.AKey("a", false)))),
		"expr":          cmds(txt("sum "), pr(core.EBin("add", vA, i1)), txt(" "), pr(core.EStr("<lit>"))),
		"directive":     cmds(pr(vB, core.CDir("noAutoescape")), txt("|"), pr(vB, core.CDir("escapeHtml"))),
		"special-chars": cmds(txt("{'q' & \"dq\"} "), pr(vB)),
	}
	d := dm("a", core.VInt(7), "b", core.VStr("<b&>"), "m", vm("a", core.VInt(1), "b", vm("a", core.VInt(2))))
	names := map[string]int{}
	for k := range bodies {
		names[k] = 1
	}
	for _, bn := range sortedKeys(names) {
		for _, strat := range []string{"", "lacks", "identity", "reverse", "wrap"} {
			for _, ta := range []string{"true", "false"} {
				body := cloneCmds(bodies[bn])
				c := f.add(F, "msg-catalogue="+catClass(strat)+",body="+bn+",strategy="+orNone(strat), one(cmds(txt("["), core.CMsg("d", body), txt("]")), d, ta))
				c.Msgs = strat
			}
		}
	}
	// msg inside control flow and through a call
	for _, strat := range []string{"", "reverse"} {
		p := &core.Program{Bundle: map[string]*core.Tmpl{
			"t.m": {Params: []core.Param{{Name: "a"}, {Name: "x"}}, Body: cmds(
				core.CForeach("foreach", "v", vX, cmds(core.CMsg("d", cmds(txt("item "), pr(core.EVar("v")), txt(" of "), pr(vA))), txt(";")), noElse),
				core.CIf(cmds(core.CBr(core.EBin("gt", vA, i1), cmds(core.CMsg("d", cmds(txt("many "), pr(vA)))))), noElse),
				core.CCall("t.c", "all", nil), core.CLetC("s", cmds(core.CMsg("d", cmds(txt("in let "), pr(vA))))), pr(core.EVar("s"))), TA: "true"},
			"t.c": {Params: []core.Param{{Name: "a"}}, Body: cmds(core.CMsg("d", cmds(txt("callee "), pr(vA), txt(".")))), TA: "true"},
		}, Entry: "t.m", Data: dm("a", core.VInt(3), "x", core.VList(core.VInt(1), core.VInt(2))), IJ: core.V{"t": "none"}, Glob: map[string]core.V{}, Plan: noPlan(), Aliases: map[string]bool{}}
		c := f.add(F, "msg-catalogue="+catClass(strat)+",body=in-control-flow,strategy="+orNone(strat), p)
		c.Msgs = strat
	}
	// plural
	plural := func(subj core.E, withCase0 bool) core.Cmd {
		cases := []core.Cmd{}
		if withCase0 {
			cases = append(cases, core.Cmd{"n": 0, "body": cmds(txt("no users"))})
		}
		cases = append(cases, core.Cmd{"n": 1, "body": cmds(txt("one user "), pr(vB))})
		return core.Cmd{"k": "plural", "e": subj, "cases": cases, "def": cmds(pr(subj), txt(" users "), pr(vB))}
	}
	for n := 0; n <= 6; n++ {
		for _, c0 := range []bool{false, true} {
			for _, strat := range []string{"", "lacks", "identity", "reverse", "wrap"} {
				for _, rule := range []string{"en", "cs"} {
					if strat == "" && rule == "cs" {
						continue
					}
					c := f.add(F, fmt.Sprintf("plural-catalogue=%s,case0=%v,strategy=%s,rule=%s", catClass(strat), c0, orNone(strat), rule),
						one(cmds(core.CMsg("d", cmds(plural(core.EVar("n"), c0)))), dm("n", core.VInt(n), "b", core.VStr("<u>")), "true"))
					c.Msgs, c.Rule = strat, rule
				}
			}
		}
		c := f.add(F, "plural-catalogue=present,subject=expr", one(cmds(core.CMsg("d", cmds(plural(core.EVar("m", core.AKey("n", false)), false)))), dm("m", vm("n", core.VInt(n)), "b", core.VStr("u")), "false"))
		c.Msgs = "identity"
	}
}

func catClass(s string) string {
	switch s {
	case "":
		return "none"
	case "lacks":
		return "lacks"
	}
	return "present"
}

func orNone(s string) string {
	if s == "" {
		return "none"
	}
	return s
}

// ---- loops -------------------------------------------------------------------------

func (f *fam) loops() {
	F := "loops"
	helpers := func(v string) []core.Cmd {
		return cmds(pr(core.EVar(v)), txt(":"), pr(core.EFn("index", core.EVar(v))),
			core.CIf(cmds(core.CBr(core.EFn("isFirst", core.EVar(v)), cmds(txt("F")))), noElse),
			core.CIf(cmds(core.CBr(core.EFn("isLast", core.EVar(v)), cmds(txt("L")))), noElse), txt(";"))
	}
	for n := 0; n <= 3; n++ {
		xs := []core.V{}
		for i := 0; i < n; i++ {
			xs = append(xs, core.VStr(fmt.Sprintf("e%d", i)))
		}
		for _, kw := range []string{"foreach", "for"} {
			for _, emp := range []bool{false, true} {
				f.add(F, fmt.Sprintf("foreach-list,kw=%s,ifempty=%v", kw, emp), one(cmds(core.CForeach(kw, "v", vX, helpers("v"), core.Opt(emp, cmds(txt("EMPTY")))), txt(".")), dm("x", core.VList(xs...)), "false"))
			}
		}
		f.add(F, "foreach-list-literal", one(cmds(core.CForeach("foreach", "v", core.LitOf(core.VList(xs...)), helpers("v"), core.Opt(true, cmds(txt("EMPTY"))))), nil, "false"))
		// nested: helper on inner / outer variable
		f.add(F, "nested-loop-helper-on-inner", one(cmds(core.CForeach("foreach", "o", vX, cmds(core.CForeach("foreach", "i", core.EList(core.EStr("p"), core.EStr("q")), helpers("i"), noElse), txt("/")), noElse)), dm("x", core.VList(xs...)), "false"))
		f.add(F, "loop-helper-on-outer-loop-var", one(cmds(core.CForeach("foreach", "o", vX, cmds(core.CForeach("foreach", "i", core.EList(core.EStr("p"), core.EStr("q")), helpers("o"), noElse), txt("/")), noElse)), dm("x", core.VList(xs...)), "false"))
		f.add(F, "loop-helper-after-inner-loop", one(cmds(core.CForeach("foreach", "o", vX, append(cmds(core.CForeach("foreach", "i", core.EList(core.EStr("p")), cmds(pr(core.EVar("i"))), noElse)), helpers("o")...), noElse)), dm("x", core.VList(xs...)), "false"))
	}
	// range loops
	rs := [][]int{{0}, {1}, {3}, {2, 5}, {3, 3}, {0, 7, 2}, {1, 8, 3}, {5, 2}}
	for _, r := range rs {
		var args []core.E
		for _, a := range r {
			args = append(args, core.EInt(a))
		}
		plain := cmds(pr(core.EVar("v")), txt(";"))
		for _, kw := range []string{"foreach", "for"} {
			f.add(F, fmt.Sprintf("range-loop,kw=%s,args=%d", kw, len(r)), one(cmds(core.CForeach(kw, "v", core.EFn("range", args...), plain, noElse), txt(".")), nil, "false"))
		}
		f.add(F, fmt.Sprintf("range-loop-ifempty,args=%d", len(r)), one(cmds(core.CForeach("foreach", "v", core.EFn("range", args...), plain, core.Opt(true, cmds(txt("EMPTY")))), txt(".")), nil, "false"))
		f.add(F, fmt.Sprintf("range-loop-helpers,args=%d", len(r)), one(cmds(core.CForeach("foreach", "v", core.EFn("range", args...), helpers("v"), noElse), txt(".")), nil, "false"))
	}
	f.add(F, "range-loop,arg-expr", one(cmds(core.CForeach("for", "v", core.EFn("range", core.EBin("add", vA, i1)), cmds(pr(core.EVar("v"))), noElse)), dm("a", core.VInt(2)), "false"))
	f.add(F, "range-loop,arg-length", one(cmds(core.CForeach("for", "v", core.EFn("range", core.EFn("length", vX)), cmds(pr(core.EVar("x", core.AExpr(core.EVar("v"), false)))), noElse)), dm("x", core.VList(core.VStr("a"), core.VStr("b"))), "false"))
	// switch
	for _, subj := range []core.V{core.VInt(0), core.VInt(1), core.VInt(2), core.VInt(5), core.VStr("a"), core.VStr("1"), core.VFloat(2, 0), core.VBool(true), core.VNull()} {
		for _, def := range []bool{true, false} {
			sw := core.CSwitch(vA, cmds(core.CCase([]core.E{i0}, cmds(txt("zero"))), core.CCase([]core.E{i1, i2}, cmds(txt("one-or-two"))), core.CCase([]core.E{core.EStr("a"), core.EStr("b")}, cmds(txt("str"))), core.CCase([]core.E{core.EBool(true)}, cmds(txt("true"))), core.CCase([]core.E{core.ENull()}, cmds(txt("null")))), core.Opt(def, cmds(txt("dflt"))))
			f.add(F, fmt.Sprintf("switch,default=%v", def), one(cmds(txt("["), sw, txt("]")), dm("a", subj), "false"))
		}
	}
	f.add(F, "switch,case-expr", one(cmds(core.CSwitch(core.EBin("add", vA, i1), cmds(core.CCase([]core.E{vB}, cmds(txt("b"))), core.CCase([]core.E{core.EBin("mul", i2, i2)}, cmds(txt("four")))), core.Opt(true, cmds(txt("d"))))), dm("a", core.VInt(3), "b", core.VInt(9)), "false"))
	// if / elseif / else chains
	for a := 0; a <= 3; a++ {
		f.add(F, "if-elseif-else", one(cmds(core.CIf(cmds(core.CBr(core.EBin("eq", vA, i0), cmds(txt("zero"))), core.CBr(core.EBin("eq", vA, i1), cmds(txt("one"))), core.CBr(core.EBin("lt", vA, core.EInt(3)), cmds(txt("two")))), core.Opt(true, cmds(txt("many"))))), dm("a", core.VInt(a)), "false"))
	}
}

// ---- calls ---------------------------------------------------------------------------

func (f *fam) calls() {
	F := "calls"
	show := cmds(txt("("), pr(core.EBin("elvis", vA, core.EStr("~"))), txt(","), pr(core.EBin("elvis", vB, core.EStr("~"))), txt(","), pr(core.EBin("elvis", core.EVar("ij", core.AKey("k", true)), core.EStr("~"))), txt(")"))
	callee := &core.Tmpl{Params: []core.Param{{Name: "a", Opt: true}, {Name: "b", Opt: true}}, Body: show, TA: "true"}
	mid := &core.Tmpl{Params: []core.Param{{Name: "a", Opt: true}, {Name: "b", Opt: true}}, Body: cmds(txt("<"), pr(core.EBin("elvis", vA, core.EStr("~"))), pr(core.EBin("elvis", vB, core.EStr("~"))), core.CCall("o.ns.leaf", "all", nil), txt(">")), TA: "true"}
	type cs struct {
		feat string
		call core.Cmd
	}
	spellFq := func(c core.Cmd) core.Cmd { c["spell"] = "fq"; return c }
	calls := []cs{
		{"data=none", core.CCall("o.ns.leaf", "none", nil)},
		{"data=none,param-value", core.CCall("o.ns.leaf", "none", nil, core.CPV("a", core.EBin("add", vA, i1)))},
		{"data=none,param-content", core.CCall("o.ns.leaf", "none", nil, core.CPC("b", cmds(txt("<i>"), pr(vB), txt("</i>"))))},
		{"data=all", core.CCall("o.ns.leaf", "all", nil)},
		{"data=all,param-overrides", core.CCall("o.ns.leaf", "all", nil, core.CPV("b", core.EStr("over<")))},
		{"data=all,param-content-overrides", core.CCall("o.ns.leaf", "all", nil, core.CPC("a", cmds(pr(vA), txt("+"))))},
		{"data=expr", core.CCall("o.ns.leaf", "expr", core.EVar("m"))},
		{"data=expr,param", core.CCall("o.ns.leaf", "expr", core.EVar("m"), core.CPV("a", core.EInt(99)))},
		{"data=expr-literal", core.CCall("o.ns.leaf", "expr", core.EMap("a", core.EInt(5), "b", core.EStr("lit")))},
		{"data=expr-nested", core.CCall("o.ns.leaf", "expr", core.EVar("m", core.AKey("inner", false)))},
		{"two-levels,data=all", core.CCall("t.mid", "all", nil)},
		{"two-levels,param", core.CCall("t.mid", "none", nil, core.CPV("b", core.EStr("p2")))},
		{"same-namespace", spellFq(core.CCall("t.mid", "all", nil))},
	}
	for _, c := range calls {
		for _, withIJ := range []bool{false, true} {
			for _, letShadow := range []bool{false, true} {
				body := cmds(pr(core.EBin("elvis", vA, core.EStr("~"))), pr(core.EBin("elvis", vB, core.EStr("~"))), pr(core.EBin("elvis", core.EVar("m", core.AKey("a", true)), core.EStr("~"))), txt(":"))
				if letShadow {
					// caller locals must not travel with data="all"
					body = append(body, core.CLetV("a", core.EInt(1000)), pr(vA), core.CForeach("foreach", "b", core.EList(core.EStr("loop")), cmds(pr(vB), cloneAny(c.call).(map[string]interface{})), noElse))
				}
				body = append(body, cloneAny(c.call).(map[string]interface{}))
				p := &core.Program{Bundle: map[string]*core.Tmpl{
					"t.m":       {Params: []core.Param{{Name: "a", Opt: true}, {Name: "b", Opt: true}, {Name: "m", Opt: true}}, Body: body, TA: "true"},
					"t.mid":     mid,
					"o.ns.leaf": callee,
				}, Entry: "t.m", Data: dm("a", core.VInt(1), "b", core.VStr("<b>"), "m", vm("a", core.VInt(7), "b", core.VStr("mb"), "inner", vm("a", core.VInt(8)))),
					IJ: core.V{"t": "none"}, Glob: map[string]core.V{}, Plan: noPlan(), Aliases: map[string]bool{"o.ns": true}}
				if withIJ {
					p.IJ = vm("k", core.VStr("IJ<"))
				}
				f.add(F, fmt.Sprintf("call:%s,ij=%v,caller-locals=%v", strings.Replace(c.feat, ",", "+", -1), withIJ, letShadow), p)
			}
		}
	}
	// css, globals, literals, raw text
	for _, b := range []core.V{core.VStr(""), core.VStr("base"), core.VStr("<b>"), core.VInt(0), core.VNull(), core.VBool(false)} {
		for _, ta := range []string{"true", "false"} {
			f.add("misc", "css,base-values", one(cmds(core.CCss(vB, "suf"), txt("|"), core.CCss(core.EBin("elvis", vB, core.EStr("")), "s2")), dm("b", b), ta))
		}
	}
	f.add("misc", "css", one(cmds(core.CCss(nil, "cls"), txt(" "), core.CCss(vB, "suf"), txt(" "), core.CCss(core.EBin("add", vB, core.EStr("x")), "s2"), txt(" "), core.CCss(vA, "n")), dm("a", core.VInt(4), "b", core.VStr("base")), "true"))
	g := one(cmds(pr(core.EGlobal("G_INT")), txt("|"), pr(core.EGlobal("G_STR")), txt("|"), pr(core.EGlobal("app.FLAG")), txt("|"), pr(core.EGlobal("G_F")), txt("|"), pr(core.EBin("add", core.EGlobal("G_INT"), core.EGlobal("G_F"))),
		core.CIf(cmds(core.CBr(core.EGlobal("app.FLAG"), cmds(txt("on")))), core.Opt(true, cmds(txt("off")))), pr(core.EGlobal("G_NULL")), pr(core.EGlobal("G_NEG"))), nil, "true")
	for _, flag := range []bool{true, false} {
		gg := CloneProgram(g)
		gg.Glob = map[string]core.V{"G_INT": core.VInt(42), "G_STR": core.VStr("<g> 'q' \"d\" é \\ \n"), "app.FLAG": core.VBool(flag), "G_F": core.VFloat(5, 1), "G_NULL": core.VNull(), "G_NEG": core.VInt(-3)}
		f.add("misc", "globals", gg)
	}
	lits := []core.E{core.EStr("a'b"), core.EStr("q\"t"), core.EStr("back\\slash"), core.EStr("nl\nx"), core.EStr("tab\tx"), core.EStr("é日本"), core.EStr("</script>"), core.EStr("{}"), core.EStr("//c"), core.EStr("<!--"),
		core.EInt(0), core.EInt(-5), core.EInt(1073741000), core.EFloat(1, 1), core.EFloat(-3, 2), core.EFloat(2097153, 1), core.EFloat(1, 10), core.EBool(true), core.ENull(),
		core.EBin("mul", core.EFloat(3000001, 1), i1), core.EBin("div", i1, core.EInt(1024)), core.EBin("div", core.EInt(1048576), core.EFloat(1, 1))}
	for _, e := range lits {
		f.expr("misc", "literal", e, nil)
		f.add("misc", "literal,escaped", one(cmds(pr(e)), nil, "true"))
		f.add("misc", "literal,in-list", one(cmds(core.CForeach("foreach", "v", core.EList(e, e), cmds(pr(core.EVar("v")), txt(",")), noElse)), nil, "false"))
		f.add("misc", "literal,in-map", one(cmds(core.CLetV("q", core.EMap("k", e)), pr(core.EVar("q", core.AKey("k", false)))), nil, "false"))
	}
	for _, s := range []string{"plain", "<b>&amp;</b>", "'single' \"double\"", "{}", "a\\b", "tab\there", "line\nbreak", "é日本", "</script><!--", "\\u0041"} {
		f.add("misc", "raw-text", one(cmds(txt(s)), nil, "true"))
	}
	// called without any data: templates whose params are all optional (or absent)
	for _, body := range [][]core.Cmd{
		cmds(txt("none")),
		cmds(pr(core.EBin("elvis", vA, core.EStr("~"))), core.CIf(cmds(core.CBr(vB, cmds(txt("B")))), core.Opt(true, cmds(txt("-"))))),
		cmds(pr(core.EFn("isNonnull", vA)), core.CCall("t.c", "all", nil)),
		cmds(core.CCall("t.c", "none", nil, core.CPV("p", core.EBin("elvis", core.EVar("a", core.AKey("k", true)), core.EStr("dflt"))))),
	} {
		c := f.add("misc", "called-without-data", &core.Program{Bundle: map[string]*core.Tmpl{
			"t.m": {Params: optParams(body, "a", "b"), Body: body, TA: "true"},
			"t.c": {Params: []core.Param{{Name: "p", Opt: true}}, Body: cmds(txt("<"), pr(core.EBin("elvis", core.EVar("p"), core.EStr("nop"))), txt(">")), TA: "true"},
		}, Entry: "t.m", Data: dm(), IJ: core.V{"t": "none"}, Glob: map[string]core.V{}, Plan: noPlan(), Aliases: map[string]bool{}})
		c.NoData = true
	}
	f.add("misc", "log-debugger", one(cmds(txt("a"), core.CLog(cmds(txt("logged "), pr(vA))), core.CDebugger(), txt("b")), dm("a", core.VInt(1)), "true"))
	// float data values
	for _, v := range []core.V{core.VFloat(1, 1), core.VFloat(2097153, 1), core.VFloat(1, 10), core.VFloat(-5, 2), core.VFloat(6, 1), core.VFloat(3000001, 1)} {
		f.expr("misc", "float-format", vA, dm("a", v))
		f.expr("misc", "float-format,times-one", core.EBin("mul", vA, i1), dm("a", v))
		f.expr("misc", "float-format,concat", core.EBin("add", core.EStr("f="), vA), dm("a", v))
	}
}

// ---- scoping -----------------------------------------------------------------------

func (f *fam) scoping() {
	F := "scope"
	// a local binder inside a block, then a use of the same name after the block
	inner := func() []core.Cmd { return cmds(core.CLetV("x", core.EStr("LOCAL")), txt("in:"), pr(vX), txt(";")) }
	type blk struct {
		name  string
		class string
		make  func(taken bool) core.Cmd
	}
	blocks := []blk{
		{"if", "if", func(t bool) core.Cmd { return core.CIf(cmds(core.CBr(core.EBool(t), inner())), noElse) }},
		{"elseif", "if", func(t bool) core.Cmd {
			return core.CIf(cmds(core.CBr(core.EBool(false), cmds(txt("no"))), core.CBr(core.EBool(t), inner())), noElse)
		}},
		{"else", "if", func(t bool) core.Cmd {
			return core.CIf(cmds(core.CBr(core.EBool(!t), cmds(txt("no")))), core.Opt(true, inner()))
		}},
		{"case", "switch", func(t bool) core.Cmd {
			n := 1
			if !t {
				n = 2
			}
			return core.CSwitch(core.EInt(n), cmds(core.CCase([]core.E{i1}, inner())), core.Opt(true, cmds(txt("d"))))
		}},
		{"default", "switch", func(t bool) core.Cmd {
			n := 2
			if !t {
				n = 1
			}
			return core.CSwitch(core.EInt(n), cmds(core.CCase([]core.E{i1}, cmds(txt("c")))), core.Opt(true, inner()))
		}},
		{"foreach-body", "loop", func(t bool) core.Cmd {
			l := core.EList(i1)
			if !t {
				l = core.EList()
			}
			return core.CForeach("foreach", "v", l, inner(), noElse)
		}},
		{"ifempty", "loop", func(t bool) core.Cmd {
			l := core.EList()
			if !t {
				l = core.EList(i1)
			}
			return core.CForeach("foreach", "v", l, cmds(txt("it")), core.Opt(true, inner()))
		}},
		{"let-content", "content", func(t bool) core.Cmd { return core.CLetC("w", inner()) }},
		{"param-content", "content", func(t bool) core.Cmd { return core.CCall("t.c", "none", nil, core.CPC("p", inner())) }},
		{"log", "content", func(t bool) core.Cmd { return core.CLog(inner()) }},
	}
	outers := []string{"param", "let", "loopvar"}
	for _, b := range blocks {
		for _, taken := range []bool{false, true} {
			if !taken && (b.name == "let-content" || b.name == "param-content" || b.name == "log") {
				continue
			}
			for _, o := range outers {
				body := cmds(b.make(taken), txt("after:"), pr(vX))
				if b.name == "let-content" {
					body = append(body, pr(core.EVar("w"), core.CDir("noAutoescape")))
				}
				var top []core.Cmd
				switch o {
				case "param":
					top = append(cmds(pr(vX), txt("|")), body...)
				case "let":
					top = cmds(core.CIf(cmds(core.CBr(core.EBool(true), append(cmds(core.CLetV("x", core.EStr("OUTERLET")), pr(vX), txt("|")), body...))), noElse))
				case "loopvar":
					top = cmds(core.CForeach("foreach", "x", core.EList(core.EStr("LOOPVAR")), append(cmds(pr(vX), txt("|")), body...), noElse))
				}
				tk := "untaken"
				if taken {
					tk = "taken"
				}
				params := []core.Param{}
				data := dm()
				if o == "param" {
					params = append(params, core.Param{Name: "x", Opt: true})
					data = dm("x", core.VStr("PARAM"))
				}
				p := &core.Program{Bundle: map[string]*core.Tmpl{
					"t.m": {Params: params, Body: top, TA: "false"},
					"t.c": {Params: []core.Param{{Name: "p", Opt: true}}, Body: cmds(pr(core.EVar("p"))), TA: "false"},
				}, Entry: "t.m", Data: data, IJ: core.V{"t": "none"}, Glob: map[string]core.V{}, Plan: noPlan(), Aliases: map[string]bool{}}
				verb := "shadows"
				if taken {
					verb = "leaks-over"
				}
				f.add(F, fmt.Sprintf("let-in-%s-%s-%s-%s", tk, b.class, verb, o), p).Note = "block=" + b.name
			}
		}
	}
	// second iteration sees the value of the first one's let
	f.add(F, "let-in-if-in-loop-iteration-carries-over", one(cmds(core.CForeach("foreach", "v", core.EList(i1, i2, core.EInt(3)),
		cmds(core.CIf(cmds(core.CBr(core.EFn("isFirst", core.EVar("v")), cmds(core.CLetV("x", core.EStr("FIRST")), pr(vX)))), noElse), txt("["), pr(vX), txt("]")), noElse)), dm("x", core.VStr("PARAM")), "false"))
	// {ifempty} is outside the loop: the loop variable's name means the outer binding there
	f.add(F, "ifempty-uses-outer-binding-of-loop-var-name", one(cmds(core.CForeach("foreach", "x", core.EList(), cmds(pr(vX)), core.Opt(true, cmds(txt("empty:"), pr(vX))))), dm("x", core.VStr("PARAM")), "false"))
	f.add(F, "ifempty-uses-helper-of-outer-loop-of-same-name", one(cmds(core.CForeach("foreach", "v", core.EList(core.EStr("a"), core.EStr("b")),
		cmds(core.CForeach("foreach", "v", core.EList(), cmds(pr(core.EVar("v"))), core.Opt(true, cmds(pr(core.EVar("v")), pr(core.EFn("index", core.EVar("v"))), txt(";"))))), noElse)), nil, "false"))
	// a let that reads the name it rebinds
	f.add(F, "let-value-reads-param-of-same-name", one(cmds(core.CIf(cmds(core.CBr(core.EBool(true), cmds(core.CLetV("x", core.EBin("add", vX, core.EStr("+"))), pr(vX)))), noElse)), dm("x", core.VStr("PARAM")), "false"))
	f.add(F, "let-value-reads-outer-let-of-same-name", one(cmds(core.CLetV("y", core.EInt(1)), core.CIf(cmds(core.CBr(core.EBool(true), cmds(core.CLetV("y", core.EBin("add", core.EVar("y"), i1)), pr(core.EVar("y"))))), noElse), pr(core.EVar("y"))), nil, "false"))
	f.add(F, "let-value-rebinds-in-same-block", one(cmds(core.CLetV("y", core.EInt(1)), pr(core.EVar("y")), core.CLetV("y", core.EBin("add", core.EVar("y"), i1)), pr(core.EVar("y"))), nil, "false"))
	f.add(F, "let-content-reads-param-of-same-name", one(cmds(core.CIf(cmds(core.CBr(core.EBool(true), cmds(core.CLetC("x", cmds(txt("<"), pr(vX), txt(">"))), pr(vX)))), noElse)), dm("x", core.VStr("PARAM")), "false"))
	f.add(F, "loop-var-shadows-param-in-list-expr", one(cmds(core.CForeach("foreach", "x", core.EList(vX, core.EStr("two")), cmds(pr(vX), txt(";")), noElse), pr(vX)), dm("x", core.VStr("PARAM")), "false"))
	// a variable that is called like the generator's own buffer
	f.add(F, "param-named-param-after-content-param", &core.Program{Bundle: map[string]*core.Tmpl{
		"t.m": {Params: []core.Param{{Name: "param", Opt: true}}, Body: cmds(core.CCall("t.c", "none", nil, core.CPC("p", cmds(txt("content")))), txt("|"), pr(core.EVar("param"))), TA: "false"},
		"t.c": {Params: []core.Param{{Name: "p", Opt: true}}, Body: cmds(pr(core.EVar("p"))), TA: "false"},
	}, Entry: "t.m", Data: dm("param", core.VStr("PARAM")), IJ: core.V{"t": "none"}, Glob: map[string]core.V{}, Plan: noPlan(), Aliases: map[string]bool{}})
	f.add(F, "param-named-output", one(cmds(txt("a"), pr(core.EVar("output")), core.CLetV("output2", core.EStr("L")), pr(core.EVar("output2"))), dm("output", core.VStr("PARAM")), "false"))
	f.add(F, "let-named-output", one(cmds(txt("a"), core.CIf(cmds(core.CBr(core.EBool(true), cmds(core.CLetV("output", core.EStr("L")), pr(core.EVar("output"))))), noElse), txt("b")), nil, "false"))
	f.add(F, "param-named-opt_data", one(cmds(pr(core.EVar("opt_data"))), dm("opt_data", core.VStr("PARAM")), "false"))
}

// Families runs all systematic families.
func (h *Harness) Families() []*report {
	f := &fam{}
	f.functions()
	f.operators()
	f.refs()
	f.directives()
	f.messages()
	f.loops()
	f.calls()
	f.scoping()
	f.floats()
	f.namespaces()
	f.unicodeText()
	f.emptyBodies()
	f.edgeBundleCases()
	h.mu.Lock()
	h.ctx.Extra["family_cases"] = len(f.cases)
	h.mu.Unlock()
	batch := 1600
	var bs batches
	for i := 0; i < len(f.cases); i += batch {
		j := i + batch
		if j > len(f.cases) {
			j = len(f.cases)
		}
		bs.start(h, f.cases[i:j], "families")
	}
	reps := bs.wait()
	// samples for the evidence file: the first judged-OK family cases
	n := 0
	seen := map[string]bool{}
	for _, c := range f.cases {
		if c.Verdict == "OK" && n < 8 && len(c.Src()) < 900 && !seen[c.Family] && (c.Family != "messages" || c.Msgs == "reverse") {
			seen[c.Family] = true
			n++
			h.ctx.Sample(map[string]interface{}{"family": c.Family, "feature": c.Feature, "files": c.Files, "data": c.Prog.Data, "catalogue": c.Msgs, "go": c.Go.Out, "js": c.JSObs.Out})
		}
	}
	return reps
}
