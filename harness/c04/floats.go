package c04

import (
	"fmt"
	"math"
	"sort"
	"strconv"
	"strings"

	"verif/core"
)

// Float-magnitude family: floats of any magnitude from data and from
// arithmetic. The reference semantics (dyadic floats of moderate size) has no
// text for most of them, so these lines are "direct": TLC decides from the
// value class whether Go and JS must agree (SoyCommon.FloatClassInSubset) and
// compares the two observations.

func placeholderProg() *core.Program {
	return &core.Program{Bundle: map[string]*core.Tmpl{"t.m": {Params: []core.Param{}, Body: []core.Cmd{}, TA: "false"}},
		Entry: "t.m", Data: map[string]core.V{}, IJ: core.V{"t": "none"}, Glob: map[string]core.V{}, Plan: noPlan(), Aliases: map[string]bool{}}
}

func magBucket(x float64) string {
	a := math.Abs(x)
	switch {
	case a == 0:
		return "zero"
	case a < 1e-6:
		return "below-1e-6"
	case a >= 1e21:
		return "from-1e21"
	}
	return "positional"
}

// floatCase builds a one-print template from Soy source text.
func (f *fam) floatCase(origin, use, expr string, fd map[string]float64, value float64, esc string) {
	f.floatBody(origin, use, "{"+expr+"}", fd, value, esc)
}

// floatBody is floatCase with a whole template body.
func (f *fam) floatBody(origin, use, body string, fd map[string]float64, value float64, esc string) {
	var names []string
	for k := range fd {
		names = append(names, k)
	}
	sort.Strings(names)
	var b strings.Builder
	b.WriteString("{namespace t}\n/**\n")
	for _, n := range names {
		b.WriteString(" * @param " + n + "\n")
	}
	b.WriteString(" */\n{template .m autoescape=\"" + esc + "\"}\n" + body + "\n{/template}\n")
	c := f.add("floats", fmt.Sprintf("float-format-%s,origin=%s,use=%s", magBucket(value), origin, use), placeholderProg())
	c.FixedFiles = []core.File{{Name: "t.soy", Text: b.String()}}
	c.FloatData = fd
	if c.FloatData == nil {
		c.FloatData = map[string]float64{}
	}
	c.Direct = &FloatClass{Kind: "float", Finite: !math.IsNaN(value) && !math.IsInf(value, 0), NegZero: value == 0 && math.Signbit(value), Use: use}
	c.Note = fmt.Sprintf("value %s", strconv.FormatFloat(value, 'g', -1, 64))
}

func (f *fam) floats() {
	var vals []float64
	for k := -12; k <= 22; k++ {
		p := math.Pow(10, float64(k))
		vals = append(vals, p, 2.5*p, 1.2345678*p, 9.999999*p)
	}
	// the points where the notation switches, and the edge of exact integers
	vals = append(vals, 1e-7, 9.99e-7, 9.999999999e-7, 1e-6, 1.0000001e-6, 9.99e20, 999999999999999900000, 1e21, 1.5e21, 123456789012345680000,
		9007199254740991, 9007199254740992, 9007199254740994, 4503599627370496.5, 0.1, 0.3, 1.0/3, 2.0/3, 100, 1048576.5, 5e-324, 1.7976931348623157e308, 123456.789, 0.000123)
	for _, v := range vals {
		for _, x := range []float64{v, -v} {
			f.floatCase("data", "print", "$a", map[string]float64{"a": x}, x, "false")
			f.floatCase("data", "concat", "'v=' + $a", map[string]float64{"a": x}, x, "false")
		}
		f.floatCase("data", "print", "$a", map[string]float64{"a": v}, v, "true")
	}
	// arithmetic: the same magnitudes reached by * and / of two data values,
	// by a data value and an integer literal, and by literals alone
	for k := -12; k <= 22; k += 1 {
		p := math.Pow(10, float64(math.Abs(float64(k))))
		for _, a := range []float64{0.25, 2.5, -7.5, 1.0 / 3} {
			if k < 0 {
				f.floatCase("arith", "print", "$a / $b", map[string]float64{"a": a, "b": p}, a/p, "false")
				f.floatCase("arith", "concat", "$a / $b + ''", map[string]float64{"a": a, "b": p}, a/p, "false")
			} else {
				f.floatCase("arith", "print", "$a * $b", map[string]float64{"a": a, "b": p}, a*p, "false")
				f.floatCase("arith", "concat", "'' + $a * $b", map[string]float64{"a": a, "b": p}, a*p, "false")
			}
		}
	}
	for _, n := range []int{10, 1000, 1000000, 10000000, 1000000000} {
		f.floatCase("arith-literal", "print", fmt.Sprintf("$a / %d", n), map[string]float64{"a": 0.25}, 0.25/float64(n), "false")
		f.floatCase("arith-literal", "print", fmt.Sprintf("0.25 / %d", n), nil, 0.25/float64(n), "false")
		f.floatCase("arith-literal", "print", fmt.Sprintf("1 / %d", n), nil, 1/float64(n), "false")
		f.floatCase("arith-literal", "print", fmt.Sprintf("$a * %d * %d * %d", n, n, n), map[string]float64{"a": 2.5}, 2.5*float64(n)*float64(n)*float64(n), "false")
		f.floatCase("arith-literal", "print", fmt.Sprintf("2.5 * %d.0 * %d.0 * %d.0", n, n, n), nil, 2.5*float64(n)*float64(n)*float64(n), "false")
		f.floatCase("arith-literal", "concat", fmt.Sprintf("'x' + (0.25 / %d) + 'y'", n), nil, 0.25/float64(n), "false")
	}
	f.floatCase("arith", "print", "$a + $b", map[string]float64{"a": 0.1, "b": 0.2}, 0.1+0.2, "false")
	f.floatCase("arith", "print", "$a - $b", map[string]float64{"a": 1e21, "b": 1}, 1e21-1, "false")
	f.floatCase("arith", "print", "-$a", map[string]float64{"a": 2.5e-7}, -2.5e-7, "false")
	f.floatCase("arith", "print", "max($a, $b)", map[string]float64{"a": 2.5e-7, "b": 1e-9}, 2.5e-7, "false")
	f.specialFloats()
	// outside the subset by class: non-finite
	f.floatCase("arith", "print", "$a / $b", map[string]float64{"a": 1, "b": 0}, math.Inf(1), "false")
	f.floatCase("arith", "print", "$a * $b", map[string]float64{"a": 1e200, "b": 1e200}, math.Inf(1), "false")
}

// specialFloats: negative zero (as data and as the result of every operator
// and function that can produce it), subnormals, the edges of the exactly
// representable integers; printed, concatenated, compared, as truthiness, as
// a map key, through round/floor/ceiling.
func (f *fam) specialFloats() {
	nz := math.Copysign(0, -1)
	type src struct {
		origin, expr string
		fd           map[string]float64
		v            float64
	}
	srcs := []src{
		{"data", "$a", map[string]float64{"a": nz}, nz},
		{"data", "$a", map[string]float64{"a": 0}, 0},
		{"arith", "-$a", map[string]float64{"a": 0}, nz},
		{"arith", "-$a", map[string]float64{"a": nz}, 0},
		{"arith", "$a * -1", map[string]float64{"a": 0}, nz},
		{"arith", "$a * $b", map[string]float64{"a": 0, "b": -2.5}, nz},
		{"arith", "$a * $b", map[string]float64{"a": -1e-300, "b": 1e-300}, nz}, // underflow
		{"arith", "$a / $b", map[string]float64{"a": 0, "b": -4}, nz},
		{"arith", "$a / $b", map[string]float64{"a": -1e-300, "b": 1e300}, nz},
		{"arith", "$a + $b", map[string]float64{"a": nz, "b": nz}, nz},
		{"arith", "$a + $b", map[string]float64{"a": nz, "b": 0}, 0},
		{"arith", "$a - $b", map[string]float64{"a": nz, "b": 0}, nz},
		{"arith", "$a - $a", map[string]float64{"a": 2.5}, 0},
		{"arith", "min($a, $b)", map[string]float64{"a": 0, "b": nz}, nz},
		{"arith", "max($a, $b)", map[string]float64{"a": nz, "b": nz}, nz},
		{"arith", "$c ? $a : $b", map[string]float64{"a": nz, "b": 1, "c": 1}, nz},
		{"arith", "$a ?: 5", map[string]float64{"a": nz}, nz},
		{"arith-literal", "0.0 * -1", nil, nz},
		{"arith-literal", "-0.0", nil, nz},
		{"arith-literal", "-(0.0)", nil, nz},
		{"arith-literal", "0 * -1.5", nil, nz},
		{"arith-literal", "-1 / 10000000 / 1000000000 * 0.0", nil, nz},
		{"arith-literal", "0.0 / -3", nil, nz},
		{"data", "$a", map[string]float64{"a": 5e-324}, 5e-324},
		{"data", "$a", map[string]float64{"a": -2.2250738585072014e-308}, -2.2250738585072014e-308},
		{"arith", "$a / 2", map[string]float64{"a": 5e-324}, 0},
		{"arith", "-$a / 2", map[string]float64{"a": 5e-324}, nz},
		{"arith", "$a + 1", map[string]float64{"a": 9007199254740992}, 9007199254740992},
		{"arith", "$a - 1", map[string]float64{"a": -9007199254740992}, -9007199254740992},
		{"arith", "$a + 2", map[string]float64{"a": 9007199254740992}, 9007199254740994},
		{"arith", "$a * 2", map[string]float64{"a": 4503599627370496.5}, 9007199254740992},
	}
	for _, s := range srcs {
		e := "(" + s.expr + ")"
		f.floatCase(s.origin, "print", s.expr, s.fd, s.v, "false")
		f.floatCase(s.origin, "print", s.expr, s.fd, s.v, "true")
		f.floatCase(s.origin, "concat", "'v=' + "+e, s.fd, s.v, "false")
		f.floatCase(s.origin, "concat", e+" + ''", s.fd, s.v, "false")
		f.floatBody(s.origin, "concat", "{css "+s.expr+", z}", s.fd, s.v, "false")
		f.floatBody(s.origin, "print", "{let $q: "+s.expr+" /}{$q}|{$q|escapeHtml}|{$q|truncate:5}", s.fd, s.v, "true")
		for _, cmp := range []string{"== 0", "!= 0", "< 0", "<= 0", "> 0", ">= 0", "== 0.0", "== -0.0"} {
			f.floatCase(s.origin, "compare", e+" "+cmp, s.fd, s.v, "false")
		}
		f.floatCase(s.origin, "truthy", e+" ? 'T' : 'F'", s.fd, s.v, "false")
		f.floatCase(s.origin, "truthy", "not "+e, s.fd, s.v, "false")
		f.floatBody(s.origin, "truthy", "{if "+s.expr+"}T{else}F{/if}", s.fd, s.v, "false")
		f.floatCase(s.origin, "truthy", e+" and true ? 'T' : 'F'", s.fd, s.v, "false")
		f.floatBody(s.origin, "truthy", "{switch "+s.expr+"}{case 0}zero{case 1}one{default}other{/switch}", s.fd, s.v, "false")
		f.floatBody(s.origin, "mapkey", "{let $m: ['0': 'zero', '-0': 'negzero', '1': 'one'] /}{$m["+s.expr+"] ?: 'none'}", s.fd, s.v, "false")
		for _, fn := range []string{"round", "floor", "ceiling"} {
			f.floatCase(s.origin, "fn-int", fn+e, s.fd, s.v, "false")
		}
	}
	// functions that round to zero from below: an integer 0 comes back
	for _, x := range []float64{-0.4, -0.5, -0.25, -1e-9, -0.9999, 0.4} {
		for _, fn := range []string{"round", "ceiling", "floor"} {
			if fn == "round" && x == -0.5 {
				continue // negative half: documented difference
			}
			fd := map[string]float64{"a": x}
			v := map[string]func(float64) float64{"round": math.Round, "ceiling": math.Ceil, "floor": math.Floor}[fn](x)
			f.floatCase("fn", "fn-int", fn+"($a)", fd, v, "false")
			f.floatCase("fn", "concat", "'r=' + "+fn+"($a)", fd, v, "false")
			f.floatCase("fn", "compare", fn+"($a) == 0", fd, v, "false")
			f.floatCase("fn", "fn-int", "-"+fn+"($a)", fd, -v, "false")
			f.floatCase("fn", "print", fn+"($a) * 1.5", fd, v*1.5, "false")
		}
		f.floatCase("fn", "print", "round($a, 1)", map[string]float64{"a": x / 100}, 0, "false")
	}
}

// ---- namespaces -----------------------------------------------------------------

// nsShapes are dotted names in which a later segment equals or is contained
// in an earlier one (or the other way round), and a single-segment name.
var nsShapes = []string{"a.b.a", "ab.a", "a.ab.b", "x.xx.x", "solo", "acme.widgets.widget", "app.views.app", "n.two.n", "aa.a.aa", "p.q.p.q", "lib.li", "one.two.three"}

// RenameNamespace moves every template of namespace old to namespace new.
func RenameNamespace(p *core.Program, old, new string) {
	ren := func(fq string) string {
		if core.Namespace(fq) == old {
			return new + "." + core.Short(fq)
		}
		return fq
	}
	nb := map[string]*core.Tmpl{}
	for name, t := range p.Bundle {
		nb[ren(name)] = t
	}
	p.Bundle = nb
	p.Entry = ren(p.Entry)
	if p.Aliases[old] {
		delete(p.Aliases, old)
		p.Aliases[new] = true
	}
	dropAmbiguousAliases(p)
	var block func(cmds []core.Cmd) []core.Cmd
	block = func(cmds []core.Cmd) []core.Cmd {
		for _, c := range cmds {
			if c["k"] == "call" {
				c["tmpl"] = ren(c["tmpl"].(string))
			}
			mapBodies(c, func(kind string, b []core.Cmd) []core.Cmd { return block(b) })
		}
		return cmds
	}
	for _, t := range p.Bundle {
		t.Body = block(t.Body)
	}
}

// dropAmbiguousAliases removes {alias a.b.c} when some namespace of the bundle
// starts with the segment c: Soy then reads a fully qualified c.x.t as
// a.b.c.x.t (the alias wins), which is the language's rule, not a defect.
func dropAmbiguousAliases(p *core.Program) {
	first := map[string]bool{}
	for name := range p.Bundle {
		ns := core.Namespace(name)
		first[strings.SplitN(ns, ".", 2)[0]] = true
	}
	for a, on := range p.Aliases {
		_ = on // core.UnparseProgram declares every key of Aliases, whatever its value
		if first[a[strings.LastIndex(a, ".")+1:]] {
			delete(p.Aliases, a)
		}
	}
}

func (f *fam) namespaces() {
	for i, ns := range nsShapes {
		other := nsShapes[(i+1)%len(nsShapes)]
		for _, sameFile := range []bool{true, false} {
			calleeNs := ns
			if !sameFile {
				calleeNs = other
			}
			for _, spell := range []string{"", "fq", "alias"} {
				call := core.CCall(calleeNs+".leaf", "all", nil, core.CPV("b", core.EStr("p")))
				if spell != "" {
					call["spell"] = spell
				}
				p := &core.Program{Bundle: map[string]*core.Tmpl{
					ns + ".main":       {Params: []core.Param{{Name: "a"}}, Body: cmds(txt("["), pr(vA), core.CCall(ns+".mid", "all", nil), call, txt("]")), TA: "true"},
					ns + ".mid":        {Params: []core.Param{{Name: "a"}}, Body: cmds(txt("<"), pr(vA), txt(">")), TA: "true"},
					calleeNs + ".leaf": {Params: []core.Param{{Name: "a", Opt: true}, {Name: "b", Opt: true}}, Body: cmds(txt("("), pr(core.EBin("elvis", vA, core.EStr("~"))), pr(core.EBin("elvis", vB, core.EStr("~"))), txt(")")), TA: "true"},
				}, Entry: ns + ".main", Data: dm("a", core.VInt(7)), IJ: core.V{"t": "none"}, Glob: map[string]core.V{}, Plan: noPlan(),
					Aliases: map[string]bool{}}
				if spell == "alias" && strings.Contains(calleeNs, ".") && calleeNs != ns {
					p.Aliases[calleeNs] = true
					dropAmbiguousAliases(p)
				}
				f.add("namespaces", fmt.Sprintf("namespace-shape,ns=%s,callee=%s,spell=%s", ns, calleeNs, orNone(spell)), p)
			}
		}
	}
}
