package c04

import (
	"fmt"
	"math/rand"
	"strings"

	"verif/core"
)

// This file holds semantics-preserving program rewrites. They are used for
// two things only: (1) to decorate random programs with $ij / globals, and
// (2) to NAME a disagreement: a rewrite removes the trigger of one known class
// of generator defects (e.g. alpha-renaming of local variables removes every
// naming/scoping hazard); if the disagreement disappears under the rewrite and
// the Go output is unchanged, the disagreement belongs to that class.
// The verdict itself never depends on a rewrite.

// ---- deep copy --------------------------------------------------------------

func cloneAny(v interface{}) interface{} {
	switch x := v.(type) {
	case map[string]interface{}:
		m := make(map[string]interface{}, len(x))
		for k, e := range x {
			m[k] = cloneAny(e)
		}
		return m
	case []core.Cmd:
		r := make([]core.Cmd, len(x))
		for i := range x {
			r[i] = cloneAny(x[i]).(map[string]interface{})
		}
		return r
	case []interface{}:
		r := make([]interface{}, len(x))
		for i := range x {
			r[i] = cloneAny(x[i])
		}
		return r
	case map[string]core.V:
		m := make(map[string]core.V, len(x))
		for k, e := range x {
			m[k] = cloneAny(e).(map[string]interface{})
		}
		return m
	case [][]core.Cmd:
		r := make([][]core.Cmd, len(x))
		for i := range x {
			r[i] = cloneAny(x[i]).([]core.Cmd)
		}
		return r
	}
	return v
}

func cloneCmds(cs []core.Cmd) []core.Cmd { return cloneAny(cs).([]core.Cmd) }

// CloneProgram deep-copies the parts of a program that rewrites change.
func CloneProgram(p *core.Program) *core.Program {
	q := *p
	q.Bundle = map[string]*core.Tmpl{}
	for name, t := range p.Bundle {
		tt := *t
		tt.Params = append([]core.Param{}, t.Params...)
		tt.Body = cloneCmds(t.Body)
		q.Bundle[name] = &tt
	}
	return &q
}

// ---- generic traversal --------------------------------------------------------

// bodies calls f on every command sequence nested in c (f may return a
// replacement).
func mapBodies(c core.Cmd, f func(kind string, b []core.Cmd) []core.Cmd) {
	switch c["k"] {
	case "if":
		for _, br := range asCmds(c["brs"]) {
			br["body"] = f("if", asCmds(br["body"]))
		}
		els := c["els"].(core.Cmd)
		els["body"] = f("if", asCmds(els["body"]))
	case "switch":
		for _, cs := range asCmds(c["cases"]) {
			cs["body"] = f("case", asCmds(cs["body"]))
		}
		def := c["def"].(core.Cmd)
		def["body"] = f("case", asCmds(def["body"]))
	case "foreach":
		c["body"] = f("loop", asCmds(c["body"]))
		em := c["empty"].(core.Cmd)
		em["body"] = f("ifempty", asCmds(em["body"]))
	case "letc":
		c["body"] = f("letc", asCmds(c["body"]))
	case "log":
		c["body"] = f("log", asCmds(c["body"]))
	case "call":
		for _, pa := range asCmds(c["params"]) {
			if pa["k"] == "pc" {
				pa["body"] = f("pc", asCmds(pa["body"]))
			}
		}
	}
}

// exprsOf calls f on every expression slot of command c (not nested bodies).
func mapExprs(c core.Cmd, f func(e core.E) core.E) {
	set := func(m map[string]interface{}, k string) { m[k] = f(m[k].(core.E)) }
	switch c["k"] {
	case "print":
		set(c, "e")
		for _, d := range asCmds(c["dirs"]) {
			args := asEs(d["args"])
			for i := range args {
				args[i] = f(args[i])
			}
			d["args"] = args
		}
	case "if":
		for _, br := range asCmds(c["brs"]) {
			set(br, "c")
		}
	case "switch":
		set(c, "e")
		for _, cs := range asCmds(c["cases"]) {
			vals := asEs(cs["vals"])
			for i := range vals {
				vals[i] = f(vals[i])
			}
			cs["vals"] = vals
		}
	case "foreach", "letv", "pv", "plural":
		set(c, "e")
	case "css":
		if c["has"].(bool) {
			set(c, "e")
		}
	case "call":
		if c["data"] == "expr" {
			set(c, "de")
		}
	}
}

func asEs(v interface{}) []core.E {
	switch x := v.(type) {
	case []core.E:
		return x
	case []interface{}:
		r := make([]core.E, len(x))
		for i := range x {
			r[i] = x[i].(core.E)
		}
		return r
	case nil:
		return nil
	}
	panic(fmt.Sprintf("asEs: %T", v))
}

// renameExpr returns e with variable names replaced according to ren.
func renameExpr(e core.E, ren func(string) string) core.E {
	out := make(core.E, len(e))
	for k, v := range e {
		out[k] = v
	}
	switch e["k"] {
	case "var":
		if n := e["name"].(string); n != "ij" {
			out["name"] = ren(n)
		}
		acc := asEs(e["acc"])
		nacc := make([]core.E, len(acc))
		for i, a := range acc {
			na := make(core.E, len(a))
			for k, v := range a {
				na[k] = v
			}
			if a["k"] == "expr" {
				na["e"] = renameExpr(a["e"].(core.E), ren)
			}
			nacc[i] = na
		}
		out["acc"] = nacc
	case "list":
		items := asEs(e["items"])
		n := make([]core.E, len(items))
		for i := range items {
			n[i] = renameExpr(items[i], ren)
		}
		out["items"] = n
	case "map":
		items := asEs(e["items"])
		n := make([]core.E, len(items))
		for i, it := range items {
			n[i] = core.E{"key": it["key"], "val": renameExpr(it["val"].(core.E), ren)}
		}
		out["items"] = n
	case "fn":
		args := asEs(e["args"])
		n := make([]core.E, len(args))
		for i := range args {
			n[i] = renameExpr(args[i], ren)
		}
		out["args"] = n
	case "neg", "not":
		out["a"] = renameExpr(e["a"].(core.E), ren)
	case "tern":
		out["c"] = renameExpr(e["c"].(core.E), ren)
		out["a"] = renameExpr(e["a"].(core.E), ren)
		out["b"] = renameExpr(e["b"].(core.E), ren)
	default:
		if _, ok := core.BinOpSym[e["k"].(string)]; ok {
			out["a"] = renameExpr(e["a"].(core.E), ren)
			out["b"] = renameExpr(e["b"].(core.E), ren)
		}
	}
	return out
}

func mentions(v interface{}, name string) bool {
	found := false
	var walk func(interface{})
	walk = func(v interface{}) {
		if found {
			return
		}
		switch x := v.(type) {
		case map[string]interface{}:
			if x["k"] == "var" && x["name"] == name {
				found = true
				return
			}
			for _, c := range x {
				walk(c)
			}
		case []core.Cmd:
			for _, c := range x {
				walk(c)
			}
		case []interface{}:
			for _, c := range x {
				walk(c)
			}
		}
	}
	walk(v)
	return found
}

// ---- alpha renaming -----------------------------------------------------------

type frames []map[string]string

func (f frames) lookup(n string) string {
	for i := len(f) - 1; i >= 0; i-- {
		if v, ok := f[i][n]; ok {
			return v
		}
	}
	return n // template data (params) and unbound names keep their name
}

type renamer struct {
	n int
}

func (r *renamer) fresh(name string) string {
	r.n++
	return fmt.Sprintf("%s_%d", name, r.n)
}

// block renames the commands of one block (own frame), lexical block scoping
// exactly as SoyExec defines it.
func (r *renamer) block(cmds []core.Cmd, fs frames) []core.Cmd {
	fs = append(fs, map[string]string{})
	top := fs[len(fs)-1]
	ren := func(n string) string { return fs.lookup(n) }
	var out []core.Cmd
	for _, c := range cmds {
		switch c["k"] {
		case "letv":
			mapExprs(c, func(e core.E) core.E { return renameExpr(e, ren) })
			nn := r.fresh(c["name"].(string))
			top[c["name"].(string)] = nn
			c["name"] = nn
		case "letc":
			c["body"] = r.block(asCmds(c["body"]), fs)
			nn := r.fresh(c["name"].(string))
			top[c["name"].(string)] = nn
			c["name"] = nn
		case "foreach":
			mapExprs(c, func(e core.E) core.E { return renameExpr(e, ren) })
			v := c["var"].(string)
			nn := r.fresh(v)
			c["body"] = r.block(asCmds(c["body"]), append(fs, map[string]string{v: nn}))
			c["var"] = nn
			em := c["empty"].(core.Cmd)
			em["body"] = r.block(asCmds(em["body"]), fs)
		case "msg":
			c["body"] = r.inline(asCmds(c["body"]), fs)
		default:
			mapExprs(c, func(e core.E) core.E { return renameExpr(e, ren) })
			if c["k"] == "call" {
				for _, pa := range asCmds(c["params"]) {
					if pa["k"] == "pv" {
						mapExprs(pa, func(e core.E) core.E { return renameExpr(e, ren) })
					}
				}
			}
			mapBodies(c, func(kind string, b []core.Cmd) []core.Cmd { return r.block(b, fs) })
		}
		out = append(out, c)
	}
	if out == nil {
		out = []core.Cmd{}
	}
	return out
}

// inline renames commands that do not open a block of their own (msg bodies).
func (r *renamer) inline(cmds []core.Cmd, fs frames) []core.Cmd {
	ren := func(n string) string { return fs.lookup(n) }
	for _, c := range cmds {
		mapExprs(c, func(e core.E) core.E { return renameExpr(e, ren) })
		if c["k"] == "plural" {
			for _, cs := range asCmds(c["cases"]) {
				cs["body"] = r.inline(asCmds(cs["body"]), fs)
			}
			c["def"] = r.inline(asCmds(c["def"]), fs)
		}
	}
	return cmds
}

// AlphaRename gives every let and loop variable of every template a name of
// its own (params keep their names).
func AlphaRename(p *core.Program) *core.Program {
	q := CloneProgram(p)
	for _, t := range q.Bundle {
		r := &renamer{}
		t.Body = r.block(t.Body, nil)
		// a let that no reference resolves to (the original compiled only because
		// the checker counts uses by name) would now be rejected as unused
		for changed := true; changed; {
			t.Body, changed = dropUnusedLets(t.Body, t.Body)
		}
		// likewise a param whose only "uses" were uses of a local of the same name
		if !hasAllDataCall(t.Body) {
			kept := []core.Param{}
			for _, pa := range t.Params {
				if mentions(t.Body, pa.Name) {
					kept = append(kept, pa)
				}
			}
			t.Params = kept
		}
	}
	return q
}

func hasAllDataCall(v interface{}) bool {
	found := false
	var walk func(interface{})
	walk = func(v interface{}) {
		if found {
			return
		}
		switch x := v.(type) {
		case map[string]interface{}:
			if x["k"] == "call" && x["data"] == "all" {
				found = true
				return
			}
			for _, c := range x {
				walk(c)
			}
		case []core.Cmd:
			for _, c := range x {
				walk(c)
			}
		case []interface{}:
			for _, c := range x {
				walk(c)
			}
		}
	}
	walk(v)
	return found
}

func dropUnusedLets(cmds []core.Cmd, whole []core.Cmd) ([]core.Cmd, bool) {
	changed := false
	out := []core.Cmd{}
	for _, c := range cmds {
		if (c["k"] == "letv" || c["k"] == "letc") && !mentions(whole, c["name"].(string)) {
			changed = true
			continue
		}
		mapBodies(c, func(kind string, b []core.Cmd) []core.Cmd {
			nb, ch := dropUnusedLets(b, whole)
			changed = changed || ch
			return nb
		})
		out = append(out, c)
	}
	return out, changed
}

// ---- let that reads the name it binds ---------------------------------------------

func selfRefBlock(cmds []core.Cmd, n *int) []core.Cmd {
	out := []core.Cmd{}
	for _, c := range cmds {
		mapBodies(c, func(kind string, b []core.Cmd) []core.Cmd { return selfRefBlock(b, n) })
		switch c["k"] {
		case "letv":
			name := c["name"].(string)
			if mentions(c["e"], name) {
				*n++
				tmp := fmt.Sprintf("%s_t%d", name, *n)
				out = append(out, core.CLetV(tmp, c["e"].(core.E)), core.CLetV(name, core.EVar(tmp)))
				continue
			}
		case "letc":
			name := c["name"].(string)
			if mentions(c["body"], name) {
				*n++
				tmp := fmt.Sprintf("%s_t%d", name, *n)
				out = append(out, core.CLetC(tmp, asCmds(c["body"])), core.CLetV(name, core.EVar(tmp)))
				continue
			}
		}
		out = append(out, c)
	}
	return out
}

// SplitSelfRef rewrites {let $x: f($x) /} into {let $x_t: f($x) /}{let $x: $x_t /}
// (and likewise a content let whose body mentions $x).
func SplitSelfRef(p *core.Program) (*core.Program, bool) {
	q := CloneProgram(p)
	n := 0
	for _, t := range q.Bundle {
		t.Body = selfRefBlock(t.Body, &n)
	}
	return q, n > 0
}

// ---- foreach whose list reads the name of its own variable ----------------------------

func loopSelfRefBlock(cmds []core.Cmd, n *int) []core.Cmd {
	out := []core.Cmd{}
	for _, c := range cmds {
		mapBodies(c, func(kind string, b []core.Cmd) []core.Cmd { return loopSelfRefBlock(b, n) })
		if c["k"] == "foreach" && mentions(c["e"], c["var"].(string)) {
			*n++
			tmp := fmt.Sprintf("%s_l%d", c["var"].(string), *n)
			out = append(out, core.CLetV(tmp, c["e"].(core.E)))
			c["e"] = core.EVar(tmp)
		}
		out = append(out, c)
	}
	return out
}

// SplitLoopSelfRef rewrites {foreach $x in f($x)} to {let $x_l: f($x) /}{foreach $x in $x_l}.
func SplitLoopSelfRef(p *core.Program) (*core.Program, bool) {
	q := CloneProgram(p)
	n := 0
	for _, t := range q.Bundle {
		t.Body = loopSelfRefBlock(t.Body, &n)
	}
	return q, n > 0
}

// ---- {ifempty} translated inside the loop's naming scope ---------------------------------

func hasLoopHelper(v interface{}) bool {
	found := false
	var walk func(interface{})
	walk = func(v interface{}) {
		if found {
			return
		}
		switch x := v.(type) {
		case map[string]interface{}:
			if x["k"] == "fn" && (x["name"] == "index" || x["name"] == "isFirst" || x["name"] == "isLast") {
				found = true
				return
			}
			for _, c := range x {
				walk(c)
			}
		case []core.Cmd:
			for _, c := range x {
				walk(c)
			}
		case []interface{}:
			for _, c := range x {
				walk(c)
			}
		}
	}
	walk(v)
	return found
}

func ifemptyBlock(cmds []core.Cmd, n *int) []core.Cmd {
	out := []core.Cmd{}
	for _, c := range cmds {
		mapBodies(c, func(kind string, b []core.Cmd) []core.Cmd { return ifemptyBlock(b, n) })
		if c["k"] == "foreach" {
			em := c["empty"].(core.Cmd)
			e := c["e"].(core.E)
			isRange := e["k"] == "fn" && e["name"] == "range"
			if em["has"].(bool) && !isRange {
				*n++
				tmp := fmt.Sprintf("%s_e%d", c["var"].(string), *n)
				loop := core.CForeach(fmt.Sprint(c["kw"]), c["var"].(string), core.EVar(tmp), asCmds(c["body"]), core.Opt(false, nil))
				out = append(out, core.CLetV(tmp, e),
					core.CIf([]core.Cmd{core.CBr(core.EBin("gt", core.EFn("length", core.EVar(tmp)), core.EInt(0)), []core.Cmd{loop})}, core.Opt(true, asCmds(em["body"]))))
				continue
			}
		}
		out = append(out, c)
	}
	return out
}

// MoveIfEmptyOut rewrites {foreach $v in L}B{ifempty}E{/foreach} to
// {let $t: L /}{if length($t) > 0}{foreach $v in $t}B{/foreach}{else}E{/if}.
func MoveIfEmptyOut(p *core.Program) (*core.Program, bool) {
	q := CloneProgram(p)
	n := 0
	for _, t := range q.Bundle {
		t.Body = ifemptyBlock(t.Body, &n)
	}
	return q, n > 0
}

// ---- foreach over range() -----------------------------------------------------------

func rangeBlock(cmds []core.Cmd, n *int, withEmpty bool) []core.Cmd {
	for _, c := range cmds {
		mapBodies(c, func(kind string, b []core.Cmd) []core.Cmd { return rangeBlock(b, n, withEmpty) })
		if c["k"] != "foreach" {
			continue
		}
		e := c["e"].(core.E)
		if e["k"] != "fn" || e["name"] != "range" {
			continue
		}
		if c["empty"].(core.Cmd)["has"].(bool) != withEmpty {
			continue
		}
		args := asEs(e["args"])
		var nums []int
		ok := true
		for _, a := range args {
			if a["k"] != "int" {
				ok = false
				break
			}
			nums = append(nums, toInt(a["v"]))
		}
		if !ok || len(nums) == 0 || len(nums) > 3 {
			continue
		}
		lo, hi, st := 0, nums[0], 1
		if len(nums) >= 2 {
			lo, hi = nums[0], nums[1]
		}
		if len(nums) == 3 {
			st = nums[2]
		}
		if st <= 0 || hi-lo > 64 {
			continue
		}
		var items []core.E
		for i := lo; i < hi; i += st {
			items = append(items, core.EInt(i))
		}
		c["e"] = core.EList(items...)
		*n++
	}
	return cmds
}

// RangeToList replaces range(<int literals>) as a foreach list by the list it
// denotes; withEmpty selects the loops that have an {ifempty} part (true) or
// the others (false).
func RangeToList(withEmpty bool) func(p *core.Program) (*core.Program, bool) {
	return func(p *core.Program) (*core.Program, bool) {
		q := CloneProgram(p)
		n := 0
		for _, t := range q.Bundle {
			t.Body = rangeBlock(t.Body, &n, withEmpty)
		}
		return q, n > 0
	}
}

// ---- loop helpers on an outer loop variable ---------------------------------------------

type loopCtx struct {
	v    string
	lets []core.Cmd
}

func hoistBlock(cmds []core.Cmd, stack []*loopCtx, n *int) []core.Cmd {
	fix := func(e core.E) core.E {
		if len(stack) == 0 {
			return e
		}
		inner := stack[len(stack)-1].v
		return mapExprDeep(e, func(x core.E) core.E {
			if x["k"] != "fn" {
				return x
			}
			name := x["name"].(string)
			if name != "index" && name != "isFirst" && name != "isLast" {
				return x
			}
			args := asEs(x["args"])
			if len(args) != 1 || args[0]["k"] != "var" {
				return x
			}
			v := args[0]["name"].(string)
			if v == inner {
				return x
			}
			for i := len(stack) - 1; i >= 0; i-- {
				if stack[i].v == v {
					*n++
					h := fmt.Sprintf("%s_%s%d", v, name, *n)
					stack[i].lets = append(stack[i].lets, core.CLetV(h, x))
					return core.EVar(h)
				}
			}
			return x
		})
	}
	for _, c := range cmds {
		mapExprs(c, fix)
		if c["k"] == "call" {
			for _, pa := range asCmds(c["params"]) {
				if pa["k"] == "pv" {
					mapExprs(pa, fix)
				}
			}
		}
		if c["k"] == "msg" {
			hoistBlock(asCmds(c["body"]), stack, n)
		}
		if c["k"] == "foreach" {
			lc := &loopCtx{v: c["var"].(string)}
			body := hoistBlock(asCmds(c["body"]), append(stack, lc), n)
			c["body"] = append(lc.lets, body...)
			em := c["empty"].(core.Cmd)
			em["body"] = hoistBlock(asCmds(em["body"]), stack, n)
			continue
		}
		mapBodies(c, func(kind string, b []core.Cmd) []core.Cmd { return hoistBlock(b, stack, n) })
	}
	return cmds
}

// HoistOuterHelpers replaces index/isFirst/isLast applied to a loop variable
// that is not the innermost loop's by a {let} computed at the start of that
// outer loop's body.
func HoistOuterHelpers(p *core.Program) (*core.Program, bool) {
	q := CloneProgram(p)
	n := 0
	for _, t := range q.Bundle {
		t.Body = hoistBlock(t.Body, nil, &n)
	}
	return q, n > 0
}

// ---- expression rewrites ------------------------------------------------------------

// hasNullSafe reports whether the JavaScript the generator writes for e
// begins with a null-safe data reference that is not parenthesised: the
// reference itself, or a function whose translation starts with its first
// argument (length(X) -> X.length, strContains(X,y) -> X.indexOf(y) != -1,
// isNonnull(X) -> X != null, round(X,n) -> Math.round(X * ...)).
func hasNullSafe(e core.E) bool {
	switch e["k"] {
	case "var":
		for _, a := range asEs(e["acc"]) {
			if a["ns"] == true {
				return true
			}
		}
	case "fn":
		args := asEs(e["args"])
		switch e["name"] {
		case "length", "strContains", "isNonnull":
			return len(args) >= 1 && hasNullSafe(args[0])
		}
	}
	return false
}

// mapExprDeep applies f bottom-up to every node of e.
func mapExprDeep(e core.E, f func(core.E) core.E) core.E {
	var deep func(e core.E) core.E
	deep = func(e core.E) core.E {
		out := make(core.E, len(e))
		for k, v := range e {
			out[k] = v
		}
		sub := func(k string) { out[k] = deep(e[k].(core.E)) }
		switch e["k"] {
		case "var":
			acc := asEs(e["acc"])
			nacc := make([]core.E, len(acc))
			for i, a := range acc {
				na := make(core.E, len(a))
				for k, v := range a {
					na[k] = v
				}
				if a["k"] == "expr" {
					na["e"] = deep(a["e"].(core.E))
				}
				nacc[i] = na
			}
			out["acc"] = nacc
		case "list":
			items := asEs(e["items"])
			n := make([]core.E, len(items))
			for i := range items {
				n[i] = deep(items[i])
			}
			out["items"] = n
		case "map":
			items := asEs(e["items"])
			n := make([]core.E, len(items))
			for i, it := range items {
				n[i] = core.E{"key": it["key"], "val": deep(it["val"].(core.E))}
			}
			out["items"] = n
		case "fn":
			args := asEs(e["args"])
			n := make([]core.E, len(args))
			for i := range args {
				n[i] = deep(args[i])
			}
			out["args"] = n
		case "neg", "not":
			sub("a")
		case "tern":
			sub("c")
			sub("a")
			sub("b")
		default:
			if _, ok := core.BinOpSym[e["k"].(string)]; ok {
				sub("a")
				sub("b")
			}
		}
		return f(out)
	}
	return deep(e)
}

// rewriteExprs applies f bottom-up to every expression of the program.
func rewriteExprs(p *core.Program, f func(e core.E) core.E) *core.Program {
	q := CloneProgram(p)
	deep := func(e core.E) core.E { return mapExprDeep(e, f) }
	var block func(cmds []core.Cmd) []core.Cmd
	block = func(cmds []core.Cmd) []core.Cmd {
		for _, c := range cmds {
			mapExprs(c, deep)
			if c["k"] == "call" {
				for _, pa := range asCmds(c["params"]) {
					if pa["k"] == "pv" {
						mapExprs(pa, deep)
					}
				}
			}
			mapBodies(c, func(kind string, b []core.Cmd) []core.Cmd { return block(b) })
			if c["k"] == "msg" {
				block(asCmds(c["body"]))
			}
			if c["k"] == "plural" {
				for _, cs := range asCmds(c["cases"]) {
					block(asCmds(cs["body"]))
				}
				block(asCmds(c["def"]))
			}
		}
		return cmds
	}
	for _, t := range q.Bundle {
		t.Body = block(t.Body)
	}
	return q
}

// wrapNullSafe puts the null-safe reference at the head of e (see hasNullSafe)
// into `true ? X : X`, which the generator writes in parentheses and which
// has exactly the value of X (undefined included).
func wrapNullSafe(e core.E) core.E {
	switch e["k"] {
	case "var":
		return core.ETern(core.EBool(true), e, e)
	case "fn":
		args := asEs(e["args"])
		out := make(core.E, len(e))
		for k, v := range e {
			out[k] = v
		}
		nargs := append([]core.E{}, args...)
		nargs[0] = wrapNullSafe(args[0])
		out["args"] = nargs
		return out
	}
	return e
}

// ParenNegNullSafe rewrites -X, X beginning with a null-safe data reference,
// so that the reference is parenthesised in the generated code; the negation
// itself stays.
func ParenNegNullSafe(p *core.Program) (*core.Program, bool) {
	n := 0
	q := rewriteExprs(p, func(e core.E) core.E {
		if e["k"] == "neg" {
			if a := e["a"].(core.E); hasNullSafe(a) {
				n++
				return core.ENeg(wrapNullSafe(a))
			}
		}
		return e
	})
	return q, n > 0
}

// ParenIsNonnullNullSafe does the same for the argument of isNonnull.
func ParenIsNonnullNullSafe(p *core.Program) (*core.Program, bool) {
	n := 0
	q := rewriteExprs(p, func(e core.E) core.E {
		if e["k"] == "fn" {
			args := asEs(e["args"])
			if e["name"] == "isNonnull" && len(args) == 1 && hasNullSafe(args[0]) {
				n++
				return core.EFn("isNonnull", wrapNullSafe(args[0]))
			}
		}
		return e
	})
	return q, n > 0
}

// ParenCssNullSafe rewrites {css X, s}, X a null-safe data reference, to
// {css true ? X : X, s}.
func ParenCssNullSafe(p *core.Program) (*core.Program, bool) {
	q := CloneProgram(p)
	n := 0
	var block func(cmds []core.Cmd) []core.Cmd
	block = func(cmds []core.Cmd) []core.Cmd {
		for _, c := range cmds {
			mapBodies(c, func(kind string, b []core.Cmd) []core.Cmd { return block(b) })
			if c["k"] == "css" && c["has"].(bool) && hasNullSafe(c["e"].(core.E)) {
				c["e"] = wrapNullSafe(c["e"].(core.E))
				n++
			}
		}
		return cmds
	}
	for _, t := range q.Bundle {
		t.Body = block(t.Body)
	}
	return q, n > 0
}

// DropDoubleNeg rewrites the negation of a negative literal, -(-5), to the
// literal 5.
func DropDoubleNeg(p *core.Program) (*core.Program, bool) {
	n := 0
	lit := func(a core.E) (core.E, bool) { // value of -a if a is a negative literal
		switch a["k"] {
		case "int":
			if toInt(a["v"]) < 0 {
				return core.EInt(-toInt(a["v"])), true
			}
		case "float":
			if toInt(a["num"]) < 0 {
				return core.EFloat(-toInt(a["num"]), toInt(a["sh"])), true
			}
		case "neg":
			if b := a["a"].(core.E); (b["k"] == "int" && toInt(b["v"]) >= 0) || (b["k"] == "float" && toInt(b["num"]) >= 0) {
				return b, true
			}
		}
		return nil, false
	}
	q := rewriteExprs(p, func(e core.E) core.E {
		if e["k"] == "neg" {
			if v, ok := lit(e["a"].(core.E)); ok {
				n++
				return v
			}
		}
		return e
	})
	return q, n > 0
}

// ---- decoration of random programs ------------------------------------------------------

// Decorate adds injected data and globals to a random program and sprinkles
// prints of them over the template bodies.
func Decorate(r *rand.Rand, p *core.Program) {
	var pool []core.Cmd
	if r.Intn(2) == 0 {
		p.IJ = core.VMap(map[string]core.V{"k": core.VStr([]string{"ijv", "<ij>", ""}[r.Intn(3)]), "n": core.VInt(r.Intn(5))})
		pool = append(pool,
			core.CPrint(core.EVar("ij", core.AKey("k", false))),
			core.CPrint(core.EBin("add", core.EVar("ij", core.AKey("n", r.Intn(2) == 0)), core.EInt(1))),
			core.CPrint(core.EBin("elvis", core.EVar("ij", core.AKey("nokey", true)), core.EStr("no"))))
	}
	if r.Intn(2) == 0 {
		p.Glob = map[string]core.V{"G_INT": core.VInt(r.Intn(50)), "G_STR": core.VStr([]string{"g", "<g>", "g&h"}[r.Intn(3)]),
			"app.FLAG": core.VBool(r.Intn(2) == 0), "G_F": core.VFloat(2*r.Intn(50)+1, 1)}
		pool = append(pool,
			core.CPrint(core.EGlobal("G_STR")),
			core.CPrint(core.EBin("mul", core.EGlobal("G_INT"), core.EInt(2))),
			core.CIf([]core.Cmd{core.CBr(core.EGlobal("app.FLAG"), []core.Cmd{core.CText("F")})}, core.Opt(true, []core.Cmd{core.CPrint(core.EGlobal("G_F"))})))
	}
	if len(pool) == 0 {
		return
	}
	var block func(cmds []core.Cmd) []core.Cmd
	block = func(cmds []core.Cmd) []core.Cmd {
		for _, c := range cmds {
			mapBodies(c, func(kind string, b []core.Cmd) []core.Cmd { return block(b) })
		}
		if r.Intn(3) == 0 {
			i := r.Intn(len(cmds) + 1)
			ins := cloneAny(pool[r.Intn(len(pool))]).(map[string]interface{})
			cmds = append(cmds[:i:i], append([]core.Cmd{ins}, cmds[i:]...)...)
		}
		return cmds
	}
	for _, name := range sortedTmplNames(p) {
		p.Bundle[name].Body = block(p.Bundle[name].Body)
	}
}

func sortedTmplNames(p *core.Program) []string {
	m := map[string]int{}
	for n := range p.Bundle {
		m[n] = 1
	}
	return sortedKeys(m)
}

// canon spells character references canonically (classification only; the
// verdict uses CanonRefs of the specification).
func canon(s string) string {
	return strings.NewReplacer("&quot;", "&#34;", "&apos;", "&#39;").Replace(s)
}
