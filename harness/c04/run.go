package c04

import (
	"bytes"
	"encoding/json"
	"fmt"
	"math"
	"sort"
	"strings"
	"sync"
	"time"

	"github.com/robfig/soy/ast"
	"github.com/robfig/soy/data"
	"github.com/robfig/soy/soyjs"
	"github.com/robfig/soy/soymsg"

	"verif/core"
	"verif/jsrun"
)

// Case is one program executed by both back ends.
type Case struct {
	Family  string        `json:"family"`
	Feature string        `json:"feature,omitempty"` // structural feature named by the family that built the case
	Note    string        `json:"note,omitempty"`
	Prog    *core.Program `json:"prog"`
	Style   core.Style    `json:"-"`
	Msgs    string        `json:"msgs,omitempty"` // translation strategy: "" (no catalogue) | lacks | identity | reverse | wrap
	Rule    string        `json:"rule,omitempty"` // plural rule of the catalogue: en | cs
	Files   []core.File   `json:"files"`
	JS      []string      `json:"js,omitempty"` // generated JavaScript, one per file
	Go      core.Obs      `json:"go"`
	JSObs   core.Obs      `json:"jsObs"`
	// filled by the TLC validation
	Verdict  string   `json:"verdict,omitempty"` // OK OUT JS GO ALL SPEC
	Reason   string   `json:"reason,omitempty"`  // for OUT
	ExpOut   string   `json:"specOut,omitempty"`
	Features []string `json:"features,omitempty"`
	// FloatData, when set, is the data of the call (floats of any magnitude,
	// which the tagged dyadic encoding cannot carry); Direct describes the
	// printed value by class: the line is judged Go against JS only.
	FloatData map[string]float64 `json:"floatData,omitempty"`
	Direct    *FloatClass        `json:"direct,omitempty"`
	// StrData: string data for hand-written sources
	StrData map[string]string `json:"strData,omitempty"`
	// Entry, when set, is the template to render (hand-written sources whose
	// spec program is only a placeholder)
	Entry string `json:"entry,omitempty"`
	// NoData: the entry template is called without any argument (JS) / with a
	// nil data map (Go)
	NoData bool `json:"noData,omitempty"`
	// SkipOK: a compile rejection is expected for some cases (model programs)
	SkipOK bool `json:"-"`
	// Predicted is the JS output an implementation-shaped model predicts
	Predicted     string `json:"predictedJs,omitempty"`
	HasPrediction bool   `json:"-"`
	PredictOnly   bool   `json:"-"`
	// FixedFiles (replay) replace the unparsed program text
	FixedFiles []core.File `json:"-"`
	// harness trouble (generator produced something the compiler rejects)
	Skip string `json:"skip,omitempty"`
}

// FloatClass is what the specification gets to know about a float that is
// outside its dyadic model.
type FloatClass struct {
	Kind    string `json:"kind"` // "float" | "bundle"
	Finite  bool   `json:"finite"`
	NegZero bool   `json:"negzero"`
	Use     string `json:"use"`
	// kind "bundle": the compiler accepted it; its templates use plain constructs only
	Accepted bool `json:"accepted"`
	Plain    bool `json:"plain"`
}

func (c *Case) entry() string {
	if c.Entry != "" {
		return c.Entry
	}
	return c.Prog.Entry
}

// Src returns the Soy source of all files.
func (c *Case) Src() string {
	var b strings.Builder
	for _, f := range c.Files {
		b.WriteString(f.Text)
	}
	return b.String()
}

// plain converts a spec value to plain JSON data for JavaScript.
func plain(v core.V) interface{} {
	switch v["t"].(string) {
	case "null":
		return nil
	case "bool":
		return v["v"].(bool)
	case "int":
		return toInt(v["v"])
	case "bigint":
		// up to 2^53 in absolute value: exactly representable in JavaScript
		return json.Number(v["v"].(string))
	case "float":
		return float64(toInt(v["num"])) / math.Pow(2, float64(toInt(v["sh"])))
	case "str":
		return v["v"].(string)
	case "list":
		out := []interface{}{}
		switch xs := v["v"].(type) {
		case []core.V:
			for _, x := range xs {
				out = append(out, plain(x))
			}
		case []interface{}:
			for _, x := range xs {
				out = append(out, plain(x.(core.V)))
			}
		}
		return out
	case "map":
		return plainMap(v["v"])
	}
	panic(fmt.Sprintf("plain: %v", v))
}

func plainMap(m interface{}) map[string]interface{} {
	out := map[string]interface{}{}
	switch mm := m.(type) {
	case map[string]core.V:
		for k, x := range mm {
			out[k] = plain(x)
		}
	case map[string]interface{}:
		for k, x := range mm {
			out[k] = plain(x.(core.V))
		}
	}
	return out
}

func toInt(v interface{}) int {
	switch n := v.(type) {
	case int:
		return n
	case int64:
		return int(n)
	case float64:
		return int(n)
	}
	panic(fmt.Sprintf("toInt: %T", v))
}

// pluralJS is the plural function handed to the generated code; the same
// function is Bundle.PluralCase on the Go side and PluralIdx in SoyCommon.tla.
var pluralJS = map[string]string{
	"en": "soy.$$pluralIndex = function(n){ return n == 1 ? 0 : 1; };",
	"cs": "soy.$$pluralIndex = function(n){ return n == 1 ? 0 : (n >= 2 && n <= 4) ? 1 : 2; };",
}

func pluralGo(rule string, n int) int {
	switch rule {
	case "cs":
		if n == 1 {
			return 0
		}
		if n >= 2 && n <= 4 {
			return 1
		}
		return 2
	}
	if n == 1 {
		return 0
	}
	return 1
}

// catalog is a soymsg.Bundle built by the harness.
type catalog struct {
	rule string
	msgs map[uint64]*soymsg.Message
}

func (c *catalog) Locale() string                    { return c.rule }
func (c *catalog) Message(id uint64) *soymsg.Message { return c.msgs[id] }
func (c *catalog) PluralCase(n int) int              { return pluralGo(c.rule, n) }

var _ soymsg.Bundle = (*catalog)(nil)

// Runner executes cases on both back ends.
type Runner struct {
	Pool *jsrun.Pool
}

const preJS = "var console = {log: function(){}};\n"

// Exec fills c.Files, c.JS, c.Go and c.JSObs.
func (r *Runner) Exec(c *Case) {
	c.Files = core.UnparseProgram(c.Prog, c.Style)
	if c.FixedFiles != nil {
		c.Files = c.FixedFiles
	}
	comp, err, pan := core.Compile(c.Files, core.ToDataMap(c.Prog.Glob))
	if err != nil {
		c.Go = core.Obs{Err: true, CompileErr: err.Error(), Panicked: pan}
		c.Skip = "compile: " + err.Error()
		return
	}
	if c.Direct != nil && c.Direct.Kind == "bundle" {
		c.Direct.Accepted = true
	}
	// translation catalogue (built from the real parse tree, mirrored into the
	// spec program as tr/forms fields)
	var cat *catalog
	if c.Msgs != "" {
		cat, err = buildCatalog(c, comp)
		if err != nil {
			c.Skip = "catalogue: " + err.Error()
			return
		}
	}
	// Go side
	var ij data.Map
	if c.Prog.IJ["t"] == "map" {
		ij = core.ToDataMap(c.Prog.IJ["v"])
	}
	godata := core.ToDataMap(c.Prog.Data)
	var jsdata interface{} = plainMap(c.Prog.Data)
	if c.FloatData != nil || c.StrData != nil {
		godata = data.Map{}
		jm := map[string]interface{}{}
		for k, x := range c.StrData {
			godata[k] = data.String(x)
			jm[k] = x
		}
		for k, x := range c.FloatData {
			godata[k] = data.Float(x)
			jm[k] = x
		}
		jsdata = jm
	}
	if c.NoData {
		godata = nil
	}
	c.Go = renderGo(comp, c.entry(), godata, ij, cat)
	// JS side: translate every file
	var srcs []jsrun.Source
	opts := soyjs.Options{}
	if cat != nil {
		opts.Messages = cat
	}
	for _, sf := range comp.Registry.SoyFiles {
		var buf bytes.Buffer
		var werr error
		func() {
			defer func() {
				if p := recover(); p != nil {
					werr = fmt.Errorf("PANIC in soyjs.Write: %v", p)
				}
			}()
			werr = soyjs.Write(&buf, sf, opts)
		}()
		if werr != nil {
			c.JSObs = core.Obs{Err: true, ErrText: "soyjs.Write: " + werr.Error()}
			return
		}
		c.JS = append(c.JS, buf.String())
		srcs = append(srcs, jsrun.Source{Name: sf.Name + ".js", Code: buf.String()})
	}
	// a caller's file may refer to namespaces defined by later files only inside
	// function bodies, so load order does not matter
	var ijd interface{}
	if c.Prog.IJ["t"] == "map" {
		ijd = plainMap(c.Prog.IJ["v"])
	}
	pre := []string{preJS}
	if cat != nil {
		pre = append(pre, pluralJS[cat.rule])
	}
	resp, rerr := r.Pool.Run(jsrun.Request{Pre: pre, Sources: srcs,
		Calls: []jsrun.Call{{Fn: c.entry(), Data: jsdata, IJ: ijd, NoData: c.NoData}}, Timeout: 5 * time.Second})
	if rerr != nil {
		c.Skip = "node: " + rerr.Error()
		return
	}
	if resp.PreErr != "" {
		c.Skip = "node pre: " + resp.PreErr
		return
	}
	for _, s := range resp.Sources {
		if !s.OK {
			c.JSObs = core.Obs{Err: true, ErrText: "load " + s.Name + ": " + s.Err}
			return
		}
	}
	cr := resp.Calls[0]
	if !cr.OK {
		c.JSObs = core.Obs{Err: true, ErrText: cr.Err}
		return
	}
	if cr.Type != "string" {
		c.JSObs = core.Obs{Err: true, ErrText: "template function returned a " + cr.Type}
		return
	}
	c.JSObs = core.Obs{Out: cr.Out}
}

func renderGo(comp *core.Compiled, name string, d, ij data.Map, cat *catalog) (o core.Obs) {
	var buf bytes.Buffer
	defer func() {
		if p := recover(); p != nil {
			o = core.Obs{Err: true, ErrText: fmt.Sprintf("PANIC in render: %v", p), Panicked: true, Out: buf.String()}
		}
	}()
	rr := comp.Tofu.NewRenderer(name)
	if ij != nil {
		rr.Inject(ij)
	}
	if cat != nil {
		rr.WithMessages(cat)
	}
	err := rr.Execute(&buf, d)
	o = core.Obs{Err: err != nil, Out: buf.String()}
	if err != nil {
		o.ErrText = err.Error()
	}
	return o
}

// ExecAll runs the cases in parallel.
func (r *Runner) ExecAll(cases []*Case) {
	var wg sync.WaitGroup
	ch := make(chan *Case)
	n := r.Pool.Size() + 2
	for i := 0; i < n; i++ {
		wg.Add(1)
		go func() {
			defer wg.Done()
			for c := range ch {
				r.Exec(c)
			}
		}()
	}
	for _, c := range cases {
		ch <- c
	}
	close(ch)
	wg.Wait()
}

// ---- catalogue construction ------------------------------------------------

type msgItem struct {
	part soymsg.Part
	cmd  core.Cmd
}

// msgCmds lists the msg commands of a command sequence in source order
// (depth-first), which is the order in which the parser meets them.
func msgCmds(cmds []core.Cmd, out *[]core.Cmd) {
	for _, c := range cmds {
		switch c["k"] {
		case "msg":
			*out = append(*out, c)
		case "if":
			for _, br := range asCmds(c["brs"]) {
				msgCmds(asCmds(br["body"]), out)
			}
			msgCmds(asCmds(c["els"].(core.Cmd)["body"]), out)
		case "switch":
			for _, cs := range asCmds(c["cases"]) {
				msgCmds(asCmds(cs["body"]), out)
			}
			msgCmds(asCmds(c["def"].(core.Cmd)["body"]), out)
		case "foreach":
			msgCmds(asCmds(c["body"]), out)
			msgCmds(asCmds(c["empty"].(core.Cmd)["body"]), out)
		case "letc", "log":
			msgCmds(asCmds(c["body"]), out)
		case "call":
			for _, p := range asCmds(c["params"]) {
				if p["k"] == "pc" {
					msgCmds(asCmds(p["body"]), out)
				}
			}
		}
	}
}

func asCmds(v interface{}) []core.Cmd {
	switch x := v.(type) {
	case []core.Cmd:
		return x
	case []interface{}:
		r := make([]core.Cmd, len(x))
		for i := range x {
			r[i] = x[i].(core.Cmd)
		}
		return r
	case nil:
		return nil
	}
	panic(fmt.Sprintf("asCmds: %T", v))
}

func msgNodes(n ast.Node, out *[]*ast.MsgNode) {
	if m, ok := n.(*ast.MsgNode); ok {
		*out = append(*out, m)
		return
	}
	if p, ok := n.(ast.ParentNode); ok {
		for _, ch := range p.Children() {
			if ch != nil {
				msgNodes(ch, out)
			}
		}
	}
}

// items pairs the children of a parsed message body with the spec commands
// they came from: the k-th print placeholder is the k-th print command.
func items(children []ast.Node, body []core.Cmd) ([]msgItem, error) {
	var prints []core.Cmd
	for _, c := range body {
		if c["k"] == "print" {
			prints = append(prints, c)
		}
	}
	var out []msgItem
	k := 0
	for _, ch := range children {
		switch n := ch.(type) {
		case *ast.RawTextNode:
			out = append(out, msgItem{soymsg.RawTextPart{Text: string(n.Text)}, core.CText(string(n.Text))})
		case *ast.MsgPlaceholderNode:
			switch b := n.Body.(type) {
			case *ast.MsgHtmlTagNode:
				out = append(out, msgItem{soymsg.PlaceholderPart{Name: n.Name}, core.CText(string(b.Text))})
			case *ast.PrintNode:
				if k >= len(prints) {
					return nil, fmt.Errorf("message has more print placeholders than the spec body")
				}
				out = append(out, msgItem{soymsg.PlaceholderPart{Name: n.Name}, prints[k]})
				k++
			default:
				return nil, fmt.Errorf("unexpected placeholder body %T", n.Body)
			}
		default:
			return nil, fmt.Errorf("unexpected message child %T", ch)
		}
	}
	if k != len(prints) {
		return nil, fmt.Errorf("message has %d print placeholders, spec body %d", k, len(prints))
	}
	return out, nil
}

// translate applies the strategy to a message body.
func translate(strategy string, its []msgItem) []msgItem {
	switch strategy {
	case "reverse":
		r := make([]msgItem, len(its))
		for i := range its {
			r[len(its)-1-i] = its[i]
		}
		return r
	case "wrap":
		r := []msgItem{{soymsg.RawTextPart{Text: "[["}, core.CText("[[")}}
		r = append(r, its...)
		r = append(r, msgItem{soymsg.RawTextPart{Text: "]]"}, core.CText("]]")})
		for _, it := range its {
			if _, ok := it.part.(soymsg.PlaceholderPart); ok {
				r = append(r, it) // a placeholder used twice
				break
			}
		}
		return r
	}
	return its
}

func split(its []msgItem) ([]soymsg.Part, []core.Cmd) {
	parts := []soymsg.Part{}
	cmds := []core.Cmd{}
	for _, it := range its {
		parts = append(parts, it.part)
		cmds = append(cmds, it.cmd)
	}
	return parts, cmds
}

// buildCatalog creates the translation catalogue for case c from the compiled
// parse tree and records the translated bodies in the spec program.
func buildCatalog(c *Case, comp *core.Compiled) (*catalog, error) {
	rule := c.Rule
	if rule == "" {
		rule = "en"
	}
	cat := &catalog{rule: rule, msgs: map[uint64]*soymsg.Message{}}
	if c.Msgs == "lacks" {
		return cat, nil
	}
	// spec msg commands per template, real msg nodes per template
	for _, sf := range comp.Registry.SoyFiles {
		for _, n := range sf.Body {
			tn, ok := n.(*ast.TemplateNode)
			if !ok {
				continue
			}
			t := c.Prog.Bundle[tn.Name]
			if t == nil {
				return nil, fmt.Errorf("template %s not in the spec program", tn.Name)
			}
			var cmds []core.Cmd
			msgCmds(t.Body, &cmds)
			var nodes []*ast.MsgNode
			msgNodes(tn.Body, &nodes)
			if len(cmds) != len(nodes) {
				return nil, fmt.Errorf("template %s: %d msg commands, %d msg nodes", tn.Name, len(cmds), len(nodes))
			}
			for i, mn := range nodes {
				mc := cmds[i]
				body := asCmds(mc["body"])
				if len(body) == 1 && body[0]["k"] == "plural" {
					pl := body[0]
					var pn *ast.MsgPluralNode
					for _, ch := range mn.Body.Children() {
						if p, ok := ch.(*ast.MsgPluralNode); ok {
							pn = p
						}
					}
					if pn == nil {
						return nil, fmt.Errorf("plural command without plural node")
					}
					// source forms: "one" = {case 1} if present else default; "other" = default
					defIt, err := items(pn.Default.Children(), asCmds(pl["def"]))
					if err != nil {
						return nil, err
					}
					oneIt := defIt
					for ci, cn := range pn.Cases {
						if cn.Value == 1 {
							oneIt, err = items(cn.Body.Children(), asCmds(asCmds(pl["cases"])[ci]["body"]))
							if err != nil {
								return nil, err
							}
						}
					}
					forms := [][]msgItem{translate(c.Msgs, oneIt)}
					if rule == "cs" {
						few := append([]msgItem{{soymsg.RawTextPart{Text: "few:"}, core.CText("few:")}}, translate(c.Msgs, defIt)...)
						forms = append(forms, few)
					}
					forms = append(forms, translate(c.Msgs, defIt))
					var pcases []soymsg.PluralCase
					var bodies [][]core.Cmd
					for _, f := range forms {
						parts, fc := split(f)
						pcases = append(pcases, soymsg.PluralCase{Spec: soymsg.PluralSpec{Type: soymsg.PluralSpecOther, ExplicitValue: -1}, Parts: parts})
						bodies = append(bodies, fc)
					}
					cat.msgs[mn.ID] = &soymsg.Message{ID: mn.ID, Parts: []soymsg.Part{soymsg.PluralPart{VarName: pn.VarName, Cases: pcases}}}
					pl["forms"] = core.Cmd{"has": true, "rule": rule, "bodies": bodies}
					continue
				}
				its, err := items(mn.Body.Children(), body)
				if err != nil {
					return nil, err
				}
				parts, tc := split(translate(c.Msgs, its))
				cat.msgs[mn.ID] = &soymsg.Message{ID: mn.ID, Parts: parts}
				mc["tr"] = core.Cmd{"has": true, "body": tc}
			}
		}
	}
	return cat, nil
}

func sortedKeys(m map[string]int) []string {
	var ks []string
	for k := range m {
		ks = append(ks, k)
	}
	sort.Strings(ks)
	return ks
}
