package c04

import (
	"encoding/json"
	"fmt"
	"regexp"
	"sort"
	"strings"
	"time"

	"verif/core"
)

// M1 for C04: the implementation-shaped model SoyJsScope.tla (static naming
// in the JS generator) must refine the dynamic scoping of SoyExec in its
// reference design (JsDev = {}), and every named deviation must be found by
// TLC. The counterexamples are hypotheses about the real generator: each is
// replayed on the real code (Go renderer, soyjs + node) and judged there.

var reCex = regexp.MustCompile(`^<<"(CEX|PRED)", "([a-z_]+)", "([a-z-]+)", (".*")>>$`)

type modelCase struct {
	Dev  string // deviation that produced the counterexample ("pinned" for predictions)
	Kind string // unassigned | other-binding | "-" (prediction)
	Body []core.Cmd
	C    bool
	Ref  string
	JS   string
}

func scopeCfg(size string) string {
	return "CONSTANTS\n Dev = {}\n JsDev = {}\n Size = \"" + size + "\"\nINIT SInit\nNEXT Next\nINVARIANT RefinesRef\nINVARIANT CollectAll\nCHECK_DEADLOCK FALSE\n"
}

// runScopeModel model-checks SoyJsScope: the reference design must refine
// SoyExec on the whole family (invariant RefinesRef); CollectAll prints the
// counterexamples of every named deviation and the predictions of the model
// "as the code is".
func (h *Harness) runScopeModel(size string) (cex map[string][]modelCase, pred []modelCase, res *core.TLCResult, err error) {
	res, err = h.ctx.RunTLC(core.TLCOpts{Module: "SoyJsScope", Cfg: scopeCfg(size), Workers: 8, Timeout: 10 * time.Minute, Label: "SoyJsScope: reference design refines SoyExec; deviations; predictions"})
	if err != nil {
		return nil, nil, res, err
	}
	if res.Violated != "" {
		return nil, nil, res, fmt.Errorf("SoyJsScope: the reference design does not refine SoyExec (%s violated) - specification bug:\n%.1500s", res.Violated, res.Trace)
	}
	var lines []string
	for _, t := range res.Tuples {
		if strings.HasPrefix(t, `<<"CEX"`) || strings.HasPrefix(t, `<<"PRED"`) {
			lines = append(lines, t)
		}
	}
	sort.Strings(lines)
	cex = map[string][]modelCase{}
	for _, t := range lines {
		m := reCex.FindStringSubmatch(t)
		if m == nil {
			return nil, nil, res, fmt.Errorf("SoyJsScope: cannot parse %.200s", t)
		}
		var v struct {
			Body []core.Cmd
			C    bool
			Ref  string
			JS   string `json:"js"`
		}
		if err := json.Unmarshal([]byte(core.TLAUnquote(m[4])), &v); err != nil {
			return nil, nil, res, fmt.Errorf("SoyJsScope: bad JSON: %v", err)
		}
		mc := modelCase{Dev: m[2], Kind: m[3], Body: v.Body, C: v.C, Ref: v.Ref, JS: v.JS}
		if m[1] == "PRED" {
			pred = append(pred, mc)
		} else {
			cex[mc.Dev] = append(cex[mc.Dev], mc)
		}
	}
	return cex, pred, res, nil
}

// modelProgram turns a program of the model family into a real bundle.
func modelProgram(mc modelCase) *core.Program {
	return &core.Program{
		Bundle: map[string]*core.Tmpl{"t.m": {Params: []core.Param{{Name: "x"}, {Name: "c"}}, Body: mc.Body, TA: "false"}},
		Entry:  "t.m", Data: dm("x", core.VStr("P"), "c", core.VBool(mc.C)),
		IJ: core.V{"t": "none"}, Glob: map[string]core.V{}, Plan: noPlan(), Aliases: map[string]bool{},
	}
}

// featureOfDeviation names the signature of a replayed counterexample.
func featureOfDeviation(dev, kind string) string {
	switch dev {
	case "block_no_scope":
		if kind == "unassigned" {
			return "let-in-untaken-if-shadows-param"
		}
		return "let-in-taken-if-leaks-over-param"
	case "let_name_first":
		return "let-reads-the-name-it-binds"
	case "helper_innermost":
		return "loop-helper-on-outer-loop-var"
	case "loop_no_pop":
		return "local-of-loop-visible-after-loop"
	}
	return dev
}

// ScopeModel is M1 + replay of the SoyJsScope model.
func (h *Harness) ScopeModel() []*report {
	ctx := h.ctx
	size := "small"
	if ctx.Thorough() {
		size = "large"
	}
	devs := []string{"block_no_scope", "let_name_first", "helper_innermost", "loop_no_pop"}
	cex, pred, res, err := h.runScopeModel(size)
	if err != nil {
		ctx.ToolError("%v", err)
		return nil
	}
	selftest := map[string]interface{}{"reference_design_refines": true, "states": res.Distinct, "programs": len(pred)}
	limit := ctx.Pick(150, 1000)
	var all []*Case
	per := map[string][]*Case{}
	for _, d := range devs {
		cs := cex[d]
		selftest["deviation_"+d+"_counterexamples"] = len(cs)
		if len(cs) == 0 {
			ctx.ToolError("SoyJsScope: deviation %s produced no counterexample (vacuous invariant)", d)
			continue
		}
		// replay: shortest programs first, deterministic
		sort.SliceStable(cs, func(a, b int) bool { return len(fmt.Sprint(cs[a].Body)) < len(fmt.Sprint(cs[b].Body)) })
		for i, mc := range cs {
			if i >= limit {
				break
			}
			c := &Case{Family: "scope", Feature: featureOfDeviation(d, mc.Kind), Note: "counterexample of SoyJsScope deviation " + d + "; the model predicts the JS output " + fmt.Sprintf("%q", mc.JS),
				Prog: modelProgram(mc), SkipOK: true, Predicted: mc.JS, HasPrediction: true}
			per[d] = append(per[d], c)
			all = append(all, c)
		}
	}
	reps := h.Judge(all, "scope-model counterexamples")
	for _, d := range devs {
		reproduced, compiled := 0, 0
		for _, c := range per[d] {
			if c.Skip != "" {
				continue
			}
			compiled++
			// the real code shows THIS deviation if the disagreement is named after it
			for _, f := range c.Features {
				if f == c.Base() {
					reproduced++
					break
				}
			}
		}
		selftest["deviation_"+d+"_replayed"] = compiled
		selftest["deviation_"+d+"_reproduced_on_real_code"] = reproduced
	}
	// the model as the code is: its predicted JS output against the real one
	step := 1
	if n := ctx.Pick(1200, 100000); len(pred) > n {
		step = len(pred)/n + 1
	}
	var cases []*Case
	for i := 0; i < len(pred); i += step {
		cases = append(cases, &Case{Family: "scope", Feature: "model-prediction", Prog: modelProgram(pred[i]), SkipOK: true, Predicted: pred[i].JS, HasPrediction: true, PredictOnly: true})
	}
	h.run.ExecAll(cases)
	okN, bad, rejected := 0, 0, 0
	var drift []string
	for _, c := range cases {
		switch {
		case c.Skip != "":
			rejected++
		case !c.JSObs.Err && c.JSObs.Out == c.Predicted:
			okN++
		default:
			bad++
			if len(drift) < 3 {
				drift = append(drift, fmt.Sprintf("%s: model %q real %q (%s)", c.Src(), c.Predicted, c.JSObs.Out, c.JSObs.ErrText))
			}
		}
	}
	ctx.AddEvals(int64(len(cases) - rejected))
	selftest["model_predictions_checked"] = okN + bad
	selftest["model_predictions_confirmed"] = okN
	selftest["model_programs_rejected_by_compiler"] = rejected
	if bad > 0 {
		// drift between an implementation-shaped model and the code is not a
		// violation (DESIGN 2.2); it is reported so that the model gets updated
		selftest["model_drift_examples"] = drift
	}
	h.mu.Lock()
	ctx.Extra["scope_model"] = selftest
	h.mu.Unlock()
	return reps
}
