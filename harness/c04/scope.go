package c04

import (
	"encoding/json"
	"fmt"
	"regexp"
	"sort"
	"strings"
	"sync"
	"time"

	"verif/core"
)

// M1 for C04: the implementation-shaped model SoyJsScope.tla (static naming
// in the JS generator) must refine the dynamic scoping of SoyExec in its
// reference design (JsDev = {}), and every named deviation must be found by
// TLC. The counterexamples are hypotheses about the real generator: each is
// replayed on the real code (Go renderer, soyjs + node) and judged there.

var reCex = regexp.MustCompile(`^<<"(CEX|PRED)", (?:"([a-z-]+)", )?(".*")>>$`)

type modelCase struct {
	Kind string // unassigned | other-binding | "" (prediction)
	Body []core.Cmd
	C    bool
	Ref  string
	JS   string
}

func scopeCfg(dev []string, size, inv string) string {
	q := make([]string, len(dev))
	for i, d := range dev {
		q[i] = `"` + d + `"`
	}
	return "CONSTANTS\n Dev = {}\n JsDev = {" + strings.Join(q, ", ") + "}\n Size = \"" + size + "\"\nINIT SInit\nNEXT Next\nINVARIANT " + inv + "\nCHECK_DEADLOCK FALSE\n"
}

func (h *Harness) runScopeModel(dev []string, size, inv, label string) ([]modelCase, *core.TLCResult, error) {
	res, err := h.ctx.RunTLC(core.TLCOpts{Module: "SoyJsScope", Cfg: scopeCfg(dev, size, inv), Workers: 3, Timeout: 10 * time.Minute, Label: label})
	if err != nil {
		return nil, res, err
	}
	if res.Violated != "" {
		return nil, res, fmt.Errorf("SoyJsScope %s: unexpected violation of %s", label, res.Violated)
	}
	var lines []string
	for _, t := range res.Tuples {
		if strings.HasPrefix(t, `<<"CEX"`) || strings.HasPrefix(t, `<<"PRED"`) {
			lines = append(lines, t)
		}
	}
	sort.Strings(lines)
	var out []modelCase
	for _, t := range lines {
		m := reCex.FindStringSubmatch(t)
		if m == nil {
			return nil, res, fmt.Errorf("SoyJsScope %s: cannot parse %.200s", label, t)
		}
		var v struct {
			Body []core.Cmd
			C    bool
			Ref  string
			JS   string `json:"js"`
		}
		if err := json.Unmarshal([]byte(core.TLAUnquote(m[3])), &v); err != nil {
			return nil, res, fmt.Errorf("SoyJsScope %s: bad JSON: %v", label, err)
		}
		out = append(out, modelCase{Kind: m[2], Body: v.Body, C: v.C, Ref: v.Ref, JS: v.JS})
	}
	return out, res, nil
}

// modelProgram turns a program of the model family into a real bundle.
func modelProgram(mc modelCase) *core.Program {
	return &core.Program{
		Bundle: map[string]*core.Tmpl{"t.m": {Params: []core.Param{{Name: "x"}, {Name: "c"}}, Body: mc.Body, TA: "false"}},
		Entry:  "t.m", Data: dm("x", core.VStr("P"), "c", core.VBool(mc.C)),
		IJ: core.V{"t": "none"}, Glob: map[string]core.V{}, Plan: noPlan(), Aliases: map[string]bool{},
	}
}

// featureOfDeviation names the signature of a replayed counterexample.
func featureOfDeviation(dev, kind string) string {
	switch dev {
	case "block_no_scope":
		if kind == "unassigned" {
			return "let-in-untaken-if-shadows-param"
		}
		return "let-in-taken-if-leaks-over-param"
	case "let_name_first":
		return "let-reads-the-name-it-binds"
	case "helper_innermost":
		return "loop-helper-on-outer-loop-var"
	case "loop_no_pop":
		return "local-of-loop-visible-after-loop"
	}
	return dev
}

// ScopeModel is M1 + replay of the SoyJsScope model.
func (h *Harness) ScopeModel() {
	ctx := h.ctx
	size := "small"
	if ctx.Thorough() {
		size = "large"
	}
	devs := []string{"block_no_scope", "let_name_first", "helper_innermost", "loop_no_pop"}
	pinned := []string{"block_no_scope", "let_name_first", "helper_innermost"}
	type result struct {
		cases []modelCase
		res   *core.TLCResult
		err   error
	}
	results := make([]result, len(devs)+2)
	var wg sync.WaitGroup
	run := func(i int, dev []string, inv, label string) {
		defer wg.Done()
		c, r, e := h.runScopeModel(dev, size, inv, label)
		results[i] = result{c, r, e}
	}
	wg.Add(len(devs) + 2)
	go run(0, nil, "Collect", "SoyJsScope reference design")
	for i, d := range devs {
		go run(i+1, []string{d}, "Collect", "SoyJsScope deviation "+d)
	}
	go run(len(devs)+1, pinned, "Predict", "SoyJsScope as the code is (predictions)")
	wg.Wait()
	for _, r := range results {
		if r.err != nil {
			ctx.ToolError("%v", r.err)
			return
		}
	}
	if n := len(results[0].cases); n > 0 {
		ctx.ToolError("SoyJsScope: the reference design does not refine SoyExec (%d counterexamples) - specification bug", n)
		return
	}
	selftest := map[string]interface{}{"reference_design_counterexamples": 0, "programs": results[0].res.Distinct}
	limit := ctx.Pick(60, 400)
	for i, d := range devs {
		cs := results[i+1].cases
		selftest["deviation_"+d+"_counterexamples"] = len(cs)
		if len(cs) == 0 {
			ctx.ToolError("SoyJsScope: deviation %s produced no counterexample (vacuous invariant)", d)
			continue
		}
		// replay: shortest programs first, deterministic
		sort.SliceStable(cs, func(a, b int) bool { return len(fmt.Sprint(cs[a].Body)) < len(fmt.Sprint(cs[b].Body)) })
		var cases []*Case
		for _, mc := range cs {
			if len(cases) >= limit {
				break
			}
			cases = append(cases, &Case{Family: "scope", Feature: featureOfDeviation(d, mc.Kind), Note: "counterexample of SoyJsScope deviation " + d + "; model predicts JS output " + fmt.Sprintf("%q", mc.JS),
				Prog: modelProgram(mc), SkipOK: true, Predicted: mc.JS, HasPrediction: true})
		}
		reproduced, compiled := h.judgeModelCases(cases, "scope-model "+d)
		selftest["deviation_"+d+"_replayed"] = compiled
		selftest["deviation_"+d+"_reproduced_on_real_code"] = reproduced
	}
	// the model as the code is: its predicted JS output against the real one
	pred := results[len(devs)+1].cases
	step := 1
	if n := ctx.Pick(400, 100000); len(pred) > n {
		step = len(pred)/n + 1
	}
	var cases []*Case
	for i := 0; i < len(pred); i += step {
		cases = append(cases, &Case{Family: "scope", Feature: "model-prediction", Prog: modelProgram(pred[i]), SkipOK: true, Predicted: pred[i].JS, HasPrediction: true, PredictOnly: true})
	}
	h.run.ExecAll(cases)
	okN, bad, rejected := 0, 0, 0
	var drift []string
	for _, c := range cases {
		switch {
		case c.Skip != "":
			rejected++
		case !c.JSObs.Err && c.JSObs.Out == c.Predicted:
			okN++
		default:
			bad++
			if len(drift) < 3 {
				drift = append(drift, fmt.Sprintf("%s: model %q real %q (%s)", c.Src(), c.Predicted, c.JSObs.Out, c.JSObs.ErrText))
			}
		}
	}
	ctx.AddEvals(int64(len(cases) - rejected))
	selftest["model_predictions_checked"] = okN + bad
	selftest["model_predictions_confirmed"] = okN
	selftest["model_programs_rejected_by_compiler"] = rejected
	if bad > 0 {
		// drift between an implementation-shaped model and the code is not a
		// violation (DESIGN 2.2); it is reported so that the model gets updated
		selftest["model_drift_examples"] = drift
	}
	ctx.Extra["scope_model"] = selftest
}

// judgeModelCases executes and judges replayed counterexamples; returns how
// many showed a Go/JS disagreement on the real code and how many compiled.
func (h *Harness) judgeModelCases(cases []*Case, label string) (reproduced, compiled int) {
	h.Judge(cases, label)
	for _, c := range cases {
		if c.Skip != "" {
			continue
		}
		compiled++
		if c.Verdict == "JS" || c.Verdict == "ALL" || c.Verdict == "GO" {
			reproduced++
		}
	}
	return
}
