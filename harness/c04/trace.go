package c04

import (
	"bytes"
	"encoding/json"
	"fmt"
	"regexp"
	"strconv"
	"time"

	"verif/core"
)

var reBad = regexp.MustCompile(`^<<"BAD", (\d+), "(\w+)", (".*")>>$`)
var reOut = regexp.MustCompile(`^<<"OUT", (\d+), "(.*)">>$`)
var reDone = regexp.MustCompile(`^<<"DONE", (\d+), (\d+), (\d+)>>$`)

// Stats of one validation run.
type Stats struct {
	Lines, InSubset, Viol int
}

// Validate has TLC judge every executed case three ways (C04Trace.tla):
// it fills Verdict/Reason/ExpOut of each case.
func Validate(ctx *core.Ctx, cases []*Case, label string) (Stats, error) {
	var buf bytes.Buffer
	for _, c := range cases {
		line := map[string]interface{}{
			"prog": c.Prog,
			"go":   map[string]interface{}{"err": c.Go.Err, "out": c.Go.Out},
			"js":   map[string]interface{}{"err": c.JSObs.Err, "out": c.JSObs.Out},
		}
		if c.Direct != nil {
			line["direct"] = true
			line["cls"] = c.Direct
		}
		b, err := json.Marshal(line)
		if err != nil {
			return Stats{}, err
		}
		buf.Write(b)
		buf.WriteByte('\n')
	}
	cfg := "CONSTANT Dev = {}\nINIT TInit\nNEXT TNext\nINVARIANT Report\nINVARIANT FramesOK\nCHECK_DEADLOCK FALSE\n"
	res, err := ctx.RunTLC(core.TLCOpts{Module: "C04Trace", Cfg: cfg, Files: map[string][]byte{"c04_trace.ndjson": buf.Bytes()},
		Workers: 1, Timeout: 12 * time.Minute, Label: label})
	if err != nil {
		return Stats{}, err
	}
	if res.Violated != "" {
		return Stats{}, fmt.Errorf("trace spec reported %s: %.800s", res.Violated, res.Trace)
	}
	for _, c := range cases {
		c.Verdict = "OK"
	}
	var st Stats
	done := false
	for _, t := range res.Tuples {
		if m := reBad.FindStringSubmatch(t); m != nil {
			i, _ := strconv.Atoi(m[1])
			var o struct{ Out string }
			json.Unmarshal([]byte(core.TLAUnquote(m[3])), &o)
			cases[i-1].Verdict = m[2]
			cases[i-1].ExpOut = o.Out
		} else if m := reOut.FindStringSubmatch(t); m != nil {
			i, _ := strconv.Atoi(m[1])
			cases[i-1].Verdict = "OUT"
			cases[i-1].Reason = m[2]
		} else if m := reDone.FindStringSubmatch(t); m != nil {
			done = true
			st.Lines, _ = strconv.Atoi(m[1])
			st.InSubset, _ = strconv.Atoi(m[2])
			st.Viol, _ = strconv.Atoi(m[3])
		}
	}
	if !done || st.Lines != len(cases) {
		n := len(res.Stdout)
		if n > 1200 {
			n = 1200
		}
		return st, fmt.Errorf("trace validation did not consume the whole trace (%d of %d): %s", st.Lines, len(cases), res.Stdout[len(res.Stdout)-n:])
	}
	ctx.AddTraces(int64(st.InSubset))
	return st, nil
}
