package c04

import (
	"fmt"

	"verif/core"
)

// Text alphabet family: one representative of every UTF-8 lead-byte class,
// printable and non-printable (unicode.IsPrint), alone and next to a
// character with the lead byte 0xF0, in every place where the generator
// copies text into the JavaScript: raw text, string literals, map keys, css
// names, message text, globals, case values, params. The characters are the
// ones SoyCommon.C4Bmp / C4Astral admit into the common subset.
var uniReps = []struct {
	name string
	c    string
}{
	{"C3-printable-U+00E9", "é"}, {"C2-nonprintable-U+00AD", "\u00AD"},
	{"E0-printable-U+0800", "\u0800"}, {"E0-nonprintable-U+08E2", "\u08E2"}, {"E2-nonprintable-U+200B", "\u200B"},
	{"E6-printable-U+65E5", "日"},
	{"ED-printable-U+D000", "\uD000"}, {"ED-nonprintable-U+D7FF", "\uD7FF"},
	{"EF-printable-U+FB01", "\uFB01"}, {"EF-nonprintable-U+FEFF", "\uFEFF"}, {"EF-printable-U+FFFD", "\uFFFD"},
	{"F0-printable-U+1F600", "\U0001F600"}, {"F0-nonprintable-U+1D173", "\U0001D173"},
	{"F1-nonprintable-U+50000", "\U00050000"},
	{"F3-nonprintable-U+E0001", "\U000E0001"}, {"F3-printable-U+E0100", "\U000E0100"}, {"F3-nonprintable-U+F0001", "\U000F0001"},
	{"F4-nonprintable-U+100000", "\U00100000"}, {"F4-nonprintable-U+10FFFD", "\U0010FFFD"},
}

func (f *fam) unicodeText() {
	F := "text-alphabet"
	smile := "\U0001F600"
	for _, r := range uniReps {
		for _, pos := range []string{"alone", "before-F0", "after-F0", "doubled"} {
			t := r.c
			switch pos {
			case "before-F0":
				t = r.c + smile
			case "after-F0":
				t = smile + "x" + r.c
			case "doubled":
				t = r.c + r.c + "z" + r.c
			}
			feat := func(where string) string { return fmt.Sprintf("char=%s,where=%s,pos=%s", r.name, where, pos) }
			lit := core.EStr("[" + t + "]")
			for _, ta := range []string{"true", "false"} {
				f.add(F, feat("raw-text"), one(cmds(txt("a"+t+"b<i>")), nil, ta))
				f.add(F, feat("string-literal"), one(cmds(pr(lit), txt("|"), pr(core.EBin("add", lit, vA))), dm("a", core.VInt(1)), ta))
				f.add(F, feat("data-string"), one(cmds(pr(vA), txt("|"), pr(core.EBin("add", vA, core.EStr("!")))), dm("a", core.VStr("<"+t+">")), ta))
			}
			f.add(F, feat("map-literal-key"), one(cmds(core.CLetV("m", core.EMap(t, core.EStr("hit"), "k"+t, core.EInt(2))), pr(core.EBin("elvis", core.EVar("m", core.AExpr(core.EStr(t), false)), core.EStr("miss"))), pr(core.EVar("m", core.AExpr(core.EBin("add", core.EStr("k"), core.EStr(t)), false))), pr(core.EFn("length", core.EFn("keys", core.EVar("m"))))), nil, "false"))
			f.add(F, feat("data-map-key"), one(cmds(pr(core.EBin("elvis", core.EVar("m", core.AExpr(core.EStr(t), true)), core.EStr("miss"))), pr(core.EBin("elvis", core.EVar("m", core.AExpr(vA, false)), core.EStr("miss")))), dm("m", vm(t, core.VStr("hit")), "a", core.VStr(t)), "false"))
			f.add(F, feat("css"), one(cmds(core.CCss(nil, "c"+t), txt(" "), core.CCss(vA, "s"+t), txt(" "), core.CCss(core.EStr(t), "z")), dm("a", core.VStr("base")), "true"))
			f.add(F, feat("switch-case"), one(cmds(core.CSwitch(vA, cmds(core.CCase([]core.E{core.EStr("no"), core.EStr(t)}, cmds(txt("hit"+t)))), core.Opt(true, cmds(txt("miss"))))), dm("a", core.VStr(t)), "false"))
			f.add(F, feat("functions"), one(cmds(pr(core.EFn("strContains", vA, core.EStr(t))), pr(core.EBin("eq", vA, core.EStr("x"+t))), pr(core.EBin("ne", vA, core.EStr(t))), pr(core.ETern(core.EStr(t), core.EStr("T"), core.EStr("F")))), dm("a", core.VStr("x"+t)), "false"))
			g := one(cmds(pr(core.EGlobal("G_STR")), core.CIf(cmds(core.CBr(core.EBin("eq", core.EGlobal("G_STR"), vA), cmds(txt("same")))), core.Opt(true, cmds(txt("differs"))))), dm("a", core.VStr("g"+t)), "true")
			g.Glob = map[string]core.V{"G_STR": core.VStr("g" + t)}
			f.add(F, feat("global"), g)
			f.add(F, feat("call-param"), &core.Program{Bundle: map[string]*core.Tmpl{
				"t.m": {Params: []core.Param{}, Body: cmds(core.CCall("t.c", "none", nil, core.CPV("p", core.EStr(t)), core.CPC("q", cmds(txt(t), pr(core.EStr(t)))))), TA: "true"},
				"t.c": {Params: []core.Param{{Name: "p"}, {Name: "q"}}, Body: cmds(pr(core.EVar("p")), txt("|"), pr(core.EVar("q"))), TA: "false"},
			}, Entry: "t.m", Data: dm(), IJ: core.V{"t": "none"}, Glob: map[string]core.V{}, Plan: noPlan(), Aliases: map[string]bool{}})
			for _, strat := range []string{"", "identity", "reverse"} {
				c := f.add(F, feat("msg")+",catalogue="+orNone(strat), one(cmds(core.CMsg("d", cmds(txt("m"+t+" "), pr(vA), txt(" "+t+"n")))), dm("a", core.VStr(t)), "true"))
				c.Msgs = strat
			}
		}
	}
}
