package c05

import (
	"fmt"
	"math/rand"
	"os"
	"path/filepath"
	"sort"
	"strings"
	"sync"
	"time"

	"verif/core"
)

// BuildInputs assembles the input families (a)..(e) of DESIGN §5 C05.
func BuildInputs(ctx *core.Ctx, paths []ModelPath) ([]Input, map[string]int, error) {
	return buildInputs(ctx, paths, true)
}

// buildInputs: withRest = false gives only the model-derived family (a).
func buildInputs(ctx *core.Ctx, paths []ModelPath, withRest bool) ([]Input, map[string]int, error) {
	r := rand.New(rand.NewSource(ctx.Seed*2654435761 + 17))
	var in []Input
	count := map[string]int{}
	add := func(xs []Input) {
		for _, x := range xs {
			g := x.Family
			if i := strings.Index(g, "/"); i >= 0 {
				g = g[:i]
			}
			count[g]++
		}
		in = append(in, xs...)
	}
	// (a) the SoyLexer state graph
	add(ModelInputs(paths))
	if !withRest {
		return in, count, nil
	}
	// (b) tag sequences
	add(TagSequences(ctx.Thorough(), ctx.Seed, ctx.Pick(40000, 150000)))
	add(TagBodies())
	add(StringHazards(ctx.Pick(400, 4000), ctx.Seed))
	// round 2: whole classes behind the seeded changes that were missed
	add(UnicodeHazards())
	add(AttrHazards())
	add(ValueKindHazards())
	add(LongTailInputs())
	add(LiteralHazards(ctx.Thorough()))
	add(MsgTextHazards(ctx.Thorough(), ctx.Seed))
	// (c) prefixes and (d) token mutations of the corpus and of generated files
	files, err := CorpusFiles()
	if err != nil {
		return nil, nil, err
	}
	for _, name := range sortedKeys(files) {
		text := files[name]
		add(Prefixes("prefix/"+name, text, ctx.Pick(4000, 0), r))
		add(TokenMutations("mutation/"+name, text, ctx.Pick(1200, 0), r))
	}
	bodies := []string{"", hdr + "{$x}\n{/template}\n", "{namespace n}", "hello", "{", "{$x", "{$x}", "}", "{namespace n}\n/** d */\n{template .t}\n{/template}\n"}
	for _, name := range sortedKeys(files) {
		if len(files[name]) < 4096 {
			bodies = append(bodies, files[name])
		}
	}
	for _, v := range GeneratedFiles(6, ctx.Seed+1) {
		bodies = append(bodies, v.Text(), strings.TrimSuffix(v.Text(), "\n"))
	}
	add(SpecialStartInputs(bodies))
	for i, v := range GeneratedFiles(ctx.Pick(60, 200), ctx.Seed) {
		add(Prefixes(fmt.Sprintf("prefix/gen%d", i), v.Text(), 0, r))
		add(TokenMutations(fmt.Sprintf("mutation/gen%d", i), v.Text(), ctx.Pick(40, 0), r))
	}
	// expression prefixes: every prefix of every tag body of the corpus
	seen := map[string]bool{}
	for _, name := range sortedKeys(files) {
		for _, tok := range Tokens(files[name]) {
			if strings.HasPrefix(tok, "{") && strings.HasSuffix(tok, "}") && len(tok) < 80 {
				body := strings.Trim(tok, "{}")
				if i := strings.IndexByte(body, ' '); i > 0 {
					body = body[i+1:]
				}
				for j := 0; j <= len(body); j++ {
					if !seen[body[:j]] {
						seen[body[:j]] = true
						add([]Input{ExprInput("prefix/expr", body[:j])})
					}
				}
			}
		}
	}
	// (e) random bytes
	add(RandomInputs(ctx.Pick(30000, 300000), ctx.Seed))
	return in, count, nil
}

// hangFeature names the structural signature of a suspected hang.
func hangFeature(r *Result) string {
	f := r.Frame
	switch r.Spin {
	case "lexer":
		switch {
		case f == "lexCss":
			return "hang:eof-in-css-body"
		case f == "lexHeaderParam":
			return "hang:eof-in-header-param-type"
		case strings.Contains(f, "stringLexer"):
			return "hang:eof-in-string"
		case f == "lexLineComment":
			return "hang:eof-in-line-comment"
		case f == "lexBlockComment":
			return "hang:eof-in-block-comment"
		case f == "lexSoyDoc" || f == "lexSoyDocParam":
			return "hang:eof-in-soydoc"
		case f == "lexLiteral":
			return "hang:eof-in-literal"
		}
		return "hang:scanner-spins-in-" + f
	case "parser-zero-items":
		return "hang:" + f + "-loop-ignores-closed-token-stream"
	case "parser":
		return "hang:parser-spins-in-" + f
	case "steps":
		return "steps:scanner-exceeds-step-bound-in-" + f
	case "blocked":
		return "hang:parser-and-scanner-blocked-in-" + f
	}
	return "hang:stuck-in-" + f
}

// Replay is the self-contained replay case of a violation.
type Replay struct {
	Entry    string       `json:"entry"`
	Name     string       `json:"name"`
	Text     string       `json:"text"`
	TextB64  []byte       `json:"text_bytes"`
	Family   string       `json:"family"`
	Expected string       `json:"expected"`
	Observed interface{}  `json:"observed"`
	Probe1   *ProbeReport `json:"probe1,omitempty"`
	Probe2   *ProbeReport `json:"probe2,omitempty"`
	Similar  int          `json:"inputs_with_the_same_signature"`
}

func replayOf(in *Input, expected string, observed interface{}) *Replay {
	return &Replay{Entry: in.Entry, Name: in.Name, Text: string(in.Text), TextB64: in.Text, Family: in.Family, Expected: expected, Observed: observed}
}

// Outcome groups of a C05 run.
type Summary struct {
	Returned, Tree, Error int
	Suspects              map[string][]int // feature -> input indices
	Panics                map[string][]int
	Crashes               map[string][]int
	Lost                  []int
	MaxRatio              float64
	MaxRatioInput         int
	Anomalies             map[string]int
	LeakFlagged           int
}

// Summarize classifies the results.
func Summarize(inputs []Input, results []Result) *Summary {
	s := &Summary{Suspects: map[string][]int{}, Panics: map[string][]int{}, Crashes: map[string][]int{}, Anomalies: map[string]int{}, MaxRatioInput: -1}
	for i := range results {
		r := &results[i]
		switch r.Outcome {
		case "tree", "error":
			s.Returned++
			if r.Outcome == "tree" {
				s.Tree++
			} else {
				s.Error++
			}
			if n := len(inputs[i].Text); n >= 16 {
				if q := float64(r.Steps) / float64(n); q > s.MaxRatio {
					s.MaxRatio, s.MaxRatioInput = q, i
				}
			}
			for _, a := range r.Anomalies {
				s.Anomalies[a]++
			}
			if len(r.Leaks) > 0 {
				s.LeakFlagged++
			}
		case "suspect":
			f := hangFeature(r)
			s.Suspects[f] = append(s.Suspects[f], i)
		case "panic":
			f := "panic:" + PanicKind(r.Panic) + "@" + r.PanicFrame
			s.Panics[f] = append(s.Panics[f], i)
		case "crash":
			f := "crash-in-scanner-goroutine:" + PanicKind(r.Panic) + "@" + r.PanicFrame
			s.Crashes[f] = append(s.Crashes[f], i)
		default:
			s.Lost = append(s.Lost, i)
		}
	}
	return s
}

// shortest returns up to n indices of the smallest inputs (tiny inputs make
// the best replay cases; only inputs < 4 KB can be declared hangs).
func shortest(idx []int, inputs []Input, n int) []int {
	c := append([]int(nil), idx...)
	sort.SliceStable(c, func(a, b int) bool { return len(inputs[c[a]].Text) < len(inputs[c[b]].Text) })
	var out []int
	seen := map[string]bool{}
	for _, i := range c {
		k := inputs[i].Entry + "|" + string(inputs[i].Text)
		if !seen[k] {
			seen[k] = true
			out = append(out, i)
		}
		if len(out) == n {
			break
		}
	}
	return out
}

// Confirmer takes the verdicts on suspects, panics and crashes: the shortest
// representatives of every signature are re-run in fresh processes (probe); a
// hang is declared when a tiny input exceeds the 10 s watchdog twice with the
// same frame in both goroutine dumps.
type Confirmer struct {
	ctx       *core.Ctx
	mu        sync.Mutex
	n         int
	done      map[string]bool
	confirmed map[string]int
	unrepro   map[string]int
	tally     map[string]interface{}
}

// NewConfirmer creates the confirmer of a run.
func NewConfirmer(ctx *core.Ctx) *Confirmer {
	return &Confirmer{ctx: ctx, done: map[string]bool{}, confirmed: map[string]int{}, unrepro: map[string]int{}, tally: map[string]interface{}{}}
}

type confirmJob struct {
	feature, family, kind string
	idx, all              []int
}

// Process confirms the signatures of s that were not processed before. Inputs
// whose suspicion is not reproduced by the probes are re-run in the slow lane
// (results is updated in place).
func (c *Confirmer) Process(inputs []Input, results []Result, s *Summary) {
	ctx := c.ctx
	dir := filepath.Join(core.VerifDir, "out", "tlc")
	var jobs []confirmJob
	add := func(m map[string][]int, fam, kind string) {
		for f, idx := range m {
			c.mu.Lock()
			seen := c.done[f]
			c.done[f] = true
			if t, ok := c.tally[f].(map[string]int); ok {
				t["inputs"] += len(idx)
			}
			c.mu.Unlock()
			if seen {
				continue
			}
			fm := fam
			if strings.HasPrefix(f, "steps:") {
				fm = "proportional"
			}
			jobs = append(jobs, confirmJob{f, fm, kind, shortest(idx, inputs, 2), idx})
		}
	}
	add(s.Suspects, "termination", "hang")
	add(s.Panics, "no-panic", "panic")
	add(s.Crashes, "no-panic", "crash")
	sort.Slice(jobs, func(a, b int) bool { return jobs[a].feature < jobs[b].feature })
	// round 0: the shortest input of every signature; round 1: the second
	// shortest for the signatures the first did not confirm
	for round := 0; round < 2; round++ {
		var wg sync.WaitGroup
		for _, j := range jobs {
			c.mu.Lock()
			have := c.confirmed[j.feature] > 0
			c.mu.Unlock()
			if have || round >= len(j.idx) {
				continue
			}
			i := j.idx[round]
			wg.Add(1)
			c.mu.Lock()
			c.n += 2
			k := c.n
			c.mu.Unlock()
			go func(j confirmJob, i, k int) {
				defer wg.Done()
				c.confirmOne(j, &inputs[i], &results[i], dir, k)
			}(j, i, k)
		}
		wg.Wait()
	}
	// slow lane for signatures that no probe reproduced
	var again []int
	for _, j := range jobs {
		c.mu.Lock()
		ok := c.confirmed[j.feature] > 0
		c.tally[j.feature] = map[string]int{"inputs": len(j.all), "confirmed_by_probe": c.confirmed[j.feature]}
		c.mu.Unlock()
		if !ok && j.kind == "hang" {
			again = append(again, j.all...)
		}
	}
	if len(again) > 0 {
		sort.Ints(again)
		sub := make([]Input, len(again))
		for k, i := range again {
			sub[k] = inputs[i]
		}
		slow := NewPool(8)
		slow.Slow = true
		slow.SeqLen = 50
		rs := slow.Run(sub)
		still := 0
		for k, i := range again {
			rs[k].ID = i
			inputs[i].ID = i
			if rs[k].Outcome == "tree" || rs[k].Outcome == "error" {
				results[i] = rs[k]
			} else {
				still++
			}
		}
		ctx.Extra["slow_lane_reruns"] = len(again)
		if still > 0 {
			ctx.ToolError("%d suspected hangs were not reproduced by the 10 s probes but did not finish in the slow lane either: tool trouble, not a violation", still)
		}
	}
}

func (c *Confirmer) confirmOne(j confirmJob, in *Input, r *Result, dir string, k int) {
	ctx := c.ctx
	var p1, p2 *ProbeReport
	var e1, e2 error
	var w2 sync.WaitGroup
	w2.Add(2)
	go func() { defer w2.Done(); p1, e1 = Probe(in, dir, k) }()
	go func() { defer w2.Done(); p2, e2 = Probe(in, dir, k+1) }()
	w2.Wait()
	if e1 != nil || e2 != nil {
		ctx.ToolError("probe of a suspect input failed: %v %v", e1, e2)
		return
	}
	ok := func() {
		c.mu.Lock()
		c.confirmed[j.feature]++
		c.mu.Unlock()
	}
	miss := func(why string) {
		c.mu.Lock()
		c.unrepro[j.feature+why]++
		c.mu.Unlock()
	}
	sig := core.Sig{Family: j.family, Feature: j.feature}
	rp := replayOf(in, "parse returns a tree or an error; no panic; no hang", *r)
	rp.Probe1, rp.Probe2, rp.Similar = p1, p2, len(j.all)
	what := fmt.Sprintf("%s(%q)", entryName(in), clip(string(in.Text), 80))
	switch j.kind {
	case "hang":
		// "the same frame in both dumps": the same function when the goroutine
		// sits in one loop; when it keeps calling state functions (hook events
		// advance) the frame that stays is the run loop / entry point itself,
		// i.e. the same goroutine kind is busy in all four dumps.
		same := func(p *ProbeReport) bool {
			return p.Kind != "" && p.Kind == p.Kind2 && (p.Frame1 == p.Frame2 || p.Events2 > p.Events1)
		}
		hung := !p1.Returned && !p2.Returned && same(p1) && same(p2) && p1.Kind == p2.Kind
		if hung && strings.HasPrefix(j.feature, "steps:") {
			sig = core.Sig{Family: "termination", Feature: "hang:scanner-loops-without-consuming-in-" + strings.TrimPrefix(j.feature, "steps:scanner-exceeds-step-bound-in-")}
		}
		switch {
		case hung && len(in.Text) < 4096:
			ok()
			how := "did not return within 10 s in two fresh processes; both goroutine dumps (1 s apart)"
			if p1.CutShort || p2.CutShort {
				how = fmt.Sprintf("did not return in two fresh processes and drove the heap past 2 GB (%d MB after %d ms: the 10 s watchdog was cut short); both goroutine dumps", p1.HeapMB, p1.WaitedMs)
			}
			ctx.Violation(sig, fmt.Sprintf("%s %s show the %s in %s; %d inputs of this run have this signature",
				what, how, p1.Kind, p1.Frame1, len(j.all)), rp)
		case hung:
			ok() // not judged (>= 4 KB), but reproduced: no slow lane
			miss(" (input >= 4 KB: not judged)")
		case p1.Returned && p2.Returned && p1.Outcome == "crash" && p2.Outcome == "crash":
			ok()
			ctx.Violation(core.Sig{Family: "no-panic", Feature: "crash-in-scanner-goroutine:" + PanicKind(p1.Panic) + "@" + p1.Frame1},
				fmt.Sprintf("%s kills the process: %s", what, p1.Panic), rp)
		case p1.Returned && p2.Returned && strings.HasPrefix(j.feature, "steps:") &&
			p1.Steps > int64(stepBound(len(in.Text))) && p2.Steps > int64(stepBound(len(in.Text))):
			ok()
			ctx.Violation(sig, fmt.Sprintf("%s: more than %d*len+%d state-function steps for %d bytes (not proportional to the input)",
				what, StepC, StepD, len(in.Text)), rp)
		default:
			miss("")
		}
	case "panic":
		if p1.Outcome == "panic" && p2.Outcome == "panic" {
			ok()
			ctx.Violation(sig, fmt.Sprintf("%s panics instead of returning an error: %s", what, p1.Panic), rp)
		} else {
			miss("")
			ctx.ToolError("a panic seen in a worker did not reproduce in fresh processes (%s)", j.feature)
		}
	case "crash":
		if p1.Outcome == "crash" && p2.Outcome == "crash" {
			ok()
			ctx.Violation(sig, fmt.Sprintf("%s panics in the scanner goroutine and kills the process (no recover possible): %s in %s",
				what, p1.Panic, p1.Frame1), rp)
		} else {
			miss("")
			ctx.ToolError("a worker crash did not reproduce in fresh processes (%s): stderr %s", j.feature, clip(r.Stack, 300))
		}
	}
}

// Finish writes the tallies to the evidence.
func (c *Confirmer) Finish() {
	c.ctx.Extra["signatures"] = c.tally
	if len(c.unrepro) > 0 {
		c.ctx.Extra["suspicions_not_reproduced_by_probe"] = c.unrepro
	}
}

func entryName(in *Input) string {
	switch in.Entry {
	case "expr":
		return "parse.Expr"
	case "globals":
		return "soy.ParseGlobals"
	case "bundle":
		return "soy.Bundle.Compile"
	}
	return "parse.SoyFile"
}

func clip(s string, n int) string {
	if len(s) > n {
		return s[:n] + "..."
	}
	return s
}

// Coverage compares the (fn, class, fn') returns the workers observed with the
// EDGE set of SoyLexer.tla.
func Coverage(ctx *core.Ctx, model, real map[string]struct{}) {
	if len(model) == 0 {
		return
	}
	var uncovered, drift []string
	for e := range model {
		if _, ok := real[e]; !ok {
			uncovered = append(uncovered, e)
		}
	}
	for e := range real {
		if _, ok := model[e]; !ok {
			drift = append(drift, e)
		}
	}
	sort.Strings(uncovered)
	sort.Strings(drift)
	cov := map[string]interface{}{
		"model_transitions":     len(model),
		"covered_by_real_runs":  len(model) - len(uncovered),
		"uncovered":             uncovered,
		"real_but_not_in_model": drift,
	}
	ctx.Extra["soylexer_transition_coverage"] = cov
}

// SampleTraces picks up to n recorded traces, seeded, plus every trace that
// shows a protocol anomaly or a leak flag.
func SampleTraces(results []Result, n int, seed int64) (events []string, idx []int) {
	var cand []int
	for i := range results {
		if results[i].Events != "" {
			cand = append(cand, i)
		}
	}
	r := rand.New(rand.NewSource(seed*31 + 7))
	r.Shuffle(len(cand), func(a, b int) { cand[a], cand[b] = cand[b], cand[a] })
	sort.SliceStable(cand, func(a, b int) bool {
		fa := len(results[cand[a]].Anomalies)+len(results[cand[a]].Leaks) > 0
		fb := len(results[cand[b]].Anomalies)+len(results[cand[b]].Leaks) > 0
		return fa && !fb
	})
	if len(cand) > n {
		cand = cand[:n]
	}
	for _, i := range cand {
		events = append(events, results[i].Events)
		idx = append(idx, i)
	}
	return
}

// MarkTraces asks the workers to ship the event list of every k-th input and
// of all small "interesting" families.
func MarkTraces(inputs []Input, every int) {
	for i := range inputs {
		if (i%every == 0 || strings.HasPrefix(inputs[i].Family, "replay/")) && len(inputs[i].Text) <= 200 {
			inputs[i].Trace = true
		}
	}
}

// Run is the entry point of the C05 checker.
func Run(ctx *core.Ctx) {
	ctx.Rule = "inputs: (entry point, byte string); families: (a) one input per (control state x character class) transition of the SoyLexer.tla state graph incl. EOF in every state (paths enumerated by TLC, spelled with representative characters), (b) all sequences of <=2 (thorough: + sampled triples) entries of the full tag dictionary and of every tag cut before its closing brace, at file level, in a template and inside every block kind (closed and left open), (c) every byte prefix of testdata/*.soy and of generated valid files, (d) single-token deletions/duplications/adjacent swaps, (e) seeded random bytes incl. invalid UTF-8, (f) replays of the TLC counterexamples of every model deviation; each goes to parse.SoyFile or parse.Expr in a worker sub-process; obligations: returns (tree or error), no panic, scanner steps <= 12*len+64. distinct_nontrivial = distinct (entry, text) with len>0"
	ctx.Trusted = append(ctx.Trusted, "Go harness: worker pool, triage, probe, concretiser of model paths; reflection on the unexported fields state/input/pos of parse.lexer (coverage only)")
	ctx.Assumptions = append(ctx.Assumptions,
		"a hang is declared only when an input < 4 KB exceeds the 10 s watchdog in two fresh processes with the same frame in two goroutine dumps 1 s apart; the in-worker triage (no hook event for ~15 ms with the scanner goroutine busy in the same function, or > 512 zero items received after close) only selects candidates",
		"for each structural signature the 2 shortest inputs are confirmed by probe; the other inputs with the same signature are counted in evidence (signatures) and not re-run",
		"SoyLexer.tla abstracts characters to 28 classes and keyword look-ahead to non-deterministic choices (over-approximation); drift between model and code is reported in evidence, never as a violation")
	if ctx.ReplayPath != "" {
		RunReplay(ctx)
		return
	}
	if os.Getenv("VERIF_DEV_ONLY") == "scaling" {
		// development aid: only the scaling check; never a clean exit
		ctx.ToolError("only the scaling check was run (VERIF_DEV_ONLY)")
		ctx.Extra["scaling"] = ScalingCheck(ctx)
		return
	}
	t0 := time.Now()
	phase := map[string]float64{}
	// the scaling law of the "proportional" clause (CPU time of worker processes)
	var sw sync.WaitGroup
	sw.Add(1)
	var scaleSecs float64
	var scaleRes []ScaleResult
	go func() {
		defer sw.Done()
		ts := time.Now()
		scaleRes = ScalingCheck(ctx)
		scaleSecs = time.Since(ts).Seconds()
	}()
	models := StartModels(ctx, "paths,lexer,parse-c05")
	// batch 1: the families that do not depend on TLC output run while TLC works
	inputs, counts, err := BuildInputs(ctx, nil)
	if err != nil {
		ctx.ToolError("%v", err)
		return
	}
	MarkTraces(inputs, ctx.Pick(25, 20))
	pool := NewPool(16)
	pool.SeqLen = 200
	results := pool.Run(inputs)
	phase["batch1_s"] = time.Since(t0).Seconds()
	models.StartRest()
	conf := NewConfirmer(ctx)
	var cw sync.WaitGroup
	cw.Add(1)
	go func() {
		defer cw.Done()
		conf.Process(inputs, results, Summarize(inputs, results))
	}()
	// batch 2: family (a) from the SoyLexer state graph and the replays of the
	// deviation counterexamples
	paths := models.WaitPaths()
	if len(paths) == 0 {
		ctx.ToolError("SoyLexer path enumeration produced no paths")
	}
	in2, c2, _ := buildInputs(ctx, paths, false)
	for k, v := range c2 {
		counts[k] += v
	}
	rep := models.ReplayInputs()
	counts["replay"] = len(rep)
	in2 = append(in2, rep...)
	MarkTraces(in2, 7)
	t1 := time.Now()
	res2 := pool.Run(in2)
	phase["batch2_s"] = time.Since(t1).Seconds()
	cw.Wait()
	phase["confirm1_done_s"] = time.Since(t0).Seconds()
	t2 := time.Now()
	conf.Process(in2, res2, Summarize(in2, res2))
	phase["confirm2_s"] = time.Since(t2).Seconds()
	conf.Finish()
	inputs = append(inputs, in2...)
	results = append(results, res2...)
	for i := range results {
		results[i].ID = i
	}
	var tw sync.WaitGroup
	var traceRej map[string]int
	var traceSecs float64
	tw.Add(1)
	go func() {
		defer tw.Done()
		t3 := time.Now()
		traceRej = validateSample(ctx, results)
		traceSecs = time.Since(t3).Seconds()
	}()
	s := Summarize(inputs, results)
	ctx.AddEvals(int64(s.Returned))
	seen := map[string]struct{}{}
	for i := range inputs {
		if len(inputs[i].Text) > 0 {
			k := inputs[i].Entry + "|" + string(inputs[i].Text)
			if _, ok := seen[k]; !ok {
				seen[k] = struct{}{}
				ctx.Distinct(k)
			}
		}
	}
	for _, i := range []int{0, len(inputs) / 3, 2 * len(inputs) / 3, len(inputs) - 1} {
		if i >= 0 && i < len(inputs) {
			ctx.Sample(map[string]interface{}{"entry": inputs[i].Entry, "family": inputs[i].Family, "text": clip(string(inputs[i].Text), 120),
				"outcome": results[i].Outcome, "steps": results[i].Steps, "err": clip(results[i].Err, 120)})
		}
	}
	us := map[string]int64{}
	for i := range inputs {
		g := inputs[i].Family
		if k := strings.Index(g, "/"); k >= 0 {
			g = g[:k]
		}
		us[g+"_ms"] += results[i].Micros / 1000
		if results[i].Outcome == "suspect" {
			us["suspects_"+results[i].Spin+"_ms"] += results[i].Micros / 1000
		}
	}
	ctx.Extra["worker_ms_per_family"] = us
	ctx.Extra["inputs_per_family"] = counts
	ctx.Extra["outcomes"] = map[string]int{"tree": s.Tree, "error": s.Error, "suspect_hang": countIdx(s.Suspects), "panic": countIdx(s.Panics),
		"crash": countIdx(s.Crashes), "lost": len(s.Lost)}
	ctx.Extra["worker_restarts"] = pool.Restarts
	ctx.Extra["max_steps_per_byte"] = s.MaxRatio
	ctx.Extra["protocol_anomalies"] = s.Anomalies
	ctx.Extra["leak_flags_seen(C18)"] = s.LeakFlagged
	if len(s.Lost) > 0 {
		ctx.ToolError("%d inputs were lost by their worker (first: %s)", len(s.Lost), results[s.Lost[0]].Err)
	}
	tw.Wait()
	sw.Wait()
	phase["scaling_s"] = scaleSecs
	ctx.Extra["scaling"] = scaleRes
	phase["trace_validation_s"] = traceSecs
	if len(traceRej) > 0 {
		// order anomalies are drift of the implementation-shaped protocol;
		// return-before-scanner-exit is property C18 and judged there.
		ctx.Extra["protocol_trace_rejections"] = traceRej
	}
	Coverage(ctx, modelEdges(models), pool.Edges())
	models.Finish()
	ctx.Extra["phase_seconds"] = phase
}

// validateSample has TLC validate a seeded sample of the recorded traces (M3).
func validateSample(ctx *core.Ctx, results []Result) map[string]int {
	evs, _ := SampleTraces(results, ctx.Pick(4000, 40000), ctx.Seed)
	rej := map[string]int{}
	for lo := 0; lo < len(evs); lo += 10000 {
		hi := lo + 10000
		if hi > len(evs) {
			hi = len(evs)
		}
		bad, err := ValidateTraces(ctx, evs[lo:hi], "protocol-trace-validation")
		if err != nil {
			ctx.ToolError("%v", err)
			break
		}
		for _, b := range bad {
			rej[b.Rule]++
		}
	}
	return rej
}

func modelEdges(m *Models) map[string]struct{} {
	m.wg.Wait()
	return m.Edges
}

func countIdx(m map[string][]int) int {
	n := 0
	for _, v := range m {
		n += len(v)
	}
	return n
}

// RunReplay re-runs one saved replay case.
func RunReplay(ctx *core.Ctx) {
	var v struct {
		Sig    core.Sig `json:"sig"`
		Replay Replay   `json:"replay"`
	}
	if err := readJSON(ctx.ReplayPath, &v); err != nil {
		ctx.ToolError("cannot read replay: %v", err)
		return
	}
	in := Input{Entry: v.Replay.Entry, Name: v.Replay.Name, Text: v.Replay.TextB64, Family: "replay-file"}
	if in.Text == nil {
		in.Text = []byte(v.Replay.Text)
	}
	inputs := []Input{in}
	pool := NewPool(1)
	results := pool.Run(inputs)
	s := Summarize(inputs, results)
	ctx.AddEvals(int64(s.Returned))
	ctx.Sample(results[0])
	fmt.Printf("replay: outcome=%s spin=%s frame=%s err=%s\n", results[0].Outcome, results[0].Spin, results[0].Frame, clip(results[0].Err, 200))
	conf := NewConfirmer(ctx)
	conf.Process(inputs, results, s)
	conf.Finish()
}
