package c05

import (
	"fmt"
	"math/rand"
	"os"
	"path/filepath"
	"sort"
	"strings"

	"verif/core"
)

// ---------------------------------------------------------------------------
// (b) the tag dictionary: every opening, middle and closing tag of the
// language, comments, soydoc and some text

// Tags is the full tag dictionary.
var Tags = []string{
	"{namespace a.b}", `{namespace a.b autoescape="false"}`, "{template .t}", `{template .t private="true"}`, "{/template}",
	"{deltemplate a.b}", "{/deltemplate}", "{delpackage a}", "{alias a.b}",
	"{if $x}", "{elseif $y}", "{else}", "{/if}",
	"{switch $x}", "{case 1}", "{case 'a', 2}", "{default}", "{/switch}",
	"{foreach $x in $y}", "{ifempty}", "{/foreach}", "{for $i in range(3)}", "{/for}",
	"{let $x: 1/}", "{let $x}", `{let $x kind="html"}`, "{/let}",
	"{call .t}", "{call .t/}", `{call .t data="all"/}`, `{call .t data="$x"}`, `{call name=".t"/}`,
	"{param a: 1/}", "{param a}", "{/param}", `{param key="a" value="1"/}`, `{param key="a"}`, "{/call}",
	"{delcall a.b}", "{/delcall}",
	`{msg desc=""}`, `{msg desc="d" meaning="m"}`, "{/msg}", "{plural $n}", "{/plural}",
	"{css a}", "{css $x, a}", "{css}", "{literal}", "{/literal}", "{log}", "{/log}", "{debugger}",
	"{print $x}", "{print $x|id}", "{$x}", "{$x|truncate:5,true}", "{{$x}}", "{{if $x}}",
	"{@param x: int}", "{@param? x: any}", "{@param x: list<int> = [1]}", "{@param}",
	"{sp}", "{nil}", `{\n}`, `{\r}`, `{\t}`, "{lb}", "{rb}",
	"/** @param x */", "/** doc\n * @param? y\n */", "/** @param */", "// c\n", " // c", "/* c */",
	"{$x ?: 1}", "{$a ? 1 : 2}", "{[1, 2]}", "{['a': 1]}", "{[:]}", "{f(1, 2)}", "{$a.b?.c[0]?[1].2}",
	`{'s' + "t"}`, "{not $x and -1 < 2}", "{1 2}", "{$x +}", "{08}", "{0x1F}", "{1.5e3}",
	"hello", " <b>\n  x ", "}", "{", "{{", "{/", "{\\", "{/foo}", "{foo $x}", "é", "\xff",
	`{'a\'b\\c\n\u00e9'}`, `{'\u12'}`, `{'\q'}`, `{"x\"y"}`, `{['k\u1': 1]}`,
}

// Truncated returns the tag cut before its closing delimiter ("" if the tag
// has none).
func Truncated(tag string) string {
	switch {
	case strings.HasSuffix(tag, "}}"):
		return tag[:len(tag)-2]
	case strings.HasSuffix(tag, "/}"):
		return tag[:len(tag)-2]
	case strings.HasSuffix(tag, "*/"):
		return tag[:len(tag)-2]
	case strings.HasPrefix(tag, "{") && strings.HasSuffix(tag, "}") && len(tag) > 2:
		return tag[:len(tag)-1]
	}
	return ""
}

// Dictionary is Tags plus their truncations.
func Dictionary() []string {
	seen := map[string]bool{}
	var out []string
	for _, t := range Tags {
		for _, s := range []string{t, Truncated(t)} {
			if s != "" && !seen[s] {
				seen[s] = true
				out = append(out, s)
			}
		}
	}
	return out
}

// Context places a tag sequence at a level of the file.
type Context struct {
	Name, Pre, Suf string
	Open           bool // no closing suffix: the input ends inside the block
}

const hdr = "{namespace n}\n{template .t}\n"

// Contexts lists file level, template level and the inside of each block kind,
// each closed and left open.
func Contexts() []Context {
	closed := []Context{
		{"file", "", "", false},
		{"template", hdr, "\n{/template}\n", false},
		{"if", hdr + "{if $c}", "{/if}{/template}", false},
		{"else", hdr + "{if $c}a{else}", "{/if}{/template}", false},
		{"switch-case", hdr + "{switch $c}{case 1}", "{/switch}{/template}", false},
		{"switch", hdr + "{switch $c}", "{/switch}{/template}", false},
		{"foreach", hdr + "{foreach $i in $l}", "{/foreach}{/template}", false},
		{"ifempty", hdr + "{foreach $i in $l}a{ifempty}", "{/foreach}{/template}", false},
		{"for", hdr + "{for $i in range(2)}", "{/for}{/template}", false},
		{"msg", hdr + `{msg desc="d"}`, "{/msg}{/template}", false},
		{"plural-case", hdr + `{msg desc="d"}{plural $n}{case 1}`, "{default}x{/plural}{/msg}{/template}", false},
		{"plural", hdr + `{msg desc="d"}{plural $n}`, "{/plural}{/msg}{/template}", false},
		{"call", hdr + "{call .u}", "{/call}{/template}", false},
		{"param", hdr + "{call .u}{param p}", "{/param}{/call}{/template}", false},
		{"let", hdr + "{let $v}", "{/let}{/template}", false},
		{"log", hdr + "{log}", "{/log}{/template}", false},
	}
	out := append([]Context(nil), closed...)
	for _, c := range closed[1:] {
		out = append(out, Context{c.Name + "-open", c.Pre, "", true})
	}
	return out
}

// FileInput makes a parse.SoyFile input.
func FileInput(family, text string) Input {
	return Input{Entry: "file", Name: "f.soy", Text: []byte(text), Family: family}
}

// ExprInput makes a parse.Expr input.
func ExprInput(family, text string) Input {
	return Input{Entry: "expr", Text: []byte(text), Family: family}
}

// coreTag reports whether the dictionary entry belongs to the core dictionary
// (one spelling per tag kind) used for the complete pair family of the quick
// tier.
func coreTag(t string) bool {
	for _, x := range []string{`autoescape=`, `private=`, "{deltemplate", "{/deltemplate", "{delpackage", "{case 'a'", `kind="html"`, `data="all"`,
		`{call name=`, `{param key="a"}`, "{delcall", "{/delcall", `meaning="m"`, "{print $x|id", "{{if", "{@param? ", `{\r`, `{\t`, "{nil", "{rb",
		"/** doc", "/** @param *", " // c", "{$a ?", "{[:]", "{['a'", "{$a.b", "{not ", "{0x", "{1.5", " <b>", "{{", "{\\", "\xff", "{css}", "{@param}", "{for ", "{/for"} {
		if strings.HasPrefix(t, x) || strings.Contains(t, x) && len(x) > 6 {
			return false
		}
	}
	return true
}

// TagSequences builds family (b): sequences of dictionary entries in contexts.
//
//	quick:    singles of the full dictionary in every context; all pairs of
//	          the core dictionary in 8 contexts; a seeded sample of nSample
//	          pairs of the full dictionary over all contexts;
//	thorough: all pairs of the full dictionary in every context plus nSample
//	          seed-sampled triples.
func TagSequences(thorough bool, seed int64, nSample int) []Input {
	dict := Dictionary()
	ctxs := Contexts()
	var core []string
	for _, t := range dict {
		if coreTag(t) {
			core = append(core, t)
		}
	}
	quickCtx := map[string]bool{"file": true, "template": true, "if": true, "switch": true, "msg": true, "call": true, "param": true, "template-open": true}
	var out []Input
	for _, c := range ctxs {
		out = append(out, FileInput("tags/0/"+c.Name, c.Pre+c.Suf))
		for _, a := range dict {
			out = append(out, FileInput("tags/1/"+c.Name, c.Pre+a+c.Suf))
		}
		switch {
		case thorough:
			for _, a := range dict {
				for _, b := range dict {
					out = append(out, FileInput("tags/2/"+c.Name, c.Pre+a+b+c.Suf))
				}
			}
		case quickCtx[c.Name]:
			for _, a := range core {
				for _, b := range core {
					out = append(out, FileInput("tags/2/"+c.Name, c.Pre+a+b+c.Suf))
				}
			}
		}
	}
	r := rand.New(rand.NewSource(seed*7919 + 3))
	for i := 0; i < nSample; i++ {
		c := ctxs[r.Intn(len(ctxs))]
		s := dict[r.Intn(len(dict))] + dict[r.Intn(len(dict))]
		k := "2s"
		if thorough {
			s += dict[r.Intn(len(dict))]
			k = "3"
		}
		out = append(out, FileInput("tags/"+k+"/"+c.Name, c.Pre+s+c.Suf))
	}
	return out
}

// TagBodies gives the inside of every dictionary tag as an expression input.
func TagBodies() []Input {
	var out []Input
	seen := map[string]bool{}
	add := func(s string) {
		if !seen[s] {
			seen[s] = true
			out = append(out, ExprInput("expr/tag-body", s))
		}
	}
	for _, t := range Dictionary() {
		if strings.HasPrefix(t, "{") {
			b := strings.TrimLeft(t, "{")
			add(b)
			add(strings.TrimRight(b, "}"))
			for _, kw := range []string{"print ", "if ", "switch ", "case ", "let $x: ", "param a: "} {
				if strings.HasPrefix(b, kw) {
					add(strings.TrimRight(strings.TrimPrefix(b, kw), "/}"))
				}
			}
		}
	}
	for _, s := range []string{"", " ", "1", "1 2 3", "$x $y", "$a + 1 )", "'a' 'b'", "f(1) 2", "[1] [2]", "1,", "$x ? 1 : 2 3",
		"-", "not", "(", ")", "(1", "[", "[1", "[1,", "['a':", "f(", "f(1", "$a[", "$a?[1", "$a ?: ", "1 ?", "1 ? 2", "1 ? 2 :",
		"'abc", "\"abc", "'a\\", "0x", "1.", "1e", "@", "@param", "@param x: ", "#", "}", "{", "/}", "/*", "//", "\xff\xfe", "é", "$é"} {
		add(s)
	}
	return out
}

// ---------------------------------------------------------------------------
// string-literal hazards: every escape, truncated and malformed escapes, in
// print tags, attribute values, map keys, commands, and as expressions

// StringBodies are the insides of string literals (between the quotes).
func StringBodies(n int, seed int64) []string {
	out := []string{"", "a", `\\`, `\'`, `\"`, `\n`, `\r`, `\t`, `\b`, `\f`, `\u00e9`, `\u1234`, `\uABCD`, `\uabcd`, `a\\b\'c\nd\u0041e`,
		`\`, `\u`, `\u1`, `\u12`, `\u123`, `\uZZZZ`, `\u12G4`, `\u 123`, `\q`, `\0`, `\x41`, `\U00000041`, `\\u12`, `\\\`, `\\\u12`,
		`price: \u20A`, `price: \u20`, `price: \u2`, `price: \u`, `x\`, `\u12é`, `é\u12`, `\ué`, "\\u12\xff", "\xff\\", `\u00`, `\u0000`, `\uD83D`,
		`\uD83D\uDE00`, `"`, `a"b`, `\n\`, `{`, `}`, `{$x}`, `*/`, `/*`, `//`, "a\nb", "\t"}
	r := rand.New(rand.NewSource(seed*48271 + 29))
	alpha := []string{`\`, "u", "0", "1", "A", "f", "G", "'", `"`, "n", "q", "é", " ", "x", "\xff", "{", "}"}
	for i := 0; i < n; i++ {
		var sb strings.Builder
		for k := r.Intn(8); k >= 0; k-- {
			sb.WriteString(alpha[r.Intn(len(alpha))])
		}
		out = append(out, sb.String())
	}
	return out
}

// StringHazards places every string body, single- and double-quoted, in
// expressions, print tags, commands, map keys and quoted attribute values.
func StringHazards(n int, seed int64) []Input {
	var out []Input
	goq := func(s string) string { // the text as the value of a double-quoted attribute
		return strings.NewReplacer(`\`, `\\`, `"`, `\"`).Replace(s)
	}
	for _, b := range StringBodies(n, seed) {
		for _, q := range []string{"'", `"`} {
			lit := q + b + q
			out = append(out, ExprInput("strings/expr", lit), ExprInput("strings/expr", lit+" + 1"), ExprInput("strings/expr", "["+lit+": 1]"),
				ExprInput("strings/expr", "['a': 1, "+lit+": 2]"), ExprInput("strings/expr", "f("+lit+")"), ExprInput("strings/expr", q+b))
			for _, t := range []string{"{" + lit + "}", "{print " + lit + "}", "{$x + " + lit + "}", "{[" + lit + ": 1]}", "{['a': 1, " + lit + ": 2]}",
				"{[" + lit + "]}", "{f(" + lit + ")}", "{if " + lit + "}a{/if}", "{switch $x}{case " + lit + "}a{/switch}", "{let $v: " + lit + " /}",
				"{call .u}{param p: " + lit + " /}{/call}", `{call .u data="` + goq(lit) + `" /}`, `{call .u data="` + lit + `" /}`,
				`{call .u}{param key="p" value="` + goq(lit) + `" /}{/call}`, "{css " + lit + ", cls}", `{msg desc="` + b + `"}m{/msg}`,
				`{msg desc="` + goq(b) + `"}m{/msg}`, "{$x|truncate:" + lit + "}", "{" + q + b} {
				out = append(out, FileInput("strings/file", hdr+t+"\n{/template}\n"))
			}
		}
		out = append(out, Input{Entry: "globals", Text: []byte("a = '" + b + "'\n"), Family: "strings/globals"})
	}
	return out
}

// ---------------------------------------------------------------------------
// (c) prefixes, (d) token mutations

// CorpusFiles reads testdata/*.soy of the repository under test.
func CorpusFiles() (map[string]string, error) {
	out := map[string]string{}
	ms, err := filepath.Glob(filepath.Join(core.RepoDir, "testdata", "*.soy"))
	if err != nil {
		return nil, err
	}
	for _, m := range ms {
		b, err := os.ReadFile(m)
		if err != nil {
			return nil, err
		}
		out[filepath.Base(m)] = string(b)
	}
	if len(out) == 0 {
		return nil, fmt.Errorf("no testdata/*.soy under %s", core.RepoDir)
	}
	return out, nil
}

func sortedKeys(m map[string]string) []string {
	var ks []string
	for k := range m {
		ks = append(ks, k)
	}
	sort.Strings(ks)
	return ks
}

// Prefixes gives every byte prefix of text (stride 1), or a seeded sample of
// max prefixes when max > 0 and the text is longer.
func Prefixes(family, text string, max int, r *rand.Rand) []Input {
	var out []Input
	if max <= 0 || len(text) <= max {
		for i := 0; i <= len(text); i++ {
			out = append(out, FileInput(family, text[:i]))
		}
		return out
	}
	for _, i := range r.Perm(len(text) + 1)[:max] {
		out = append(out, FileInput(family, text[:i]))
	}
	return out
}

// Tokens cuts a file into tags, comments, soydoc, words and white space.
func Tokens(text string) []string {
	var toks []string
	i := 0
	for i < len(text) {
		j := i
		switch {
		case text[i] == '{':
			k := strings.IndexByte(text[i:], '}')
			if k < 0 {
				j = len(text)
			} else {
				j = i + k + 1
				for j < len(text) && text[j] == '}' {
					j++
				}
			}
		case strings.HasPrefix(text[i:], "/*"):
			k := strings.Index(text[i+2:], "*/")
			if k < 0 {
				j = len(text)
			} else {
				j = i + 2 + k + 2
			}
		case strings.HasPrefix(text[i:], "//"):
			k := strings.IndexByte(text[i:], '\n')
			if k < 0 {
				j = len(text)
			} else {
				j = i + k + 1
			}
		case text[i] == ' ' || text[i] == '\n' || text[i] == '\t' || text[i] == '\r':
			for j < len(text) && (text[j] == ' ' || text[j] == '\n' || text[j] == '\t' || text[j] == '\r') {
				j++
			}
		default:
			for j < len(text) && text[j] != '{' && text[j] != ' ' && text[j] != '\n' && text[j] != '\t' && text[j] != '\r' &&
				!strings.HasPrefix(text[j:], "/*") && !strings.HasPrefix(text[j:], "//") {
				j++
			}
			if j == i {
				j = i + 1
			}
		}
		toks = append(toks, text[i:j])
		i = j
	}
	return toks
}

// TokenMutations gives single-token deletions, duplications and adjacent
// swaps of text (all of them, or a seeded sample of max).
func TokenMutations(family, text string, max int, r *rand.Rand) []Input {
	toks := Tokens(text)
	type mut struct{ kind, i int }
	var muts []mut
	for i := range toks {
		if strings.TrimSpace(toks[i]) == "" {
			continue
		}
		muts = append(muts, mut{0, i}, mut{1, i})
		if i+1 < len(toks) {
			muts = append(muts, mut{2, i})
		}
	}
	if max > 0 && len(muts) > max {
		r.Shuffle(len(muts), func(a, b int) { muts[a], muts[b] = muts[b], muts[a] })
		muts = muts[:max]
	}
	var out []Input
	for _, m := range muts {
		var sb strings.Builder
		for i, t := range toks {
			switch {
			case m.kind == 0 && i == m.i:
			case m.kind == 1 && i == m.i:
				sb.WriteString(t)
				sb.WriteString(t)
			case m.kind == 2 && i == m.i:
				// swap with the next non-space token
				k := i + 1
				for k < len(toks)-1 && strings.TrimSpace(toks[k]) == "" {
					k++
				}
				sb.WriteString(toks[k])
			case m.kind == 2 && i > m.i && sameSwapTarget(toks, m.i, i):
				sb.WriteString(toks[m.i])
			default:
				sb.WriteString(t)
			}
		}
		out = append(out, FileInput(family+[]string{"/del", "/dup", "/swap"}[m.kind], sb.String()))
	}
	return out
}

func sameSwapTarget(toks []string, i, k int) bool {
	j := i + 1
	for j < len(toks)-1 && strings.TrimSpace(toks[j]) == "" {
		j++
	}
	return j == k
}

// ---------------------------------------------------------------------------
// (e) random byte strings

var soyAlphabet = []string{"{", "}", "/", "*", "\\", " ", "\n", "$", ".", "?", "[", "]", "-", "7", "0", "\"", "'", "=", "|", ",", ":",
	"(", ")", "@", "<", "!", "+", "a", "x", "_", "é", "#", "\xff", "\xc3", "٣", "१", "𝟙", "Ω", "ǅ", "中", "\u2003", "\u00a0", "\u2028", "\ufeff", "\x00", "if", "css", "param", "literal", "switch", "call", "msg", "plural",
	"/if", "case", "\t", "\r", "e", "0x", "//", "/*", "*/", "/**", "@param"}

// RandomInputs gives n seeded random strings: raw bytes (including invalid
// UTF-8) and strings over the scanner's alphabet, each for both entry points.
func RandomInputs(n int, seed int64) []Input {
	r := rand.New(rand.NewSource(seed*104729 + 11))
	var out []Input
	for i := 0; i < n; i++ {
		var s string
		switch i % 3 {
		case 0:
			b := make([]byte, r.Intn(48))
			for j := range b {
				b[j] = byte(r.Intn(256))
			}
			s = string(b)
		default:
			var sb strings.Builder
			for k := r.Intn(14); k >= 0; k-- {
				sb.WriteString(soyAlphabet[r.Intn(len(soyAlphabet))])
			}
			s = sb.String()
		}
		switch i % 4 {
		case 0:
			out = append(out, FileInput("random/file", s))
		case 1:
			out = append(out, FileInput("random/template", hdr+s))
		case 2:
			out = append(out, FileInput("random/tag", hdr+"{"+s))
		default:
			out = append(out, ExprInput("random/expr", s))
		}
	}
	return out
}

// ---------------------------------------------------------------------------
// generated valid files (also the carrier of the C19 faults)

// ValidFile is a generated well-formed Soy file, one construct per line.
type ValidFile struct {
	Lines []string
}

// Text joins the lines.
func (v ValidFile) Text() string { return strings.Join(v.Lines, "\n") + "\n" }

// GenValidFile generates a valid file of exactly n >= 4 lines.  It never
// contains a single quote, a block comment or soydoc inside the template (so
// that unterminated strings/comments injected by C19 run to the end of the
// input) and no {css}/{@param}/{switch}/{plural} at its end.
func GenValidFile(r *rand.Rand, n int) ValidFile {
	if n < 4 {
		n = 4
	}
	lines := []string{"{namespace ns.gen}"}
	body := n - 3
	if body >= 2 && r.Intn(2) == 0 {
		lines = append(lines, "/** Says hello. @param name */")
		body--
	}
	lines = append(lines, "{template .main}")
	simple := []string{
		"Hello world", "<b>bold</b> text", "{$name}", "{print $name|escapeHtml}", "{$a + 1}", "{$list[0].x ?: 5}",
		"{let $v: 1 /}", `{call .other data="all" /}`, `{msg desc="greeting"}Hi {$name}{/msg}`, "{css foo}",
		"{literal}{x}{/literal}", "{switch $a}{case 1}one{default}other{/switch}", "// a line comment",
		"{sp}{lb}{rb}{nil}", "{if $a}yes{else}no{/if}", "{foreach $i in $list}{$i}{/foreach}",
		`{call .other}{param p: 1 /}{/call}`, "{$a ? 1 : 2}", "{f(1, [1, 2])}", "{debugger}", "{log}x{/log}",
	}
	type blk struct{ open, close string }
	blocks := []blk{{"{if $a}", "{/if}"}, {"{foreach $i in $list}", "{/foreach}"}, {"{let $w}", "{/let}"},
		{"{call .other}{param q}", "{/param}{/call}"}, {`{msg desc="m"}`, "{/msg}"}, {"{for $j in range(3)}", "{/for}"}}
	var stack []string
	for body > 0 {
		switch {
		case len(stack) >= body:
			lines = append(lines, stack[len(stack)-1])
			stack = stack[:len(stack)-1]
		case body-len(stack) >= 2 && len(stack) < 3 && r.Intn(4) == 0:
			b := blocks[r.Intn(len(blocks))]
			if len(stack) > 0 && strings.HasPrefix(b.open, "{msg") {
				b = blocks[0]
			}
			inMsg := false
			for _, s := range stack {
				if s == "{/msg}" {
					inMsg = true
				}
			}
			if inMsg {
				lines = append(lines, "plain text")
			} else {
				lines = append(lines, b.open)
				stack = append(stack, b.close)
			}
		default:
			s := simple[r.Intn(len(simple))]
			inMsg := false
			for _, c := range stack {
				if c == "{/msg}" {
					inMsg = true
				}
			}
			if inMsg {
				s = []string{"plain text", "{$name}", "<i>x</i>"}[r.Intn(3)]
			}
			lines = append(lines, s)
		}
		body--
	}
	lines = append(lines, "{/template}")
	return ValidFile{Lines: lines}
}

// GeneratedFiles returns n seeded valid files of 4..12 lines.
func GeneratedFiles(n int, seed int64) []ValidFile {
	r := rand.New(rand.NewSource(seed*15485863 + 5))
	var out []ValidFile
	for i := 0; i < n; i++ {
		out = append(out, GenValidFile(r, 4+r.Intn(9)))
	}
	return out
}

// ---------------------------------------------------------------------------
// (a) inputs derived from the SoyLexer state graph

// ModelPath is one PATH line printed by TLC for SoyLexer: a control state
// that is about to ask the environment, with the shortest class sequence
// reaching it.
type ModelPath struct {
	Mode, PC, F1, F2 string
	Hist             []string
}

func isIdentByte(b byte) bool {
	return b == '_' || b >= '0' && b <= '9' || b >= 'a' && b <= 'z' || b >= 'A' && b <= 'Z' || b >= 0x80
}

// Concretize spells a class sequence with spelling markers as a string.
func Concretize(hist []string) string {
	var s []byte
	replaceIdent := func(word string) {
		i := len(s)
		for i > 0 && isIdentByte(s[i-1]) {
			i--
		}
		s = append(s[:i], word...)
	}
	for _, h := range hist {
		switch h {
		case "#param":
			s = append(s, "param"...)
		case "#css":
			replaceIdent("css")
		case "#literal":
			replaceIdent("literal")
		case "#cmd":
			replaceIdent("if")
		case "#endcmd":
			i := len(s)
			for i > 0 && isIdentByte(s[i-1]) {
				i--
			}
			if i > 0 && s[i-1] == '\\' {
				replaceIdent("n")
			} else {
				replaceIdent("if")
			}
		case "#litend", "#litother":
			dbl := strings.LastIndex(string(s), "{{literal") >= 0 && strings.LastIndex(string(s), "{{literal")+1 == strings.LastIndex(string(s), "{literal")
			if dbl == (h == "#litend") {
				s = append(s, "{{/literal}}"...)
			} else {
				s = append(s, "{/literal}"...)
			}
		default:
			s = append(s, ClassChar(h)...)
		}
	}
	return string(s)
}

// AllClasses lists the character classes of SoyLexer.tla.
var AllClasses = []string{"lb", "rb", "sl", "st", "bs", "sp", "nl", "dol", "dot", "q", "lbk", "rbk", "min", "dig", "dq", "sq",
	"eq", "pipe", "com", "col", "lp", "rp", "at", "cmp", "ar", "let", "ulet", "udig", "usp", "oth"}

// ModelInputs turns the reachable control states into inputs: for every
// state, its path followed by each class (one input per transition of the
// state graph) and by nothing (EOF in every state), alone and continued by a
// closing suffix.
func ModelInputs(paths []ModelPath) []Input {
	var out []Input
	seen := map[string]bool{}
	add := func(mode, s string) {
		k := mode + "|" + s
		if seen[k] {
			return
		}
		seen[k] = true
		if mode == "expr" {
			out = append(out, ExprInput("model/expr", s))
		} else {
			out = append(out, FileInput("model/file", s))
		}
	}
	for _, p := range paths {
		base := Concretize(p.Hist)
		add(p.Mode, base)
		for _, c := range AllClasses {
			for ri, ch := range ClassChars(c) {
				s := base + ch
				add(p.Mode, s)
				if ri > 0 && c != "ulet" && c != "udig" && c != "usp" && c != "oth" {
					continue // further ASCII representatives: the bare transition only
				}
				if p.Mode == "file" {
					add(p.Mode, s+"}")
					add(p.Mode, hdr+s+" x}\n{/template}\n")
				} else {
					add(p.Mode, s+" 1")
				}
			}
		}
		if p.Mode == "file" {
			add(p.Mode, hdr+base)
		}
	}
	return out
}
