package c05

import (
	"fmt"
	"math/rand"
	"strings"
)

// Families added in round 2 (each is a whole CLASS of inputs; see notes/C05.md
// and notes/C18.md, section "round 2").

// ---------------------------------------------------------------------------
// non-ASCII members of the Unicode classes in every position where the scanner
// or the parser tests a character class

var unicodeSlots = []string{
	"{-X}", "{- X}", "{$a * -X}", "{$a == -X}", "{[-X]}", "{[1, -X]}", "{f(-X)}", "{$a ? -X : 1}", "{$a ?: -X}", "{not -X}", "{(-X)}", "{$a -X}",
	"{['k': -X]}", "{$a[-X]}", "{print -X}", "{if -X}a{/if}", "{let $v: -X /}", "{call .u}{param p: -X /}{/call}", "{$a|d:-X}",
	"{X}", "{XX}", "{$X}", "{$aX}", "{$Xa}", "{$a.X}", "{$a.Xb}", "{$a.bX}", "{$a?.X}", "{$a.1X}", "{$a.X1}", "{$a[X]}",
	"{1X}", "{X1}", "{1.X}", "{1.5X}", "{1eX}", "{1e-X}", "{0xX}", "{0x1X}", "{0X}", "{-1X}", "{+X}",
	"{css aX}", "{css X}", "{css $a, X}", "{css X, a}",
	"{@param X: int}", "{@param aX: int}", "{@param a: X}", "{@param a: int = X}", "{@paramX a: int}", "{@X}",
	"/** @param X */", "/** @param aX */", "/** @paramX a */", "/** @param? X */", "/** X */", "/**X*/", "/** @param a X*/",
	"{call .X/}", "{call .uX/}", "{call a.X/}", "{call X.u/}", "{template .X}{/template}", "{namespace X}", "{namespace a.X}", "{alias a.X}",
	"{fX(1)}", "{f(X)}", "{f(1,X2)}", "{let $X: 1/}", "{let $vX: 1/}", "{foreach $X in $l}{/foreach}", "{for $i in range(X)}{/for}",
	"{$a|X}", "{$a|dX}", "{$a|d:X}", "{'X'}", `{"X"}`, `{msg desc="X"}m{/msg}`, `{call .u data="X"/}`, `{call .u data="-X"/}`, `{call .u X="a"/}`,
	"{ifX $a}a{/if}", "{if $a}a{/ifX}", "{X if}", "{/X}", "{\\X}", "{spX}", "{lbX}", "{X/}", "{$aX/}", "{$a X}", "{$a X+ 1}", "{$a +X 1}",
	"X", "aXb", "//X", " //X\n", "/*X*/", "/*X", "{literal}X{/literal}", "{X{$a}", "}X", "{{X}}", "{{-X}}",
	"{switch $a}{case X}a{/switch}", "{switch $a}{case -X}a{/switch}", `{msg desc="d"}{plural $n}{case X}a{default}b{/plural}{/msg}`,
	"{$a and X}", "{$a orX $b}", "{notX $a}", "{trueX}", "{nullX}", "{Xnull}",
}

// UnicodeHazards substitutes every representative of the non-ASCII classes
// (letters incl. title case and 4-byte, decimal digits of 2..4 bytes, spaces,
// BOM, NUL, invalid UTF-8) for X in every slot, as a file and as an expression.
func UnicodeHazards() []Input {
	var chars []string
	for _, c := range []string{"ulet", "udig", "usp", "oth"} {
		chars = append(chars, ClassChars(c)...)
	}
	var out []Input
	seen := map[string]bool{}
	for _, slot := range unicodeSlots {
		for _, ch := range chars {
			t := strings.Replace(slot, "X", ch, -1)
			out = append(out, FileInput("unicode/file", hdr+t+"\n{/template}\n"), FileInput("unicode/file", t))
			if strings.HasPrefix(slot, "{") && strings.HasSuffix(slot, "}") && !strings.Contains(slot[1:len(slot)-1], "{") {
				e := strings.Replace(slot[1:len(slot)-1], "X", ch, -1)
				if !seen[e] {
					seen[e] = true
					out = append(out, ExprInput("unicode/expr", e))
				}
			}
		}
	}
	return out
}

// ---------------------------------------------------------------------------
// every tag attribute x {absent, empty, blank, duplicated, valueless, unknown,
// wrong quote, unquoted, escaped quote}

type attrTag struct {
	open  string   // text before the attributes (without closing)
	close []string // possible closings
	names []string // attribute names the tag knows
	rest  string   // text after the tag that makes the file complete
}

var attrTags = []attrTag{
	{"{call", []string{"/}", "}{/call}"}, []string{"name", "data"}, ""},
	{"{call .u", []string{"/}", "}{/call}"}, []string{"name", "data"}, ""},
	{"{call a.b", []string{"/}"}, []string{"name", "data"}, ""},
	{"{delcall a.b", []string{"/}", "}{/delcall}"}, []string{"name", "data", "variant"}, ""},
	{"{call .u}{param", []string{"/}{/call}", "}x{/param}{/call}"}, []string{"key", "value", "kind"}, ""},
	{"{call .u}{param p", []string{"/}{/call}", "}x{/param}{/call}"}, []string{"key", "value", "kind"}, ""},
	{"{msg", []string{"}m{/msg}"}, []string{"desc", "meaning", "hidden"}, ""},
	{"{let $v", []string{"}x{/let}", "/}"}, []string{"kind"}, ""},
	{"{template .x", []string{"}{/template}"}, []string{"autoescape", "private", "kind"}, ""},
	{"{namespace a.b", []string{"}"}, []string{"autoescape"}, ""},
	{"{css", []string{"}"}, []string{"base"}, ""},
	{"{print $a", []string{"}"}, []string{"kind"}, ""},
	{"{foreach $i in $l", []string{"}{/foreach}"}, []string{"kind"}, ""},
	{"{if $a", []string{"}{/if}"}, []string{"kind"}, ""},
}

var attrValues = []string{`=""`, `=" "`, `="\t\n"`, `="x"`, `=".u"`, `="all"`, `="$a"`, `="true"`, `="false"`, `="contextual"`, `="html"`, `="bogus"`, `="1"`,
	`="."`, `="a."`, `=".."`, `="a.b"`, ``, `=`, `='x'`, `=''`, `=x`, `=1`, `=$a`, `="\""`, `="\\"`, `="x`, `=="x"`, ` = "x"`, `="x""y"`, `="é"`, `="\xff"`, `="\u12"`}

// AttrHazards builds, for every tag that takes attributes, every single
// attribute (known and unknown names) with every value form, and every pair of
// attributes (including the same one twice) with the forms "", blank, "x".
func AttrHazards() []Input {
	var out []Input
	add := func(t attrTag, attrs string) {
		for _, c := range t.close {
			tag := t.open + attrs + c
			if strings.HasPrefix(t.open, "{template") || strings.HasPrefix(t.open, "{namespace") {
				out = append(out, FileInput("attrs/file", tag), FileInput("attrs/file", "{namespace n}\n"+tag))
			} else {
				out = append(out, FileInput("attrs/file", hdr+tag+"\n{/template}\n"))
			}
		}
	}
	for _, t := range attrTags {
		names := append(append([]string(nil), t.names...), "foo", "Name", "é")
		add(t, "")
		add(t, " ")
		for _, n := range names {
			for _, v := range attrValues {
				add(t, " "+n+v)
			}
		}
		for _, n1 := range names {
			for _, n2 := range names {
				for _, v1 := range []string{`=""`, `=" "`, `="x"`, ``} {
					for _, v2 := range []string{`=""`, `="x"`} {
						add(t, " "+n1+v1+" "+n2+v2)
						add(t, " "+n1+v1+n2+v2)
					}
				}
			}
		}
	}
	return out
}

// ---------------------------------------------------------------------------
// every position that requires a value of a particular kind x every kind of
// literal / expression

var valueKinds = []string{"1", "0", "-1", "- 1", "+1", "1.0", "-1.5", "1e3", "0x1F", "08", "9999999999999999999", "1.", "'one'", `"one"`, "''", "'1'",
	"true", "false", "null", "$n", "$n.a", "$n[0]", "$ij.x", "[1]", "[]", "[:]", "['a': 1]", "f(1)", "f()", "range(3)", "length($l)", "1 + 1", "(1)", "not 1",
	"-$n", "1 ? 2 : 3", "$n ?: 1", "GLOBAL", "a.b.C", "1 2", "1,", ",", "", " ", ":", "1:2", "1..2", "$", "'", "é", "٣", "-٣"}

var valueSlots = []string{
	`{msg desc="d"}{plural $n}{case V}a{default}b{/plural}{/msg}`, `{msg desc="d"}{plural $n}{case V, V}a{default}b{/plural}{/msg}`,
	`{msg desc="d"}{plural $n}{case 1}a{case V}c{default}b{/plural}{/msg}`, `{msg desc="d"}{plural V}{case 1}a{default}b{/plural}{/msg}`,
	`{msg desc="d"}{plural $n}{case V}a{/plural}{/msg}`, `{msg desc="d"}{plural $n}{default V}b{/plural}{/msg}`,
	"{switch $n}{case V}a{default}b{/switch}", "{switch $n}{case V, V}a{/switch}", "{switch $n}{case 1, V}a{/switch}", "{switch V}{case 1}a{/switch}", "{switch $n}{default V}a{/switch}",
	"{for $i in range(V)}a{/for}", "{for $i in range(V, V)}a{/for}", "{for $i in range(1, V, V)}a{/for}", "{for $i in V}a{/for}", "{for V in $l}a{/for}",
	"{foreach $i in V}a{/foreach}", "{foreach $i in V}a{ifempty}b{/foreach}", "{foreach V in $l}a{/foreach}",
	"{$n|truncate:V}", "{$n|truncate:V,V}", "{$n|d:V|e:V}", "{$n|V}", "{print V}", "{print V|id}", "{V}", "{V|id}",
	"{if V}a{/if}", "{if $n}a{elseif V}b{/if}", "{if $n}a{else V}b{/if}", "{let $v: V /}", "{let V: 1 /}", "{let $v V}a{/let}",
	"{call .u}{param p: V /}{/call}", "{call .u}{param V: 1 /}{/call}", "{call .u}{param V}a{/param}{/call}", `{call .u data="V" /}`, "{call V /}", "{call .u V /}",
	`{call .u}{param key="p" value="V" /}{/call}`, `{call .u}{param key="V" value="1" /}{/call}`,
	"{css V, cls}", "{css V}", "{$n ? V : V}", "{$n ?: V}", "{[V]}", "{[V, V]}", "{[V: V]}", "{['k': V]}", "{f(V)}", "{f(V, V)}", "{$n[V]}", "{$n?[V]}", "{$n.V}", "{-V}", "{not V}", "{V + V}",
	`{template .x autoescape="V"}{/template}`, `{template .x private="V"}{/template}`, `{template .x kind="V"}{/template}`, `{namespace a.b autoescape="V"}`,
	`{msg desc="V"}m{/msg}`, `{msg desc="d" meaning="V"}m{/msg}`, `{msg desc="d" hidden="V"}m{/msg}`, `{let $v kind="V"}a{/let}`,
	"{@param p: V}", "{@param p: int = V}", "{@param V: int}", "{alias V}", "{namespace V}", "{template V}{/template}", "{delpackage V}",
}

// ValueKindHazards puts every kind of literal / expression in every position
// that requires a value of one particular kind.
func ValueKindHazards() []Input {
	var out []Input
	for _, slot := range valueSlots {
		for _, v := range valueKinds {
			vv := v
			if strings.Contains(slot, `="V"`) {
				vv = strings.NewReplacer(`\`, `\\`, `"`, `\"`).Replace(v)
			}
			t := strings.Replace(slot, "V", vv, -1)
			if strings.HasPrefix(slot, "{template") || strings.HasPrefix(slot, "{namespace") || strings.HasPrefix(slot, "{delpackage") {
				out = append(out, FileInput("values/file", t), FileInput("values/file", "{namespace n}\n"+t))
			} else {
				out = append(out, FileInput("values/file", hdr+t+"\n{/template}\n"))
			}
		}
	}
	return out
}

// ---------------------------------------------------------------------------
// special first characters, and an error EARLY in a LONG input

// SpecialStarts are put in front of complete and incomplete inputs.
var SpecialStarts = []string{"\xef\xbb\xbf", "\xef\xbb\xbf\xef\xbb\xbf", "\xef\xbb", "\xef", "\xff\xfe", "\xfe\xff", "\x00", "\x00\x00", "\xff", "\xc3", "\xe2\x82",
	" ", "\t", "\n", "\r\n", "\n\n\n", " ", " ", " ", "�", "// c\n", "// c", "/* c */", "/* c", "/** d */", "/**", "}", "{", "\\", "#", "'", "\""}

// SpecialStartInputs: every special start alone, twice, and in front of a set
// of bodies (valid files, files with errors, expressions, globals).
func SpecialStartInputs(bodies []string) []Input {
	var out []Input
	exprs := []string{"1", "1 + 2", "$a.b", "1 2 3", "'s'", "[1, 2]", "f(", ""}
	globals := []string{"a = 1\n", "a = 1 2 3\n", "a\n", "a = 'x'\nb = 2\n"}
	for _, p := range SpecialStarts {
		for _, b := range bodies {
			out = append(out, FileInput("start/file", p+b))
		}
		out = append(out, FileInput("start/file", p), FileInput("start/file", p+p+p))
		for _, e := range exprs {
			out = append(out, ExprInput("start/expr", p+e), ExprInput("start/expr", e+p))
		}
		for _, g := range globals {
			out = append(out, Input{Entry: "globals", Text: []byte(p + g), Family: "start/globals"})
		}
	}
	return out
}

// LongTailInputs: a fault EARLY in a LONG input (hundreds of lines / tokens
// after it), and the same long inputs without the fault, for all three entry
// points. Tail lengths straddle typical buffer sizes (16, 32, 64, 128, 256).
func LongTailInputs() []Input {
	var out []Input
	tails := []int{0, 1, 2, 15, 16, 17, 31, 32, 33, 34, 63, 64, 65, 100, 127, 128, 129, 255, 256, 257, 600}
	badLines := []string{"a = 1 +", "no equals here", "a = $x", "a = [1]", "a = 'abc", "a = 1 2 3", "= 1", "a = #", "a == 1", ""}
	for _, n := range tails {
		for _, at := range []int{0, 1, 3} {
			for _, bad := range badLines {
				var sb strings.Builder
				for i := 0; i < at; i++ {
					fmt.Fprintf(&sb, "pre%d = %d\n", i, i)
				}
				sb.WriteString(bad + "\n")
				for i := 0; i < n; i++ {
					fmt.Fprintf(&sb, "g%d = '%d'\n", i, i)
				}
				out = append(out, Input{Entry: "globals", Text: []byte(sb.String()), Family: "longtail/globals"})
			}
		}
		// files: the fault, then n more tags / lines
		for _, bad := range []string{"{foo $x}", "}", "{$a #}", "{if}", "/* open", "{$a + 'abc}", "{call}", `{call .u data="$a +"/}`, "{print 08}", ""} {
			var sb strings.Builder
			sb.WriteString(hdr + bad + "\n")
			for i := 0; i < n; i++ {
				fmt.Fprintf(&sb, "line %d {$v%d} {if $c}x{/if}\n", i, i)
			}
			sb.WriteString("{/template}\n")
			out = append(out, FileInput("longtail/file", sb.String()))
		}
		// expressions: the fault, then n more tokens
		for _, bad := range []string{"1 +", "1 2", "#", "'abc", "f(", "[1", "$a.", "1 ? 2", "", "1"} {
			out = append(out, ExprInput("longtail/expr", bad+strings.Repeat(" + $x", n)), ExprInput("longtail/expr", bad+strings.Repeat(" 1", n)))
		}
	}
	return out
}

// ---------------------------------------------------------------------------
// round 4: malformed / mismatched / truncated literal blocks

// LiteralHazards: {literal} blocks in both brace forms x bodies (empty, one
// character, braces, the OTHER form's closer, fragments of the own closer,
// nested openers) x closers (right form, wrong form, missing, every proper
// prefix of either closer, closer twice), at file level, in a template, in a
// block and as an expression.
func LiteralHazards(thorough bool) []Input {
	opens := []string{"{literal}", "{{literal}}", "{literal }", "{{literal }}", "{literal", "{{literal}", "{{literal", "{literal}}", "{ literal}", "{literal/}", "{{literal/}}"}
	closers := []string{"{/literal}", "{{/literal}}"}
	bodies := []string{"", "x", "{", "}", "{{", "}}", "{}", "/", "\n", "é", "\xff", "{$x}", "{/literal", "/literal}", "literal}}", "{/litera", "{{/literal", "{/literal}}", "{{/literal}",
		"{literal}", "{{literal}}", "{literal}{/literal}", "{{literal}}{{/literal}}", "{/if}", "{/template}", "// c", "/* c", "'", "\""}
	var tails []string
	for _, c := range closers {
		tails = append(tails, c, c+c, c+"x", c+"}")
		for i := 0; i < len(c); i++ {
			tails = append(tails, c[:i]) // missing closer and every truncation of it
		}
	}
	tails = append(tails, "{/literal }", "{ /literal}", "{/Literal}", "{\\literal}", "{/literal/}")
	var out []Input
	seen := map[string]bool{}
	for _, o := range opens {
		for _, b := range bodies {
			for _, t := range tails {
				s := o + b + t
				if seen[s] {
					continue
				}
				seen[s] = true
				out = append(out, FileInput("literal/file", s), FileInput("literal/file", hdr+s+"\n{/template}\n"))
				if thorough {
					out = append(out, FileInput("literal/file", hdr+"{if $c}"+s+"{/if}{/template}"), FileInput("literal/file", hdr+s))
				}
				if strings.HasPrefix(o, "{") && len(out)%5 == 0 {
					out = append(out, ExprInput("literal/expr", strings.TrimLeft(s, "{")))
				}
			}
		}
	}
	return out
}

// ---------------------------------------------------------------------------
// round 6: the TEXT inside {msg} is scanned a second time by the parser (a
// regular expression looks for html tags in the raw text)

// msgPieces is the hazard alphabet of message text: "<" followed by each
// class of character, ">" alone, degenerate and unterminated tags, quotes
// that contain ">", nesting, comments, entities.
var msgPieces = []string{"<", ">", "<>", "</>", "<a", "<a>", "</a>", "<a/>", "<3", "<3>", "<3 you -> always", "I <3 you", "->", "=>", "<-", "<=", ">=", "<<", ">>", "<<a>>", "<a<b>>",
	"< a>", "<a >", "<a b>", "<a b=\"c\">", "<a b=\"c>", "<a b='>'>", "<a href='>'>x</a>", "<a b=\"c>\"d>", "<!", "<!-- c -->", "<!-->", "<!doctype x>", "<?", "<?x?>", "</", "</3>", "</ a>",
	"<_a>", "<-a>", "<é>", "<aé>", "<a\xff>", "<1a>", "<a1>", "<A>", "<a-b>", "<a:b>", "<a.b>", "<br/>", "<br />", "< >", "<\t>", "<\n>", "<a\nb>", "<a\n>", "&lt;", "&#60;3", "a < b > c", "1<2>1", "x<y", "x>y",
	"<a phname=\"p\">", "<a phname=\"\">", "<a phname=\"x\" phname=\"y\">", "<a phname=>", " phname=\"q\"", "<b><i>", "</i></b>", "<b></b>", "text", " ", ""}

// MsgTextHazards puts every piece, every pair of pieces, and pieces split by
// a placeholder / special character / line break, in every part of a message:
// the body, the cases of a {plural}, the desc and meaning attributes.
func MsgTextHazards(thorough bool, seed int64) []Input {
	var out []Input
	file := func(body string) { out = append(out, FileInput("msgtext/file", hdr+body+"\n{/template}\n")) }
	attrq := strings.NewReplacer(`\`, `\\`, `"`, `\"`, "\n", `\n`, "\t", `\t`)
	slots := []func(b string) string{
		func(b string) string { return `{msg desc="d"}` + b + `{/msg}` },
		func(b string) string { return `{msg desc="d"}x ` + b + ` y{/msg}` },
		func(b string) string {
			return `{msg desc="d"}{plural $n}{case 1}` + b + `{default}` + b + `{/plural}{/msg}`
		},
		func(b string) string {
			return `{msg desc="d"}{plural $n}{case 0}a{case 1}` + b + `{default}z{/plural}{/msg}`
		},
		func(b string) string { return `{msg desc="` + attrq.Replace(b) + `"}m{/msg}` },
		func(b string) string { return `{msg desc="d" meaning="` + attrq.Replace(b) + `"}m{/msg}` },
		func(b string) string { return `{msg desc="` + b + `"}` + b + `{/msg}` },
		func(b string) string { return `{msg desc="d"}` + b }, // message left open
		func(b string) string { return `{if $c}{msg desc="d"}` + b + `{/msg}{/if}` },
	}
	seps := []string{"{$x}", "{sp}", "{nil}", "{lb}", "{rb}", "{\\n}", "\n", " \n ", "{print $x|id}", "{call .u /}", "{literal}>{/literal}", "{literal}<{/literal}", "// c\n", "/* c */", "{css a}"}
	for _, a := range msgPieces {
		for _, s := range slots {
			file(s(a))
		}
		for _, b := range msgPieces {
			file(slots[0](a + b))
			file(slots[0](a + " " + b))
			file(slots[2](a + b))
			if thorough {
				file(slots[1](a + b))
				file(slots[4](a + b))
				for _, sep := range seps {
					file(slots[0](a + sep + b))
				}
			}
		}
	}
	// pieces split by a placeholder, a special character, a line break, a
	// comment: quick takes a seeded third of the pairs
	if !thorough {
		r := rand.New(rand.NewSource(seed*6151 + 41))
		for _, a := range msgPieces {
			for _, b := range msgPieces {
				if r.Intn(3) != 0 {
					continue
				}
				sep := seps[r.Intn(len(seps))]
				file(slots[0](a + sep + b))
				file(slots[2](a + sep + b))
			}
		}
	}
	// long runs (regular-expression backtracking, repeated scans)
	for _, u := range []string{"<", "<3 ", "<a ", "< ", "<a b=\"", "</", "<!--", "<a>", "<3>", "><", "<a<"} {
		for _, n := range []int{10, 100, 1000} {
			file(slots[0](strings.Repeat(u, n)))
			file(slots[0](strings.Repeat(u, n) + ">"))
			file(slots[2](strings.Repeat(u, n) + ">"))
		}
	}
	return out
}
