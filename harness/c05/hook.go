// Package c05 decides property C05 (parsing any input terminates with a tree
// or an error) and provides the machinery shared with C18 and C19: the
// lexer/parser hook tracer, the worker sub-processes that survive hangs and
// crashes of the code under test, the input families and the TLC runs on
// spec/SoyLexer.tla and spec/SoyLexParse.tla.
package c05

import (
	"fmt"
	"reflect"
	"runtime"
	"strings"
	"sync"
	"sync/atomic"
	"unicode"
	"unicode/utf8"

	"github.com/robfig/soy/parse"
)

// Item type numbers the harness needs (from parse.VerifItemNames).
var (
	itInvalid = parse.VerifItemNames["invalid"]
	itEOF     = parse.VerifItemNames["eof"]
	itError   = parse.VerifItemNames["error"]
)

// Ev is one hook event of a parse: E is s(tep) e(mit) n(ext) c(lose)
// r(eturn); X the scanner index within the parse (1 = the entry point's
// scanner, 2.. nested quoted-expression scanners); A the item type.
type Ev struct {
	E byte
	X int
	A int
}

// proto mirrors SoyLexProto.tla (Skew = 2) for one scanner instance.
type proto struct {
	ph      int // 0 run, 1 term, 2 closed
	infl    []int
	drained bool
	zeros   int
	steps   int
	lastFn  string // state function of the last step event
	lastPos int
	lastCls string
	input   string
}

func (p *proto) canReturn() bool {
	return p.ph == 2 || (p.ph == 1 && len(p.infl) == 0 && !p.drained)
}

// spinSentinel is the panic value the hook raises in the PARSER goroutine when
// a parse has received more than zeroLimit zero items from a closed channel:
// parse.recover turns it into the returned error, which lets the worker go on
// with the next input. It is a triage device only: the verdict "hang" is
// taken by the probe (fresh process, no sentinel).
type spinSentinel struct{ frame string }

func (s *spinSentinel) Error() string { return "verif: parser spin sentinel in " + s.frame }

const zeroLimit = 512

// Tracer receives the hook events of one parse at a time.
type Tracer struct {
	mu       sync.Mutex
	foreign  map[interface{}]bool // scanners of earlier parses that have not closed yet
	lexers   map[interface{}]int
	protos   []*proto
	events   []Ev
	keep     bool // keep the event list (sampled traces)
	steps    int
	nlex     int
	nexts    int
	zerosMax int
	anomaly  []string // protocol anomalies (rule names)
	stray    int      // events of scanners that are not part of the current parse
	stepCap  int      // park a scanner that exceeds this number of steps (0 = off)
	parked   chan string
	sentinel bool // raise spinSentinel
	returned bool
	calls    int
	retErr   int
	leaks    []LeakInfo
	edges    map[string]struct{} // fn|class|fn' over all parses of this process
	counter  int64               // total events (progress indicator for the watchdog)
}

// LeakInfo describes a scanner that could still block when the entry point
// returned.
type LeakInfo struct {
	Scanner int    `json:"scanner"` // 1 = entry point's scanner, >1 nested
	Phase   string `json:"phase"`   // run | term
	Pending int    `json:"pending"` // items logged as emitted and never received
	LastFn  string `json:"lastFn"`
}

// NewTracer installs the hook.
func NewTracer() *Tracer {
	t := &Tracer{edges: map[string]struct{}{}, parked: make(chan string, 4), foreign: map[interface{}]bool{}}
	parse.VerifLex = t.hook
	return t
}

// Uninstall removes the hook.
func (t *Tracer) Uninstall() { parse.VerifLex = nil }

// Begin starts the recording of one parse.
func (t *Tracer) Begin(keep bool, stepCap int, sentinel bool) {
	t.mu.Lock()
	t.retireScanners()
	t.lexers = map[interface{}]int{}
	t.protos = t.protos[:0]
	t.events = nil
	t.keep = keep
	t.steps, t.nexts, t.zerosMax, t.nlex = 0, 0, 0, 0
	t.anomaly = nil
	t.stepCap = stepCap
	t.sentinel = sentinel
	t.returned = false
	t.calls = 0
	t.leaks = nil
	t.mu.Unlock()
}

// retireScanners moves the scanners of the finished entry-point call that have
// not closed their channel to the foreign set: whatever they still do (finish
// late, or stay blocked for ever) is not an event of a later parse.
func (t *Tracer) retireScanners() {
	for l, x := range t.lexers {
		if x-1 < len(t.protos) && t.protos[x-1].ph != 2 {
			t.foreign[l] = true
		}
	}
}

// Progress is a counter that grows with every hook event.
func (t *Tracer) Progress() int64 { return atomic.LoadInt64(&t.counter) }

func (t *Tracer) note(rule string) {
	if len(t.anomaly) < 8 {
		t.anomaly = append(t.anomaly, rule)
	}
}

// lexer field access by reflection (unexported fields can be read).
func lexerState(l interface{}) (fn string, input string, pos int) {
	v := reflect.ValueOf(l)
	if v.Kind() != reflect.Ptr || v.IsNil() {
		return "", "", 0
	}
	e := v.Elem()
	if f := e.FieldByName("state"); f.IsValid() && f.Kind() == reflect.Func && !f.IsNil() {
		if rf := runtime.FuncForPC(f.Pointer()); rf != nil {
			fn = shortFn(rf.Name())
		}
	}
	if f := e.FieldByName("input"); f.IsValid() && f.Kind() == reflect.String {
		input = f.String()
	}
	if f := e.FieldByName("pos"); f.IsValid() {
		pos = int(f.Int())
	}
	return
}

func shortFn(name string) string {
	if i := strings.LastIndex(name, "/parse."); i >= 0 {
		name = name[i+len("/parse."):]
	}
	return name
}

// ModelFn maps a Go state function to the fn names of SoyLexer.tla.
func ModelFn(goName string, l interface{}) string {
	switch goName {
	case "lexText":
		return "Text"
	case "lexLeftDelim":
		return "LeftDelim"
	case "lexBeginTag":
		return "BeginTag"
	case "lexInsideTag":
		return "InsideTag"
	case "lexIdent":
		return "Ident"
	case "lexNumber":
		return "Number"
	case "lexRightDelim":
		return "RightDelim"
	case "lexRightDelimEnd":
		return "RightDelimEnd"
	case "lexHeaderParam":
		return "HeaderParam"
	case "lexCss":
		return "Css"
	case "lexLiteral":
		return "Literal"
	}
	if strings.Contains(goName, "stringLexer") {
		return "String"
	}
	return goName
}

func (t *Tracer) hook(ev string, l interface{}, a, b int) {
	atomic.AddInt64(&t.counter, 1)
	t.mu.Lock()
	if t.lexers == nil {
		t.mu.Unlock()
		return
	}
	if t.foreign[l] {
		// a scanner of an earlier parse (finishing late, or leaked)
		t.stray++
		if ev == "close" {
			delete(t.foreign, l)
		}
		t.mu.Unlock()
		return
	}
	x, ok := t.lexers[l]
	if !ok {
		if ev != "step" && ev != "return" {
			// a scanner of an earlier parse finishing late (close after return)
			t.stray++
			t.mu.Unlock()
			return
		}
		if ev == "return" && len(t.protos) == 0 {
			// entry point returned without its scanner having run a step yet
			t.lexers[l] = 1
			t.protos = append(t.protos, &proto{})
			t.nlex++
			x = 1
		} else if ev == "return" {
			x = 1
		} else {
			x = len(t.protos) + 1
			t.lexers[l] = x
			t.protos = append(t.protos, &proto{})
			t.nlex++
		}
	}
	p := t.protos[x-1]
	var park, spin string
	switch ev {
	case "step":
		t.steps++
		p.steps++
		fn, input, pos := lexerState(l)
		mfn := ModelFn(fn, l)
		if mfn == "String" {
			if pos > 0 && pos <= len(input) && input[pos-1] == '"' {
				mfn = "StringDq"
			} else {
				mfn = "StringSq"
			}
		}
		cls := "EOF"
		if pos < len(input) {
			r, _ := utf8.DecodeRuneInString(input[pos:])
			cls = ClassOf(r)
		}
		if p.lastFn != "" {
			t.edges[p.lastFn+"|"+p.lastCls+"|"+mfn] = struct{}{}
		}
		p.lastFn, p.lastPos, p.lastCls, p.input = mfn, pos, cls, input
		if p.ph != 0 {
			t.note("step-after-last-item")
		}
		if t.keep {
			// consecutive steps are collapsed: the protocol only needs to know
			// that the scanner ran
			if n := len(t.events); n == 0 || t.events[n-1].E != 's' || t.events[n-1].X != x {
				t.events = append(t.events, Ev{'s', x, 0})
			}
		}
		if t.stepCap > 0 && t.steps > t.stepCap {
			park = fn
		}
	case "emit":
		if p.ph != 0 {
			t.note("emit-after-last-item")
		}
		over := p.drained || len(p.infl) >= 2
		if over {
			p.infl, p.drained = p.infl[:0], true
		} else {
			p.infl = append(p.infl, a)
		}
		if a == itEOF || a == itError {
			p.ph = 1
			end := "END-eof"
			if a == itError {
				end = "END-error"
			}
			if p.lastFn != "" {
				t.edges[p.lastFn+"|"+p.lastCls+"|"+end] = struct{}{}
				p.lastFn = ""
			}
		}
		if t.keep {
			t.events = append(t.events, Ev{'e', x, a})
		}
	case "next":
		t.nexts++
		// the zero item (receive on the closed channel) is counted for the spin
		// sentinel whatever the protocol mirror thinks of the event order: that
		// does not depend on how the channel is buffered
		if a == itInvalid {
			p.zeros++
			if p.zeros > t.zerosMax {
				t.zerosMax = p.zeros
			}
			if t.sentinel && p.zeros > zeroLimit {
				spin = parserFrame()
			}
		}
		switch {
		case p.drained:
			t.note("next-after-drain")
		case len(p.infl) > 0:
			if p.infl[0] != a {
				t.note("next-does-not-match-emit")
			}
			p.infl = p.infl[1:]
		default:
			if a != itInvalid || p.ph != 2 {
				t.note("zero-item-not-allowed")
			}
		}
		if t.keep && p.zeros <= 8 {
			t.events = append(t.events, Ev{'n', x, a})
		}
	case "close":
		if p.ph != 1 {
			t.note("close-before-last-item")
		}
		p.ph = 2
		if t.keep {
			t.events = append(t.events, Ev{'c', x, 0})
		}
	case "return":
		t.returned = true
		t.retErr = a
		for i, q := range t.protos {
			if !q.canReturn() {
				ph := "run"
				if q.ph == 1 {
					ph = "term"
				}
				t.leaks = append(t.leaks, LeakInfo{Scanner: i + 1, Phase: ph, Pending: len(q.infl), LastFn: q.lastFn})
			}
		}
		if t.keep {
			t.events = append(t.events, Ev{'r', 1, a})
		}
		// soy.ParseGlobals calls parse.Expr once per line: the next entry-point
		// call starts with fresh scanners (its trace is not shipped to TLC)
		t.retireScanners()
		t.lexers = map[interface{}]int{}
		t.protos = nil
		t.calls++
		t.keep = false
	}
	t.mu.Unlock()
	if park != "" {
		select {
		case t.parked <- park:
		default:
		}
		select {} // park the scanner goroutine: it has exceeded the step bound
	}
	if spin != "" {
		panic(&spinSentinel{frame: spin})
	}
}

// parserFrame names the innermost parser method that is reading tokens.
func parserFrame() string {
	pcs := make([]uintptr, 40)
	n := runtime.Callers(3, pcs)
	frames := runtime.CallersFrames(pcs[:n])
	for {
		f, more := frames.Next()
		name := shortFn(f.Function)
		if strings.HasPrefix(name, "(*tree).") {
			m := strings.TrimPrefix(name, "(*tree).")
			switch m {
			case "next", "peek", "expect", "nextNonComment", "backup", "backup2":
			default:
				return m
			}
		}
		if !more {
			break
		}
	}
	return "unknown"
}

// Snapshot returns the counters of the finished (or abandoned) parse.
func (t *Tracer) Snapshot() (steps, nexts, zeros, lexers int, anomalies []string, leaks []LeakInfo, events []Ev, returned bool) {
	t.mu.Lock()
	defer t.mu.Unlock()
	return t.steps, t.nexts, t.zerosMax, t.nlex, append([]string(nil), t.anomaly...),
		append([]LeakInfo(nil), t.leaks...), t.events, t.returned
}

// OpenScanners is the buffering-independent hook observation of C18: the
// number of scanners of this process (of the current and of all earlier
// entry-point calls) that have logged a step and not yet their close event.
func (t *Tracer) OpenScanners() int {
	t.mu.Lock()
	defer t.mu.Unlock()
	n := len(t.foreign)
	for l, x := range t.lexers {
		if !t.foreign[l] && x-1 < len(t.protos) && t.protos[x-1].ph != 2 {
			n++
		}
	}
	return n
}

// Edges returns the (fn|class|fn') transitions observed so far in this process.
func (t *Tracer) Edges() []string {
	t.mu.Lock()
	defer t.mu.Unlock()
	out := make([]string, 0, len(t.edges))
	for k := range t.edges {
		out = append(out, k)
	}
	return out
}

// ClassOf maps a rune to the character classes of SoyLexer.tla.
func ClassOf(r rune) string {
	switch r {
	case '{':
		return "lb"
	case '}':
		return "rb"
	case '/':
		return "sl"
	case '*':
		return "st"
	case '\\':
		return "bs"
	case ' ', '\t':
		return "sp"
	case '\r', '\n':
		return "nl"
	case '$':
		return "dol"
	case '.':
		return "dot"
	case '?':
		return "q"
	case '[':
		return "lbk"
	case ']':
		return "rbk"
	case '-':
		return "min"
	case '"':
		return "dq"
	case '\'':
		return "sq"
	case '=':
		return "eq"
	case '|':
		return "pipe"
	case ',':
		return "com"
	case ':':
		return "col"
	case '(':
		return "lp"
	case ')':
		return "rp"
	case '@':
		return "at"
	case '<', '>', '!':
		return "cmp"
	case '+', '%':
		return "ar"
	case '_':
		return "let"
	}
	switch {
	case r >= '0' && r <= '9':
		return "dig"
	case r >= 'a' && r <= 'z', r >= 'A' && r <= 'Z':
		return "let"
	case r == utf8.RuneError || r < 0x80:
	case unicode.IsDigit(r):
		return "udig"
	case unicode.IsLetter(r):
		return "ulet"
	case unicode.IsSpace(r):
		return "usp"
	}
	return "oth"
}

// ClassChar gives a representative character of a class.
func ClassChar(c string) string {
	switch c {
	case "lb":
		return "{"
	case "rb":
		return "}"
	case "sl":
		return "/"
	case "st":
		return "*"
	case "bs":
		return "\\"
	case "sp":
		return " "
	case "nl":
		return "\n"
	case "dol":
		return "$"
	case "dot":
		return "."
	case "q":
		return "?"
	case "lbk":
		return "["
	case "rbk":
		return "]"
	case "min":
		return "-"
	case "dig":
		return "7"
	case "dq":
		return "\""
	case "sq":
		return "'"
	case "eq":
		return "="
	case "pipe":
		return "|"
	case "com":
		return ","
	case "col":
		return ":"
	case "lp":
		return "("
	case "rp":
		return ")"
	case "at":
		return "@"
	case "cmp":
		return "<"
	case "ar":
		return "+"
	case "let":
		return "a"
	case "ulet":
		return "é"
	case "udig":
		return "٣"
	case "usp":
		return "\u2003"
	case "oth":
		return "#"
	}
	return ""
}

// ClassChars gives several representatives of a class: for the non-ASCII
// classes characters of 2, 3 and 4 bytes and of different sub-categories
// (widths and case matter to code that mixes byte and rune arithmetic).
func ClassChars(c string) []string {
	switch c {
	case "ulet":
		return []string{"é", "Ω", "ǅ", "中", "𝒜", "ª"}
	case "udig":
		return []string{"٣", "१", "１", "𝟙"}
	case "usp":
		return []string{"\u2003", "\u00a0", "\u3000", "\u2028", "\u0085"}
	case "oth":
		return []string{"#", "~", "\x00", "\xff", "\ufeff", "²", "€"}
	case "sp":
		return []string{" ", "\t"}
	case "nl":
		return []string{"\n", "\r"}
	case "let":
		return []string{"a", "Z", "_", "e", "x"}
	case "dig":
		return []string{"7", "0"}
	case "cmp":
		return []string{"<", ">", "!"}
	case "ar":
		return []string{"+", "%"}
	}
	return []string{ClassChar(c)}
}

// evClass renders an item type as the class string of the trace spec.
func evClass(a int) string {
	switch a {
	case itInvalid:
		return "Zero"
	case itEOF:
		return "EOF"
	case itError:
		return "Error"
	}
	return fmt.Sprintf("t%d", a)
}
