package c05

import (
	"fmt"
	"os"
	"regexp"
	"sort"
	"strings"
	"sync"
	"time"

	"verif/core"
)

// LexerDevs are the deviations of SoyLexer.tla with the property each must
// break ("temporal" = the liveness property Terminates).
var LexerDevs = []struct{ Name, Breaks string }{
	{"css_no_eof", "NoSpin"},
	{"hdrparam_no_eof", "NoSpin"},
	{"soydocparam_eof_underflow", "NoCrash"},
	{"neg_unicode_digit", "NoCrash"},
	{"literal_close_mismatch", "NoCrash"},
	{"string_no_eof", "NoSpin"},
	{"blockcomment_no_eof", "NoSpin"},
	{"soydoc_no_eof", "NoSpin"},
	{"literal_no_eof", "NoSpin"},
	{"begintag_self", "Progress"},
}

// ParseDevs are the deviations of SoyLexParse.tla.
var ParseDevs = []struct{ Name, Breaks string }{
	{"switch_ignores_unknown", "ParserProgress"},
	{"expr_no_drain", "NoLeak"},
	{"quoted_no_drain", "NoLeak"},
	{"recover_no_drain", "NoLeak"},
	{"emit_after_close", "NoSendOnClosed"},
	{"error_uses_zero_item", "PosInInput"},
	{"quoted_pos_relative", "PosInInput"},
	{"runtime_panic_in_frame", "NoLeak|NoPanicEscapes"},
}

// ModelRun is the outcome of one TLC job.
type ModelRun struct {
	Label    string
	Expect   string // "" = no violation expected, else property names separated by |
	Violated string
	Hist     []string
	Err      error
	States   int64
	Wall     float64
}

// Models runs the M1 jobs in the background.
type Models struct {
	ctx   *core.Ctx
	wg    sync.WaitGroup
	devWg sync.WaitGroup
	mu    sync.Mutex
	Runs  []*ModelRun
	Paths []ModelPath
	Edges map[string]struct{} // mode-less fn|class|fn'
	pathC chan struct{}
	sem   chan struct{}
	which string
}

func lexerCfg(dev string, keepHist, ghost bool, body string) string {
	d := ""
	if dev != "" {
		d = `"` + dev + `"`
	}
	return fmt.Sprintf("CONSTANTS Dev = {%s} Modes = {\"file\",\"expr\"} KeepHist = %s Ghost = %s\n%s\nCHECK_DEADLOCK FALSE\n",
		d, strings.ToUpper(fmt.Sprint(keepHist)), strings.ToUpper(fmt.Sprint(ghost)), body)
}

func parseCfg(dev string, depth, lines int, keepHist bool, body string) string {
	d := ""
	if dev != "" {
		d = `"` + dev + `"`
	}
	return fmt.Sprintf("CONSTANTS Dev = {%s} Entries = {\"file\",\"expr\"} MaxDepth = %d MaxLine = %d Skew = 1 ZeroBound = 3 KeepHist = %s\n%s\nCHECK_DEADLOCK FALSE\n",
		d, depth, lines, strings.ToUpper(fmt.Sprint(keepHist)), body)
}

const (
	lexSafety   = "INIT Init\nNEXT Next\nINVARIANTS TypeOK Progress NoCrash\nPROPERTY NoSpin"
	lexLive     = "SPECIFICATION Spec\nPROPERTY Terminates NoSpin"
	lexPaths    = "INIT Init\nNEXT Next\nVIEW PathView\nINVARIANTS PathReport"
	lexEdges    = "INIT Init\nNEXT Next\nVIEW EdgeView\nINVARIANTS EdgeReport"
	lexDevHist  = "INIT Init\nNEXT Next\nVIEW SpinView\nINVARIANTS NoCrash\nPROPERTY NoSpin"
	lexDevProg  = "INIT Init\nNEXT Next\nINVARIANTS Progress"
	lexDevLive  = "SPECIFICATION Spec\nPROPERTY Terminates"
	parseSafety = "INIT Init\nNEXT Next\nINVARIANTS TypeOK NoLeak NoLeakProto NoSendOnClosed ProtoRefined NoPanicEscapes PosInInput\nPROPERTY ParserProgress"
	parseHist   = "INIT Init\nNEXT Next\nVIEW View\nINVARIANTS TypeOK NoLeak NoLeakProto NoSendOnClosed ProtoRefined NoPanicEscapes PosInInput\nPROPERTY ParserProgress"
	parseLive   = "SPECIFICATION Spec\nPROPERTY Terminates"
)

var reHist = regexp.MustCompile(`(?s)/\\ hist = (<<.*?>>)\s*(?:/\\|$)`)
var reQuoted = regexp.MustCompile(`"([^"]*)"`)

// lastHist extracts the hist variable of the last state of a TLC error trace.
func lastHist(trace string) []string {
	ms := reHist.FindAllStringSubmatch(trace, -1)
	if len(ms) == 0 {
		return nil
	}
	var out []string
	for _, q := range reQuoted.FindAllStringSubmatch(ms[len(ms)-1][1], -1) {
		out = append(out, q[1])
	}
	return out
}

func (m *Models) job(label, module, cfg, expect string, workers int, after func(*core.TLCResult, *ModelRun)) {
	m.wg.Add(1)
	isDev := strings.Contains(label, "/dev/")
	if isDev {
		m.devWg.Add(1)
	}
	go func() {
		defer m.wg.Done()
		if isDev {
			defer m.devWg.Done()
		}
		if label != "SoyLexer/paths" { // the input families wait for the paths: no queueing
			m.sem <- struct{}{}
			defer func() { <-m.sem }()
		}
		run := &ModelRun{Label: label, Expect: expect}
		res, err := m.ctx.RunTLC(core.TLCOpts{Module: module, Cfg: cfg, Workers: workers, Timeout: 8 * time.Minute, Label: label})
		if err != nil && res != nil && strings.Contains(res.ToolErr, "Temporal property") {
			// TLC 1.8 words a single violated liveness property differently from
			// what core.parseTLC knows; it is a verdict of TLC, not tool trouble
			err = nil
			res.Violated = "temporal"
		}
		if err != nil {
			run.Err = err
		} else {
			run.Violated = res.Violated
			run.States = res.Distinct
			run.Wall = res.Wall.Seconds()
			if res.Violated != "" {
				run.Hist = lastHist(res.Trace)
			}
			if after != nil {
				after(res, run)
			}
		}
		m.mu.Lock()
		m.Runs = append(m.Runs, run)
		m.mu.Unlock()
	}()
}

// StartModels launches the TLC jobs of SoyLexer and SoyLexParse. which selects
// the parts: "lexer", "parse-c05", "parse-c18", "parse-c19" (comma separated).
func StartModels(ctx *core.Ctx, which string) *Models {
	m := &Models{ctx: ctx, Edges: map[string]struct{}{}, pathC: make(chan struct{}), sem: make(chan struct{}, 6), which: which}
	if os.Getenv("VERIF_DEV_NOTLC") != "" {
		// development aid (timing the real-code part alone): never a clean exit
		ctx.ToolError("TLC runs skipped (VERIF_DEV_NOTLC)")
		which = ""
	}
	m.which = which
	if strings.Contains(which, "paths") {
		// the path enumeration first: the input family (a) waits for it
		m.job("SoyLexer/paths", "SoyLexer", lexerCfg("", true, false, lexPaths), "", 1, func(res *core.TLCResult, run *ModelRun) {
			for _, p := range res.Printed {
				f := strings.Split(p, "|")
				if len(f) == 6 && f[0] == "PATH" {
					var h []string
					if f[5] != "" {
						h = strings.Split(f[5], " ")
					}
					m.Paths = append(m.Paths, ModelPath{Mode: f[1], PC: f[2], F1: f[3], F2: f[4], Hist: h})
				}
			}
			close(m.pathC)
		})
	} else {
		close(m.pathC)
	}
	m.startDevs()
	return m
}

// StartRest launches every job but the path enumeration (which StartModels
// started); callers do it when the CPU-heavy part of the real-code runs is over.
func (m *Models) StartRest() {
	ctx, which := m.ctx, m.which
	has := func(s string) bool { return strings.Contains(which, s) }
	thorough := ctx.Thorough()
	if has("lexer") {
		m.job("SoyLexer/reference-safety", "SoyLexer", lexerCfg("", false, true, lexSafety), "", 4, nil)
		m.job("SoyLexer/reference-liveness", "SoyLexer", lexerCfg("", false, false, lexLive), "", 4, nil)
		m.job("SoyLexer/edges", "SoyLexer", lexerCfg("", false, true, lexEdges), "", 1, func(res *core.TLCResult, run *ModelRun) {
			m.mu.Lock()
			for _, p := range res.Printed {
				f := strings.Split(p, "|")
				if len(f) == 5 && f[0] == "EDGE" {
					m.Edges[f[2]+"|"+f[3]+"|"+f[4]] = struct{}{}
				}
			}
			m.mu.Unlock()
		})
	}
	depth := ctx.Pick(3, 4)
	if has("parse-") {
		m.job("SoyLexParse/reference-safety", "SoyLexParse", parseCfg("", depth, 2, false, parseSafety), "", 6, nil)
		m.job("SoyLexParse/reference-liveness", "SoyLexParse", parseCfg("", 3, 1, false, parseLive), "", 4, nil)
	}
	if has("lexer") {
		for i, d := range LexerDevs {
			if d.Breaks == "NoSpin" && (thorough || i == 0) {
				m.job("SoyLexer/dev-liveness/"+d.Name, "SoyLexer", lexerCfg(d.Name, false, false, lexDevLive), "temporal", 3, nil)
			}
		}
	}
	liveFor := map[string][]string{"parse-c05": {"switch_ignores_unknown"}, "parse-c18": {"expr_no_drain"}}
	for part, names := range liveFor {
		if !has(part) {
			continue
		}
		for _, n := range names {
			m.job("SoyLexParse/dev-liveness/"+n, "SoyLexParse", parseCfg(n, 3, 1, false, parseLive), "temporal", 3, nil)
		}
	}
}

// startDevs launches the cheap safety runs of the deviations (their
// counterexamples become replay inputs).
func (m *Models) startDevs() {
	ctx, which := m.ctx, m.which
	has := func(s string) bool { return strings.Contains(which, s) }
	thorough := ctx.Thorough()
	if has("lexer") {
		for i, d := range LexerDevs {
			if !thorough && i >= 5 {
				break
			}
			switch d.Breaks {
			case "Progress":
				m.job("SoyLexer/dev/"+d.Name, "SoyLexer", lexerCfg(d.Name, false, true, lexDevProg), d.Breaks, 2, nil)
			default:
				m.job("SoyLexer/dev/"+d.Name, "SoyLexer", lexerCfg(d.Name, true, false, lexDevHist), d.Breaks, 1, nil)
			}
		}
	}
	devsFor := map[string][]string{
		"parse-c05": {"switch_ignores_unknown", "emit_after_close", "runtime_panic_in_frame"},
		"parse-c18": {"expr_no_drain", "quoted_no_drain", "recover_no_drain", "runtime_panic_in_frame"},
		"parse-c19": {"error_uses_zero_item", "quoted_pos_relative"},
	}
	for part, names := range devsFor {
		if !has(part) {
			continue
		}
		for _, n := range names {
			exp := ""
			for _, d := range ParseDevs {
				if d.Name == n {
					exp = d.Breaks
				}
			}
			m.job("SoyLexParse/dev/"+n, "SoyLexParse", parseCfg(n, 3, 2, true, parseHist), exp, 2, nil)
		}
	}
}

// WaitPaths blocks until the SoyLexer path enumeration is available.
func (m *Models) WaitPaths() []ModelPath {
	select {
	case <-m.pathC:
	case <-time.After(5 * time.Minute):
	}
	m.mu.Lock()
	defer m.mu.Unlock()
	return m.Paths
}

// Finish waits for all jobs and reports M1: a reference model that is
// violated, or a deviation that is NOT caught, is a spec defect (tool error),
// never a verdict about the code.
func (m *Models) Finish() []*ModelRun {
	m.wg.Wait()
	sort.Slice(m.Runs, func(i, j int) bool { return m.Runs[i].Label < m.Runs[j].Label })
	selftest := map[string]interface{}{}
	for _, r := range m.Runs {
		switch {
		case r.Err != nil:
			m.ctx.ToolError("%s: %v", r.Label, r.Err)
		case r.Expect == "" && r.Violated != "":
			m.ctx.ToolError("%s: the reference model violates %s (spec defect)", r.Label, r.Violated)
		case r.Expect != "":
			ok := false
			for _, e := range strings.Split(r.Expect, "|") {
				if r.Violated == e || (e == "temporal" && strings.HasPrefix(r.Violated, "temporal")) {
					ok = true
				}
			}
			selftest[r.Label] = map[string]interface{}{"expected": r.Expect, "violated": r.Violated, "caught": ok}
			if !ok {
				m.ctx.ToolError("%s: deviation not caught: expected %s, TLC reported %q (vacuous property)", r.Label, r.Expect, r.Violated)
			}
		}
	}
	m.ctx.Extra["deviation_selftest"] = selftest
	return m.Runs
}

// ---------------------------------------------------------------------------
// deviation counterexamples -> concrete replay inputs

var frameOpen = map[string]string{
	"switch": "{switch $x}", "case": "{case 1}", "if": "{if $x}", "callParams": "{call .u}", "print": "{$x",
	"soydoc": "/** doc", "attrs": "{call .u ", "listlit": "[1", "funcargs": "f(1", "dataref": "$a[", "ternary": " ? 1",
}

// ReplayFromLexerHist spells the counterexample of a SoyLexer deviation.
func ReplayFromLexerHist(run *ModelRun) []Input {
	if len(run.Hist) == 0 {
		return nil
	}
	s := Concretize(run.Hist)
	fam := "replay/" + strings.TrimPrefix(run.Label, "SoyLexer/dev/")
	return []Input{FileInput(fam, s), FileInput(fam, hdr+s), ExprInput(fam, s)}
}

// ReplayFromParseHist turns the history of consumed tokens of a SoyLexParse
// counterexample ("kind.phase:class" entries) into concrete inputs: the
// frames that occur are opened in order, the last consumed class decides how
// the input ends, and a token still pending in the scanner becomes trailing
// text.  A hand-written canonical input of the same shape is added.
func ReplayFromParseHist(run *ModelRun) []Input {
	dev := strings.TrimPrefix(run.Label, "SoyLexParse/dev/")
	fam := "replay/" + dev
	var out []Input
	canon := map[string][]Input{
		"switch_ignores_unknown": {FileInput(fam, hdr+"{switch $x}"), FileInput(fam, hdr+`{msg desc=""}{plural $x}`), FileInput(fam, "{switch $x}{foo}")},
		"expr_no_drain":          {ExprInput(fam, "1 2 3"), ExprInput(fam, "$a $b $c $d")},
		"quoted_no_drain":        {FileInput(fam, hdr+`{call .u data="$x 1 2"/}{/template}`), FileInput(fam, hdr+"{css $x 1 2, a}{/template}")},
		"recover_no_drain":       {FileInput(fam, hdr+"{foo $x} and {$more} text {$y}{/template}"), ExprInput(fam, "1 + + 2 3 4")},
		"emit_after_close":       {FileInput(fam, hdr+"a } b {$x} c"), ExprInput(fam, "'abc")},
		"error_uses_zero_item":   {FileInput(fam, hdr+"a\n}\n{/template}\n"), FileInput(fam, hdr+"{if $x}\n")},
		"quoted_pos_relative":    {FileInput(fam, hdr+"\n{call .u data=\"$x +\"/}\n{/template}\n")},
		"runtime_panic_in_frame": {FileInput(fam, hdr+"{call}"), FileInput(fam, hdr+"{plural $n}")},
	}
	if len(run.Hist) > 0 {
		first := run.Hist[0]
		if strings.HasPrefix(first, "binop") {
			// parse.Expr: operand, then operator+operand per "cont"
			var sb strings.Builder
			n := 0
			for _, h := range run.Hist {
				cls := h[strings.LastIndex(h, ":")+1:]
				switch cls {
				case "cont":
					if n == 0 {
						sb.WriteString("1")
					} else {
						sb.WriteString(" + 1")
					}
					n++
				case "other", "term":
					sb.WriteString(" 2")
				case "Error":
					sb.WriteString(" #")
				}
			}
			sb.WriteString(" 3 4") // items the scanner still wants to send
			out = append(out, ExprInput(fam, sb.String()))
		} else {
			var kinds []string
			seen := map[string]bool{"itemList": true}
			nested := ""
			lastCls := ""
			for _, h := range run.Hist {
				kp := h[:strings.LastIndex(h, ":")]
				cls := h[strings.LastIndex(h, ":")+1:]
				k := kp
				if i := strings.Index(kp, "."); i >= 0 {
					k = kp[:i]
				}
				lastCls = cls
				if k == "quoted" {
					switch cls {
					case "cont":
						if nested == "" {
							nested = "$x"
						} else {
							nested += " + 1"
						}
					case "other", "term":
						nested += " 1 2"
					case "Error":
						nested += " +"
					}
				}
				if !seen[k] {
					seen[k] = true
					kinds = append(kinds, k)
				}
			}
			var sb strings.Builder
			sb.WriteString(hdr)
			for _, k := range kinds {
				if k == "quoted" {
					sb.WriteString(`data="` + nested + `"/}`)
					continue
				}
				sb.WriteString(frameOpen[k])
			}
			switch lastCls {
			case "Error":
				sb.WriteString("\n }")
			case "other":
				sb.WriteString(" {foo $y} tail {$z}")
			}
			out = append(out, FileInput(fam, sb.String()))
		}
	}
	return append(out, canon[dev]...)
}

// ReplayInputs gathers the replay inputs of all deviation runs that are done.
func (m *Models) ReplayInputs() []Input {
	m.devWg.Wait()
	var out []Input
	m.mu.Lock()
	runs := append([]*ModelRun(nil), m.Runs...)
	m.mu.Unlock()
	sort.Slice(runs, func(i, j int) bool { return runs[i].Label < runs[j].Label })
	for _, r := range runs {
		if r.Expect == "" || r.Violated == "" {
			continue
		}
		switch {
		case strings.HasPrefix(r.Label, "SoyLexer/dev/"):
			out = append(out, ReplayFromLexerHist(r)...)
		case strings.HasPrefix(r.Label, "SoyLexParse/dev/"):
			out = append(out, ReplayFromParseHist(r)...)
		}
	}
	return out
}

// ---------------------------------------------------------------------------
// M3: protocol trace validation

var reBadTrace = regexp.MustCompile(`^<<"BAD", (\d+), (\d+), (\d+), "([^"]*)">>$`)
var reDoneTrace = regexp.MustCompile(`^<<"DONE", (\d+), (\d+)>>$`)

// TraceVerdict is a rejected trace.
type TraceVerdict struct {
	Index int // index into the slice given to ValidateTraces
	Event int
	Rule  string
}

// ValidateTraces has TLC validate the compact event lists (Result.Events)
// against the protocol of SoyLexProto/SoyLexParse (module SoyLexParseTrace).
func ValidateTraces(ctx *core.Ctx, events []string, label string) ([]TraceVerdict, error) {
	return ValidateTracesMode(ctx, events, label, true)
}

// ValidateTracesMode: strict = the rendez-vous protocol as it stands; not
// strict = only the rules that do not depend on channel buffering (see
// SoyLexParseTrace.tla).
func ValidateTracesMode(ctx *core.Ctx, events []string, label string, strict bool) ([]TraceVerdict, error) {
	var sb strings.Builder
	for i, e := range events {
		sb.WriteString(fmt.Sprintf(`{"id":%d,"ev":[`, i))
		for j, tok := range strings.Fields(e) {
			if j > 0 {
				sb.WriteByte(',')
			}
			var x, a int
			kind := tok[0]
			cls := ""
			if k := strings.IndexByte(tok, ':'); k >= 0 {
				fmt.Sscan(tok[1:k], &x)
				fmt.Sscan(tok[k+1:], &a)
				cls = evClass(a)
			} else {
				fmt.Sscan(tok[1:], &x)
			}
			name := map[byte]string{'s': "step", 'e': "emit", 'n': "next", 'c': "close", 'r': "return"}[kind]
			sb.WriteString(fmt.Sprintf(`{"e":"%s","x":%d,"c":"%s"}`, name, x, cls))
		}
		sb.WriteString("]}\n")
	}
	if d := os.Getenv("VERIF_DEV_KEEPTRACE"); d != "" {
		os.WriteFile(d, []byte(sb.String()), 0o644)
	}
	consts := "CONSTANTS Skew = 2 ZeroBound = 3 Strict = TRUE"
	if !strict {
		consts = "CONSTANTS Skew = 1000000 ZeroBound = 3 Strict = FALSE"
		label += "(buffering-independent rules)"
	}
	cfg := consts + "\nINIT Init\nNEXT Next\nINVARIANT Report\nPOSTCONDITION TraceAccepted\nCHECK_DEADLOCK FALSE\n"
	res, err := ctx.RunTLC(core.TLCOpts{Module: "SoyLexParseTrace", Cfg: cfg, Files: map[string][]byte{"lexparse_trace.ndjson": []byte(sb.String())},
		Workers: 1, Timeout: 8 * time.Minute, Label: label})
	if err != nil {
		return nil, err
	}
	if res.Violated != "" {
		return nil, fmt.Errorf("trace spec reported %s", res.Violated)
	}
	var bad []TraceVerdict
	done := false
	for _, t := range res.Tuples {
		if mm := reBadTrace.FindStringSubmatch(t); mm != nil {
			var v TraceVerdict
			fmt.Sscan(mm[2], &v.Index)
			fmt.Sscan(mm[3], &v.Event)
			v.Rule = mm[4]
			bad = append(bad, v)
		} else if mm := reDoneTrace.FindStringSubmatch(t); mm != nil {
			var n int
			fmt.Sscan(mm[1], &n)
			done = n == len(events)
		}
	}
	if !done {
		return nil, fmt.Errorf("trace validation did not consume the whole trace: %s", tailStr(res.Stdout, 400))
	}
	ctx.AddTraces(int64(len(events)))
	return bad, nil
}

func tailStr(s string, n int) string {
	if len(s) > n {
		return s[len(s)-n:]
	}
	return s
}
