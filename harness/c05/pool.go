package c05

import (
	"bufio"
	"bytes"
	"encoding/json"
	"fmt"
	"io"
	"os"
	"os/exec"
	"regexp"
	"strings"
	"sync"
	"time"
)

// Sequence is a run of parses made by one worker process between two checks
// of its goroutine profile (C18).
type Sequence struct {
	IDs       []int  // indices of the inputs parsed (in order)
	Remaining int    // scanner goroutines still alive after polling <= 2 s
	Stacks    string // their stacks
	Checked   bool   // the baseline poll was made (false: the process died/exited first)
}

// Pool runs inputs in worker sub-processes of this binary.
type Pool struct {
	Workers  int
	SeqLen   int  // inputs per sequence
	Baseline bool // poll the goroutine profile at the end of every sequence
	Prof     bool // check the goroutine profile after every parse
	Slow     bool // slow lane: generous triage thresholds

	mu        sync.Mutex
	edges     map[string]struct{}
	Sequences []Sequence
	Restarts  int
	Crashes   int
	Lost      int
	exe       string
	procs     []*proc
}

type proc struct {
	cmd    *exec.Cmd
	stdin  io.WriteCloser
	stdout *bufio.Reader
	dec    *json.Decoder
	stderr *capBuffer
	alive  bool
	seq    []int // inputs parsed since the last baseline check
}

type capBuffer struct {
	mu sync.Mutex
	b  bytes.Buffer
}

func (c *capBuffer) Write(p []byte) (int, error) {
	c.mu.Lock()
	if c.b.Len() < 1<<16 {
		c.b.Write(p)
	}
	c.mu.Unlock()
	return len(p), nil
}
func (c *capBuffer) String() string { c.mu.Lock(); defer c.mu.Unlock(); return c.b.String() }

// NewPool creates a pool of n workers.
func NewPool(n int) *Pool {
	exe, err := os.Executable()
	if err != nil {
		exe = os.Args[0]
	}
	return &Pool{Workers: n, SeqLen: 1000, exe: exe, edges: map[string]struct{}{}}
}

func (p *Pool) start() (*proc, error) {
	cmd := exec.Command(p.exe, "--worker")
	cmd.Env = append(os.Environ(), "GOTRACEBACK=all")
	if p.Slow {
		cmd.Env = append(cmd.Env, "VERIF_TRIAGE_SLOW=1")
	}
	stdin, err := cmd.StdinPipe()
	if err != nil {
		return nil, err
	}
	stdout, err := cmd.StdoutPipe()
	if err != nil {
		return nil, err
	}
	pr := &proc{cmd: cmd, stdin: stdin, stderr: &capBuffer{}}
	cmd.Stderr = pr.stderr
	if err := cmd.Start(); err != nil {
		return nil, err
	}
	pr.stdout = bufio.NewReaderSize(stdout, 1<<16)
	pr.dec = json.NewDecoder(pr.stdout)
	pr.alive = true
	return pr, nil
}

func (pr *proc) kill() {
	if pr == nil || !pr.alive {
		return
	}
	pr.alive = false
	pr.stdin.Close()
	pr.cmd.Process.Kill()
	pr.cmd.Wait()
}

// readResult reads one answer with a hard timeout.
func (pr *proc) readResult(timeout time.Duration) (*Result, error) {
	type rr struct {
		r   *Result
		err error
	}
	ch := make(chan rr, 1)
	go func() {
		var r Result
		err := pr.dec.Decode(&r)
		ch <- rr{&r, err}
	}()
	select {
	case x := <-ch:
		return x.r, x.err
	case <-time.After(timeout):
		return nil, fmt.Errorf("worker answer timeout")
	}
}

func (p *Pool) mergeEdges(es []string) {
	p.mu.Lock()
	for _, e := range es {
		p.edges[e] = struct{}{}
	}
	p.mu.Unlock()
}

var rePanicLine = regexp.MustCompile(`(?m)^(panic|fatal error): (.*)$`)

// crashInfo extracts the panic message and the function of package parse in
// which a goroutine of the worker died.
func crashInfo(stderr string) (msg, frame string) {
	m := rePanicLine.FindStringSubmatchIndex(stderr)
	if m == nil {
		return strings.TrimSpace(lastLines(stderr, 3)), "unknown"
	}
	msg = stderr[m[4]:m[5]]
	rest := stderr[m[1]:]
	// the first goroutine block after the panic line is the panicking one
	if i := strings.Index(rest, "goroutine "); i >= 0 {
		blk := rest[i:]
		if j := strings.Index(blk, "\n\n"); j >= 0 {
			blk = blk[:j]
		}
		frame = innermostParseFn(blk)
	}
	if frame == "" {
		frame = "unknown"
	}
	return msg, frame
}

func lastLines(s string, n int) string {
	ls := strings.Split(strings.TrimSpace(s), "\n")
	if len(ls) > n {
		ls = ls[len(ls)-n:]
	}
	return strings.Join(ls, " | ")
}

// Run parses all inputs and returns one result per input (same order).
func (p *Pool) Run(inputs []Input) []Result {
	results := make([]Result, len(inputs))
	for i := range inputs {
		inputs[i].ID = i
		inputs[i].Prof = p.Prof
	}
	seqLen := p.SeqLen
	if seqLen <= 0 {
		seqLen = 1000
	}
	type chunk struct{ lo, hi int }
	chunks := make(chan chunk, len(inputs)/seqLen+2)
	for lo := 0; lo < len(inputs); lo += seqLen {
		hi := lo + seqLen
		if hi > len(inputs) {
			hi = len(inputs)
		}
		chunks <- chunk{lo, hi}
	}
	close(chunks)
	var wg sync.WaitGroup
	for w := 0; w < p.Workers; w++ {
		wg.Add(1)
		go func() {
			defer wg.Done()
			var pr *proc
			defer func() {
				if pr != nil && pr.alive {
					p.retire(pr)
				}
			}()
			for ck := range chunks {
				pos := ck.lo
				for pos < ck.hi {
					if pr == nil || !pr.alive {
						var err error
						pr, err = p.start()
						if err != nil {
							for i := pos; i < ck.hi; i++ {
								results[i] = Result{ID: i, Outcome: "lost", Err: "cannot start worker: " + err.Error()}
							}
							p.mu.Lock()
							p.Lost += ck.hi - pos
							p.mu.Unlock()
							return
						}
					}
					pos = p.feed(pr, inputs, results, pos, ck.hi)
				}
				if pr != nil && pr.alive && p.Baseline {
					p.baseline(pr)
				}
			}
		}()
	}
	wg.Wait()
	return results
}

// feed sends inputs[pos:hi] to the process and collects the answers; it
// returns the index of the first input that still has to be run (hi when all
// were answered).  When the process dies or leaves, the input it was working
// on gets the verdict (crash / suspect) and the caller restarts a process for
// the rest.
func (p *Pool) feed(pr *proc, inputs []Input, results []Result, pos, hi int) int {
	go func(lo, hi int) {
		w := bufio.NewWriterSize(pr.stdin, 1<<16)
		enc := json.NewEncoder(w)
		for i := lo; i < hi; i++ {
			if err := enc.Encode(&inputs[i]); err != nil {
				return
			}
			// keep the pipe moving: flush every 32 requests
			if (i-lo)%32 == 31 {
				if w.Flush() != nil {
					return
				}
			}
		}
		w.Flush()
	}(pos, hi)
	for i := pos; i < hi; i++ {
		r, err := pr.readResult(700 * time.Second)
		if err != nil {
			// the process died (panic in a scanner goroutine, fatal error) or is stuck
			stuck := strings.Contains(err.Error(), "timeout")
			pr.alive = false
			pr.stdin.Close()
			pr.cmd.Process.Kill()
			pr.cmd.Wait()
			p.closeSeq(pr, false)
			se := pr.stderr.String()
			p.mu.Lock()
			p.Restarts++
			p.mu.Unlock()
			if stuck || !rePanicLine.MatchString(se) {
				results[i] = Result{ID: i, Outcome: "lost", Err: "worker lost: " + err.Error() + " stderr: " + lastLines(se, 4)}
				p.mu.Lock()
				p.Lost++
				p.mu.Unlock()
			} else {
				msg, frame := crashInfo(se)
				results[i] = Result{ID: i, Outcome: "crash", Panic: msg, PanicFrame: frame, Stack: trimStack(se)}
				p.mu.Lock()
				p.Crashes++
				p.mu.Unlock()
			}
			return i + 1
		}
		if r.ID != i {
			results[i] = Result{ID: i, Outcome: "lost", Err: fmt.Sprintf("worker answered id %d for %d", r.ID, i)}
			pr.kill()
			p.mu.Lock()
			p.Lost++
			p.Restarts++
			p.mu.Unlock()
			return i + 1
		}
		results[i] = *r
		pr.seq = append(pr.seq, i)
		if r.Exits {
			p.mergeEdges(r.Edges)
			results[i].Edges = nil
			pr.alive = false
			pr.stdin.Close()
			pr.cmd.Wait()
			p.closeSeq(pr, false)
			p.mu.Lock()
			p.Restarts++
			p.mu.Unlock()
			return i + 1
		}
	}
	return hi
}

func (p *Pool) closeSeq(pr *proc, checked bool) {
	if len(pr.seq) == 0 {
		return
	}
	p.mu.Lock()
	p.Sequences = append(p.Sequences, Sequence{IDs: pr.seq, Checked: checked})
	p.mu.Unlock()
	pr.seq = nil
}

func (p *Pool) baseline(pr *proc) {
	b, _ := json.Marshal(Input{ID: -1, Cmd: "baseline"})
	if _, err := pr.stdin.Write(append(b, '\n')); err != nil {
		pr.kill()
		return
	}
	r, err := pr.readResult(20 * time.Second)
	if err != nil {
		pr.kill()
		p.closeSeq(pr, false)
		return
	}
	p.mu.Lock()
	p.Sequences = append(p.Sequences, Sequence{IDs: pr.seq, Remaining: r.Baseline, Stacks: r.Stack, Checked: true})
	p.mu.Unlock()
	pr.seq = nil
	if r.Baseline > 0 {
		// start the next sequence from a clean process
		p.retire(pr)
	}
}

// retire collects the coverage edges of a live worker and stops it.
func (p *Pool) retire(pr *proc) {
	if !pr.alive {
		return
	}
	b, _ := json.Marshal(Input{ID: -2, Cmd: "edges"})
	if _, err := pr.stdin.Write(append(b, '\n')); err == nil {
		if r, err := pr.readResult(10 * time.Second); err == nil {
			p.mergeEdges(r.Edges)
		}
	}
	q, _ := json.Marshal(Input{ID: -3, Cmd: "quit"})
	pr.stdin.Write(append(q, '\n'))
	pr.stdin.Close()
	done := make(chan struct{})
	go func() { pr.cmd.Wait(); close(done) }()
	select {
	case <-done:
	case <-time.After(3 * time.Second):
		pr.cmd.Process.Kill()
		<-done
	}
	pr.alive = false
	p.closeSeq(pr, false)
}

// Edges returns the (fn|class|fn') transitions the workers observed.
func (p *Pool) Edges() map[string]struct{} {
	p.mu.Lock()
	defer p.mu.Unlock()
	out := make(map[string]struct{}, len(p.edges))
	for k := range p.edges {
		out[k] = struct{}{}
	}
	return out
}

// Probe runs the input in a fresh process of this binary with the 10 s
// watchdog (the only place where the verdict "hang" is taken).
func Probe(in *Input, dir string, n int) (*ProbeReport, error) {
	os.MkdirAll(dir, 0o755)
	path := fmt.Sprintf("%s/probe-%d-%d.json", dir, os.Getpid(), n)
	b, _ := json.Marshal(in)
	if err := os.WriteFile(path, b, 0o644); err != nil {
		return nil, err
	}
	defer os.Remove(path)
	exe, err := os.Executable()
	if err != nil {
		return nil, err
	}
	cmd := exec.Command(exe, "--probe", path)
	var out, errb bytes.Buffer
	cmd.Stdout, cmd.Stderr = &out, &errb
	if err := cmd.Start(); err != nil {
		return nil, err
	}
	done := make(chan error, 1)
	go func() { done <- cmd.Wait() }()
	select {
	case err := <-done:
		if err != nil {
			// the probe process itself died: a crash in a scanner goroutine
			msg, frame := crashInfo(errb.String())
			return &ProbeReport{Returned: true, Outcome: "crash", Panic: msg, Frame1: frame, Stack: trimStack(errb.String())}, nil
		}
	case <-time.After(40 * time.Second):
		cmd.Process.Kill()
		<-done
		return nil, fmt.Errorf("probe process did not finish")
	}
	var rep ProbeReport
	if err := json.Unmarshal(bytes.TrimSpace(out.Bytes()), &rep); err != nil {
		return nil, fmt.Errorf("probe output unreadable: %v: %s", err, out.String())
	}
	return &rep, nil
}
