package c05

import (
	"fmt"
	"sort"
	"strings"
	"sync"

	"verif/core"
)

// The "proportional" clause as a scaling law (round 4): for every repeatable
// construct of the language a VALID input is built with n, 4n and 32n
// repetitions and parsed in a worker process with the hooks off; the CPU time
// of the process (getrusage, minimum of several repetitions) must grow at
// most like ScaleBound for 32 times the input. CPU time, not wall time: the
// machine may be loaded. Everything inconclusive (too fast to measure, input
// not accepted, not reproduced in a second measurement) is not judged.

// ScaleBound is the largest accepted time(32n)/time(n): linear growth gives
// 32, n*log n about 45, quadratic growth 1024 (a quadratic term that is a third
// of time(n) already gives 360); measured on HEAD: 30..61.
const ScaleBound = 112.0

// minScaleCPUus is the time(n) the calibration aims at; minScaleFloorUs the
// smallest time(n) that is still considered measurable (when the size or
// depth cap stops the calibration).
const (
	minScaleCPUus   = 20000
	minScaleFloorUs = 1500
)

// Construct is a repeatable piece of input.
type Construct struct {
	Name  string
	Entry string             // file | expr | globals
	Build func(n int) string // input with n repetitions
	Start int                // first n tried
	MaxN  int                // largest n (0 = only the size cap): a nesting depth of 32n must stay harmless
}

func fileOf(body string) string {
	return "{namespace ns.scale}\n\n/** doc */\n{template .main}\n" + body + "{/template}\n"
}

func rep(unit string, n int) string { return strings.Repeat(unit, n) }

func numbered(format string, n int) string {
	var sb strings.Builder
	for i := 0; i < n; i++ {
		fmt.Fprintf(&sb, format, i)
	}
	return sb.String()
}

// Constructs lists the repeated constructs, systematically: every command,
// every place where a nested scanner/parser is started, every token kind that
// can be long, every way of nesting, for all three entry points.
func Constructs() []Construct {
	line := func(name, unit string) Construct {
		return Construct{name, "file", func(n int) string { return fileOf(rep(unit, n)) }, 1000, 0}
	}
	cs := []Construct{
		// nested scanner + parser per quoted attribute expression
		line("quoted-expr/call-data", "{call .other data=\"$x\" /}\n"),
		line("quoted-expr/param-value", "{call .other}{param key=\"p\" value=\"$x + 1\" /}{/call}\n"),
		line("quoted-expr/css-base", "{css $x, cls}\n"),
		line("css", "{css cls-name}\n"),
		line("call/params", "{call .other}{param p: 1 /}{param q}x{/param}{/call}\n"),
		line("call/data-all", "{call .other data=\"all\" /}\n"),
		line("print", "{$x}\n"),
		line("print/directives", "{$x.y[0]|escapeHtml|truncate:5,true}\n"),
		line("print/string-literal", "{'some string \\'q\\' \\n \\u00e9 end'}\n"),
		line("print/expression", "{$a + 1 * 2 - f($b, [1, 2], ['k': 3]) ?: 4}\n"),
		line("if-else", "{if $a}x{elseif $b}y{else}z{/if}\n"),
		line("switch", "{switch $a}{case 1}x{case 2, 3}y{default}z{/switch}\n"),
		line("foreach", "{foreach $i in $l}{$i}{ifempty}e{/foreach}\n"),
		line("for-range", "{for $i in range(1, 5)}{$i}{/for}\n"),
		line("let", "{let $v: 1 /}{let $w}x{/let}\n"),
		line("msg", "{msg desc=\"d\" meaning=\"m\"}Hello <b>{$x}</b> and {$y}{/msg}\n"),
		line("msg/text-lt-digit", "{msg desc=\"d\"}I <3 you -> always, 1<2>1 and a < b{/msg}\n"),
		line("msg/text-tags", "{msg desc=\"d\"}<a href='>' phname=\"p\">x</a> <br/> <!-- c -->{/msg}\n"),
		{"msg/one-message-lt-digit-run", "file", func(n int) string { return fileOf("{msg desc=\"d\"}" + rep("<3 ", n) + "{/msg}\n") }, 2000, 0},
		{"msg/one-message-lt-digit-run-closed", "file", func(n int) string { return fileOf("{msg desc=\"d\"}" + rep("<3 ", n) + ">{/msg}\n") }, 2000, 0},
		{"msg/one-message-lt-run", "file", func(n int) string { return fileOf("{msg desc=\"d\"}" + rep("<", n) + "{/msg}\n") }, 4000, 0},
		{"msg/one-message-open-tags", "file", func(n int) string { return fileOf("{msg desc=\"d\"}" + rep("<a b=\"c ", n) + "{/msg}\n") }, 2000, 0},
		{"msg/one-message-many-tags", "file", func(n int) string { return fileOf("{msg desc=\"d\"}" + rep("<b>x</b> ", n) + "{/msg}\n") }, 2000, 0},
		{"msg/one-message-many-placeholders", "file", func(n int) string { return fileOf("{msg desc=\"d\"}" + rep("a {$x} ", n) + "{/msg}\n") }, 1000, 0},
		line("msg/plural", "{msg desc=\"d\"}{plural $n}{case 1}one{default}{$n} many{/plural}{/msg}\n"),
		line("literal", "{literal}a {b} c{/literal}\n"),
		line("special-chars", "{sp}{nil}{lb}{rb}{\\n}\n"),
		line("log-debugger", "{log}x{/log}{debugger}\n"),
		line("line-comment", "text // a comment\n"),
		line("block-comment", "text /* a comment */ more\n"),
		line("text-lines", "some plain text with <b>tags</b> in it\n"),
		line("text-blank-lines", "x\n\n   \n\t\n"),
		{"text/one-long-run", "file", func(n int) string { return fileOf(rep("word ", 20*n) + "\n") }, 1000, 0},
		{"text/one-long-line-of-tags", "file", func(n int) string { return fileOf(rep("{$x}", n) + "\n") }, 1000, 0},
		{"templates", "file", func(n int) string {
			return "{namespace ns.scale}\n" + numbered("/** @param a */\n{template .t%d}\n{$a}\n{/template}\n", n)
		}, 500, 0},
		{"soydoc/params", "file", func(n int) string {
			return "{namespace ns.scale}\n/**\n" + numbered(" * @param p%d desc\n * @param? q%[1]d\n", n) + " */\n{template .main}\nx\n{/template}\n"
		}, 1000, 0},
		{"header-params", "file", func(n int) string {
			return "{namespace ns.scale}\n{template .main}\n" + numbered("{@param p%d: list<int>}\n", n) + "x\n{/template}\n"
		}, 1000, 0},
		{"aliases", "file", func(n int) string {
			return "{namespace ns.scale}\n" + numbered("{alias a.b.c%d}\n", n) + "{template .main}\nx\n{/template}\n"
		}, 1000, 0},
		{"nesting/if", "file", func(n int) string { return fileOf(rep("{if $a}", n) + "x" + rep("{/if}", n) + "\n") }, 500, 4000},
		{"nesting/mixed-blocks", "file", func(n int) string {
			return fileOf(rep("{foreach $i in $l}{let $w}{if $a}", n) + "x" + rep("{/if}{/let}{/foreach}", n) + "\n")
		}, 250, 1300},
		{"nesting/call-params", "file", func(n int) string {
			return fileOf(rep("{call .other}{param p}", n) + "x" + rep("{/param}{/call}", n) + "\n")
		}, 250, 2000},
		{"expr/long-sum", "file", func(n int) string { return fileOf("{1" + rep(" + $a", n) + "}\n") }, 2000, 0},
		{"expr/parens", "file", func(n int) string { return fileOf("{" + rep("(", n) + "1" + rep(")", n) + "}\n") }, 1000, 4000},
		{"expr/list", "file", func(n int) string { return fileOf("{[1" + rep(", 'a'", n) + "]}\n") }, 2000, 0},
		{"expr/map", "file", func(n int) string { return fileOf("{['k': 1" + numbered(", 'k%d': 2", n) + "]}\n") }, 2000, 0},
		{"expr/data-ref", "file", func(n int) string { return fileOf("{$a" + rep(".b?.c[0]", n) + "}\n") }, 2000, 0},
		{"expr/function-args", "file", func(n int) string { return fileOf("{f(1" + rep(", $a", n) + ")}\n") }, 2000, 0},
		{"expr/nested-calls", "file", func(n int) string { return fileOf("{" + rep("f(", n) + "1" + rep(")", n) + "}\n") }, 1000, 4000},
		{"expr/ternary-chain", "file", func(n int) string { return fileOf("{$a" + rep(" ? 1 : $b", n) + "}\n") }, 1000, 4000},
		{"expr/unary", "file", func(n int) string { return fileOf("{" + rep("not ", n) + "$a}\n") }, 2000, 4000},
		{"expr/long-string", "file", func(n int) string { return fileOf("{'" + rep("abc\\n", n) + "'}\n") }, 4000, 0},
		{"entry-expr/long-sum", "expr", func(n int) string { return "1" + rep(" + $a.b", n) }, 2000, 0},
		{"entry-expr/list", "expr", func(n int) string { return "[1" + rep(", [2, 'x']", n) + "]" }, 2000, 0},
		{"entry-globals/lines", "globals", func(n int) string { return numbered("name%d = 'value %[1]d'\n// comment\n\n", n) }, 1000, 0},
		// errors must be cheap too: the fault at the very end of a long valid prefix
		{"error-at-end/lexical", "file", func(n int) string { return fileOf(rep("{$x} text\n", n) + "{$a # 1}\n") }, 1000, 0},
		{"error-at-end/unclosed-block", "file", func(n int) string {
			return "{namespace ns.scale}\n{template .main}\n" + rep("{$x} text\n", n) + "{if $a}\n"
		}, 1000, 0},
		{"error-at-end/quoted-expr", "file", func(n int) string { return fileOf(rep("{$x} text\n", n) + "{call .other data=\"$a +\" /}\n") }, 1000, 0},
	}
	return cs
}

// ScaleResult is the measurement of one construct.
type ScaleResult struct {
	Name    string  `json:"construct"`
	N       int     `json:"n"`
	Bytes   []int   `json:"bytes"`
	CPUus   []int64 `json:"cpu_us"`
	Ratio   float64 `json:"time_32n_over_n"`
	Ratio2  float64 `json:"confirm_ratio,omitempty"`
	Verdict string  `json:"verdict"` // ok | superlinear | not-judged:<why>
	Outcome string  `json:"outcome,omitempty"`
}

func timeInput(c *Construct, n, reps int) Input {
	in := Input{Cmd: "time", Entry: c.Entry, Name: "scale.soy", Text: []byte(c.Build(n)), Family: "scaling/" + c.Name, Reps: reps}
	return in
}

// The series: n, 4n, 32n repetitions (3, 2, 1 measurements; the minimum counts).
var scaleFactors = []int{1, 4, 32}
var scaleReps = []int{3, 2, 1}

// measureSeries runs the series in one fresh worker process.
func measureSeries(c *Construct, n int) ([]int, []int64, string) {
	var ins []Input
	for i, f := range scaleFactors {
		ins = append(ins, timeInput(c, f*n, scaleReps[i]))
	}
	p := NewPool(1)
	p.SeqLen = 10
	rs := p.Run(ins)
	var bytes []int
	var cpu []int64
	for i := range rs {
		bytes = append(bytes, len(ins[i].Text))
		cpu = append(cpu, rs[i].CPUus)
		if rs[i].Outcome != "timed" {
			return bytes, cpu, rs[i].Outcome + " " + rs[i].Panic + rs[i].Err
		}
		if i == 0 && rs[i].Err != "" && !strings.HasPrefix(c.Name, "error-at-end/") {
			return bytes, cpu, "input-not-accepted: " + clip(rs[i].Err, 120)
		}
	}
	return bytes, cpu, ""
}

// ScalingCheck measures every construct (8 at a time) and reports the
// constructs whose parse time grows faster than ScaleBound.
func ScalingCheck(ctx *core.Ctx) []ScaleResult {
	cs := Constructs()
	results := make([]ScaleResult, len(cs))
	sem := make(chan struct{}, 12)
	var wg sync.WaitGroup
	for i := range cs {
		wg.Add(1)
		go func(i int) {
			defer wg.Done()
			sem <- struct{}{}
			defer func() { <-sem }()
			results[i] = scaleOne(&cs[i])
		}(i)
	}
	wg.Wait()
	sort.Slice(results, func(a, b int) bool { return results[a].Name < results[b].Name })
	judged := 0
	for i := range results {
		r := &results[i]
		switch r.Verdict {
		case "ok":
			judged++
		case "superlinear":
			judged++
			c := findConstruct(cs, r.Name)
			ctx.Violation(core.Sig{Family: "proportional", Feature: "superlinear-parse-time:" + r.Name},
				fmt.Sprintf("valid input with repeated construct %s: 32 times the input (%d -> %d bytes) takes %.0f times the CPU time (%d us -> %d us; second measurement %.0f); bound %.0f",
					r.Name, r.Bytes[0], r.Bytes[2], r.Ratio, r.CPUus[0], r.CPUus[2], r.Ratio2, ScaleBound),
				map[string]interface{}{"scaling": r, "entry": c.Entry, "unit_example": clip(c.Build(3), 600),
					"how": "build the input with n and 32n repetitions, parse each with hooks off, compare process CPU time (getrusage), best of 2-3 runs"})
		}
	}
	ctx.AddEvals(int64(judged))
	return results
}

func findConstruct(cs []Construct, name string) *Construct {
	for i := range cs {
		if cs[i].Name == name {
			return &cs[i]
		}
	}
	return &cs[0]
}

func scaleOne(c *Construct) ScaleResult {
	r := ScaleResult{Name: c.Name}
	n := c.Start
	maxN := c.MaxN
	// calibration: n large enough for time(n) to be measurable, small enough
	// for 32n to stay below ~8 MB (and below the nesting depth limit)
	for tries := 0; ; tries++ {
		p := NewPool(1)
		rs := p.Run([]Input{timeInput(c, n, 2)})
		if rs[0].Outcome != "timed" {
			r.Verdict = "not-judged:" + rs[0].Outcome
			return r
		}
		if rs[0].Err != "" && !strings.HasPrefix(c.Name, "error-at-end/") {
			r.Verdict = "not-judged:input-not-accepted: " + clip(rs[0].Err, 120)
			return r
		}
		if rs[0].CPUus >= minScaleCPUus {
			break
		}
		next := 2 * n
		if rs[0].CPUus < minScaleCPUus/4 {
			next = 4 * n
		}
		if tries >= 8 || len(c.Build(next)) > 1<<18 || (maxN > 0 && next > maxN) {
			// cap reached: a shorter time(n) is accepted when it is still measurable
			if rs[0].CPUus >= minScaleFloorUs {
				break
			}
			r.N = n
			r.Verdict = "not-judged:too-fast-to-measure"
			return r
		}
		n = next
	}
	r.N = n
	last := len(scaleFactors) - 1
	bound := ScaleBound
	bytes, cpu, problem := measureSeries(c, n)
	r.Bytes, r.CPUus = bytes, cpu
	if problem != "" {
		r.Verdict, r.Outcome = "not-judged:"+clip(problem, 160), problem
		return r
	}
	if cpu[0] < minScaleFloorUs {
		r.Verdict = "not-judged:too-fast-to-measure"
		return r
	}
	r.Ratio = float64(cpu[last]) / float64(cpu[0])
	if r.Ratio <= bound {
		r.Verdict = "ok"
		return r
	}
	// confirm in a second, fresh process
	_, cpu2, problem2 := measureSeries(c, n)
	if problem2 != "" || cpu2[0] < minScaleFloorUs {
		r.Verdict = "not-judged:not-reproduced"
		return r
	}
	r.Ratio2 = float64(cpu2[last]) / float64(cpu2[0])
	if r.Ratio2 > bound {
		r.Verdict = "superlinear"
	} else {
		r.Verdict = "not-judged:not-reproduced"
	}
	return r
}
