package c05

import (
	"encoding/json"
	"os"
)

func readJSON(path string, v interface{}) error {
	b, err := os.ReadFile(path)
	if err != nil {
		return err
	}
	return json.Unmarshal(b, v)
}
