package c05

import (
	"bufio"
	"encoding/json"
	"fmt"
	"os"
	"regexp"
	"runtime"
	"runtime/debug"
	"strings"
	"sync/atomic"
	"syscall"
	"time"

	"github.com/robfig/soy"
	"github.com/robfig/soy/errortypes"
	"github.com/robfig/soy/parse"
)

// Input is one parse request.
type Input struct {
	ID     int    `json:"id"`
	Cmd    string `json:"cmd,omitempty"`   // "" parse | "time" | "baseline" | "edges" | "quit"
	Reps   int    `json:"reps,omitempty"`  // time: number of repetitions (the best one counts)
	Entry  string `json:"entry,omitempty"` // file | expr | globals
	Name   string `json:"name,omitempty"`
	Text   []byte `json:"text,omitempty"`
	Family string `json:"family,omitempty"`
	Trace  bool   `json:"trace,omitempty"`
	Prof   bool   `json:"prof,omitempty"` // check the goroutine profile after this parse (C18)
	// Tag is free for the caller (expected lines of C19, ...); not sent.
	Tag interface{} `json:"-"`
}

// Result is what a worker observed for one input.
type Result struct {
	ID      int    `json:"id"`
	Outcome string `json:"outcome"` // tree | error | panic | suspect | crash | lost
	Steps   int    `json:"steps,omitempty"`
	Nexts   int    `json:"nexts,omitempty"`
	Zeros   int    `json:"zeros,omitempty"`
	Lexers  int    `json:"lexers,omitempty"`
	Err     string `json:"err,omitempty"`
	HasPos  bool   `json:"hasPos,omitempty"`
	File    string `json:"file,omitempty"`
	Line    int    `json:"line,omitempty"`
	Col     int    `json:"col,omitempty"`
	// panic that reached the caller of the entry point
	Panic      string `json:"panic,omitempty"`
	PanicFrame string `json:"panicFrame,omitempty"`
	// suspected hang
	Spin  string `json:"spin,omitempty"` // lexer | parser | parser-zero-items | steps | stuck
	Frame string `json:"frame,omitempty"`
	Stack string `json:"stack,omitempty"`

	Anomalies []string   `json:"anomalies,omitempty"`
	Leaks     []LeakInfo `json:"leaks,omitempty"`
	ProfLeak  int        `json:"profLeak,omitempty"`  // library goroutines left behind by this parse (profile)
	ProfWhere string     `json:"profWhere,omitempty"` // function such a goroutine belongs to
	HookOpen  int        `json:"hookOpen,omitempty"`  // scanners started by this call that never logged "close" (after the settle time)
	Events    string     `json:"events,omitempty"`    // compact event list of a sampled trace
	Micros    int64      `json:"us,omitempty"`
	CPUus     int64      `json:"cpuUs,omitempty"` // time: CPU time (user+system, getrusage) of the best repetition

	// answers to commands
	Baseline int      `json:"baseline,omitempty"`
	Edges    []string `json:"edges,omitempty"`
	Exits    bool     `json:"exits,omitempty"` // the worker exits after this answer
}

// StepBound is the "proportional" clause: the number of state-function steps
// of all scanners of one parse (the file's and those of its quoted attribute
// expressions) is at most StepC*len+StepD.  SoyLexer.tla (Progress) shows
// that a state function consumes a character or emits an item except on the
// chain Text>LeftDelim>BeginTag>InsideTag>Ident (4 hops); quoted expressions
// are scanned a second time.
const (
	StepC = 12
	StepD = 64
)

func stepBound(n int) int { return StepC*n + StepD }

// MaybeSubprocess handles the --worker and --probe modes of the checker
// binaries; it returns false when the process is a normal check run.
func MaybeSubprocess() bool {
	if len(os.Args) >= 2 && os.Args[1] == "--worker" {
		workerMain()
		return true
	}
	if len(os.Args) >= 3 && os.Args[1] == "--probe" {
		probeMain(os.Args[2])
		return true
	}
	return false
}

type worker struct {
	tr        *Tracer
	out       *bufio.Writer
	triage    time.Duration // hard limit of the fast triage per input
	ngBase    int
	leakedIDs map[string]bool
	lastOpen  int
	slow      int
}

func workerMain() {
	runtime.GOMAXPROCS(4)
	debug.SetGCPercent(400)
	w := &worker{tr: NewTracer(), out: bufio.NewWriterSize(os.Stdout, 1<<16), triage: 3 * time.Second, slow: 1}
	if os.Getenv("VERIF_TRIAGE_SLOW") != "" {
		w.slow = 50
	}
	if v := os.Getenv("VERIF_TRIAGE_MS"); v != "" {
		var ms int
		fmt.Sscan(v, &ms)
		if ms > 0 {
			w.triage = time.Duration(ms) * time.Millisecond
		}
	}
	in := bufio.NewReaderSize(os.Stdin, 1<<20)
	dec := json.NewDecoder(in)
	enc := json.NewEncoder(w.out)
	w.ngBase = runtime.NumGoroutine()
	w.leakedIDs = map[string]bool{}
	for {
		var req Input
		if err := dec.Decode(&req); err != nil {
			w.out.Flush()
			return
		}
		var res Result
		switch req.Cmd {
		case "quit":
			w.out.Flush()
			return
		case "edges":
			res = Result{ID: req.ID, Outcome: "edges", Edges: w.tr.Edges()}
		case "time":
			res = w.timeOne(&req)
		case "baseline":
			n, st := pollScanners(2 * time.Second)
			res = Result{ID: req.ID, Outcome: "baseline", Baseline: n, Stack: st}
		default:
			res = w.runOne(&req)
		}
		if res.Exits {
			res.Edges = w.tr.Edges()
		}
		enc.Encode(&res)
		w.out.Flush()
		if res.Exits {
			os.Exit(3)
		}
	}
}

// cpuNow is the CPU time (user + system) this process has used so far.
func cpuNow() time.Duration {
	var ru syscall.Rusage
	if err := syscall.Getrusage(syscall.RUSAGE_SELF, &ru); err != nil {
		return 0
	}
	return time.Duration(ru.Utime.Nano() + ru.Stime.Nano())
}

// timeOne measures the CPU time of one call of the entry point, hooks off:
// the minimum over Reps repetitions, each started after a garbage collection.
// CPU time of the process, not wall time, so that machine load does not matter.
func (w *worker) timeOne(in *Input) Result {
	res := Result{ID: in.ID, Outcome: "timed"}
	saved := parse.VerifLex
	parse.VerifLex = nil
	defer func() { parse.VerifLex = saved }()
	reps := in.Reps
	if reps <= 0 {
		reps = 1
	}
	type out struct {
		best time.Duration
		err  error
		pan  interface{}
	}
	done := make(chan out, 1)
	go func() {
		var o out
		defer func() {
			if p := recover(); p != nil {
				o.pan = p
			}
			done <- o
		}()
		// no garbage collection while the clock runs: its cost depends on the heap
		// size, not on the parser (the inputs are a few MB, the trees fit in memory)
		defer debug.SetGCPercent(debug.SetGCPercent(-1))
		for i := 0; i < reps; i++ {
			runtime.GC()
			t0 := cpuNow()
			o.err = callEntry(in)
			d := cpuNow() - t0
			if i == 0 || d < o.best {
				o.best = d
			}
		}
	}()
	select {
	case o := <-done:
		res.CPUus = o.best.Microseconds()
		if o.pan != nil {
			res.Outcome, res.Panic = "panic", fmt.Sprint(o.pan)
		} else if o.err != nil {
			res.Err = o.err.Error()
		}
	case <-time.After(10 * time.Minute):
		res.Outcome, res.Spin, res.Exits = "suspect", "stuck", true
	}
	return res
}

// callEntry runs the entry point of the code under test.
func callEntry(in *Input) (err error) {
	switch in.Entry {
	case "expr":
		_, err = parse.Expr(string(in.Text))
	case "globals":
		func() {
			// ParseGlobals evaluates each parsed expression; panics of the
			// evaluator belong to C06, not to the parser properties.
			defer func() {
				if p := recover(); p != nil {
					err = fmt.Errorf("verif: ParseGlobals panicked after parsing: %v", p)
				}
			}()
			_, err = soy.ParseGlobals(strings.NewReader(string(in.Text)))
		}()
	case "bundle":
		func() {
			// Bundle.Compile runs the checker passes after parsing; their panics
			// (C06/C07) are not the parser's: recovered, not judged.
			defer func() {
				if p := recover(); p != nil {
					err = fmt.Errorf("verif: Bundle.Compile panicked: %v", p)
				}
			}()
			err = compileBundle(in.Text)
		}()
	default:
		_, err = parse.SoyFile(in.Name, string(in.Text))
	}
	return err
}

// BundleSpec is the text of an input with Entry "bundle" (JSON).
type BundleSpec struct {
	Files []struct {
		Name string `json:"name"`
		Text string `json:"text"`
	} `json:"files"`
	Globals     string `json:"globals,omitempty"`      // text of a globals file ("" = none)
	GlobalsFile bool   `json:"globals_file,omitempty"` // add it with AddGlobalsFile (a real file)
	Tofu        bool   `json:"tofu,omitempty"`         // CompileToTofu instead of Compile
}

// compileBundle drives the public API: NewBundle, AddTemplateString /
// AddGlobalsFile, Compile / CompileToTofu.
func compileBundle(spec []byte) error {
	var bs BundleSpec
	if err := json.Unmarshal(spec, &bs); err != nil {
		return fmt.Errorf("verif: bad bundle spec: %v", err)
	}
	b := soy.NewBundle()
	if bs.GlobalsFile {
		f, err := os.CreateTemp("", "verif-globals-*.txt")
		if err != nil {
			return fmt.Errorf("verif: %v", err)
		}
		f.WriteString(bs.Globals)
		f.Close()
		defer os.Remove(f.Name())
		b = b.AddGlobalsFile(f.Name())
	}
	for _, f := range bs.Files {
		b = b.AddTemplateString(f.Name, f.Text)
	}
	if bs.Tofu {
		_, err := b.CompileToTofu()
		return err
	}
	_, err := b.Compile()
	return err
}

type parseDone struct {
	err   error
	pan   interface{}
	stack string
}

func (w *worker) runOne(in *Input) Result {
	res := Result{ID: in.ID}
	start := time.Now()
	w.tr.Begin(in.Trace, stepBound(len(in.Text)), true)
	done := make(chan parseDone, 1)
	go func() {
		var d parseDone
		defer func() {
			if p := recover(); p != nil {
				d.pan = p
				d.stack = string(debug.Stack())
			}
			done <- d
		}()
		d.err = callEntry(in)
	}()
	var d parseDone
	finished := false
	// fast triage (w.slow = 1) or slow lane (w.slow = 50, used to re-run
	// suspicions that the probe did not reproduce)
	unit := time.Duration(w.slow) * time.Millisecond
	select {
	case d = <-done:
		finished = true
	case fn := <-w.tr.parked:
		res.Outcome, res.Spin, res.Frame, res.Exits = "suspect", "steps", fn, true
	case <-time.After(2 * unit):
	}
	if !finished && res.Outcome == "" {
		// monitoring: no hook event for 2 consecutive samples => look at the stacks
		last := w.tr.Progress()
		still := 0
		deadline := time.Now().Add(w.triage * time.Duration(w.slow))
	loop:
		for {
			select {
			case d = <-done:
				finished = true
				break loop
			case fn := <-w.tr.parked:
				res.Outcome, res.Spin, res.Frame, res.Exits = "suspect", "steps", fn, true
				break loop
			case <-time.After(unit):
			}
			now := w.tr.Progress()
			if now == last {
				still++
			} else {
				still, last = 0, now
			}
			if still >= 2 {
				k1, f1, st1 := classifyStacks()
				time.Sleep(4 * unit)
				k2, f2, _ := classifyStacks()
				if w.tr.Progress() == last && k1 != "" && k1 == k2 && f1 == f2 {
					select {
					case d = <-done:
						finished = true
					default:
						res.Outcome, res.Spin, res.Frame, res.Stack = "suspect", k1, f1, trimStack(st1)
						res.Exits = true
					}
					break loop
				}
				still = 0
			}
			if time.Now().After(deadline) {
				k1, f1, st1 := classifyStacks()
				if k1 == "" {
					k1 = "stuck"
				}
				res.Outcome, res.Spin, res.Frame, res.Stack = "suspect", k1, f1, trimStack(st1)
				res.Exits = true
				break loop
			}
		}
	}
	steps, nexts, zeros, lexers, anomalies, leaks, events, returned := w.tr.Snapshot()
	res.Steps, res.Nexts, res.Zeros, res.Lexers = steps, nexts, zeros, lexers
	res.Micros = time.Since(start).Microseconds()
	if !finished {
		return res
	}
	switch {
	case d.pan != nil:
		res.Outcome = "panic"
		res.Panic = fmt.Sprint(d.pan)
		res.PanicFrame = panicFrame(d.stack)
		res.Stack = trimStack(d.stack)
	case d.err != nil:
		if s, ok := d.err.(*spinSentinel); ok {
			res.Outcome, res.Spin, res.Frame = "suspect", "parser-zero-items", s.frame
			return res
		}
		res.Outcome = "error"
		res.Err = d.err.Error()
		if fp := errortypes.ToErrFilePos(d.err); fp != nil {
			res.HasPos, res.File, res.Line, res.Col = true, fp.File(), fp.Line(), fp.Col()
		}
	default:
		res.Outcome = "tree"
	}
	res.Anomalies = anomalies
	if (returned || in.Entry == "globals") && in.Entry != "bundle" {
		// (a bundle may parse its files concurrently: the per-call hook state is
		// not meaningful there, the goroutine profile is what counts)
		res.Leaks = leaks
	}
	if in.Entry == "bundle" {
		res.Anomalies = nil
	}
	if in.Trace && returned && in.Entry != "globals" && in.Entry != "bundle" {
		// (ParseGlobals makes one parse.Expr call per line: its hook state is
		// judged per call by the tracer, but only single-call traces go to TLC)
		res.Events = encodeEvents(events)
	}
	if in.Prof && d.pan == nil {
		res.ProfLeak, res.ProfWhere = w.profileAfterParse()
		open := w.tr.OpenScanners()
		if open > w.lastOpen {
			res.HookOpen = open - w.lastOpen
		}
		w.lastOpen = open
	}
	return res
}

// profileAfterParse is the hook-independent observation of C18 for one parse:
// the number of scanner goroutines (frames of parse.(*lexer).run) that exist
// after the entry point has returned and that did not exist before it.
func (w *worker) profileAfterParse() (int, string) {
	spins := 200
	if len(w.leakedIDs) >= 40 {
		spins = 30 // see settle below
	}
	for i := 0; i < spins; i++ {
		if runtime.NumGoroutine() <= w.ngBase+len(w.leakedIDs) {
			return 0, ""
		}
		if i < 20 {
			runtime.Gosched()
		} else {
			time.Sleep(50 * time.Microsecond)
		}
	}
	// goroutines of the library (any frame of github.com/robfig/soy: scanners,
	// but also e.g. a reader goroutine of ParseGlobals) that were not there before
	n := 0
	where := ""
	gs := libraryGoroutines()
	// settle: a goroutine that is merely late (e.g. a scanner that still has to
	// close its channel on a loaded machine) gets up to 100 ms
	// (once a worker already holds 40 goroutines that outlived that settle time,
	// the tree is leaking for real and the verdict no longer depends on telling
	// late from leaked for each further parse: 10 ms, so that a check on a
	// leaking tree stays within minutes)
	settle := 50
	if len(w.leakedIDs) >= 40 {
		settle = 5
	}
	for wait := 0; wait < settle; wait++ {
		fresh := false
		for _, g := range gs {
			if !w.leakedIDs[g.id] {
				fresh = true
			}
		}
		if !fresh {
			break
		}
		time.Sleep(2 * time.Millisecond)
		gs = libraryGoroutines()
	}
	for _, g := range gs {
		if !w.leakedIDs[g.id] {
			w.leakedIDs[g.id] = true
			n++
			if where == "" || (strings.Contains(where, "(*lexer)") && !strings.Contains(g.fn, "(*lexer)")) {
				where = g.fn
			}
		}
	}
	if n == 0 {
		// goroutines that are not the library's (runtime helpers): move the baseline
		w.ngBase = runtime.NumGoroutine() - len(w.leakedIDs)
	}
	return n, where
}

type libGoroutine struct {
	id  string
	fn  string // the function of the library the goroutine was started in / sits in
	blk string
}

// libraryGoroutines lists the goroutines that have a frame of the library
// under test, except the one that is running an entry point for the harness.
func libraryGoroutines() []libGoroutine {
	var out []libGoroutine
	for _, blk := range strings.Split(allStacks(), "\n\n") {
		if !strings.Contains(blk, "github.com/robfig/soy") || strings.Contains(blk, "c05.callEntry") {
			continue
		}
		m := reGoroutine.FindStringSubmatch(blk)
		if m == nil {
			continue
		}
		g := libGoroutine{id: m[1], blk: blk}
		if strings.Contains(blk, "parse.(*lexer).run") {
			g.fn = "parse.(*lexer).run"
		} else {
			// the outermost library function of the goroutine (where it was started)
			for _, ln := range strings.Split(blk, "\n") {
				if strings.HasPrefix(ln, "\t") || !strings.Contains(ln, "github.com/robfig/soy") || strings.HasPrefix(ln, "created by") {
					continue
				}
				name := ln
				if i := strings.LastIndex(name, "("); i > 0 {
					name = name[:i]
				}
				if i := strings.LastIndex(name, "/"); i >= 0 {
					name = name[i+1:]
				}
				g.fn = name
			}
		}
		out = append(out, g)
	}
	return out
}

var reGoroutine = regexp.MustCompile(`(?m)^goroutine (\d+) \[([^\]]*)\]:`)

func allStacks() string {
	buf := make([]byte, 1<<18)
	for {
		n := runtime.Stack(buf, true)
		if n < len(buf) {
			return string(buf[:n])
		}
		buf = make([]byte, 2*len(buf))
	}
}

// countScanners counts the goroutines of the library that are still alive
// (scanner goroutines parse.(*lexer).run and any other goroutine the library
// started), and returns their stacks.
func countScanners() (int, string) {
	gs := libraryGoroutines()
	var sb strings.Builder
	for _, g := range gs {
		if sb.Len() < 4000 {
			sb.WriteString(g.blk)
			sb.WriteString("\n\n")
		}
	}
	return len(gs), sb.String()
}

// pollScanners waits up to d for every scanner goroutine to exit.
func pollScanners(d time.Duration) (int, string) {
	deadline := time.Now().Add(d)
	for {
		n, st := countScanners()
		if n == 0 || time.Now().After(deadline) {
			return n, st
		}
		time.Sleep(5 * time.Millisecond)
	}
}

var lexHelpers = map[string]bool{"(*lexer).next": true, "(*lexer).peek": true, "(*lexer).backup": true,
	"(*lexer).accept": true, "(*lexer).acceptRun": true, "(*lexer).emit": true, "(*lexer).ignore": true,
	"(*lexer).errorf": true, "(*lexer).nextItem": true, "(*lexer).run": true, "skipSpace": true, "maybeEmitText": true,
	"(*tree).next": true, "(*tree).peek": true, "(*tree).expect": true, "(*tree).nextNonComment": true,
	"(*tree).backup": true, "(*tree).backup2": true, "verifLex": true, "(*lexer).drain": true,
	"isEndOfLine": true, "isSpace": true, "isSpaceEOL": true, "isAlphaNumeric": true, "isDigit": true,
	"isLetterOrUnderscore": true, "allSpaceWithNewline": true}

// innermostParseFn returns the innermost function of package parse in a
// goroutine block of a stack dump that is not a small helper.
func innermostParseFn(blk string) string {
	first := ""
	for _, ln := range strings.Split(blk, "\n") {
		if strings.HasPrefix(ln, "\t") || !strings.Contains(ln, "/soy/parse.") {
			continue
		}
		name := ln
		if i := strings.LastIndex(name, "("); i > 0 {
			name = name[:i]
		}
		name = shortFn(name)
		if first == "" {
			first = name
		}
		if !lexHelpers[name] {
			return strings.TrimPrefix(name, "(*tree).")
		}
	}
	return first
}

// classifyStacks looks for the goroutine that keeps a parse from returning:
//
//	lexer   a scanner goroutine is running/runnable inside a state function
//	parser  the parsing goroutine is running/runnable (not waiting for an item)
//	blocked both sides wait
func classifyStacks() (kind, frame, stacks string) {
	st := allStacks()
	var lexRun, lexWait, parRun, parWait string
	for _, blk := range strings.Split(st, "\n\n") {
		m := reGoroutine.FindStringSubmatch(blk)
		if m == nil {
			continue
		}
		state := m[2]
		busy := strings.HasPrefix(state, "running") || strings.HasPrefix(state, "runnable")
		switch {
		case strings.Contains(blk, "parse.(*lexer).run"):
			if busy {
				lexRun = blk
			} else {
				lexWait = blk
			}
		case strings.Contains(blk, "c05.callEntry"):
			if busy {
				parRun = blk
			} else {
				parWait = blk
			}
		}
	}
	switch {
	case lexRun != "":
		return "lexer", innermostParseFn(lexRun), lexRun + "\n\n" + parWait
	case parRun != "":
		return "parser", innermostParseFn(parRun), parRun + "\n\n" + lexWait
	case parWait != "":
		return "blocked", innermostParseFn(parWait) + "/" + innermostParseFn(lexWait), parWait + "\n\n" + lexWait
	}
	return "", "", st
}

func trimStack(s string) string {
	if len(s) > 3000 {
		return s[:3000] + "\n..."
	}
	return s
}

// panicFrame names the function of package parse (or soy) in which a panic
// that reached the caller was raised.
func panicFrame(stack string) string {
	lines := strings.Split(stack, "\n")
	seenPanic := false
	for _, ln := range lines {
		if strings.HasPrefix(ln, "panic(") {
			seenPanic = true
			continue
		}
		if !seenPanic || strings.HasPrefix(ln, "\t") {
			continue
		}
		if strings.Contains(ln, "/soy/") && !strings.Contains(ln, "(*tree).recover") && !strings.Contains(ln, "verif") {
			name := ln
			if i := strings.LastIndex(name, "("); i > 0 {
				name = name[:i]
			}
			if i := strings.LastIndex(name, "/"); i >= 0 {
				name = name[i+1:]
			}
			return name
		}
	}
	return "unknown"
}

// PanicKind normalises a panic message to a short structural kind.
func PanicKind(msg string) string {
	switch {
	case strings.Contains(msg, "slice bounds out of range"):
		return "slice-bounds"
	case strings.Contains(msg, "index out of range"):
		return "index-out-of-range"
	case strings.Contains(msg, "nil pointer"):
		return "nil-dereference"
	case strings.Contains(msg, "send on closed channel"):
		return "send-on-closed-channel"
	case strings.Contains(msg, "interface conversion"):
		return "interface-conversion"
	case strings.Contains(msg, "all goroutines are asleep"):
		return "deadlock"
	}
	if len(msg) > 40 {
		msg = msg[:40]
	}
	return strings.Map(func(r rune) rune {
		if r >= 'a' && r <= 'z' || r >= 'A' && r <= 'Z' || r >= '0' && r <= '9' {
			return r
		}
		return '-'
	}, msg)
}

func encodeEvents(evs []Ev) string {
	var sb strings.Builder
	for i, e := range evs {
		if i > 0 {
			sb.WriteByte(' ')
		}
		fmt.Fprintf(&sb, "%c%d", e.E, e.X)
		if e.E == 'e' || e.E == 'n' {
			fmt.Fprintf(&sb, ":%d", e.A)
		}
	}
	return sb.String()
}

// ---------------------------------------------------------------------------
// probe mode: the verdict "hang" is taken here, in a fresh process, without
// sentinel or parking: a 10 s watchdog, then two goroutine dumps 1 s apart.

// ProbeReport is printed by --probe.
type ProbeReport struct {
	Returned bool   `json:"returned"`
	Outcome  string `json:"outcome,omitempty"`
	Err      string `json:"err,omitempty"`
	Panic    string `json:"panic,omitempty"`
	Kind     string `json:"kind,omitempty"`
	Kind2    string `json:"kind2,omitempty"`
	Frame1   string `json:"frame1,omitempty"`
	Frame2   string `json:"frame2,omitempty"`
	Steps    int64  `json:"steps"`
	Events1  int64  `json:"events1"`
	Events2  int64  `json:"events2"`
	WaitedMs int64  `json:"waitedMs"`
	CutShort bool   `json:"cutShortByHeapLimit,omitempty"` // the watchdog stopped early: heap > 2 GB
	HeapMB   int64  `json:"heapMB,omitempty"`
	Stack    string `json:"stack,omitempty"`
}

func probeMain(path string) {
	runtime.GOMAXPROCS(4)
	b, err := os.ReadFile(path)
	if err != nil {
		fmt.Fprintln(os.Stderr, err)
		os.Exit(2)
	}
	var in Input
	if err := json.Unmarshal(b, &in); err != nil {
		fmt.Fprintln(os.Stderr, err)
		os.Exit(2)
	}
	wait := 10 * time.Second
	if v := os.Getenv("VERIF_PROBE_MS"); v != "" {
		var ms int
		fmt.Sscan(v, &ms)
		if ms > 0 {
			wait = time.Duration(ms) * time.Millisecond
		}
	}
	var events, steps int64
	parse.VerifLex = func(ev string, l interface{}, a, b int) {
		atomic.AddInt64(&events, 1)
		if ev == "step" {
			atomic.AddInt64(&steps, 1)
		}
	}
	done := make(chan parseDone, 1)
	start := time.Now()
	go func() {
		var d parseDone
		defer func() {
			if p := recover(); p != nil {
				d.pan = p
			}
			done <- d
		}()
		d.err = callEntry(&in)
	}()
	var rep ProbeReport
	finish := func(d parseDone) {
		rep.Returned = true
		switch {
		case d.pan != nil:
			rep.Outcome, rep.Panic = "panic", fmt.Sprint(d.pan)
		case d.err != nil:
			rep.Outcome, rep.Err = "error", d.err.Error()
		default:
			rep.Outcome = "tree"
		}
	}
	// the 10 s watchdog; it is cut short only when the heap of this process
	// passes 2 GB (a spinning loop that also allocates would otherwise take
	// the machine down): no input below 4 KB needs that much
	deadline := time.After(wait)
	tick := time.NewTicker(100 * time.Millisecond)
	defer tick.Stop()
	expired := false
	for !expired && !rep.Returned {
		select {
		case d := <-done:
			finish(d)
		case <-deadline:
			expired = true
		case <-tick.C:
			var ms runtime.MemStats
			runtime.ReadMemStats(&ms)
			if ms.HeapAlloc > 2<<30 {
				rep.CutShort, rep.HeapMB = true, int64(ms.HeapAlloc>>20)
				expired = true
			}
		}
	}
	if !rep.Returned {
		k1, f1, st := classifyStacks()
		rep.Events1 = atomic.LoadInt64(&events)
		if rep.CutShort {
			time.Sleep(200 * time.Millisecond)
		} else {
			time.Sleep(time.Second)
		}
		select {
		case <-done:
			rep.Returned = true
			rep.Outcome = "late"
		default:
		}
		k2, f2, _ := classifyStacks()
		rep.Events2 = atomic.LoadInt64(&events)
		rep.Kind, rep.Kind2, rep.Frame1, rep.Frame2, rep.Stack = k1, k2, f1, f2, trimStack(st)
	}
	rep.Steps = atomic.LoadInt64(&steps)
	rep.WaitedMs = time.Since(start).Milliseconds()
	out, _ := json.Marshal(rep)
	fmt.Println(string(out))
	os.Exit(0)
}
