// Package c06 decides property C06: rendering any compiled bundle with any
// data, evaluating a standalone expression and parsing a globals file all
// return (result or error): no panic escapes, nothing loops unboundedly.
package c06

import (
	"fmt"
	"math/rand"
	"sort"
	"strings"
	"time"

	"github.com/robfig/soy/soyhtml"

	"verif/c01"
	"verif/core"
)

// Run is the entry point for C06.
func Run(ctx *core.Ctx) {
	ctx.Rule = "cases: calls of Renderer.Execute / soyhtml.EvalExpr / soy.ParseGlobals on (a) the TLC-enumerated operator x operand-type grid and function x argument grid of SoyExprCases (ill-typed cells included; TLC checks the oracle is total on them), (b) every print directive x arity 0..3 x value class, (c) every command fed every value class, missing $ij, undefined optionals, range steps <= 0, (d) duplicate template names across files and failures at call depth 1..4, messages rendered with crafted inconsistent catalogues (unknown placeholder, unknown plural variable, too few plural cases, out-of-range plural index, nil parts), (e) seeded generated bundles rendered with arbitrary JSON-shaped data; each runs in a worker subprocess with a deadline and an address-space cap; obligation: returns, no panic; non-trivial = all; distinct by (source, data)"
	ctx.Assumptions = append(ctx.Assumptions,
		"a hang or worker death counts only if it reproduces when the case is re-run alone in a fresh worker",
		"recursion is restricted to data-bounded depth; lists are bounded (no range beyond 10^6)")
	model(ctx)
	var cases []*Case
	add := func(c *Case) { c.ID = len(cases); cases = append(cases, c) }
	gridCases(ctx, add)
	directiveCases(add)
	directiveStringCases(add)
	commandCases(add)
	registryCases(add)
	msgBundleCases(add)
	randomDataCases(ctx, add, ctx.Pick(600, 400000))
	ctx.AddEvals(int64(len(cases)))
	res := RunIsolated(cases, 10*time.Second)
	byFam := map[string]int{}
	compileErrs := map[string]int{}
	for _, c := range cases {
		byFam[c.Family]++
		if o, ok := res[c.ID]; ok && o.CompileErr && c.Kind == "render" {
			compileErrs[c.Family]++
		}
		o, ok := res[c.ID]
		if !ok {
			ctx.ToolError("no outcome for case %d (%s)", c.ID, c.Family)
			continue
		}
		ctx.Distinct(fmt.Sprint(c.Family, c.Files, c.Data, c.Expr, c.Text, c.NoIJ))
		if c.ID%997 == 0 {
			ctx.Sample(map[string]interface{}{"case": c, "outcome": o})
		}
		switch {
		case o.Hung || o.Died:
			// confirm alone in a fresh worker
			again := RunIsolated([]*Case{c}, 10*time.Second)[c.ID]
			if again.Hung || again.Died {
				kind := "hang"
				if again.Died {
					kind = "worker-died"
				}
				ctx.Violation(core.Sig{Family: c.Family, Feature: kind + ":" + c.Feature},
					fmt.Sprintf("%s: no return within 10 s twice (fresh worker each time): %s", c.Feature, describe(c)), map[string]interface{}{"case": c, "outcome": again})
			} else {
				ctx.ToolError("case %d hung once but not when re-run alone (%s)", c.ID, c.Feature)
			}
		case o.Panicked:
			ctx.Violation(core.Sig{Family: c.Family, Feature: "panic:" + c.Feature},
				fmt.Sprintf("panic escaped to the caller: %.300s : %s", o.Panic, describe(c)), map[string]interface{}{"case": c, "outcome": o})
		case !o.Returned:
			ctx.ToolError("case %d: worker reported neither return nor panic", c.ID)
		default:
			ctx.AddTraces(1)
		}
	}
	ctx.Extra["cases_by_family"] = byFam
	ctx.Extra["compile_errors_by_family"] = compileErrs
	// a family built to render must reach the renderer: a bundle the compiler
	// rejects exercises nothing
	if n := compileErrs["msg-bundle"]; n > 0 {
		ctx.ToolError("msg-bundle family: %d of %d cases did not compile (dead driver)", n, byFam["msg-bundle"])
	}
}

func describe(c *Case) string {
	switch c.Kind {
	case "evalexpr":
		return "EvalExpr(" + c.Expr + ")"
	case "globals":
		return "ParseGlobals(" + fmt.Sprintf("%q", c.Text) + ")"
	case "globals-reader":
		return fmt.Sprintf("ParseGlobals(reader failing with %s after %d bytes of %q)", c.Expr, c.FailAfter, c.Text)
	case "bundle-paths":
		return "bundle built from paths ($D = a temp dir holding ok.soy, g.txt, sub/x.soy): " + c.Text
	}
	var b strings.Builder
	for _, f := range c.Files {
		b.WriteString(f.Text)
	}
	return fmt.Sprintf("render %s data=%v\n%s", c.Entry, c.Data, b.String())
}

// model: TLC on SoyRegistry — the recovery path of the reference design is
// total; each named deviation (what the pinned code did) breaks it.
func model(ctx *core.Ctx) {
	cfg := func(dev string) string {
		return "CONSTANTS Dev = {" + dev + "}\nNames = {\"a.t\", \"a.u\"}\nMaxLen = 3\nMaxFiles = 2\nINIT Init\nNEXT Next\nINVARIANT RecoveryTotal\nINVARIANT PositionInside\nCHECK_DEADLOCK FALSE\n"
	}
	res, err := ctx.RunTLC(core.TLCOpts{Module: "SoyRegistry", Cfg: cfg(""), Workers: 4, Timeout: 5 * time.Minute, Label: "registry-reference"})
	if err != nil {
		ctx.ToolError("%v", err)
		return
	}
	if res.Violated != "" {
		ctx.ToolError("SoyRegistry reference design violates %s: %s", res.Violated, res.Trace)
	}
	caught := map[string]bool{}
	for _, dev := range []string{"regsrc_last_wins", "recover_reads_nil_tmpl"} {
		r, err := ctx.RunTLC(core.TLCOpts{Module: "SoyRegistry", Cfg: cfg(`"` + dev + `"`), Workers: 4, Timeout: 5 * time.Minute, Label: "registry-deviation-" + dev})
		if err != nil {
			ctx.ToolError("%v", err)
			continue
		}
		caught[dev] = r.Violated == "RecoveryTotal"
		if !caught[dev] {
			ctx.ToolError("deviation %s not caught by RecoveryTotal (violated=%q)", dev, r.Violated)
		}
	}
	ctx.Extra["deviations_caught"] = caught
}

// value classes used everywhere below
type vclass struct {
	name string
	lit  core.E
	val  core.V
}

func classes() []vclass {
	return []vclass{
		{"null", core.ENull(), core.VNull()},
		{"bool", core.EBool(true), core.VBool(true)},
		{"int", core.EInt(3), core.VInt(3)},
		{"negint", core.EInt(-2), core.VInt(-2)},
		{"zero", core.EInt(0), core.VInt(0)},
		{"float", core.EFloat(5, 1), core.VFloat(5, 1)},
		{"str", core.EStr("s<t>"), core.VStr("s<t>")},
		{"emptystr", core.EStr(""), core.VStr("")},
		{"list", core.EList(core.EInt(1), core.EStr("a")), core.VList(core.VInt(1), core.VStr("a"))},
		{"map", core.EMap("k", core.EInt(1)), core.VMap(map[string]core.V{"k": core.VInt(1)})},
		{"undef", core.EVar("missing"), nil},
	}
}

func exprFile(src string, vars []string) []core.File {
	return []core.File{{Name: "t.soy", Text: core.ExprTemplate(src, vars, false)}}
}

// gridCases: the TLC-enumerated grids (M1: Total invariant; M2: replay).
func gridCases(ctx *core.Ctx, add func(*Case)) {
	for _, fam := range []string{"F1", "F6"} {
		tcs, err := c01.EnumerateFamily(ctx, fam, 1, 4)
		if err != nil {
			ctx.ToolError("%v", err)
			continue
		}
		for _, tc := range tcs {
			if tc.R.Skip {
				continue
			}
			e := core.E(tc.R.E)
			src := core.Unparse(e, core.Style{})
			vars, _ := tc.R.Vars.(map[string]interface{})
			data := map[string]core.V{}
			for k, v := range vars {
				data[k] = v.(map[string]interface{})
			}
			feat := fmt.Sprintf("%v", tc.D["op"])
			if fam == "F6" {
				feat = fmt.Sprintf("fn=%v/%d", tc.D["fn"], len(tc.D["args"].([]interface{})))
			}
			c := &Case{Family: "grid-" + fam, Feature: feat, Kind: "render", Files: exprFile(src, core.ExprVars(e)), Entry: "t.m", Data: data, NoIJ: tc.R.IJ["t"] != "map"}
			if !c.NoIJ {
				c.IJ = map[string]core.V{}
				if m, ok := tc.R.IJ["v"].(map[string]interface{}); ok {
					for k, v := range m {
						c.IJ[k] = v.(map[string]interface{})
					}
				}
			}
			add(c)
			if len(core.ExprVars(e)) == 0 && len(vars) == 0 && c.NoIJ {
				add(&Case{Family: "evalexpr-" + fam, Feature: feat, Kind: "evalexpr", Expr: src})
				add(&Case{Family: "globals-" + fam, Feature: feat, Kind: "globals", Text: "// c\n\nG = " + src + "\nH = 1\n"})
			}
		}
	}
	// range with non-positive and large steps
	const maxI = 9223372036854775807
	for _, a := range [][]int{{0, 3, 0}, {0, 3, -1}, {3, 0, -1}, {0, 3, -4}, {0, 100000, 1}, {5, 5, 1}, {0, 3, 1000000},
		// steps and bounds near the limits of the integer type: the list is short but the
		// loop arithmetic may overflow
		{0, 1, 1 << 62}, {0, -1, -(1 << 62)}, {0, 3, maxI}, {maxI - 7, maxI, 5}, {-maxI + 7, -maxI, -5}, {maxI - 2, maxI, 1},
		{0, maxI, maxI - 1}, {-maxI, maxI, maxI}, {1, 2, maxI - 1}} {
		src := fmt.Sprintf("length(range(%d, %d, %d))", a[0], a[1], a[2])
		add(&Case{Family: "range-steps", Feature: fmt.Sprintf("step=%d", a[2]), Kind: "render", Files: exprFile(src, nil), Entry: "t.m", NoIJ: true})
		add(&Case{Family: "range-steps", Feature: fmt.Sprintf("evalexpr,step=%d", a[2]), Kind: "evalexpr", Expr: src})
	}
	for _, g := range []string{"", "x", "x =", "= 1", "x = 1\nx = 2", "x = $y", "x = 1 2 3", "x = [1]", "x = 'a\n", "x = round('a')", "x == 1", "//only comment", "x = -", "x = 1 +", "x=1\r\ny='a'"} {
		add(&Case{Family: "globals-lines", Feature: "malformed", Kind: "globals", Text: g})
	}
}

// directiveCases: every directive x arity 0..3 x value class.
func directiveCases(add func(*Case)) {
	var names []string
	for n := range soyhtml.PrintDirectives {
		names = append(names, n)
	}
	names = append(names, "noSuchDirective")
	sort.Strings(names)
	cls := classes()
	for _, d := range names {
		for arity := 0; arity <= 3; arity++ {
			for _, v := range cls {
				for _, a := range cls {
					if arity == 0 && a.name != "null" {
						continue
					}
					var args []core.E
					for k := 0; k < arity; k++ {
						args = append(args, a.lit)
					}
					prog := []core.Cmd{core.CPrint(v.lit, core.CDir(d, args...))}
					src := core.UnparseCmds(prog, "t", nil, core.Style{})
					file := "{namespace t}\n/** @param? missing */\n{template .m}\n" + src + "{$missing ?: ''}\n{/template}\n"
					add(&Case{Family: "directives", Feature: fmt.Sprintf("directive=%s/%d,value=%s,arg=%s", d, arity, v.name, a.name), Kind: "render",
						Files: []core.File{{Name: "t.soy", Text: file}}, Entry: "t.m", NoIJ: true})
				}
			}
		}
	}
}

// directiveStringCases: every directive on adversarial STRING data (runs of
// code points that escapers treat specially: several non-printable astral
// characters, surrogate-range and invalid bytes, long runs, every ASCII
// control character), with the directive's usual arguments.
func directiveStringCases(add func(*Case)) {
	var names []string
	for n := range soyhtml.PrintDirectives {
		names = append(names, n)
	}
	sort.Strings(names)
	strs := map[string]string{
		"two-astral-nonprintable": "\U000E0067\U000E0062", "flag-tag-sequence": "\U0001F3F4\U000E0067\U000E0062\U000E0065\U000E006E\U000E0067\U000E007F",
		"three-private-use": "a\U000F0001b\U00100002c\U0010FFFD", "max-code-points": "\U0010FFFF\U0010FFFE\U0010FFFF", "astral-printable-run": strings.Repeat("\U0001F600", 40),
		"invalid-utf8": "a\xff\xfe\xc3(\xe2\x82", "lone-continuations": "\x80\x80\x80", "bmp-nonprintable": "\u200b\u200e\u2028\u2029\ufeff\ufffe",
		"controls": "\x00\x01\x07\x08\x0b\x0c\x0e\x1b\x1f\x7f", "long-specials": strings.Repeat("<&>\"'\\/", 300), "long-word": strings.Repeat("x", 5000),
		"multibyte-short": "aébc", "two-byte-run": "ééé", "three-byte-run": "日本語", "astral-between-ascii": "a\U0001F600b", "mixed-widths": "aé日\U0001F600z",
		"combining-run": "e" + strings.Repeat("\u0301", 200), "crlf-run": strings.Repeat("\r\n", 100), "percent-run": strings.Repeat("%", 100) + "%zz%4",
	}
	argsOf := map[string][]string{"truncate": {"", ":1", ":2", ":3", ":4", ":5", ":1,false", ":2,false", ":3,false", ":4,false", ":0", ":-1"}, "insertWordBreaks": {":1", ":2", ":5"}}
	for _, d := range names {
		al := argsOf[d]
		if al == nil {
			al = []string{""}
		}
		for sn, sv := range strs {
			for _, a := range al {
				file := "{namespace t}\n/** @param x */\n{template .m}\n{$x|" + d + a + "}{$x|noAutoescape|" + d + a + "}\n{/template}\n"
				add(&Case{Family: "directive-strings", Feature: fmt.Sprintf("directive=%s%s,string=%s", d, a, sn), Kind: "render",
					Files: []core.File{{Name: "t.soy", Text: file}}, Entry: "t.m", NoIJ: true, Data: map[string]core.V{"x": core.VStr(sv)}})
			}
		}
	}
	// termination of recursion that ends on a missing / undefined value
	list := func(k int) core.V {
		var v core.V
		for i := k; i >= 1; i-- {
			m := map[string]core.V{"val": core.VInt(i)}
			if v != nil {
				m["next"] = v
			}
			v = core.VMap(m)
		}
		return v
	}
	for k, body := range []string{
		`{if $node}{$node.val}{call .a data="all"}{param node: $node.next /}{/call}{else}end{/if}`,
		`{if $node}{$node.val}{call .a}{param node: $node.next /}{/call}{else}end{/if}`,
		`{if $node}{$node.val}{call .a data="$node"}{param node: $node.next /}{/call}{else}end{/if}`,
		`{if $node?.next}{call .a data="all"}{param node: $node.next /}{/call}{/if}{$node?.val ?: 'nil'}`,
		`{foreach $i in $node?.kids ?: []}{call .a data="all"}{param node: $i /}{/call}{ifempty}leaf{/foreach}`,
	} {
		for _, depth := range []int{1, 2, 5} {
			file := "{namespace r}\n/** @param? node */\n{template .a}\n" + body + "\n{/template}\n"
			add(&Case{Family: "recursion", Feature: fmt.Sprintf("body=%d,depth=%d", k, depth), Kind: "render",
				Files: []core.File{{Name: "r.soy", Text: file}}, Entry: "r.a", NoIJ: true, Data: map[string]core.V{"node": list(depth)}})
		}
	}
}

// commandCases: every command fed every value class.
func commandCases(add func(*Case)) {
	for _, v := range classes() {
		p := func(name string, decl string, body string, data map[string]core.V, noij bool) {
			file := "{namespace t}\n/** @param? x\n" + decl + " */\n{template .m}\n" + body + "\n{/template}\n" +
				"/** @param? a\n @param? b */\n{template .c}\n{$a ?: 'A'}{$b ?: 'B'}\n{/template}\n"
			add(&Case{Family: "commands", Feature: name + ",value=" + v.name, Kind: "render", Files: []core.File{{Name: "t.soy", Text: file}}, Entry: "t.m", Data: data, NoIJ: noij})
		}
		data := map[string]core.V{}
		if v.val != nil {
			data["x"] = v.val
		}
		p("foreach", "", "{foreach $i in $x}{$i}{ifempty}E{/foreach}", data, true)
		p("for", "", "{for $i in $x}{index($i)}{isLast($i)}{/for}", data, true)
		p("call-data", "", `{call .c data="$x"/}`, data, true)
		p("call-param", "", "{call .c}{param a: $x/}{/call}", data, true)
		p("plural", "", `{msg desc="d"}{plural $x}{case 1}one{default}many{/plural}{/msg}`, data, true)
		p("css", "", "{css $x, suf}", data, true)
		p("switch", "", "{switch $x}{case 1, 'a', null, true}M{case $x}X{default}D{/switch}", data, true)
		p("if", "", "{if $x}T{elseif not $x}F{/if}", data, true)
		p("let", "", "{let $y: $x/}{$y}{let $z}{$x}{/let}{$z}", data, true)
		p("index-of", "", "{$x[0] ?: 'n'}{$x.k ?: 'n'}{$x?.k?.j ?: 'n'}{$x['k'] ?: 'n'}{$x?[$x] ?: 'n'}", data, true)
		p("ij-missing", "", "{$x ?: 'n'}{$ij.k}", data, true)
		p("ij-present", "", "{$x ?: 'n'}{$ij.k ?: 'n'}{$ij.k.j ?: 'n'}", data, false)
		p("loopfn-on-nonloop", "", "{index($x)}", data, true)
		p("isfirst-on-nonloop", "", "{isFirst($x)}{isLast($x)}", data, true)
		p("msg", "", `{msg desc="d"}a{$x}<b>{$x}</b>{/msg}`, data, true)
		p("log", "", `{log}{$x}{/log}`, data, true)
	}
}

// registryCases: duplicate template names across files, failures at depth.
func registryCases(add func(*Case)) {
	pad := strings.Repeat("\n// padding line\n", 40)
	long := "{namespace d}\n" + pad + "/** @param? x */\n{template .t}\nlong{$x.y.z}\n{/template}\n"
	short := "{namespace d}\n/** @param? x */\n{template .t}\nshort{$x.y.z}\n{/template}\n"
	for i, fs := range [][]core.File{
		{{Name: "long.soy", Text: long}, {Name: "short.soy", Text: short}},
		{{Name: "short.soy", Text: short}, {Name: "long.soy", Text: long}},
		{{Name: "a.soy", Text: short}, {Name: "b.soy", Text: short}},
	} {
		add(&Case{Family: "duplicate-template-names", Feature: fmt.Sprintf("order=%d,failing-render", i), Kind: "render", Files: fs, Entry: "d.t", NoIJ: true})
		add(&Case{Family: "duplicate-template-names", Feature: fmt.Sprintf("order=%d,ok-render", i), Kind: "render", Files: fs, Entry: "d.t", NoIJ: true,
			Data: map[string]core.V{"x": core.VMap(map[string]core.V{"y": core.VMap(map[string]core.V{"z": core.VInt(1)})})}})
	}
	// two sources added under the same file name (AddTemplateString("", ...) twice,
	// as the project's own tests do), different templates: an error in the
	// first, longer one must still be located and returned
	for i, fname := range []string{"", "same.soy"} {
		longA := "{namespace s.a}\n" + pad + "/** @param? x */\n{template .t}\nA{$x.y.z}\n{/template}\n"
		shortB := "{namespace s.b}\n/** @param? x */\n{template .u}\nB{$x.y.z}\n{/template}\n"
		for j, fs := range [][]core.File{{{Name: fname, Text: longA}, {Name: fname, Text: shortB}}, {{Name: fname, Text: shortB}, {Name: fname, Text: longA}}} {
			for _, entry := range []string{"s.a.t", "s.b.u"} {
				add(&Case{Family: "same-file-name", Feature: fmt.Sprintf("name=%d,order=%d,entry=%s", i, j, entry), Kind: "render", Files: fs, Entry: entry, NoIJ: true})
			}
		}
	}
	// render failures in sources full of non-ASCII text (byte offsets run ahead of
	// character counts), at the start, in the middle and on the very last line
	for _, fill := range []string{"é", "日本語テキスト", "😀😀", "a\u0301", "\u2028"} {
		wide := strings.Repeat(fill, 60)
		for k, src := range []string{
			"{namespace w}\n/** " + wide + "\n @param? x */\n{template .t}\n" + wide + "{$x.y.z}" + wide + "\n{/template}\n",
			"{namespace w}\n// " + wide + "\n/** @param? x */\n{template .t}\n" + wide + "\n" + wide + "\n{$x.y.z}\n{/template}",
			"{namespace w}\n/** @param? x */\n{template .t}\n{msg desc=\"" + wide + "\"}" + wide + "<b>{$x.y.z}</b>" + wide + "{/msg}{/template}",
			"{namespace w}\n/** @param? x */\n{template .t}\n{'" + wide + "' + $x.y.z}{/template}\n/** */\n{template .u}\n" + wide + "\n{/template}\n",
		} {
			add(&Case{Family: "non-ascii-source", Feature: fmt.Sprintf("fill=%q,layout=%d", fill, k), Kind: "render", NoIJ: true, Entry: "w.t",
				Files: []core.File{{Name: "w.soy", Text: src}}})
		}
	}
	// malformed file layouts the compiler may accept or reject, but whose
	// registered templates must then render without a panic: template before /
	// without / between namespaces, namespace only, two namespaces
	for k, src := range []string{
		"{template .early}\nE{$ij.x}\n{/template}\n{namespace n}\n{template .late}\nL\n{/template}\n",
		"{template .only}\nO\n{/template}\n",
		"{namespace n}\n",
		"{namespace n}\n{template .a}\nA\n{/template}\n{namespace m}\n{template .b}\nB{call n.a/}\n{/template}\n",
		"{namespace n}\n{template .a}\nA\n{/template}\n{template .early}\nE\n{/template}\n",
		"/** doc */\n{template .early}\nE\n{/template}\n{namespace n}\n",
		"{namespace n}{namespace n}\n{template .a}\nA\n{/template}\n",
		"{template n.full}\nF\n{/template}\n{namespace n}\n",
	} {
		for _, entry := range []string{".early", "n.early", ".only", "n.a", "m.b", "n.late", "n.full", ".a", "early"} {
			add(&Case{Family: "file-layout", Feature: fmt.Sprintf("layout=%d,entry=%s", k, entry), Kind: "render", NoIJ: true, Entry: entry,
				Files: []core.File{{Name: "f.soy", Text: src}}})
		}
	}
	// readers that fail and paths that are not files: every entry point returns
	glob := "// c\nA = 1\nB = 'x'\n" + strings.Repeat("C = 3\n", 40)
	for _, kind := range []string{"plain", "unexpected-eof", "eisdir", "zero-nil"} {
		for _, after := range []int{0, 1, 5, 6, 12, 40, len(glob)} {
			add(&Case{Family: "globals-reader", Feature: fmt.Sprintf("err=%s,after=%d", kind, after), Kind: "globals-reader", Text: glob, Expr: kind, FailAfter: after})
		}
	}
	for k, steps := range []string{"globals=$D", "globals=$D/missing.txt", "globals=$D/sub", "globals=$D/g.txt;file=$D/ok.soy", "globals=$D/g.txt;file=$D", "globals=$D/g.txt;file=$D/missing.soy",
		"globals=$D/g.txt;dir=$D", "globals=$D/g.txt;dir=$D/missing", "globals=$D/g.txt;dir=$D/ok.soy", "file=$D/ok.soy;globals=$D/ok.soy", "globals=$D/g.txt;globals=$D/g.txt;file=$D/ok.soy",
		"globals=/dev/null;file=$D/ok.soy", "globals=$D/g.txt;file=/dev/null", "dir=$D/sub;file=$D/sub/x.soy"} {
		add(&Case{Family: "bundle-paths", Feature: fmt.Sprintf("steps=%d", k), Kind: "bundle-paths", Text: steps, Entry: "p.t", NoIJ: true})
	}
	// the same name in one file twice
	add(&Case{Family: "duplicate-template-names", Feature: "same-file", Kind: "render", NoIJ: true, Entry: "d.t",
		Files: []core.File{{Name: "x.soy", Text: "{namespace d}\n{template .t}\nA\n{/template}\n" + pad + "{template .t}\nB{1/0}{[][5]}\n{/template}\n"}}})
	// failure at call depth 1..4, in two files, through every call form
	for depth := 1; depth <= 4; depth++ {
		for _, failing := range []string{"{$x.y}", "{$u}", "{1 < 'a'}", "{round('a')}", "{$x|truncate:'z'}", "{foreach $i in 5}{/foreach}", `{call .t0 data="5"/}`} {
			var a, b strings.Builder
			a.WriteString("{namespace e.one}\n")
			b.WriteString("{namespace e.two}\n" + pad)
			for k := depth; k >= 1; k-- {
				w := &a
				ns, other := "e.one", "e.two"
				if k%2 == 0 {
					w, ns, other = &b, "e.two", "e.one"
				}
				_ = ns
				fmt.Fprintf(w, "/** @param? x\n @param? u */\n{template .t%d}\n<%d>{call %s.t%d data=\"all\"/}\n{/template}\n", k, k, other, k-1)
			}
			w := &a
			if depth%2 == 0 { // t0 lives in the file opposite to t1
				w = &a
			}
			_ = w
			// t0 in both namespaces so that every caller finds it
			for _, wb := range []*strings.Builder{&a, &b} {
				fmt.Fprintf(wb, "/** @param? x\n @param? u */\n{template .t0}\n%s{$x ?: ''}{$u ?: ''}\n{/template}\n", failing)
			}
			entry := "e.one.t" + fmt.Sprint(depth)
			if depth%2 == 0 {
				entry = "e.two.t" + fmt.Sprint(depth)
			}
			add(&Case{Family: "failure-at-depth", Feature: fmt.Sprintf("depth=%d,%s", depth, failing), Kind: "render", NoIJ: true, Entry: entry,
				Files: []core.File{{Name: "one.soy", Text: a.String()}, {Name: "two.soy", Text: b.String()}}})
		}
	}
}

// randomDataCases: generated bundles rendered with arbitrary JSON-shaped
// data whose types deliberately do not match the params.
func randomDataCases(ctx *core.Ctx, add func(*Case), n int) {
	r := rand.New(rand.NewSource(ctx.Seed))
	for i := 0; i < n; i++ {
		g := &core.ProgGen{R: r, MaxDepth: 1 + r.Intn(3)}
		p := g.Gen()
		files := core.UnparseProgram(p, core.Style{})
		data := map[string]core.V{}
		for _, pa := range p.Bundle[p.Entry].Params {
			if r.Intn(5) == 0 {
				continue
			}
			data[pa.Name] = core.RandValue(r, 2)
		}
		add(&Case{Family: "random-illtyped-data", Feature: "generated-bundle", Kind: "render", Files: files, Entry: p.Entry, Data: data, NoIJ: r.Intn(2) == 0, IJ: map[string]core.V{"k": core.RandValue(r, 1)}})
	}
}
