package c06

import (
	"strconv"
	"strings"

	"github.com/robfig/soy/ast"
	"github.com/robfig/soy/soymsg"

	"verif/core"
)

// fakeBundle is a soymsg.Bundle whose messages are crafted from the compiled
// tree and need not be consistent with it (a stale or hand-edited catalogue).
type fakeBundle struct {
	msgs   map[uint64]*soymsg.Message
	plural int
}

func (b *fakeBundle) Locale() string                     { return "xx" }
func (b *fakeBundle) Message(id uint64) *soymsg.Message { return b.msgs[id] }
func (b *fakeBundle) PluralCase(n int) int              { return b.plural }

func walkNodes(n ast.Node, f func(ast.Node)) {
	if n == nil {
		return
	}
	defer func() { recover() }() // typed-nil children
	f(n)
	if p, ok := n.(ast.ParentNode); ok {
		for _, c := range p.Children() {
			walkNodes(c, f)
		}
	}
}

// craftedBundle builds the bundle for spec "<mode>/<pluralIndex>".
func craftedBundle(comp *core.Compiled, spec string) soymsg.Bundle {
	parts := strings.SplitN(spec, "/", 2)
	mode := parts[0]
	pl := 0
	if len(parts) == 2 {
		pl, _ = strconv.Atoi(parts[1])
	}
	b := &fakeBundle{msgs: map[uint64]*soymsg.Message{}, plural: pl}
	for _, t := range comp.Registry.Templates {
		walkNodes(t.Node, func(n ast.Node) {
			m, ok := n.(*ast.MsgNode)
			if !ok {
				return
			}
			var names []string
			pluralVar := ""
			walkNodes(m.Body, func(c ast.Node) {
				switch c := c.(type) {
				case *ast.MsgPlaceholderNode:
					names = append(names, c.Name)
				case *ast.MsgPluralNode:
					pluralVar = c.VarName
				}
			})
			ph := func(name string) soymsg.Part { return soymsg.PlaceholderPart{Name: name} }
			txt := func(s string) soymsg.Part { return soymsg.RawTextPart{Text: s} }
			var ps []soymsg.Part
			switch mode {
			case "identity":
				ps = soymsg.Parts(soymsg.PlaceholderString(m))
			case "unknown-placeholder":
				ps = []soymsg.Part{txt("T"), ph("NO_SUCH_PLACEHOLDER"), txt("U")}
			case "unknown-placeholder-after-known":
				for _, n := range names {
					ps = append(ps, ph(n))
				}
				ps = append(ps, ph("NOPE"))
			case "plural-unknown-var":
				ps = []soymsg.Part{soymsg.PluralPart{VarName: "NO_SUCH_VAR", Cases: []soymsg.PluralCase{{Parts: []soymsg.Part{txt("a")}}, {Parts: []soymsg.Part{txt("b")}}}}}
			case "plural-no-cases":
				ps = []soymsg.Part{soymsg.PluralPart{VarName: pluralVar, Cases: nil}}
			case "plural-one-case":
				ps = []soymsg.Part{soymsg.PluralPart{VarName: pluralVar, Cases: []soymsg.PluralCase{{Parts: []soymsg.Part{txt("only"), ph("NOPE")}}}}}
			case "placeholder-names-plural-var":
				ps = []soymsg.Part{ph(pluralVar), txt("x")}
			case "empty":
				ps = nil
			case "nil-part":
				ps = []soymsg.Part{nil, txt("x")}
			}
			b.msgs[m.ID] = &soymsg.Message{ID: m.ID, Parts: ps}
		})
	}
	return b
}

// msgBundleCases: messages (with and without plural, directly in the entry
// template, through a call, as the last thing in the file) rendered with
// crafted catalogues.
func msgBundleCases(add func(*Case)) {
	modes := []string{"identity", "unknown-placeholder", "unknown-placeholder-after-known", "plural-unknown-var", "plural-no-cases",
		"plural-one-case", "placeholder-names-plural-var", "empty", "nil-part"}
	bodies := map[string]string{
		"plain":       `{msg desc="d"}Hello {$x} and <b>{$y}</b>!{/msg}{$n ?: ''}`,
		"plural":      `{msg desc="d"}{plural $n}{case 0}none{case 1}one {$x}{default}{$n} many{/plural}{/msg}{$y ?: ''}`,
		"two-msgs":    `{msg desc="a"}A {$x}{/msg}{msg desc="b"}B {$y}{/msg}{$n ?: ''}`,
		"msg-in-loop": `{foreach $i in [1,2]}{msg desc="d"}I {$i} {$x}{/msg}{/foreach}{$y ?: ''}{$n ?: ''}`,
	}
	for bname, body := range bodies {
		for _, where := range []string{"direct", "via-call", "direct-last-line"} {
			var file string
			switch where {
			case "direct":
				file = "{namespace m}\n/** @param? x\n @param? y\n @param? n */\n{template .t}\n" + body + "\n{/template}\n"
			case "direct-last-line":
				file = "{namespace m}\n/** @param? x\n @param? y\n @param? n */\n{template .t}\n" + body + "{/template}"
			default:
				file = "{namespace m}\n/** @param? x\n @param? y\n @param? n */\n{template .t}\n{call .u data=\"all\"/}\n{/template}\n" +
					"/** @param? x\n @param? y\n @param? n */\n{template .u}\n" + body + "\n{/template}\n"
			}
			for _, mode := range modes {
				for _, pl := range []int{0, 1, 5, -1} {
					if !strings.HasPrefix(mode, "plural") && pl != 0 {
						continue
					}
					for _, nval := range []core.V{core.VInt(1), core.VInt(7), core.VStr("s"), nil} {
						data := map[string]core.V{"x": core.VStr("X"), "y": core.VStr("<Y>")}
						if nval != nil {
							data["n"] = nval
						}
						add(&Case{Family: "msg-bundle", Feature: "mode=" + mode + ",body=" + bname + "," + where, Kind: "render",
							Files: []core.File{{Name: "m.soy", Text: file}}, Entry: "m.t", Data: data, NoIJ: true, Msgs: mode + "/" + strconv.Itoa(pl)})
					}
				}
			}
		}
	}
}
