package c06

import (
	"bufio"
	"bytes"
	"encoding/json"
	"errors"
	"fmt"
	"io"
	"os"
	"os/exec"
	"strings"
	"syscall"
	"time"

	"github.com/robfig/soy"
	"github.com/robfig/soy/data"
	"github.com/robfig/soy/parse"
	"github.com/robfig/soy/soyhtml"

	"verif/core"
)

// Case is one call of a public entry point whose only obligation is to
// return (with a result or an error) without panicking or hanging.
type Case struct {
	ID      int               `json:"id"`
	Family  string            `json:"family"`
	Feature string            `json:"feature"` // structural coordinates (operator, types...)
	Kind    string            `json:"kind"`    // render | evalexpr | globals
	Files   []core.File       `json:"files,omitempty"`
	Globals map[string]core.V `json:"globals,omitempty"`
	Entry   string            `json:"entry,omitempty"`
	Data    map[string]core.V `json:"data,omitempty"`
	IJ      map[string]core.V `json:"ij,omitempty"`
	NoIJ    bool              `json:"noij,omitempty"`
	Expr    string            `json:"expr,omitempty"`
	// Msgs, when set, renders with a crafted (possibly inconsistent) message
	// bundle: "<mode>/<pluralIndex>"
	Msgs string `json:"msgs,omitempty"`
	Text    string            `json:"text,omitempty"`
	// FailAfter: for kind globals-reader, the number of bytes served before the reader fails
	FailAfter int `json:"failAfter,omitempty"`
}

// Outcome is what the worker observed.
type Outcome struct {
	ID         int    `json:"id"`
	Returned   bool   `json:"returned"`
	Err        bool   `json:"err"`
	ErrText    string `json:"errText,omitempty"`
	Panicked   bool   `json:"panicked"`
	Panic      string `json:"panic,omitempty"`
	CompileErr bool   `json:"compileErr,omitempty"`
	Out        string `json:"out,omitempty"`
	Hung       bool   `json:"hung,omitempty"`
	Died       bool   `json:"died,omitempty"`
}

func runCase(c *Case) (o Outcome) {
	o.ID = c.ID
	defer func() {
		if r := recover(); r != nil {
			o.Panicked = true
			o.Panic = fmt.Sprint(r)
		}
	}()
	switch c.Kind {
	case "render":
		comp, err, pan := core.Compile(c.Files, core.ToDataMap(c.Globals))
		if pan {
			o.Panicked, o.Panic = true, err.Error()
			return
		}
		if err != nil {
			o.Returned, o.Err, o.CompileErr, o.ErrText = true, true, true, err.Error()
			return
		}
		var ij data.Map
		if !c.NoIJ {
			ij = core.ToDataMap(c.IJ)
		}
		var buf bytes.Buffer
		r := comp.Tofu.NewRenderer(c.Entry)
		if ij != nil {
			r.Inject(ij)
		}
		if c.Msgs != "" {
			r.WithMessages(craftedBundle(comp, c.Msgs))
		}
		err = r.Execute(&buf, core.ToDataMap(c.Data))
		o.Returned, o.Err, o.Out = true, err != nil, buf.String()
		if err != nil {
			o.ErrText = err.Error()
		}
	case "evalexpr":
		node, err := parse.Expr(c.Expr)
		if err != nil {
			o.Returned, o.Err, o.CompileErr, o.ErrText = true, true, true, err.Error()
			return
		}
		v, err := soyhtml.EvalExpr(node)
		o.Returned, o.Err = true, err != nil
		if err != nil {
			o.ErrText = err.Error()
		} else if v != nil {
			func() {
				defer func() { recover() }()
				o.Out = v.String()
			}()
		}
	case "globals-reader":
		// a reader that fails (with c.Expr naming the error) after c.FailAfter bytes
		_, err := soy.ParseGlobals(&failingReader{text: c.Text, failAfter: c.FailAfter, kind: c.Expr})
		o.Returned, o.Err = true, err != nil
		if err != nil {
			o.ErrText = err.Error()
		}
	case "bundle-paths":
		// files and globals given as PATHS (a directory, a missing file, a real
		// file): every entry point that opens them must return
		dir, derr := os.MkdirTemp("", "c06-paths-")
		if derr != nil {
			o.Returned, o.Err, o.ErrText = true, true, "tool: "+derr.Error()
			return
		}
		defer os.RemoveAll(dir)
		os.WriteFile(dir+"/ok.soy", []byte("{namespace p}\n{template .t}\nok{G}\n{/template}\n"), 0o644)
		os.WriteFile(dir+"/g.txt", []byte("G = 1\n"), 0o644)
		os.Mkdir(dir+"/sub", 0o755)
		os.WriteFile(dir+"/sub/x.soy", []byte("{namespace q}\n{template .t}\nx\n{/template}\n"), 0o644)
		b := soy.NewBundle()
		for _, step := range strings.Split(c.Text, ";") {
			kv := strings.SplitN(step, "=", 2)
			if len(kv) != 2 {
				continue
			}
			path := strings.ReplaceAll(kv[1], "$D", dir)
			switch kv[0] {
			case "globals":
				b.AddGlobalsFile(path)
			case "file":
				b.AddTemplateFile(path)
			case "dir":
				b.AddTemplateDir(path)
			}
		}
		tofu, err := b.CompileToTofu()
		o.Returned, o.Err = true, err != nil
		if err != nil {
			o.CompileErr, o.ErrText = true, err.Error()
			return
		}
		var buf bytes.Buffer
		err = tofu.Render(&buf, c.Entry, nil)
		o.Err, o.Out = err != nil, buf.String()
		if err != nil {
			o.ErrText = err.Error()
		}
	case "globals":
		_, err := soy.ParseGlobals(strings.NewReader(c.Text))
		o.Returned, o.Err = true, err != nil
		if err != nil {
			o.ErrText = err.Error()
		}
	}
	return
}

// Worker is the child-process loop: one JSON case per line on stdin; for each
// it prints "START id" before and the outcome after.
func Worker() {
	// cap the address space so a runaway allocation kills only this worker
	var lim syscall.Rlimit
	lim.Cur, lim.Max = 6<<30, 6<<30
	syscall.Setrlimit(syscall.RLIMIT_AS, &lim)
	in := bufio.NewReaderSize(os.Stdin, 1<<20)
	out := bufio.NewWriter(os.Stdout)
	for {
		line, err := in.ReadBytes('\n')
		if len(line) > 0 {
			var c Case
			if json.Unmarshal(line, &c) == nil {
				fmt.Fprintf(out, "START %d\n", c.ID)
				out.Flush()
				o := runCase(&c)
				b, _ := json.Marshal(o)
				out.Write(b)
				out.WriteByte('\n')
				out.Flush()
			}
		}
		if err != nil {
			return
		}
	}
}

// RunIsolated runs the cases in worker subprocesses with a per-case deadline.
// A case whose worker hangs or dies is marked and the remaining cases go to a
// fresh worker.
func RunIsolated(cases []*Case, deadline time.Duration) map[int]Outcome {
	res := map[int]Outcome{}
	rest := cases
	for len(rest) > 0 {
		done, culprit := runBatch(rest, deadline, res)
		rest = rest[done:]
		if culprit != nil {
			rest = rest[1:]
		}
	}
	return res
}

// runBatch feeds cases to one worker; returns how many completed and the case
// that hung/killed the worker (nil if the batch finished).
func runBatch(cases []*Case, deadline time.Duration, res map[int]Outcome) (int, *Case) {
	self, _ := os.Executable()
	cmd := exec.Command(self, "--worker")
	stdin, _ := cmd.StdinPipe()
	stdout, _ := cmd.StdoutPipe()
	cmd.Stderr = io.Discard
	if err := cmd.Start(); err != nil {
		panic(err)
	}
	go func() {
		w := bufio.NewWriter(stdin)
		for _, c := range cases {
			b, _ := json.Marshal(c)
			w.Write(b)
			w.WriteByte('\n')
		}
		w.Flush()
		stdin.Close()
	}()
	type ev struct {
		line string
		eof  bool
	}
	ch := make(chan ev, 64)
	go func() {
		sc := bufio.NewScanner(stdout)
		sc.Buffer(make([]byte, 1<<20), 64<<20)
		for sc.Scan() {
			ch <- ev{line: sc.Text()}
		}
		ch <- ev{eof: true}
	}()
	done := 0
	started := false
	timer := time.NewTimer(deadline)
	defer timer.Stop()
	for {
		select {
		case e := <-ch:
			if e.eof {
				cmd.Wait()
				if done < len(cases) {
					// the worker died in the middle of case `done`
					c := cases[done]
					res[c.ID] = Outcome{ID: c.ID, Died: true}
					return done, c
				}
				return done, nil
			}
			if strings.HasPrefix(e.line, "START ") {
				started = true
				timer.Reset(deadline)
				continue
			}
			var o Outcome
			if json.Unmarshal([]byte(e.line), &o) == nil {
				res[o.ID] = o
				done++
				started = false
				timer.Reset(deadline)
			}
		case <-timer.C:
			cmd.Process.Kill()
			cmd.Wait()
			_ = started
			if done < len(cases) {
				c := cases[done]
				res[c.ID] = Outcome{ID: c.ID, Hung: true}
				return done, c
			}
			return done, nil
		}
	}
}

// failingReader serves text and then returns an error that is not io.EOF.
type failingReader struct {
	text      string
	failAfter int
	kind      string
	pos       int
}

func (r *failingReader) Read(p []byte) (int, error) {
	if r.pos >= r.failAfter || r.pos >= len(r.text) {
		switch r.kind {
		case "unexpected-eof":
			return 0, io.ErrUnexpectedEOF
		case "eisdir":
			return 0, &os.PathError{Op: "read", Path: "x", Err: syscall.EISDIR}
		case "zero-nil": // a misbehaving reader: (0, nil) a few times, then an error
			r.pos++
			if r.pos < r.failAfter+5 {
				return 0, nil
			}
			return 0, io.ErrClosedPipe
		}
		return 0, errors.New("read failed")
	}
	n := copy(p, r.text[r.pos:min(len(r.text), r.failAfter)])
	if n > 7 {
		n = 7 // short reads
	}
	r.pos += n
	return n, nil
}
