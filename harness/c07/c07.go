// Package c07 decides property C07: the compiler accepts exactly the bundles
// satisfying the data-reference rules (SoyCheck.tla is the declarative
// oracle), and accepted bundles never look up a name that nothing declares.
package c07

import (
	"bytes"
	"encoding/json"
	"fmt"
	"math/rand"
	"regexp"
	"sort"
	"strconv"
	"strings"
	"sync"
	"time"

	"github.com/robfig/soy"
	"github.com/robfig/soy/soyhtml"

	"verif/c02"
	"verif/core"
)

type bcase struct {
	Family  string        `json:"family"`
	Kind    string        `json:"mutation"`
	Prog    *core.Program `json:"prog"`
	Files   []core.File   `json:"files"`
	Accept  bool          `json:"accepted"`
	Accept2 bool          `json:"acceptedOnRecompile"`
	ErrText string        `json:"compileError,omitempty"`
	Verdict string        `json:"specVerdict,omitempty"`
}

// Run is the entry point for C07.
func Run(ctx *core.Ctx) {
	ctx.Rule = "cases: generated valid bundles (2-4 templates, 2 namespaces, nesting<=3) and, for each, single-rule mutants injected at every applicable site (undeclared name, use after the block, use before the definition, loop variable outside its loop / in ifempty / in its own collection, unused param, unused let, let named ij, undeclared call param, missing required param, unknown callee, soydoc+header params, plus validity-preserving shadowing); the real Compile() verdict is recorded and TLC evaluates SoyCheck.Verdict on each bundle; accepted bundles are rendered with all params supplied under the lookup hook; non-trivial = every mutant and every valid bundle with a binder; distinct by source text"
	ctx.Assumptions = append(ctx.Assumptions,
		"SoyCheck.tla reads the rules with lexical block scoping; only accept/reject is compared, never the message",
		"runtime clause: an unbound lookup is a violation only if no template of the bundle declares the name as a param (params a caller may legitimately omit are declared)")
	modelSelfTest(ctx)
	r := rand.New(rand.NewSource(ctx.Seed))
	nprog := ctx.Pick(120, 1500)
	perKind := ctx.Pick(3, 12)
	var cases []*bcase
	for i := 0; i < nprog; i++ {
		g := &core.ProgGen{R: r, MaxDepth: 1 + r.Intn(3), Disjoint: i%2 == 0, Rich: true}
		p := g.Gen()
		supplyAll(p, g)
		cases = append(cases, &bcase{Family: "valid", Kind: "none", Prog: p})
		for _, m := range Mutants(p, r, perKind) {
			cases = append(cases, m)
		}
	}
	// the interaction families of SoyExecFamilies.tla (valid and invalid members)
	if fam, err := c02.EnumerateFamilies(ctx, ""); err != nil {
		ctx.ToolError("%v", err)
	} else {
		for _, f := range fam {
			cases = append(cases, &bcase{Family: "family", Kind: "family:" + f.Key(), Prog: f.Prog})
		}
	}
	cases = append(cases, crafted()...)
	compileAll(cases)
	judgeVerdicts(ctx, cases)
	runtimeClause(ctx, cases)
}

// supplyAll makes the data contain every declared param of the entry template.
func supplyAll(p *core.Program, g *core.ProgGen) {
	for _, pa := range p.Bundle[p.Entry].Params {
		if _, ok := p.Data[pa.Name]; !ok {
			p.Data[pa.Name] = g.Value(pa.Name)
		}
	}
}

func compileAll(cases []*bcase) {
	var wg sync.WaitGroup
	sem := make(chan struct{}, 16)
	for ci, c := range cases {
		wg.Add(1)
		sem <- struct{}{}
		sameName := ci%4 == 3
		go func(c *bcase) {
			defer wg.Done()
			defer func() { <-sem }()
			c.Files = core.UnparseProgram(c.Prog, core.Style{})
			// the name given with a source is a label for messages: every 4th
			// bundle gives all its files ONE name (or none); the verdict is the same
			if sameName {
				for i := range c.Files {
					c.Files[i].Name = []string{"same.soy", ""}[(ci/4)%2]
				}
			}
			// the same Bundle object is compiled twice: the verdict must not
			// depend on an earlier compilation
			b := soy.NewBundle()
			for _, f := range c.Files {
				b.AddTemplateString(f.Name, f.Text)
			}
			b.AddGlobalsMap(core.ToDataMap(c.Prog.Glob))
			compile := func() (err error) {
				defer func() {
					if r := recover(); r != nil {
						err = fmt.Errorf("PANIC in compile: %v", r)
					}
				}()
				_, err = b.Compile()
				return err
			}
			err := compile()
			err2 := compile()
			c.Accept = err == nil
			c.Accept2 = err2 == nil
			if err != nil {
				c.ErrText = err.Error()
			} else if err2 != nil {
				c.ErrText = "second Compile(): " + err2.Error()
			}
		}(c)
	}
	wg.Wait()
}

func srcOf(c *bcase) string {
	var b strings.Builder
	for _, f := range c.Files {
		b.WriteString(f.Text)
	}
	return b.String()
}

var reBad = regexp.MustCompile(`^<<"BAD", (\d+), "(\w+)">>$`)
var reDone = regexp.MustCompile(`^<<"DONE", (\d+), (\d+), (\d+)>>$`)

func judgeVerdicts(ctx *core.Ctx, cases []*bcase) {
	ctx.AddEvals(int64(len(cases)))
	// parse errors of the source are not C07's matter: a mutant must still parse
	var buf bytes.Buffer
	var sent []*bcase
	for _, c := range cases {
		if !c.Accept && strings.Contains(c.ErrText, "unexpected") && !strings.Contains(c.ErrText, "{@param") {
			ctx.ToolError("mutant does not parse (%s): %s\n%s", c.Kind, c.ErrText, srcOf(c))
			continue
		}
		if c.Accept != c.Accept2 {
			ctx.Violation(core.Sig{Family: "verdict", Feature: "verdict-changes-on-recompile,mutation=" + kindClass(c.Kind)},
				fmt.Sprintf("Bundle.Compile() accepted=%v the first time and %v the second time (%s)\n%s", c.Accept, c.Accept2, c.ErrText, srcOf(c)), c)
		}
		line := map[string]interface{}{"bundle": c.Prog.Bundle, "accepted": c.Accept}
		b, _ := json.Marshal(line)
		buf.Write(b)
		buf.WriteByte('\n')
		sent = append(sent, c)
		ctx.Distinct(srcOf(c))
	}
	cfg := "CONSTANT Dev = {}\nINIT Init7\nNEXT Next7\nINVARIANT Report7\nCHECK_DEADLOCK FALSE\n"
	res, err := ctx.RunTLC(core.TLCOpts{Module: "C07Trace", Cfg: cfg, Files: map[string][]byte{"c07_trace.ndjson": buf.Bytes()},
		Workers: 1, Timeout: 10 * time.Minute, Label: "verdict-validation"})
	if err != nil {
		ctx.ToolError("%v", err)
		return
	}
	done := false
	bad := map[int]string{}
	for _, t := range res.Tuples {
		if m := reBad.FindStringSubmatch(t); m != nil {
			i, _ := strconv.Atoi(m[1])
			bad[i-1] = m[2]
		} else if m := reDone.FindStringSubmatch(t); m != nil {
			n, _ := strconv.Atoi(m[1])
			sk, _ := strconv.Atoi(m[3])
			done = n == len(sent)
			ctx.AddTraces(int64(n - sk))
			ctx.Extra["verdict_unspec"] = sk
		}
	}
	if !done {
		ctx.ToolError("verdict validation did not consume the whole trace: %s", res.Stdout[max(0, len(res.Stdout)-600):])
		return
	}
	kinds := map[string]int{}
	for i, c := range sent {
		kinds[c.Kind]++
		if i < 3 {
			ctx.Sample(map[string]interface{}{"mutation": c.Kind, "files": c.Files, "accepted": c.Accept})
		}
		v, isBad := bad[i]
		if !isBad {
			continue
		}
		c.Verdict = v
		feature := "false-accept"
		if v == "valid" {
			feature = "false-reject"
		}
		ctx.Violation(core.Sig{Family: "verdict", Feature: feature + ",mutation=" + c.Kind},
			fmt.Sprintf("rules say %s, compiler accepted=%v (%s)\n%s", v, c.Accept, c.ErrText, srcOf(c)), c)
	}
	ctx.Extra["cases_by_mutation"] = kinds
}

// kindClass drops the per-member coordinates of family kinds.
func kindClass(k string) string {
	if strings.HasPrefix(k, "family:") {
		return "family"
	}
	return k
}

func max(a, b int) int {
	if a > b {
		return a
	}
	return b
}

// runtimeClause renders every accepted unmutated bundle with all declared
// params supplied and checks, through the lookup hook, that no name that no
// template declares is ever looked up unbound; the same renders are validated
// against SoyExec with the model-level invariant ConsequentOK.
func runtimeClause(ctx *core.Ctx, cases []*bcase) {
	var progs []*core.ProgCase
	for _, c := range cases {
		if !c.Accept {
			continue
		}
		declared := map[string]bool{}
		for _, t := range c.Prog.Bundle {
			for _, pa := range t.Params {
				declared[pa.Name] = true
			}
		}
		comp, err, _ := core.Compile(c.Files, core.ToDataMap(c.Prog.Glob))
		if err != nil {
			continue
		}
		var missing []string
		seen := map[string]bool{}
		soyhtml.VerifLookup = func(key string, bound bool) {
			if !bound && !declared[key] && !seen[key] {
				seen[key] = true
				missing = append(missing, key)
			}
		}
		res := comp.RenderWatch(c.Prog.Entry, core.ToDataMap(c.Prog.Data), nil, 10*time.Second)
		soyhtml.VerifLookup = nil
		ctx.AddEvals(1)
		if len(missing) > 0 {
			sort.Strings(missing)
			ctx.Violation(core.Sig{Family: "runtime-lookup", Feature: "unbound-lookup,mutation=" + c.Kind},
				fmt.Sprintf("accepted bundle looked up %v which nothing binds or declares\n%s", missing, srcOf(c)), c)
		}
		if c.Kind == "none" {
			pc := &core.ProgCase{Family: "valid", Prog: c.Prog, Files: c.Files,
				Obs: core.Obs{Err: res.Err != nil, Out: res.Out, ErrText: res.ErrS()}}
			progs = append(progs, pc)
		}
	}
	if len(progs) == 0 {
		return
	}
	// model side: reference interpreter + ConsequentOK on the same programs
	var buf bytes.Buffer
	for _, cs := range progs {
		b, _ := json.Marshal(map[string]interface{}{"prog": cs.Prog, "obs": map[string]interface{}{"err": cs.Obs.Err, "out": cs.Obs.Out}})
		buf.Write(b)
		buf.WriteByte('\n')
	}
	cfg := "CONSTANT Dev = {}\nINIT TInit\nNEXT TNext\nINVARIANT ConsequentOK\nINVARIANT FramesOK\nCHECK_DEADLOCK FALSE\n"
	res, err := ctx.RunTLC(core.TLCOpts{Module: "C07Exec", Cfg: cfg, Files: map[string][]byte{"c02_trace.ndjson": buf.Bytes()},
		Workers: 1, Timeout: 10 * time.Minute, Label: "consequent-on-model"})
	if err != nil {
		ctx.ToolError("%v", err)
		return
	}
	if res.Violated != "" {
		ctx.ToolError("model: rules accept a bundle whose reference run evaluates an undeclared name (%s): %s", res.Violated, res.Trace)
	}
}

// modelSelfTest: the deviation that lets a {let} leak out of if-blocks must
// break ConsequentOK on a bundle the rules reject at runtime ... (vacuity guard
// for the invariant): a program whose only use of a let is after its block is
// invalid, so instead we check that Verdict distinguishes the canonical pair.
func modelSelfTest(ctx *core.Ctx) {
	mk := func(body []core.Cmd) *core.Program {
		return &core.Program{Bundle: map[string]*core.Tmpl{"n.t": {Params: []core.Param{}, Body: body}}, Entry: "n.t",
			Data: map[string]core.V{}, IJ: core.V{"t": "none"}, Glob: map[string]core.V{}, Plan: map[string]interface{}{"kind": "none"}}
	}
	inBlock := mk([]core.Cmd{core.CIf([]core.Cmd{core.CBr(core.EBool(true), []core.Cmd{core.CLetV("q", core.EInt(1)), core.CPrint(core.EVar("q"))})}, core.Opt(false, nil))})
	afterBlock := mk([]core.Cmd{core.CIf([]core.Cmd{core.CBr(core.EBool(true), []core.Cmd{core.CLetV("q", core.EInt(1)), core.CPrint(core.EVar("q"))})}, core.Opt(false, nil)), core.CPrint(core.EVar("q"))})
	var buf bytes.Buffer
	for i, p := range []*core.Program{inBlock, afterBlock} {
		b, _ := json.Marshal(map[string]interface{}{"bundle": p.Bundle, "accepted": i == 0})
		buf.Write(b)
		buf.WriteByte('\n')
	}
	cfg := "CONSTANT Dev = {}\nINIT Init7\nNEXT Next7\nINVARIANT Report7\nCHECK_DEADLOCK FALSE\n"
	res, err := ctx.RunTLC(core.TLCOpts{Module: "C07Trace", Cfg: cfg, Files: map[string][]byte{"c07_trace.ndjson": buf.Bytes()}, Workers: 1, Timeout: 2 * time.Minute, Label: "selftest-verdict"})
	if err != nil {
		ctx.ToolError("%v", err)
		return
	}
	ok := false
	for _, t := range res.Tuples {
		if m := reDone.FindStringSubmatch(t); m != nil && m[1] == "2" && m[2] == "0" {
			ok = true
		}
	}
	ctx.Extra["selftest_verdict_pair"] = ok
	if !ok {
		ctx.ToolError("SoyCheck self-test failed: %v", res.Tuples)
	}
}
