package c07

import (
	"verif/core"
)

// crafted: small bundles around single rule clauses that random mutation
// rarely assembles: a callee's required param that exists in the caller only
// as a LOCAL (let / loop variable) under data="all"; several lets of one name
// in one block; calls nested in param content; the spec (SoyCheck.Verdict)
// says for each whether the rules hold.
func crafted() []*bcase {
	v := func(n string, acc ...core.E) core.E { return core.EVar(n, acc...) }
	T := core.CText
	P := func(names ...string) []core.Param {
		var ps []core.Param
		for _, n := range names {
			ps = append(ps, core.Param{Name: n})
		}
		return ps
	}
	callee := &core.Tmpl{Params: P("item"), Body: []core.Cmd{core.CPrint(v("item"))}, TA: "false"}
	calleeOpt := &core.Tmpl{Params: []core.Param{{Name: "item", Opt: true}}, Body: []core.Cmd{core.CPrint(core.EBin("elvis", v("item"), core.EStr("-")))}, TA: "false"}
	call := func(mode string, params ...core.Cmd) core.Cmd { return core.CCall("k.callee", mode, nil, params...) }
	type cb struct {
		name   string
		params []core.Param
		body   []core.Cmd
		callee *core.Tmpl
	}
	var out []*bcase
	for _, c := range []cb{
		{"required-param-only-a-loop-variable,data=all", P("list"), []core.Cmd{core.CForeach("foreach", "item", v("list"), []core.Cmd{call("all")}, core.Opt(false, nil))}, callee},
		{"required-param-only-a-let,data=all", P("list"), []core.Cmd{core.CLetV("item", core.EFn("length", v("list"))), call("all"), core.CPrint(v("item"))}, callee},
		{"required-param-only-a-content-let,data=all", P("list"), []core.Cmd{core.CLetC("item", []core.Cmd{T("x")}), call("all"), core.CPrint(v("item")), core.CPrint(core.EFn("length", v("list")))}, callee},
		{"required-param-only-a-for-variable,data=all", P("list"), []core.Cmd{core.CForeach("for", "item", core.EFn("range", core.EFn("length", v("list"))), []core.Cmd{call("all")}, core.Opt(false, nil))}, callee},
		{"required-param-local-but-passed-explicitly", P("list"), []core.Cmd{core.CForeach("foreach", "item", v("list"), []core.Cmd{call("all", core.CPV("item", v("item")))}, core.Opt(false, nil))}, callee},
		{"required-param-declared-and-shadowed-by-loop,data=all", P("list", "item"), []core.Cmd{core.CForeach("foreach", "item", v("list"), []core.Cmd{call("all")}, core.Opt(false, nil)), core.CPrint(v("item"))}, callee},
		{"optional-param-only-a-loop-variable,data=all", P("list"), []core.Cmd{core.CForeach("foreach", "item", v("list"), []core.Cmd{call("all")}, core.Opt(false, nil))}, calleeOpt},
		{"required-param-missing,no-data", P("list"), []core.Cmd{core.CForeach("foreach", "item", v("list"), []core.Cmd{call("none")}, core.Opt(false, nil))}, callee},
		{"required-param-via-nested-call-in-param-content", P("list"), []core.Cmd{core.CCall("k.callee", "none", nil, core.CPC("item", []core.Cmd{core.CCall("k.callee", "none", nil, core.CPV("item", core.EFn("length", v("list"))))}))}, callee},
		{"required-param-only-in-a-nested-call", P("list"), []core.Cmd{core.CCall("k.wrap", "none", nil, core.CPC("body", []core.Cmd{core.CCall("k.callee", "none", nil, core.CPV("item", core.EFn("length", v("list"))))}))}, callee},
		{"two-lets-one-name-first-never-read", P("list"), []core.Cmd{core.CLetV("x", core.EInt(1)), core.CLetV("x", core.EFn("length", v("list"))), core.CPrint(v("x"))}, callee},
		{"two-lets-one-name-both-read", P("list"), []core.Cmd{core.CLetV("x", core.EInt(1)), core.CPrint(v("x")), core.CLetV("x", core.EFn("length", v("list"))), core.CPrint(v("x"))}, callee},
		{"two-lets-one-name-second-never-read", P("list"), []core.Cmd{core.CLetV("x", core.EFn("length", v("list"))), core.CPrint(v("x")), core.CLetV("x", core.EInt(2))}, callee},
		{"three-lets-one-name-middle-never-read", P("list"), []core.Cmd{core.CLetV("x", core.EInt(1)), core.CPrint(v("x")), core.CLetV("x", core.EInt(2)), core.CLetV("x", core.EFn("length", v("list"))), core.CPrint(v("x"))}, callee},
		{"let-read-only-by-the-next-let-of-its-name", P("list"), []core.Cmd{core.CLetV("x", core.EFn("length", v("list"))), core.CLetV("x", core.EBin("add", v("x"), core.EInt(1))), core.CPrint(v("x"))}, callee},
		{"inner-let-shadows-outer-never-read", P("list"), []core.Cmd{core.CLetV("x", core.EFn("length", v("list"))), core.CIf([]core.Cmd{core.CBr(core.EBool(true), []core.Cmd{core.CLetV("x", core.EInt(2)), core.CPrint(v("x"))})}, core.Opt(false, nil))}, callee},
	} {
		bundle := map[string]*core.Tmpl{
			"k.main":   {Params: c.params, Body: c.body, TA: "false"},
			"k.callee": c.callee,
			"k.wrap":   {Params: []core.Param{{Name: "body", Opt: true}}, Body: []core.Cmd{core.CPrint(core.EBin("elvis", v("body"), core.EStr("-")))}, TA: "false"},
		}
		data := map[string]core.V{"list": core.VList(core.VInt(1), core.VInt(2)), "item": core.VInt(9)}
		for k := range data {
			declared := false
			for _, pa := range c.params {
				declared = declared || pa.Name == k
			}
			if !declared {
				delete(data, k)
			}
		}
		p := &core.Program{Bundle: bundle, Entry: "k.main", Data: data, IJ: core.V{"t": "none"}, Glob: map[string]core.V{},
			Plan: map[string]interface{}{"kind": "none"}, Aliases: map[string]bool{}}
		out = append(out, &bcase{Family: "crafted", Kind: "crafted:" + c.name, Prog: p})
	}
	return out
}
