package c07

import (
	"math/rand"
	"sort"

	"verif/core"
)

func deepCopy(v interface{}) interface{} {
	switch x := v.(type) {
	case map[string]interface{}:
		m := make(map[string]interface{}, len(x))
		for k, c := range x {
			m[k] = deepCopy(c)
		}
		return m
	case []core.Cmd:
		s := make([]core.Cmd, len(x))
		for i, c := range x {
			s[i] = deepCopy(c).(map[string]interface{})
		}
		return s
	case []interface{}:
		s := make([]interface{}, len(x))
		for i, c := range x {
			s[i] = deepCopy(c)
		}
		return s
	}
	return v
}

func copyProg(p *core.Program) *core.Program {
	q := *p
	q.Bundle = map[string]*core.Tmpl{}
	for n, t := range p.Bundle {
		tt := *t
		tt.Params = append([]core.Param{}, t.Params...)
		tt.Body = deepCopy(t.Body).([]core.Cmd)
		q.Bundle[n] = &tt
	}
	return &q
}

// block is a mutable reference to a command list inside a template.
type block struct {
	tmpl string
	get  func() []core.Cmd
	set  func([]core.Cmd)
}

func cmds(v interface{}) []core.Cmd {
	switch x := v.(type) {
	case []core.Cmd:
		return x
	case []interface{}:
		r := make([]core.Cmd, len(x))
		for i := range x {
			r[i] = x[i].(map[string]interface{})
		}
		return r
	}
	return nil
}

// blocksOf lists every block (command list) of the program.
func blocksOf(p *core.Program) []block {
	var out []block
	var walk func(tmpl string, get func() []core.Cmd, set func([]core.Cmd))
	walk = func(tmpl string, get func() []core.Cmd, set func([]core.Cmd)) {
		out = append(out, block{tmpl, get, set})
		for _, c := range get() {
			c := c
			sub := func(holder map[string]interface{}, key string) {
				walk(tmpl, func() []core.Cmd { return cmds(holder[key]) }, func(n []core.Cmd) { holder[key] = n })
			}
			switch c["k"] {
			case "if":
				for _, br := range cmds(c["brs"]) {
					sub(br, "body")
				}
				if els := c["els"].(map[string]interface{}); els["has"].(bool) {
					sub(els, "body")
				}
			case "switch":
				for _, cs := range cmds(c["cases"]) {
					sub(cs, "body")
				}
				if d := c["def"].(map[string]interface{}); d["has"].(bool) {
					sub(d, "body")
				}
			case "foreach":
				sub(c, "body")
				if e := c["empty"].(map[string]interface{}); e["has"].(bool) {
					sub(e, "body")
				}
			case "letc", "log", "msg":
				sub(c, "body")
			case "call":
				for _, pa := range cmds(c["params"]) {
					if pa["k"] == "pc" {
						sub(pa, "body")
					}
				}
			}
		}
	}
	var names []string
	for name := range p.Bundle {
		names = append(names, name)
	}
	sort.Strings(names)
	for _, name := range names {
		t := p.Bundle[name]
		walk(name, func() []core.Cmd { return t.Body }, func(n []core.Cmd) { t.Body = n })
	}
	return out
}

func insertAt(b block, i int, c ...core.Cmd) {
	old := b.get()
	n := append([]core.Cmd{}, old[:i]...)
	n = append(n, c...)
	n = append(n, old[i:]...)
	b.set(n)
}

// site identifies where a mutation is applied: (block number, index).
type site struct{ b, i int }

// Mutants derives single-rule mutants of p, at most perKind per mutation kind
// (sites chosen with r when there are more).
func Mutants(p *core.Program, r *rand.Rand, perKind int) []*bcase {
	var out []*bcase
	add := func(kind string, sites []site, apply func(q *core.Program, bs []block, s site)) {
		r.Shuffle(len(sites), func(i, j int) { sites[i], sites[j] = sites[j], sites[i] })
		if len(sites) > perKind {
			sites = sites[:perKind]
		}
		for _, s := range sites {
			q := copyProg(p)
			apply(q, blocksOf(q), s)
			out = append(out, &bcase{Family: "mutant", Kind: kind, Prog: q})
		}
	}
	bs := blocksOf(p)
	var letSites, foreachSites, callSites, anySites, blockCmdSites []site
	var emptySites []site
	for bi, b := range bs {
		for ci, c := range b.get() {
			anySites = append(anySites, site{bi, ci})
			switch c["k"] {
			case "letv", "letc":
				letSites = append(letSites, site{bi, ci})
			case "foreach":
				foreachSites = append(foreachSites, site{bi, ci})
				if c["empty"].(map[string]interface{})["has"].(bool) {
					emptySites = append(emptySites, site{bi, ci})
				}
			case "call":
				callSites = append(callSites, site{bi, ci})
			}
			switch c["k"] {
			case "if", "switch", "foreach", "letc", "log":
				blockCmdSites = append(blockCmdSites, site{bi, ci})
			}
		}
		anySites = append(anySites, site{bi, len(b.get())})
	}
	pr := func(name string) core.Cmd { return core.CPrint(core.EFn("isNonnull", core.EVar(name))) }

	add("undeclared-name", anySites, func(q *core.Program, bs []block, s site) {
		insertAt(bs[s.b], s.i, pr("zz"))
	})
	add("use-before-definition", letSites, func(q *core.Program, bs []block, s site) {
		name := bs[s.b].get()[s.i]["name"].(string)
		insertAt(bs[s.b], s.i, pr(name))
	})
	// use after the block: a let declared directly inside a body of the
	// block command at s is referenced right after that command
	add("use-after-block", blockCmdSites, func(q *core.Program, bs []block, s site) {
		c := bs[s.b].get()[s.i]
		name := firstLetIn(c)
		if name == "" {
			name = "zq"
			// no let inside: plant one in the block's first body, with a use
			plantLet(c, name)
		}
		insertAt(bs[s.b], s.i+1, pr(name))
	})
	add("loopvar-after-loop", foreachSites, func(q *core.Program, bs []block, s site) {
		v := bs[s.b].get()[s.i]["var"].(string)
		insertAt(bs[s.b], s.i+1, pr(v))
	})
	add("loopvar-in-ifempty", emptySites, func(q *core.Program, bs []block, s site) {
		c := bs[s.b].get()[s.i]
		e := c["empty"].(map[string]interface{})
		e["body"] = append([]core.Cmd{pr(c["var"].(string))}, cmds(e["body"])...)
	})
	add("loopvar-in-collection", foreachSites, func(q *core.Program, bs []block, s site) {
		c := bs[s.b].get()[s.i]
		c["e"] = core.EBin("elvis", core.EVar(c["var"].(string)), c["e"].(map[string]interface{}))
	})
	add("unused-let", anySites, func(q *core.Program, bs []block, s site) {
		insertAt(bs[s.b], s.i, core.CLetV("lz", core.EInt(1)))
	})
	add("let-named-ij", anySites, func(q *core.Program, bs []block, s site) {
		insertAt(bs[s.b], s.i, core.CLetV("ij", core.EMap("k", core.EInt(1))), core.CPrint(core.EVar("ij", core.AKey("k", false))))
	})
	add("undeclared-call-param", callSites, func(q *core.Program, bs []block, s site) {
		c := bs[s.b].get()[s.i]
		c["params"] = append(cmds(c["params"]), core.CPV("zz", core.EInt(1)))
	})
	add("unknown-callee", callSites, func(q *core.Program, bs []block, s site) {
		bs[s.b].get()[s.i]["tmpl"] = "n.one.nosuch"
		bs[s.b].get()[s.i]["spell"] = "fq"
	})
	// missing required param: drop each explicit param
	var dropSites []site
	for _, s := range callSites {
		for k := range cmds(bs[s.b].get()[s.i]["params"]) {
			dropSites = append(dropSites, site{s.b*1000 + s.i, k})
		}
	}
	add("dropped-call-param", dropSites, func(q *core.Program, bs []block, s site) {
		c := bs[s.b/1000].get()[s.b%1000]
		ps := cmds(c["params"])
		c["params"] = append(append([]core.Cmd{}, ps[:s.i]...), ps[s.i+1:]...)
	})
	// an unused param that has the name of a param some OTHER template forwards
	// with data="all" (usage must be accounted per template)
	forwarded := map[string]bool{}
	for _, s := range callSites {
		c := bs[s.b].get()[s.i]
		if c["data"] != "all" {
			continue
		}
		callee := p.Bundle[c["tmpl"].(string)]
		caller := p.Bundle[bs[s.b].tmpl]
		if callee == nil || caller == nil {
			continue
		}
		for _, a := range caller.Params {
			for _, b2 := range callee.Params {
				if a.Name == b2.Name {
					forwarded[a.Name] = true
				}
			}
		}
	}
	nfw := 0
	for name := range forwarded {
		var others []string
		for tn, t := range p.Bundle {
			has := false
			for _, pa := range t.Params {
				if pa.Name == name {
					has = true
				}
			}
			if !has {
				others = append(others, tn)
			}
		}
		sort.Strings(others)
		for _, tn := range others {
			if nfw >= 2*perKind {
				break
			}
			nfw++
			q := copyProg(p)
			q.Bundle[tn].Params = append(q.Bundle[tn].Params, core.Param{Name: name})
			out = append(out, &bcase{Family: "mutant", Kind: "unused-param-forwarded-elsewhere", Prog: q})
		}
	}
	// per-template mutations
	var tnames []string
	for n := range p.Bundle {
		tnames = append(tnames, n)
	}
	sort.Strings(tnames)
	for i, n := range tnames {
		if i >= perKind {
			break
		}
		q := copyProg(p)
		q.Bundle[n].Params = append(q.Bundle[n].Params, core.Param{Name: "pz"})
		out = append(out, &bcase{Family: "mutant", Kind: "unused-param", Prog: q})
		if len(p.Bundle[n].Params) >= 2 {
			q2 := copyProg(p)
			q2.Bundle[n].Both = true
			out = append(out, &bcase{Family: "mutant", Kind: "soydoc-and-header-params", Prog: q2})
		}
		// validity-preserving: shadow a param at the end of the top-level block
		if len(p.Bundle[n].Params) > 0 {
			q3 := copyProg(p)
			pa := q3.Bundle[n].Params[0].Name
			g := &core.ProgGen{R: r}
			q3.Bundle[n].Body = append(q3.Bundle[n].Body, core.CLetV(pa, g.ExprOfName(pa)), pr(pa))
			out = append(out, &bcase{Family: "mutant", Kind: "shadow-param-after-use", Prog: q3})
		}
	}
	return out
}

func firstLetIn(c core.Cmd) string {
	for _, key := range []string{"body"} {
		for _, x := range cmds(c[key]) {
			if x["k"] == "letv" || x["k"] == "letc" {
				return x["name"].(string)
			}
		}
	}
	if c["k"] == "if" {
		for _, br := range cmds(c["brs"]) {
			for _, x := range cmds(br["body"]) {
				if x["k"] == "letv" || x["k"] == "letc" {
					return x["name"].(string)
				}
			}
		}
	}
	if c["k"] == "switch" {
		for _, cs := range cmds(c["cases"]) {
			for _, x := range cmds(cs["body"]) {
				if x["k"] == "letv" || x["k"] == "letc" {
					return x["name"].(string)
				}
			}
		}
	}
	return ""
}

func plantLet(c core.Cmd, name string) {
	planted := []core.Cmd{core.CLetV(name, core.EInt(1)), core.CPrint(core.EVar(name))}
	switch c["k"] {
	case "if":
		br := cmds(c["brs"])[0]
		br["body"] = append(planted, cmds(br["body"])...)
	case "switch":
		cs := cmds(c["cases"])
		if len(cs) > 0 {
			cs[0]["body"] = append(planted, cmds(cs[0]["body"])...)
			return
		}
		d := c["def"].(map[string]interface{})
		d["has"] = true
		d["body"] = append(planted, cmds(d["body"])...)
	default:
		c["body"] = append(planted, cmds(c["body"])...)
	}
}
