// Package c08 decides property C08: rendering is pure. SoyBundle.tla models
// histories of operations over one compiled bundle; TLC explores all of them
// up to a length (M1) and exports them with the expected outcome of every step
// (M2); this package replays each history on one compiled bundle of the real
// code and, after every step, compares the outcome and a deep structural digest
// of everything shared (compiled tree, registries) and a deep copy of
// everything the caller handed in. Seeded random histories over generated
// bundles are judged by the same criterion and their outputs are validated by
// TLC (M3).
package c08

import (
	"encoding/json"
	"fmt"
	"os"
	"runtime"
	"sort"
	"strings"
	"sync"
	"time"

	"verif/core"
)

// Step is one step of an exported history with the model's expectation.
type Step struct {
	Op  Op     `json:"op"`
	St  string `json:"st"`
	Out string `json:"out"`
}

// Setup is what SoyBundle prints once per configuration.
type Setup struct {
	Cfg    Config
	Inputs *Inputs
	Prog   *core.Program
	Switch []Config // the configurations of the switch family
	IJB    core.V   // the alternative injected data
}

// HistoryReplay is the replay case of a violation found by a history.
type HistoryReplay struct {
	Kind     string  `json:"kind"` // "history"
	Family   string  `json:"family"`
	Cfg      Config  `json:"cfg"`
	Inputs   *Inputs `json:"inputs"`
	History  []Step  `json:"history"`
	FailedAt int     `json:"failedAtStep"` // 1-based
	What     string  `json:"what"`
	Observed Obs     `json:"observed"`
	Fresh    *Obs    `json:"onFreshBundle,omitempty"`
	Diff     *Diff   `json:"stateDiff,omitempty"`
}

// Run is the entry point for C08.
func Run(ctx *core.Ctx) {
	ctx.Rule = "cases: histories of operations on ONE compiled bundle. M2: every sequence of length L (quick 3, thorough 4) over 12 operations " +
		"(render of 3 templates x 3 data sets, one of which makes every template fail midway; soyjs.Write of each of the 2 files; soyhtml.EvalExpr) under the 4 registry configurations " +
		"(none / obligatory directive / custom function / both), exported by TLC with the expected outcome of each step; M3: seeded histories of 10-30 operations over core.ProgGen bundles " +
		"(3-5 render cases per bundle incl. failing data, each repeated and interleaved with soyjs.Write and EvalExpr). After EVERY step: outcome vs the model and vs the same operation on a fresh bundle, " +
		"deep digest (every field) of Tofu/Registry/AST/expression tree/5 process-wide registries vs the digest before the step, deep copy of data/ij/message catalogue vs their state before the step. " +
		"non-trivial = the history contains an operation that is preceded by a render; distinct by configuration + operation sequence (M2) or source text + history (M3)"
	ctx.Assumptions = append(ctx.Assumptions,
		"oracle for outputs = SoyExec.tla run as a function (SoyBundleRun.tla; TLC checks on recorded generated programs that each SoyExec step is the step of the functional form)",
		"generated JavaScript is not predicted by the model: every soyjs.Write is compared with the text the same call produces on a freshly compiled bundle",
		"failing renders are compared with the model on error/no-error and with a fresh bundle on the bytes written before the error",
		"the digest covers what is reachable from the Tofu, the registry, the expression tree and the five public registries; package-level state of robfig/soy not reachable from those is seen only through outputs")
	ctx.Trusted = append(ctx.Trusted, "Go harness (unparser, digest walker, TLC driver)", "TLC")

	for i, a := range os.Args {
		if a == "--c08-struct-first" && i+1 < len(os.Args) {
			StructFirstChild(os.Args[i+1]) // never returns
		}
		if a == "--c08-cfg-first" && i+1 < len(os.Args) {
			CfgFirstChild(os.Args[i+1]) // never returns
		}
	}
	if ctx.ReplayPath != "" {
		replayFile(ctx)
		return
	}

	L := ctx.Pick(3, 4)
	var wg sync.WaitGroup
	sem := make(chan struct{}, 6)
	par := func(f func()) {
		wg.Add(1)
		go func() {
			defer wg.Done()
			sem <- struct{}{}
			defer func() { <-sem }()
			f()
		}()
	}

	// M1 on the reference model + export (M2), one TLC run per configuration
	type exported struct {
		setup *Setup
		hists [][]Step
	}
	exports := make([]*exported, len(Configs))
	for i, c := range Configs {
		i, c := i, c
		par(func() {
			s, h, err := exploreHistories(ctx, c.Name, L)
			if err != nil {
				ctx.ToolError("%v", err)
				return
			}
			exports[i] = &exported{s, h}
		})
	}
	// the switch family: configuration changed between operations
	var swSetup *Setup
	var swHists [][]Step
	par(func() {
		s, h, err := exploreHistories(ctx, "switch", L)
		if err != nil {
			ctx.ToolError("%v", err)
			return
		}
		swSetup, swHists = s, h
	})
	// the invariants are not vacuous: deviations must break them
	selftest := map[string]string{}
	var stmu sync.Mutex
	for _, d := range []struct{ dev, cfg, prop, kind string }{
		{"obligatory_append", "oblig", "Pure", "PROPERTY"},
		{"obligatory_append", "oblig", "HistoryIndependent", "INVARIANT"},
		{"render_mutates_data", "none", "Pure", "PROPERTY"},
		{"config_cached_by_length", "switch", "HistoryIndependent", "INVARIANT"},
	} {
		d := d
		par(func() {
			cfg := fmt.Sprintf("CONSTANT Dev = {\"%s\"}\nCONSTANT CfgName = \"%s\"\nCONSTANT MaxLen = %d\nINIT Init\nNEXT Next\n%s %s\nCHECK_DEADLOCK FALSE\n", d.dev, d.cfg, maxLenOf(d.cfg), d.kind, d.prop)
			res, err := ctx.RunTLC(core.TLCOpts{Module: "SoyBundle", Cfg: cfg, Workers: 1, Timeout: 3 * time.Minute, Label: "deviation:" + d.dev + "/" + d.prop})
			if err != nil {
				ctx.ToolError("deviation run %s: %v", d.dev, err)
				return
			}
			stmu.Lock()
			defer stmu.Unlock()
			if res.Violated != d.prop {
				selftest[d.dev+"/"+d.prop] = "NOT violated"
				ctx.ToolError("deviation %s does not violate %s within the step bound (violated=%q): the property is vacuous", d.dev, d.prop, res.Violated)
				return
			}
			selftest[d.dev+"/"+d.prop] = fmt.Sprintf("violated within %d steps, as required", maxLenOf(d.cfg))
		})
	}
	// the functional form of SoyExec used by the model is SoyExec
	par(func() { refinement(ctx, ctx.Pick(300, 1500)) })
	wg.Wait()
	ctx.Extra["deviation_selftest"] = selftest

	// M2: replay every exported history on the real code
	t0 := time.Now()
	total, nontrivial := 0, 0
	for _, ex := range exports {
		if ex == nil {
			continue
		}
		n, nt := replayAll(ctx, ex.setup, ex.hists)
		total += n
		nontrivial += nt
	}
	if swSetup != nil {
		SwitchHistories(ctx, swSetup, swHists)
	}
	ctx.Extra["m2_replay_wall_s"] = time.Since(t0).Seconds()
	ctx.Extra["m2_histories_replayed"] = total
	ctx.Extra["m2_history_length"] = L
	ctx.Exhaustive = true // every history of the stated family was replayed

	// M3: random histories over generated bundles
	t1 := time.Now()
	// struct-data histories (process-wide converter state); their map-equivalent
	// renders are validated by TLC together with the random ones
	extra := StructHistories(ctx, ctx.Pick(3, 4))
	RandomHistories(ctx, ctx.Pick(240, 2400), extra)
	ctx.Extra["m3_wall_s"] = time.Since(t1).Seconds()
}

func maxLenOf(cfg string) int {
	if cfg == "switch" {
		return 3 // [E] render, [S], render
	}
	return 2
}

// exploreHistories runs TLC on the reference model for one configuration and
// returns the exported setup and histories.
func exploreHistories(ctx *core.Ctx, cfgName string, L int) (*Setup, [][]Step, error) {
	cfg := fmt.Sprintf("CONSTANT Dev = {}\nCONSTANT CfgName = \"%s\"\nCONSTANT MaxLen = %d\nINIT Init\nNEXT Next\nPROPERTY Pure\nINVARIANT HistoryIndependent\nINVARIANT ExportSetup\nINVARIANT ExportHistory\nCHECK_DEADLOCK FALSE\n", cfgName, L)
	res, err := ctx.RunTLC(core.TLCOpts{Module: "SoyBundle", Cfg: cfg, Workers: 4, Timeout: 9 * time.Minute, Label: "histories:" + cfgName})
	if err != nil {
		return nil, nil, err
	}
	if res.Violated != "" {
		return nil, nil, fmt.Errorf("the reference model violates %s under configuration %s (spec bug): %s", res.Violated, cfgName, trunc(res.Trace, 600))
	}
	var setup *Setup
	var hists [][]Step
	for _, p := range res.Printed {
		if strings.HasPrefix(p, `{"setup"`) {
			s, err := DecodeSetup(p)
			if err != nil {
				return nil, nil, err
			}
			setup = s
		} else if strings.HasPrefix(p, `{"h"`) {
			var h struct {
				H []Step `json:"h"`
			}
			if err := json.Unmarshal([]byte(p), &h); err != nil {
				return nil, nil, fmt.Errorf("bad history from TLC: %v: %s", err, trunc(p, 200))
			}
			hists = append(hists, h.H)
		}
	}
	if setup == nil {
		return nil, nil, fmt.Errorf("TLC printed no setup for configuration %s", cfgName)
	}
	want, nops := 1, 12
	if cfgName == "switch" {
		nops = len(setup.Switch) + 3
	}
	for i := 0; i < L; i++ {
		want *= nops
	}
	if len(hists) != want {
		return nil, nil, fmt.Errorf("TLC exported %d histories for %s, expected %d", len(hists), cfgName, want)
	}
	und := 0
	for _, h := range hists {
		for _, s := range h {
			if s.St != "ok" && s.St != "err" {
				und++
			}
		}
	}
	ctx.Extra["m2_steps_without_model_claim:"+cfgName] = und // compared with the fresh bundle only
	// workers print in any order: sort for determinism
	sort.Slice(hists, func(i, j int) bool { return histKey(hists[i]) < histKey(hists[j]) })
	return setup, hists, nil
}

func histKey(h []Step) string {
	var b strings.Builder
	for _, s := range h {
		b.WriteString(s.Op.Key())
		b.WriteByte('|')
	}
	return b.String()
}

func trunc(s string, n int) string {
	if len(s) > n {
		return s[:n] + "..."
	}
	return s
}

// DecodeSetup turns the setup record printed by TLC into sources and values.
func DecodeSetup(js string) (*Setup, error) {
	var raw struct {
		Setup struct {
			CfgName string `json:"cfgname"`
			Cfg     struct {
				Oblig []string        `json:"oblig"`
				Fns   json.RawMessage `json:"fns"`
			} `json:"cfg"`
			Bundle  map[string]*core.Tmpl        `json:"bundle"`
			Data    map[string]map[string]core.V `json:"data"`
			IJ      core.V                       `json:"ij"`
			Expr    core.E                       `json:"expr"`
			Files   []string                     `json:"files"`
			IJB     core.V                       `json:"ijb"`
			Globals map[string]core.V            `json:"globals"`
			Switch  []struct {
				Name  string          `json:"name"`
				Oblig []string        `json:"oblig"`
				Sfx   json.RawMessage `json:"sfx"`
				Fns   json.RawMessage `json:"fns"`
				IJ    string          `json:"ij"`
				Msgs  bool            `json:"msgs"`
			} `json:"switch"`
		} `json:"setup"`
	}
	if err := json.Unmarshal([]byte(js), &raw); err != nil {
		return nil, fmt.Errorf("bad setup from TLC: %v", err)
	}
	s := raw.Setup
	cfg := Config{Name: s.CfgName, Oblig: s.Cfg.Oblig, Fns: map[string]string{}}
	if cfg.Oblig == nil {
		cfg.Oblig = []string{}
	}
	if len(s.Cfg.Fns) > 0 && s.Cfg.Fns[0] == '{' { // an empty function is printed as []
		if err := json.Unmarshal(s.Cfg.Fns, &cfg.Fns); err != nil {
			return nil, err
		}
	}
	prog := &core.Program{Bundle: s.Bundle, Glob: map[string]core.V{}, IJ: core.V{"t": "none"},
		Plan: map[string]interface{}{"kind": "none"}, Aliases: map[string]bool{}}
	files := core.UnparseProgram(prog, core.Style{})
	var names []string
	for _, f := range files {
		names = append(names, f.Name)
	}
	sort.Strings(names)
	want := append([]string{}, s.Files...)
	sort.Strings(want)
	if strings.Join(names, ",") != strings.Join(want, ",") {
		return nil, fmt.Errorf("files of the model %v are not the unparsed files %v", want, names)
	}
	in := &Inputs{Files: files, Data: s.Data, IJ: s.IJ, ExprSrc: core.Unparse(s.Expr, core.Style{}), Globals: s.Globals}
	st := &Setup{Cfg: cfg, Inputs: in, Prog: prog, IJB: s.IJB}
	objOf := func(raw json.RawMessage) (map[string]string, error) { // an empty function is printed as []
		m := map[string]string{}
		if len(raw) > 0 && raw[0] == '{' {
			if err := json.Unmarshal(raw, &m); err != nil {
				return nil, err
			}
		}
		return m, nil
	}
	for _, sc := range s.Switch {
		c := Config{Name: sc.Name, Oblig: sc.Oblig, NoMsgs: !sc.Msgs}
		if c.Oblig == nil {
			c.Oblig = []string{}
		}
		if sc.IJ == "b" {
			c.IJ = "b"
		}
		var err error
		if c.Sfx, err = objOf(sc.Sfx); err != nil {
			return nil, err
		}
		if c.Fns, err = objOf(sc.Fns); err != nil {
			return nil, err
		}
		st.Switch = append(st.Switch, c)
	}
	return st, nil
}

// judge compares one observed step with the model's expectation (exp may be
// nil: no model claim) and with the same operation on a fresh bundle.
// It returns "" if all is well, else what is wrong.
func judge(o Op, obs Obs, exp *Step, fresh *Obs) string {
	if obs.Panicked {
		return "panic: " + obs.ErrText
	}
	if exp != nil && o.Op != "genjs" {
		switch exp.St {
		case "ok":
			if obs.Err {
				return fmt.Sprintf("the model says %q, the real code returned an error: %s", exp.Out, obs.ErrText)
			}
			if obs.Out != exp.Out {
				return fmt.Sprintf("the model says %q, the real code wrote %q", exp.Out, obs.Out)
			}
		case "err":
			if !obs.Err {
				return fmt.Sprintf("the model says the operation fails, the real code wrote %q without error", obs.Out)
			}
		}
	}
	if fresh != nil {
		if obs.Err != fresh.Err {
			return fmt.Sprintf("on a fresh bundle err=%v (%s), here err=%v (%s)", fresh.Err, fresh.ErrText, obs.Err, obs.ErrText)
		}
		if obs.Out != fresh.Out {
			return fmt.Sprintf("on a fresh bundle the operation writes %q, here %q", trunc(fresh.Out, 300), trunc(obs.Out, 300))
		}
		if obs.Log != fresh.Log {
			return fmt.Sprintf("on a fresh bundle the operation logs %q, here %q", trunc(fresh.Log, 300), trunc(obs.Log, 300))
		}
	}
	return ""
}

// failure is the first thing that went wrong in a history.
type failure struct {
	step  int // 0-based
	sig   core.Sig
	what  string
	obs   Obs
	fresh *Obs
	diff  *Diff
}

// runHistory performs the history on inst. exp[i] may be nil. fresh maps
// Op.Key() to the outcome on a fresh bundle.
func runHistory(family string, inst *Instance, ops []Op, exp []*Step, fresh map[string]Obs) *failure {
	// Up to the first failure nothing has changed, so the state before every
	// step is the initial state: its full digest is kept for the diagnosis, and
	// each step is checked with the (much cheaper) hash of the same walk.
	shared := DigestOf(inst.SharedRoots()...)
	caller := DigestOf(inst.CallerRoots()...)
	sharedH := FastHash(inst.SharedRoots()...)
	callerH := FastHash(inst.CallerRoots()...)
	for i, o := range ops {
		cp := inst.copyCaller()
		obs := inst.Do(o)
		var fr *Obs
		if f, ok := fresh[o.Key()]; ok {
			fr = &f
		}
		// what changed? shared state first: it explains everything after it
		if FastHash(inst.SharedRoots()...) != sharedH {
			d := FirstDiff(shared, DigestOf(inst.SharedRoots()...))
			if d == nil {
				d = &Diff{Path: "?", Own: "?"}
			}
			return &failure{i, core.Sig{Family: family, Feature: "shared-state-mutated:" + d.Own},
				fmt.Sprintf("step %d (%s) changed shared state: %s: %s -> %s (%d digest lines differ)", i+1, o.Key(), d.Path, d.Before, d.After, d.Count), obs, fr, d}
		}
		callerChanged := FastHash(inst.CallerRoots()...) != callerH
		if w := inst.changed(cp); w != "" {
			return &failure{i, core.Sig{Family: family, Feature: "caller-value-mutated:" + w},
				fmt.Sprintf("step %d (%s) changed the caller's %s", i+1, o.Key(), w), obs, fr, FirstDiff(caller, DigestOf(inst.CallerRoots()...))}
		}
		if callerChanged {
			d := FirstDiff(caller, DigestOf(inst.CallerRoots()...))
			if d == nil {
				d = &Diff{Path: "?", Own: "?"}
			}
			return &failure{i, core.Sig{Family: family, Feature: "caller-value-mutated:" + d.Own},
				fmt.Sprintf("step %d (%s) changed a caller value: %s: %s -> %s", i+1, o.Key(), d.Path, d.Before, d.After), obs, fr, d}
		}
		var e *Step
		if exp != nil {
			e = exp[i]
		}
		if w := judge(o, obs, e, fr); w != "" {
			feat := "output-depends-on-history:" + o.Op
			if obs.Panicked {
				feat = "panic:" + o.Op
			} else if i == 0 || (fr != nil && fr.Err == obs.Err && fr.Out == obs.Out) {
				// same as on a fresh bundle: the real code disagrees with the model, history or not
				feat = "fresh-outcome-differs-from-spec:" + o.Op
			}
			return &failure{i, core.Sig{Family: family, Feature: feat}, fmt.Sprintf("step %d (%s): %s", i+1, o.Key(), w), obs, fr, nil}
		}
	}
	return nil
}

// FreshOutcomes performs every operation on its own freshly compiled bundle.
func FreshOutcomes(in *Inputs, ops []Op) (map[string]Obs, error) {
	res, _, err := FreshOutcomesDiff(in, ops, false)
	return res, err
}

// FreshOutcomesDiff also reports, per operation, what the operation changed in
// the shared state of its fresh bundle (nil = nothing).
func FreshOutcomesDiff(in *Inputs, ops []Op, withDiff bool) (map[string]Obs, map[string]*Diff, error) {
	res := map[string]Obs{}
	diffs := map[string]*Diff{}
	for _, o := range ops {
		if _, ok := res[o.Key()]; ok {
			continue
		}
		inst, err := NewInstance(in)
		if err != nil {
			return nil, nil, err
		}
		var before *Digest
		if withDiff {
			before = DigestOf(inst.SharedRoots()...)
		}
		res[o.Key()] = inst.Do(o)
		if withDiff {
			diffs[o.Key()] = FirstDiff(before, DigestOf(inst.SharedRoots()...))
		}
	}
	return res, diffs, nil
}

// replayAll replays the histories of one configuration. Returns the number of
// histories replayed and of non-trivial ones.
func replayAll(ctx *core.Ctx, setup *Setup, hists [][]Step) (int, int) {
	restore, err := Install(setup.Cfg)
	if err != nil {
		ctx.ToolError("cannot install configuration %s: %v", setup.Cfg.Name, err)
		return 0, 0
	}
	defer func() {
		if err := restore(); err != nil {
			ctx.ToolError("configuration %s: %v", setup.Cfg.Name, err)
		}
	}()
	var allOps []Op
	seen := map[string]bool{}
	for _, h := range hists {
		for _, s := range h {
			if !seen[s.Op.Key()] {
				seen[s.Op.Key()] = true
				allOps = append(allOps, s.Op)
			}
		}
	}
	fresh, err := FreshOutcomes(setup.Inputs, allOps)
	if err != nil {
		ctx.ToolError("the model's bundle does not compile (configuration %s): %v\n%s", setup.Cfg.Name, err, setup.Inputs.Files[0].Text)
		return 0, 0
	}
	ctx.Sample(map[string]interface{}{"cfg": setup.Cfg, "files": setup.Inputs.Files, "history": hists[len(hists)/3]})

	var wg sync.WaitGroup
	jobs := make(chan []Step, 256)
	var mu sync.Mutex
	nontrivial := 0
	for w := 0; w < runtime.GOMAXPROCS(0); w++ {
		wg.Add(1)
		go func() {
			defer wg.Done()
			for h := range jobs {
				inst, err := NewInstance(setup.Inputs)
				if err != nil {
					ctx.ToolError("compile: %v", err)
					continue
				}
				ops := make([]Op, len(h))
				exp := make([]*Step, len(h))
				rendered, nt := false, false
				for i := range h {
					ops[i], exp[i] = h[i].Op, &h[i]
					if rendered {
						nt = true
					}
					if h[i].Op.Op == "render" {
						rendered = true
					}
				}
				f := runHistory("history", inst, ops, exp, fresh)
				ctx.AddEvals(int64(len(h)))
				ctx.AddTraces(1)
				if nt {
					ctx.Distinct(setup.Cfg.Name + "/" + histKey(h))
					mu.Lock()
					nontrivial++
					mu.Unlock()
				}
				if f != nil {
					ctx.Violation(f.sig, "configuration "+setup.Cfg.Name+": "+f.what,
						HistoryReplay{Kind: "history", Family: "history", Cfg: setup.Cfg, Inputs: setup.Inputs, History: h,
							FailedAt: f.step + 1, What: f.what, Observed: f.obs, Fresh: f.fresh, Diff: f.diff})
				}
			}
		}()
	}
	for _, h := range hists {
		jobs <- h
	}
	close(jobs)
	wg.Wait()
	return len(hists), nontrivial
}

// refinement has TLC check that SoyBundleRun's functional step is SoyExec's
// step on n generated programs.
func refinement(ctx *core.Ctx, n int) {
	progs := GenRefineProgs(ctx.Seed, n)
	cfg := "CONSTANT Dev = {}\nINIT RInit\nNEXT RNext\nPROPERTY StepMatches\nINVARIANT RunMatches\nINVARIANT Report\nCHECK_DEADLOCK FALSE\n"
	res, err := ctx.RunTLC(core.TLCOpts{Module: "SoyBundleRefine", Cfg: cfg, Files: map[string][]byte{"refine_progs.ndjson": progs},
		Workers: 1, Timeout: 8 * time.Minute, Label: "functional-form-refines-SoyExec"})
	if err != nil {
		ctx.ToolError("refinement run: %v", err)
		return
	}
	if res.Violated != "" {
		ctx.ToolError("SoyBundleRun is not SoyExec (%s violated): %s", res.Violated, trunc(res.Trace, 600))
		return
	}
	ok := false
	for _, t := range res.Tuples {
		if t == fmt.Sprintf(`<<"REFINED", %d>>`, n) {
			ok = true
		}
	}
	if !ok {
		ctx.ToolError("refinement run did not consume its %d programs", n)
	}
	ctx.Extra["refinement_programs"] = n
}

// replayFile re-runs one saved replay case.
func replayFile(ctx *core.Ctx) {
	b, err := os.ReadFile(ctx.ReplayPath)
	if err != nil {
		ctx.ToolError("replay: %v", err)
		return
	}
	var v struct {
		Replay HistoryReplay `json:"replay"`
	}
	if err := json.Unmarshal(b, &v); err != nil || v.Replay.Inputs == nil {
		ctx.ToolError("replay: not a C08 history case: %v", err)
		return
	}
	r := v.Replay
	if r.Kind == "switch-history" {
		var sr struct {
			Replay SwitchReplay `json:"replay"`
		}
		if err := json.Unmarshal(b, &sr); err != nil || len(sr.Replay.Switch) < 2 {
			ctx.ToolError("replay: not a switch history: %v", err)
			return
		}
		setup := &Setup{Cfg: r.Cfg, Inputs: r.Inputs, Switch: sr.Replay.Switch, IJB: sr.Replay.IJB}
		var ops []Op
		for _, s := range r.History {
			if s.Op.Op != "setcfg" {
				ops = append(ops, s.Op)
			}
		}
		fresh, err := freshProcessOutcomes(ctx, setup, ops)
		if err != nil {
			ctx.ToolError("replay: %v", err)
			return
		}
		ctx.Rule = "replay of one saved switch history"
		ctx.AddEvals(int64(len(r.History)))
		ctx.AddTraces(1)
		ctx.Distinct(histKey(r.History))
		ctx.Sample(r.History)
		if f := runSwitchHistory(setup, r.Cfg, r.History, fresh); f != nil {
			sr.Replay.FailedAt, sr.Replay.What, sr.Replay.Observed, sr.Replay.Fresh = f.step+1, f.what, f.obs, f.fresh
			ctx.Violation(f.sig, f.what, sr.Replay)
		} else {
			fmt.Println("replay: the history passes")
		}
		return
	}
	if r.Kind == "struct-history" {
		var names []string
		for _, s := range r.History {
			names = append(names, s.Op.D)
		}
		_, in := structInputs()
		var ops []Op
		for _, sv := range structValues {
			ops = append(ops, Op{Op: "render", T: "s.row", D: sv.name})
		}
		byMapK, err := FreshOutcomes(in, ops)
		if err != nil {
			ctx.ToolError("replay: %v", err)
			return
		}
		byMap := map[string]Obs{}
		for i, sv := range structValues {
			byMap[sv.name] = byMapK[ops[i].Key()]
		}
		ctx.Rule = "replay of one saved struct-data history (in a fresh process)"
		ctx.AddEvals(int64(len(names)))
		ctx.AddTraces(1)
		ctx.Distinct(strings.Join(names, ","))
		ctx.Sample(names)
		if f := runStructHistory(in, names, byMap, map[string]Obs{}); f != nil {
			r.FailedAt, r.What, r.Observed = f.step+1, f.what, f.obs
			ctx.Violation(f.sig, f.what, r)
		} else {
			fmt.Println("replay: the history passes")
		}
		return
	}
	restore, err := Install(r.Cfg)
	if err != nil {
		ctx.ToolError("replay: %v", err)
		return
	}
	defer restore()
	var ops []Op
	var exp []*Step
	for i := range r.History {
		ops = append(ops, r.History[i].Op)
		if r.History[i].St != "" {
			exp = append(exp, &r.History[i])
		} else {
			exp = append(exp, nil)
		}
	}
	fresh, err := FreshOutcomes(r.Inputs, ops)
	if err != nil {
		ctx.ToolError("replay: %v", err)
		return
	}
	inst, err := NewInstance(r.Inputs)
	if err != nil {
		ctx.ToolError("replay: %v", err)
		return
	}
	ctx.Rule = "replay of one saved history"
	ctx.AddEvals(int64(len(ops)))
	ctx.AddTraces(1)
	ctx.Distinct(histKey(r.History))
	ctx.Sample(r.History)
	if f := runHistory(r.Family, inst, ops, exp, fresh); f != nil {
		r.FailedAt, r.What, r.Observed, r.Fresh, r.Diff = f.step+1, f.what, f.obs, f.fresh, f.diff
		ctx.Violation(f.sig, "configuration "+r.Cfg.Name+": "+f.what, r)
	} else {
		fmt.Println("replay: the history passes")
	}
}
