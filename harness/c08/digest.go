package c08

import (
	"fmt"
	"hash/fnv"
	"reflect"
	"runtime"
	"sort"
	"strconv"
	"strings"
	"unsafe"
)

// Digest is a deep structural image of a Go value: one line per leaf
// (path = value), covering EVERY field, exported or not, of everything
// reachable through pointers, interfaces, slices (up to their capacity, so
// that writes into spare capacity show), maps and structs. Pointer targets are
// numbered in first-visit order, which records the sharing structure without
// depending on addresses. Func values are recorded by the name of their code.
type Digest struct {
	Lines []string // "path = value"
	Own   []string // for each line: innermost struct type and field, e.g. "ast.PrintNode.Directives"
	Hash  uint64
}

// Region is the memory occupied by one field (or slice backing array, or map
// header) of a walked structure; used by C09 to name the field a race report's
// address lies in.
type Region struct {
	Lo, Hi uintptr
	Own    string
	Depth  int // nesting depth of the field below the root it was reached from
}

type walker struct {
	d       *Digest
	seen    map[visitKey]int
	regions *[]Region
	fast    bool // hash only: no paths, no lines
	h       uint64
}

// FastHash is the hash of the same walk as DigestOf without building the
// lines: two structures with equal digests have equal fast hashes. (The value
// is not comparable with Digest.Hash.)
func FastHash(roots ...Root) uint64 {
	w := &walker{d: &Digest{}, seen: map[visitKey]int{}, fast: true, h: 14695981039346656037}
	for _, r := range roots {
		w.mix(r.Name)
		w.walk(reflect.ValueOf(r.V), "", "")
	}
	return w.h
}

func (w *walker) mix(s string) {
	h := w.h
	for i := 0; i < len(s); i++ {
		h ^= uint64(s[i])
		h *= 1099511628211
	}
	h ^= 0xff
	h *= 1099511628211
	w.h = h
}

// sub extends a path (not in fast mode).
func (w *walker) sub(path, s string) string {
	if w.fast {
		return ""
	}
	return path + s
}

type visitKey struct {
	p uintptr
	t reflect.Type
}

// DigestOf walks the named roots in order.
func DigestOf(roots ...Root) *Digest {
	d, _ := digestRegions(false, roots...)
	return d
}

// DigestWithRegions also returns the address ranges of all fields visited.
func DigestWithRegions(roots ...Root) (*Digest, []Region) {
	return digestRegions(true, roots...)
}

// Root is a named starting point of a digest. V must be a pointer (so that
// everything below it is addressable) or any value.
type Root struct {
	Name string
	V    interface{}
}

func digestRegions(withRegions bool, roots ...Root) (*Digest, []Region) {
	d := &Digest{}
	var regs []Region
	w := &walker{d: d, seen: map[visitKey]int{}}
	if withRegions {
		w.regions = &regs
	}
	for _, r := range roots {
		w.walk(reflect.ValueOf(r.V), r.Name, r.Name)
	}
	h := fnv.New64a()
	for _, l := range d.Lines {
		h.Write([]byte(l))
		h.Write([]byte{'\n'})
	}
	d.Hash = h.Sum64()
	return d, regs
}

func (w *walker) leaf(path, own, val string) {
	if w.fast {
		w.mix(val)
		return
	}
	w.d.Lines = append(w.d.Lines, path+" = "+val)
	w.d.Own = append(w.d.Own, own)
}

func depthOf(path string) int {
	return strings.Count(path, ".") + strings.Count(path, "[")
}

func (w *walker) region(v reflect.Value, own, path string) {
	if w.regions == nil || !v.CanAddr() {
		return
	}
	lo := v.UnsafeAddr()
	*w.regions = append(*w.regions, Region{lo, lo + v.Type().Size(), own, depthOf(path)})
}

func typeName(t reflect.Type) string {
	s := t.String()
	return strings.TrimPrefix(s, "*")
}

func strDigest(s string) string {
	if len(s) <= 48 {
		return strconv.Quote(s)
	}
	h := fnv.New64a()
	h.Write([]byte(s))
	return fmt.Sprintf("string(len=%d,fnv=%x)", len(s), h.Sum64())
}

func (w *walker) walk(v reflect.Value, path, own string) {
	if !v.IsValid() {
		w.leaf(path, own, "<nil>")
		return
	}
	switch v.Kind() {
	case reflect.Bool:
		w.leaf(path, own, strconv.FormatBool(v.Bool()))
	case reflect.Int, reflect.Int8, reflect.Int16, reflect.Int32, reflect.Int64:
		w.leaf(path, own, strconv.FormatInt(v.Int(), 10))
	case reflect.Uint, reflect.Uint8, reflect.Uint16, reflect.Uint32, reflect.Uint64, reflect.Uintptr:
		w.leaf(path, own, strconv.FormatUint(v.Uint(), 10))
	case reflect.Float32, reflect.Float64:
		w.leaf(path, own, strconv.FormatFloat(v.Float(), 'g', -1, 64))
	case reflect.Complex64, reflect.Complex128:
		w.leaf(path, own, fmt.Sprint(v.Complex()))
	case reflect.String:
		w.leaf(path, own, strDigest(v.String()))
	case reflect.Func:
		if v.IsNil() {
			w.leaf(path, own, "func(nil)")
		} else {
			if w.fast {
				w.leaf(path, own, strconv.FormatUint(uint64(v.Pointer()), 16))
				return
			}
			name := "?"
			if f := runtime.FuncForPC(v.Pointer()); f != nil {
				name = f.Name()
			}
			w.leaf(path, own, "func "+name)
		}
	case reflect.Chan, reflect.UnsafePointer:
		if v.Pointer() == 0 {
			w.leaf(path, own, v.Kind().String()+"(nil)")
		} else {
			w.leaf(path, own, v.Kind().String()+"(set)")
		}
	case reflect.Ptr:
		if v.IsNil() {
			w.leaf(path, own, "nil")
			return
		}
		k := visitKey{v.Pointer(), v.Type()}
		if id, ok := w.seen[k]; ok {
			w.leaf(path, own, "&#"+strconv.Itoa(id))
			return
		}
		w.seen[k] = len(w.seen)
		if w.fast {
			w.mix("*")
			w.walk(v.Elem(), "", own)
			return
		}
		w.walk(v.Elem(), path+"<*"+typeName(v.Type())+">", own)
	case reflect.Interface:
		if v.IsNil() {
			w.leaf(path, own, "nil")
			return
		}
		w.walk(v.Elem(), path, own)
	case reflect.Struct:
		if w.fast {
			w.mix(v.Type().String())
			for i := 0; i < v.NumField(); i++ {
				w.walk(v.Field(i), "", "")
			}
			return
		}
		tn := typeName(v.Type())
		if v.NumField() == 0 {
			w.leaf(path, own, tn+"{}")
		}
		for i := 0; i < v.NumField(); i++ {
			f := v.Type().Field(i)
			o := tn + "." + f.Name
			w.region(v.Field(i), o, path+"."+f.Name)
			w.walk(v.Field(i), path+"."+f.Name, o)
		}
	case reflect.Array:
		for i := 0; i < v.Len(); i++ {
			w.walk(v.Index(i), w.sub(path, "["+strconv.Itoa(i)+"]"), own)
		}
	case reflect.Slice:
		if v.IsNil() {
			w.leaf(path, own, "nil-slice")
			return
		}
		n, c := v.Len(), v.Cap()
		w.leaf(w.sub(path, ".len"), own, strconv.Itoa(n))
		w.leaf(w.sub(path, ".cap"), own, strconv.Itoa(c))
		if w.regions != nil && c > 0 {
			lo := v.Pointer()
			*w.regions = append(*w.regions, Region{lo, lo + uintptr(c)*v.Type().Elem().Size(), own + "[]", depthOf(path)})
		}
		if v.Type().Elem().Kind() == reflect.Uint8 {
			// byte strings: content up to len as a string, spare capacity hashed
			b := v.Slice(0, c).Bytes()
			w.leaf(path, own, strDigest(string(b[:n])))
			if c > n {
				w.leaf(w.sub(path, "[spare]"), own, strDigest(string(b[n:])))
			}
			return
		}
		full := v.Slice(0, c)
		for i := 0; i < c; i++ {
			p := ""
			if !w.fast {
				p = path + "[" + strconv.Itoa(i) + "]"
				if i >= n {
					p = path + "[+" + strconv.Itoa(i) + "]"
				}
			}
			w.walk(full.Index(i), p, own)
		}
	case reflect.Map:
		if v.IsNil() {
			w.leaf(path, own, "nil-map")
			return
		}
		if w.regions != nil {
			// the runtime's map header: writes of an unsynchronised cache land here
			lo := v.Pointer()
			*w.regions = append(*w.regions, Region{lo, lo + 8, own + "(map)", depthOf(path)})
		}
		w.leaf(w.sub(path, ".len"), own, strconv.Itoa(v.Len()))
		type ent struct {
			k string
			v reflect.Value
		}
		var ents []ent
		it := v.MapRange()
		for it.Next() {
			sub := &walker{d: &Digest{}, seen: map[visitKey]int{}}
			sub.walk(it.Key(), "", "")
			ents = append(ents, ent{strings.Join(sub.d.Lines, ";"), it.Value()})
		}
		sort.Slice(ents, func(i, j int) bool { return ents[i].k < ents[j].k })
		for _, e := range ents {
			k := strings.TrimPrefix(e.k, " = ")
			if w.fast {
				w.mix(k)
			}
			w.walk(e.v, w.sub(path, "["+k+"]"), own)
		}
	default:
		w.leaf(path, own, "?"+v.Kind().String())
	}
}

// Diff describes the first difference between two digests.
type Diff struct {
	Path   string `json:"path"`
	Own    string `json:"own"` // struct type + field that owns the changed leaf
	Before string `json:"before"`
	After  string `json:"after"`
	Count  int    `json:"changedLines"`
}

// FirstDiff returns nil if the digests are equal.
func FirstDiff(a, b *Digest) *Diff {
	if a.Hash == b.Hash && len(a.Lines) == len(b.Lines) {
		return nil
	}
	n := len(a.Lines)
	if len(b.Lines) < n {
		n = len(b.Lines)
	}
	var d *Diff
	cnt := 0
	for i := 0; i < n; i++ {
		if a.Lines[i] != b.Lines[i] {
			cnt++
			if d == nil {
				pa, va := splitLine(a.Lines[i])
				_, vb := splitLine(b.Lines[i])
				own := a.Own[i]
				if pb, _ := splitLine(b.Lines[i]); pb != pa {
					// the structure below this path changed shape
					vb = strings.TrimPrefix(b.Lines[i], pa)
				}
				d = &Diff{Path: pa, Own: own, Before: va, After: vb}
			}
		}
	}
	if d == nil {
		if len(a.Lines) == len(b.Lines) {
			return nil
		}
		if len(a.Lines) > n {
			p, v := splitLine(a.Lines[n])
			d = &Diff{Path: p, Own: a.Own[n], Before: v, After: "<absent>"}
		} else {
			p, v := splitLine(b.Lines[n])
			d = &Diff{Path: p, Own: b.Own[n], Before: "<absent>", After: v}
		}
	}
	d.Count = cnt + abs(len(a.Lines)-len(b.Lines))
	return d
}

func abs(x int) int {
	if x < 0 {
		return -x
	}
	return x
}

func splitLine(l string) (string, string) {
	if i := strings.Index(l, " = "); i >= 0 {
		return l[:i], l[i+3:]
	}
	return l, ""
}

// Resolve names the field whose memory contains addr ("" if unknown) and its
// depth. The narrowest containing region wins.
func Resolve(regs []Region, addr uintptr) (string, int) {
	best, depth := "", 0
	var bestSize uintptr
	for _, r := range regs {
		if addr >= r.Lo && addr < r.Hi {
			if best == "" || r.Hi-r.Lo < bestSize {
				best, bestSize, depth = r.Own, r.Hi-r.Lo, r.Depth
			}
		}
	}
	return best, depth
}

var _ = unsafe.Pointer(nil)
