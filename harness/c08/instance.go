package c08

import (
	"bytes"
	"fmt"
	"io"
	"reflect"
	"sort"
	"strings"

	"github.com/robfig/soy/ast"
	"github.com/robfig/soy/data"
	"github.com/robfig/soy/parse"
	"github.com/robfig/soy/soyhtml"
	"github.com/robfig/soy/soyjs"
	"github.com/robfig/soy/soymsg"
	"github.com/robfig/soy/soymsg/pomsg"

	"verif/core"
)

// Config is a configuration of the user-extensible registries.
type Config struct {
	Name  string            `json:"name"`
	Oblig []string          `json:"oblig"` // obligatory print directives (custom directives to install)
	Fns   map[string]string `json:"fns"`   // custom function -> builtin whose semantics it has
	// Sfx: the custom print directives to install, each appending its suffix
	// (nil: one directive per name in Oblig, "exclaim" appending "!")
	Sfx map[string]string `json:"sfx,omitempty"`
	// what the Renderer is given: IJ "b" = the alternative injected data;
	// NoMsgs = no message catalogue
	IJ     string `json:"ij,omitempty"`
	NoMsgs bool   `json:"noMsgs,omitempty"`
}

// Configs are the four configurations of the model (SoyBundle!TheCfg).
var Configs = []Config{
	{Name: "none", Oblig: []string{}, Fns: map[string]string{}},
	{Name: "oblig", Oblig: []string{"exclaim"}, Fns: map[string]string{}},
	{Name: "fn", Oblig: []string{}, Fns: map[string]string{"vmax2": "max"}},
	{Name: "both", Oblig: []string{"exclaim"}, Fns: map[string]string{"vmax2": "max"}},
}

// ConfigByName returns the named configuration.
func ConfigByName(n string) (Config, bool) {
	for _, c := range Configs {
		if c.Name == n {
			return c, true
		}
	}
	return Config{}, false
}

// vfn is the custom function vmax2 with the semantics of the builtin max or
// min (two implementations that can be installed under the one name).
func vfn(builtin string) func(args []data.Value) data.Value {
	return func(args []data.Value) data.Value {
		a, ok1 := args[0].(data.Int)
		b, ok2 := args[1].(data.Int)
		if !ok1 || !ok2 {
			panic("vmax2: integer arguments required")
		}
		if (a >= b) == (builtin == "max") {
			return a
		}
		return b
	}
}

func suffixer(sfx string) func(v data.Value, _ []data.Value) data.Value {
	return func(v data.Value, _ []data.Value) data.Value { return data.String(v.String() + sfx) }
}

// GlobalRoots are the process-wide extension registries of robfig/soy.
func GlobalRoots() []Root {
	return []Root{
		{"soyhtml.PrintDirectives", &soyhtml.PrintDirectives},
		{"soyhtml.Funcs", &soyhtml.Funcs},
		{"soyhtml.ObligatoryPrintDirectiveNames", &soyhtml.ObligatoryPrintDirectiveNames},
		{"soyjs.PrintDirectives", &soyjs.PrintDirectives},
		{"soyjs.Funcs", &soyjs.Funcs},
	}
}

// Install puts the configuration into the public registries (Go renderer and
// JS generator, as an application registering an extension does) and returns
// the function that restores them. It fails if the restored registries do not
// digest to what they were.
func Install(c Config) (restore func() error, err error) {
	before := DigestOf(GlobalRoots()...)
	origOblig := soyhtml.ObligatoryPrintDirectiveNames
	var dirs, fns []string
	sfx := c.Sfx
	if sfx == nil {
		sfx = map[string]string{}
		for _, d := range c.Oblig {
			if d != "exclaim" {
				return nil, fmt.Errorf("unknown custom directive %q", d)
			}
			sfx[d] = "!"
		}
	}
	var dnames []string
	for d := range sfx {
		dnames = append(dnames, d)
	}
	sort.Strings(dnames)
	for _, d := range dnames {
		if _, dup := soyhtml.PrintDirectives[d]; dup {
			return nil, fmt.Errorf("directive %q already installed", d)
		}
		soyhtml.PrintDirectives[d] = soyhtml.PrintDirective{Apply: suffixer(sfx[d]), ValidArgLengths: []int{0}, CancelAutoescape: false}
		soyjs.PrintDirectives[d] = soyjs.PrintDirective{Name: "verif.$$" + d, CancelAutoescape: false}
		dirs = append(dirs, d)
	}
	if len(c.Oblig) > 0 {
		// a fresh slice: the original backing array is left alone
		soyhtml.ObligatoryPrintDirectiveNames = append(append([]string{}, origOblig...), c.Oblig...)
	}
	for f := range c.Fns {
		if f != "vmax2" || (c.Fns[f] != "max" && c.Fns[f] != "min") {
			return nil, fmt.Errorf("unknown custom function %q = %q", f, c.Fns[f])
		}
		builtin := c.Fns[f]
		if _, dup := soyhtml.Funcs[f]; dup {
			return nil, fmt.Errorf("function %q already installed", f)
		}
		soyhtml.Funcs[f] = soyhtml.Func{Apply: vfn(builtin), ValidArgLengths: []int{2}}
		soyjs.Funcs[f] = soyjs.Func{Name: f, ValidArgLengths: []int{2}, Apply: func(js soyjs.JSWriter, args []ast.Node) {
			js.Write("Math."+builtin+"(", args[0], ",", args[1], ")")
		}}
		fns = append(fns, f)
	}
	return func() error {
		for _, d := range dirs {
			delete(soyhtml.PrintDirectives, d)
			delete(soyjs.PrintDirectives, d)
		}
		for _, f := range fns {
			delete(soyhtml.Funcs, f)
			delete(soyjs.Funcs, f)
		}
		soyhtml.ObligatoryPrintDirectiveNames = origOblig
		if d := FirstDiff(before, DigestOf(GlobalRoots()...)); d != nil {
			return fmt.Errorf("registries not restored: %s: %s -> %s", d.Path, d.Before, d.After)
		}
		return nil
	}, nil
}

// Catalogue is the caller's message bundle: it translates every message of
// the compiled bundle to itself (same text, same placeholders), so that the
// translated-message path of the renderer runs while the output stays the one
// the specification defines. It holds no counters: whatever changes in it was
// changed by the code under test.
type Catalogue struct {
	Loc  string
	Msgs map[uint64]*soymsg.Message
}

func (c *Catalogue) Locale() string                    { return c.Loc }
func (c *Catalogue) Message(id uint64) *soymsg.Message { return c.Msgs[id] }
func (c *Catalogue) PluralCase(n int) int              { return 0 }

type memOpener map[string]string

func (m memOpener) Open(locale string) (io.ReadCloser, error) {
	s, ok := m[locale]
	if !ok {
		return nil, nil
	}
	return io.NopCloser(strings.NewReader(s)), nil
}

// WalkNodes visits node and everything below it.
func WalkNodes(n ast.Node, f func(ast.Node)) { walkNodes(n, f) }

// walkNodes visits node and everything below it.
func walkNodes(n ast.Node, f func(ast.Node)) {
	if n == nil || (reflect.ValueOf(n).Kind() == reflect.Ptr && reflect.ValueOf(n).IsNil()) {
		return
	}
	f(n)
	if p, ok := n.(ast.ParentNode); ok {
		for _, c := range p.Children() {
			walkNodes(c, f)
		}
	}
}

func hasPlural(m *ast.MsgNode) bool {
	found := false
	walkNodes(m, func(n ast.Node) {
		if _, ok := n.(*ast.MsgPluralNode); ok {
			found = true
		}
	})
	return found
}

// Instance is ONE compiled bundle together with everything the caller hands
// to the operations: data maps, injected data, message catalogue, and the
// expression tree given to EvalExpr.
type Instance struct {
	Comp     *core.Compiled
	Cat      *Catalogue
	ExprNode ast.Node
	Data     map[string]data.Map
	IJ       data.Map      // nil = none
	Globals  data.Map      // the globals map the caller gave to AddGlobalsMap (nil: none)
	NoMsgs   bool          // render without a catalogue
	Msgs     soymsg.Bundle // when set: the catalogue given to renders and JS generation instead of Cat
}

// Inputs describes the bundle and the caller's values of an instance.
type Inputs struct {
	Files   []core.File                  `json:"files"`
	Data    map[string]map[string]core.V `json:"data"`
	IJ      core.V                       `json:"ij"`
	ExprSrc string                       `json:"expr"`
	// Shared: named map values that are ONE object: every data set that has a
	// map under such a name gets that same data.Map (a nested map shared by
	// different top-level maps).
	Shared map[string]core.V `json:"shared,omitempty"`
	// Globals: compile-time globals (AddGlobalsMap). The map the caller hands in
	// stays the caller's; map- and list-valued globals are reference values that
	// belong to the compiled bundle.
	Globals map[string]core.V `json:"globals,omitempty"`
	// PO / Locale: render with a REAL message bundle, pomsg.Load of these .po
	// texts (locale -> text), bundle of Locale, instead of the identity catalogue
	PO     map[string]string `json:"po,omitempty"`
	Locale string            `json:"locale,omitempty"`
}

// NewInstance compiles the files and builds the caller's values afresh.
func NewInstance(in *Inputs) (*Instance, error) {
	var globals data.Map
	if len(in.Globals) > 0 {
		globals = core.ToDataMap(in.Globals)
	}
	comp, err, _ := core.Compile(in.Files, globals)
	if err != nil {
		return nil, err
	}
	inst := &Instance{Comp: comp, Data: map[string]data.Map{}, Globals: globals}
	for k, m := range in.Data {
		inst.Data[k] = core.ToDataMap(m)
	}
	var sharedNames []string
	for name := range in.Shared {
		sharedNames = append(sharedNames, name)
	}
	sort.Strings(sharedNames)
	for _, name := range sharedNames {
		obj := core.ToData(in.Shared[name])
		for _, m := range inst.Data {
			if cur, ok := m[name]; ok && reflect.TypeOf(cur) == reflect.TypeOf(obj) {
				m[name] = obj
			}
		}
	}
	if in.IJ != nil && in.IJ["t"] == "map" {
		inst.IJ = core.ToDataMap(in.IJ["v"])
	}
	if in.ExprSrc != "" {
		n, err := parse.Expr(in.ExprSrc)
		if err != nil {
			return nil, fmt.Errorf("expression %q: %v", in.ExprSrc, err)
		}
		inst.ExprNode = n
	}
	if in.Locale != "" {
		var locales []string
		for l := range in.PO {
			locales = append(locales, l)
		}
		sort.Strings(locales)
		prov, err := pomsg.Load(memOpener(in.PO), locales)
		if err != nil {
			return nil, fmt.Errorf("pomsg.Load: %v", err)
		}
		inst.Msgs = prov.Bundle(in.Locale)
		if inst.Msgs == nil {
			return nil, fmt.Errorf("pomsg: no bundle for locale %s", in.Locale)
		}
	}
	inst.Cat = &Catalogue{Loc: "xx", Msgs: map[uint64]*soymsg.Message{}}
	for _, f := range comp.Registry.SoyFiles {
		walkNodes(f, func(n ast.Node) {
			if m, ok := n.(*ast.MsgNode); ok && !hasPlural(m) {
				inst.Cat.Msgs[m.ID] = soymsg.NewMessage(m.ID, soymsg.PlaceholderString(m))
			}
		})
	}
	return inst, nil
}

// SharedRoots: the compiled bundle (Tofu -> *template.Registry -> every AST
// node), the expression tree and the process-wide registries.
func (in *Instance) SharedRoots() []Root {
	r := []Root{{"tofu", in.Comp.Tofu}, {"registry", in.Comp.Registry}, {"expr", &in.ExprNode}}
	return append(r, GlobalRoots()...)
}

// CallerRoots: what the caller handed in.
func (in *Instance) CallerRoots() []Root {
	var names []string
	for k := range in.Data {
		names = append(names, k)
	}
	sort.Strings(names)
	var r []Root
	for _, k := range names {
		m := in.Data[k]
		r = append(r, Root{"data[" + k + "]", &m})
	}
	r = append(r, Root{"ij", &in.IJ}, Root{"msgs", in.Cat})
	if in.Globals != nil {
		r = append(r, Root{"globals", &in.Globals})
	}
	if in.Msgs != nil {
		r = append(r, Root{"pomsgs", in.Msgs})
	}
	return r
}

// Op is one operation of a history.
type Op struct {
	Op string `json:"op"`          // render | genjs | evalexpr
	T  string `json:"t,omitempty"` // template
	D  string `json:"d,omitempty"` // data set
	F  string `json:"f,omitempty"` // file
	C  string `json:"c,omitempty"` // configuration (setcfg)
}

func (o Op) Key() string {
	if o.C != "" {
		return o.Op + ":" + o.C
	}
	return o.Op + ":" + o.T + ":" + o.D + ":" + o.F
}

// Obs is what an operation did.
type Obs struct {
	Err      bool   `json:"err"`
	Out      string `json:"out"`
	ErrText  string `json:"errText,omitempty"`
	Panicked bool   `json:"panicked,omitempty"`
	Log      string `json:"log,omitempty"` // what {log} commands sent to the logger in force (switch family)
}

// Do performs the operation through the public API.
func (in *Instance) Do(o Op) (obs Obs) {
	defer func() {
		if r := recover(); r != nil {
			obs.Err, obs.Panicked, obs.ErrText = true, true, fmt.Sprintf("PANIC: %v", r)
		}
	}()
	var buf bytes.Buffer
	var err error
	switch o.Op {
	case "render":
		r := in.Comp.Tofu.NewRenderer(o.T)
		if in.Msgs != nil {
			r.WithMessages(in.Msgs)
		} else if !in.NoMsgs {
			r.WithMessages(in.Cat)
		}
		if in.IJ != nil {
			r.Inject(in.IJ)
		}
		err = r.Execute(&buf, in.Data[o.D])
	case "genjs":
		var file *ast.SoyFileNode
		for _, f := range in.Comp.Registry.SoyFiles {
			if f.Name == o.F {
				file = f
			}
		}
		if file == nil {
			return Obs{Err: true, ErrText: "harness: no such file " + o.F}
		}
		var cat soymsg.Bundle = in.Cat
		if in.Msgs != nil {
			cat = in.Msgs
		}
		err = soyjs.Write(&buf, file, soyjs.Options{Messages: cat})
	case "evalexpr":
		var v data.Value
		v, err = soyhtml.EvalExpr(in.ExprNode)
		if err == nil && v != nil {
			buf.WriteString(v.String())
		}
	default:
		return Obs{Err: true, ErrText: "harness: unknown op " + o.Op}
	}
	obs.Out = buf.String()
	if err != nil {
		obs.Err, obs.ErrText = true, err.Error()
	}
	return obs
}

// deepCopy copies a data value (maps and lists recursively).
func deepCopy(v data.Value) data.Value {
	switch x := v.(type) {
	case data.Map:
		if x == nil {
			return x
		}
		m := make(data.Map, len(x))
		for k, e := range x {
			m[k] = deepCopy(e)
		}
		return m
	case data.List:
		if x == nil {
			return x
		}
		l := make(data.List, len(x))
		for i, e := range x {
			l[i] = deepCopy(e)
		}
		return l
	}
	return v
}

// callerCopy is a deep copy of everything the caller handed in.
type callerCopy struct {
	data map[string]data.Value
	ij   data.Value
	msgs map[uint64]soymsg.Message
}

func (in *Instance) copyCaller() *callerCopy {
	c := &callerCopy{data: map[string]data.Value{}, msgs: map[uint64]soymsg.Message{}}
	for k, m := range in.Data {
		c.data[k] = deepCopy(m)
	}
	if in.IJ != nil {
		c.ij = deepCopy(in.IJ)
	}
	for id, m := range in.Cat.Msgs {
		c.msgs[id] = soymsg.Message{ID: m.ID, Parts: append([]soymsg.Part{}, m.Parts...)}
	}
	return c
}

// changed names the first caller value that no longer equals its copy.
func (in *Instance) changed(c *callerCopy) string {
	var names []string
	for k := range in.Data {
		names = append(names, k)
	}
	sort.Strings(names)
	if len(in.Data) != len(c.data) {
		return "data"
	}
	for _, k := range names {
		if !reflect.DeepEqual(data.Value(in.Data[k]), c.data[k]) {
			return "data"
		}
	}
	if in.IJ != nil && !reflect.DeepEqual(data.Value(in.IJ), c.ij) {
		return "ij"
	}
	if len(in.Cat.Msgs) != len(c.msgs) {
		return "msgs"
	}
	for id, m := range in.Cat.Msgs {
		o, ok := c.msgs[id]
		if !ok || m == nil || m.ID != o.ID || !reflect.DeepEqual(m.Parts, o.Parts) {
			return "msgs"
		}
	}
	return ""
}
