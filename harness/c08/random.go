package c08

import (
	"bytes"
	"encoding/json"
	"fmt"
	"math/rand"
	"regexp"
	"runtime"
	"sort"
	"strconv"
	"sync"
	"time"

	"verif/core"
)

// the fixed type of every name of core.ProgGen's pool
var nameType = map[string]string{"a": "int", "i": "int", "v": "int", "b": "str", "s": "str", "x": "list", "m": "map", "c": "bool"}

func randValue(r *rand.Rand, typ string) core.V {
	switch typ {
	case "int":
		return core.VInt(r.Intn(4))
	case "str":
		return core.VStr([]string{"p", "<i>", "q&r", "", "s\"t"}[r.Intn(5)])
	case "list":
		xs := []core.V{}
		for k, n := 0, r.Intn(4); k < n; k++ {
			xs = append(xs, core.VInt(r.Intn(5)))
		}
		return core.VList(xs...)
	case "map":
		m := map[string]core.V{}
		for _, k := range []string{"b", "s", "k"} {
			if r.Intn(3) != 0 {
				m[k] = core.VStr([]string{"mb", "<m>", ""}[r.Intn(3)])
			}
		}
		return core.VMap(m)
	default:
		return core.VBool(r.Intn(2) == 0)
	}
}

// dataFor builds data satisfying the declared params of t.
func dataFor(r *rand.Rand, t *core.Tmpl) map[string]core.V {
	d := map[string]core.V{}
	for _, p := range t.Params {
		if p.Opt && r.Intn(3) == 0 {
			continue
		}
		d[p.Name] = randValue(r, nameType[p.Name])
	}
	return d
}

// spoil makes data that is likely to make the render fail midway: a required
// param is dropped or a value gets another type.
func spoil(r *rand.Rand, t *core.Tmpl, d map[string]core.V) map[string]core.V {
	bad := map[string]core.V{}
	for k, v := range d {
		bad[k] = v
	}
	var req []string
	for _, p := range t.Params {
		if !p.Opt {
			req = append(req, p.Name)
		}
	}
	if len(req) == 0 {
		for _, p := range t.Params {
			req = append(req, p.Name)
		}
	}
	if len(req) == 0 {
		return nil
	}
	n := req[r.Intn(len(req))]
	switch nameType[n] {
	case "list", "map":
		if r.Intn(2) == 0 {
			bad[n] = core.VInt(7)
		} else {
			delete(bad, n)
		}
	case "int":
		if r.Intn(2) == 0 {
			bad[n] = core.VStr("zz")
		} else {
			delete(bad, n)
		}
	default:
		delete(bad, n)
	}
	return bad
}

// RenderCase is one (entry, data) pair over a generated bundle.
type RenderCase struct {
	Entry string            `json:"entry"`
	Data  map[string]core.V `json:"data"`
}

// RandomReplay is the replay case of a random history.
type RandomReplay struct {
	HistoryReplay
	Cases []RenderCase `json:"cases"`
}

var exprPool = []string{"1 + 2 * 3", "round(2.5) + length([1, 2, 3])", "'a' + 'b' + 3", "max(2, 7) - min(1, 4)", "not (1 < 2) or 3 >= 3"}

var reBadB = regexp.MustCompile(`^<<"BAD", (\d+), "(\w+)", (".*")>>$`)
var reDoneB = regexp.MustCompile(`^<<"DONE", (\d+), (\d+), (\d+)>>$`)

// traced is one fresh render kept for validation by TLC.
type traced struct {
	cfg    Config
	prog   *core.Program
	obs    Obs
	inputs *Inputs
	cases  []RenderCase
	mut    *Diff // what the fresh render changed in the shared state (nil: nothing)
	op     Op
}

// RandomHistories is M3: n generated bundles, spread over the configurations.
func RandomHistories(ctx *core.Ctx, n int, extra []traced) {
	r := rand.New(rand.NewSource(ctx.Seed))
	all := append([]traced{}, extra...)
	histories, steps := 0, 0
	for ci, cfg := range Configs {
		restore, err := Install(cfg)
		if err != nil {
			ctx.ToolError("cannot install configuration %s: %v", cfg.Name, err)
			continue
		}
		// generate with the seeded source (sequentially), run in parallel
		var plans []*plan
		for b := 0; b < n/len(Configs); b++ {
			plans = append(plans, planHistory(r, cfg))
		}
		results := make([][]traced, len(plans))
		var wg sync.WaitGroup
		sem := make(chan struct{}, runtime.GOMAXPROCS(0))
		for i, pl := range plans {
			wg.Add(1)
			go func(i int, pl *plan) {
				defer wg.Done()
				sem <- struct{}{}
				defer func() { <-sem }()
				results[i] = runPlan(ctx, pl, ci == 0 && i == 0)
			}(i, pl)
		}
		wg.Wait()
		for i, res := range results {
			all = append(all, res...)
			histories++
			steps += len(plans[i].hist)
		}
		if err := restore(); err != nil {
			ctx.ToolError("configuration %s: %v", cfg.Name, err)
		}
	}
	ctx.Extra["m3_random_histories"] = histories
	ctx.Extra["m3_random_steps"] = steps
	validateFresh(ctx, all)
}

// BuildCases turns a generated program into the inputs of an instance: its
// source files, 3-5 render cases (the generated entry with its data, two more
// templates with data satisfying their params, up to two cases whose data is
// spoiled so that the render is likely to fail midway) and the operations
// over them (renders first, then soyjs.Write per file, then EvalExpr).
func BuildCases(r *rand.Rand, p *core.Program, cfg Config) (in *Inputs, cases []RenderCase, ops []Op, nRender int) {
	if len(cfg.Fns) > 0 {
		// reach the custom function from the entry template
		t := p.Bundle[p.Entry]
		t.Body = append(t.Body, core.CPrint(core.EFn("vmax2", core.EInt(r.Intn(3)), core.EInt(1))))
	}
	for _, t := range sortedTmpls(p) {
		vary(r, t.Body)
	}
	// map- and list-valued globals (reference values owned by the compiled
	// bundle) through what takes a collection, at the end of the entry template
	p.Glob["GM_MAP"] = core.VMap(map[string]core.V{"k": core.VStr("g")})
	p.Glob["GL_LIST"] = core.VList(core.VInt(7), core.VInt(8))
	gm, gl := core.EGlobal("GM_MAP"), core.EGlobal("GL_LIST")
	lit := func(k string) core.E { return core.EMap(k, core.EInt(r.Intn(3))) }
	globalUses := []core.Cmd{
		core.CPrint(core.EFn("length", core.EFn("keys", core.EFn("augmentMap", lit("a"), gm)))),
		core.CPrint(core.EFn("length", core.EFn("keys", core.EFn("augmentMap", gm, lit("b"))))),
		core.CPrint(core.EFn("keys", gm)),
		core.CPrint(core.EFn("length", gl)),
		core.CForeach("foreach", "v", gl, []core.Cmd{core.CPrint(core.EVar("v"))}, core.Opt(false, nil)),
	}
	et := p.Bundle[p.Entry]
	for _, k := range r.Perm(len(globalUses))[:2+r.Intn(3)] {
		et.Body = append(et.Body, globalUses[k])
	}
	st := core.Style{Parens: r.Intn(2), Tight: r.Intn(3) == 0}
	files := core.UnparseProgram(p, st)

	var names []string
	for name := range p.Bundle {
		names = append(names, name)
	}
	sort.Strings(names)
	cases = []RenderCase{{p.Entry, p.Data}}
	for k := 0; k < 2; k++ {
		t := names[r.Intn(len(names))]
		cases = append(cases, RenderCase{t, dataFor(r, p.Bundle[t])})
	}
	for k := 0; k < 2; k++ {
		c := cases[r.Intn(len(cases))]
		if bad := spoil(r, p.Bundle[c.Entry], c.Data); bad != nil {
			cases = append(cases, RenderCase{c.Entry, bad})
		}
	}
	in = &Inputs{Files: files, Data: map[string]map[string]core.V{}, IJ: core.V{"t": "none"}, ExprSrc: exprPool[r.Intn(len(exprPool))], Globals: p.Glob}
	// the map-valued and list-valued names are ONE object wherever they occur:
	// the same nested map / list under different top-level data maps
	in.Shared = map[string]core.V{}
	for _, name := range []string{"m", "x"} {
		for _, c := range cases {
			if v, ok := c.Data[name]; ok && (v["t"] == "map" || v["t"] == "list") && nameType[name] == v["t"] {
				in.Shared[name] = v
				break
			}
		}
		if sv, ok := in.Shared[name]; ok {
			for _, c := range cases {
				if v, ok := c.Data[name]; ok && v["t"] == sv["t"] {
					c.Data[name] = sv
				}
			}
		}
	}
	for i, c := range cases {
		d := "d" + strconv.Itoa(i)
		in.Data[d] = c.Data
		ops = append(ops, Op{Op: "render", T: c.Entry, D: d})
	}
	nRender = len(ops)
	for _, f := range files {
		ops = append(ops, Op{Op: "genjs", F: f.Name})
	}
	ops = append(ops, Op{Op: "evalexpr"})
	return
}

func sortedTmpls(p *core.Program) []*core.Tmpl {
	var names []string
	for n := range p.Bundle {
		names = append(names, n)
	}
	sort.Strings(names)
	var ts []*core.Tmpl
	for _, n := range names {
		ts = append(ts, p.Bundle[n])
	}
	return ts
}

// directive lists that mix the marker directives (id, noAutoescape) with
// others before and after them, and the directives that add markup
var dirMixes = [][]core.Cmd{
	{core.CDir("noAutoescape"), core.CDir("truncate", core.EInt(30))},
	{core.CDir("truncate", core.EInt(5)), core.CDir("id")},
	{core.CDir("changeNewlineToBr")},
	{core.CDir("insertWordBreaks", core.EInt(3)), core.CDir("noAutoescape")},
	{core.CDir("id"), core.CDir("escapeUri")},
	{core.CDir("escapeHtml"), core.CDir("noAutoescape"), core.CDir("truncate", core.EInt(4), core.EBool(false))},
}

// vary rewrites, in place and with the seeded source, parts of a generated
// program towards what history dependence feeds on:
//   - a {call data="$m"} gets a data expression that is NOT a plain reference
//     but evaluates to the same map of the caller ($m ?: $m, true ? $m : $m),
//     so that the explicit params of the call sit next to a caller-owned map;
//   - a print gets one of dirMixes.
//
// The language semantics of the program is unchanged for the first kind and
// defined by SoyDirectives for the second.
func vary(r *rand.Rand, cmds []core.Cmd) {
	for _, c := range cmds {
		switch c["k"] {
		case "call":
			if c["data"] == "expr" {
				de := c["de"].(core.E)
				switch r.Intn(4) {
				case 0:
					c["de"] = core.EBin("elvis", de, de)
				case 1:
					c["de"] = core.ETern(core.EBool(true), de, de)
				case 2:
					// a function result that is (by value) the caller's map
					c["de"] = core.EFn("augmentMap", de, core.EMap())
				}
			}
		case "print":
			if r.Intn(4) == 0 {
				c["dirs"] = dirMixes[r.Intn(len(dirMixes))]
			}
		}
		for _, key := range []string{"body", "params"} {
			if b, ok := c[key].([]core.Cmd); ok {
				vary(r, b)
			}
		}
		for _, key := range []string{"brs", "cases"} {
			if b, ok := c[key].([]core.Cmd); ok {
				for _, x := range b {
					if bb, ok := x["body"].([]core.Cmd); ok {
						vary(r, bb)
					}
				}
			}
		}
		for _, key := range []string{"els", "def", "empty"} {
			if o, ok := c[key].(core.Cmd); ok {
				if bb, ok := o["body"].([]core.Cmd); ok {
					vary(r, bb)
				}
			}
		}
	}
}

// plan is one generated bundle with its render cases and a history over it.
type plan struct {
	cfg   Config
	prog  *core.Program
	in    *Inputs
	cases []RenderCase
	ops   []Op
	hist  []Op
}

// planHistory draws a bundle, its cases and a history of 10-30 operations:
// every render case several times, interleaved with failing renders, JS
// generation of each file and EvalExpr.
func planHistory(r *rand.Rand, cfg Config) *plan {
	g := &core.ProgGen{R: r, MaxDepth: 1 + r.Intn(3)}
	p := g.Gen()
	in, cases, ops, nRender := BuildCases(r, p, cfg)
	L := 10 + r.Intn(21)
	hist := make([]Op, L)
	for i := range hist {
		switch k := r.Intn(20); {
		case k < 14:
			hist[i] = ops[r.Intn(nRender)]
		case k < 18:
			hist[i] = ops[nRender+r.Intn(len(in.Files))]
		default:
			hist[i] = ops[len(ops)-1]
		}
	}
	return &plan{cfg, p, in, cases, ops, hist}
}

// runPlan runs the history on one compiled bundle and returns the fresh
// outcomes of the render cases, to be validated by TLC.
func runPlan(ctx *core.Ctx, pl *plan, sample bool) []traced {
	in, cfg, files := pl.in, pl.cfg, pl.in.Files
	fresh, muts, err := FreshOutcomesDiff(in, pl.ops, true)
	if err != nil {
		ctx.ToolError("generated bundle rejected by the compiler (generator problem): %v\n%s", err, files[0].Text)
		return nil
	}
	var out []traced
	for i, c := range pl.cases {
		q := *pl.prog
		q.Entry, q.Data = c.Entry, c.Data
		out = append(out, traced{cfg, &q, fresh[pl.ops[i].Key()], in, pl.cases, muts[pl.ops[i].Key()], pl.ops[i]})
	}
	inst, err := NewInstance(in)
	if err != nil {
		ctx.ToolError("compile: %v", err)
		return nil
	}
	f := runHistory("history", inst, pl.hist, nil, fresh)
	ctx.AddEvals(int64(len(pl.hist)))
	ctx.AddTraces(1)
	var steps []Step
	for _, o := range pl.hist {
		steps = append(steps, Step{Op: o})
	}
	ctx.Distinct(cfg.Name + "/" + files[0].Text + histKey(steps))
	if sample {
		ctx.Sample(map[string]interface{}{"cfg": cfg, "files": files, "cases": pl.cases, "history": pl.hist})
	}
	if f != nil {
		ctx.Violation(f.sig, "configuration "+cfg.Name+": "+f.what,
			RandomReplay{HistoryReplay{Kind: "history", Family: "history", Cfg: cfg, Inputs: in, History: steps,
				FailedAt: f.step + 1, What: f.what, Observed: f.obs, Fresh: f.fresh, Diff: f.diff}, pl.cases})
	}
	return out
}

// ProgJSON is the program in the JSON form the trace specs read, with the
// configuration attached.
func ProgJSON(p *core.Program, cfg *Config) (map[string]interface{}, error) {
	b, err := json.Marshal(p)
	if err != nil {
		return nil, err
	}
	var m map[string]interface{}
	if err := json.Unmarshal(b, &m); err != nil {
		return nil, err
	}
	if cfg != nil {
		m["cfg"] = map[string]interface{}{"oblig": cfg.Oblig, "fns": cfg.Fns}
	}
	return m, nil
}

// validateFresh has TLC run the reference interpreter on every render case
// (under its configuration) and compares with what the real code did on a
// fresh bundle; the cases without extensions also go through
// ctx.ValidateProgTrace (SoyExec itself).
func validateFresh(ctx *core.Ctx, all []traced) {
	if len(all) == 0 {
		return
	}
	var buf bytes.Buffer
	for i := range all {
		t := &all[i]
		m, err := ProgJSON(t.prog, &t.cfg)
		if err != nil {
			ctx.ToolError("%v", err)
			return
		}
		b, _ := json.Marshal(map[string]interface{}{"prog": m, "obs": map[string]interface{}{"err": t.obs.Err, "out": t.obs.Out}})
		buf.Write(b)
		buf.WriteByte('\n')
	}
	cfg := "CONSTANT Dev = {}\nINIT TInit\nNEXT TNext\nINVARIANT Report\nCHECK_DEADLOCK FALSE\n"
	res, err := ctx.RunTLC(core.TLCOpts{Module: "SoyBundleTrace", Cfg: cfg, Files: map[string][]byte{"bundle_trace.ndjson": buf.Bytes()},
		Workers: 1, Timeout: 9 * time.Minute, Label: "fresh-renders-vs-spec"})
	if err != nil {
		ctx.ToolError("trace validation: %v", err)
		return
	}
	done := false
	bad := map[int][2]string{}
	for _, t := range res.Tuples {
		if m := reBadB.FindStringSubmatch(t); m != nil {
			i, _ := strconv.Atoi(m[1])
			var o struct{ Out string }
			json.Unmarshal([]byte(core.TLAUnquote(m[3])), &o)
			bad[i-1] = [2]string{m[2], o.Out}
		} else if m := reDoneB.FindStringSubmatch(t); m != nil {
			done = true
			lines, _ := strconv.Atoi(m[1])
			skipped, _ := strconv.Atoi(m[3])
			if lines != len(all) {
				done = false
			}
			ctx.AddTraces(int64(lines - skipped))
			ctx.Extra["m3_fresh_renders_validated"] = lines - skipped
			ctx.Extra["m3_fresh_renders_unspec"] = skipped
		}
	}
	if !done {
		ctx.ToolError("trace validation did not consume the whole trace (%d lines): %s", len(all), trunc(res.Stdout, 600))
		return
	}
	report := func(i int, status, out, via string) {
		t := all[i]
		sig := core.Sig{Family: "history", Feature: "fresh-outcome-differs-from-spec:render"}
		why := ""
		if t.mut != nil {
			// the render changed the shared tree while running: that, not the
			// language semantics, is what this case shows
			sig.Feature = "shared-state-mutated:" + t.mut.Own
			why = fmt.Sprintf("; the render changed %s: %s -> %s", t.mut.Path, t.mut.Before, t.mut.After)
		}
		what := fmt.Sprintf("configuration %s, %s, fresh bundle: real err=%v out=%q (%s); spec (%s): status=%s out=%q%s", t.cfg.Name, t.prog.Entry, t.obs.Err, t.obs.Out, t.obs.ErrText, via, status, out, why)
		// replayable as a history of one step with the specification's expectation
		ctx.Violation(sig, what,
			RandomReplay{HistoryReplay{Kind: "history", Family: "history", Cfg: t.cfg, Inputs: t.inputs,
				History: []Step{{Op: t.op, St: status, Out: out}}, FailedAt: 1, What: what, Observed: t.obs, Diff: t.mut}, t.cases})
	}
	for i := range all {
		if e, isBad := bad[i]; isBad {
			report(i, e[0], e[1], "SoyBundleTrace")
		}
	}
	// the same through SoyExec itself for the configuration without extensions
	var plain []*core.ProgCase
	var idx []int
	for i := range all {
		if all[i].cfg.Name == "none" {
			t := all[i]
			plain = append(plain, &core.ProgCase{Family: "history", Prog: t.prog, Files: t.inputs.Files,
				Obs: core.Obs{Err: t.obs.Err, Out: t.obs.Out, ErrText: t.obs.ErrText}})
			idx = append(idx, i)
		}
	}
	if len(plain) > 0 {
		bad2, _, err := ctx.ValidateProgTrace(plain, "")
		if err != nil {
			ctx.ToolError("%v", err)
			return
		}
		for k, e := range bad2 {
			if _, dup := bad[idx[k]]; !dup {
				report(idx[k], e[0], e[1], "SoyExec")
			}
		}
	}
}

// genRefineProgs returns n generated programs as NDJSON lines {"prog": ...}.
func GenRefineProgs(seed int64, n int) []byte {
	r := rand.New(rand.NewSource(seed + 7919))
	var buf bytes.Buffer
	for i := 0; i < n; i++ {
		g := &core.ProgGen{R: r, MaxDepth: 1 + r.Intn(3)}
		b, _ := json.Marshal(map[string]interface{}{"prog": g.Gen()})
		buf.Write(b)
		buf.WriteByte('\n')
	}
	return buf.Bytes()
}
