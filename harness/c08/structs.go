package c08

import (
	"bytes"
	"encoding/json"
	"fmt"
	"os"
	"os/exec"
	"reflect"
	"sort"
	"strings"
	"unicode"
	"unicode/utf8"

	"verif/core"
)

// Struct-data histories. Tofu.Render accepts any Go value as data and
// converts structs through the process-wide converter (data.New,
// DefaultStructOptions). The values below are of DISTINCT struct types whose
// reflect.Type.String() coincide ("c08.Row": types of the same name declared
// in different functions), with different field sets, field orders, an
// unexported field, nested same-named types and a pointer. Every order of
// rendering them is a history; the output for a value must not depend on which
// other values were rendered before it in the process.
//
// Expectations: (1) the render of the equivalent data.Map (field set computed
// here by reflection) on a fresh bundle, itself validated by TLC; (2) the
// render of the same struct value as the FIRST conversion ever done in a fresh
// child process. (2) differing = history dependence through process-wide
// state; (1) differing while (2) agrees with the observation = the conversion
// itself is not what the rules say (C20's domain), reported as such.

func rowA() interface{} {
	type Row struct {
		Title string
		Count int
	}
	return Row{"Q3", 7}
}

func rowB() interface{} {
	type Row struct {
		Name  string
		Total int
	}
	return Row{"ACME", 3}
}

func rowC() interface{} {
	type Row struct {
		Count int
		Title string
		Flag  bool
	}
	return Row{9, "<late>", true}
}

func rowD() interface{} {
	type Row struct {
		Name   string
		hidden int
		Tags   []string
	}
	return Row{"d&d", 5, []string{"x", "y"}}
}

func rowE() interface{} {
	type Inner struct{ Title string }
	type Row struct {
		Title string
		Inner Inner
	}
	return Row{"outer", Inner{"in-title"}}
}

func rowF() interface{} {
	type Inner struct{ Name string }
	type Row struct {
		Name  string
		Total int
		Inner Inner
	}
	return &Row{"ptr", 1, Inner{"in-name"}}
}

var structValues = []struct {
	name string
	make func() interface{}
}{{"rowA", rowA}, {"rowB", rowB}, {"rowC", rowC}, {"rowD", rowD}, {"rowE", rowE}, {"rowF", rowF}}

// reflV is the value the conversion rules give (exported fields, lowerCamel
// keys), in the spec's encoding.
func reflV(v reflect.Value) core.V {
	for v.Kind() == reflect.Ptr || v.Kind() == reflect.Interface {
		v = v.Elem()
	}
	switch v.Kind() {
	case reflect.String:
		return core.VStr(v.String())
	case reflect.Int:
		return core.VInt(int(v.Int()))
	case reflect.Bool:
		return core.VBool(v.Bool())
	case reflect.Slice:
		xs := []core.V{}
		for i := 0; i < v.Len(); i++ {
			xs = append(xs, reflV(v.Index(i)))
		}
		return core.VList(xs...)
	case reflect.Struct:
		m := map[string]core.V{}
		for i := 0; i < v.NumField(); i++ {
			f := v.Type().Field(i)
			if f.PkgPath != "" { // unexported
				continue
			}
			r, size := utf8.DecodeRuneInString(f.Name)
			m[string(unicode.ToLower(r))+f.Name[size:]] = reflV(v.Field(i))
		}
		return core.VMap(m)
	}
	panic("reflV: unsupported kind " + v.Kind().String())
}

// structProgram is the bundle of the family: one template that shows every
// key any of the values can have.
func structProgram() *core.Program {
	opt := func(names ...string) []core.Param {
		var ps []core.Param
		for _, n := range names {
			ps = append(ps, core.Param{Name: n, Opt: true})
		}
		return ps
	}
	show := func(name string) core.Cmd { return core.CPrint(core.EBin("elvis", core.EVar(name), core.EStr("-"))) }
	in := func(key string) core.Cmd {
		return core.CPrint(core.EBin("elvis", core.EVar("inner", core.AKey(key, true)), core.EStr("~")))
	}
	body := []core.Cmd{show("title"), core.CText("|"), show("count"), core.CText("|"), show("name"), core.CText("|"), show("total"),
		core.CText("|"), show("flag"), core.CText("|"), show("hidden"), core.CText("|"),
		core.CForeach("foreach", "i", core.EBin("elvis", core.EVar("tags"), core.EList()), []core.Cmd{core.CPrint(core.EVar("i")), core.CText(",")}, core.Opt(true, []core.Cmd{core.CText("none")})),
		core.CText("|"), in("title"), core.CText("/"), in("name")}
	return &core.Program{
		Bundle:  map[string]*core.Tmpl{"s.row": {Params: opt("title", "count", "name", "total", "flag", "hidden", "tags", "inner"), Body: body}},
		Entry:   "s.row",
		Glob:    map[string]core.V{},
		IJ:      core.V{"t": "none"},
		Plan:    map[string]interface{}{"kind": "none"},
		Aliases: map[string]bool{},
	}
}

func structInputs() (*core.Program, *Inputs) {
	p := structProgram()
	in := &Inputs{Files: core.UnparseProgram(p, core.Style{}), Data: map[string]map[string]core.V{}, IJ: core.V{"t": "none"}}
	for _, sv := range structValues {
		in.Data[sv.name] = reflV(reflect.ValueOf(sv.make()))["v"].(map[string]core.V)
	}
	return p, in
}

func renderObj(inst *Instance, name string) (obs Obs) {
	defer func() {
		if r := recover(); r != nil {
			obs.Err, obs.Panicked, obs.ErrText = true, true, fmt.Sprintf("PANIC: %v", r)
		}
	}()
	var mk func() interface{}
	for _, sv := range structValues {
		if sv.name == name {
			mk = sv.make
		}
	}
	if mk == nil {
		return Obs{Err: true, ErrText: "harness: no such value " + name}
	}
	var buf bytes.Buffer
	err := inst.Comp.Tofu.Render(&buf, "s.row", mk())
	obs.Out = buf.String()
	if err != nil {
		obs.Err, obs.ErrText = true, err.Error()
	}
	return obs
}

// StructFirstChild is the child process: render value name as the first
// conversion of the process and print the outcome.
func StructFirstChild(name string) {
	_, in := structInputs()
	inst, err := NewInstance(in)
	if err != nil {
		fmt.Println(`{"err":true,"errText":"compile"}`)
		os.Exit(0)
	}
	b, _ := json.Marshal(renderObj(inst, name))
	fmt.Println(string(b))
	os.Exit(0)
}

// runStructHistory performs one history of struct renders on one fresh bundle.
func runStructHistory(in *Inputs, names []string, byMap map[string]Obs, first map[string]Obs) *failure {
	inst, err := NewInstance(in)
	if err != nil {
		return &failure{0, core.Sig{Family: "history", Feature: "harness"}, "compile: " + err.Error(), Obs{}, nil, nil}
	}
	shared := DigestOf(inst.SharedRoots()...)
	sharedH := FastHash(inst.SharedRoots()...)
	for i, n := range names {
		obs := renderObj(inst, n)
		if FastHash(inst.SharedRoots()...) != sharedH {
			d := FirstDiff(shared, DigestOf(inst.SharedRoots()...))
			if d == nil {
				d = &Diff{Path: "?", Own: "?"}
			}
			return &failure{i, core.Sig{Family: "history", Feature: "shared-state-mutated:" + d.Own},
				fmt.Sprintf("step %d (Tofu.Render of struct %s) changed shared state: %s: %s -> %s", i+1, n, d.Path, d.Before, d.After), obs, nil, d}
		}
		exp := byMap[n]
		same := func(a, b Obs) bool { return a.Err == b.Err && a.Out == b.Out }
		if same(obs, exp) {
			continue
		}
		fr, hasFirst := first[n]
		feat := "output-depends-on-history:render-struct"
		why := fmt.Sprintf("as the first conversion of a fresh process it gives err=%v %q", fr.Err, fr.Out)
		if obs.Panicked {
			feat = "panic:render-struct"
		} else if hasFirst && same(obs, fr) {
			feat = "fresh-outcome-differs-from-spec:render-struct"
		}
		return &failure{i, core.Sig{Family: "history", Feature: feat},
			fmt.Sprintf("step %d: Tofu.Render with struct %s (type %T) after %v gives err=%v %q (%s); the same data as a map gives err=%v %q; %s",
				i+1, n, valueOf(n), names[:i], obs.Err, obs.Out, obs.ErrText, exp.Err, exp.Out, why), obs, &fr, nil}
	}
	return nil
}

func valueOf(name string) interface{} {
	for _, sv := range structValues {
		if sv.name == name {
			return sv.make()
		}
	}
	return nil
}

// StructHistories replays every sequence of length L over the struct values.
// It returns the map-equivalent renders for validation by TLC.
func StructHistories(ctx *core.Ctx, L int) []traced {
	// precondition of the family: distinct types that print alike
	seen := map[reflect.Type]bool{}
	for _, sv := range structValues {
		t := reflect.TypeOf(sv.make())
		for t.Kind() == reflect.Ptr {
			t = t.Elem()
		}
		if seen[t] || t.String() != "c08.Row" {
			ctx.ToolError("struct family: %s has type %v (%s): expected distinct types all printed c08.Row", sv.name, t, t.String())
			return nil
		}
		seen[t] = true
	}
	p, in := structInputs()
	var ops []Op
	for _, sv := range structValues {
		ops = append(ops, Op{Op: "render", T: "s.row", D: sv.name})
	}
	byMapK, err := FreshOutcomes(in, ops)
	if err != nil {
		ctx.ToolError("struct family: bundle rejected: %v\n%s", err, in.Files[0].Text)
		return nil
	}
	byMap := map[string]Obs{}
	var out []traced
	none, _ := ConfigByName("none")
	for i, sv := range structValues {
		byMap[sv.name] = byMapK[ops[i].Key()]
		q := *p
		q.Data = in.Data[sv.name]
		out = append(out, traced{none, &q, byMap[sv.name], in, nil, nil, ops[i]})
	}
	// each value as the first conversion of a fresh process
	first := map[string]Obs{}
	for _, sv := range structValues {
		cmd := exec.Command(os.Args[0], ctx.Tier, "--c08-struct-first", sv.name)
		b, err := cmd.Output()
		var o Obs
		if err != nil || json.Unmarshal(bytes.TrimSpace(b), &o) != nil {
			ctx.ToolError("struct family: child for %s failed: %v %s", sv.name, err, trunc(string(b), 200))
			return out
		}
		first[sv.name] = o
	}
	// all sequences of length L
	n := len(structValues)
	total := 1
	for i := 0; i < L; i++ {
		total *= n
	}
	for h := 0; h < total; h++ {
		names := make([]string, L)
		for i, x := 0, h; i < L; i++ {
			names[i] = structValues[x%n].name
			x /= n
		}
		f := runStructHistory(in, names, byMap, first)
		ctx.AddEvals(int64(L))
		ctx.AddTraces(1)
		if distinctNames(names) > 1 {
			ctx.Distinct("struct/" + strings.Join(names, ","))
		}
		if h == total/2 {
			ctx.Sample(map[string]interface{}{"structHistory": names, "files": in.Files, "expected": byMap})
		}
		if f != nil {
			var steps []Step
			for _, nm := range names {
				steps = append(steps, Step{Op: Op{Op: "renderobj", T: "s.row", D: nm}})
			}
			ctx.Violation(f.sig, f.what, HistoryReplay{Kind: "struct-history", Family: "history", Cfg: none, Inputs: in, History: steps,
				FailedAt: f.step + 1, What: f.what, Observed: f.obs, Fresh: f.fresh, Diff: f.diff})
		}
	}
	ctx.Extra["struct_histories"] = total
	return out
}

func distinctNames(xs []string) int {
	s := append([]string{}, xs...)
	sort.Strings(s)
	n := 0
	for i := range s {
		if i == 0 || s[i] != s[i-1] {
			n++
		}
	}
	return n
}
