package c08

import (
	"bytes"
	"encoding/json"
	"fmt"
	"log"
	"os"
	"os/exec"
	"path/filepath"

	"github.com/robfig/soy/soyhtml"

	"verif/core"
)

// The switch family: the embedder changes the configuration BETWEEN the
// operations of a history - obligatory directive list (other names of the same
// length, reordered, emptied, restored), a directive or a function replaced by
// another implementation under the same name, the logger, the injected data and
// the catalogue given to the Renderer. A render must depend on the
// configuration in force only: it is compared with the model
// (SoyBundle, CfgName = "switch") and with the same render done as the first
// thing in a FRESH PROCESS under that configuration alone. Configuration is
// process-wide state, so these histories run one after the other.

// SwitchReplay is the replay case of a switch history.
type SwitchReplay struct {
	HistoryReplay
	Switch []Config `json:"switch"`
	IJB    core.V   `json:"ijb"`
}

type cfgFirstJob struct {
	Cfg    Config  `json:"cfg"`
	Inputs *Inputs `json:"inputs"`
	IJB    core.V  `json:"ijb"`
	Op     Op      `json:"op"`
}

var switchLog bytes.Buffer

// applyCfg installs c (registries, logger) and sets what the Renderer of inst
// is given; it returns the undo function.
func applyCfg(c Config, inst *Instance, ijA map[string]core.V, ijb core.V) (func() error, error) {
	restore, err := Install(c)
	if err != nil {
		return nil, err
	}
	switchLog.Reset()
	soyhtml.Logger = log.New(&switchLog, "["+c.Name+"] ", 0)
	inst.NoMsgs = c.NoMsgs
	if c.IJ == "b" && ijb != nil {
		inst.IJ = core.ToDataMap(ijb["v"])
	} else if ijA != nil {
		inst.IJ = core.ToDataMap(ijA)
	}
	return func() error {
		soyhtml.Logger = nil
		return restore()
	}, nil
}

func ijMap(in *Inputs) map[string]core.V {
	if in.IJ != nil && in.IJ["t"] == "map" {
		switch m := in.IJ["v"].(type) {
		case map[string]core.V:
			return m
		case map[string]interface{}:
			r := map[string]core.V{}
			for k, v := range m {
				r[k] = v.(core.V)
			}
			return r
		}
	}
	return nil
}

func doLogged(inst *Instance, o Op) Obs {
	switchLog.Reset()
	obs := inst.Do(o)
	obs.Log = switchLog.String()
	return obs
}

// CfgFirstChild is the child process: one operation as the first thing done
// in the process, under one configuration.
func CfgFirstChild(path string) {
	b, err := os.ReadFile(path)
	var job cfgFirstJob
	if err == nil {
		err = json.Unmarshal(b, &job)
	}
	if err != nil {
		fmt.Println(`{"err":true,"errText":"harness: bad job"}`)
		os.Exit(0)
	}
	inst, err := NewInstance(job.Inputs)
	if err != nil {
		fmt.Println(`{"err":true,"errText":"harness: compile"}`)
		os.Exit(0)
	}
	if _, err := applyCfg(job.Cfg, inst, ijMap(job.Inputs), job.IJB); err != nil {
		fmt.Println(`{"err":true,"errText":"harness: install"}`)
		os.Exit(0)
	}
	out, _ := json.Marshal(doLogged(inst, job.Op))
	fmt.Println(string(out))
	os.Exit(0)
}

// freshProcessOutcomes: every (configuration, render) in its own process.
func freshProcessOutcomes(ctx *core.Ctx, setup *Setup, ops []Op) (map[string]Obs, error) {
	dir := filepath.Join(core.VerifDir, "out", "c08", fmt.Sprint(os.Getpid()))
	if err := os.MkdirAll(dir, 0o755); err != nil {
		return nil, err
	}
	defer os.RemoveAll(dir)
	res := map[string]Obs{}
	type job struct {
		key  string
		path string
	}
	var jobs []job
	for _, c := range setup.Switch {
		for _, o := range ops {
			j := cfgFirstJob{c, setup.Inputs, setup.IJB, o}
			b, _ := json.Marshal(j)
			p := filepath.Join(dir, fmt.Sprintf("job%d.json", len(jobs)))
			if err := os.WriteFile(p, b, 0o644); err != nil {
				return nil, err
			}
			jobs = append(jobs, job{c.Name + "/" + o.Key(), p})
		}
	}
	type done struct {
		key string
		obs Obs
		err error
	}
	ch := make(chan done, len(jobs))
	sem := make(chan struct{}, 8)
	for _, j := range jobs {
		j := j
		go func() {
			sem <- struct{}{}
			defer func() { <-sem }()
			out, err := exec.Command(os.Args[0], ctx.Tier, "--c08-cfg-first", j.path).Output()
			var o Obs
			if err == nil {
				err = json.Unmarshal(bytes.TrimSpace(out), &o)
			}
			ch <- done{j.key, o, err}
		}()
	}
	for range jobs {
		d := <-ch
		if d.err != nil {
			return nil, fmt.Errorf("child for %s: %v", d.key, d.err)
		}
		res[d.key] = d.obs
	}
	return res, nil
}

// runSwitchHistory performs one history; start is the configuration in force
// at its beginning.
func runSwitchHistory(setup *Setup, start Config, h []Step, fresh map[string]Obs) *failure {
	inst, err := NewInstance(setup.Inputs)
	if err != nil {
		return &failure{0, core.Sig{Family: "history", Feature: "harness"}, "compile: " + err.Error(), Obs{}, nil, nil}
	}
	ijA := ijMap(setup.Inputs)
	byName := map[string]Config{}
	for _, c := range setup.Switch {
		byName[c.Name] = c
	}
	cur := start
	undo, err := applyCfg(cur, inst, ijA, setup.IJB)
	if err != nil {
		return &failure{0, core.Sig{Family: "history", Feature: "harness"}, "install: " + err.Error(), Obs{}, nil, nil}
	}
	defer func() { undo() }()
	var shared, caller *Digest
	var sharedH, callerH uint64
	snap := func() {
		shared, caller = DigestOf(inst.SharedRoots()...), DigestOf(inst.CallerRoots()...)
		sharedH, callerH = FastHash(inst.SharedRoots()...), FastHash(inst.CallerRoots()...)
	}
	snap()
	for i := range h {
		o := h[i].Op
		if o.Op == "setcfg" {
			// the embedder's act: registries, logger and Renderer inputs change here, by design
			if err := undo(); err != nil {
				return &failure{i, core.Sig{Family: "history", Feature: "harness"}, err.Error(), Obs{}, nil, nil}
			}
			cur = byName[o.C]
			if undo, err = applyCfg(cur, inst, ijA, setup.IJB); err != nil {
				return &failure{i, core.Sig{Family: "history", Feature: "harness"}, "install: " + err.Error(), Obs{}, nil, nil}
			}
			snap()
			continue
		}
		cp := inst.copyCaller()
		obs := doLogged(inst, o)
		var fr *Obs
		if f, ok := fresh[cur.Name+"/"+o.Key()]; ok {
			fr = &f
		}
		if FastHash(inst.SharedRoots()...) != sharedH {
			d := FirstDiff(shared, DigestOf(inst.SharedRoots()...))
			if d == nil {
				d = &Diff{Path: "?", Own: "?"}
			}
			return &failure{i, core.Sig{Family: "history", Feature: "shared-state-mutated:" + d.Own},
				fmt.Sprintf("step %d (%s under configuration %s) changed shared state: %s: %s -> %s", i+1, o.Key(), cur.Name, d.Path, d.Before, d.After), obs, fr, d}
		}
		if w := inst.changed(cp); w != "" || FastHash(inst.CallerRoots()...) != callerH {
			if w == "" {
				w = "value"
			}
			return &failure{i, core.Sig{Family: "history", Feature: "caller-value-mutated:" + w},
				fmt.Sprintf("step %d (%s under configuration %s) changed the caller's %s", i+1, o.Key(), cur.Name, w), obs, fr, FirstDiff(caller, DigestOf(inst.CallerRoots()...))}
		}
		if w := judge(o, obs, &h[i], fr); w != "" {
			feat := "output-depends-on-earlier-configuration:" + o.Op
			if obs.Panicked {
				feat = "panic:" + o.Op
			} else if fr != nil && fr.Err == obs.Err && fr.Out == obs.Out && fr.Log == obs.Log {
				feat = "fresh-outcome-differs-from-spec:" + o.Op
			}
			return &failure{i, core.Sig{Family: "history", Feature: feat},
				fmt.Sprintf("step %d (%s) under configuration %s (after %s): %s", i+1, o.Key(), cur.Name, histKey(h[:i]), w), obs, fr, nil}
		}
	}
	return nil
}

// SwitchHistories explores and replays the switch family.
func SwitchHistories(ctx *core.Ctx, setup *Setup, hists [][]Step) {
	if len(setup.Switch) < 2 {
		ctx.ToolError("switch family: the model exported no configurations")
		return
	}
	var ops []Op
	seen := map[string]bool{}
	for _, h := range hists {
		for _, s := range h {
			if s.Op.Op != "setcfg" && !seen[s.Op.Key()] {
				seen[s.Op.Key()] = true
				ops = append(ops, s.Op)
			}
		}
	}
	fresh, err := freshProcessOutcomes(ctx, setup, ops)
	if err != nil {
		ctx.ToolError("switch family: %v", err)
		return
	}
	start := setup.Switch[1] // SoyBundle!Cfg0 of the switch family
	ctx.Sample(map[string]interface{}{"switchConfigurations": setup.Switch, "history": hists[len(hists)/2]})
	skipped := 0
	for _, h := range hists {
		hasRender := false
		for _, s := range h {
			if s.Op.Op != "setcfg" {
				hasRender = true
			}
		}
		if !hasRender { // nothing to observe
			skipped++
			continue
		}
		f := runSwitchHistory(setup, start, h, fresh)
		ctx.AddEvals(int64(len(h)))
		ctx.AddTraces(1)
		renders, cfgs := 0, 0
		for _, s := range h {
			if s.Op.Op == "setcfg" {
				cfgs++
			} else {
				renders++
			}
		}
		if renders > 0 && cfgs > 0 {
			ctx.Distinct("switch/" + histKey(h))
		}
		if f != nil {
			ctx.Violation(f.sig, f.what, SwitchReplay{HistoryReplay{Kind: "switch-history", Family: "history", Cfg: start, Inputs: setup.Inputs, History: h,
				FailedAt: f.step + 1, What: f.what, Observed: f.obs, Fresh: f.fresh, Diff: f.diff}, setup.Switch, setup.IJB})
		}
	}
	ctx.Extra["switch_histories"] = len(hists) - skipped
	ctx.Extra["switch_histories_without_render_skipped"] = skipped
}
