// Package c09 addresses property C09 (exploration level): one compiled bundle
// rendered from many goroutines at once is free of data races, and every
// concurrent render writes the bytes it writes alone.
//
// SoyConcurrent.tla: G renders over one shared tree, node steps atomic, TLC
// explores every interleaving, shows NonInterference/ReadOnlySharing for the
// reference (and their failure under the deviations obligatory_append and
// memo_cache) and exports every schedule with each render's expected bytes.
// The harness FORCES each schedule on the real code through the blocking
// VerifAt hook, runs seed-sampled schedules over generated bundles, and runs
// free (unscheduled) stress under the Go race detector, which is the monitor
// for data races. All concurrent use of robfig/soy happens in child processes
// of this binary whose race-detector log is parsed.
package c09

import (
	"bytes"
	"encoding/json"
	"fmt"
	"os"
	"os/exec"
	"path/filepath"
	"sort"
	"strconv"
	"strings"
	"sync"
	"time"

	"verif/c08"
	"verif/core"
)

// Run is the entry point for C09 (and of its child processes).
func Run(ctx *core.Ctx) {
	for i, a := range os.Args {
		if a == "--c09-child" && i+2 < len(os.Args) {
			RunChild(os.Args[i+1], os.Args[i+2]) // never returns
		}
	}
	ctx.Rule = "cases: (a) forced schedules: for every group of 2 render cases (5 cases over a 4-template bundle, 1-6 node steps each; groups of 3 over the smallest cases) and each of the configurations none / obligatory directive, " +
		"EVERY interleaving of node steps, exported by TLC with each render's expected bytes and forced on one freshly compiled bundle through the blocking VerifAt hook; " +
		"(b) seed-sampled schedules of 2-3 concurrent renders over core.ProgGen bundles under the 4 registry configurations, expected = the render alone on a fresh bundle, itself validated by TLC; " +
		"(c) free-running stress, G goroutines x R renders over generated bundles sharing one Tofu, the data maps and one message catalogue, then concurrent soyjs.Write on the same registry, then concurrent compilation of independent bundles, all under the Go race detector. " +
		"non-trivial = a schedule with at least 2 switches between goroutines, or a stress run; distinct by configuration + cases + schedule (a, b) or source text (c)"
	ctx.Assumptions = append(ctx.Assumptions,
		"data races are defined by the Go memory model and observed by the race detector on the executions that happen (exploration, not proof); a report counts when one of its two access stacks lies in github.com/robfig/soy",
		"a forced schedule serialises node steps through channels, which orders them for the race detector: forced runs decide bytes, free-running runs decide races",
		"expected bytes = SoyExec.tla run as a function (SoyBundleRun.tla, tied to SoyExec by C08's refinement run)",
		"free-running stress is schedule dependent by nature: its verdicts (race reports, byte mismatches) are observations of the real code, its coverage is not reproducible run to run")
	ctx.Trusted = append(ctx.Trusted, "Go race detector", "Go harness (scheduler gate, race log parser, digest walker)", "TLC")
	ctx.Extra["race_detector"] = RaceEnabled
	if !RaceEnabled {
		ctx.Assumptions = append(ctx.Assumptions, "THIS RUN WAS BUILT WITHOUT -race: only schedule forcing and byte comparison were done")
	}

	if ctx.ReplayPath != "" {
		replayFile(ctx)
		return
	}

	var wg sync.WaitGroup
	var mu sync.Mutex
	var outs []*ChildOutput
	collect := func(o *ChildOutput) {
		if o != nil {
			mu.Lock()
			outs = append(outs, o)
			mu.Unlock()
		}
	}
	bg := func(f func()) {
		wg.Add(1)
		go func() { defer wg.Done(); f() }()
	}

	// (c) free-running stress and (b) sampled schedules need nothing from TLC
	bg(func() {
		collect(runChild(ctx, &ChildInput{Phase: "stress", Seed: ctx.Seed, G: 16, R: 200, StressBundles: ctx.Pick(16, 300)}))
	})
	bg(func() {
		collect(runChild(ctx, &ChildInput{Phase: "forced", Seed: ctx.Seed, RandBundles: ctx.Pick(60, 1200), RandPerGroup: ctx.Pick(12, 20)}))
	})

	// M1 deviations: the invariants are not vacuous
	selftest := map[string]string{}
	var devRuns []func()
	for _, d := range []struct{ dev, cfg, prop, kind string }{
		{"obligatory_append", "oblig", "NonInterference", "INVARIANT"},
		{"obligatory_append", "oblig", "ReadOnlySharing", "PROPERTY"},
		{"memo_cache", "none", "NonInterference", "INVARIANT"},
		{"memo_cache", "none", "ReadOnlySharing", "PROPERTY"},
		{"callee_params_into_shared_map", "none", "NonInterference", "INVARIANT"},
		{"callee_params_into_shared_map", "none", "ReadOnlySharing", "PROPERTY"},
	} {
		d := d
		devRuns = append(devRuns, func() {
			cfg := fmt.Sprintf("CONSTANT Dev = {\"%s\"}\nCONSTANT CfgName = \"%s\"\nCONSTANT GSize = 2\nCONSTANT Small = {2, 5}\nINIT Init\nNEXT Next\n%s %s\nCHECK_DEADLOCK FALSE\n", d.dev, d.cfg, d.kind, d.prop)
			res, err := ctx.RunTLC(core.TLCOpts{Module: "SoyConcurrent", Cfg: cfg, Workers: 1, Timeout: 3 * time.Minute, Label: "deviation:" + d.dev + "/" + d.prop})
			if err != nil {
				ctx.ToolError("deviation run %s: %v", d.dev, err)
				return
			}
			mu.Lock()
			defer mu.Unlock()
			if res.Violated != d.prop {
				selftest[d.dev+"/"+d.prop] = "NOT violated"
				ctx.ToolError("deviation %s does not violate %s (violated=%q): the property is vacuous", d.dev, d.prop, res.Violated)
				return
			}
			selftest[d.dev+"/"+d.prop] = "violated, as required"
		})
	}
	// one after the other: they are tiny, and the JVMs of the reference runs
	// should have the cores
	bg(func() {
		for _, f := range devRuns {
			f()
		}
	})

	// M1 reference + M2 export, then (a) forced schedules per family
	type fam struct {
		cfg string
		g   int
	}
	fams := []fam{{"none", 2}, {"oblig", 2}, {"none", 3}}
	if ctx.Thorough() {
		fams = append(fams, fam{"oblig", 3})
	}
	schedules := 0
	for _, f := range fams {
		f := f
		bg(func() {
			mf, err := exploreSchedules(ctx, f.cfg, f.g)
			if err != nil {
				ctx.ToolError("%v", err)
				return
			}
			mu.Lock()
			schedules += len(mf.Scheds)
			mu.Unlock()
			if f.g == 2 {
				// the model's bundle also runs free under the race detector
				sf := *mf
				sf.Scheds = nil
				bg(func() {
					collect(runChild(ctx, &ChildInput{Phase: "stress", Seed: ctx.Seed, G: 16, R: 200, Families: []ModelFamily{sf}}))
				})
			}
			collect(runChild(ctx, &ChildInput{Phase: "forced", Seed: ctx.Seed, Families: []ModelFamily{*mf}}))
		})
	}
	wg.Wait()
	ctx.Extra["deviation_selftest"] = selftest
	ctx.Extra["schedules_exported_by_tlc"] = schedules

	judge(ctx, outs)
}

// exploreSchedules runs TLC on the reference model: all interleavings for one
// configuration and group size; returns the exported family.
func exploreSchedules(ctx *core.Ctx, cfgName string, g int) (*ModelFamily, error) {
	small := "{2, 5}" // groups of 3: quick over two of the smallest cases, thorough over all three
	if ctx.Thorough() {
		small = "{1, 2, 5}"
	}
	cfg := fmt.Sprintf("CONSTANT Dev = {}\nCONSTANT CfgName = \"%s\"\nCONSTANT GSize = %d\nCONSTANT Small = %s\nINIT Init\nNEXT Next\nPROPERTY ReadOnlySharing\nINVARIANT NonInterference\nINVARIANT AllDecided\nINVARIANT StepsAsSolo\nINVARIANT ExportSetup\nINVARIANT ExportSchedule\nCHECK_DEADLOCK FALSE\n", cfgName, g, small)
	res, err := ctx.RunTLC(core.TLCOpts{Module: "SoyConcurrent", Cfg: cfg, Workers: 4, Timeout: 9 * time.Minute, Label: fmt.Sprintf("interleavings:G=%d:%s", g, cfgName)})
	if err != nil {
		return nil, err
	}
	if res.Violated != "" {
		return nil, fmt.Errorf("the reference model violates %s (G=%d, %s): spec bug: %s", res.Violated, g, cfgName, trunc(res.Trace, 600))
	}
	var mf *ModelFamily
	var scheds []Sched
	for _, p := range res.Printed {
		if strings.HasPrefix(p, `{"setup"`) {
			if mf == nil {
				mf, err = decodeSetup(p)
				if err != nil {
					return nil, err
				}
			}
		} else if strings.HasPrefix(p, `{"g"`) {
			var s Sched
			if err := json.Unmarshal([]byte(p), &s); err != nil {
				return nil, fmt.Errorf("bad schedule from TLC: %v: %s", err, trunc(p, 200))
			}
			scheds = append(scheds, s)
		}
	}
	if mf == nil || len(scheds) == 0 {
		return nil, fmt.Errorf("TLC exported no setup/schedules (G=%d, %s)", g, cfgName)
	}
	sort.Slice(scheds, func(i, j int) bool {
		a, b := fmt.Sprint(scheds[i].G, scheds[i].S), fmt.Sprint(scheds[j].G, scheds[j].S)
		return a < b
	})
	mf.Scheds = scheds
	return mf, nil
}

func decodeSetup(js string) (*ModelFamily, error) {
	var raw struct {
		Setup struct {
			CfgName string                       `json:"cfgname"`
			Oblig   []string                     `json:"oblig"`
			Bundle  map[string]*core.Tmpl        `json:"bundle"`
			Data    map[string]map[string]core.V `json:"data"`
			Cases   []Case                       `json:"cases"`
			Shared  map[string]core.V            `json:"shared"`
		} `json:"setup"`
	}
	if err := json.Unmarshal([]byte(js), &raw); err != nil {
		return nil, fmt.Errorf("bad setup from TLC: %v", err)
	}
	s := raw.Setup
	cfg, ok := c08.ConfigByName(s.CfgName)
	if !ok || strings.Join(cfg.Oblig, ",") != strings.Join(s.Oblig, ",") {
		return nil, fmt.Errorf("configuration %q of the model is not a configuration of the harness", s.CfgName)
	}
	prog := &core.Program{Bundle: s.Bundle, Glob: map[string]core.V{}, IJ: core.V{"t": "none"},
		Plan: map[string]interface{}{"kind": "none"}, Aliases: map[string]bool{}}
	in := &c08.Inputs{Files: core.UnparseProgram(prog, core.Style{}), Data: s.Data, IJ: core.V{"t": "none"}, Shared: s.Shared}
	return &ModelFamily{Cfg: cfg, Inputs: in, Cases: s.Cases}, nil
}

var childSeq int
var childMu sync.Mutex

// runChild re-executes this binary as a child with the race detector logging
// to a file, and returns its result.
func runChild(ctx *core.Ctx, in *ChildInput) *ChildOutput {
	childMu.Lock()
	childSeq++
	n := childSeq
	childMu.Unlock()
	dir := filepath.Join(core.VerifDir, "out", "c09", fmt.Sprintf("%d-%d", os.Getpid(), n))
	if err := os.MkdirAll(dir, 0o755); err != nil {
		ctx.ToolError("%v", err)
		return nil
	}
	if os.Getenv("C09_KEEP") == "" {
		defer os.RemoveAll(dir)
	}
	inPath, outPath, logPrefix := filepath.Join(dir, "in.json"), filepath.Join(dir, "out.json"), filepath.Join(dir, "race")
	b, _ := json.Marshal(in)
	if err := os.WriteFile(inPath, b, 0o644); err != nil {
		ctx.ToolError("%v", err)
		return nil
	}
	cmd := exec.Command(os.Args[0], ctx.Tier, "--c09-child", inPath, outPath)
	cmd.Env = append(os.Environ(),
		"GORACE=halt_on_error=0 exitcode=66 atexit_sleep_ms=0 log_path="+logPrefix,
		"C09_RACELOG="+logPrefix)
	var stderr bytes.Buffer
	cmd.Stderr = &stderr
	cmd.Stdout = &stderr
	done := make(chan error, 1)
	if err := cmd.Start(); err != nil {
		ctx.ToolError("cannot start child: %v", err)
		return nil
	}
	go func() { done <- cmd.Wait() }()
	limit := 4 * time.Minute
	if ctx.Thorough() {
		limit = 12 * time.Minute
	}
	select {
	case err := <-done:
		if ee, ok := err.(*exec.ExitError); ok && ee.ExitCode() != 66 {
			// the Go runtime itself stops a program on unsynchronised map access:
			// if that happened inside robfig/soy it is the race, observed directly
			if r := parseFatal(stderr.String()); r != nil {
				r.Phase = in.Phase
				out := &ChildOutput{Phase: in.Phase, RaceBuild: RaceEnabled, Races: []RaceReport{*r}}
				// keep what the detector had logged before the crash
				logged := ParseRaceLog(ReadRaceLogs(logPrefix))
				for i := range logged {
					logged[i].classify()
					logged[i].Phase = in.Phase
				}
				out.Races = append(out.Races, logged...)
				return out
			}
			ctx.ToolError("child (%s) exited with %d: %s", in.Phase, ee.ExitCode(), trunc(stderr.String(), 1500))
			return nil
		}
	case <-time.After(limit):
		cmd.Process.Kill()
		ctx.ToolError("child (%s) did not finish within %v", in.Phase, limit)
		return nil
	}
	res, err := os.ReadFile(outPath)
	if err != nil {
		ctx.ToolError("child (%s) left no result: %v: %s", in.Phase, err, trunc(stderr.String(), 800))
		return nil
	}
	var out ChildOutput
	if err := json.Unmarshal(res, &out); err != nil {
		ctx.ToolError("child (%s) result unreadable: %v", in.Phase, err)
		return nil
	}
	return &out
}

// strip removes the markers of slice arrays and map headers from a field name.
func strip(field string) string {
	return strings.TrimSuffix(strings.TrimSuffix(field, "[]"), "(map)")
}

func mismatchSig(m *Mismatch) core.Sig {
	feat := "bytes-differ:no-shared-state-change"
	if m.Observed.Panicked {
		feat = "panic"
	} else if m.Diff != nil {
		feat = "bytes-differ:shared-state-mutated:" + m.Diff.Own
	} else if m.CallerDiff != nil {
		feat = "bytes-differ:caller-data-mutated:" + m.CallerDiff.Own
	}
	return core.Sig{Family: "concurrent-bytes", Feature: feat}
}

func raceSig(r *RaceReport) core.Sig {
	if r.Fatal != "" {
		return core.Sig{Family: "race-detector", Feature: "fatal-" + r.Fatal + ":@" + r.TopSoyFn}
	}
	if r.Field != "" {
		return core.Sig{Family: "race-detector", Feature: "race:" + strip(r.Field)}
	}
	return core.Sig{Family: "race-detector", Feature: "race:@" + r.TopSoyFn}
}

// judge turns the children's results into verdicts and evidence.
func judge(ctx *core.Ctx, outs []*ChildOutput) {
	forced, inSync, random, stress := 0, 0, 0, 0
	var steps int64
	var renders, js, compiles int64
	races, harnessRaces := 0, 0
	var solo []SoloRender
	var walls []string
	for _, o := range outs {
		for _, e := range o.ToolErrors {
			ctx.ToolError("child (%s): %s", o.Phase, e)
		}
		walls = append(walls, fmt.Sprintf("%s:%.1fs", o.Phase, o.WallS))
		steps += o.ForcedSteps
		forced += o.ForcedRuns
		inSync += o.ForcedInSync
		random += o.RandomRuns
		stress += o.StressRuns
		renders += o.Renders
		js += o.JSWrites
		compiles += o.Compiles
		for _, k := range o.Distinct {
			ctx.Distinct(k)
		}
		for _, s := range o.Samples {
			ctx.Sample(s)
		}
		for i := range o.Mismatches {
			m := &o.Mismatches[i]
			ctx.Violation(mismatchSig(m), m.Cfg.Name+": "+m.What, m)
		}
		for i := range o.Races {
			r := &o.Races[i]
			if !r.InSoy {
				harnessRaces++
				ctx.ToolError("the race detector reported a race outside robfig/soy (harness problem): %s", trunc(r.Raw, 1200))
				continue
			}
			races++
			what := fmt.Sprintf("DATA RACE in %s", r.TopSoyFn)
			if r.Fatal != "" {
				what = fmt.Sprintf("the Go runtime stopped the program: %s in %s", r.Fatal, r.TopSoyFn)
			}
			if r.Field != "" {
				what += " on " + strip(r.Field)
			}
			for _, a := range r.Accesses {
				if k := a.SoyFrame(); k >= 0 && k < len(a.Where) {
					what += fmt.Sprintf("; %s at %s", a.Kind, strings.TrimPrefix(a.Where[k], core.RepoDir+"/"))
				}
			}
			ctx.Violation(raceSig(r), what, map[string]interface{}{"kind": "race", "report": r.Raw, "field": r.Field, "addressIn": r.AddrIn, "writeSite": r.WriteSite, "phase": r.Phase, "origin": r.Origin})
		}
		solo = append(solo, o.Solo...)
	}
	ctx.AddEvals(renders + js + compiles)
	ctx.AddTraces(int64(forced + random + stress))
	ctx.Extra["child_wall"] = walls
	ctx.Extra["forced_schedule_runs"] = forced
	ctx.Extra["forced_runs_in_step_with_model"] = inSync // the real code took exactly the node steps of the model's schedule
	ctx.Extra["sampled_schedule_runs"] = random
	ctx.Extra["stress_bundles"] = stress
	ctx.Extra["renders"] = renders
	ctx.Extra["js_writes"] = js
	ctx.Extra["compiles_concurrent"] = compiles
	ctx.Extra["race_reports_in_soy"] = races
	ctx.Extra["race_reports_in_harness"] = harnessRaces
	ctx.Extra["forced_runs_out_of_step_with_model"] = forced - inSync
	ctx.Extra["node_announcements_gated"] = steps
	// How the interpreter cuts a render into announcements is an implementation
	// matter: a run that leaves the model's schedule is continued (remaining
	// goroutines stepped in id order) and judged on its bytes like any other.
	// Only a gate that never fires is a tool problem.
	if forced+random > 0 && steps == 0 {
		ctx.ToolError("%d forced runs but the VerifAt hook announced no node at all: the scheduler gate is not connected (build without -tags verif?)", forced+random)
	} else if forced > inSync {
		fmt.Printf("NOTE: property=%s %d of %d forced runs left the model's schedule (the interpreter announces other node steps than the model has); they were continued and judged on their bytes\n", ctx.ID, forced-inSync, forced)
	}
	validateSolo(ctx, solo)
}

var reBadB = regexpMust(`^<<"BAD", (\d+), "(\w+)", (".*")>>$`)
var reDoneB = regexpMust(`^<<"DONE", (\d+), (\d+), (\d+)>>$`)

// validateSolo: the bytes the sampled concurrent renders were compared with
// are the bytes the specification defines.
func validateSolo(ctx *core.Ctx, solo []SoloRender) {
	if len(solo) == 0 {
		return
	}
	var buf bytes.Buffer
	for _, s := range solo {
		b, _ := json.Marshal(map[string]interface{}{"prog": s.Prog, "obs": map[string]interface{}{"err": s.Obs.Err, "out": s.Obs.Out}})
		buf.Write(b)
		buf.WriteByte('\n')
	}
	cfg := "CONSTANT Dev = {}\nINIT TInit\nNEXT TNext\nINVARIANT Report\nCHECK_DEADLOCK FALSE\n"
	res, err := ctx.RunTLC(core.TLCOpts{Module: "SoyBundleTrace", Cfg: cfg, Files: map[string][]byte{"bundle_trace.ndjson": buf.Bytes()},
		Workers: 1, Timeout: 9 * time.Minute, Label: "sequential-bytes-vs-spec"})
	if err != nil {
		ctx.ToolError("trace validation: %v", err)
		return
	}
	done := false
	for _, t := range res.Tuples {
		if m := reBadB.FindStringSubmatch(t); m != nil {
			i, _ := strconv.Atoi(m[1])
			s := solo[i-1]
			var o struct{ Out string }
			json.Unmarshal([]byte(core.TLAUnquote(m[3])), &o)
			feat := "sequential-bytes-differ-from-spec"
			if s.Diff != nil {
				feat = "bytes-differ:shared-state-mutated:" + s.Diff.Own
			}
			what := fmt.Sprintf("%s: a render run ALONE on a fresh bundle gives err=%v %q, the specification gives %s %q", s.Cfg.Name, s.Obs.Err, s.Obs.Out, m[2], o.Out)
			ctx.Violation(core.Sig{Family: "concurrent-bytes", Feature: feat}, what,
				Mismatch{Kind: "solo", Family: "concurrent-bytes", Cfg: s.Cfg, Inputs: s.Inputs, Cases: []Case{s.Case}, Gor: 1, Case: s.Case,
					Expected: Expect{m[2], o.Out}, Observed: s.Obs, Diff: s.Diff, What: what, Prog: s.Prog})
		} else if m := reDoneB.FindStringSubmatch(t); m != nil {
			lines, _ := strconv.Atoi(m[1])
			skipped, _ := strconv.Atoi(m[3])
			done = lines == len(solo)
			ctx.AddTraces(int64(lines - skipped))
			ctx.Extra["sequential_renders_validated_by_tlc"] = lines - skipped
		}
	}
	if !done {
		ctx.ToolError("trace validation did not consume the whole trace (%d lines): %s", len(solo), trunc(res.Stdout, 600))
	}
}

// replayFile re-runs one saved case (a byte mismatch or the origin of a race).
func replayFile(ctx *core.Ctx) {
	b, err := os.ReadFile(ctx.ReplayPath)
	if err != nil {
		ctx.ToolError("replay: %v", err)
		return
	}
	var v struct {
		Replay json.RawMessage `json:"replay"`
	}
	if err := json.Unmarshal(b, &v); err != nil {
		ctx.ToolError("replay: %v", err)
		return
	}
	var m Mismatch
	var race struct {
		Kind   string    `json:"kind"`
		Origin *Mismatch `json:"origin"`
	}
	json.Unmarshal(v.Replay, &race)
	if race.Kind == "race" {
		if race.Origin == nil || race.Origin.Inputs == nil {
			ctx.ToolError("replay: the race report has no program attached")
			return
		}
		m = *race.Origin
	} else if err := json.Unmarshal(v.Replay, &m); err != nil || m.Inputs == nil {
		ctx.ToolError("replay: not a C09 case")
		return
	}
	ctx.Rule = "replay of one saved case"
	out := runChild(ctx, &ChildInput{Phase: "replay", Seed: ctx.Seed, Replay: &m})
	if out == nil {
		return
	}
	judge(ctx, []*ChildOutput{out})
	if ctx.Violations() == 0 {
		fmt.Println("replay: the case passes")
	}
}
