package c09

import (
	"bytes"
	"encoding/json"
	"fmt"
	"math/rand"
	"os"
	"sort"
	"strings"
	"sync"
	"sync/atomic"
	"time"

	"github.com/robfig/soy"
	"github.com/robfig/soy/data"
	"github.com/robfig/soy/parse"
	"github.com/robfig/soy/soyhtml"
	"github.com/robfig/soy/template"

	"verif/c08"
	"verif/core"
)

// Everything that touches robfig/soy concurrently runs in a CHILD process of
// this binary, with GORACE="halt_on_error=0 exitcode=66 log_path=...", so that
// the race detector's reports are collected from its log instead of ending the
// checker. The child writes a JSON result; the parent turns it into verdicts.

// Case is one render: a template and the name of a shared data map.
type Case struct {
	T string `json:"t"`
	D string `json:"d"`
}

// Expect is the outcome the specification defines for one render.
type Expect struct {
	St  string `json:"st"`
	Out string `json:"out"`
}

// Sched is one exported schedule: the cases rendered concurrently (indices
// into the configuration's cases, 1-based), the goroutine ids in the order of
// their node steps, and each render's expected outcome.
type Sched struct {
	G []int    `json:"g"`
	S []int    `json:"s"`
	O []Expect `json:"o"`
}

// ModelFamily is what one SoyConcurrent run exported.
type ModelFamily struct {
	Cfg    c08.Config  `json:"cfg"`
	Inputs *c08.Inputs `json:"inputs"`
	Cases  []Case      `json:"cases"`
	Scheds []Sched     `json:"scheds"`
}

// ChildInput is the work order of a child.
type ChildInput struct {
	Phase    string        `json:"phase"` // "forced" | "stress"
	Seed     int64         `json:"seed"`
	Families []ModelFamily `json:"families"`
	// forced: seed-sampled schedules over generated bundles
	RandBundles  int `json:"randBundles"`
	RandPerGroup int `json:"randPerGroup"`
	// stress
	G             int `json:"g"`
	R             int `json:"r"`
	StressBundles int `json:"stressBundles"`
	// a single case to re-run (replay)
	Replay *Mismatch `json:"replay,omitempty"`
}

// Mismatch is a render whose bytes or verdict are not those of the render run
// alone; it is also the replay case.
type Mismatch struct {
	Kind       string      `json:"kind"`   // "forced" | "stress" | "stress-js" | "stress-compile"
	Family     string      `json:"family"` // signature family
	Cfg        c08.Config  `json:"cfg"`
	Inputs     *c08.Inputs `json:"inputs"`
	Cases      []Case      `json:"cases"`              // the renders run concurrently (goroutine g renders Cases[g-1])
	Schedule   []int       `json:"schedule,omitempty"` // forced: goroutine ids per node step
	Actual     []int       `json:"executed,omitempty"`
	Gor        int         `json:"goroutine"`
	Case       Case        `json:"case"`
	Expected   Expect      `json:"expected"`
	Observed   c08.Obs     `json:"observed"`
	Diff       *c08.Diff   `json:"sharedStateDiff,omitempty"`
	CallerDiff *c08.Diff   `json:"callerDataDiff,omitempty"` // what changed in the data the caller shared between the renders
	What       string      `json:"what"`
	// Kind "solo": the program in the JSON form of the trace spec
	Prog map[string]interface{} `json:"prog,omitempty"`
}

// SoloRender is a render run alone on a fresh bundle, kept so that TLC can
// validate the bytes the concurrent renders are compared with.
type SoloRender struct {
	Cfg   c08.Config             `json:"cfg"`
	Prog  map[string]interface{} `json:"prog"`
	Obs   c08.Obs                `json:"obs"`
	Files []core.File            `json:"files"`
	Diff  *c08.Diff              `json:"sharedStateDiff,omitempty"` // what the render changed in its fresh bundle
	// for the replay case
	Inputs *c08.Inputs `json:"inputs,omitempty"`
	Case   Case        `json:"case"`
}

// ChildOutput is the result of a child.
type ChildOutput struct {
	Phase        string        `json:"phase"`
	WallS        float64       `json:"wallS"`
	RaceBuild    bool          `json:"raceBuild"`
	ForcedRuns   int           `json:"forcedRuns"`
	ForcedInSync int           `json:"forcedInSync"`
	ForcedSteps  int64         `json:"forcedSteps"` // node announcements granted by the gate
	RandomRuns   int           `json:"randomRuns"`
	Renders      int64         `json:"renders"`
	JSWrites     int64         `json:"jsWrites"`
	Compiles     int64         `json:"compiles"`
	StressRuns   int           `json:"stressRuns"`
	Distinct     []string      `json:"distinct"`
	Mismatches   []Mismatch    `json:"mismatches"`
	Solo         []SoloRender  `json:"solo"`
	Races        []RaceReport  `json:"races"`
	ToolErrors   []string      `json:"toolErrors"`
	Samples      []interface{} `json:"samples"`
}

type child struct {
	in       *ChildInput
	out      *ChildOutput
	seen     int // race reports in the log so far
	origins  map[int]*Mismatch
	resolved map[int]resolved
}

// attribute assigns the race reports that appeared in the log since the last
// call to the job that just ran (its program, data and configuration), and
// resolves their addresses against that job's bundle NOW, while it is alive:
// later allocations may reuse the addresses of bundles that have been freed.
func (c *child) attribute(job *Mismatch, inst *c08.Instance) {
	prefix := os.Getenv("C09_RACELOG")
	if prefix == "" {
		return
	}
	text := ReadRaceLogs(prefix)
	n := strings.Count(text, "WARNING: DATA RACE")
	if n == c.seen {
		return
	}
	if c.origins == nil {
		c.origins = map[int]*Mismatch{}
		c.resolved = map[int]resolved{}
	}
	var regs []c08.Region
	if inst != nil {
		_, regs = c08.DigestWithRegions(append(inst.SharedRoots(), inst.CallerRoots()...)...)
	}
	reports := ParseRaceLog(text)
	for i := c.seen; i < n; i++ {
		c.origins[i] = job
		if i < len(reports) {
			for _, a := range reports[i].Accesses {
				if f, d := c08.Resolve(regs, uintptr(a.Addr)); f != "" {
					c.resolved[i] = resolved{f, d}
					break
				}
			}
		}
	}
	c.seen = n
}

type resolved struct {
	field string
	depth int
}

// RunChild is the entry point of the child process; it never returns.
func RunChild(inPath, outPath string) {
	b, err := os.ReadFile(inPath)
	if err != nil {
		fmt.Fprintln(os.Stderr, "c09 child:", err)
		os.Exit(3)
	}
	var in ChildInput
	if err := json.Unmarshal(b, &in); err != nil {
		fmt.Fprintln(os.Stderr, "c09 child:", err)
		os.Exit(3)
	}
	start := time.Now()
	c := &child{in: &in, out: &ChildOutput{Phase: in.Phase, RaceBuild: RaceEnabled}}
	func() {
		defer func() {
			if p := recover(); p != nil {
				c.out.ToolErrors = append(c.out.ToolErrors, fmt.Sprintf("child panic: %v", p))
			}
		}()
		switch {
		case in.Replay != nil:
			c.replay(in.Replay)
		case in.Phase == "forced":
			c.forced()
		case in.Phase == "stress":
			c.stress()
		default:
			c.out.ToolErrors = append(c.out.ToolErrors, "unknown phase "+in.Phase)
		}
	}()
	// the race detector writes its reports to the log as they happen
	if prefix := os.Getenv("C09_RACELOG"); prefix != "" {
		reports := ParseRaceLog(ReadRaceLogs(prefix))
		for i := range reports {
			r := &reports[i]
			r.classify()
			r.Phase = in.Phase
			r.Origin = c.origins[i]
			if rs, ok := c.resolved[i]; ok {
				r.AddrIn, r.depth = rs.field, rs.depth
			}
		}
		unifyBySite(reports)
		c.out.Races = reports
	}
	c.out.WallS = time.Since(start).Seconds()
	res, _ := json.Marshal(c.out)
	if err := os.WriteFile(outPath, res, 0o644); err != nil {
		fmt.Fprintln(os.Stderr, "c09 child:", err)
		os.Exit(3)
	}
	os.Exit(0) // (the race runtime turns this into 66 if it reported anything)
}

func (c *child) toolErr(format string, a ...interface{}) {
	if len(c.out.ToolErrors) < 10 {
		c.out.ToolErrors = append(c.out.ToolErrors, fmt.Sprintf(format, a...))
	}
}

func agrees(e Expect, o c08.Obs) bool {
	switch e.St {
	case "ok":
		return !o.Err && o.Out == e.Out
	case "err":
		return o.Err && !o.Panicked
	}
	return true // no claim
}

// runForced renders cases concurrently on ONE fresh bundle under the given
// schedule (or, if pick is set, a schedule chosen step by step).
func runForced(in *c08.Inputs, cases []Case, schedule []int, pick func(n int) int) (*c08.Instance, []c08.Obs, ForcedRun, error) {
	inst, err := c08.NewInstance(in)
	if err != nil {
		return nil, nil, ForcedRun{}, err
	}
	obs := make([]c08.Obs, len(cases))
	work := make([]func(), len(cases))
	for g, cs := range cases {
		g, cs := g, cs
		work[g] = func() { obs[g] = inst.Do(c08.Op{Op: "render", T: cs.T, D: cs.D}) }
	}
	f := &Forcer{}
	if pick != nil {
		// a long enough schedule is not known in advance: choose among the waiting
		// goroutines; done by giving Run a generated schedule lazily is not
		// possible, so draw a generous random sequence (unused entries are skipped)
		schedule = make([]int, 4096)
		for i := range schedule {
			schedule[i] = 1 + pick(len(cases))
		}
	}
	run, err := f.Run(schedule, work)
	return inst, obs, run, err
}

// explain re-runs a forced case on a fresh bundle and reports what it changed
// in the shared state.
func explain(in *c08.Inputs, cases []Case, schedule []int) *c08.Diff {
	inst, err := c08.NewInstance(in)
	if err != nil {
		return nil
	}
	before := c08.DigestOf(inst.SharedRoots()...)
	work := make([]func(), len(cases))
	for g, cs := range cases {
		cs := cs
		work[g] = func() { inst.Do(c08.Op{Op: "render", T: cs.T, D: cs.D}) }
	}
	(&Forcer{}).Run(schedule, work)
	return c08.FirstDiff(before, c08.DigestOf(inst.SharedRoots()...))
}

func switches(s []int) int {
	n := 0
	for i := 1; i < len(s); i++ {
		if s[i] != s[i-1] {
			n++
		}
	}
	return n
}

func schedKey(cfg string, g []int, s []int) string {
	return fmt.Sprintf("%s/%v/%v", cfg, g, s)
}

// forced: every schedule TLC exported, then seed-sampled schedules over
// generated bundles.
func (c *child) forced() {
	for _, fam := range c.in.Families {
		restore, err := c08.Install(fam.Cfg)
		if err != nil {
			c.toolErr("install %s: %v", fam.Cfg.Name, err)
			continue
		}
		for si, sc := range fam.Scheds {
			cases := make([]Case, len(sc.G))
			for i, k := range sc.G {
				cases[i] = fam.Cases[k-1]
			}
			inst, obs, run, err := runForced(fam.Inputs, cases, sc.S, nil)
			if err != nil {
				c.toolErr("%v", err)
				continue
			}
			c.out.ForcedRuns++
			c.out.ForcedSteps += int64(len(run.Actual))
			c.out.Renders += int64(len(cases))
			if run.InSync {
				c.out.ForcedInSync++
			}
			if switches(sc.S) >= 2 {
				c.out.Distinct = append(c.out.Distinct, schedKey(fam.Cfg.Name, sc.G, sc.S))
			}
			if si == len(fam.Scheds)/2 && len(c.out.Samples) < 4 {
				c.out.Samples = append(c.out.Samples, map[string]interface{}{"cfg": fam.Cfg.Name, "files": fam.Inputs.Files, "cases": cases, "schedule": sc.S, "expected": sc.O})
			}
			c.attribute(&Mismatch{Kind: "forced", Family: "race-detector", Cfg: fam.Cfg, Inputs: fam.Inputs, Cases: cases, Schedule: sc.S,
				What: "forced schedule of the model's family"}, inst)
			for g := range cases {
				if !agrees(sc.O[g], obs[g]) {
					m := Mismatch{Kind: "forced", Family: "concurrent-bytes", Cfg: fam.Cfg, Inputs: fam.Inputs, Cases: cases, Schedule: sc.S,
						Actual: run.Actual, Gor: g + 1, Case: cases[g], Expected: sc.O[g], Observed: obs[g]}
					m.Diff = explain(fam.Inputs, cases, sc.S)
					m.What = fmt.Sprintf("goroutine %d rendering %s under schedule %v: run alone it gives %s %q, concurrently err=%v %q", g+1, cases[g].T, sc.S, sc.O[g].St, sc.O[g].Out, obs[g].Err, obs[g].Out)
					c.addMismatch(m)
					break
				}
			}
		}
		if err := restore(); err != nil {
			c.toolErr("%v", err)
		}
	}
	c.randomForced()
}

func (c *child) addMismatch(m Mismatch) {
	// keep all of them countable but bound the size of the result
	if len(c.out.Mismatches) < 400 {
		c.out.Mismatches = append(c.out.Mismatches, m)
	} else {
		m.Inputs = nil
		m.Observed.Out = ""
		c.out.Mismatches = append(c.out.Mismatches, m)
	}
}

// randomForced: generated bundles, groups of 2-3 render cases, schedules drawn
// with the seed; expected = the render alone on a fresh bundle (validated by
// TLC in the parent).
func (c *child) randomForced() {
	r := rand.New(rand.NewSource(c.in.Seed*1000003 + 17))
	for b := 0; b < c.in.RandBundles; b++ {
		cfg := c08.Configs[b%len(c08.Configs)]
		restore, err := c08.Install(cfg)
		if err != nil {
			c.toolErr("install %s: %v", cfg.Name, err)
			return
		}
		g := &core.ProgGen{R: r, MaxDepth: 1 + r.Intn(3)}
		p := g.Gen()
		in, rcases, ops, nRender := c08.BuildCases(r, p, cfg)
		// the concurrent runs first (cold state), the renders alone afterwards
		type done struct {
			cases []Case
			obs   []c08.Obs
			run   ForcedRun
		}
		var runs []done
		for k := 0; k < c.in.RandPerGroup; k++ {
			n := 2 + r.Intn(2)
			cases := make([]Case, n)
			for i := range cases {
				o := ops[r.Intn(nRender)]
				cases[i] = Case{o.T, o.D}
			}
			inst, obs, run, err := runForced(in, cases, nil, r.Intn)
			if err != nil {
				if inst == nil {
					c.toolErr("generated bundle rejected: %v", err)
					break
				}
				c.toolErr("%v", err)
				continue
			}
			c.out.RandomRuns++
			c.out.ForcedSteps += int64(len(run.Actual))
			c.out.Renders += int64(n)
			if switches(run.Actual) >= 2 {
				c.out.Distinct = append(c.out.Distinct, schedKey(cfg.Name+"/"+in.Files[0].Text, nil, run.Actual)+fmt.Sprint(cases))
			}
			c.attribute(&Mismatch{Kind: "forced", Family: "race-detector", Cfg: cfg, Inputs: in, Cases: cases, Schedule: run.Actual,
				What: "sampled schedule over a generated bundle"}, inst)
			runs = append(runs, done{cases, obs, run})
		}
		fresh, muts, err := c08.FreshOutcomesDiff(in, ops[:nRender], true)
		if err != nil {
			c.toolErr("generated bundle rejected: %v", err)
			restore()
			continue
		}
		for i, rc := range rcases {
			q := *p
			q.Entry, q.Data = rc.Entry, rc.Data
			pj, _ := c08.ProgJSON(&q, &cfg)
			c.out.Solo = append(c.out.Solo, SoloRender{cfg, pj, fresh[ops[i].Key()], in.Files, muts[ops[i].Key()], in, Case{ops[i].T, ops[i].D}})
		}
		for _, d := range runs {
			for gi := range d.cases {
				f := fresh[c08.Op{Op: "render", T: d.cases[gi].T, D: d.cases[gi].D}.Key()]
				if d.obs[gi].Err != f.Err || d.obs[gi].Out != f.Out {
					e := Expect{"ok", f.Out}
					if f.Err {
						e.St = "err"
					}
					m := Mismatch{Kind: "forced", Family: "concurrent-bytes", Cfg: cfg, Inputs: in, Cases: d.cases, Schedule: d.run.Actual,
						Actual: d.run.Actual, Gor: gi + 1, Case: d.cases[gi], Expected: e, Observed: d.obs[gi]}
					m.Diff = explain(in, d.cases, d.run.Actual)
					m.What = fmt.Sprintf("goroutine %d rendering %s under schedule %v: run alone it gives err=%v %q, concurrently err=%v %q", gi+1, d.cases[gi].T, d.run.Actual, f.Err, f.Out, d.obs[gi].Err, d.obs[gi].Out)
					c.addMismatch(m)
					break
				}
			}
		}
		if err := restore(); err != nil {
			c.toolErr("%v", err)
		}
	}
}

// stress: free-running goroutines (no gate) over one Tofu, shared data maps
// and one shared catalogue; then concurrent soyjs.Write on the same registry;
// then concurrent compilation of independent bundles.
func (c *child) stress() {
	soyhtml.VerifAt = nil
	r := rand.New(rand.NewSource(c.in.Seed*7777 + 3))
	G, R := c.in.G, c.in.R
	type job struct {
		cfg c08.Config
		in  *c08.Inputs
		ops []Op8
		nR  int
		R   int // renders per goroutine (0: the default)
		// judge, by template name: operations whose bytes cannot be compared with
		// the solo run (randomInt) are judged by this instead ("" = fine)
		judge map[string]func(c08.Obs) string
	}
	var jobs []job
	// the model's bundles first, then generated ones
	for _, fam := range c.in.Families {
		var ops []Op8
		for _, cs := range fam.Cases {
			ops = append(ops, Op8{Op: "render", T: cs.T, D: cs.D})
		}
		n := len(ops)
		for _, f := range fam.Inputs.Files {
			ops = append(ops, Op8{Op: "genjs", F: f.Name})
		}
		jobs = append(jobs, job{fam.Cfg, fam.Inputs, ops, n, 0, nil})
	}
	if c.in.StressBundles > 0 {
		// LARGE content blocks and values, first: their buffers are where pooling
		// and reuse go wrong
		in, ops, n := bigJob()
		jobs = append(jobs, job{c08.Configs[0], in, ops, n, R / 5, nil}, job{c08.Configs[3], in, ops, n, R / 5, nil})
	}
	if c.in.StressBundles > 0 {
		// a REAL message bundle (pomsg.Load of .po texts), one per locale, shared
		// by all goroutines
		for _, loc := range []string{"aa", "bb"} {
			in, ops, n, err := msgJob(loc)
			if err != nil {
				c.toolErr("message-bundle job: %v", err)
				break
			}
			jobs = append(jobs, job{c08.Configs[0], in, ops, n, 0, nil})
		}
	}
	covAt := -1
	if c.in.StressBundles > 0 {
		covAt = len(jobs) // built when its turn comes: it enumerates the registries under its configuration
		jobs = append(jobs, job{cfg: c08.Configs[3]})
	}
	for b := 0; b < c.in.StressBundles; b++ {
		cfg := c08.Configs[(b%2)*3] // alternately no extensions / obligatory directive + custom function
		g := &core.ProgGen{R: r, MaxDepth: 1 + r.Intn(3)}
		p := g.Gen()
		in, _, ops, nRender := c08.BuildCases(r, p, cfg)
		jobs = append(jobs, job{cfg, in, ops[:len(ops)-1], nRender, 0, nil})
	}
	defaultR := R
	for ji, j := range jobs {
		R := defaultR
		if j.R > 0 {
			R = j.R
		}
		restore, err := c08.Install(j.cfg)
		if err != nil {
			c.toolErr("install %s: %v", j.cfg.Name, err)
			return
		}
		if ji == covAt {
			in, ops, n, judge, missing := covJob()
			for _, m := range missing {
				c.toolErr("%s is registered but the concurrent stress has no use of it: add one to covJob (harness/c09/coverage.go)", m)
			}
			j = job{j.cfg, in, ops, n, 0, judge}
			c.out.Distinct = append(c.out.Distinct, "coverage-bundle")
		}
		inst, err := c08.NewInstance(j.in)
		if err != nil {
			c.toolErr("stress bundle rejected: %v", err)
			restore()
			continue
		}
		before := c08.DigestOf(inst.SharedRoots()...)
		callerBefore := c08.DigestOf(inst.CallerRoots()...)
		c.out.StressRuns++
		if ji < 2 {
			c.out.Samples = append(c.out.Samples, map[string]interface{}{"stress": true, "cfg": j.cfg.Name, "files": j.in.Files, "goroutines": G, "rendersEach": R})
		}
		c.out.Distinct = append(c.out.Distinct, "stress/"+j.cfg.Name+"/"+j.in.Files[0].Text)
		// The concurrent phase comes FIRST, on cold state: the sequential
		// outcomes it is compared with are computed afterwards (computing them
		// before would warm every lazily filled cache and hide first-use races).
		// NOTE: the goroutines share nothing of the harness while they run (their
		// records are private, read after the join): a shared atomic counter
		// would order the renders for the race detector and hide races.
		var stop int32
		var wg sync.WaitGroup
		var renders, writes int64
		type seen struct {
			first map[string]c08.Obs // per operation: what this goroutine got the first time
			n, js int64
			self  *Mismatch // an operation gave this goroutine two different outcomes
		}
		var first *Mismatch
		// run starts G goroutines; goroutine g performs reps(g) operations chosen
		// by pick(g, i) from universe.
		run := func(kind string, universe []Op8, pick func(g, i int) Op8, reps func(g int) int) {
			recs := make([]*seen, G)
			for g := 0; g < G; g++ {
				recs[g] = &seen{first: map[string]c08.Obs{}}
				wg.Add(1)
				go func(g int, rec *seen) {
					defer wg.Done()
					n := reps(g)
					for i := 0; i < n && atomic.LoadInt32(&stop) == 0; i++ {
						o := pick(g, i)
						obs := inst.Do(o)
						if o.Op == "render" {
							rec.n++
						} else {
							rec.js++
						}
						if jf := j.judge[o.T]; jf != nil && o.Op == "render" {
							if w := jf(obs); w != "" {
								rec.self = &Mismatch{Kind: kind, Family: "concurrent-bytes", Cfg: j.cfg, Inputs: j.in, Cases: renderCases(j.ops[:j.nR]), Gor: g + 1, Case: Case{o.T, o.D},
									Expected: Expect{"ok", "(not comparable with the solo run: " + w + ")"}, Observed: obs,
									What: fmt.Sprintf("%d goroutines (%s) on one bundle: goroutine %d, %s: %s: err=%v %q (%s)", G, kind, g+1, o.Key(), w, obs.Err, trunc(obs.Out, 200), trunc(obs.ErrText, 300))}
								atomic.StoreInt32(&stop, 1)
								return
							}
							continue
						}
						f, ok := rec.first[o.Key()]
						if !ok {
							rec.first[o.Key()] = obs
							continue
						}
						if obs.Err != f.Err || obs.Out != f.Out {
							e := Expect{"ok", f.Out}
							if f.Err {
								e.St = "err"
							}
							rec.self = &Mismatch{Kind: kind, Family: "concurrent-bytes", Cfg: j.cfg, Inputs: j.in, Cases: renderCases(j.ops[:j.nR]), Gor: g + 1, Case: Case{o.T + o.F, o.D},
								Expected: e, Observed: obs,
								What: fmt.Sprintf("%d goroutines (%s) on one bundle: goroutine %d, %s: first err=%v %q, later err=%v %q", G, kind, g+1, o.Key(), f.Err, trunc(f.Out, 200), obs.Err, trunc(obs.Out, 200))}
							atomic.StoreInt32(&stop, 1)
							return
						}
					}
				}(g, recs[g])
			}
			wg.Wait()
			// the operations alone, each on its own fresh bundle
			solo, err := c08.FreshOutcomes(j.in, universe)
			if err != nil {
				c.toolErr("stress bundle rejected: %v", err)
				return
			}
			for g, rec := range recs {
				renders += rec.n
				writes += rec.js
				if first != nil {
					continue
				}
				if rec.self != nil {
					first = rec.self
					continue
				}
				for _, o := range universe {
					if j.judge[o.T] != nil && o.Op == "render" {
						continue
					}
					obs, ok := rec.first[o.Key()]
					s := solo[o.Key()]
					if ok && (obs.Err != s.Err || obs.Out != s.Out) {
						e := Expect{"ok", s.Out}
						if s.Err {
							e.St = "err"
						}
						first = &Mismatch{Kind: kind, Family: "concurrent-bytes", Cfg: j.cfg, Inputs: j.in, Cases: renderCases(j.ops[:j.nR]), Gor: g + 1, Case: Case{o.T + o.F, o.D},
							Expected: e, Observed: obs,
							What: fmt.Sprintf("%d goroutines (%s) on one bundle: goroutine %d, %s: alone err=%v %q, concurrently err=%v %q", G, kind, g+1, o.Key(), s.Err, trunc(s.Out, 200), obs.Err, trunc(obs.Out, 200))}
						break
					}
				}
			}
		}
		nJS := len(j.ops) - j.nR
		// phase 1, on cold state: renders, with every fourth goroutine generating
		// JavaScript from the same registry at the same time
		run("stress", j.ops,
			func(g, i int) Op8 {
				if nJS > 0 && g%4 == 3 {
					return j.ops[j.nR+(g/4+i)%nJS]
				}
				return j.ops[(g+i)%j.nR]
			},
			func(g int) int {
				if nJS > 0 && g%4 == 3 {
					return R/4 + 1
				}
				return R
			})
		// phase 2: every goroutine generates JavaScript
		if nJS > 0 {
			run("stress-js", j.ops[j.nR:],
				func(g, i int) Op8 { return j.ops[j.nR+(g+i)%nJS] },
				func(int) int { return R/10 + 1 })
		}
		c.out.Renders += renders
		c.out.JSWrites += writes
		if first != nil {
			first.Diff = c08.FirstDiff(before, c08.DigestOf(inst.SharedRoots()...))
			first.CallerDiff = c08.FirstDiff(callerBefore, c08.DigestOf(inst.CallerRoots()...))
			c.addMismatch(*first)
		}
		var all []Case
		for _, o := range j.ops[:j.nR] {
			all = append(all, Case{o.T, o.D})
		}
		c.attribute(&Mismatch{Kind: "stress", Family: "race-detector", Cfg: j.cfg, Inputs: j.in, Cases: all,
			What: fmt.Sprintf("%d goroutines x %d renders of one bundle with concurrent soyjs.Write, then soyjs.Write from all", G, R)}, inst)
		if err := restore(); err != nil {
			c.toolErr("%v", err)
		}
	}
	if c.in.StressBundles > 0 {
		c.compileStress(G, R/10+1)
		c.attribute(&Mismatch{Kind: "stress-compile", Family: "race-detector", What: "concurrent compilation of independent bundles"}, nil)
	}
}

// bigJob is a bundle whose {param} / {let} / {log} content blocks and printed
// values are LARGE: the eight render cases produce blocks just below and just
// above 512 B, 1 KiB, 4 KiB and 64 KiB, each with text of its own, so that
// bytes of one render showing up in another are recognisable.
func bigJob() (*c08.Inputs, []Op8, int) {
	loop := func(body ...core.Cmd) core.Cmd {
		return core.CForeach("foreach", "i", core.EFn("range", core.EVar("n")), body, core.Opt(false, nil))
	}
	noesc := core.CDir("noAutoescape")
	p := &core.Program{
		Bundle: map[string]*core.Tmpl{
			"big.layout": {Params: []core.Param{{Name: "title"}, {Name: "body"}},
				Body: []core.Cmd{core.CText("<h>"), core.CPrint(core.EVar("title")), core.CText("</h>"), core.CPrint(core.EVar("body"), noesc), core.CText("<f>")}},
			"big.page": {Params: []core.Param{{Name: "n"}, {Name: "s"}, {Name: "blob"}},
				Body: []core.Cmd{
					core.CCall("big.layout", "none", nil, core.CPV("title", core.EVar("s")),
						core.CPC("body", []core.Cmd{loop(core.CPrint(core.EVar("s")), core.CPrint(core.EVar("i")), core.CText(","))})),
					core.CLetC("b", []core.Cmd{loop(core.CText("["), core.CPrint(core.EVar("i")), core.CPrint(core.EVar("s")), core.CText("]"))}),
					core.CPrint(core.EVar("b"), noesc),
					core.CLog([]core.Cmd{loop(core.CPrint(core.EVar("s")))}),
					core.CText("|"),
					core.CPrint(core.EVar("blob")),
				}},
		},
		Entry: "big.page", Glob: map[string]core.V{}, IJ: core.V{"t": "none"},
		Plan: map[string]interface{}{"kind": "none"}, Aliases: map[string]bool{},
	}
	in := &c08.Inputs{Files: core.UnparseProgram(p, core.Style{}), Data: map[string]map[string]core.V{}, IJ: core.V{"t": "none"}}
	var ops []Op8
	// per iteration the {param} block writes len(s)+digits+1 = about 19 bytes
	for k, n := range []int{24, 30, 50, 58, 205, 230, 3300, 3600} {
		s := fmt.Sprintf("s%d<%s>", k, strings.Repeat(string(rune('a'+k)), 10))
		blobLen := []int{500, 530, 1000, 1050, 4000, 4200, 65000, 66000}[k]
		blob := strings.Repeat(fmt.Sprintf("B%d&", k), blobLen/3)
		d := fmt.Sprintf("n%d", n)
		in.Data[d] = map[string]core.V{"n": core.VInt(n), "s": core.VStr(s), "blob": core.VStr(blob)}
		ops = append(ops, Op8{Op: "render", T: "big.page", D: d})
	}
	n := len(ops)
	for _, f := range in.Files {
		ops = append(ops, Op8{Op: "genjs", F: f.Name})
	}
	return in, ops, n
}

// Op8 is c08's operation type.
type Op8 = c08.Op

// litFile is a source file private to goroutine tag whose string literals
// use every escape sequence of the language, a long literal, non-ASCII text
// and a map literal with escapes in key and value; everything else in it is
// the tag, so that text of another compilation showing up is recognisable.
func litFile(tag string) core.File {
	long := ""
	for i := 0; i < 40; i++ {
		long += tag + `\n\'` + "0123456789"
	}
	src := "{namespace lit." + tag + "}\n\n/** */\n{template .t autoescape=\"false\"}\n" +
		`{'` + tag + `a\nb\tc\'q\'\\ \u00e9\u4e2d\r\b\f end' + '` + tag + `'}|` +
		`{['k\'` + tag + `': 'v\n` + tag + `']}|` +
		`{'` + long + `'}|` +
		`{'日本語 ` + tag + ` é😀'}|{'` + tag + `' + '\u0041\\' + '` + tag + `'}` +
		"\n{/template}\n"
	return core.File{Name: "lit_" + tag + ".soy", Text: src}
}

// compileUnit is what one goroutine of the compile stress does once: compile
// its own bundle (lexer goroutine per parse, registry, parse passes), render
// two of its templates, parse a globals file and parse + evaluate an
// expression, all with escape-laden literals of its own.
type compileUnit struct {
	tag   string
	in    *c08.Inputs
	op    Op8
	first string
	bad   string
	n     int64
}

func (u *compileUnit) once() string {
	var b strings.Builder
	inst, err := c08.NewInstance(u.in)
	if err != nil {
		b.WriteString("compile: " + err.Error())
	} else {
		for _, o := range []Op8{u.op, {Op: "render", T: "lit." + u.tag + ".t"}} {
			obs := inst.Do(o)
			fmt.Fprintf(&b, "%s err=%v %q\n", o.Key(), obs.Err, obs.Out)
		}
	}
	g, err := soy.ParseGlobals(strings.NewReader("G_A = '" + u.tag + `\n\'x\'` + "'\nG_B = 12\n// c\nG_C = '" + u.tag + `\u0041\\\t` + "'\n"))
	if err != nil {
		b.WriteString("globals: " + err.Error())
	} else {
		var keys []string
		for k := range g {
			keys = append(keys, k)
		}
		sort.Strings(keys)
		for _, k := range keys {
			fmt.Fprintf(&b, "%s=%q\n", k, g[k].String())
		}
	}
	b.WriteString(u.sharedInputs())
	node, err := parse.Expr("'" + u.tag + `\t` + "' + '" + `\'q\'` + "' + 'é" + `\u00e9` + u.tag + "'")
	if err != nil {
		b.WriteString("expr: " + err.Error())
	} else if v, err := soyhtml.EvalExpr(node); err != nil {
		b.WriteString("eval: " + err.Error())
	} else {
		fmt.Fprintf(&b, "expr=%q\n", v.String())
	}
	return b.String()
}

// Construction inputs that the API takes BY REFERENCE and that every goroutine
// of the compile stress hands to its own, otherwise independent, bundle: one
// map of common globals, one parse pass function, one source string. The
// harness never writes them.
var (
	commonGlobals = data.Map{"APP_NAME": data.String("shop"), "APP_VER": data.Int(3), "APP_TAGS": data.List{data.String("a"), data.String("b")}}
	commonFile    = "{namespace common.lib}\n\n/** @param who */\n{template .hello}\nhello {$who} from {APP_NAME}\n{/template}\n"
	commonPass    = func(reg template.Registry) error {
		if len(reg.Templates) == 0 {
			return fmt.Errorf("no templates")
		}
		return nil
	}
)

func commonGlobalsText() string {
	var keys []string
	for k := range commonGlobals {
		keys = append(keys, k)
	}
	sort.Strings(keys)
	var b strings.Builder
	for _, k := range keys {
		fmt.Fprintf(&b, "%s=%s;", k, commonGlobals[k].String())
	}
	return b.String()
}

// sharedInputs builds a bundle from the common inputs plus globals and a file
// of its own (every goroutine defines OWN and COLOR with its own values; odd
// goroutines also try to redefine APP_VER, which must be rejected for them and
// only for them), compiles it and renders: accept/reject, error text and
// output, globals included.
func (u *compileUnit) sharedInputs() string {
	var b strings.Builder
	own := data.Map{"OWN": data.String(u.tag), "COLOR": data.String("c-" + u.tag)}
	src := "{namespace own." + u.tag + "}\n\n/** */\n{template .t}\n{APP_NAME}|{APP_VER}|{OWN}|{COLOR}|{call common.lib.hello}{param who: OWN /}{/call}\n{/template}\n"
	bundle := soy.NewBundle().AddGlobalsMap(commonGlobals).AddGlobalsMap(own).
		AddParsePass(commonPass).AddTemplateString("common.soy", commonFile).AddTemplateString("own_"+u.tag+".soy", src)
	if u.tag[len(u.tag)-1]%2 == 1 {
		bundle.AddGlobalsMap(data.Map{"APP_VER": data.Int(99)})
	}
	tofu, err := bundle.CompileToTofu()
	if err != nil {
		fmt.Fprintf(&b, "shared-inputs bundle rejected: %v\n", err)
		return b.String()
	}
	var out bytes.Buffer
	err = tofu.Render(&out, "own."+u.tag+".t", nil)
	fmt.Fprintf(&b, "shared-inputs bundle: err=%v %q\n", err != nil, out.String())
	return b.String()
}

// compileStress: G goroutines compile and use independent bundles at once;
// each result is compared with the same work done alone (afterwards).
func (c *child) compileStress(G, reps int) {
	r := rand.New(rand.NewSource(c.in.Seed*31 + 5))
	units := make([]*compileUnit, G)
	for g := range units {
		p := (&core.ProgGen{R: r, MaxDepth: 1 + r.Intn(3)}).Gen()
		in, _, ops, _ := c08.BuildCases(r, p, c08.Configs[0])
		tag := fmt.Sprintf("g%02d", g)
		in.Files = append(in.Files, litFile(tag))
		units[g] = &compileUnit{tag: tag, in: in, op: ops[0]}
	}
	commonBefore := commonGlobalsText()
	var wg sync.WaitGroup
	for g := 0; g < G; g++ {
		wg.Add(1)
		go func(u *compileUnit) {
			defer wg.Done()
			for i := 0; i < reps; i++ {
				res := u.once()
				u.n++
				if i == 0 {
					u.first = res
				} else if res != u.first {
					u.bad = res
					return
				}
			}
		}(units[g])
	}
	wg.Wait()
	for g, u := range units {
		c.out.Compiles += u.n
		solo := u.once()
		got := u.first
		if u.bad != "" {
			got = u.bad
		}
		if got != solo {
			c.addMismatch(Mismatch{Kind: "stress-compile", Family: "concurrent-bytes", Cfg: c08.Configs[0], Inputs: u.in, Gor: g + 1, Case: Case{u.op.T, u.op.D},
				Expected: Expect{"ok", solo}, Observed: c08.Obs{Out: got},
				What: fmt.Sprintf("%d goroutines compiling and using independent bundles (string literals with escapes, globals, expressions): goroutine %d got %q, the same work alone gives %q", G, g+1, trunc(got, 400), trunc(solo, 400))})
		}
	}
	if got := commonGlobalsText(); got != commonBefore {
		c.addMismatch(Mismatch{Kind: "stress-compile", Family: "concurrent-bytes", Cfg: c08.Configs[0], Inputs: units[0].in, Gor: 0,
			Expected: Expect{"ok", commonBefore}, Observed: c08.Obs{Out: got},
			What: fmt.Sprintf("the map of common globals that every bundle was given (AddGlobalsMap) was changed by the bundles: %q -> %q", commonBefore, got)})
	}
	c.out.Distinct = append(c.out.Distinct, "compile-stress")
	if len(c.out.Samples) < 4 {
		c.out.Samples = append(c.out.Samples, map[string]interface{}{"compileStress": true, "goroutines": G, "repsEach": reps, "literalFile": units[0].in.Files[len(units[0].in.Files)-1]})
	}
}

// replay re-runs one saved mismatch case.
func (c *child) replay(m *Mismatch) {
	restore, err := c08.Install(m.Cfg)
	if err != nil {
		c.toolErr("install: %v", err)
		return
	}
	defer restore()
	switch m.Kind {
	case "solo":
		op := Op8{Op: "render", T: m.Case.T, D: m.Case.D}
		fresh, muts, err := c08.FreshOutcomesDiff(m.Inputs, []Op8{op}, true)
		if err != nil {
			c.toolErr("%v", err)
			return
		}
		c.out.Renders++
		c.out.Solo = append(c.out.Solo, SoloRender{m.Cfg, m.Prog, fresh[op.Key()], m.Inputs.Files, muts[op.Key()], m.Inputs, m.Case})
	case "forced":
		inst, obs, run, err := runForced(m.Inputs, m.Cases, m.Schedule, nil)
		if err != nil {
			c.toolErr("%v", err)
			return
		}
		c.attribute(m, inst)
		c.out.ForcedRuns++
		c.out.ForcedSteps += int64(len(run.Actual))
		if run.InSync {
			c.out.ForcedInSync++
		}
		solo, _ := c08.FreshOutcomes(m.Inputs, caseOps(m.Cases))
		for g, cs := range m.Cases {
			s := solo[Op8{Op: "render", T: cs.T, D: cs.D}.Key()]
			if obs[g].Err != s.Err || obs[g].Out != s.Out {
				n := *m
				n.Gor, n.Case, n.Observed, n.Actual = g+1, cs, obs[g], run.Actual
				n.Diff = explain(m.Inputs, m.Cases, m.Schedule)
				c.addMismatch(n)
				return
			}
		}
	case "stress-compile":
		restore()
		c.compileStress(16, 21)
		c.attribute(&Mismatch{Kind: "stress-compile", Family: "race-detector", What: "concurrent compilation of independent bundles"}, nil)
	default:
		c.in.G, c.in.R = 16, 200
		c.in.Families = []ModelFamily{{Cfg: m.Cfg, Inputs: m.Inputs, Cases: stressCases(m)}}
		c.in.StressBundles = 0
		restore()
		c.stress()
	}
}

func renderCases(ops []Op8) []Case {
	var cs []Case
	for _, o := range ops {
		cs = append(cs, Case{o.T, o.D})
	}
	return cs
}

func caseOps(cs []Case) []Op8 {
	var ops []Op8
	for _, c := range cs {
		ops = append(ops, Op8{Op: "render", T: c.T, D: c.D})
	}
	return ops
}

func stressCases(m *Mismatch) []Case {
	var names []string
	for d := range m.Inputs.Data {
		names = append(names, d)
	}
	sort.Strings(names)
	if len(m.Cases) > 0 {
		return m.Cases
	}
	return []Case{m.Case}
}

func trunc(s string, n int) string {
	if len(s) > n {
		return s[:n] + "..."
	}
	return s
}

var _ = strings.Join
