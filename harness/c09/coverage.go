package c09

import (
	"fmt"
	"sort"
	"strconv"
	"strings"

	"github.com/robfig/soy/ast"
	"github.com/robfig/soy/soyhtml"
	"github.com/robfig/soy/soymsg"

	"verif/c08"
	"verif/core"
)

// Uses of every function and print directive the concurrent stress knows how
// to call. covJob enumerates soyhtml.Funcs and soyhtml.PrintDirectives at run
// time: a registered name that has no entry here is reported (tool trouble),
// so a function added to the registry cannot be left out of the stress.
var funcUses = map[string]string{
	"isNonnull":   "isNonnull($x)",
	"length":      "length($xs)",
	"keys":        "keys($m)",
	"augmentMap":  "length(keys(augmentMap($m, ['j': 1])))",
	"round":       "round(2.5) + round(3.14159, 2)",
	"floor":       "floor(2.7)",
	"ceiling":     "ceiling(2.1)",
	"min":         "min(1, $n)",
	"max":         "max(1, $n)",
	"strContains": "strContains($s, 'b')",
	"range":       "length(range(2, 9, 3))", // (covgo.range)
	"hasData":     "hasData()",
	"vmax2":       "vmax2($n, 2)",
	// randomInt: in its own template (cov.rand), judged by range only
}

var directiveUses = map[string]string{
	"insertWordBreaks":  "insertWordBreaks:3",
	"changeNewlineToBr": "changeNewlineToBr",
	"truncate":          "truncate:4",
	"id":                "id",
	"noAutoescape":      "noAutoescape",
	"escapeHtml":        "escapeHtml",
	"escapeUri":         "escapeUri",
	"escapeJsString":    "escapeJsString",
	"json":              "json",
	"exclaim":           "exclaim",
}

const randN = 7

// covJob builds the coverage bundle: cov.all executes every registered
// function (randomInt and range apart: covgo.rand, covgo.range), every implemented print directive and every
// command kind; cov.rand calls randomInt. Returned: inputs, operations,
// number of renders, the judges for non-comparable templates, and the
// registered names it has no use for.
func covJob() (*c08.Inputs, []Op8, int, map[string]func(c08.Obs) string, []string) {
	var missing []string
	var fnames, dnames []string
	for n := range soyhtml.Funcs {
		fnames = append(fnames, n)
	}
	sort.Strings(fnames)
	var b strings.Builder
	b.WriteString("{namespace cov}\n\n/**\n * @param x\n * @param xs\n * @param m\n * @param n\n * @param s\n */\n{template .all}\n")
	for _, n := range fnames {
		if n == "randomInt" || n == "range" { // in the file that is not given to the JS generator (soyjs has neither as a call)
			continue
		}
		use, ok := funcUses[n]
		if !ok {
			missing = append(missing, "function "+n)
			continue
		}
		b.WriteString("{" + use + "};")
	}
	for n, d := range soyhtml.PrintDirectives {
		if d.Apply != nil { // (bidiSpanWrap / bidiUnicodeWrap are registered without an implementation)
			dnames = append(dnames, n)
		}
	}
	sort.Strings(dnames)
	for _, n := range dnames {
		use, ok := directiveUses[n]
		if !ok {
			missing = append(missing, "print directive "+n)
			continue
		}
		arg := "$s"
		if n == "json" {
			arg = "$m"
		}
		b.WriteString("{" + arg + "|" + use + "};")
	}
	// every command kind (and the loop functions, which are not in Funcs)
	b.WriteString("{$s|truncate:4,false}{print $x}" +
		"{if $n > 5}a{elseif $n > 1}b{else}c{/if}" +
		"{switch $n}{case 1, 2}one{case 3}three{default}other{/switch}" +
		"{foreach $i in $xs}{index($i)}{isFirst($i) ? 'F' : ''}{isLast($i) ? 'L' : ''}{$i}{ifempty}none{/foreach}" +
		"{foreach $i in []}x{ifempty}empty{/foreach}" +
		"{for $k in range(3)}{$k}{/for}" +
		"{let $v: $n + 1 /}{$v}{let $c}C{$s}{/let}{$c}" +
		"{call .leaf data=\"all\" /}{call .leaf data=\"$m\"}{param s: 'p' /}{/call}{call .leaf}{param s}q{$n}{/param}{/call}" +
		"{css foo}{css $s, bar}{log}logged {$s}{/log}{debugger}" +
		"{msg desc=\"d\"}Hi {$s} <b>x</b>{/msg}{msg desc=\"p\"}{plural $n}{case 1}one{default}{$n} many{/plural}{/msg}" +
		"{literal}{lit}{/literal}{sp}{nil}{\\n}{\\r}{\\t}{lb}{rb}" +
		"\n{/template}\n\n/** @param? s */\n{template .leaf}\n<{$s ?: '-'}>\n{/template}\n\n" +
		"")
	goOnly := "{namespace covgo}\n\n/** @param n */\n{template .rand}\n{randomInt($n)},{randomInt($n)},{randomInt($n)}\n{/template}\n\n" +
		"/** @param n */\n{template .range}\n{" + funcUses["range"] + "}{foreach $i in range($n)}{$i}{/foreach}\n{/template}\n"
	in := &c08.Inputs{Files: []core.File{{Name: "cov.soy", Text: b.String()}, {Name: "covgo.soy", Text: goOnly}}, IJ: core.V{"t": "none"},
		Data: map[string]map[string]core.V{
			"d": {"x": core.VStr("x<"), "xs": core.VList(core.VInt(4), core.VInt(5), core.VInt(6)), "m": core.VMap(map[string]core.V{"k": core.VStr("v&")}),
				"n": core.VInt(3), "s": core.VStr("ab c\nd<e")},
			"r": {"n": core.VInt(randN)},
		}}
	ops := []Op8{{Op: "render", T: "cov.all", D: "d"}, {Op: "render", T: "covgo.range", D: "r"}, {Op: "render", T: "covgo.rand", D: "r"}, {Op: "genjs", F: "cov.soy"}}
	for _, n := range []string{"randomInt", "range"} {
		if _, ok := soyhtml.Funcs[n]; !ok {
			missing = append(missing, "function "+n+" (expected in the registry)")
		}
	}
	judge := map[string]func(c08.Obs) string{"covgo.rand": func(o c08.Obs) string {
		if o.Err {
			return "randomInt made the render fail"
		}
		for _, f := range strings.Split(strings.TrimSpace(o.Out), ",") {
			v, err := strconv.Atoi(strings.TrimRight(f, "!")) // (an obligatory directive may have appended its mark)
			if err != nil || v < 0 || v >= randN {
				return fmt.Sprintf("randomInt(%d) gave %q", randN, f)
			}
		}
		return ""
	}}
	return in, ops, len(ops) - 1, judge, missing
}

// msgSource: templates with several messages, one of them plural, reached
// directly and through calls in a loop, so that concurrent renders look up
// DIFFERENT message ids in the one shared bundle at the same time.
const msgSource = `{namespace m}

/** @param x */
{template .a}
{msg desc="greeting"}Hello {$x}!{/msg}
{/template}

/**
 * @param x
 * @param y
 */
{template .b}
{msg desc="farewell"}Bye {$y} and {$x}{/msg}|{msg desc="plain"}Plain text{/msg}
{/template}

/**
 * @param n
 * @param x
 */
{template .c}
{msg desc="eggs"}{plural $n}{case 1}One egg for {$x}{default}{$n} eggs for {$x}{/plural}{/msg}
{/template}

/**
 * @param x
 * @param y
 */
{template .d}
{foreach $i in range(4)}{call .a data="all" /}{call .b data="all" /}{call .c}{param n: $i /}{param x: $y /}{/call};{/foreach}
{/template}
`

func partsText(p ast.ParentNode) string {
	var b strings.Builder
	for _, ch := range p.Children() {
		switch ch := ch.(type) {
		case *ast.RawTextNode:
			b.Write(ch.Text)
		case *ast.MsgPlaceholderNode:
			b.WriteString("{" + ch.Name + "}")
		}
	}
	return b.String()
}

// poFor writes the .po text for a locale: every message of the registry,
// translated by tagging it with the locale and the message id.
func poFor(locale string, files []*ast.SoyFileNode) string {
	var b strings.Builder
	b.WriteString("msgid \"\"\nmsgstr \"\"\n\"Plural-Forms: nplurals=2; plural=(n != 1);\\n\"\n\n")
	q := func(s string) string { return strconv.Quote(s) }
	for _, f := range files {
		c08.WalkNodes(f, func(n ast.Node) {
			m, ok := n.(*ast.MsgNode)
			if !ok {
				return
			}
			tag := fmt.Sprintf("[%s#%d]", locale, m.ID%1000)
			var pl *ast.MsgPluralNode
			for _, ch := range m.Body.Children() {
				if p, ok := ch.(*ast.MsgPluralNode); ok {
					pl = p
				}
			}
			if pl == nil {
				src := soymsg.PlaceholderString(m)
				fmt.Fprintf(&b, "#: id=%d\nmsgid %s\nmsgstr %s\n\n", m.ID, q(src), q(tag+src))
				return
			}
			one := partsText(pl.Default)
			if len(pl.Cases) > 0 {
				one = partsText(pl.Cases[0].Body)
			}
			many := partsText(pl.Default)
			fmt.Fprintf(&b, "#: id=%d var=%s\nmsgid %s\nmsgid_plural %s\nmsgstr[0] %s\nmsgstr[1] %s\n\n", m.ID, pl.VarName, q(one), q(many), q(tag+"1:"+one), q(tag+"n:"+many))
		})
	}
	return b.String()
}

// msgJob: the bundle above rendered with the real message bundle of locale.
func msgJob(locale string) (*c08.Inputs, []Op8, int, error) {
	in := &c08.Inputs{Files: []core.File{{Name: "m.soy", Text: msgSource}}, IJ: core.V{"t": "none"},
		Data: map[string]map[string]core.V{
			"p": {"x": core.VStr("Ann"), "y": core.VStr("Bob"), "n": core.VInt(1)},
			"q": {"x": core.VStr("<Cy>"), "y": core.VStr("Di"), "n": core.VInt(5)},
		}}
	comp, err, _ := core.Compile(in.Files, nil)
	if err != nil {
		return nil, nil, 0, err
	}
	in.PO = map[string]string{}
	for _, l := range []string{"aa", "bb"} {
		in.PO[l] = poFor(l, comp.Registry.SoyFiles)
	}
	in.Locale = locale
	var ops []Op8
	for _, t := range []string{"m.a", "m.b", "m.c", "m.d"} {
		for _, d := range []string{"p", "q"} {
			ops = append(ops, Op8{Op: "render", T: t, D: d})
		}
	}
	n := len(ops)
	ops = append(ops, Op8{Op: "genjs", F: "m.soy"})
	return in, ops, n, nil
}
