package c09

import (
	"bytes"
	"fmt"
	"runtime"
	"strconv"
	"sync"
	"time"

	"github.com/robfig/soy/ast"
	"github.com/robfig/soy/soyhtml"
)

// gating reports whether node is a command node: one node step of the model
// (SoyBundleRun!NodeKinds). Expression nodes, lists, templates and message
// placeholders are part of the step of the command that contains them.
func gating(n ast.Node) bool {
	switch n.(type) {
	case *ast.RawTextNode, *ast.PrintNode, *ast.CssNode, *ast.DebuggerNode, *ast.IfNode, *ast.SwitchNode,
		*ast.ForNode, *ast.LetValueNode, *ast.LetContentNode, *ast.LogNode, *ast.CallNode, *ast.MsgNode:
		return true
	}
	return false
}

// curGID parses the current goroutine's id from its stack header.
func curGID() int64 {
	var buf [64]byte
	n := runtime.Stack(buf[:], false)
	// "goroutine 123 [running]:"
	b := bytes.TrimPrefix(buf[:n], []byte("goroutine "))
	i := bytes.IndexByte(b, ' ')
	if i < 0 {
		return -1
	}
	id, err := strconv.ParseInt(string(b[:i]), 10, 64)
	if err != nil {
		return -1
	}
	return id
}

type evKind int

const (
	evGate evKind = iota
	evDone
)

type event struct {
	idx  int
	kind evKind
}

// Forcer imposes a schedule on concurrent renders: the interpreter's VerifAt
// hook blocks every registered goroutine at each command node until the
// controller grants it its next node step. Exactly one goroutine runs between
// two grants, so an interleaving of node steps chosen by TLC is the
// interleaving the real code executes.
type Forcer struct {
	mu    sync.Mutex
	idx   map[int64]int
	ev    chan event
	grant []chan struct{}
}

const (
	stRunning = iota
	stAtGate
	stDone
)

// ForcedRun is what a forced execution did.
type ForcedRun struct {
	Actual []int // goroutine ids (1-based) in the order their node steps were granted
	InSync bool  // the given schedule was followed entry by entry and consumed exactly
}

func (f *Forcer) at(n ast.Node) {
	if !gating(n) {
		return
	}
	id := curGID()
	f.mu.Lock()
	i, ok := f.idx[id]
	f.mu.Unlock()
	if !ok {
		return
	}
	f.ev <- event{i, evGate}
	<-f.grant[i]
}

// Run starts one goroutine per work function and lets them take node steps in
// the order given by schedule (1-based goroutine ids). Entries naming a
// goroutine that has finished are skipped; when the schedule is used up the
// remaining goroutines are stepped lowest id first.
func (f *Forcer) Run(schedule []int, work []func()) (ForcedRun, error) {
	n := len(work)
	f.idx = map[int64]int{}
	f.ev = make(chan event)
	f.grant = make([]chan struct{}, n)
	for i := range f.grant {
		f.grant[i] = make(chan struct{}, 1)
	}
	soyhtml.VerifAt = f.at
	defer func() { soyhtml.VerifAt = nil }()

	state := make([]int, n)
	for i := 0; i < n; i++ {
		i := i
		go func() {
			f.mu.Lock()
			f.idx[curGID()] = i
			f.mu.Unlock()
			defer func() { f.ev <- event{i, evDone} }()
			work[i]()
		}()
	}
	timeout := time.NewTimer(20 * time.Second)
	defer timeout.Stop()
	quiesce := func() error {
		for {
			running := false
			for _, s := range state {
				if s == stRunning {
					running = true
				}
			}
			if !running {
				return nil
			}
			select {
			case e := <-f.ev:
				if e.kind == evGate {
					state[e.idx] = stAtGate
				} else {
					state[e.idx] = stDone
				}
			case <-timeout.C:
				return fmt.Errorf("forced schedule: no progress for 20 s (states %v)", state)
			}
		}
	}
	res := ForcedRun{InSync: true}
	if err := quiesce(); err != nil {
		return res, err
	}
	pos := 0
	for {
		waiting := -1
		for i, s := range state {
			if s == stAtGate {
				waiting = i
				break
			}
		}
		if waiting < 0 {
			break
		}
		g := -1
		for pos < len(schedule) {
			c := schedule[pos] - 1
			pos++
			if c >= 0 && c < n && state[c] == stAtGate {
				g = c
				break
			}
			res.InSync = false
		}
		if g < 0 {
			g = waiting
			res.InSync = false
		}
		state[g] = stRunning
		res.Actual = append(res.Actual, g+1)
		f.grant[g] <- struct{}{}
		if err := quiesce(); err != nil {
			return res, err
		}
	}
	if pos != len(schedule) {
		res.InSync = false
	}
	return res, nil
}
