//go:build race

package c09

// RaceEnabled reports whether the checker was built with the race detector.
const RaceEnabled = true
