package c09

import (
	"os"
	"path/filepath"
	"regexp"
	"strconv"
	"strings"
)

// RaceAccess is one of the two conflicting accesses of a race report.
type RaceAccess struct {
	Kind   string   `json:"kind"` // "read" | "write"
	Addr   uint64   `json:"addr"`
	Frames []string `json:"frames"` // function names, innermost first
	Where  []string `json:"where"`  // file:line per frame
}

// RaceReport is one DATA RACE report of the Go race detector.
type RaceReport struct {
	Accesses []RaceAccess `json:"accesses"`
	Raw      string       `json:"raw"`
	// filled by classify
	InSoy    bool   `json:"inSoy"`    // an access stack has a frame of github.com/robfig/soy
	TopSoyFn string `json:"topSoyFn"` // innermost robfig/soy function of the first access that has one
	Field    string    `json:"field"` // struct field containing the address, if it lies in a walked structure
	Phase    string    `json:"phase"`
	Origin   *Mismatch `json:"origin,omitempty"` // the program, data and configuration that was running
}

var reAccess = regexp.MustCompile(`^(?:Previous )?(?i:(read|write)) at 0x([0-9a-f]+) by `)
var reFrameFn = regexp.MustCompile(`^  (\S.*)\(\)$`)
var reFrameAt = regexp.MustCompile(`^      (\S+:\d+)`)

// ParseRaceLog parses the text the race detector wrote (log_path file).
func ParseRaceLog(text string) []RaceReport {
	var reports []RaceReport
	for _, blk := range strings.Split(text, "==================") {
		if !strings.Contains(blk, "WARNING: DATA RACE") {
			continue
		}
		r := RaceReport{Raw: strings.TrimSpace(blk)}
		var cur *RaceAccess
		for _, ln := range strings.Split(blk, "\n") {
			if m := reAccess.FindStringSubmatch(ln); m != nil {
				a, _ := strconv.ParseUint(m[2], 16, 64)
				r.Accesses = append(r.Accesses, RaceAccess{Kind: strings.ToLower(m[1]), Addr: a})
				cur = &r.Accesses[len(r.Accesses)-1]
				continue
			}
			if strings.HasPrefix(ln, "Goroutine ") || strings.TrimSpace(ln) == "" {
				if strings.HasPrefix(ln, "Goroutine ") {
					cur = nil
				}
				continue
			}
			if cur == nil {
				continue
			}
			if m := reFrameFn.FindStringSubmatch(ln); m != nil {
				cur.Frames = append(cur.Frames, m[1])
			} else if m := reFrameAt.FindStringSubmatch(ln); m != nil {
				cur.Where = append(cur.Where, m[1])
			}
		}
		reports = append(reports, r)
	}
	return reports
}

const soyPkg = "github.com/robfig/soy/"

// classify fills InSoy and TopSoyFn.
func (r *RaceReport) classify() {
	for _, a := range r.Accesses {
		for _, f := range a.Frames {
			if strings.HasPrefix(f, soyPkg) {
				r.InSoy = true
				if r.TopSoyFn == "" {
					r.TopSoyFn = strings.TrimPrefix(f, soyPkg)
				}
				break
			}
		}
	}
}

// ReadRaceLogs reads every file the detector wrote for log_path prefix.
func ReadRaceLogs(prefix string) string {
	files, _ := filepath.Glob(prefix + ".*")
	var b strings.Builder
	for _, f := range files {
		if t, err := os.ReadFile(f); err == nil {
			b.Write(t)
			b.WriteByte('\n')
		}
	}
	return b.String()
}

func regexpMust(s string) *regexp.Regexp { return regexp.MustCompile(s) }
