package c09

import (
	"os"
	"path/filepath"
	"regexp"
	"strconv"
	"strings"
)

// RaceAccess is one of the two conflicting accesses of a race report.
type RaceAccess struct {
	Kind   string   `json:"kind"` // "read" | "write"
	Addr   uint64   `json:"addr"`
	Frames []string `json:"frames"` // function names, innermost first
	Where  []string `json:"where"`  // file:line per frame
}

// RaceReport is one DATA RACE report of the Go race detector.
type RaceReport struct {
	Accesses []RaceAccess `json:"accesses"`
	Raw      string       `json:"raw"`
	// filled by classify
	InSoy     bool      `json:"inSoy"`    // an access stack has a frame of github.com/robfig/soy
	TopSoyFn  string    `json:"topSoyFn"` // innermost robfig/soy function of the first access that has one
	Field     string    `json:"field"`    // struct field containing the address, if it lies in a walked structure
	Phase     string    `json:"phase"`
	Origin    *Mismatch `json:"origin,omitempty"` // the program, data and configuration that was running
	Fatal     string    `json:"fatal,omitempty"`  // set when the runtime aborted the program ("concurrent-map-writes", ...)
	AddrIn    string    `json:"addressIn"`        // the field the raced address itself lies in
	WriteSite string    `json:"writeSite"`        // file:line of the innermost robfig/soy frame of the writing access
	depth     int
}

var reAccess = regexp.MustCompile(`^(?:Previous )?(?i:(read|write)) at 0x([0-9a-f]+) by `)
var reFrameFn = regexp.MustCompile(`^  (\S.*)\(\)$`)
var reFrameAt = regexp.MustCompile(`^      (\S+:\d+)`)

// ParseRaceLog parses the text the race detector wrote (log_path file).
func ParseRaceLog(text string) []RaceReport {
	var reports []RaceReport
	for _, blk := range strings.Split(text, "==================") {
		if !strings.Contains(blk, "WARNING: DATA RACE") {
			continue
		}
		r := RaceReport{Raw: strings.TrimSpace(blk)}
		var cur *RaceAccess
		for _, ln := range strings.Split(blk, "\n") {
			if m := reAccess.FindStringSubmatch(ln); m != nil {
				a, _ := strconv.ParseUint(m[2], 16, 64)
				r.Accesses = append(r.Accesses, RaceAccess{Kind: strings.ToLower(m[1]), Addr: a})
				cur = &r.Accesses[len(r.Accesses)-1]
				continue
			}
			if strings.HasPrefix(ln, "Goroutine ") || strings.TrimSpace(ln) == "" {
				if strings.HasPrefix(ln, "Goroutine ") {
					cur = nil
				}
				continue
			}
			if cur == nil {
				continue
			}
			if m := reFrameFn.FindStringSubmatch(ln); m != nil {
				cur.Frames = append(cur.Frames, m[1])
			} else if m := reFrameAt.FindStringSubmatch(ln); m != nil {
				cur.Where = append(cur.Where, m[1])
			}
		}
		reports = append(reports, r)
	}
	return reports
}

const soyPkg = "github.com/robfig/soy/"

// SoyFrame returns the index of the innermost robfig/soy frame of a, or -1.
func (a *RaceAccess) SoyFrame() int {
	for i, f := range a.Frames {
		if strings.HasPrefix(f, soyPkg) {
			return i
		}
	}
	return -1
}

// classify fills InSoy, TopSoyFn (the function of the writing access where
// there is one) and WriteSite.
func (r *RaceReport) classify() {
	for pass := 0; pass < 2; pass++ {
		for i := range r.Accesses {
			a := &r.Accesses[i]
			if pass == 0 && a.Kind != "write" {
				continue
			}
			k := a.SoyFrame()
			if k < 0 {
				continue
			}
			r.InSoy = true
			if r.TopSoyFn == "" {
				r.TopSoyFn = strings.TrimPrefix(a.Frames[k], soyPkg)
				if k < len(a.Where) {
					r.WriteSite = a.Where[k]
				}
			}
		}
	}
}

// unifyBySite gives the reports whose writing access is the same statement
// the same field: the outermost one any of them resolved to (an append to a
// shared slice races on the slice header, on the new backing array and on the
// fields of the appended elements: one defect, one field).
func unifyBySite(reports []RaceReport) {
	type best struct {
		field string
		depth int
	}
	bySite := map[string]best{}
	for _, r := range reports {
		if r.WriteSite == "" || r.AddrIn == "" {
			continue
		}
		if b, ok := bySite[r.WriteSite]; !ok || r.depth < b.depth || (r.depth == b.depth && r.AddrIn < b.field) {
			bySite[r.WriteSite] = best{r.AddrIn, r.depth}
		}
	}
	for i := range reports {
		r := &reports[i]
		r.Field = r.AddrIn
		if b, ok := bySite[r.WriteSite]; ok && r.WriteSite != "" {
			r.Field = b.field
		}
	}
}

// ReadRaceLogs reads every file the detector wrote for log_path prefix.
func ReadRaceLogs(prefix string) string {
	files, _ := filepath.Glob(prefix + ".*")
	var b strings.Builder
	for _, f := range files {
		if t, err := os.ReadFile(f); err == nil {
			b.Write(t)
			b.WriteByte('\n')
		}
	}
	return b.String()
}

func regexpMust(s string) *regexp.Regexp { return regexp.MustCompile(s) }

var reFatal = regexp.MustCompile(`(?m)^fatal error: (concurrent map [a-z ]+)$`)
var reStackFn = regexp.MustCompile(`^(\S.*)\([^()]*\)$`)

// parseFatal recognises a program stopped by the runtime's own detection of
// unsynchronised map access and finds the robfig/soy function doing it.
func parseFatal(stderr string) *RaceReport {
	m := reFatal.FindStringSubmatchIndex(stderr)
	if m == nil {
		return nil
	}
	kind := strings.ReplaceAll(stderr[m[2]:m[3]], " ", "-")
	rest := stderr[m[1]:]
	r := &RaceReport{Fatal: kind, Raw: trunc(stderr[m[0]:], 4000)}
	// the first goroutine dumped is the one that hit the check
	started := false
	for _, ln := range strings.Split(rest, "\n") {
		if strings.HasPrefix(ln, "goroutine ") {
			if started {
				break
			}
			started = true
			continue
		}
		if !started || strings.HasPrefix(ln, "\t") {
			continue
		}
		if fm := reStackFn.FindStringSubmatch(strings.TrimSpace(ln)); fm != nil && strings.HasPrefix(fm[1], soyPkg) {
			r.InSoy = true
			r.TopSoyFn = strings.TrimPrefix(fm[1], soyPkg)
			break
		}
	}
	return r
}
