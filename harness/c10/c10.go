// Package c10 decides property C10: message ids are a stable function of
// message content and meaning, and ids / placeholder names follow the
// official Soy algorithm.
//
//	M1  spec/SoyMsgCheck.tla: TLC checks the naming machine against the
//	    declarative sequence algorithm of spec/SoyMsg.tla, the properties of
//	    the names and of the id key; named deviations must be caught.
//	M2  spec/SoyMsgCases.tla: TLC exports every body of the bounded families
//	    with the expected names / placeholder string / id key; every body is
//	    compiled by the real code many times in this process and in fresh
//	    processes, alone and embedded, and compared.
package c10

import (
	"encoding/json"
	"fmt"
	"os"
	"regexp"
	"runtime"
	"sort"
	"strings"
	"sync"
	"time"

	"verif/core"
)

// Run is the entry point for C10.
func Run(ctx *core.Ctx) {
	ctx.Rule = "cases: message bodies = sequences of <= 4 parts from the collision pool of SoyMsg.tla (PoolC10: $a.x $b.x $x $x_1 $xx1 $a[0] $a+1 <a> <a href=x> </a> <br/> and two texts), plurals over 3 subjects x case sets {1},{0,1},{2} with case bodies from a 6-part pool, plus nested plurals (a plural inside a case or the default of a plural, five slots filled with placeholders of one base name), the text|meaning splits of three strings, a message under 11 meanings with quotes / backslashes / newline / tab / braces / outer spaces / non-ASCII (and such descriptions, hidden, meaning=\"\" written out), and the extra bodies (vectors pinned by the repo's tests, tag table, tag names in every letter-case pattern, every kind of printable expression (data refs of 1..3 segments, null-safe, bracket access, $ij, globals with 0..3 dots, calls, literals, operators), texts given as bytes that are not valid UTF-8, grouping pairs, print directives, identifiers, globals); all enumerated by TLC with the expected names/placeholder string/id key. Each body is compiled by the real compiler repeatedly (thorough: 50x, 1000x where a suffixed name can collide with a base name; quick: 300x for those, 50x, 12x for 4-part flat bodies, 10x for bodies with < 2 named nodes) alone, several times embedded among other messages and code with varied descriptions, and in 3 fresh processes; the text|meaning splits are also compiled as histories in fresh processes (forwards, backwards, shuffled, each alone). A case is non-trivial if it has at least one named node; distinct by family id"
	ctx.Assumptions = append(ctx.Assumptions,
		"oracle = SoyMsg.tla (official naming algorithm over sequences; base names as pinned by soymsg/placeholder_test.go and the Closure Templates definition); a tag's name is what precedes the first non-alphanumeric character, lower-cased (h1 -> START_H_1 as the identifier rule gives; whether official Soy spells it START_H1 is not settled and no repo test pins it); phname and html tags that contain a print are outside the model",
		"the 64-bit fingerprint is uninterpreted in TLA+ (fp/mix); its arithmetic is checked by golden vectors and by an independent Go transcription (trusted base)",
		"ids of distinct keys are assumed not to collide by chance (64-bit hash, < 10^5 keys)")
	ctx.Trusted = append(ctx.Trusted,
		"harness/c10/fp.go: independent Go transcription of the published Soy message-id fingerprint (lookup2 x2, meaning mix, sign bit cleared), validated at run time against the golden ids pinned by the repository's tests",
		"harness/c10/cases.go: unparser from the spec's structured parts to Soy source (one line, minimal parentheses)",
		"TLC, CommunityModules Json")

	// many TLC processes run side by side: keep each JVM's heap small (the JVM
	// would otherwise grow to a quarter of the machine's memory each)
	if os.Getenv("_JAVA_OPTIONS") == "" {
		os.Setenv("_JAVA_OPTIONS", "-Xmx4g")
	}
	if ctx.ReplayPath != "" {
		replay(ctx)
		return
	}

	if !checkGoldenTranscription(ctx) {
		return
	}
	// phase A: M1 (reference model, deviations) and the M2 export, side by side
	maxParts, maxInner := 4, ctx.Pick(1, 2)
	var (
		wg    sync.WaitGroup
		cases []*MsgCase
		xerr  error
	)
	var found []string
	wg.Add(4)
	go func() {
		defer wg.Done()
		found = SearchWitnesses(ctx.Seed, time.Duration(ctx.Pick(2, 10))*time.Second, ctx.Pick(4, 12))
	}()
	go func() { defer wg.Done(); runM1(ctx) }()
	go func() { defer wg.Done(); runDeviations(ctx) }()
	go func() { defer wg.Done(); cases, xerr = ExportCases(ctx, maxParts, maxInner, 8) }()
	wg.Wait()
	if xerr != nil {
		ctx.ToolError("export: %v", xerr)
		return
	}
	// the pinned boundary texts of the fingerprint routine must be what they are
	// said to be, and whatever the bounded search found joins the family
	nb := 0
	for _, c := range cases {
		if len(c.Parts) == 1 && c.Parts[0].K == "text" && IsFpBoundary(c.Parts[0].S) != "" {
			nb++
		}
	}
	if nb < 6 {
		ctx.ToolError("only %d of the exported texts are boundary inputs of the fingerprint routine (6 pinned)", nb)
		return
	}
	for i, w := range found {
		cases = append(cases, WitnessCase(i, w))
	}
	ctx.Extra["fingerprint_boundary_texts_pinned"] = nb
	ctx.Extra["fingerprint_boundary_texts_found_by_search"] = found
	ctx.Extra["m2_cases"] = len(cases)
	ctx.Extra["m2_bounds"] = fmt.Sprintf("MaxParts=%d MaxInner=%d + extras", maxParts, maxInner)
	ctx.Exhaustive = true

	// phase B: replay in this process and in fresh processes
	plan := Plan{
		Reps:       func(c *MsgCase) int { return repsFor(ctx, c) },
		EmbedReps:  ctx.Pick(4, 13),
		Meanings:   true,
		Seed:       ctx.Seed,
		ChunkSize:  40,
		Goroutines: runtime.GOMAXPROCS(0),
	}
	const nproc = 3
	childPlan := ChildPlan{Reps: ctx.Pick(4, 8), EmbedReps: 1, Goroutines: 4}
	children := make([]*Observations, nproc)
	cerrs := make([]error, nproc)
	t0 := time.Now()
	for i := 0; i < nproc; i++ {
		wg.Add(1)
		go func(i int) {
			defer wg.Done()
			children[i], cerrs[i] = RunChild(ctx, cases, childPlan, ctx.Seed*100+int64(i))
		}(i)
	}
	obs := ObserveAll(cases, plan)
	ctx.Extra["inprocess_wall_s"] = time.Since(t0).Seconds()
	wg.Wait()
	for i := 0; i < nproc; i++ {
		if cerrs[i] != nil {
			ctx.ToolError("child process %d: %v", i, cerrs[i])
			return
		}
		obs.Merge(children[i], fmt.Sprintf("proc%d", i+1))
	}
	// compile histories of the messages whose text+meaning collide when joined
	var hist []*MsgCase
	for _, c := range cases {
		if c.IsSplit() {
			hist = append(hist, c)
		}
	}
	if len(hist) > 0 {
		ho, nruns, err := RunHistories(ctx, hist, ctx.Seed)
		if err != nil {
			ctx.ToolError("history processes: %v", err)
			return
		}
		obs.Merge(ho, "history")
		ctx.Extra["history_processes"] = nruns
		ctx.Extra["history_cases"] = len(hist)
	}
	ctx.Extra["fresh_processes"] = nproc
	ctx.Extra["replay_wall_s"] = time.Since(t0).Seconds()

	Judge(ctx, cases, obs)
	checkGoldensReal(ctx)
	checkWatchedRecompile(ctx)
}

func repsFor(ctx *core.Ctx, c *MsgCase) int {
	if c.Coll {
		return ctx.Pick(300, 1000) // the names depend on an order here if they depend on one anywhere
	}
	if ctx.Thorough() {
		return 50
	}
	if c.NodeCount() < 2 {
		return 10
	}
	if c.Family() == "M2-flat" && len(c.Parts) >= 4 {
		return 12
	}
	return 50
}

// ---- M1 ---------------------------------------------------------------------

const m1Invariants = "NamesAreFunction NameProps BreadthFirst TagCaseInsensitive IdIgnoresDesc IdCountsMeaning IdSeparatesTextAndMeaning MeaningIsItsText BytesKeepIdentity KeyFollowsPhString PluralInKey ContextFree WellFormedFamily"

func m1Cfg(maxParts, maxInner int, dev, only, invs string) string {
	return fmt.Sprintf("SPECIFICATION Spec\nCONSTANTS\n  MaxParts = %d\n  MaxInner = %d\n  Dev = {%s}\n  OnlyCase = %q\nINVARIANTS %s\nCHECK_DEADLOCK FALSE\n",
		maxParts, maxInner, dev, only, invs)
}

func runM1(ctx *core.Ctx) {
	mp, mi := ctx.Pick(3, 4), ctx.Pick(1, 2)
	res, err := ctx.RunTLC(core.TLCOpts{Module: "SoyMsgCheck", Cfg: m1Cfg(mp, mi, "", "", m1Invariants),
		Workers: 8, Timeout: 20 * time.Minute, Label: fmt.Sprintf("M1-reference(MaxParts=%d,MaxInner=%d)", mp, mi), Coverage: false})
	if err != nil {
		ctx.ToolError("M1: %v", err)
		return
	}
	if res.Violated != "" {
		ctx.ToolError("M1: the reference model violates %s (spec bug): %s", res.Violated, res.Trace)
		return
	}
	ctx.Extra["m1_reference"] = fmt.Sprintf("no violation; %d distinct states", res.Distinct)
}

var reCex = regexp.MustCompile(`^<<"CEX", "([^"]+)", (<<.*>>), (<<.*>>)>>$`)
var reNaming = regexp.MustCompile(`^<<"NAMING", "([^"]+)", (<<.*>>)>>$`)

// runDeviations is the vacuity guard: each named deviation must make TLC
// violate the invariant it is about.
func runDeviations(ctx *core.Ctx) {
	type dev struct{ name, inv string }
	devs := []dev{
		{"phnames_in_map_order", "NamesAreFunction"},
		{"id_includes_desc", "IdIgnoresDesc"},
		{"id_drops_meaning", "IdCountsMeaning"},
		{"skips_call_params", "ContextFree"},
		{"depth_first", "BreadthFirst"},
		{"id_key_joined", "IdSeparatesTextAndMeaning"},
		{"tag_case_kept", "TagCaseInsensitive"},
		{"fp_of_valid_utf8", "BytesKeepIdentity"},
		{"meaning_kept_quoted", "MeaningIsItsText"},
	}
	selftest := map[string]interface{}{}
	var wg sync.WaitGroup
	var mu sync.Mutex
	sem := make(chan struct{}, 3)
	for _, d := range devs {
		d := d
		wg.Add(1)
		go func() {
			defer wg.Done()
			sem <- struct{}{}
			defer func() { <-sem }()
			entry := oneDeviation(ctx, d.name, d.inv)
			if entry != nil {
				mu.Lock()
				selftest[d.name] = entry
				mu.Unlock()
			}
		}()
	}
	wg.Wait()
	ctx.Extra["deviation_selftest"] = selftest
}

func oneDeviation(ctx *core.Ctx, name, inv string) map[string]interface{} {
	d := struct{ name, inv string }{name, inv}
	{
		res, err := ctx.RunTLC(core.TLCOpts{Module: "SoyMsgCheck", Cfg: m1Cfg(2, 1, `"`+d.name+`"`, "", d.inv),
			Workers: 1, Timeout: 10 * time.Minute, Label: "M1-deviation-" + d.name})
		if err != nil {
			ctx.ToolError("deviation %s: %v", d.name, err)
			return nil
		}
		if res.Violated != d.inv {
			ctx.ToolError("deviation %s: expected TLC to violate %s, got %q (vacuous invariant?)", d.name, d.inv, res.Violated)
			return nil
		}
		entry := map[string]interface{}{"violates": res.Violated}
		if d.name == "phnames_in_map_order" {
			var cex string
			for _, t := range res.Tuples {
				if m := reCex.FindStringSubmatch(t); m != nil {
					cex = m[1]
					entry["counterexample"] = m[1]
					entry["naming_found"] = m[2]
					entry["naming_reference"] = m[3]
				}
			}
			if cex == "" {
				ctx.ToolError("deviation %s: no counterexample printed", d.name)
				return nil
			}
			// all namings the deviating machine can produce for that body
			r2, err := ctx.RunTLC(core.TLCOpts{Module: "SoyMsgCheck", Cfg: m1Cfg(2, 1, `"`+d.name+`"`, cex, "NamingReport"),
				Workers: 1, Timeout: 5 * time.Minute, Label: "M1-deviation-" + d.name + "-namings"})
			if err != nil {
				ctx.ToolError("deviation %s namings: %v", d.name, err)
				return nil
			}
			set := map[string]bool{}
			for _, t := range r2.Tuples {
				if m := reNaming.FindStringSubmatch(t); m != nil {
					set[m[2]] = true
				}
			}
			var ns []string
			for k := range set {
				ns = append(ns, k)
			}
			sort.Strings(ns)
			entry["namings_under_deviation"] = ns
			if len(ns) < 2 {
				ctx.ToolError("deviation %s: expected the names of %s to be multi-valued, got %v", d.name, cex, ns)
				return nil
			}
		}
		return entry
	}
}

// ---- goldens ------------------------------------------------------------------

// checkGoldenTranscription validates the trusted transcription against the
// pinned ids (a mismatch is trouble in the harness, not in /repo).
func checkGoldenTranscription(ctx *core.Ctx) bool {
	ok := true
	found := 0
	for _, g := range Goldens {
		if id := OwnID(g.Key, g.Meaning); id != g.ID {
			ctx.ToolError("trusted fingerprint transcription disagrees with pinned id for %q: %d != %d", g.Key, id, g.ID)
			ok = false
		}
		if b, err := os.ReadFile(core.RepoDir + "/" + g.Where); err == nil && strings.Contains(string(b), fmt.Sprint(g.ID)) {
			found++
		}
	}
	ctx.Extra["golden_vectors"] = len(Goldens)
	ctx.Extra["golden_vectors_found_in_repo_tests"] = found
	return ok
}

// checkGoldensReal compiles the golden messages with the real code.
func checkGoldensReal(ctx *core.Ctx) {
	for i, g := range Goldens {
		vars := strings.Fields(g.Vars)
		src := "{namespace c10.gold}\n" + Template("g", vars, "", MsgTag(g.Meaning, g.Desc, g.Body))
		if g.NeedsCallee {
			src += Template("callee", []string{"items"}, "", "{$items}")
		}
		files := []core.File{{Name: "gold.soy", Text: src}}
		seen := map[string]Obs{}
		var cerr error
		for r := 0; r < 20; r++ {
			m, err := ObserveByDesc(files, nil)
			if err != nil {
				cerr = err
				break
			}
			o := m[g.Desc]
			seen[o.Key()] = o
		}
		ctx.AddEvals(20)
		ctx.AddTraces(1)
		ctx.Distinct(fmt.Sprintf("golden-%d", i))
		rp := map[string]interface{}{"golden": g, "source": src}
		if cerr != nil {
			ctx.Violation(core.Sig{Family: "golden", Feature: "compile-reject"}, "golden message rejected: "+cerr.Error(), rp)
			continue
		}
		if len(seen) > 1 {
			rp["observed"] = seen
			ctx.Violation(core.Sig{Family: "golden", Feature: "unstable-across-compiles"}, "golden message has several outcomes: "+g.Body, rp)
			continue
		}
		for _, o := range seen {
			rp["observed"] = o
			if o.PhStr != g.PhStr {
				ctx.Violation(core.Sig{Family: "golden", Feature: "wrong-placeholder-string"},
					fmt.Sprintf("%s: placeholder string %q, pinned %q", g.Body, o.PhStr, g.PhStr), rp)
			} else if o.ID != g.ID {
				ctx.Violation(core.Sig{Family: "golden", Feature: "wrong-id"},
					fmt.Sprintf("%s: id %d, pinned %d", g.Body, o.ID, g.ID), rp)
			}
		}
	}
}

// ---- replay -------------------------------------------------------------------

func replay(ctx *core.Ctx) {
	b, err := os.ReadFile(ctx.ReplayPath)
	if err != nil {
		ctx.ToolError("replay: %v", err)
		return
	}
	var v struct {
		Replay struct {
			Case *MsgCase `json:"case"`
		} `json:"replay"`
	}
	d := json.NewDecoder(strings.NewReader(string(b)))
	d.UseNumber()
	if err := d.Decode(&v); err != nil || v.Replay.Case == nil {
		ctx.ToolError("replay: %s holds no C10 case (%v)", ctx.ReplayPath, err)
		return
	}
	cases := []*MsgCase{v.Replay.Case}
	plan := Plan{Reps: func(*MsgCase) int { return 500 }, EmbedReps: 20, Meanings: true, Seed: ctx.Seed, ChunkSize: 40, Goroutines: 4}
	obs := ObserveAll(cases, plan)
	Judge(ctx, cases, obs)
}
