package c10

import (
	"encoding/hex"
	"encoding/json"
	"fmt"
	"sort"
	"strings"
	"sync"
	"time"
	"unicode/utf8"

	"verif/core"
)

// Part is one part of a message body in the encoding of SoyMsg.tla.
type Part struct {
	K     string  `json:"k"`               // text | print | tag | plural
	S     string  `json:"s,omitempty"`     // text / tag text
	E     core.E  `json:"e,omitempty"`     // print expression / plural subject
	Dirs  []Dir   `json:"dirs,omitempty"`  // print directives
	Bytes []int   `json:"bytes,omitempty"` // k = btext: the text as bytes (need not be UTF-8)
	B     string  `json:"b,omitempty"`     // base name derived by the spec
	Cases []PCase `json:"cases,omitempty"` // plural cases
	Dflt  []Part  `json:"dflt,omitempty"`  // plural default body
}

// Dir is one print directive.
type Dir struct {
	Name string   `json:"name"`
	Args []core.E `json:"args"`
}

// PCase is one {case v} of a plural.
type PCase struct {
	V    int    `json:"v"`
	Body []Part `json:"body"`
}

// MsgCase is one body exported by SoyMsgCases.tla with what the spec expects.
type MsgCase struct {
	ID    string   `json:"id"`
	Parts []Part   `json:"parts"`
	Names []string `json:"names"`          // placeholder names in visiting order
	PhStr string   `json:"phstr"`          // placeholder string
	Key   string   `json:"key"`            // what the id is computed from
	Coll  bool     `json:"coll"`           // a suffixed candidate name is another group's base name
	Multi bool     `json:"multi"`          // some base name has several distinct sources
	Rep   bool     `json:"rep"`            // some placeholder occurs twice
	Feat  string   `json:"feat"`           // structural feature (signs findings)
	KeyB  []int    `json:"keyb,omitempty"` // text-bytes family: placeholder string = id key = these bytes
	// Terms: the spec's abstract id (terms over fp / mix) per meaning
	Terms []IdTerm `json:"idterms,omitempty"`
}

// Family names the sub-family of a case from its id.
func (c *MsgCase) Family() string {
	switch {
	case strings.HasPrefix(c.ID, "F"):
		return "M2-flat"
	case strings.HasPrefix(c.ID, "P"):
		return "M2-plural"
	case strings.HasPrefix(c.ID, "X"):
		return "M2-extra"
	case strings.HasPrefix(c.ID, "N"):
		return "M2-nested-plural"
	case strings.HasPrefix(c.ID, "W"):
		return "M2-fingerprint-boundary"
	case strings.HasPrefix(c.ID, "A"):
		return "M2-msg-attributes"
	case strings.HasPrefix(c.ID, "Y"):
		return "M2-text-bytes"
	case strings.HasPrefix(c.ID, "S"):
		return "M2-text-meaning-split"
	}
	return "M2"
}

// NodeCount is the number of named nodes.
func (c *MsgCase) NodeCount() int { return len(c.Names) }

// BytesString turns the spec's byte sequence into a Go string.
func BytesString(bs []int) string {
	b := make([]byte, len(bs))
	for i, v := range bs {
		b[i] = byte(v)
	}
	return string(b)
}

// SafeStr makes a string that need not be valid UTF-8 survive JSON (the
// observations of child processes travel as JSON): hex if it is not valid.
func SafeStr(s string) string {
	if utf8.ValidString(s) {
		return s
	}
	return "hex:" + hex.EncodeToString([]byte(s))
}

// UnparseExpr spells an expression tree as Soy source (minimal parentheses).
func UnparseExpr(e core.E) string { return core.Unparse(e, core.Style{}) }

// UnparseBody spells a body as Soy source, on one line.
func UnparseBody(parts []Part) string {
	var b strings.Builder
	for _, p := range parts {
		switch p.K {
		case "text":
			b.WriteString(escapeText(p.S))
		case "btext":
			b.WriteString(escapeText(BytesString(p.Bytes)))
		case "tag":
			b.WriteString(p.S)
		case "print":
			src := UnparseExpr(p.E)
			for _, d := range p.Dirs {
				src += "|" + d.Name
				for i, a := range d.Args {
					if i == 0 {
						src += ":"
					} else {
						src += ","
					}
					src += UnparseExpr(a)
				}
			}
			if strings.HasPrefix(src, "$") {
				b.WriteString("{" + src + "}")
			} else {
				b.WriteString("{print " + src + "}")
			}
		case "plural":
			b.WriteString("{plural " + UnparseExpr(p.E) + "}")
			for _, c := range p.Cases {
				fmt.Fprintf(&b, "{case %d}", c.V)
				b.WriteString(UnparseBody(c.Body))
			}
			b.WriteString("{default}")
			b.WriteString(UnparseBody(p.Dflt))
			b.WriteString("{/plural}")
		default:
			panic("UnparseBody: unknown part kind " + p.K)
		}
	}
	return b.String()
}

func escapeText(s string) string {
	s = strings.ReplaceAll(s, "{", "\x00")
	s = strings.ReplaceAll(s, "}", "{rb}")
	return strings.ReplaceAll(s, "\x00", "{lb}")
}

// BodyVars returns the sorted variables the body refers to.
func BodyVars(parts []Part) []string {
	set := map[string]bool{}
	var walk func([]Part)
	walk = func(ps []Part) {
		for _, p := range ps {
			if p.E != nil {
				for _, v := range core.ExprVars(p.E) {
					set[v] = true
				}
			}
			for _, c := range p.Cases {
				walk(c.Body)
			}
			walk(p.Dflt)
		}
	}
	walk(parts)
	var r []string
	for v := range set {
		r = append(r, v)
	}
	sort.Strings(r)
	return r
}

// MsgTag spells a {msg} command.
func MsgTag(meaning, desc, body string) string {
	m := ""
	if meaning != "" {
		m = fmt.Sprintf(" meaning=%q", meaning)
	}
	return fmt.Sprintf("{msg%s desc=%q}%s{/msg}", m, desc, body)
}

// MsgTagAttrs spells a {msg} command with all its attributes: hidden, and the
// meaning written out even if it is empty.  Attribute values are spelled as Go
// string literals (what the unchanged parser unquotes them with).
func MsgTagAttrs(meaning, desc, body string, hidden, explicitMeaning bool) string {
	m := ""
	if meaning != "" || explicitMeaning {
		m = fmt.Sprintf(" meaning=%q", meaning)
	}
	h := ""
	if hidden {
		h = ` hidden="true"`
	}
	return fmt.Sprintf("{msg%s desc=%q%s}%s{/msg}", m, desc, h, body)
}

// Template spells one template with exactly the given params.
func Template(name string, vars []string, attrs, body string) string {
	var b strings.Builder
	b.WriteString("/**\n")
	for _, v := range vars {
		b.WriteString(" * @param? " + v + "\n")
	}
	b.WriteString(" */\n{template ." + name + attrs + "}\n")
	b.WriteString(body)
	b.WriteString("\n{/template}\n")
	return b.String()
}

// ---- TLC export -------------------------------------------------------------

// ExportCases runs SoyMsgCases.tla in nshards TLC processes and returns the
// cases sorted by id.
func ExportCases(ctx *core.Ctx, maxParts, maxInner, nshards int) ([]*MsgCase, error) {
	type res struct {
		cases []*MsgCase
		err   error
	}
	out := make([]res, nshards)
	var wg sync.WaitGroup
	for s := 0; s < nshards; s++ {
		wg.Add(1)
		go func(s int) {
			defer wg.Done()
			cfg := fmt.Sprintf("INIT Init\nNEXT Next\nCONSTANTS\n  MaxParts = %d\n  MaxInner = %d\n  Shard = %d\n  NShards = %d\nINVARIANT Export\nCHECK_DEADLOCK FALSE\n",
				maxParts, maxInner, s, nshards)
			r, err := ctx.RunTLC(core.TLCOpts{Module: "SoyMsgCases", Cfg: cfg, Workers: 1, Timeout: 15 * time.Minute,
				Label: fmt.Sprintf("M2-export-%d/%d", s, nshards)})
			if err != nil {
				out[s].err = err
				return
			}
			if r.Violated != "" {
				out[s].err = fmt.Errorf("export run reported %s", r.Violated)
				return
			}
			cs, err := DecodeCases(r.Printed)
			if err != nil {
				out[s].err = err
				return
			}
			if int64(len(cs)) != r.Distinct {
				out[s].err = fmt.Errorf("export shard %d: %d states but %d cases printed", s, r.Distinct, len(cs))
				return
			}
			out[s].cases = cs
		}(s)
	}
	wg.Wait()
	var all []*MsgCase
	for _, r := range out {
		if r.err != nil {
			return nil, r.err
		}
		all = append(all, r.cases...)
	}
	sort.Slice(all, func(i, j int) bool { return all[i].ID < all[j].ID })
	for i := 1; i < len(all); i++ {
		if all[i].ID == all[i-1].ID {
			return nil, fmt.Errorf("duplicate case id %s in export", all[i].ID)
		}
	}
	return all, nil
}

// DecodeCases decodes the JSON lines printed by TLC.
func DecodeCases(printed []string) ([]*MsgCase, error) {
	var cs []*MsgCase
	for _, p := range printed {
		if !strings.HasPrefix(p, "{") {
			continue
		}
		d := json.NewDecoder(strings.NewReader(p))
		d.UseNumber()
		c := &MsgCase{}
		if err := d.Decode(c); err != nil {
			return nil, fmt.Errorf("bad case JSON from TLC: %v: %.200s", err, p)
		}
		if c.KeyB != nil {
			c.PhStr = SafeStr(BytesString(c.KeyB))
			c.Key = c.PhStr
		}
		cs = append(cs, c)
	}
	return cs, nil
}
