package c10

// Independent transcription of the message-id routine published with Closure
// Templates (SoyMsgIdComputer: a 64-bit fingerprint made of two runs of Bob
// Jenkins' 1996 "lookup2" 32-bit hash over the UTF-8 bytes, with the meaning's
// fingerprint mixed in and the sign bit cleared).  Written from the published
// description of the routine, not from /repo/soymsg/id.go, and organised
// differently (word loader + generic tail) so that a shared slip is unlikely.
// It is part of the trusted base of C10 and is itself validated at run time
// against the ids pinned by the repository's golden vectors.

// lookup2 mixes three 32-bit words (all arithmetic modulo 2^32).
func lookup2mix(a, b, c uint32) (uint32, uint32, uint32) {
	a -= b
	a -= c
	a ^= c >> 13
	b -= c
	b -= a
	b ^= a << 8
	c -= a
	c -= b
	c ^= b >> 13
	a -= b
	a -= c
	a ^= c >> 12
	b -= c
	b -= a
	b ^= a << 16
	c -= a
	c -= b
	c ^= b >> 5
	a -= b
	a -= c
	a ^= c >> 3
	b -= c
	b -= a
	b ^= a << 10
	c -= a
	c -= b
	c ^= b >> 15
	return a, b, c
}

func le32(p []byte) uint32 {
	return uint32(p[0]) | uint32(p[1])<<8 | uint32(p[2])<<16 | uint32(p[3])<<24
}

// jenkins32 is lookup2 with initial value seed over the whole of p.
func jenkins32(p []byte, seed uint32) uint32 {
	const golden = 0x9e3779b9
	a, b, c := uint32(golden), uint32(golden), seed
	n := len(p)
	for len(p) >= 12 {
		a += le32(p[0:4])
		b += le32(p[4:8])
		c += le32(p[8:12])
		a, b, c = lookup2mix(a, b, c)
		p = p[12:]
	}
	c += uint32(n)
	// the remaining (at most 11) bytes: bytes 0..3 go to a, 4..7 to b, and
	// 8..10 to the upper three bytes of c (its low byte holds the length)
	for k, by := range p {
		v := uint32(by)
		switch {
		case k < 4:
			a += v << (8 * uint(k))
		case k < 8:
			b += v << (8 * uint(k-4))
		default:
			c += v << (8 * uint(k-7))
		}
	}
	_, _, c = lookup2mix(a, b, c)
	return c
}

// Fingerprint64 is the 64-bit fingerprint of s.
func Fingerprint64(s string) uint64 {
	p := []byte(s)
	hi := jenkins32(p, 0)
	lo := jenkins32(p, 102072)
	if hi == 0 && (lo == 0 || lo == 1) {
		hi ^= 0x130f9bef
		lo ^= 0x94a0a928
	}
	return uint64(hi)<<32 | uint64(lo)
}

// MixMeaning folds the meaning's fingerprint into fp: rotate-free shift left
// by one with the old sign bit carried into bit 0, plus the fingerprint.
func MixMeaning(fp, meaningFp uint64) uint64 {
	carry := fp >> 63
	return fp<<1 + carry + meaningFp
}

// OwnID computes the id for an id key (the placeholder string as the spec's
// MsgKeyString spells it) and a meaning ("" = none).
func OwnID(key, meaning string) uint64 {
	fp := Fingerprint64(key)
	if meaning != "" {
		fp = MixMeaning(fp, Fingerprint64(meaning))
	}
	return fp &^ (1 << 63)
}

// Golden is one id pinned by the repository's tests (values taken from
// official Soy's examples_extracted.xlf according to soymsg_test.go).
type Golden struct {
	Meaning     string `json:"meaning"`
	Desc        string `json:"desc"`
	Body        string `json:"body"`  // Soy source of the message body
	PhStr       string `json:"phstr"` // pinned placeholder string
	Key         string `json:"key"`   // what the id is computed from
	ID          uint64 `json:"id"`    // pinned id
	Vars        string `json:"vars"`  // space-separated params the body uses
	Where       string `json:"where"` // test file (relative to the repo) pinning it
	NeedsCallee bool   `json:"needsCallee,omitempty"`
}

// Goldens are the vectors of soymsg/soymsg_test.go (TestFeatureExtractedMsgs)
// and soymsg/pomsg/testdata (id of "Hello {NAME}!").
var Goldens = []Golden{
	{"noun", "The word 'Archive' used as a noun, i.e. an information store.", "Archive", "Archive", "Archive", 7224011416745566687, "", "soymsg/soymsg_test.go", false},
	{"verb", "The word 'Archive' used as a verb, i.e. to store information.", "Archive", "Archive", "Archive", 4826315192146469447, "", "soymsg/soymsg_test.go", false},
	{"", "", "A trip was taken.", "A trip was taken.", "A trip was taken.", 3329840836245051515, "", "soymsg/soymsg_test.go", false},
	{"", "Ask user to pick best keyword", "Your favorite keyword", "Your favorite keyword", "Your favorite keyword", 2209690285855487595, "", "soymsg/soymsg_test.go", false},
	{"", "Link to Help", "Help", "Help", "Help", 7911416166208830577, "", "soymsg/soymsg_test.go", false},
	{"", "Example: Alice took a trip to wonderland.", "{$name} took a trip to {$destination}.", "{NAME} took a trip to {DESTINATION}.", "NAME took a trip to DESTINATION.", 768490705511913603, "name destination", "soymsg/soymsg_test.go", false},
	{"", "Example: 5 is nowhere near the value of pi.", "{$pi} is nowhere near the value of pi.", "{PI} is nowhere near the value of pi.", "PI is nowhere near the value of pi.", 889614911019327165, "pi", "soymsg/soymsg_test.go", false},
	{"", "Example: Alice took a trip.", "{$name} took a trip.", "{NAME} took a trip.", "NAME took a trip.", 3179387603303514412, "name", "soymsg/soymsg_test.go", false},
	{"", "Example: The set of prime numbers is {2, 3, 5, 7, 11, 13, ...}.", "The set of {$setName} is {lb}{call .callee}{param items: $setMembers /}{/call}, ...{rb}.", "The set of {SET_NAME} is {{XXX}, ...}.", "The set of SET_NAME is {XXX, ...}.", 135956960462609535, "setName setMembers", "soymsg/soymsg_test.go", true},
	{"", "The number of eggs you need.", "{plural $eggs}{case 1}You have one egg{default}You have {$eggs} eggs{/plural}", "{EGGS_1,plural,=1{You have one egg}other{You have {EGGS_2} eggs}}", "{EGGS_1,plural,=1{You have one egg}other{You have {EGGS_2} eggs}}", 176798647517908084, "eggs", "soymsg/soymsg_test.go", false},
	{"", "Says hello to a person.", "Hello {$name}!", "Hello {NAME}!", "Hello NAME!", 6936162475751860807, "name", "soymsg/pomsg/testdata/en.po", false},
}
