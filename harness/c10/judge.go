package c10

import (
	"fmt"
	"sort"
	"strconv"
	"strings"

	"verif/core"
)

// IdTerm is the spec's abstract id of a body for one meaning.
type IdTerm struct {
	Meaning string      `json:"meaning"`
	Term    interface{} `json:"term"`
}

// EvalIdTerm evaluates the spec's abstract id term (fp / mix uninterpreted in
// TLA+) with the trusted transcription of the fingerprint; the sign bit is
// cleared at the end as the published routine does.
func EvalIdTerm(t interface{}) (uint64, error) {
	v, err := evalTerm(t)
	return v &^ (1 << 63), err
}

func evalTerm(t interface{}) (uint64, error) {
	a, ok := t.([]interface{})
	if !ok || len(a) < 2 {
		return 0, fmt.Errorf("bad id term %v", t)
	}
	switch a[0] {
	case "fpb": // fingerprint of a byte string
		bs, ok := a[1].([]interface{})
		if !ok || len(a) != 2 {
			return 0, fmt.Errorf("bad fpb term %v", t)
		}
		b := make([]byte, len(bs))
		for i, v := range bs {
			n, err := strconv.Atoi(fmt.Sprint(v))
			if err != nil {
				return 0, fmt.Errorf("bad fpb term %v", t)
			}
			b[i] = byte(n)
		}
		return Fingerprint64(string(b)), nil
	case "fp":
		s, ok := a[1].(string)
		if !ok || len(a) != 2 {
			return 0, fmt.Errorf("bad fp term %v", t)
		}
		return Fingerprint64(s), nil
	case "mix":
		if len(a) != 3 {
			return 0, fmt.Errorf("bad mix term %v", t)
		}
		x, err := evalTerm(a[1])
		if err != nil {
			return 0, err
		}
		y, err := evalTerm(a[2])
		if err != nil {
			return 0, err
		}
		return MixMeaning(x, y), nil
	}
	return 0, fmt.Errorf("bad id term %v", t)
}

func (c *MsgCase) idFor(meaning string) (uint64, bool) {
	for _, t := range c.Terms {
		if t.Meaning == meaning {
			v, err := EvalIdTerm(t.Term)
			return v, err == nil
		}
	}
	return 0, false
}

func eqNames(a, b []string) bool {
	if len(a) != len(b) {
		return false
	}
	for i := range a {
		if a[i] != b[i] {
			return false
		}
	}
	return true
}

type replayCase struct {
	SubFamily string      `json:"subfamily,omitempty"`
	Case      *MsgCase    `json:"case"`
	Meaning   string      `json:"meaning"`
	Source    string      `json:"source"`
	Expected  interface{} `json:"expected"`
	Observed  interface{} `json:"observed"`
	Repo      string      `json:"repo"`
}

// Judge compares the observations with the spec and reports violations.
func Judge(ctx *core.Ctx, cases []*MsgCase, obs *Observations) {
	ctx.AddEvals(obs.MsgObs)
	ctx.Extra["compiles"] = obs.Compiles
	byID := map[uint64]map[string]string{}  // observed id -> spec key|meaning -> a case id
	byKey := map[string]map[uint64]string{} // spec key|meaning -> observed ids
	nontrivial, judged := 0, 0
	for _, c := range cases {
		co := obs.M[c.ID]
		fam := c.Family()
		src := IsoSource(c, "", "d")
		if co == nil {
			ctx.ToolError("case %s was not observed", c.ID)
			continue
		}
		judged++
		ctx.AddTraces(1)
		if c.NodeCount() > 0 {
			nontrivial++
			ctx.Distinct(c.ID)
		}
		if len(co.Errors) > 0 {
			ctx.Violation(core.Sig{Family: "M2-names", Feature: "compile-reject," + c.Feat},
				fmt.Sprintf("valid message rejected: %s: %s", UnparseBody(c.Parts), co.Errors[0]),
				replayCase{SubFamily: fam, Case: c, Source: co.ErrSrc, Observed: co.Errors, Repo: core.RepoDir})
			continue
		}
		var meanings []string
		for mn := range co.ByMeaning {
			meanings = append(meanings, mn)
		}
		sort.Strings(meanings) // "" first
		namesOK := true
		for _, mn := range meanings {
			mm := co.ByMeaning[mn]
			var seen []*Seen
			for _, s := range mm {
				seen = append(seen, s)
			}
			sort.Slice(seen, func(i, j int) bool { return seen[i].Obs.Key() < seen[j].Obs.Key() })
			expID, haveID := c.idFor(mn)
			exp := map[string]interface{}{"names": c.Names, "phstr": c.PhStr, "key": c.Key, "meaning": mn}
			if haveID {
				exp["id"] = expID
			}
			if mn != "" && !namesOK {
				break // the names are judged once, on the variant without meaning
			}
			if len(seen) > 1 {
				// the id / the names are not a function of the message
				namesOK = false
				what := "names-and-id"
				if eqNames(seen[0].Obs.Names, seen[1].Obs.Names) && seen[0].Obs.PhStr == seen[1].Obs.PhStr {
					what = "id"
				} else {
					ids := map[uint64]bool{}
					for _, s := range seen {
						ids[s.Obs.ID] = true
					}
					if len(ids) == 1 {
						what = "names"
					}
				}
				var desc []string
				for _, s := range seen {
					desc = append(desc, fmt.Sprintf("%s id=%d (%dx alone, %dx embedded; first in %s)", s.Obs.PhStr, s.Obs.ID, s.In["iso"], s.N-s.In["iso"], s.Ctx))
				}
				// several outcomes in one kind of context: not a function of the
				// message at all; otherwise a function of message + surroundings
				how := "-depend-on-surrounding-code,"
				kinds := map[string]int{}
				alone := map[string]bool{}
				for _, s := range seen {
					for kind := range s.In {
						kinds[kind]++
						if kind == "alone" {
							alone[s.Obs.Key()] = true
						}
					}
				}
				for _, k := range kinds {
					if k > 1 {
						how = "-vary-across-compiles,"
					}
				}
				// an outcome of a compile history that a process compiling the
				// message alone never shows: the process remembers something
				if len(alone) == 1 {
					for _, s := range seen {
						for kind := range s.In {
							if strings.HasPrefix(kind, "hist-") && !alone[s.Obs.Key()] {
								how = "-depend-on-compile-history,"
							}
						}
					}
				}
				feat := what + how + c.Feat
				if how == "-depend-on-surrounding-code," {
					feat = what + "-depend-on-surrounding-code" // whatever the body
				}
				if how == "-depend-on-compile-history," {
					feat = what + "-depend-on-compile-history"
				}
				ctx.Violation(core.Sig{Family: "M2-names", Feature: feat},
					fmt.Sprintf("%s compiles to different %s: %s; spec: %s", UnparseBody(c.Parts), what, strings.Join(desc, " / "), c.PhStr),
					replayCase{SubFamily: fam, Case: c, Meaning: mn, Source: seen[0].Src, Expected: exp, Observed: seen, Repo: core.RepoDir})
				continue
			}
			s := seen[0]
			if !eqNames(s.Obs.Names, c.Names) || s.Obs.PhStr != c.PhStr {
				namesOK = false
				ctx.Violation(core.Sig{Family: "M2-names", Feature: "wrong-names," + c.Feat},
					fmt.Sprintf("%s: placeholder string %q names %v; spec %q %v", UnparseBody(c.Parts), s.Obs.PhStr, s.Obs.Names, c.PhStr, c.Names),
					replayCase{SubFamily: fam, Case: c, Meaning: mn, Source: s.Src, Expected: exp, Observed: s, Repo: core.RepoDir})
				continue
			}
			// names as specified: the id must be the fingerprint of the key
			kk := c.Key + "\x00" + mn
			if byID[s.Obs.ID] == nil {
				byID[s.Obs.ID] = map[string]string{}
			}
			byID[s.Obs.ID][kk] = c.ID
			if byKey[kk] == nil {
				byKey[kk] = map[uint64]string{}
			}
			byKey[kk][s.Obs.ID] = c.ID
			if haveID && s.Obs.ID != expID {
				f := "wrong-id"
				if c.Family() == "M2-plural" {
					f += ",plural"
				}
				if mn != "" {
					f += ",with-meaning"
				}
				ctx.Violation(core.Sig{Family: "M2-id", Feature: f},
					fmt.Sprintf("%s (meaning %q): id %d; the published fingerprint of %q gives %d", UnparseBody(c.Parts), mn, s.Obs.ID, c.Key, expID),
					replayCase{SubFamily: fam, Case: c, Meaning: mn, Source: s.Src, Expected: exp, Observed: s, Repo: core.RepoDir})
			}
		}
		if judged <= 3 || strings.HasPrefix(c.ID, "X24") {
			var o interface{}
			if mm := co.ByMeaning[""]; mm != nil {
				for _, s := range mm {
					o = s.Obs
					break
				}
			}
			ctx.Sample(map[string]interface{}{"id": c.ID, "source": src, "spec": map[string]interface{}{"names": c.Names, "phstr": c.PhStr, "key": c.Key}, "real": o})
		}
	}
	// ids are equal iff the id keys (incl. meaning) are equal, across the family
	// (over the cases whose outcome is single-valued)
	var keys []string
	for k := range byKey {
		keys = append(keys, k)
	}
	sort.Strings(keys)
	for _, k := range keys {
		if ids := byKey[k]; len(ids) > 1 {
			var l []string
			for id, cid := range ids {
				l = append(l, fmt.Sprintf("%d (%s)", id, cid))
			}
			sort.Strings(l)
			ctx.Violation(core.Sig{Family: "M2-family", Feature: "same-key-different-ids"},
				fmt.Sprintf("messages with the same id key %q got different ids: %v", k, l), map[string]interface{}{"key": k, "ids": l})
		}
	}
	var idl []uint64
	for id := range byID {
		idl = append(idl, id)
	}
	sort.Slice(idl, func(i, j int) bool { return idl[i] < idl[j] })
	for _, id := range idl {
		if ks := byID[id]; len(ks) > 1 {
			var l []string
			for k, cid := range ks {
				l = append(l, fmt.Sprintf("%q (%s)", k, cid))
			}
			sort.Strings(l)
			ctx.Violation(core.Sig{Family: "M2-family", Feature: "different-keys-same-id"},
				fmt.Sprintf("messages with different id keys share id %d: %v", id, l), map[string]interface{}{"id": id, "keys": l})
		}
	}
	ctx.Extra["cases_judged"] = judged
	ctx.Extra["cases_nontrivial"] = nontrivial
	ctx.Extra["distinct_id_keys"] = len(byKey)
}
