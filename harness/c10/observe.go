package c10

import (
	"bytes"
	"encoding/json"
	"fmt"
	"math/rand"
	"os"
	"os/exec"
	"path/filepath"
	"sort"
	"strconv"
	"strings"
	"sync"
	"sync/atomic"

	"verif/core"
)

// Seen is one distinct outcome observed for a (case, meaning).
type Seen struct {
	Obs Obs    `json:"obs"`
	N   int    `json:"n"`   // how many times
	Ctx string `json:"ctx"` // first context it was seen in (iso/emb, procN:iso, ...)
	Src string `json:"src"` // source file that produced it first
	// In counts the observations per kind of context: "iso" (alone in a file)
	// and "emb-<kind>" (the ways of embedding, EmbedKinds), whatever the process
	In map[string]int `json:"in"`
}

// CaseObs collects the outcomes for one case.
type CaseObs struct {
	ByMeaning map[string]map[string]*Seen `json:"byMeaning"` // meaning -> Obs.Key() -> Seen
	Errors    []string                    `json:"errors,omitempty"`
	ErrSrc    string                      `json:"errSrc,omitempty"`
}

// Observations is the result of ObserveAll.
type Observations struct {
	mu       sync.Mutex
	M        map[string]*CaseObs `json:"m"`
	Compiles int64               `json:"compiles"`
	MsgObs   int64               `json:"msgObs"`
}

func newObservations() *Observations { return &Observations{M: map[string]*CaseObs{}} }

func (o *Observations) add(id, meaning string, ob Obs, ctx, src string) {
	o.mu.Lock()
	defer o.mu.Unlock()
	o.addLocked(id, meaning, ob, 1, ctx, src)
}

func (o *Observations) addLocked(id, meaning string, ob Obs, n int, ctx, src string) {
	co := o.M[id]
	if co == nil {
		co = &CaseObs{ByMeaning: map[string]map[string]*Seen{}}
		o.M[id] = co
	}
	mm := co.ByMeaning[meaning]
	if mm == nil {
		mm = map[string]*Seen{}
		co.ByMeaning[meaning] = mm
	}
	k := ob.Key()
	kind := ctx // iso | emb-<wrapper>, whatever the process
	if i := strings.LastIndex(ctx, ":"); i >= 0 {
		kind = ctx[i+1:]
	}
	s := mm[k]
	if s == nil {
		s = &Seen{Obs: ob, Ctx: ctx, Src: src, In: map[string]int{}}
		mm[k] = s
	}
	s.N += n
	s.In[kind] += n
	o.MsgObs += int64(n)
}

func (o *Observations) addErr(id, msg, src string) {
	o.mu.Lock()
	defer o.mu.Unlock()
	co := o.M[id]
	if co == nil {
		co = &CaseObs{ByMeaning: map[string]map[string]*Seen{}}
		o.M[id] = co
	}
	if len(co.Errors) < 3 {
		co.Errors = append(co.Errors, msg)
		co.ErrSrc = src
	}
}

// Merge folds the observations of a child process in.
func (o *Observations) Merge(c *Observations, label string) {
	o.mu.Lock()
	defer o.mu.Unlock()
	for id, co := range c.M {
		for mn, mm := range co.ByMeaning {
			for _, s := range mm {
				for kind, n := range s.In {
					o.addLocked(id, mn, s.Obs, n, label+":"+kind, s.Src)
				}
			}
		}
		if len(co.Errors) > 0 {
			dst := o.M[id]
			if dst == nil {
				dst = &CaseObs{ByMeaning: map[string]map[string]*Seen{}}
				o.M[id] = dst
			}
			dst.Errors = append(dst.Errors, co.Errors...)
			dst.ErrSrc = co.ErrSrc
		}
	}
	o.Compiles += c.Compiles
}

// Plan says how often and in which contexts each body is compiled.
type Plan struct {
	Reps       func(*MsgCase) int // isolated compiles per case
	EmbedReps  int                // compiles of each embedding file
	Meanings   bool               // also compile meaning variants for a subset
	Seed       int64
	ChunkSize  int
	Goroutines int
}

// OtherMeanings are the meanings (besides none) for which the spec exports id terms.
var OtherMeanings = []string{"m", "verb"}

func caseGlobals(c *MsgCase) map[string]string {
	g := map[string]string{}
	var walk func(v interface{})
	walk = func(v interface{}) {
		switch x := v.(type) {
		case map[string]interface{}:
			if x["k"] == "global" {
				if n, ok := x["name"].(string); ok {
					g[n] = "gv"
				}
			}
			for _, c := range x {
				walk(c)
			}
		case []interface{}:
			for _, c := range x {
				walk(c)
			}
		}
	}
	var parts func(ps []Part)
	parts = func(ps []Part) {
		for _, p := range ps {
			if p.E != nil {
				walk(map[string]interface{}(p.E))
			}
			for _, cs := range p.Cases {
				parts(cs.Body)
			}
			parts(p.Dflt)
		}
	}
	parts(c.Parts)
	if len(g) == 0 {
		return nil
	}
	return g
}

// IsoSource is the file holding the message alone.
func IsoSource(c *MsgCase, meaning, desc string) string {
	body := UnparseBody(c.Parts)
	return "{namespace c10.iso}\n" + Template("t", BodyVars(c.Parts), "", MsgTag(meaning, desc, body))
}

func unionVars(a []string, extra ...string) []string {
	set := map[string]bool{}
	for _, v := range a {
		set[v] = true
	}
	for _, v := range extra {
		set[v] = true
	}
	var r []string
	for v := range set {
		r = append(r, v)
	}
	sort.Strings(r)
	return r
}

// EmbedKinds are the ways a message is embedded (cf. SoyMsg.MsgContextKinds):
// every kind of block that can hold a message, nested, and repeated.
var EmbedKinds = []string{"after-message", "if", "elseif", "else", "foreach", "ifempty", "switch-case",
	"switch-default", "let-block", "call-param", "log", "nested", "twice"}

// embedTemplate wraps the target message in other code and messages.
func embedTemplate(j int, c *MsgCase, desc string) string {
	body := UnparseBody(c.Parts)
	m := MsgTag("", desc, body)
	noise := `{msg desc="noise"}{$x_1} and {$x}{/msg}`
	var t string
	switch EmbedKinds[j%len(EmbedKinds)] {
	case "after-message":
		t = `lead {$x}{msg desc="noise one"}Hello {$x_1} and {$x}{/msg}` + m + `{msg meaning="z" desc="noise two"}{$x}{/msg}{$x_1}`
	case "if":
		t = `{if $x}` + m + `{else}` + noise + `{/if}`
	case "elseif":
		t = `{if $x}` + noise + `{elseif $x_1}` + m + `{/if}`
	case "else":
		t = `{if $x}` + noise + `{elseif $x_1}-{else}` + m + `{/if}`
	case "foreach":
		t = `{foreach $i in [1, 2]}{$i}` + m + `{/foreach}` + noise
	case "ifempty":
		t = `{foreach $i in $x}{$i}{ifempty}` + m + `{/foreach}{$x_1}`
	case "switch-case":
		t = `{switch $x}{case 1}` + m + `{default}` + noise + `{/switch}`
	case "switch-default":
		t = `{switch $x}{case 1, 2}` + noise + `{default}` + m + `{/switch}`
	case "let-block":
		t = `{let $v}` + m + `{/let}{$v}{$x}{$x_1}`
	case "call-param":
		t = `{call .sink}{param k}` + m + `{/param}{/call}{$x}{$x_1}`
	case "log":
		t = `{log}` + m + `{/log}{$x}{$x_1}`
	case "nested":
		t = `{if $x}{foreach $i in [1]}{$i}{call .sink}{param k}{let $v}` + m + `{/let}{$v}{/param}{/call}{/foreach}{/if}{$x_1}`
	default: // twice
		t = m + MsgTag("", desc+"|dup", body) + `{$x}{$x_1}`
	}
	return Template("t"+strconv.Itoa(j), unionVars(BodyVars(c.Parts), "x", "x_1"), "", t)
}

// embedSink is the callee of the call-param / nested wrappers.
const embedSink = "/** @param k */\n{template .sink}\n{$k}\n{/template}\n"

// IsSplit: a case of the text|meaning split family (it has its own meaning).
func (c *MsgCase) IsSplit() bool { return strings.HasPrefix(c.ID, "S") }

// IsAttr: a case of the {msg}-attributes family (meaning and descriptions with
// quotes, backslashes, newlines, braces, non-ASCII, outer spaces).
func (c *MsgCase) IsAttr() bool { return strings.HasPrefix(c.ID, "A") }

// AwkwardTexts are used as descriptions of the attribute family (they must
// not influence anything); cf. SoyMsg.MsgAttrTexts.
var AwkwardTexts = []string{`say "hi"`, `back\slash`, "two\nlines", "it's", "{x}", " padded ", "ünï", ""}

// caseMeanings lists the meanings a case is compiled with.
func caseMeanings(c *MsgCase, withOthers bool) []string {
	if c.IsSplit() || c.IsAttr() {
		var ms []string
		for _, t := range c.Terms {
			ms = append(ms, t.Meaning)
		}
		return ms
	}
	if withOthers {
		return append([]string{""}, OtherMeanings...)
	}
	return []string{""}
}

// ObserveSequential compiles the cases one after the other in the given order
// (one compile each, alone in a file): a compile history.
func ObserveSequential(cases []*MsgCase, label string) *Observations {
	obs := newObservations()
	for _, c := range cases {
		for _, mn := range caseMeanings(c, false) {
			desc := "T|" + c.ID + "|" + label
			src := IsoSource(c, mn, desc)
			m, err := ObserveByDesc([]core.File{{Name: "iso.soy", Text: src}}, caseGlobals(c))
			obs.Compiles++
			if err != nil {
				obs.addErr(c.ID, err.Error(), src)
				continue
			}
			if o, ok := m[desc]; ok {
				obs.add(c.ID, mn, o, label, src)
			}
		}
	}
	return obs
}

func wantsMeanings(c *MsgCase, r *rand.Rand) bool {
	if strings.HasPrefix(c.ID, "X") || len(c.Parts) <= 2 && !strings.HasPrefix(c.ID, "P") {
		return true
	}
	return r.Intn(100) < 3
}

// ObserveAll compiles every case as the plan says and collects the outcomes.
func ObserveAll(cases []*MsgCase, plan Plan) *Observations {
	obs := newObservations()
	var compiles int64
	jobs := make(chan func(), 256)
	var wg sync.WaitGroup
	n := plan.Goroutines
	if n < 1 {
		n = 1
	}
	for i := 0; i < n; i++ {
		wg.Add(1)
		go func() {
			defer wg.Done()
			for j := range jobs {
				j()
			}
		}()
	}
	r := rand.New(rand.NewSource(plan.Seed))

	// isolated, in a seeded order (what was compiled before must not matter)
	for _, ci := range r.Perm(len(cases)) {
		c := cases[ci]
		reps := plan.Reps(c)
		meanings := caseMeanings(c, plan.Meanings && wantsMeanings(c, r))
		globals := caseGlobals(c)
		jobs <- func() {
			for mi, mn := range meanings {
				k := reps
				if mi > 0 && !c.IsSplit() && !c.IsAttr() {
					k = 3
				}
				for i := 0; i < k; i++ {
					desc := fmt.Sprintf("T|%s|%d description no. %d", c.ID, i, i*7919)
					src := IsoSource(c, mn, desc)
					if c.IsAttr() {
						// descriptions with awkward characters, hidden, and (for an
						// absent meaning) meaning="" written out
						desc += " " + AwkwardTexts[i%len(AwkwardTexts)]
						src = "{namespace c10.iso}\n" + Template("t", BodyVars(c.Parts), "",
							MsgTagAttrs(mn, desc, UnparseBody(c.Parts), i%2 == 1, i%3 != 1))
					}
					m, err := ObserveByDesc([]core.File{{Name: "iso.soy", Text: src}}, globals)
					atomic.AddInt64(&compiles, 1)
					if err != nil {
						obs.addErr(c.ID, err.Error(), src)
						break
					}
					o, ok := m[desc]
					if !ok && len(m) == 1 {
						// the only message of the file, whatever became of its description
						for _, only := range m {
							o, ok = only, true
						}
					}
					if !ok {
						obs.addErr(c.ID, "message not found after compile", src)
						break
					}
					obs.add(c.ID, mn, o, "iso", src)
				}
			}
		}
	}

	// embedded: shuffled chunks, every template wraps its message differently
	if plan.EmbedReps > 0 {
		idx := r.Perm(len(cases))
		for start := 0; start < len(idx); start += plan.ChunkSize {
			end := start + plan.ChunkSize
			if end > len(idx) {
				end = len(idx)
			}
			chunk := make([]*MsgCase, 0, end-start)
			for _, i := range idx[start:end] {
				chunk = append(chunk, cases[i])
			}
			chunkNo := start / plan.ChunkSize
			jobs <- func() {
				globals := map[string]string{}
				for _, c := range chunk {
					for k, v := range caseGlobals(c) {
						globals[k] = v
					}
				}
				for rep := 0; rep < plan.EmbedReps; rep++ {
					var b strings.Builder
					b.WriteString("{namespace c10.emb}\n" + embedSink)
					descs := make([]string, len(chunk))
					for j, c := range chunk {
						descs[j] = fmt.Sprintf("T|%s|e%d in chunk %d", c.ID, rep, chunkNo)
						b.WriteString(embedTemplate(j+rep, c, descs[j]))
					}
					src := b.String()
					m, err := ObserveByDesc([]core.File{{Name: "emb.soy", Text: src}}, globals)
					atomic.AddInt64(&compiles, 1)
					if err != nil {
						// find the culprit by compiling its template alone
						for j, c := range chunk {
							one := "{namespace c10.emb}\n" + embedSink + embedTemplate(j+rep, c, descs[j])
							if _, e1 := ObserveByDesc([]core.File{{Name: "emb.soy", Text: one}}, caseGlobals(c)); e1 != nil {
								obs.addErr(c.ID, e1.Error(), one)
							}
						}
						continue
					}
					for j, c := range chunk {
						for _, d := range []string{descs[j], descs[j] + "|dup"} {
							if o, ok := m[d]; ok {
								kind := EmbedKinds[(j+rep)%len(EmbedKinds)]
								if j == len(chunk)-1 {
									kind += "+last-template"
								}
								obs.add(c.ID, "", o, "emb-"+kind, src)
							}
						}
					}
				}
			}
		}
	}
	close(jobs)
	wg.Wait()
	obs.Compiles = compiles
	return obs
}

// ---- fresh processes ----------------------------------------------------------

// ChildPlan is the (smaller) plan run in each fresh process.
type ChildPlan struct {
	Reps       int `json:"reps"`
	EmbedReps  int `json:"embedReps"`
	Goroutines int `json:"goroutines"`
	// History, if set, makes the child compile the cases once each, one after
	// the other in the order given, and label the observations with it
	History string `json:"history,omitempty"`
}

const childEnv = "VERIF_C10_CHILD"

// RunChild re-executes the checker binary in child mode on the cases.
func RunChild(ctx *core.Ctx, cases []*MsgCase, plan ChildPlan, seed int64) (*Observations, error) {
	dir := filepath.Join(core.VerifDir, "out", "c10")
	if err := os.MkdirAll(dir, 0o755); err != nil {
		return nil, err
	}
	path := filepath.Join(dir, fmt.Sprintf("cases-%d-%d.json", os.Getpid(), seed))
	in := map[string]interface{}{"cases": cases, "plan": plan, "seed": seed}
	b, err := json.Marshal(in)
	if err != nil {
		return nil, err
	}
	if err := os.WriteFile(path, b, 0o644); err != nil {
		return nil, err
	}
	defer os.Remove(path)
	exe, err := os.Executable()
	if err != nil {
		return nil, err
	}
	cmd := exec.Command(exe, "quick")
	cmd.Env = append(os.Environ(), childEnv+"="+path)
	var out, errb bytes.Buffer
	cmd.Stdout = &out
	cmd.Stderr = &errb
	if err := cmd.Run(); err != nil {
		return nil, fmt.Errorf("%v: %s", err, errb.String())
	}
	res := newObservations()
	if err := json.Unmarshal(out.Bytes(), res); err != nil {
		return nil, fmt.Errorf("bad child output: %v", err)
	}
	return res, nil
}

func init() {
	path := os.Getenv(childEnv)
	if path == "" {
		return
	}
	b, err := os.ReadFile(path)
	if err != nil {
		fmt.Fprintln(os.Stderr, err)
		os.Exit(3)
	}
	var in struct {
		Cases []*MsgCase `json:"cases"`
		Plan  ChildPlan  `json:"plan"`
		Seed  int64      `json:"seed"`
	}
	d := json.NewDecoder(bytes.NewReader(b))
	d.UseNumber()
	if err := d.Decode(&in); err != nil {
		fmt.Fprintln(os.Stderr, err)
		os.Exit(3)
	}
	var obs *Observations
	if in.Plan.History != "" {
		obs = ObserveSequential(in.Cases, in.Plan.History)
	} else {
		obs = ObserveAll(in.Cases, Plan{Reps: func(*MsgCase) int { return in.Plan.Reps }, EmbedReps: in.Plan.EmbedReps,
			Seed: in.Seed, ChunkSize: 40, Goroutines: in.Plan.Goroutines})
	}
	out, err := json.Marshal(obs)
	if err != nil {
		fmt.Fprintln(os.Stderr, err)
		os.Exit(3)
	}
	os.Stdout.Write(out)
	os.Exit(0)
}

// RunHistories compiles the cases in fresh processes in several orders
// (forwards, backwards, shuffled) and each case alone in a process of its own.
// An id must not depend on what the process compiled before.
func RunHistories(ctx *core.Ctx, cases []*MsgCase, seed int64) (*Observations, int, error) {
	type run struct {
		cases []*MsgCase
		label string
	}
	var runs []run
	rev := make([]*MsgCase, len(cases))
	for i, c := range cases {
		rev[len(cases)-1-i] = c
	}
	shuf := make([]*MsgCase, len(cases))
	for i, k := range rand.New(rand.NewSource(seed)).Perm(len(cases)) {
		shuf[i] = cases[k]
	}
	runs = append(runs, run{cases, "hist-forward"}, run{rev, "hist-backward"}, run{shuf, "hist-shuffled"})
	for _, c := range cases {
		runs = append(runs, run{[]*MsgCase{c}, "alone"})
	}
	res := newObservations()
	var mu sync.Mutex
	var first error
	sem := make(chan struct{}, 8)
	var wg sync.WaitGroup
	for i, r := range runs {
		wg.Add(1)
		go func(i int, r run) {
			defer wg.Done()
			sem <- struct{}{}
			defer func() { <-sem }()
			o, err := RunChild(ctx, r.cases, ChildPlan{History: r.label}, seed*1000+int64(i))
			mu.Lock()
			defer mu.Unlock()
			if err != nil {
				if first == nil {
					first = err
				}
				return
			}
			res.Merge(o, "fresh")
		}(i, r)
	}
	wg.Wait()
	return res, len(runs), first
}
