package c10

import (
	"fmt"
	"strings"

	"github.com/robfig/soy"
	"github.com/robfig/soy/ast"
	"github.com/robfig/soy/data"
	"github.com/robfig/soy/soymsg"
	"github.com/robfig/soy/template"

	"verif/core"
)

// Obs is what the public API shows of one compiled {msg}.
type Obs struct {
	Names []string `json:"names"` // placeholder / plural-var names in visiting order
	PhStr string   `json:"phstr"` // soymsg.PlaceholderString
	ID    uint64   `json:"id"`    // ast.MsgNode.ID
}

// Key is a comparable rendering of the observation.
func (o Obs) Key() string {
	return fmt.Sprintf("%s|%s|%d", strings.Join(o.Names, ","), o.PhStr, o.ID)
}

// CompileRegistry compiles files with the real compiler.
func CompileRegistry(files []core.File, globals map[string]string) (reg *template.Registry, err error) {
	defer func() {
		if r := recover(); r != nil {
			err = fmt.Errorf("PANIC in compile: %v", r)
		}
	}()
	b := soy.NewBundle()
	for _, f := range files {
		b.AddTemplateString(f.Name, f.Text)
	}
	if len(globals) > 0 {
		g := data.Map{}
		for k, v := range globals {
			g[k] = data.String(v)
		}
		b.AddGlobalsMap(g)
	}
	return b.Compile()
}

// MsgNodes returns every {msg} node of the registry in document order.
func MsgNodes(reg *template.Registry) []*ast.MsgNode {
	var out []*ast.MsgNode
	var walk func(n ast.Node)
	walk = func(n ast.Node) {
		if m, ok := n.(*ast.MsgNode); ok {
			out = append(out, m)
			return
		}
		if p, ok := n.(ast.ParentNode); ok {
			for _, c := range p.Children() {
				walk(c)
			}
		}
	}
	for _, t := range reg.Templates {
		walk(t.Node)
	}
	return out
}

// Observe reads names, placeholder string and id off a compiled message.
// Visiting order as in SoyMsg.MsgNodeParts: breadth first with a queue -- the
// top-level placeholders and plurals, then the nodes of each plural's cases
// and default appended behind everything already queued, and so on.
func Observe(m *ast.MsgNode) (o Obs, err error) {
	defer func() {
		if r := recover(); r != nil {
			err = fmt.Errorf("PANIC reading message: %v", r)
		}
	}()
	substOf := func(p ast.ParentNode) []ast.Node {
		var r []ast.Node
		for _, c := range p.Children() {
			switch c.(type) {
			case *ast.MsgPlaceholderNode, *ast.MsgPluralNode:
				r = append(r, c)
			}
		}
		return r
	}
	queue := substOf(m.Body)
	for len(queue) > 0 {
		n := queue[0]
		queue = queue[1:]
		switch n := n.(type) {
		case *ast.MsgPlaceholderNode:
			o.Names = append(o.Names, n.Name)
		case *ast.MsgPluralNode:
			o.Names = append(o.Names, n.VarName)
			for _, cs := range n.Cases {
				queue = append(queue, substOf(cs.Body)...)
			}
			queue = append(queue, substOf(n.Default)...)
		}
	}
	if o.Names == nil {
		o.Names = []string{}
	}
	o.PhStr = SafeStr(soymsg.PlaceholderString(m))
	o.ID = m.ID
	return o, nil
}

// ObserveByDesc compiles the files and returns the observation of every
// message keyed by its description.
func ObserveByDesc(files []core.File, globals map[string]string) (map[string]Obs, error) {
	reg, err := CompileRegistry(files, globals)
	if err != nil {
		return nil, err
	}
	res := map[string]Obs{}
	for _, m := range MsgNodes(reg) {
		o, err := Observe(m)
		if err != nil {
			return nil, err
		}
		res[m.Desc] = o
	}
	return res, nil
}
