package c10

import (
	"fmt"
	"os"
	"path/filepath"
	"strings"
	"time"

	"github.com/robfig/soy"
	"github.com/robfig/soy/template"

	"verif/core"
)

// checkWatchedRecompile: a registry the library hands out after it recompiled
// a watched file must carry the same ids and placeholder names as the one of
// the first compile (ids are a function of the message, not of the way the
// compile was triggered).  One file in a temp dir, WatchFiles(true), a change
// on disk, the registry of SetRecompilationCallback.  If no recompilation is
// observed within a few seconds (no inotify, ...) nothing is judged.
func checkWatchedRecompile(ctx *core.Ctx) {
	dir := filepath.Join(core.VerifDir, "out", "c10", fmt.Sprintf("watch-%d", os.Getpid()))
	if err := os.MkdirAll(dir, 0o755); err != nil {
		ctx.ToolError("%v", err)
		return
	}
	defer os.RemoveAll(dir)
	path := filepath.Join(dir, "w.soy")
	source := func(note string) string {
		return "{namespace c10.watch}\n// " + note + "\n" +
			"/**\n * @param name\n * @param a\n * @param b\n */\n{template .t}\n" +
			`{msg desc="greeting"}Hello {$name}!{/msg}` +
			`{call .sink}{param k}{msg meaning="verb" desc="in a param"}Open {$a.x} and {$b.x}{/msg}{/param}{/call}` +
			"\n{/template}\n/**\n * @param k\n */\n{template .sink}\n{$k}\n{/template}\n"
	}
	if err := os.WriteFile(path, []byte(source("first version")), 0o644); err != nil {
		ctx.ToolError("%v", err)
		return
	}
	observe := func(reg *template.Registry) (map[string]Obs, error) {
		res := map[string]Obs{}
		for _, m := range MsgNodes(reg) {
			o, err := Observe(m)
			if err != nil {
				return nil, err
			}
			res[m.Desc] = o
		}
		return res, nil
	}
	got := make(chan map[string]Obs, 4)
	saved := soy.Logger
	defer func() { soy.Logger = saved }()
	reg, err := soy.NewBundle().WatchFiles(true).AddTemplateFile(path).
		SetRecompilationCallback(func(r *template.Registry) {
			if o, err := observe(r); err == nil {
				select {
				case got <- o:
				default:
				}
			}
		}).Compile()
	if err != nil {
		ctx.ToolError("watched bundle does not compile: %v", err)
		return
	}
	first, err := observe(reg)
	if err != nil || len(first) != 2 {
		ctx.ToolError("watched bundle: %d messages observed (%v)", len(first), err)
		return
	}
	time.Sleep(50 * time.Millisecond)
	if err := os.WriteFile(path, []byte(source("second version, only this comment differs")), 0o644); err != nil {
		ctx.ToolError("%v", err)
		return
	}
	select {
	case again := <-got:
		ctx.AddEvals(int64(len(again)))
		ctx.AddTraces(1)
		ctx.Extra["watched_recompile"] = "observed"
		for desc, o1 := range first {
			o2, ok := again[desc]
			if !ok || o2.Key() != o1.Key() {
				ctx.Violation(core.Sig{Family: "M2-names", Feature: "names-and-id-depend-on-how-the-compile-was-triggered"},
					fmt.Sprintf("message %q: first compile %s id=%d; after the watcher recompiled the file %s id=%d",
						desc, o1.PhStr, o1.ID, o2.PhStr, o2.ID),
					map[string]interface{}{"source": source("..."), "first": o1, "recompiled": o2, "names": strings.Join(o2.Names, ",")})
			}
		}
	case <-time.After(5 * time.Second):
		ctx.Extra["watched_recompile"] = "no recompilation observed within 5 s (not judged)"
	}
}
