package c10

import (
	"fmt"
	"math/rand"
	"sync"
	"time"
)

// Boundary inputs of the fingerprint routine.  The routine re-maps the two
// fingerprints 0 and 1 (hi == 0 && (lo == 0 || lo == 1)); a text with hi == 0,
// or with lo in {0, 1}, tells a correct condition from a mutated one.

// IsFpBoundary reports which boundary a text sits on ("" if none), according
// to the harness's own implementation.
func IsFpBoundary(s string) string {
	p := []byte(s)
	hi, lo := jenkins32(p, 0), jenkins32(p, 102072)
	switch {
	case hi == 0 && lo <= 1:
		return "hi=0,lo<=1"
	case hi == 0:
		return "hi=0"
	case lo <= 1:
		return "lo<=1"
	}
	return ""
}

// SearchWitnesses looks for more boundary texts (8 lower-case letters) for a
// bounded time with the harness's own implementation.
func SearchWitnesses(seed int64, budget time.Duration, workers int) []string {
	var mu sync.Mutex
	var found []string
	var wg sync.WaitGroup
	deadline := time.Now().Add(budget)
	for w := 0; w < workers; w++ {
		wg.Add(1)
		go func(w int) {
			defer wg.Done()
			state := rand.New(rand.NewSource(seed*1000+int64(w))).Uint64() | 1
			buf := make([]byte, 8)
			for n := 0; ; n++ {
				if n&0xfffff == 0 && time.Now().After(deadline) {
					return
				}
				state ^= state << 13 // xorshift64
				state ^= state >> 7
				state ^= state << 17
				x := state
				for i := range buf {
					buf[i] = 'a' + byte(x%26)
					x /= 26
				}
				if jenkins32(buf, 0) == 0 || jenkins32(buf, 102072) <= 1 {
					mu.Lock()
					found = append(found, string(buf))
					mu.Unlock()
				}
			}
		}(w)
	}
	wg.Wait()
	return found
}

// WitnessCase makes a text-only message case out of a found witness (its
// placeholder string and id key are the text; the id is its fingerprint).
func WitnessCase(i int, text string) *MsgCase {
	return &MsgCase{ID: fmt.Sprintf("W%02d", i), Parts: []Part{{K: "text", S: text}}, Names: []string{}, PhStr: text, Key: text,
		Feat: "fingerprint-boundary", Terms: []IdTerm{{Meaning: "", Term: []interface{}{"fp", text}}}}
}
