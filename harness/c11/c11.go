// Package c11 decides property C11: extracted messages round-trip --
// translations land on the right placeholders.
//
//	M1  spec/SoyPOCheck.tla: TLC checks that Render(Load(Translate(Extract(m))))
//	    is what the property demands for every PO-representable message of the
//	    bounded families, under 1-, 2- and 3-form locales; named deviations
//	    must be caught.
//	M2  spec/SoyPOCases.tla exports the messages with the expected extraction
//	    and the expected renderings; the harness runs the real pipeline: the
//	    xgettext-soy binary built from the tree under test -> PO parsed with
//	    robfig/gettext -> translations filled in -> pomsg.Load -> rendering in
//	    Go (Renderer.WithMessages) and in node (soyjs Options.Messages).
package c11

import (
	"encoding/json"
	"fmt"
	"os"
	"sort"
	"strings"
	"sync"
	"time"

	"verif/c10"
	"verif/core"
)

// Outcome is a rendering outcome of the spec: t = out | err | unspec.
type Outcome struct {
	T string `json:"t"`
	S string `json:"s"`
}

// LocTr holds the spec's translations for one locale.
type LocTr struct {
	Loc   string   `json:"loc"`   // rule id (= the locale whose standard rule it is)
	Names []string `json:"names"` // locales a catalogue with this header is loaded for
	Forms string   `json:"forms"` // Plural-Forms header value
	Idt   []string `json:"idt"`
	Rev   []string `json:"rev"`
}

// LocExp holds the expected renderings for one locale.
type LocExp struct {
	Loc string  `json:"loc"`
	Idt Outcome `json:"idt"`
	Rev Outcome `json:"rev"`
}

// Exp is what must be rendered for one value of n.
type Exp struct {
	N   int      `json:"n"`
	Src Outcome  `json:"src"`
	Loc []LocExp `json:"loc"`
}

// POCase is one message exported by SoyPOCases.tla.
type POCase struct {
	ID          string     `json:"id"`
	Parts       []c10.Part `json:"parts"`
	Valid       bool       `json:"valid"`
	Names       []string   `json:"names"`
	PhStr       string     `json:"phstr"`
	Key         string     `json:"key"`
	Feat        string     `json:"feat"`
	Msgid       string     `json:"msgid"`
	MsgidPlural string     `json:"msgid_plural"`
	Var         string     `json:"var"`
	Tr          []LocTr    `json:"tr"`
	Exp         []Exp      `json:"exp"`
	Meaning     string     `json:"meaning,omitempty"` // set by the harness
}

func (c *POCase) isPlural() bool { return len(c.Parts) == 1 && c.Parts[0].K == "plural" }

// Run is the entry point for C11.
func Run(ctx *core.Ctx) {
	ctx.Rule = "cases: messages = bodies of <= 3 (thorough 4) parts from PoolC11 of SoyPO.tla ($a.y $b.y $y $y_1 $y|truncate:1,false $n+1 ($n+1)*2 $n+1*2 <a> <a href=x> </a> <br/>, two texts), bodies of <= 3 parts over literal braces and brace look-alikes ({ } {} {lower} {A B}) next to placeholders, and plurals {case 1}/{default} over 2 subjects with case bodies of <= 1 (thorough 2) parts from a 6-part pool, all enumerated by TLC with expected msgid/msgid_plural/var= and expected renderings for n in {0,1,2,3,5,11,21,22,101}; every message is placed at top level, every third also inside a foreach and every third behind a call, and half of them also together with one or two OTHER messages in one template body (a quarter of those inside a foreach); catalogues: none, identity / reversing / partial for the locales ja (1 form), en (2), ru (3), and identity catalogues whose Plural-Forms header differs from the locale's built-in rule (fr with the en rule, ja with the ru rule, en with the cs rule; plural messages, Go); rendered by soyhtml and by the generated JavaScript in node. A case is non-trivial if it has a placeholder or a plural; distinct by family id"
	ctx.Assumptions = append(ctx.Assumptions,
		"oracle = SoyPO.tla on top of SoyMsg.tla and SoyExpr.tla; messages PO cannot carry (plural cases other than {1, default}, empty msgid) are only checked to be refused / are not judged",
		"print values contain no HTML-special characters (autoescaping is C03's subject); the plural subject is a non-negative integer",
		"soy.$$pluralIndex is not provided by soyjs: the node driver defines it per locale with the gettext formula of the catalogue's Plural-Forms header",
		"github.com/robfig/gettext/po (PO syntax, Plural-Forms lookup) is a dependency, not under test")
	ctx.Trusted = append(ctx.Trusted,
		"harness/c10/cases.go unparser; harness/c11/translate.go (identity/reversing translation of an extracted msgid; cross-checked against SoyPO.POTranslate on every case)",
		"js/c11_driver.js (node vm driver, plural rules ja/en/ru/cs)",
		"TLC, CommunityModules Json, robfig/gettext/po")
	// many TLC processes run side by side: keep each JVM's heap small (the JVM
	// would otherwise grow to a quarter of the machine's memory each)
	if os.Getenv("_JAVA_OPTIONS") == "" {
		os.Setenv("_JAVA_OPTIONS", "-Xmx4g")
	}
	if ctx.ReplayPath != "" {
		replay(ctx)
		return
	}

	maxParts, maxInner := ctx.Pick(3, 4), ctx.Pick(1, 2)
	locales := []string{"ja", "en", "ru"}
	var (
		wg    sync.WaitGroup
		cases []*POCase
		xerr  error
	)
	wg.Add(3)
	go func() { defer wg.Done(); runM1(ctx) }()
	go func() { defer wg.Done(); runDeviations(ctx) }()
	go func() {
		defer wg.Done()
		cases, xerr = exportCases(ctx, maxParts, maxInner, append(append([]string{}, locales...), "cs"), ctx.Pick(8, 8))
	}()
	wg.Wait()
	if xerr != nil {
		ctx.ToolError("export: %v", xerr)
		return
	}
	ctx.Extra["m2_cases"] = len(cases)
	ctx.Extra["m2_bounds"] = fmt.Sprintf("MaxParts=%d MaxInner=%d locales=%v", maxParts, maxInner, locales)
	ctx.Exhaustive = true
	RunPipeline(ctx, cases, locales)
}

func poCfg(maxParts, maxInner int, dev string, invs string, shard, nshards int) string {
	return fmt.Sprintf("INIT Init\nNEXT Next\nCONSTANTS\n  MaxParts = %d\n  MaxInner = %d\n  PODev = {%s}\n  Locales = {\"ja\", \"en\", \"ru\", \"cs\"}\n  Shard = %d\n  NShards = %d\nINVARIANTS %s\nCHECK_DEADLOCK FALSE\n",
		maxParts, maxInner, dev, shard, nshards, invs)
}

const poInvariants = "RoundTripIdentity RoundTripForms RoundTripReverse HeaderWins SeqIsConcat ValidateOrRoundTrip ResolveMostSpecific ExpectedIsSource AbsentFallsBack ExtractShape"

// runM1 checks the reference model.  Every state of SoyPOCheck is an initial
// state (TLC checks those in one thread), so the family is split over several
// TLC processes.
func runM1(ctx *core.Ctx) {
	mp, mi := ctx.Pick(2, 3), ctx.Pick(1, 2)
	nshards := ctx.Pick(2, 8)
	var wg sync.WaitGroup
	var mu sync.Mutex
	var total int64
	failed := false
	for sh := 0; sh < nshards; sh++ {
		wg.Add(1)
		go func(sh int) {
			defer wg.Done()
			res, err := ctx.RunTLC(core.TLCOpts{Module: "SoyPOCheck", Cfg: poCfg(mp, mi, "", poInvariants, sh, nshards), Workers: 1,
				Timeout: 20 * time.Minute, Label: fmt.Sprintf("M1-reference(MaxParts=%d,MaxInner=%d)-%d/%d", mp, mi, sh, nshards)})
			mu.Lock()
			defer mu.Unlock()
			if err != nil {
				ctx.ToolError("M1: %v", err)
				failed = true
				return
			}
			if res.Violated != "" {
				ctx.ToolError("M1: the reference model violates %s (spec bug): %s", res.Violated, res.Stdout[max(0, len(res.Stdout)-600):])
				failed = true
				return
			}
			total += res.Distinct
		}(sh)
	}
	wg.Wait()
	if !failed {
		ctx.Extra["m1_reference"] = fmt.Sprintf("no violation; %d distinct states", total)
	}
}

func runDeviations(ctx *core.Ctx) {
	devs := []struct{ name, inv string }{
		{"lookup_by_position", "RoundTripReverse"},
		{"plural_index_shift", "RoundTripIdentity"},
		{"plural_by_magnitude", "RoundTripIdentity"},
		{"extract_no_var", "RoundTripIdentity"},
		{"same_by_flat_text", "RoundTripIdentity"},
		{"same_ignores_directives", "RoundTripIdentity"},
		{"builtin_rule_wins", "HeaderWins"},
		{"lookup_cache_by_name", "SeqIsConcat"},
		{"resume_after_close_brace", "RoundTripIdentity"},
		{"extra_cases_dropped", "ValidateOrRoundTrip"},
		{"least_specific_wins", "ResolveMostSpecific"},
	}
	self := map[string]interface{}{}
	var wg sync.WaitGroup
	var mu sync.Mutex
	sem := make(chan struct{}, 3)
	for _, d := range devs {
		d := d
		wg.Add(1)
		go func() {
			defer wg.Done()
			sem <- struct{}{}
			defer func() { <-sem }()
			res, err := ctx.RunTLC(core.TLCOpts{Module: "SoyPOCheck", Cfg: poCfg(2, 1, `"`+d.name+`"`, d.inv, 0, 1),
				Workers: 1, Timeout: 10 * time.Minute, Label: "M1-deviation-" + d.name})
			mu.Lock()
			defer mu.Unlock()
			if err != nil {
				ctx.ToolError("deviation %s: %v", d.name, err)
				return
			}
			if res.Violated != d.inv {
				ctx.ToolError("deviation %s: expected TLC to violate %s, got %q (vacuous invariant?)", d.name, d.inv, res.Violated)
				return
			}
			cex := ""
			for _, ln := range strings.Split(res.Stdout, "\n") {
				if strings.Contains(ln, "pcase =") {
					cex = strings.TrimSpace(ln)
				}
			}
			self[d.name] = map[string]interface{}{"violates": res.Violated, "counterexample": cex}
		}()
	}
	wg.Wait()
	ctx.Extra["deviation_selftest"] = self
}

func exportCases(ctx *core.Ctx, maxParts, maxInner int, locales []string, nshards int) ([]*POCase, error) {
	type res struct {
		cases []*POCase
		err   error
	}
	var ls []string
	for _, l := range locales {
		ls = append(ls, fmt.Sprintf("%q", l))
	}
	out := make([]res, nshards)
	var wg sync.WaitGroup
	for s := 0; s < nshards; s++ {
		wg.Add(1)
		go func(s int) {
			defer wg.Done()
			cfg := fmt.Sprintf("INIT Init\nNEXT Next\nCONSTANTS\n  MaxParts = %d\n  MaxInner = %d\n  PODev = {}\n  Shard = %d\n  NShards = %d\n  Locales = {%s}\nINVARIANT Export\nCHECK_DEADLOCK FALSE\n",
				maxParts, maxInner, s, nshards, strings.Join(ls, ", "))
			r, err := ctx.RunTLC(core.TLCOpts{Module: "SoyPOCases", Cfg: cfg, Workers: 1, Timeout: 20 * time.Minute,
				Label: fmt.Sprintf("M2-export-%d/%d", s, nshards)})
			if err != nil {
				out[s].err = err
				return
			}
			if r.Violated != "" {
				out[s].err = fmt.Errorf("export run reported %s", r.Violated)
				return
			}
			for _, p := range r.Printed {
				if !strings.HasPrefix(p, "{") {
					continue
				}
				d := json.NewDecoder(strings.NewReader(p))
				d.UseNumber()
				c := &POCase{}
				if err := d.Decode(c); err != nil {
					out[s].err = fmt.Errorf("bad case JSON from TLC: %v: %.200s", err, p)
					return
				}
				out[s].cases = append(out[s].cases, c)
			}
			if int64(len(out[s].cases)) != r.Distinct {
				out[s].err = fmt.Errorf("export shard %d: %d states but %d cases printed", s, r.Distinct, len(out[s].cases))
			}
		}(s)
	}
	wg.Wait()
	var all []*POCase
	for _, r := range out {
		if r.err != nil {
			return nil, r.err
		}
		all = append(all, r.cases...)
	}
	sort.Slice(all, func(i, j int) bool { return all[i].ID < all[j].ID })
	return all, nil
}

// replay re-runs the pipeline on the single message of a saved violation.
func replay(ctx *core.Ctx) {
	b, err := os.ReadFile(ctx.ReplayPath)
	if err != nil {
		ctx.ToolError("replay: %v", err)
		return
	}
	var v struct {
		Replay struct {
			Case *POCase `json:"case"`
		} `json:"replay"`
	}
	d := json.NewDecoder(strings.NewReader(string(b)))
	d.UseNumber()
	if err := d.Decode(&v); err != nil || v.Replay.Case == nil {
		ctx.ToolError("replay: %s holds no C11 case (%v)", ctx.ReplayPath, err)
		return
	}
	v.Replay.Case.Meaning = ""
	var locales []string
	for _, t := range v.Replay.Case.Tr {
		locales = append(locales, t.Loc)
	}
	// a few runs: the extractor is a fresh process each time
	for i := 0; i < 5; i++ {
		RunPipeline(ctx, []*POCase{v.Replay.Case}, locales)
	}
}
