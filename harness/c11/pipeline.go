package c11

import (
	"bytes"
	"encoding/json"
	"fmt"
	"io"
	"math/rand"
	"net/textproto"
	"os"
	"os/exec"
	"path/filepath"
	"sort"
	"strconv"
	"strings"
	"sync"
	"time"

	"github.com/robfig/gettext/po"
	"github.com/robfig/soy/ast"
	"github.com/robfig/soy/data"
	"github.com/robfig/soy/soyhtml"
	"github.com/robfig/soy/soyjs"
	"github.com/robfig/soy/soymsg"
	"github.com/robfig/soy/soymsg/pomsg"
	"github.com/robfig/soy/template"

	"verif/c10"
	"verif/core"
)

// member is a further message of a template that holds several.
type member struct {
	c    *POCase
	desc string
}

// occ is one occurrence of a message (or, where = multi / multi-loop, of
// several different messages in ONE template body) in the generated sources.
type occ struct {
	c     *POCase
	where string // top | loop | call | multi | multi-loop
	tmpl  string // fully qualified template that renders it
	desc  string // description of the {msg} it reaches
	file  int    // index of the source file
	more  []member
}

func (o *occ) members() []member { return append([]member{{o.c, o.desc}}, o.more...) }

// usesIJ: does the template read injected data?
func (o *occ) usesIJ() bool {
	if o.where == "ij" {
		return true
	}
	for _, m := range o.members() {
		if strings.Contains(c10.UnparseBody(m.c.Parts), "$ij") {
			return true
		}
	}
	return false
}

func (o *occ) feat() string {
	if len(o.more) > 0 {
		return "several-messages-in-one-template"
	}
	return o.c.Feat
}

// wrap gives the template's output from the renderings of its messages.
func (o *occ) wrap(ss []string) string {
	s := strings.Join(ss, "|")
	switch o.where {
	case "loop", "multi-loop":
		return "1:" + s + ";2:" + s + ";"
	case "call":
		return "[" + s + "]"
	case "ij":
		return "iv:" + s
	}
	return s
}

type poEntry struct {
	msg   po.Message
	id    uint64
	varNm string
	refs  []string
}

type catalogue struct {
	name     string // e.g. "ru-rev", "fr~en-idt"
	loc      string // locale the catalogue is loaded for
	rule     string // whose plural rule the Plural-Forms header carries (SoyPO rule id)
	alias    bool   // loc != rule: only plural messages are rendered, in Go only
	resolved bool   // selected through Provider.Bundle(locale name) from catalogues on one fallback chain
	tools    bool   // rewritten the way translators' tools leave a catalogue (decoratePO); Go only
	strategy string // none | idt | rev | partial
	text     string // PO text
	bundle   soymsg.Bundle
	np       int
}

type memOpener map[string]string

func (m memOpener) Open(locale string) (io.ReadCloser, error) {
	s, ok := m[locale]
	if !ok {
		return nil, nil
	}
	return io.NopCloser(strings.NewReader(s)), nil
}

// dropped: is the message left out of the partial catalogues?
var dropParity uint64

func dropped(id uint64) bool { return id%2 == dropParity }

// pipelineGlobals are the compile-time globals of SoyPO.POEnv.
var pipelineGlobals = map[string]string{"GLOB": "gv", "app.glob": "gv"}

// collGroup is set while the pipeline runs on the messages whose placeholder
// names can collide with a base name (SoyMsg.MsgSuffixCollision).  Naming
// them is C10's subject; if the names are not a function of the message there
// every stage of the round trip can fail, so whatever fails in that group is
// reported under one signature.
type reporter struct {
	ctx  *core.Ctx
	coll bool
}

func (r *reporter) Violation(sig core.Sig, what string, replay interface{}) {
	if r.coll && namingCaused(sig) {
		what = "[" + sig.String() + "] " + what
		sig = core.Sig{Family: "M2-roundtrip", Feature: "names-not-a-function-of-the-message,suffix-collides-with-base-name"}
	}
	r.ctx.Violation(sig, what, replay)
}

// namingCaused: the kinds of failure that unstable placeholder names produce.
func namingCaused(sig core.Sig) bool {
	for _, k := range []string{"msgid-differs", "msgid_plural-differs", "id-reference-differs", "wrong-text", "unexpected-error", "codegen-error", "var-reference-wrong", "generated-js-does-not-load"} {
		if strings.Contains(sig.Feature, k) {
			return true
		}
	}
	return false
}

func (r *reporter) ToolError(f string, a ...interface{}) { r.ctx.ToolError(f, a...) }
func (r *reporter) AddEvals(n int64)                     { r.ctx.AddEvals(n) }
func (r *reporter) Distinct(k string)                    { r.ctx.Distinct(k) }

func renderData(n int) data.Map {
	return data.Map{
		"a": data.Map{"y": data.String("ay")}, "b": data.Map{"y": data.String("by")},
		"y": data.String("yv"), "y_1": data.String("y1v"), "n": data.Int(n),
	}
}

// renderIJ / jsIJ are the injected data of SoyPO.POEnv.
func renderIJ() data.Map {
	return data.Map{"who": data.String("iv"), "y": data.String("ijy")}
}

var jsIJ = map[string]interface{}{"who": "iv", "y": "ijy"}

func jsData(n int) map[string]interface{} {
	return map[string]interface{}{
		"a": map[string]interface{}{"y": "ay"}, "b": map[string]interface{}{"y": "by"},
		"y": "yv", "y_1": "y1v", "n": n,
	}
}

// buildExtractor builds xgettext-soy from the tree under test.
func buildExtractor(work string) (string, error) {
	out := filepath.Join(core.VerifDir, "out", "bin", "xgettext-soy")
	if core.RepoDir != "/repo" {
		out = filepath.Join(work, "xgettext-soy")
	}
	// a private modfile: the harness module with robfig/soy replaced by the tree under test
	hm, err := os.ReadFile(filepath.Join(core.VerifDir, "harness", "go.mod"))
	if err != nil {
		return "", err
	}
	mod := strings.Replace(string(hm), "=> /repo", "=> "+core.RepoDir, 1)
	modfile := filepath.Join(work, "xg.mod")
	if err := os.WriteFile(modfile, []byte(mod), 0o644); err != nil {
		return "", err
	}
	sum, err := os.ReadFile(filepath.Join(core.VerifDir, "harness", "go.sum"))
	if err != nil {
		return "", err
	}
	if err := os.WriteFile(filepath.Join(work, "xg.sum"), sum, 0o644); err != nil {
		return "", err
	}
	cmd := exec.Command("go", "build", "-modfile="+modfile, "-o", out, "github.com/robfig/soy/soymsg/pomsg/xgettext-soy")
	cmd.Dir = filepath.Join(core.VerifDir, "harness")
	cmd.Env = append(os.Environ(), "GOFLAGS=-mod=mod", "GOPROXY=off", "GOSUMDB=off", "GOTOOLCHAIN=local", "CGO_ENABLED=0")
	if b, err := cmd.CombinedOutput(); err != nil {
		return "", fmt.Errorf("go build xgettext-soy: %v: %s", err, b)
	}
	return out, nil
}

func runExtractor(bin string, args ...string) (stdout, stderr string, exit int, err error) {
	cmd := exec.Command(bin, args...)
	var o, e bytes.Buffer
	cmd.Stdout, cmd.Stderr = &o, &e
	err = cmd.Run()
	if ee, ok := err.(*exec.ExitError); ok {
		return o.String(), e.String(), ee.ExitCode(), nil
	}
	return o.String(), e.String(), 0, err
}

// RunPipeline is M2: the real extract -> translate -> load -> render chain,
// run once on the messages without and once on those with a suffix collision.
func RunPipeline(ctx0 *core.Ctx, cases []*POCase, locales []string) {
	// The id key is the placeholder string without braces, so two different
	// messages can have the same id by design ({X}{X}{X} / {XXX}); which of
	// their translations a catalogue then holds is not specified: not judged.
	byKey := map[string]map[string]bool{}
	for _, c := range cases {
		if c.Valid {
			if byKey[c.Key] == nil {
				byKey[c.Key] = map[string]bool{}
			}
			byKey[c.Key][c.Msgid+"\x00"+c.MsgidPlural] = true
		}
	}
	ambiguous := 0
	var kept []*POCase
	for _, c := range cases {
		if c.Valid && len(byKey[c.Key]) > 1 {
			ambiguous++
			continue
		}
		kept = append(kept, c)
	}
	cases = kept
	ctx0.Extra["unspec_same_id_key_different_msgid"] = ambiguous
	var plain, coll []*POCase
	for _, c := range cases {
		if c.Valid && c.Feat == "suffix-collides-with-base-name" {
			coll = append(coll, c)
		} else {
			plain = append(plain, c)
		}
	}
	ctx0.Extra["cases_with_suffix_collision"] = len(coll)
	runGroup(ctx0, &reporter{ctx: ctx0}, plain, locales, "main")
	if len(coll) > 0 {
		runGroup(ctx0, &reporter{ctx: ctx0, coll: true}, coll, locales, "coll")
	}
}

func runGroup(ctx0 *core.Ctx, ctx *reporter, cases []*POCase, locales []string, tag string) {
	work := filepath.Join(core.VerifDir, "out", "c11", fmt.Sprintf("%d-%d-%s", os.Getpid(), ctx0.Seed, tag))
	os.RemoveAll(work)
	if err := os.MkdirAll(filepath.Join(work, "src"), 0o755); err != nil {
		ctx.ToolError("%v", err)
		return
	}
	keep := false
	defer func() {
		if !keep {
			os.RemoveAll(work)
		}
	}()
	xg, err := buildExtractor(work)
	if err != nil {
		ctx.ToolError("%v", err)
		return
	}

	var valid, invalid []*POCase
	for _, c := range cases {
		if c.Valid {
			valid = append(valid, c)
		} else {
			invalid = append(invalid, c)
		}
	}
	if tag == "main" {
		checkInvalid(ctx, xg, work, invalid)
	}

	// ---- sources -------------------------------------------------------------
	const perFile = 60
	var files []core.File
	var occs []*occ
	seed := int(ctx0.Seed % 1000)
	if seed < 0 {
		seed = -seed
	}
	dropParity = uint64(seed % 2)
	for i, c := range valid {
		if !c.isPlural() && (i+seed)%7 == 3 {
			c.Meaning = "verb"
		}
		fi := i / perFile
		if fi == len(files) {
			files = append(files, core.File{Name: fmt.Sprintf("f%03d.soy", fi), Text: fmt.Sprintf("{namespace c11.f%03d}\n", fi)})
		}
		ns := fmt.Sprintf("c11.f%03d", fi)
		body := c10.UnparseBody(c.Parts)
		vars := c10.BodyVars(c.Parts)
		f := &files[fi]
		dTop := "M|" + c.ID + "|top"
		f.Text += c10.Template(fmt.Sprintf("m%d", i), vars, "", c10.MsgTag(c.Meaning, dTop, body))
		occs = append(occs, &occ{c: c, where: "top", tmpl: fmt.Sprintf("%s.m%d", ns, i), desc: dTop, file: fi})
		switch (i + seed) % 3 {
		case 0:
			d := "M|" + c.ID + "|loop"
			f.Text += c10.Template(fmt.Sprintf("l%d", i), vars, "",
				"{foreach $k in [1, 2]}{$k}:"+c10.MsgTag(c.Meaning, d, body)+";{/foreach}")
			occs = append(occs, &occ{c: c, where: "loop", tmpl: fmt.Sprintf("%s.l%d", ns, i), desc: d, file: fi})
		case 1:
			f.Text += c10.Template(fmt.Sprintf("c%d", i), vars, "", fmt.Sprintf(`[{call .m%d data="all"/}]`, i))
			occs = append(occs, &occ{c: c, where: "call", tmpl: fmt.Sprintf("%s.c%d", ns, i), desc: dTop, file: fi})
		case 2:
			// injected data printed outside the message, next to it
			d := "M|" + c.ID + "|ij"
			f.Text += c10.Template(fmt.Sprintf("j%d", i), vars, "", "{$ij.who}:"+c10.MsgTag(c.Meaning, d, body))
			occs = append(occs, &occ{c: c, where: "ij", tmpl: fmt.Sprintf("%s.j%d", ns, i), desc: d, file: fi})
		}
	}
	// several DIFFERENT messages in one template body (and in one loop body):
	// neighbours of the family (they differ in one part, so they mostly share
	// placeholder names for different expressions) and seeded random partners
	rnd := rand.New(rand.NewSource(ctx0.Seed))
	sameNs := func(a, b *POCase) bool { return len(a.Exp) == len(b.Exp) && a.isPlural() == b.isPlural() }
	for i, c := range valid {
		var group []int
		switch (i + seed) % 4 {
		case 0:
			group = []int{i, i + 1, i + 2}
		case 2:
			group = []int{i, rnd.Intn(len(valid))}
		default:
			continue
		}
		ok := true
		for _, k := range group {
			if k >= len(valid) || !sameNs(c, valid[k]) {
				ok = false
			}
		}
		if !ok || group[0] == group[len(group)-1] {
			continue
		}
		fi := i / perFile
		ns := fmt.Sprintf("c11.f%03d", fi)
		f := &files[fi]
		varSet := map[string]bool{}
		var bodies []string
		o := &occ{c: c, where: "multi", tmpl: fmt.Sprintf("%s.x%d", ns, i), file: fi}
		if (i+seed)%8 >= 4 {
			o.where = "multi-loop"
		}
		for gi, k := range group {
			m := valid[k]
			d := fmt.Sprintf("M|%s|multi%d.%d", m.ID, i, gi)
			for _, v := range c10.BodyVars(m.Parts) {
				varSet[v] = true
			}
			bodies = append(bodies, c10.MsgTag(m.Meaning, d, c10.UnparseBody(m.Parts)))
			if gi == 0 {
				o.desc = d
			} else {
				o.more = append(o.more, member{m, d})
			}
		}
		var vars []string
		for v := range varSet {
			vars = append(vars, v)
		}
		sort.Strings(vars)
		body := strings.Join(bodies, "|")
		if o.where == "multi-loop" {
			body = "{foreach $k in [1, 2]}{$k}:" + body + ";{/foreach}"
		}
		f.Text += c10.Template(fmt.Sprintf("x%d", i), vars, "", body)
		occs = append(occs, o)
	}
	for _, f := range files {
		if err := os.WriteFile(filepath.Join(work, "src", f.Name), []byte(f.Text), 0o644); err != nil {
			ctx.ToolError("%v", err)
			return
		}
	}

	// ---- compile in this process (ids, registry for rendering) -----------------
	reg, err := c10.CompileRegistry(files, pipelineGlobals)
	if err != nil {
		ctx.Violation(core.Sig{Family: "M2-extract", Feature: "compile-reject"}, "generated bundle rejected: "+err.Error(),
			map[string]interface{}{"error": err.Error(), "files": firstFiles(files, 2)})
		return
	}
	nodeByDesc := map[string]*ast.MsgNode{}
	for _, m := range c10.MsgNodes(reg) {
		nodeByDesc[m.Desc] = m
	}

	// ---- extract ---------------------------------------------------------------
	t0 := time.Now()
	stdout, stderr, exit, err := runExtractor(xg, filepath.Join(work, "src"))
	ctx0.Extra[tag+"_extract_wall_s"] = time.Since(t0).Seconds()
	if err != nil {
		ctx.ToolError("cannot run xgettext-soy: %v", err)
		return
	}
	if exit != 0 {
		keep = true
		ctx.Violation(core.Sig{Family: "M2-extract", Feature: "extractor-fails-on-representable-messages"},
			fmt.Sprintf("xgettext-soy exit %d: %s", exit, stderr), map[string]interface{}{"dir": filepath.Join(work, "src"), "stderr": stderr})
		return
	}
	pof, err := po.Parse(strings.NewReader(stdout))
	if err != nil {
		ctx.Violation(core.Sig{Family: "M2-extract", Feature: "po-output-unparseable"}, "PO output does not parse: "+err.Error(),
			map[string]interface{}{"po": trunc(stdout, 4000)})
		return
	}
	entries := map[string]*poEntry{}
	nDescs := map[string]bool{}
	for _, o := range occs {
		for _, m := range o.members() {
			nDescs[m.desc] = true
		}
	}
	for _, m := range pof.Messages {
		e := &poEntry{msg: m, refs: m.References}
		for _, r := range m.References {
			switch {
			case strings.HasPrefix(r, "id="):
				e.id, _ = strconv.ParseUint(r[3:], 10, 64)
			case strings.HasPrefix(r, "var="):
				e.varNm = r[4:]
			}
		}
		if len(m.ExtractedComments) == 1 {
			entries[m.ExtractedComments[0]] = e
		}
	}
	ctx0.Extra[tag+"_po_entries"] = len(pof.Messages)
	if len(pof.Messages) != len(nDescs) {
		ctx.Violation(core.Sig{Family: "M2-extract", Feature: "entry-count"},
			fmt.Sprintf("%d messages in the sources, %d entries extracted", len(nDescs), len(pof.Messages)), map[string]interface{}{"po": trunc(stdout, 4000)})
	}
	extractOK := map[string]bool{} // desc -> entry as the spec says
	seenDesc := map[string]bool{}
	for _, o := range occs {
		for _, m := range o.members() {
			if seenDesc[m.desc] {
				continue
			}
			seenDesc[m.desc] = true
			extractOK[m.desc] = checkEntry(ctx, m.c, m.desc, entries[m.desc], nodeByDesc[m.desc], files[o.file])
			ctx.AddEvals(1)
		}
	}

	// ---- catalogues --------------------------------------------------------------
	forms := map[string]string{}
	for _, c := range valid {
		for _, t := range c.Tr {
			forms[t.Loc] = t.Forms
		}
		break
	}
	cats := []*catalogue{{name: "none", strategy: "none"}}
	type catSpec struct {
		loc, rule, st string
		tools         bool
	}
	var specs []catSpec
	for _, loc := range locales {
		for _, st := range []string{"idt", "rev", "partial"} {
			specs = append(specs, catSpec{loc, loc, st, false})
		}
		if loc == "en" {
			specs = append(specs, catSpec{loc, loc, "idt", true}, catSpec{loc, loc, "rev", true})
		}
	}
	// the same Plural-Forms header in a catalogue for ANOTHER locale (one that
	// has a different built-in rule): the header must win
	for _, c := range valid {
		for _, t := range c.Tr {
			for _, nm := range t.Names {
				if nm != t.Loc {
					specs = append(specs, catSpec{nm, t.Loc, "idt", false})
				}
			}
		}
		break
	}
	for _, cs := range specs {
		loc, st := cs.loc, cs.st
		cat := &catalogue{name: loc + "-" + st, loc: loc, rule: cs.rule, strategy: st, np: nplurals(forms[cs.rule]), alias: loc != cs.rule}
		if cat.alias {
			cat.name = loc + "~" + cs.rule + "-" + st
		}
		pf := po.File{Header: textproto.MIMEHeader{}}
		pf.Header.Set("Plural-Forms", forms[cs.rule])
		for _, m := range pof.Messages {
			var id uint64
			for _, r := range m.References {
				if strings.HasPrefix(r, "id=") {
					id, _ = strconv.ParseUint(r[3:], 10, 64)
				}
			}
			s := st
			if st == "partial" {
				if dropped(id) {
					continue
				}
				s = "rev"
			}
			m.Str = translate(s, m.Id, m.IdPlural, cs.rule, cat.np)
			pf.Messages = append(pf.Messages, m)
		}
		var buf bytes.Buffer
		pf.WriteTo(&buf)
		cat.text = buf.String()
		if cs.tools {
			cat.tools = true
			cat.name += "-tools"
			cat.text = decoratePO(cat.text, st)
		}
		prov, err := pomsg.Load(memOpener{loc: cat.text}, []string{loc})
		if err != nil {
			ctx.Violation(core.Sig{Family: "M2-load", Feature: "catalogue-rejected," + cat.name}, "pomsg.Load rejects the translated catalogue "+cat.name+": "+err.Error(),
				map[string]interface{}{"po": trunc(cat.text, 4000)})
			continue
		}
		cat.bundle = prov.Bundle(loc)
		if cat.bundle == nil {
			ctx.Violation(core.Sig{Family: "M2-load", Feature: "no-bundle-for-locale"}, "no bundle for locale "+loc, nil)
			continue
		}
		cats = append(cats, cat)
	}
	// the translator is cross-checked against the spec's POTranslate
	for _, o := range occs {
		e := entries[o.desc]
		if e == nil || e.msg.Id != o.c.Msgid || e.msg.IdPlural != o.c.MsgidPlural {
			continue
		}
		for _, t := range o.c.Tr {
			np := nplurals(t.Forms)
			if a := translate("idt", e.msg.Id, e.msg.IdPlural, t.Loc, np); !eqStrs(a, t.Idt) {
				ctx.ToolError("harness translator disagrees with SoyPO.POTranslate(id) on %s/%s: %q vs %q", o.c.ID, t.Loc, a, t.Idt)
				return
			}
			if a := translate("rev", e.msg.Id, e.msg.IdPlural, t.Loc, np); !eqStrs(a, t.Rev) {
				ctx.ToolError("harness translator disagrees with SoyPO.POTranslate(rev) on %s/%s: %q vs %q", o.c.ID, t.Loc, a, t.Rev)
				return
			}
		}
	}

	// ---- render in Go --------------------------------------------------------------
	tofu := soyhtml.NewTofu(reg)
	type job struct {
		o   *occ
		cat *catalogue
		seq int
	}
	var mu sync.Mutex
	renders := 0
	jobs := make(chan job, 256)
	var wg sync.WaitGroup
	for w := 0; w < 8; w++ {
		wg.Add(1)
		go func() {
			defer wg.Done()
			for j := range jobs {
				n := 0
				for k, ex := range j.o.c.Exp {
					order := (j.seq + k) % len(CallOrders)
					if j.cat.bundle == nil && !j.o.usesIJ() && (j.seq+k)%2 == 0 {
						order = -1 // Tofu.Render
					}
					out, err := renderGo(tofu, j.o.tmpl, j.cat, ex.N, order)
					n++
					if order > 0 && !renderMatches(j.o, j.cat, ex.N, entries, out, err) {
						// is it the order of the builder calls?
						out0, err0 := renderGo(tofu, j.o.tmpl, j.cat, ex.N, 0)
						n++
						if renderMatches(j.o, j.cat, ex.N, entries, out0, err0) {
							errS := ""
							if err != nil {
								errS = err.Error()
							}
							ctx.Violation(core.Sig{Family: "M2-render", Feature: "renderer-call-order-matters"},
								fmt.Sprintf("%s [go, %s, catalogue %s, n=%d]: NewRenderer.%s renders %q err=%q, NewRenderer.%s renders %q",
									c10.UnparseBody(j.o.c.Parts), j.o.where, j.cat.name, ex.N, CallOrders[order], out, errS, CallOrders[0], out0),
								map[string]interface{}{"case": j.o.c, "where": j.o.where, "template": j.o.tmpl, "file": files[j.o.file], "catalogue": j.cat.name,
									"n": ex.N, "calls": CallOrders[order], "observed": out, "error": errS, "baseline_calls": CallOrders[0], "baseline": out0})
							continue
						}
						out, err = out0, err0
					}
					judgeRender(ctx, "go", j.o, j.cat, ex.N, entries, out, err, files[j.o.file])
				}
				mu.Lock()
				renders += n
				mu.Unlock()
			}
		}()
	}
	seq := int(ctx0.Seed)
	for _, cat := range cats {
		for _, o := range occs {
			if skipRender(ctx0, o, cat) {
				continue
			}
			seq++
			jobs <- job{o, cat, seq}
		}
	}
	close(jobs)
	wg.Wait()
	ctx.AddEvals(int64(renders))
	ctx0.Extra[tag+"_go_renders"] = renders
	if tag == "main" {
		checkLocaleResolution(ctx, cats, occs, entries, tofu, files)
	}

	// ---- render in node ---------------------------------------------------------------
	jsRenders, err := renderJS(ctx, work, reg, cats, occs, entries, files)
	if err != nil {
		ctx.ToolError("node: %v", err)
		return
	}
	ctx.AddEvals(int64(jsRenders))
	ctx0.Extra[tag+"_js_renders"] = jsRenders
	ctx0.Extra[tag+"_catalogues"] = len(cats)
	ctx0.Extra[tag+"_message_occurrences"] = len(occs)
	ctx0.AddTraces(int64(len(occs) * len(cats) * 2))
	for _, c := range valid {
		if len(c.Names) > 0 {
			ctx.Distinct(c.ID)
		}
	}
	for i, o := range occs {
		if i%(len(occs)/4+1) == 0 {
			e := entries[o.desc]
			var pe interface{}
			if e != nil {
				pe = map[string]interface{}{"msgid": e.msg.Id, "msgid_plural": e.msg.IdPlural, "refs": e.refs}
			}
			ctx0.Sample(map[string]interface{}{"id": o.c.ID, "where": o.where, "body": c10.UnparseBody(o.c.Parts), "extracted": pe, "expected": o.c.Exp[0]})
		}
	}
	_ = extractOK
}

func firstFiles(fs []core.File, n int) []core.File {
	if len(fs) > n {
		return fs[:n]
	}
	return fs
}

func trunc(s string, n int) string {
	if len(s) > n {
		return s[:n] + "..."
	}
	return s
}

// checkInvalid: messages PO cannot carry must be refused by pomsg.Validate
// and make the extractor fail.
func checkInvalid(ctx *reporter, xg, work string, invalid []*POCase) {
	refused, roundTripped := 0, 0
	for i, c := range invalid {
		dir := filepath.Join(work, fmt.Sprintf("inv%d", i))
		os.MkdirAll(dir, 0o755)
		src := "{namespace c11.inv}\n" + c10.Template("m", c10.BodyVars(c.Parts), "", c10.MsgTag("", "invalid", c10.UnparseBody(c.Parts)))
		os.WriteFile(filepath.Join(dir, "m.soy"), []byte(src), 0o644)
		rp := map[string]interface{}{"case": c, "source": src}
		reg, err := c10.CompileRegistry([]core.File{{Name: "m.soy", Text: src}}, nil)
		if err != nil {
			ctx.Violation(core.Sig{Family: "M2-validate", Feature: "compile-reject"}, "valid Soy rejected: "+err.Error(), rp)
			continue
		}
		ctx.AddEvals(2)
		ctx.Distinct("invalid-" + c.ID)
		stdout, stderr, exit, err := runExtractor(xg, dir)
		if err != nil {
			ctx.ToolError("cannot run xgettext-soy: %v", err)
			return
		}
		if exit != 0 {
			refused++ // the message cannot be carried and the extraction says so
			continue
		}
		// it was extracted: then the identity translation must render what the
		// source renders, for every count
		rp["stderr"], rp["po"] = stderr, stdout
		pof, err := po.Parse(strings.NewReader(stdout))
		if err != nil {
			ctx.Violation(core.Sig{Family: "M2-validate", Feature: "po-output-unparseable"}, "PO output does not parse: "+err.Error(), rp)
			continue
		}
		pf := po.File{Header: textproto.MIMEHeader{}}
		pf.Header.Set("Plural-Forms", "nplurals=2; plural=(n != 1);")
		if len(pof.Messages) == 0 {
			continue
		}
		for _, m := range pof.Messages {
			m.Str = translate("idt", m.Id, m.IdPlural, "en", 2)
			pf.Messages = append(pf.Messages, m)
		}
		var buf bytes.Buffer
		pf.WriteTo(&buf)
		prov, err := pomsg.Load(memOpener{"en": buf.String()}, []string{"en"})
		if err != nil || prov.Bundle("en") == nil {
			ctx.Violation(core.Sig{Family: "M2-validate", Feature: "extracted-unrepresentable-plural,catalogue-rejected"},
				fmt.Sprintf("%s is extracted, but its identity catalogue does not load: %v", c10.UnparseBody(c.Parts), err), rp)
			continue
		}
		cat := &catalogue{name: "en-idt", loc: "en", rule: "en", strategy: "idt", bundle: prov.Bundle("en"), np: 2, text: buf.String()}
		tofu := soyhtml.NewTofu(reg)
		same := true
		for _, ex := range c.Exp {
			out, err := renderGo(tofu, "c11.inv.m", cat, ex.N, 0)
			ctx.AddEvals(1)
			if ex.Src.T != "out" {
				continue
			}
			if err != nil || out != ex.Src.S {
				same = false
				errS := ""
				if err != nil {
					errS = err.Error()
				}
				rp["n"], rp["observed"], rp["expected"], rp["catalogue"] = ex.N, out, ex.Src.S, buf.String()
				ctx.Violation(core.Sig{Family: "M2-validate", Feature: "unrepresentable-plural-extracted-and-rendered-differently"},
					fmt.Sprintf("%s is accepted by the extraction (msgid %q / %q), and with the identity translation n=%d renders %q err=%q where the source renders %q",
						c10.UnparseBody(c.Parts), pof.Messages[0].Id, pof.Messages[0].IdPlural, ex.N, out, errS, ex.Src.S), rp)
				break
			}
		}
		if same {
			roundTripped++
		}
	}
	ctx.ctx.Extra["unrepresentable_cases"] = len(invalid)
	ctx.ctx.Extra["unrepresentable_refused"] = refused
	ctx.ctx.Extra["unrepresentable_extracted_and_round_tripped"] = roundTripped
}

// checkEntry compares one extracted PO entry with the spec.
func checkEntry(ctx *reporter, c *POCase, desc string, e *poEntry, node *ast.MsgNode, f core.File) bool {
	rp := map[string]interface{}{"case": c, "desc": desc, "file": f}
	viol := func(what, msg string) bool {
		ctx.Violation(core.Sig{Family: "M2-extract", Feature: what + "," + c.Feat}, c10.UnparseBody(c.Parts)+": "+msg, rp)
		return false
	}
	if e == nil {
		return viol("entry-missing", "no PO entry with comment "+desc)
	}
	rp["entry"] = map[string]interface{}{"msgctxt": e.msg.Ctxt, "msgid": e.msg.Id, "msgid_plural": e.msg.IdPlural, "references": e.refs}
	ok := true
	if e.msg.Id != c.Msgid {
		ok = viol("msgid-differs", fmt.Sprintf("msgid %q, spec %q", e.msg.Id, c.Msgid))
	}
	if e.msg.IdPlural != c.MsgidPlural {
		ok = viol("msgid_plural-differs", fmt.Sprintf("msgid_plural %q, spec %q", e.msg.IdPlural, c.MsgidPlural))
	}
	if e.varNm != c.Var {
		what := "var-reference-wrong"
		if e.varNm == "" {
			what = "var-reference-missing"
		}
		ok = viol(what, fmt.Sprintf("var=%q, spec %q", e.varNm, c.Var))
	}
	if e.msg.Ctxt != c.Meaning {
		ok = viol("msgctxt-differs", fmt.Sprintf("msgctxt %q, meaning %q", e.msg.Ctxt, c.Meaning))
	}
	wantRefs := 1
	if c.Var != "" {
		wantRefs = 2
	}
	if len(e.refs) != wantRefs || !strings.HasPrefix(e.refs[0], "id=") {
		ok = viol("references-malformed", fmt.Sprintf("references %q", e.refs))
	}
	if node == nil {
		ctx.ToolError("message %s not found in the compiled bundle", desc)
		return false
	}
	if e.id != node.ID {
		ok = viol("id-reference-differs-from-compiled-id", fmt.Sprintf("id=%d in the catalogue, %d in the compiled bundle", e.id, node.ID))
	}
	return ok
}

// skipRender: renderings that would add nothing.  Nothing about a plural-free
// message depends on the locale of the catalogue, so the alias catalogues
// are for plural messages only, and in the (much larger) thorough tier the
// plural-free messages are rendered with the en catalogues only.
func skipRender(ctx0 *core.Ctx, o *occ, cat *catalogue) bool {
	if o.c.isPlural() {
		// the large family of plurals with two-part bodies (tried on the short
		// list of counts) is not rendered with the partial catalogues
		return ctx0.Thorough() && len(o.c.Exp) < 10 && (cat.strategy == "partial" || cat.tools)
	}
	if cat.alias {
		return true
	}
	return ctx0.Thorough() && cat.loc != "" && cat.loc != "en"
}

// CallOrders are the ways the Renderer's builder calls are combined.  All must
// render the same: the catalogue and the injected data are independent
// settings.  Order 0 is the baseline (the order the project's own test helper
// uses).
var CallOrders = []string{
	"Inject.WithMessages",
	"WithMessages.Inject",
	"WithMessages.Inject(other).Inject",
	"WithMessages.Inject.WithMessages",
	"prepared(WithMessages).Inject-per-request",
}

func renderGo(tofu *soyhtml.Tofu, tmpl string, cat *catalogue, n int, order int) (out string, err error) {
	defer func() {
		if r := recover(); r != nil {
			err = fmt.Errorf("PANIC in render: %v", r)
		}
	}()
	var buf bytes.Buffer
	ij := renderIJ()
	other := data.Map{"who": data.String("WRONG"), "y": data.String("WRONG")}
	with := func(r *soyhtml.Renderer) *soyhtml.Renderer {
		if cat.bundle != nil {
			return r.WithMessages(cat.bundle)
		}
		return r
	}
	r := tofu.NewRenderer(tmpl)
	switch order {
	case -1: // the other entry point: no catalogue, no injected data
		err = tofu.Render(&buf, tmpl, renderData(n))
		return buf.String(), err
	case 1:
		r = with(r).Inject(ij)
	case 2:
		r = with(r).Inject(other).Inject(ij)
	case 3:
		r = with(with(r).Inject(ij))
	case 4:
		prepared := with(r)
		var first bytes.Buffer
		if e := prepared.Inject(ij).Execute(&first, renderData(n)); e != nil {
			return first.String(), e
		}
		r = prepared.Inject(ij) // a second request on the prepared renderer
	default:
		r = with(r.Inject(ij))
	}
	err = r.Execute(&buf, renderData(n))
	return buf.String(), err
}

// expected gives the spec's outcome for one message under a catalogue.
func expected(c *POCase, cat *catalogue, n int, e *poEntry) (Outcome, string) {
	var ex *Exp
	for i := range c.Exp {
		if c.Exp[i].N == n {
			ex = &c.Exp[i]
		}
	}
	if ex == nil {
		return Outcome{T: "unspec"}, cat.strategy
	}
	st := cat.strategy
	if st == "partial" {
		if e == nil || dropped(e.id) {
			return ex.Src, "partial-absent"
		}
		st = "rev"
	}
	if st == "none" {
		return ex.Src, "none"
	}
	for _, l := range ex.Loc {
		if l.Loc == cat.rule {
			if st == "idt" {
				if cat.alias {
					return l.Idt, "identity-header-differs-from-builtin-rule"
				}
				return l.Idt, "identity"
			}
			if cat.strategy == "partial" {
				return l.Rev, "partial-present"
			}
			return l.Rev, "reverse"
		}
	}
	return Outcome{T: "unspec"}, st
}

// renderMatches: is the rendering what the spec demands (or not judged)?
func renderMatches(o *occ, cat *catalogue, n int, entries map[string]*poEntry, out string, rerr error) bool {
	var parts []string
	for _, m := range o.members() {
		exp, _ := expected(m.c, cat, n, entries[m.desc])
		if exp.T != "out" {
			return true // judged (or not) by judgeRender
		}
		parts = append(parts, exp.S)
	}
	return rerr == nil && out == o.wrap(parts)
}

func judgeRender(ctx *reporter, backend string, o *occ, cat *catalogue, n int, entries map[string]*poEntry, out string, rerr error, f core.File) {
	var parts []string
	allOut, anyErr, translated := true, false, false
	stName := ""
	var e0 *poEntry
	for i, m := range o.members() {
		e := entries[m.desc]
		if i == 0 {
			e0 = e
		}
		exp, st := expected(m.c, cat, n, e)
		if i == 0 {
			stName = st
		}
		if st != "none" && st != "partial-absent" {
			translated = true
		}
		switch exp.T {
		case "out":
			parts = append(parts, exp.S)
		case "err":
			anyErr, allOut = true, false
		default:
			allOut = false
		}
	}
	var bodies []string
	for _, m := range o.members() {
		bodies = append(bodies, c10.UnparseBody(m.c.Parts))
	}
	src := strings.Join(bodies, " | ")
	switch {
	case allOut:
		want := o.wrap(parts)
		kind := ""
		if rerr != nil {
			kind = "unexpected-error"
		} else if out != want {
			kind = "wrong-text"
		}
		if kind == "" {
			return
		}
		tr := "source"
		if translated {
			tr = "translated"
		}
		feat := fmt.Sprintf("%s,%s,%s", tr, kind, o.feat())
		if cat.tools {
			feat = fmt.Sprintf("%s,%s,catalogue-as-tools-write-it", tr, kind)
		}
		if cat.resolved {
			feat = fmt.Sprintf("%s,%s,locale-selects-another-catalogue", tr, kind)
		}
		if o.c.isPlural() && cat.np > 0 && translated {
			feat += fmt.Sprintf(",plural-forms=%d", cat.np)
			if cat.alias {
				feat += ",header-differs-from-builtin-rule"
			}
		}
		errS := ""
		if rerr != nil {
			errS = rerr.Error()
		}
		ctx.Violation(core.Sig{Family: "M2-render", Feature: feat},
			fmt.Sprintf("%s [%s, %s, catalogue %s (%s), n=%d]: got %q err=%q, spec %q", src, backend, o.where, cat.name, stName, n, out, errS, want),
			map[string]interface{}{"case": o.c, "more": o.more, "where": o.where, "template": o.tmpl, "file": f, "catalogue": cat.name, "po": entryText(cat, e0),
				"n": n, "expected": want, "observed": out, "error": errS, "backend": backend})
	case anyErr:
		if backend == "go" && rerr == nil {
			ctx.Violation(core.Sig{Family: "M2-render", Feature: "missing-error," + o.feat()},
				fmt.Sprintf("%s [%s, catalogue %s, n=%d]: rendered %q, spec: error", src, o.where, cat.name, n, out),
				map[string]interface{}{"case": o.c, "file": f, "catalogue": cat.name, "n": n, "observed": out})
		}
	}
}

// entryText returns the catalogue's entry for the message (for the replay).
func entryText(cat *catalogue, e *poEntry) string {
	if cat.text == "" || e == nil {
		return ""
	}
	needle := "id=" + strconv.FormatUint(e.id, 10)
	if cat.tools {
		i := strings.Index(cat.text, needle)
		if i < 0 {
			return "(no entry for " + needle + ")"
		}
		return trunc(cat.text[:400], 400) + " ... " + trunc(cat.text[max(0, i-200):], 900)
	}
	i := strings.Index(cat.text, needle)
	if i < 0 {
		return "(no entry for " + needle + ")"
	}
	start := strings.LastIndex(cat.text[:i], "\n\n") + 1
	end := strings.Index(cat.text[i:], "\n\n")
	if end < 0 {
		end = len(cat.text) - i
	}
	hdr := cat.text
	if j := strings.Index(hdr, "\n\n"); j > 0 {
		hdr = hdr[:j]
	}
	return hdr + "\n" + cat.text[start:i+end]
}

// ---- node ---------------------------------------------------------------------------

type jsRender struct {
	Tmpl string                 `json:"tmpl"`
	Data map[string]interface{} `json:"data"`
	IJ   map[string]interface{} `json:"ij"`
}
type jsJob struct {
	ID      string     `json:"id"`
	Locale  string     `json:"locale"`
	JS      []string   `json:"js"`
	Renders []jsRender `json:"renders"`
}
type jsOut struct {
	Out *string `json:"out"`
	Err *string `json:"err"`
}
type jsResult struct {
	ID      string  `json:"id"`
	LoadErr string  `json:"loadErr"`
	Outs    []jsOut `json:"outs"`
}

func renderJS(ctx *reporter, work string, reg *template.Registry, cats []*catalogue, occs []*occ, entries map[string]*poEntry, files []core.File) (int, error) {
	type ref struct {
		o *occ
		n int
	}
	var jobs []jsJob
	refs := map[string][]ref{}
	for _, cat := range cats {
		if cat.alias || cat.tools {
			continue // soy.$$pluralIndex is the embedder's: nothing of pomsg's rule reaches the JS
		}
		job := jsJob{ID: cat.name, Locale: cat.rule}
		for _, sf := range reg.SoyFiles {
			var buf bytes.Buffer
			if err := soyjs.Write(&buf, sf, soyjs.Options{Messages: cat.bundle}); err != nil {
				ctx.Violation(core.Sig{Family: "M2-render-js", Feature: "codegen-error," + cat.strategy},
					fmt.Sprintf("soyjs.Write fails for %s with catalogue %s: %v", sf.Name, cat.name, err),
					map[string]interface{}{"file": sf.Name, "catalogue": cat.name, "po": trunc(cat.text, 3000)})
				continue
			}
			job.JS = append(job.JS, buf.String())
		}
		for _, o := range occs {
			if skipRender(ctx.ctx, o, cat) {
				continue
			}
			for _, ex := range o.c.Exp {
				job.Renders = append(job.Renders, jsRender{Tmpl: o.tmpl, Data: jsData(ex.N), IJ: jsIJ})
				refs[cat.name] = append(refs[cat.name], ref{o, ex.N})
			}
		}
		if len(job.Renders) > 0 {
			jobs = append(jobs, job)
		}
	}
	// one node process per catalogue, a few at a time
	type res struct {
		r   jsResult
		err error
	}
	results := make([]res, len(jobs))
	sem := make(chan struct{}, 5)
	var wg sync.WaitGroup
	for i := range jobs {
		wg.Add(1)
		go func(i int) {
			defer wg.Done()
			sem <- struct{}{}
			defer func() { <-sem }()
			in := map[string]interface{}{"soyutils": filepath.Join(core.RepoDir, "soyjs", "lib", "soyutils.js"), "jobs": []jsJob{jobs[i]}}
			b, err := json.Marshal(in)
			if err != nil {
				results[i].err = err
				return
			}
			path := filepath.Join(work, "js-"+jobs[i].ID+".json")
			if err := os.WriteFile(path, b, 0o644); err != nil {
				results[i].err = err
				return
			}
			cmd := exec.Command("node", "--max-old-space-size=4096", filepath.Join(core.VerifDir, "js", "c11_driver.js"), path)
			var out, errb bytes.Buffer
			cmd.Stdout, cmd.Stderr = &out, &errb
			if err := cmd.Run(); err != nil {
				results[i].err = fmt.Errorf("%v: %s", err, trunc(errb.String(), 3000))
				return
			}
			var r struct {
				Results []jsResult `json:"results"`
			}
			if err := json.Unmarshal(out.Bytes(), &r); err != nil || len(r.Results) != 1 {
				results[i].err = fmt.Errorf("bad driver output: %v", err)
				return
			}
			results[i].r = r.Results[0]
		}(i)
	}
	wg.Wait()
	total := 0
	catBy := map[string]*catalogue{}
	for _, c := range cats {
		catBy[c.name] = c
	}
	var names []string
	for i := range jobs {
		names = append(names, jobs[i].ID)
	}
	sort.Strings(names)
	for i := range jobs {
		if results[i].err != nil {
			return total, results[i].err
		}
		r := results[i].r
		cat := catBy[r.ID]
		if r.LoadErr != "" {
			ctx.Violation(core.Sig{Family: "M2-render-js", Feature: "generated-js-does-not-load," + cat.strategy},
				"generated JavaScript fails to load with catalogue "+cat.name+": "+trunc(r.LoadErr, 300),
				map[string]interface{}{"catalogue": cat.name, "error": r.LoadErr})
			continue
		}
		rs := refs[r.ID]
		if len(r.Outs) != len(rs) {
			return total, fmt.Errorf("driver returned %d outputs for %d renders", len(r.Outs), len(rs))
		}
		for k, o := range r.Outs {
			total++
			var out string
			var rerr error
			if o.Err != nil {
				rerr = fmt.Errorf("%s", *o.Err)
			} else if o.Out != nil {
				out = *o.Out
			}
			judgeRender(ctx, "js", rs[k].o, cat, rs[k].n, entries, out, rerr, files[rs[k].o.file])
		}
	}
	return total, nil
}

// ---- which catalogue a locale name selects -------------------------------------

// locParts splits a locale name (- or _ separated, any letter case) into
// language, script, region as SoyPO.POLoc has them.
func locParts(name string) (lang, script, region string) {
	for i, p := range strings.FieldsFunc(name, func(r rune) bool { return r == '-' || r == '_' }) {
		switch {
		case i == 0:
			lang = strings.ToLower(p)
		case len(p) == 4:
			script = strings.ToUpper(p[:1]) + strings.ToLower(p[1:])
		default:
			region = strings.ToUpper(p)
		}
	}
	return
}

func locName(lang, script, region string) string {
	n := lang
	if script != "" {
		n += "-" + script
	}
	if region != "" {
		n += "-" + region
	}
	return n
}

// resolveLocale mirrors SoyPO.POResolve: the catalogue named exactly as
// requested, else the first existing one of lang-script-region, lang-script,
// lang ("" = none).
func resolveLocale(avail map[string]bool, request string) string {
	if avail[request] {
		return request
	}
	l, sc, r := locParts(request)
	var chain []string
	if r != "" {
		chain = append(chain, locName(l, sc, r))
	}
	if sc != "" {
		chain = append(chain, locName(l, sc, ""))
	}
	chain = append(chain, l)
	for _, c := range chain {
		if avail[c] {
			return c
		}
	}
	return ""
}

// checkLocaleResolution loads several catalogues that lie on one fallback
// chain (they differ in their translation strategy, so the rendering tells
// which one was used) and renders with the bundle each locale name selects.
// The chains are those the repository's fallback tests pin (lang-Script-Region,
// lang-Script, lang; lang-Region, lang).
func checkLocaleResolution(ctx *reporter, cats []*catalogue, occs []*occ, entries map[string]*poEntry, tofu *soyhtml.Tofu, files []core.File) {
	text := map[string]string{}
	for _, c := range cats {
		if c.loc == "en" && !c.alias && !c.tools && (c.strategy == "idt" || c.strategy == "rev") {
			text[c.strategy] = c.text
		}
	}
	if text["idt"] == "" || text["rev"] == "" {
		return
	}
	// catalogue name -> strategy of its content
	content := map[string]string{
		"zh": "rev", "zh-Hant": "idt",
		"pt": "rev", "pt-BR": "idt",
		"ar": "idt", "ar-Arab-EG": "rev",
		"sr": "idt", "sr-Latn": "rev", "sr-Latn-RS": "idt",
	}
	opener := memOpener{}
	avail := map[string]bool{}
	var names []string
	for n, st := range content {
		opener[n] = text[st]
		avail[n] = true
		names = append(names, n)
	}
	sort.Strings(names)
	prov, err := pomsg.Load(opener, names)
	if err != nil {
		ctx.Violation(core.Sig{Family: "M2-load", Feature: "catalogue-rejected,locale-chain"}, "pomsg.Load rejects the catalogues: "+err.Error(), nil)
		return
	}
	requests := []string{"zh", "zh-Hant", "zh-Hant-TW", "zh_Hant_TW", "ZH-hant-tw", "zh-TW", "zh-Hans-CN", "zh-Hant-HK",
		"pt", "pt-BR", "pt_BR", "pt-PT", "pt-Latn-BR",
		"ar", "ar-Arab-EG", "ar_Arab_EG", "ar-Arab", "ar-EG", "ar-Arab-SA",
		"sr", "sr-Latn", "sr-Latn-RS", "sr_Latn_RS", "sr-Latn-ME", "sr-Cyrl-RS", "sr-RS"}
	// some plural-free occurrences whose identity and reversed renderings differ
	var sample []*occ
	for i, o := range occs {
		if !o.c.isPlural() && len(o.more) == 0 && len(o.c.Parts) >= 2 && i%17 == 0 && len(sample) < 40 {
			sample = append(sample, o)
		}
	}
	n := 0
	for _, req := range requests {
		want := resolveLocale(avail, req)
		b := prov.Bundle(req)
		if want == "" {
			continue // no catalogue on the chain: nothing to render with
		}
		if b == nil {
			ctx.Violation(core.Sig{Family: "M2-locale", Feature: "no-bundle-although-a-catalogue-is-on-the-chain"},
				fmt.Sprintf("Bundle(%q) is nil although %s exists", req, want), map[string]interface{}{"request": req, "catalogues": names})
			continue
		}
		cat := &catalogue{name: "locale " + req + " -> " + want, loc: "en", rule: "en", strategy: content[want], bundle: b, np: 2, text: text[content[want]], resolved: true}
		for _, o := range sample {
			for _, ex := range o.c.Exp {
				out, err := renderGo(tofu, o.tmpl, cat, ex.N, 0)
				n++
				judgeRender(ctx, "go", o, cat, ex.N, entries, out, err, files[o.file])
			}
		}
	}
	ctx.AddEvals(int64(n))
	ctx.ctx.Extra["locale_resolution_requests"] = len(requests)
	ctx.ctx.Extra["locale_resolution_renders"] = n
}
