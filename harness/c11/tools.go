package c11

import (
	"strconv"
	"strings"
)

// decoratePO rewrites a catalogue the way translators' tools leave it, without
// changing what it says: more header fields around Plural-Forms, a translator
// comment, ordinary source references before and after the id= reference (on
// the one reference line the PO reader of the dependency supports), a flag
// line (fuzzy for the identity translation -- used or not, the rendering is the
// source's; c-format otherwise), a previous-msgid line, long strings wrapped
// over continuation lines, CRLF line ends and trailing blank lines.
// (Not used, because the dependency's reader or the PO format leaves them
// unclear: several "#:" lines, obsolete "#~" entries, a byte-order mark.)
func decoratePO(text, strategy string) string {
	flag := "c-format"
	if strategy == "idt" {
		flag = "fuzzy"
	}
	wrap := func(prefix, quoted string, out *[]string) {
		v, err := strconv.Unquote(quoted)
		if err != nil || len(v) < 6 || strings.Contains(v, "\n") {
			*out = append(*out, prefix+quoted)
			return
		}
		k := len(v) / 2
		*out = append(*out, prefix+`""`, strconv.Quote(v[:k]), strconv.Quote(v[k:]))
	}
	var out []string
	for _, ln := range strings.Split(strings.TrimRight(text, "\n"), "\n") {
		switch {
		case strings.HasPrefix(ln, `"Plural-Forms:`):
			out = append(out, `"Project-Id-Version: app 1.0\n"`, `"Content-Type: text/plain; charset=UTF-8\n"`, ln,
				`"Language: en\n"`, `"X-Generator: Poedit 3.4\n"`)
		case strings.HasPrefix(ln, "#. "):
			out = append(out, "#  translator: checked with the team", ln)
		case strings.HasPrefix(ln, "#: "):
			out = append(out, "#: src/app.soy:12 "+ln[3:]+" lib/util.soy:7 var.soy:1", "#, "+flag, `#| msgid "an older text"`)
		case strings.HasPrefix(ln, "msgid_plural "):
			wrap("msgid_plural ", ln[len("msgid_plural "):], &out)
		case strings.HasPrefix(ln, "msgid "):
			wrap("msgid ", ln[len("msgid "):], &out)
		case strings.HasPrefix(ln, "msgstr "):
			wrap("msgstr ", ln[len("msgstr "):], &out)
		case strings.HasPrefix(ln, "msgstr["):
			i := strings.Index(ln, "] ")
			wrap(ln[:i+2], ln[i+2:], &out)
		default:
			out = append(out, ln)
		}
	}
	return strings.Join(out, "\r\n") + "\r\n\r\n\r\n"
}
