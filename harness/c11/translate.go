package c11

import (
	"regexp"
	"strconv"
	"strings"
)

// The "translator": applies a strategy to an entry extracted by the real
// xgettext-soy.  It mirrors SoyPO.POTranslate / POParts / POReverse and is
// cross-checked against the spec's own translation of the spec's msgid on
// every case (so it is trusted only as far as that check goes).

type poPart struct {
	text string
	ph   bool
}

func isNameCh(b byte) bool { return b >= 'A' && b <= 'Z' || b >= '0' && b <= '9' || b == '_' }

// poParts splits a catalogue string into text and {NAME} parts.
func poParts(s string) []poPart {
	var parts []poPart
	var txt strings.Builder
	flush := func() {
		if txt.Len() > 0 {
			parts = append(parts, poPart{text: txt.String()})
			txt.Reset()
		}
	}
	for i := 0; i < len(s); {
		if s[i] == '{' {
			j := i + 1
			for j < len(s) && isNameCh(s[j]) {
				j++
			}
			if j > i+1 && j < len(s) && s[j] == '}' {
				flush()
				parts = append(parts, poPart{text: s[i+1 : j], ph: true})
				i = j + 1
				continue
			}
		}
		txt.WriteByte(s[i])
		i++
	}
	flush()
	return parts
}

func unparts(ps []poPart) string {
	var b strings.Builder
	for _, p := range ps {
		if p.ph {
			b.WriteString("{" + p.text + "}")
		} else {
			b.WriteString(p.text)
		}
	}
	return b.String()
}

func reverseParts(s string) string {
	ps := poParts(s)
	for i, j := 0, len(ps)-1; i < j; i, j = i+1, j-1 {
		ps[i], ps[j] = ps[j], ps[i]
	}
	return unparts(ps)
}

var reNPlurals = regexp.MustCompile(`nplurals=(\d+)`)

// nplurals reads the number of forms from a Plural-Forms header value.
func nplurals(forms string) int {
	if m := reNPlurals.FindStringSubmatch(forms); m != nil {
		n, _ := strconv.Atoi(m[1])
		return n
	}
	return 0
}

func mark(loc string, i int) string {
	if loc == "en" {
		return ""
	}
	return "[" + strconv.Itoa(i) + "]"
}

// translate gives the msgstr(s) for an extracted entry.
func translate(strategy, msgid, msgidPlural, loc string, np int) []string {
	one := func(src string) string {
		if strategy == "rev" {
			return reverseParts(src)
		}
		return src
	}
	if msgidPlural == "" {
		return []string{one(msgid)}
	}
	var out []string
	for i := 0; i < np; i++ {
		src := msgidPlural
		if np > 1 && i == 0 {
			src = msgid
		}
		out = append(out, mark(loc, i)+one(src))
	}
	return out
}

func eqStrs(a, b []string) bool {
	if len(a) != len(b) {
		return false
	}
	for i := range a {
		if a[i] != b[i] {
			return false
		}
	}
	return true
}
