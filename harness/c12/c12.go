// Package c12 decides property C12: a failing output writer always surfaces
// as a render error; what the writer accepted is a prefix of the fault-free
// output; nil is returned only if every byte was accepted.
//
// M1: spec/C12Model.tla (EXTENDS SoyExec) - TLC checks the design on every
// program x every fault plan, and the deviation "write_error_dropped" must be
// caught. M2: fault enumeration on the real code (every write-call index and
// every byte capacity of the fault-free run). M3: a sample of the faulted
// renders is validated by TLC against SoyExec (spec/C12Trace.tla).
package c12

import (
	"fmt"
	"math/rand"
	"runtime"
	"sort"
	"sync"
	"time"

	"github.com/robfig/soy/data"
	"github.com/robfig/soy/soyhtml"

	"verif/core"
)

// Run is the entry point for C12.
func Run(ctx *core.Ctx) {
	ctx.Rule = "cases: (template, fault point) pairs. Templates: the 18 programs of C12Model.BuiltinProgs; the systematic family write-site x context x autoescape mode x value shape; raw-source templates (print directives, all value types, UTF-8, plural, message bundle, $ij, nested calls, >2KB output); testdata/features.soy + simple.soy with the data of features_test.go; seeded core.ProgGen bundles. For each template the fault-free run gives W write calls and B bytes; fault points = every call index k in 0..W-1 (writer dead from call k on / failing only at call k) and every capacity b in 0..B-1 (b bytes accepted, then short write + error, sticky / recovering); B and W above 2048 are seed-sampled. A pair is non-trivial if the injected fault was reached (the writer did return an error) and distinct by (template, plan kind, k)"
	ctx.Assumptions = append(ctx.Assumptions,
		"the fault-free output of a template is what the same compiled bundle renders into an unfailing writer (rendered twice; a template whose two fault-free renders differ is not judged)",
		"randomInt is replaced through the public soyhtml.Funcs registry by a deterministic function so that features.soy has a well-defined fault-free output",
		"writers never return n < len(p) with a nil error (io.Writer contract); write segmentation is not compared",
		"M3 is restricted to ASCII programs and data (model characters = bytes); programs whose fault-free render differs from SoyExec or leaves its domain are not judged there (that is C02's subject)")
	ctx.Trusted = append(ctx.Trusted, "SoyExec.tla/SoyExpr.tla/SoyValues.tla as the model", "core.UnparseProgram (program -> Soy source)")

	// deterministic stand-in for the only nondeterministic builtin
	soyhtml.Funcs["randomInt"] = soyhtml.Func{
		Apply:           func(args []data.Value) data.Value { return data.Int(0) },
		ValidArgLengths: []int{1},
	}

	if ctx.ReplayPath != "" {
		replayOne(ctx)
		return
	}

	// M1 runs next to the fault enumeration (TLC is a separate process)
	var tests []*selfTest
	var m1 sync.WaitGroup
	m1.Add(1)
	go func() { defer m1.Done(); tests = modelChecks(ctx) }()

	e := &engine{ctx: ctx, results: map[*Unit]*unitResult{}, seen: map[string]bool{}}
	builtin := builtinUnits()
	for _, u := range builtin {
		u.M3 = true
	}
	e.add(builtin)
	sites := siteUnits()
	for i, u := range sites {
		u.M3 = i%8 == 0
	}
	e.add(sites)
	// M1 over the harness's own families (every program x every plan) runs
	// next to the enumeration as well: it needs the programs only
	var fam []*Unit
	for i, u := range sites {
		if ctx.Thorough() || i%8 == 0 {
			fam = append(fam, u)
		}
	}
	var wg sync.WaitGroup
	wg.Add(1)
	go func() { defer wg.Done(); modelOnFamilies(ctx, fam, "sites") }()
	e.add(srcUnits())
	e.add(longUnits())
	fu, err := featureUnits()
	if err != nil {
		ctx.ToolError("cannot read the repository's testdata: %v", err)
	}
	e.add(fu)

	// seeded random bundles until the budget of fault points is used
	target := ctx.Pick(60000, 1700000)
	m3n := ctx.Pick(80, 4000)
	rng := rand.New(rand.NewSource(ctx.Seed))
	gi := 0
	for e.pointsOf["proggen"] < target && gi < 200000 {
		var chunk []*Unit
		for k := 0; k < 256; k++ {
			u := proggenUnit(rng, gi)
			u.M3 = gi < m3n
			gi++
			chunk = append(chunk, u)
		}
		e.add(chunk)
	}

	var pg []*Unit
	for _, u := range e.units {
		if u.Family == "proggen" && len(pg) < ctx.Pick(0, 700) {
			pg = append(pg, u)
		}
	}
	wg.Add(1)
	go func() { defer wg.Done(); modelOnFamilies(ctx, pg, "proggen") }()

	t0 := time.Now()
	e.enumerate()
	setExtra(ctx, "enumeration_wall_s", time.Since(t0).Seconds())
	e.report()

	validateAgainstModel(ctx, e.units, e.results)
	wg.Wait()
	m1.Wait()

	// the model's counterexamples, replayed: the unit builtin/pNN is the
	// program of the counterexample and was enumerated at every fault point
	for _, t := range tests {
		if t.Pid <= 0 || t.Pid > len(builtin) {
			continue
		}
		u := builtin[t.Pid-1]
		t.Unit = u.ID
		if r := e.results[u]; r != nil {
			if len(r.violations) == 0 {
				t.RealCode = "does not show the deviation"
			} else {
				t.RealCode = fmt.Sprintf("shows the deviation at %d of %d fault points (%s)", len(r.violations), r.renders, r.violations[0].Feature)
			}
		}
	}
	setExtra(ctx, "m1_selftests", tests)
}

// engine holds the units and their results.
type engine struct {
	ctx          *core.Ctx
	units        []*Unit
	results      map[*Unit]*unitResult
	seen         map[string]bool
	pointsOf     map[string]int // planned fault points per family
	unstable     []string
	dups         int
	rejects      int
	rejectsOf    map[string]int
	rejectSample string
	panics       int
}

func parallel(n int, f func(i int)) {
	var wg sync.WaitGroup
	next := make(chan int, 64)
	workers := runtime.GOMAXPROCS(0)
	if workers > 32 {
		workers = 32
	}
	for w := 0; w < workers; w++ {
		wg.Add(1)
		go func() {
			defer wg.Done()
			for i := range next {
				f(i)
			}
		}()
	}
	for i := 0; i < n; i++ {
		next <- i
	}
	close(next)
	wg.Wait()
}

// add compiles the units (in parallel), runs each fault-free with the site
// tracker (sequentially: soyhtml.VerifAt is a process-wide hook) and keeps
// those that can be enumerated.
func (e *engine) add(us []*Unit) {
	if e.pointsOf == nil {
		e.pointsOf = map[string]int{}
		e.rejectsOf = map[string]int{}
	}
	var fresh []*Unit
	for _, u := range us {
		k := u.key()
		if e.seen[k] {
			e.dups++
			continue
		}
		e.seen[k] = true
		fresh = append(fresh, u)
	}
	parallel(len(fresh), func(i int) { fresh[i].build() })
	for _, u := range fresh {
		if u.compileE != "" {
			// a generated bundle the compiler rejects is the generator's
			// (C02/C07's) business; hand-written units must compile
			e.rejects++
			e.rejectsOf[u.Family]++
			if u.Family != "proggen" {
				e.ctx.ToolError("unit %s does not compile (harness problem): %s\n%s", u.ID, u.compileE, u.Files[0].Text)
			} else if e.rejectSample == "" {
				e.rejectSample = u.ID + ": " + u.compileE
			}
			continue
		}
		u.faultFree()
		if u.unstable {
			// not reproducible even before any fault was injected: not judged
			e.unstable = append(e.unstable, u.ID)
			continue
		}
		if u.skip != "" {
			e.panics++
			if e.panics <= 3 {
				e.ctx.ToolError("unit %s: %s", u.ID, u.skip)
			}
			continue
		}
		e.units = append(e.units, u)
		e.pointsOf[u.Family] += len(u.plans(e.ctx.Seed))
	}
}

func (e *engine) enumerate() {
	res := make([]*unitResult, len(e.units))
	parallel(len(e.units), func(i int) {
		u := e.units[i]
		// distinct (template, fault point) pairs whose fault was reached
		r := u.enumerate(e.ctx.Seed, func(p Plan) {
			e.ctx.Distinct(fmt.Sprintf("%d:%s", i, p))
		})
		res[i] = r
	})
	for i, u := range e.units {
		e.results[u] = res[i]
	}
}

// report turns the results into verdicts and evidence, in unit order.
func (e *engine) report() {
	ctx := e.ctx
	type famStat struct {
		Units, Renders, Reached, NotReached, Violations, Unstable int
	}
	fams := map[string]*famStat{}
	bySite := map[string]int{}
	byKind := map[string]int{}
	bySig := map[string]int{}
	var writes, bytesOut, healthy, snRuns, snNil int
	samples := 0
	unstable := e.unstable
	for i, u := range e.units {
		r := e.results[u]
		fs := fams[u.Family]
		if fs == nil {
			fs = &famStat{}
			fams[u.Family] = fs
		}
		fs.Units++

		writes += len(u.writes)
		bytesOut += len(u.ffOut)
		fs.Renders += r.renders
		fs.Reached += r.reached
		fs.NotReached += r.notReached
		fs.Violations += len(r.violations)
		healthy += r.healthy
		snRuns += r.shortNilRuns
		snNil += r.shortNilReturnedNil
		ctx.AddEvals(int64(r.renders))
		for s, n := range r.bySite {
			bySite[s] += n
		}
		for s, n := range r.byKind {
			byKind[s] += n
		}
		if samples < 6 && len(u.writes) >= 3 && (u.Family != "builtin" || samples < 2) && i%7 == 0 {
			samples++
			p := Plan{Kind: "cap", K: len(u.ffOut) / 2}
			o := u.run(p)
			ctx.Sample(map[string]interface{}{"unit": u.ID, "files": u.Files, "data": u.Data, "plan": p, "site": o.Site,
				"faultFreeOut": string(u.ffOut), "writeCalls": len(u.writes), "accepted": string(o.Accepted), "err": errText(o.Err), "verdict": verdict(o)})
		}
		for _, o := range r.violations {
			bySig[o.Feature]++
			var rc interface{}
			if !o.CountOnly {
				rc = u.replay(o)
			}
			ctx.Violation(core.Sig{Family: "fault-enum", Feature: o.Feature}, describe(u, o), rc)
		}
	}
	ctx.AddTraces(ctx.Evals)
	notReached := 0
	for _, fs := range fams {
		notReached += fs.NotReached
	}
	if notReached > 0 {
		ctx.ToolError("%d fault points were not reached although the fault-free run has them (nondeterministic rendering?)", notReached)
	}
	if len(unstable) > 0 {
		ctx.Extra["templates_not_judged_unstable_fault_free_output"] = unstable
	}
	ctx.Extra["families"] = fams
	ctx.Extra["fault_points_by_site_kind"] = bySite
	ctx.Extra["fault_points_by_plan_kind"] = byKind
	ctx.Extra["violations_by_feature"] = bySig
	ctx.Extra["templates"] = len(e.units)
	ctx.Extra["healthy_writer_renders_interleaved"] = healthy
	ctx.Extra["not_judged_contract_breaking_writer_short_count_nil_error"] = map[string]interface{}{
		"renders": snRuns, "render_returned_nil": snNil,
		"why": "io.Writer requires a non-nil error with n < len(p); the property's quantifier speaks of write failures (errors), so whether clause 3 covers such a writer is open - observed only"}
	ctx.Extra["fault_free_write_calls_total"] = writes
	ctx.Extra["fault_free_bytes_total"] = bytesOut
	ctx.Extra["duplicate_templates_dropped"] = e.dups
	if n := e.rejectsOf["proggen"]; n > 0 {
		ctx.Extra["generated_bundles_rejected_by_compiler"] = map[string]interface{}{"count": n, "first": e.rejectSample}
		if fs := fams["proggen"]; fs == nil || n > fs.Units/4 {
			ctx.ToolError("%d generated bundles were rejected by the compiler (generator out of step with the tree?): %s", n, e.rejectSample)
		}
	}
	var fnames []string
	for f := range fams {
		fnames = append(fnames, f)
	}
	sort.Strings(fnames)
	for _, f := range fnames {
		fs := fams[f]
		fmt.Printf("family %-9s templates=%d faulted-renders=%d reached=%d violations=%d\n", f, fs.Units, fs.Renders, fs.Reached, fs.Violations)
	}
}

// describe is the one-line account of a violating outcome.
func describe(u *Unit, o *Outcome) string {
	if o.Healthy {
		return fmt.Sprintf("%s healthy writer, after plans %v: %s; err=%q", u.ID, o.History, o.What, errText(o.Err))
	}
	s := fmt.Sprintf("%s plan %s: %s; err=%q accepted %d of %d bytes", u.ID, o.Plan, o.What, errText(o.Err), len(o.Accepted), len(u.ffOut))
	if len(o.History) > 0 {
		s += fmt.Sprintf(" (after plans %v)", o.History)
	}
	return s
}

func verdict(o *Outcome) string {
	if o.Feature == "" {
		return "property holds"
	}
	return "VIOLATION " + o.Feature
}
