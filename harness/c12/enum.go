package c12

import (
	"bytes"
	"encoding/base64"
	"fmt"
	"hash/fnv"
	"math/rand"
	"sort"
	"unicode/utf8"

	"verif/core"
)

// MaxPoints is the cap on byte capacities (and on write-call indices) that
// are enumerated exhaustively per template; larger templates are sampled.
const MaxPoints = 2048

// points lists the values 0..n-1, or a seeded sample of MaxPoints of them.
func points(n int, seed int64, salt string) []int {
	if n <= MaxPoints {
		r := make([]int, n)
		for i := range r {
			r[i] = i
		}
		return r
	}
	h := fnv.New64a()
	h.Write([]byte(salt))
	rng := rand.New(rand.NewSource(seed ^ int64(h.Sum64())))
	r := rng.Perm(n)[:MaxPoints]
	// the ends are always included
	r[0], r[1] = 0, n-1
	sort.Ints(r)
	out := r[:0]
	for i, v := range r {
		if i == 0 || v != r[i-1] {
			out = append(out, v)
		}
	}
	return out
}

// plans enumerates the fault plans of a unit, for the writer without and the
// writer with a WriteString method: every write-call index of the fault-free
// run (dead from there on / failing once) and every byte capacity below the
// size of the fault-free output (sticky / failing once). For the families
// other than "long" the WriteString flavour gets dead, once and cap only.
func (u *Unit) plans(seed int64) []Plan {
	ps := u.basePlans(seed)
	return append(ps, u.variations(ps)...)
}

// variations adds the two other dimensions of a failing write to the base
// plans (private sentinel error, default count): the VALUE of the error
// (errIDs) and, for dead/once, how much the failing call accepts (nModes).
// Every base plan gets one variation, the values rotating with the plan's
// index so that every (error value, count) pair meets every site kind and many
// positions; the built-in family gets the full cross product.
func (u *Unit) variations(base []Plan) []Plan {
	h := fnv.New32a()
	h.Write([]byte(u.ID))
	off := int(h.Sum32() % 4096)
	names := []string{""}
	for _, e := range errIDs {
		names = append(names, e.Name)
	}
	var vs []Plan
	for i, b := range base {
		callPlan := b.Kind == "dead" || b.Kind == "once"
		if u.Family == "builtin" {
			for _, e := range names {
				for _, n := range nModes {
					if (n != "" && !callPlan) || (e == "" && n == "") {
						continue
					}
					v := b
					v.Err, v.N = e, n
					vs = append(vs, v)
				}
			}
			continue
		}
		if u.long && !callPlan && i%4 != 0 {
			continue // long outputs: a quarter of the capacities get a variation
		}
		j := off + i
		v := b
		v.Err = names[j%len(names)]
		if callPlan {
			v.N = nModes[j%len(nModes)]
		}
		if v.Err == "" && v.N == "" {
			v.Err = names[1+j%len(errIDs)]
		}
		vs = append(vs, v)
	}
	return vs
}

func (u *Unit) basePlans(seed int64) []Plan {
	var ps []Plan
	for _, sw := range []bool{false, true} {
		for _, k := range points(len(u.writesOf(sw)), seed, u.ID+"#w") {
			ps = append(ps, Plan{Kind: "dead", K: k, SW: sw}, Plan{Kind: "once", K: k, SW: sw})
		}
		var caps []int
		if u.long {
			caps = u.longCaps(sw, seed)
		} else {
			caps = points(len(u.ffOut), seed, u.ID+"#b")
		}
		for _, b := range caps {
			ps = append(ps, Plan{Kind: "cap", K: b, SW: sw})
			if !sw || u.long {
				ps = append(ps, Plan{Kind: "caponce", K: b, SW: sw})
			}
		}
	}
	return ps
}

// longCaps chooses the byte capacities for a template with a very long write:
// both ends, the bytes around every write-call boundary of the fault-free run,
// the bytes around every multiple of 4096 inside a long write and around the
// first multiple of other likely buffer sizes, and a seeded sample of the rest.
func (u *Unit) longCaps(sw bool, seed int64) []int {
	n := len(u.ffOut)
	set := map[int]bool{}
	radius := 2
	add := func(b int) {
		for d := -radius; d <= radius; d++ {
			if b+d >= 0 && b+d < n {
				set[b+d] = true
			}
		}
	}
	add(0)
	add(n - 1)
	for _, w := range u.writesOf(sw) {
		radius = 1
		add(w.Off)
		radius = 2
		if w.Len <= 512 {
			continue
		}
		for o := 4096; o < w.Len; o += 4096 {
			add(w.Off + o)
		}
		for _, c := range []int{512, 1024, 2048, 8192, 16384, 32768, 65536} {
			if c < w.Len {
				add(w.Off + c)
			}
		}
	}
	h := fnv.New64a()
	h.Write([]byte(u.ID))
	rng := rand.New(rand.NewSource(seed ^ int64(h.Sum64())))
	for i := 0; i < 48 && n > 0; i++ {
		set[rng.Intn(n)] = true
	}
	var r []int
	for b := range set {
		r = append(r, b)
	}
	sort.Ints(r)
	if len(r) > MaxPoints {
		// keep the budget: thin out evenly (only with thousands of write calls)
		var t []int
		for i := 0; i < MaxPoints; i++ {
			t = append(t, r[i*len(r)/MaxPoints])
		}
		r = t
	}
	return r
}

// siteAt names the write site of the fault-free run's call idx.
func (u *Unit) siteAt(sw bool, idx int) string {
	ws := u.writesOf(sw)
	if idx < 0 {
		return "no-failed-write"
	}
	if idx >= len(ws) {
		return "beyond-fault-free-run"
	}
	return ws[idx].Site
}

// Outcome is one faulted render.
type Outcome struct {
	Plan       Plan
	Err        error
	Panicked   bool
	Accepted   []byte
	Calls      int
	FirstBad   int
	AfterBad   int
	AtFail     int    // bytes accepted until (and including) the first failed call
	Site       string // site kind of the first failed write
	Feature    string // "" = the property holds for this run
	What       string
	ErrDropped bool
	NeedsFF    bool   // the verdict depends on the fault-free output
	Healthy    bool   // this is a render into an unfailing writer (no plan)
	History    []Plan // the plans run on this template just before (oldest first)
	CountOnly  bool   // replay material dropped (more than 3 of this feature in the unit)
}

// run performs one faulted render and judges it against the property:
//
//	(1) the writer failed  =>  the render returns a non-nil error
//	(2) the accepted bytes are a prefix of the fault-free output
//	(3) nil is returned only if every byte of the fault-free output was accepted
//
// Write segmentation is never compared.
func (u *Unit) run(p Plan) *Outcome {
	w := newFaultWriter(p, len(u.ffOut))
	var err error
	var pan bool
	if p.SW {
		err, pan = u.render(swFault{w})
	} else {
		err, pan = u.render(w)
	}
	o := &Outcome{Plan: p, Err: err, Panicked: pan, Accepted: w.accepted, Calls: w.calls,
		FirstBad: w.firstBad, AfterBad: w.afterBad}
	o.Site = u.siteAt(p.SW, w.firstBad)
	failed := w.firstBad >= 0
	// (2) is judged on the bytes accepted until the writer failed: for the
	// sticky writers (dead, cap) that is everything they ever accept; what a
	// recovering writer accepts after its failure is not judged (whether the
	// property speaks about it is open to interpretation - a render that
	// keeps writing after a failed write is caught by (1) instead)
	before := w.accepted
	if failed {
		before = w.accepted[:w.atFail]
	}
	o.AtFail = len(before)
	isPrefix := bytes.HasPrefix(u.ffOut, before)
	o.ErrDropped = failed && (w.afterBad > 0 || err == nil)
	switch {
	case pan:
		o.Feature = o.Site + "-panic"
		o.What = fmt.Sprintf("the render panicked instead of returning an error: %v", err)
	case failed && err == nil:
		o.Feature = o.Site + "-write-error-dropped"
		o.What = fmt.Sprintf("write call %d (%s) failed but the render returned nil", w.firstBad, o.Site)
	case !isPrefix:
		// named after the site that wrote the first wrong byte: the write call
		// of the fault-free run that covers the offset where the bytes diverge
		o.NeedsFF = true
		d := 0
		for d < len(before) && d < len(u.ffOut) && before[d] == u.ffOut[d] {
			d++
		}
		o.Feature = u.siteAt(p.SW, u.callAt(p.SW, d)) + "-accepted-not-prefix"
		o.What = fmt.Sprintf("accepted bytes are not a prefix of the fault-free output (they diverge at byte %d)", d)
	case err == nil && !bytes.Equal(w.accepted, u.ffOut):
		o.NeedsFF = true
		o.Feature = "nil-but-incomplete"
		o.What = "nil returned although not every byte of the fault-free output was accepted"
	}
	return o
}

// text makes bytes printable in JSON without losing them.
type text struct {
	S   string `json:"s"`
	B64 string `json:"b64,omitempty"` // set when the bytes are not valid UTF-8 (cut inside a character)
	Len int    `json:"len"`
}

func mkText(b []byte) text {
	t := text{S: string(b), Len: len(b)}
	if !utf8.Valid(b) {
		t.B64 = base64.StdEncoding.EncodeToString(b)
	}
	return t
}

func errText(e error) string {
	if e == nil {
		return ""
	}
	return e.Error()
}

// ReplayCase is the replay file of one violation.
type ReplayCase struct {
	Unit      UnitSpec `json:"unit"`
	Plan      Plan     `json:"plan"`
	PlanDoc   string   `json:"planDoc"`
	Site      string   `json:"siteOfInjectedFault"`
	FaultFree struct {
		Out    text   `json:"out"`
		Err    string `json:"err"`
		Writes int    `json:"writeCalls"`
	} `json:"faultFree"`
	Observed struct {
		Accepted      text   `json:"accepted"`
		Err           string `json:"err"`
		ErrIsNil      bool   `json:"errIsNil"`
		Panicked      bool   `json:"panicked"`
		WriteCalls    int    `json:"writeCalls"`
		FirstFailed   int    `json:"firstFailedCall"`
		CallsAfterBad int    `json:"callsAfterFailure"`
		UntilFailure  int    `json:"bytesAcceptedUntilFailure"`
	} `json:"observed"`
	Expected string `json:"expected"`
	// History: plans run on the same compiled template immediately before
	// (the observation may depend on what those failed renders left behind).
	// HealthyRender: the observed render used an unfailing writer (no plan).
	History       []Plan        `json:"history,omitempty"`
	HealthyRender bool          `json:"healthyRender,omitempty"`
	Prog          *core.Program `json:"prog,omitempty"`
}

const planDoc = "err: the error value the failing calls return (default: a private sentinel); n (dead/once): the failing call accepts nothing (default), half or all of its bytes; sw: the writer also has a WriteString method; dead k: every Write from call k on returns (0, err); once k: only call k does; cap b: b bytes are accepted in total, the Write crossing b returns (short, err), later non-empty Writes (0, err); caponce b: as cap but the writer recovers after the short write"

func (u *Unit) replay(o *Outcome) *ReplayCase {
	rc := &ReplayCase{Unit: u.UnitSpec, Plan: o.Plan, PlanDoc: planDoc, Site: o.Site, Prog: u.Prog,
		History: o.History, HealthyRender: o.Healthy}
	rc.FaultFree.Out = mkText(u.ffOut)
	rc.FaultFree.Err = errText(u.ffErr)
	rc.FaultFree.Writes = len(u.writesOf(o.Plan.SW))
	rc.Observed.Accepted = mkText(o.Accepted)
	rc.Observed.Err = errText(o.Err)
	rc.Observed.ErrIsNil = o.Err == nil
	rc.Observed.Panicked = o.Panicked
	rc.Observed.WriteCalls = o.Calls
	rc.Observed.FirstFailed = o.FirstBad
	rc.Observed.CallsAfterBad = o.AfterBad
	rc.Observed.UntilFailure = o.AtFail
	rc.Expected = "a non-nil error; the bytes accepted until the writer failed are a prefix of faultFree.out; nil only if all of faultFree.out was accepted"
	return rc
}

// capObs is a cap-plan observation kept for validation against the model.
type capObs struct {
	B       int
	Err     bool
	Acc     string
	M2Bad   bool
	Feature string
	Site    string
}

// unitResult is what the enumeration of one unit produced.
type unitResult struct {
	renders                           int
	reached                           int // fault points at which the writer did fail
	notReached                        int
	bySite                            map[string]int // fault points by site kind of the injected fault
	byKind                            map[string]int
	violations                        []*Outcome // all violating outcomes (Accepted dropped beyond keep)
	healthy                           int        // renders into a healthy writer interleaved with the faulted ones
	shortNilRuns, shortNilReturnedNil int        // contract-breaking writer, observed only
	obs                               []capObs
}

// enumerate runs every fault plan of the unit (sequentially: one goroutine
// per unit, no compiled bundle is shared between goroutines).
//
// The reference is the fault-free output measured before any fault was
// injected in this process (Unit.faultFree, reproducible there). A render
// whose result differs from it later on - a faulted one whose accepted bytes
// are not a prefix, or one into a healthy writer (checked at the start, every
// 16 plans and at the end) - differs because of the failed writes that came
// before it, and is reported; the replay case carries the plans that preceded.
func (u *Unit) enumerate(seed int64, reached func(Plan)) *unitResult {
	res := &unitResult{bySite: map[string]int{}, byKind: map[string]int{}}
	var m3pts map[int]bool
	if u.M3 && u.Prog != nil {
		m3pts = map[int]bool{}
		n := len(u.ffOut)
		const maxObs = 16
		for i := 0; i < n && i < maxObs; i++ {
			b := i
			if n > maxObs {
				b = i * (n - 1) / (maxObs - 1)
			}
			m3pts[b] = true
		}
	}
	kept := map[string]int{}
	keep := func(o *Outcome) {
		kept[o.Feature]++
		if kept[o.Feature] > 3 {
			o.Accepted, o.History, o.CountOnly = nil, nil, true
		}
		res.violations = append(res.violations, o)
	}
	var hist []Plan
	baseBad := map[Plan]bool{}
	healthyCheck := func() {
		ok, out, err := u.healthy()
		res.healthy++
		if ok {
			return
		}
		o := &Outcome{Healthy: true, Err: err, Accepted: out, FirstBad: -1, Site: "n/a", NeedsFF: true,
			Feature: "healthy-render-differs-after-failed-writes",
			What:    "a render into an unfailing writer no longer produces the fault-free output after renders whose writer failed",
			History: append([]Plan{}, hist...)}
		keep(o)
	}
	healthyCheck()
	for i, p := range u.plans(seed) {
		o := u.run(p)
		res.renders++
		res.byKind[p.Kind]++
		if o.FirstBad >= 0 {
			res.reached++
			res.bySite[o.Site]++
			if reached != nil {
				reached(p)
			}
		} else {
			res.notReached++
		}
		if p.Kind == "cap" && !p.SW && m3pts[p.K] {
			res.obs = append(res.obs, capObs{B: p.K, Err: o.Err != nil, Acc: string(o.Accepted),
				M2Bad: o.Feature != "", Feature: o.Feature, Site: u.siteAt(false, u.callAtOffset(p.K))})
		}
		if p == p.base() {
			baseBad[p] = o.Feature != ""
		} else if o.Feature != "" && !o.NeedsFF && !o.Panicked && !baseBad[p.base()] {
			// the same fault point is fine with the sentinel error and the
			// default count: name the dimension(s) that make it fail
			suffix := ""
			pe, pn := p.base(), p.base()
			pe.Err, pn.N = p.Err, p.N
			res.renders += 2
			switch {
			case p.Err != "" && u.run(pe).Feature != "":
				suffix = ",err=" + p.Err
			case p.N != "" && u.run(pn).Feature != "":
				suffix = ",n=" + p.N
			default:
				suffix = ",err=" + p.Err + ",n=" + p.N
			}
			o.Feature += suffix
		}
		if o.Feature != "" {
			if o.NeedsFF {
				o.History = append([]Plan{}, hist...)
			}
			keep(o)
		}
		hist = append(hist, p)
		if len(hist) > 8 {
			hist = hist[1:]
		}
		if i%16 == 15 {
			healthyCheck()
		}
	}
	healthyCheck()
	// for the record only, never judged: a writer that breaks io.Writer's
	// contract by returning a short count with a nil error
	if u.Family == "builtin" {
		for b := 0; b < len(u.ffOut); b++ {
			w := newFaultWriter(Plan{Kind: "shortnil", K: b}, len(u.ffOut))
			err, _ := u.render(w)
			res.shortNilRuns++
			if err == nil {
				res.shortNilReturnedNil++
			}
		}
	}
	return res
}

// callAt is callAtOffset for either writer flavour; past the end it names
// the last call.
func (u *Unit) callAt(sw bool, b int) int {
	ws := u.writesOf(sw)
	for i, w := range ws {
		if w.Off+w.Len > b {
			return i
		}
	}
	return len(ws) - 1
}

// callAtOffset returns the index of the fault-free write call during which a
// writer of capacity b runs full (the first call that ends beyond b).
func (u *Unit) callAtOffset(b int) int {
	for i, w := range u.writes {
		if w.Off+w.Len > b {
			return i
		}
	}
	return -1
}
