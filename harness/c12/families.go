package c12

import (
	"fmt"
	"math/rand"
	"sort"
	"strings"

	"verif/core"
)

type cmds = []core.Cmd

func noPlan() map[string]interface{} { return map[string]interface{}{"kind": "none"} }

// boundNames collects the names bound by let/foreach commands anywhere in v.
func collect(v interface{}, vars, bound map[string]bool) {
	switch x := v.(type) {
	case map[string]interface{}:
		switch x["k"] {
		case "var":
			vars[x["name"].(string)] = true
		case "letv", "letc":
			bound[x["name"].(string)] = true
		case "foreach":
			bound[x["var"].(string)] = true
		}
		for _, c := range x {
			collect(c, vars, bound)
		}
	case []core.Cmd:
		for _, c := range x {
			collect(c, vars, bound)
		}
	case []interface{}:
		for _, c := range x {
			collect(c, vars, bound)
		}
	}
}

// tmpl builds a template whose declared params are exactly the free variables
// of its body (the compiler rejects unused and undeclared params).
func tmpl(body cmds, nsa, ta string) *core.Tmpl {
	vars, bound := map[string]bool{}, map[string]bool{}
	collect(body, vars, bound)
	var names []string
	for n := range vars {
		if !bound[n] && n != "ij" {
			names = append(names, n)
		}
	}
	sort.Strings(names)
	ps := []core.Param{}
	for _, n := range names {
		ps = append(ps, core.Param{Name: n})
	}
	if body == nil {
		body = cmds{}
	}
	return &core.Tmpl{Params: ps, Body: body, NsA: nsa, TA: ta}
}

// program assembles a program; data is restricted to the entry's params.
func program(bundle map[string]*core.Tmpl, dat map[string]core.V) *core.Program {
	d := map[string]core.V{}
	for _, p := range bundle["n.m"].Params {
		if v, ok := dat[p.Name]; ok {
			d[p.Name] = v
		}
	}
	return &core.Program{Bundle: bundle, Entry: "n.m", Data: d, IJ: core.V{"t": "none"},
		Glob: map[string]core.V{}, Plan: noPlan(), Aliases: map[string]bool{}}
}

func one(body cmds, ta string, dat map[string]core.V) *core.Program {
	return program(map[string]*core.Tmpl{"n.m": tmpl(body, "", ta)}, dat)
}

func x() core.E { return core.EVar("x") }

var noOpt = core.Opt(false, nil)

// builtinPrograms mirrors BuiltinProgs of spec/C12Model.tla, index by index,
// so that a TLC counterexample (pid) names a unit of the family "builtin".
func builtinPrograms() []*core.Program {
	dx := map[string]core.V{"x": core.VStr("a<b")}
	dl := map[string]core.V{"x": core.VStr("v"), "l": core.VList(core.VInt(1), core.VInt(2), core.VInt(3)), "e": core.VList()}
	pr := func(n string) core.Cmd { return core.CPrint(core.EVar(n)) }
	loop := func(list string, body cmds) core.Cmd {
		return core.CForeach("foreach", "i", core.EVar(list), body, core.Opt(true, cmds{core.CText("none")}))
	}
	return []*core.Program{
		one(cmds{pr("x")}, "", dx),
		one(cmds{core.CText("ab"), core.CText("c")}, "", nil),
		one(cmds{core.CText("t"), pr("x")}, "", dx),
		one(cmds{pr("x"), core.CText("z")}, "", dx),
		one(cmds{core.CPrint(x(), core.CDir("noAutoescape")), core.CText("z")}, "", dx),
		one(cmds{core.CText("t"), pr("x")}, "false", dx),
		one(cmds{core.CPrint(x(), core.CDir("escapeHtml"))}, "false", dx),
		one(cmds{core.CCss(x(), "s"), core.CCss(nil, "c")}, "", dx),
		one(cmds{core.CMsg("d", cmds{core.CText("M"), core.CText("<b>"), pr("x"), core.CText("</b>")})}, "", dx),
		one(cmds{core.CLetC("b", cmds{core.CText("in"), pr("x")}), core.CText("-"), pr("b")}, "", dx),
		program(map[string]*core.Tmpl{
			"n.m": tmpl(cmds{core.CText("a"), core.CCall("n.s", "none", nil, core.CPC("p", cmds{core.CText("c"), pr("x")})), core.CText("e")}, "", ""),
			"n.s": tmpl(cmds{core.CText("["), pr("p"), core.CText("]")}, "", ""),
		}, dx),
		one(cmds{core.CText("a"), core.CLog(cmds{core.CText("LOG"), pr("x")}), core.CText("b")}, "", dx),
		one(cmds{loop("l", cmds{pr("i"), core.CText(",")}), loop("e", cmds{pr("i")})}, "", dl),
		one(cmds{core.CIf(cmds{core.CBr(x(), cmds{core.CText("T")})}, core.Opt(true, cmds{core.CText("F")})), pr("x")}, "", dx),
		program(map[string]*core.Tmpl{
			"n.m": tmpl(cmds{core.CText("a"), core.CCall("n.s", "all", nil), pr("x")}, "", ""),
			"n.s": tmpl(cmds{pr("x"), core.CText("|")}, "", "false"),
		}, dx),
		nil, // 16: {$u} undefined - the compiler rejects an undeclared variable; see erroringProgram
		one(cmds{pr("x")}, "", map[string]core.V{"x": core.VStr("")}),
		one(cmds{}, "", nil),
	}
}

// erroringProgram is BuiltinProgs[16]: a render that fails by itself half way
// ($u is a declared, optional param that is not passed).
func erroringProgram() *core.Program {
	p := one(cmds{core.CText("a"), core.CPrint(core.EVar("u")), core.CText("b")}, "", nil)
	p.Bundle["n.m"].Params = []core.Param{{Name: "u", Opt: true}}
	return p
}

// a write site: the commands that exercise it
type site struct {
	name string
	cmds cmds
}

func siteList() []site {
	return []site{
		{"rawtext", cmds{core.CText("T<")}},
		{"print", cmds{core.CPrint(x())}},
		{"print-noAutoescape", cmds{core.CPrint(x(), core.CDir("noAutoescape"))}},
		{"print-id", cmds{core.CPrint(x(), core.CDir("id"))}},
		{"print-escapeHtml", cmds{core.CPrint(x(), core.CDir("escapeHtml"))}},
		{"print-literal", cmds{core.CPrint(core.EStr("q'r"))}},
		{"print-int", cmds{core.CPrint(core.EBin("add", core.EInt(1), core.EInt(2)))}},
		{"css-expr", cmds{core.CCss(x(), "suf")}},
		{"css", cmds{core.CCss(nil, "cls")}},
		{"msg", cmds{core.CMsg("d", cmds{core.CText("M"), core.CText("<b>"), core.CPrint(x()), core.CText("</b>")})}},
		{"letc-print", cmds{core.CLetC("b", cmds{core.CText("in"), core.CPrint(x())}), core.CPrint(core.EVar("b"))}},
		{"log", cmds{core.CLog(cmds{core.CText("L"), core.CPrint(x())})}},
	}
}

// a context: where the site's commands are put. It returns the bundle.
type context struct {
	name string
	wrap func(s cmds, nsa, ta string) map[string]*core.Tmpl
}

func cat(parts ...cmds) cmds {
	var r cmds
	for _, p := range parts {
		r = append(r, p...)
	}
	return r
}

func contextList() []context {
	main := func(body cmds, nsa, ta string) map[string]*core.Tmpl {
		return map[string]*core.Tmpl{"n.m": tmpl(body, nsa, ta)}
	}
	pre, post := cmds{core.CText("pre")}, cmds{core.CText("post")}
	callee := func(caller cmds, s cmds, nsa, ta string) map[string]*core.Tmpl {
		return map[string]*core.Tmpl{"n.m": tmpl(caller, nsa, ta), "n.s": tmpl(s, nsa, ta)}
	}
	// params that the callee's body needs, passed by value
	pass := func(s cmds) []core.Cmd {
		var ps []core.Cmd
		for _, p := range tmpl(s, "", "").Params {
			ps = append(ps, core.CPV(p.Name, core.EVar(p.Name)))
		}
		return ps
	}
	return []context{
		{"alone", func(s cmds, nsa, ta string) map[string]*core.Tmpl { return main(s, nsa, ta) }},
		{"last", func(s cmds, nsa, ta string) map[string]*core.Tmpl { return main(cat(pre, s), nsa, ta) }},
		{"first", func(s cmds, nsa, ta string) map[string]*core.Tmpl { return main(cat(s, post), nsa, ta) }},
		{"middle", func(s cmds, nsa, ta string) map[string]*core.Tmpl { return main(cat(pre, s, post), nsa, ta) }},
		{"twice", func(s cmds, nsa, ta string) map[string]*core.Tmpl { return main(cat(s, s), nsa, ta) }},
		{"if", func(s cmds, nsa, ta string) map[string]*core.Tmpl {
			return main(cmds{core.CIf(cmds{core.CBr(core.EBool(true), s)}, noOpt)}, nsa, ta)
		}},
		{"else", func(s cmds, nsa, ta string) map[string]*core.Tmpl {
			return main(cmds{core.CIf(cmds{core.CBr(core.EBool(false), cmds{core.CText("no")})}, core.Opt(true, s))}, nsa, ta)
		}},
		{"switch", func(s cmds, nsa, ta string) map[string]*core.Tmpl {
			return main(cmds{core.CSwitch(core.EInt(1), cmds{core.CCase([]core.E{core.EInt(0)}, cmds{core.CText("no")}), core.CCase([]core.E{core.EInt(1)}, s)}, noOpt)}, nsa, ta)
		}},
		{"loop", func(s cmds, nsa, ta string) map[string]*core.Tmpl {
			return main(cmds{core.CForeach("foreach", "i", core.EList(core.EInt(1), core.EInt(2), core.EInt(3)),
				cat(s, cmds{core.CPrint(core.EVar("i"))}), noOpt)}, nsa, ta)
		}},
		{"ifempty", func(s cmds, nsa, ta string) map[string]*core.Tmpl {
			return main(cmds{core.CForeach("foreach", "i", core.EList(), cmds{core.CPrint(core.EVar("i"))}, core.Opt(true, s))}, nsa, ta)
		}},
		{"callee", func(s cmds, nsa, ta string) map[string]*core.Tmpl {
			return callee(cmds{core.CText("a"), core.CCall("n.s", "none", nil, pass(s)...), core.CText("z")}, s, nsa, ta)
		}},
		{"callee-last", func(s cmds, nsa, ta string) map[string]*core.Tmpl {
			return callee(cmds{core.CCall("n.s", "none", nil, pass(s)...)}, s, nsa, ta)
		}},
		{"callee-all", func(s cmds, nsa, ta string) map[string]*core.Tmpl {
			// the caller must itself use what data="all" forwards
			var uses cmds
			for _, p := range tmpl(s, "", "").Params {
				uses = append(uses, core.CLetV("v", core.EVar(p.Name)), core.CLog(cmds{core.CPrint(core.EVar("v"))}))
			}
			return callee(cat(uses, cmds{core.CCall("n.s", "all", nil)}), s, nsa, ta)
		}},
		{"param-content", func(s cmds, nsa, ta string) map[string]*core.Tmpl {
			return callee(cmds{core.CText("a"), core.CCall("n.s", "none", nil, core.CPC("p", s))},
				cmds{core.CText("["), core.CPrint(core.EVar("p")), core.CText("]")}, nsa, ta)
		}},
		{"let-content", func(s cmds, nsa, ta string) map[string]*core.Tmpl {
			return main(cmds{core.CLetC("s", s), core.CText("-"), core.CPrint(core.EVar("s"))}, nsa, ta)
		}},
	}
}

// modes: (namespace autoescape, template autoescape)
var modeList = [][2]string{{"", ""}, {"", "false"}, {"false", "true"}, {"", "contextual"}}

var valueList = []string{"v", "a<b&c'd\"e", ""}

// siteUnits is the systematic family: every write site x every context x
// every autoescape mode x every value shape.
func siteUnits() []*Unit {
	var us []*Unit
	for _, s := range siteList() {
		vars, bound := map[string]bool{}, map[string]bool{}
		collect(s.cmds, vars, bound)
		for _, c := range contextList() {
			for mi, m := range modeList {
				for vi, v := range valueList {
					if vi > 0 && !vars["x"] {
						continue // the site does not print $x: one value is enough
					}
					b := c.wrap(s.cmds, m[0], m[1])
					p := program(b, map[string]core.V{"x": core.VStr(v)})
					name := fmt.Sprintf("%s.%s.m%d.v%d", s.name, c.name, mi, vi)
					us = append(us, progUnit("sites", name, p, core.Style{}))
				}
			}
		}
	}
	return us
}

func builtinUnits() []*Unit {
	var us []*Unit
	for i, p := range builtinPrograms() {
		if p == nil {
			p = erroringProgram()
		}
		us = append(us, progUnit("builtin", fmt.Sprintf("p%02d", i+1), p, core.Style{}))
	}
	return us
}

// proggenUnit generates one random bundle (core.ProgGen, ASCII only).
func proggenUnit(r *rand.Rand, i int) *Unit {
	g := &core.ProgGen{R: r, MaxDepth: 1 + r.Intn(3)}
	p := g.Gen()
	return progUnit("proggen", fmt.Sprintf("g%05d", i), p, core.Style{Parens: r.Intn(2), Tight: r.Intn(3) == 0})
}

// ---- raw-source units (outside the model's vocabulary) ---------------------

func srcUnit(name, params, attrs, body string, data map[string]interface{}) *Unit {
	var b strings.Builder
	b.WriteString("{namespace n}\n\n/**\n")
	for _, p := range strings.Fields(params) {
		if strings.HasSuffix(p, "?") {
			b.WriteString(" * @param? " + strings.TrimSuffix(p, "?") + "\n")
		} else {
			b.WriteString(" * @param " + p + "\n")
		}
	}
	b.WriteString(" */\n{template .m" + attrs + "}\n" + body + "\n{/template}\n")
	u := &Unit{}
	u.Family = "src"
	u.ID = "src/" + name
	u.Files = []core.File{{Name: "n.soy", Text: b.String()}}
	u.Entry = "n.m"
	u.Data = data
	if u.Data == nil {
		u.Data = map[string]interface{}{}
	}
	return u
}

type d = map[string]interface{}

func srcUnits() []*Unit {
	var us []*Unit
	add := func(u *Unit) *Unit { us = append(us, u); return u }
	special := "a<b & 'c' \"d\" >e\nf"
	// print directives: which path writes the result depends on the directive
	dirs := []string{"truncate:3", "truncate:4,false", "insertWordBreaks:2", "changeNewlineToBr", "escapeUri",
		"escapeJsString", "json", "truncate:3|noAutoescape", "escapeUri|escapeHtml", "noAutoescape|escapeHtml", "id|truncate:2"}
	for di, dir := range dirs {
		for ai, attr := range []string{"", ` autoescape="false"`} {
			for vi, v := range []string{special, "plain", ""} {
				for ti, tail := range []string{"", "<br>"} {
					add(srcUnit(fmt.Sprintf("dir%02d.a%d.v%d.t%d", di, ai, vi, ti), "x", attr, "{$x|"+dir+"}"+tail, d{"x": v}))
				}
			}
		}
	}
	// values of every type through the escaped and the unescaped path
	vals := []interface{}{nil, true, 0, -12, 3.5, "s", []interface{}{"<a>", 1, []interface{}{}}, d{"k": "<v>", "l": []interface{}{1}}}
	for vi, v := range vals {
		for ai, attr := range []string{"", ` autoescape="false"`} {
			add(srcUnit(fmt.Sprintf("val%02d.a%d", vi, ai), "x", attr, "[{$x}]{$x}", d{"x": v}))
		}
	}
	// bytes, not characters: faults inside multi-byte sequences
	add(srcUnit("utf8.esc", "x", "", "日本<é>{$x}ü", d{"x": "é<ü>ß&日"}))
	add(srcUnit("utf8.raw", "x", ` autoescape="false"`, "日本<é>{$x}ü", d{"x": "é<ü>ß&日"}))
	// plural messages (rendered from the source text)
	for _, n := range []int{0, 1, 5} {
		add(srcUnit(fmt.Sprintf("plural.n%d", n), "n x", "",
			`{msg desc="d"}{plural $n}{case 0}none{case 1}one {$x}{default}{$n} many <b>{$x}</b>{/plural}{/msg}!`, d{"n": n, "x": "e<g"}))
	}
	// messages rendered through a message bundle (translated text path)
	for vi, v := range []string{"w<o", ""} {
		for ai, attr := range []string{"", ` autoescape="false"`} {
			u := add(srcUnit(fmt.Sprintf("msgbundle.v%d.a%d", vi, ai), "x", attr,
				`{msg desc="d"}Hello <b>{$x}</b> you{/msg}{msg desc="e"}tail{/msg}`, d{"x": v}))
			u.Msgs = "bracket"
			u = add(srcUnit(fmt.Sprintf("msgbundle-last.v%d.a%d", vi, ai), "x", attr,
				`-{msg desc="d"}Bye {$x}{/msg}`, d{"x": v}))
			u.Msgs = "bracket"
		}
	}
	// injected data, special character commands, literal
	u := add(srcUnit("ij", "", "", "{$ij.u}|{$ij.w|noAutoescape}", nil))
	u.IJ = d{"u": "<u>", "w": "<w>"}
	add(srcUnit("specials", "y", "", "{literal}<x>{$y}{/literal}{sp}{nil}{\\n}{\\t}{lb}{rb}{$y}", d{"y": "&"}))
	// nested calls: the error travels through every caller's recover
	nested := &Unit{}
	nested.Family, nested.ID, nested.Entry = "src", "src/nested", "n.m"
	nested.Files = []core.File{{Name: "n.soy", Text: `{namespace n}

/** @param x */
{template .m}
<1>{call .a data="all"/}</1>{$x}
{/template}

/** @param x */
{template .a}
<2>{call .b}{param y}{$x}{call .c data="all"/}{/param}{/call}</2>
{/template}

/** @param y */
{template .b autoescape="false"}
<3>{$y}{call .c}{param x: $y /}{/call}</3>
{/template}

/** @param x */
{template .c}
{foreach $i in range(3)}{$i}{$x}{css c}{/foreach}
{/template}
`}}
	nested.Data = d{"x": "n<"}
	add(nested)
	// a render that fails by itself after some output
	add(srcUnit("selferr", "x u?", "", "abc{$x}def{$u.k.j}ghi", d{"x": "<"}))
	// large output: more than 2 KB, fault points are sampled
	big := add(srcUnit("big", "l", "", strings.Repeat("0123456789abcdef", 70)+"{foreach $e in $l}<li>{$e}</li>{/foreach}"+strings.Repeat("x", 900), nil))
	var l []interface{}
	for i := 0; i < 120; i++ {
		l = append(l, fmt.Sprintf("i<%d>", i))
	}
	big.Data = d{"l": l}
	return us
}

// ---- long values: writes of several thousand bytes --------------------------

// longText builds exactly n bytes of text: ASCII letters and digits, or
// 3- and 2-byte characters (padded with ASCII to the exact size); with
// special an '&' about every 1022 bytes (not aligned with any power of two).
func longText(n int, multi, special bool) string {
	var b strings.Builder
	b.Grow(n)
	const ascii = "abcdefghijklmnopqrstuvwxyz0123456789"
	i := 0
	for b.Len() < n {
		i++
		left := n - b.Len()
		switch {
		case special && b.Len()%1022 == 1021:
			b.WriteByte('&')
		case multi && i%2 == 0 && left >= 3:
			b.WriteString("日")
		case multi && left >= 2:
			b.WriteString("é")
		default:
			b.WriteByte(ascii[i%len(ascii)])
		}
	}
	return b.String()
}

// longUnits: values, raw texts, css names and message texts of 4095 ... 70000
// bytes through every string-writing site, as the last command and followed
// by more output. (Writers with and without WriteString, and the byte
// capacities around chunk boundaries, are chosen in Unit.plans / longCaps.)
func longUnits() []*Unit {
	var us []*Unit
	sizes := []int{4095, 4096, 4097, 8192, 10000, 70000}
	type kind struct {
		name, attrs string
		body        func(t string) string // t: the long text (for literal kinds)
		value       bool                  // the long text is the value of $x
		special     bool
		asciiOnly   bool
		msgs        string
	}
	kinds := []kind{
		{name: "eprint", body: func(string) string { return "{$x}" }, value: true, special: true},
		{name: "eprint-plain", body: func(string) string { return "{$x}" }, value: true},
		{name: "uprint-dir", body: func(string) string { return "{$x|noAutoescape}" }, value: true, special: true},
		{name: "uprint-off", attrs: ` autoescape="false"`, body: func(string) string { return "{$x}" }, value: true, special: true},
		{name: "rawtext", body: func(t string) string { return t }, special: true},
		{name: "css-expr", body: func(string) string { return "{css $x, suf}" }, value: true},
		{name: "css-name", body: func(t string) string { return "{css " + t + "}" }, asciiOnly: true},
		{name: "msg-bundle", body: func(t string) string { return `{msg desc="d"}` + t + `{/msg}` }, msgs: "bracket"},
		{name: "msg-source", body: func(t string) string { return `{msg desc="d"}` + t + `<b>{$y}</b>{/msg}` }},
	}
	for _, n := range sizes {
		for ci, multi := range []bool{false, true} {
			for _, k := range kinds {
				if multi && k.asciiOnly {
					continue
				}
				t := longText(n, multi, k.special)
				for pi, pos := range []string{"last", "followed"} {
					body := k.body(t)
					params := ""
					data := d{}
					if k.value {
						params, data["x"] = "x", t
					}
					if strings.Contains(body, "$y") || pos == "followed" {
						params += " y"
						data["y"] = "<y>"
					}
					if pos == "last" {
						body = "pre:" + body
					} else {
						body = body + "<br>{$y}|{$y|noAutoescape}"
					}
					u := srcUnit(fmt.Sprintf("%s.%d.c%d.p%d", k.name, n, ci, pi), params, k.attrs, body, data)
					u.Family = "long"
					u.ID = "long/" + strings.TrimPrefix(u.ID, "src/")
					u.Msgs = k.msgs
					u.long = true
					us = append(us, u)
				}
			}
		}
	}
	return us
}
