package c12

import (
	"fmt"
	"os"
	"path/filepath"

	"verif/core"
)

type featureCase struct {
	name string
	data d
}

func ds(xs ...d) []interface{} {
	r := []interface{}{}
	for _, x := range xs {
		r = append(r, x)
	}
	return r
}

func strs(xs ...string) []interface{} {
	r := []interface{}{}
	for _, x := range xs {
		r = append(r, x)
	}
	return r
}

func ints(xs ...int) []interface{} {
	r := []interface{}{}
	for _, x := range xs {
		r = append(r, x)
	}
	return r
}

// featureCases is the test data of /repo/features_test.go (featureTests),
// transcribed: template name and data.
var featureCases = []featureCase{
	{"demoComments", nil},
	{"demoLineJoining", nil},
	{"demoRawTextCommands", nil},
	{"demoPrint", d{"boo": "Boo!", "two": 2}},
	{"demoPrintDirectives", d{"longVarName": "thisIsSomeRidiculouslyLongVariableName", "elementId": "my_element_id", "cssClass": "my_css_class"}},
	{"demoAutoescapeTrue", d{"italicHtml": "<i>italic</i>"}},
	{"demoAutoescapeFalse", d{"italicHtml": "<i>italic</i>"}},
	{"demoMsg", d{"name": "Ed", "labsUrl": "http://labs.google.com"}},
	{"demoPlural", d{"eggs": 1}},
	{"demoPlural", d{"eggs": 2}},
	{"demoPlural", d{"eggs": 0}},
	{"demoIf", d{"pi": 3.14159}},
	{"demoIf", d{"pi": 2.71828}},
	{"demoIf", d{"pi": 1.61803}},
	{"demoSwitch", d{"name": "Fay"}},
	{"demoSwitch", d{"name": "Go"}},
	{"demoSwitch", d{"name": "Hal"}},
	{"demoSwitch", d{"name": "Ivy"}},
	{"demoForeach", d{"persons": ds(
		d{"name": "Jen", "numWaffles": 1},
		d{"name": "Kai", "numWaffles": 3},
		d{"name": "Lex", "numWaffles": 1},
		d{"name": "Mel", "numWaffles": 2})}},
	{"demoFor", d{"numLines": 3}},
	{"demoCallWithoutParam", d{"name": "Neo", "tripInfo": d{"name": "Neo", "destination": "The Matrix"}}},
	{"demoCallWithParam", d{"name": "Oz", "companionName": "Pip",
		"destinations": strs("Gillikin Country", "Munchkin Country", "Quadling Country", "Winkie Country")}},
	{"demoCallWithParamBlock", d{"name": "Quo"}},
	{"demoExpressions", d{"currentYear": 2008, "students": ds(
		d{"name": "Rob", "major": "Physics", "year": 1999},
		d{"name": "Sha", "major": "Finance", "year": 1980},
		d{"name": "Tim", "major": "Engineering", "year": 2005},
		d{"name": "Uma", "major": "Biology", "year": 1972})}},
	{"demoDoubleBraces", d{"setName": "prime numbers", "setMembers": ints(2, 3, 5, 7, 11, 13)}},
}

// featureUnits renders /repo/testdata/features.soy the way features_test.go
// does (globals file, features.soy + simple.soy, Tofu.Render), plus the
// templates of simple.soy, plus features.soy messages through a bundle.
func featureUnits() ([]*Unit, error) {
	read := func(name string) (string, error) {
		b, err := os.ReadFile(filepath.Join(core.RepoDir, "testdata", name))
		return string(b), err
	}
	features, err := read("features.soy")
	if err != nil {
		return nil, err
	}
	simple, err := read("simple.soy")
	if err != nil {
		return nil, err
	}
	globals, err := read("FeaturesUsage_globals.txt")
	if err != nil {
		return nil, err
	}
	files := []core.File{{Name: "features.soy", Text: features}, {Name: "simple.soy", Text: simple}}
	var us []*Unit
	mk := func(id, entry string, data d) *Unit {
		u := &Unit{}
		u.Family = "features"
		u.ID = "features/" + id
		u.Files = files
		u.Globals = globals
		u.Entry = entry
		u.Data = data
		if u.Data == nil {
			u.Data = d{}
		}
		u.ViaTofu = true
		us = append(us, u)
		return u
	}
	for i, fc := range featureCases {
		mk(fmt.Sprintf("%02d-%s", i, fc.name), "soy.examples.features."+fc.name, fc.data)
	}
	// the translated-message path on the repository's own messages
	for _, i := range []int{7, 8, 9} {
		fc := featureCases[i]
		u := mk(fmt.Sprintf("%02d-%s-bundle", i, fc.name), "soy.examples.features."+fc.name, fc.data)
		u.ViaTofu = false
		u.Msgs = "bracket"
	}
	mk("simple-helloWorld", "soy.examples.simple.helloWorld", nil)
	mk("simple-helloName", "soy.examples.simple.helloName", d{"name": "Ana<"})
	mk("simple-helloNames0", "soy.examples.simple.helloNames", d{"names": strs()})
	mk("simple-helloNames2", "soy.examples.simple.helloNames", d{"names": strs("Rob", "J&e")})
	return us, nil
}
