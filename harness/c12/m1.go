package c12

import (
	"bytes"
	"encoding/json"
	"fmt"
	"regexp"
	"strconv"
	"strings"
	"sync"
	"time"

	"verif/core"
)

const refInvariants = `INVARIANT Latch
INVARIANT LatchNow
INVARIANT WriterLatch
INVARIANT PrefixOk
INVARIANT OkMeansComplete
INVARIANT CapExact
INVARIANT BitesMeansErr
INVARIANT NoSpuriousErr
INVARIANT FaultFreeClean
INVARIANT NoUnspec
INVARIANT WithinCap
INVARIANT FramesOK
`

func modelCfg(dev, progs, checks string) string {
	// the built-in programs are run under every error value, the families
	// (many more programs) under one: no action reads the value
	ids := `{"sentinel", "shortwrite", "eof"}`
	if progs != "BuiltinProgs" {
		ids = `{"sentinel"}`
	}
	return "CONSTANT Dev = {" + dev + "}\nCONSTANT ErrIds = " + ids + "\nCONSTANT Progs <- " + progs + "\nSPECIFICATION MSpec\n" + checks + "CHECK_DEADLOCK FALSE\n"
}

var (
	rePid  = regexp.MustCompile(`(?m)^/\\ pid = (\d+)`)
	reEid  = regexp.MustCompile(`(?m)^/\\ eid = "(\w+)"`)
	rePlan = regexp.MustCompile(`plan \|-> \[kind \|-> "(\w+)"(?:, k \|-> (\d+))?\]`)
)

// counterexample extracts (program index, plan) from the last state of a TLC
// error trace of C12Model.
func counterexample(trace string) (pid int, plan string) {
	if m := rePid.FindAllStringSubmatch(trace, -1); len(m) > 0 {
		pid, _ = strconv.Atoi(m[len(m)-1][1])
	}
	if m := rePlan.FindAllStringSubmatch(trace, -1); len(m) > 0 {
		l := m[len(m)-1]
		plan = l[1]
		if l[2] != "" {
			plan += ":" + l[2]
		}
	}
	return
}

// selfTest is one deviation run: the named check must be violated.
type selfTest struct {
	Dev      string `json:"dev"`
	Check    string `json:"check"`
	Violated string `json:"violated"`
	Expect   string `json:"expected"`
	ErrValue string `json:"counterexampleErrorValue,omitempty"`
	OK       bool   `json:"ok"`
	Pid      int    `json:"counterexampleProgram"`
	Plan     string `json:"counterexamplePlan"`
	Unit     string `json:"replayedAsUnit,omitempty"`
	RealCode string `json:"realCode,omitempty"`
}

// modelChecks runs M1: the reference design on the built-in programs (no
// violation allowed) and the deviation self-tests (violation required).
func modelChecks(ctx *core.Ctx) []*selfTest {
	res, err := runTLC(ctx, core.TLCOpts{Module: "C12Model",
		Cfg:     modelCfg("", "BuiltinProgs", refInvariants+"PROPERTY LatchLive\n"),
		Workers: 4, Timeout: 3 * time.Minute, Label: "M1-reference-builtin", Coverage: ctx.Thorough()})
	if err != nil {
		ctx.ToolError("M1 reference: %v", err)
		return nil
	}
	if res.Violated != "" {
		ctx.ToolError("spec bug: the reference design violates %s on the built-in programs:\n%s", res.Violated, res.Trace)
		return nil
	}
	setExtra(ctx, "m1_reference_builtin", map[string]interface{}{"programs": 18, "states": res.Distinct, "depth": res.Depth,
		"checked": "Latch LatchNow WriterLatch PrefixOk OkMeansComplete CapExact BitesMeansErr NoSpuriousErr FaultFreeClean NoUnspec WithinCap FramesOK LatchLive(temporal); every plan none|failAt 0..W|cap 0..B per program"})
	ctx.Exhaustive = true

	const wed, evs = "write_error_dropped", "error_value_special_cased"
	specs := []struct{ dev, check, decl, expect string }{
		{wed, "WriterLatch", "INVARIANT WriterLatch\n", "WriterLatch"},
		{wed, "PrefixOk", "INVARIANT PrefixOk\n", "PrefixOk"},
		{wed, "OkMeansComplete", "INVARIANT OkMeansComplete\n", "OkMeansComplete"},
		{wed, "LatchLive", "PROPERTY LatchLive\n", "temporal"},
		// the error's value is a dimension of the plan: a design that loses one
		// value is caught, and only in the behaviours with that value
		{evs, "WriterLatch", "INVARIANT WriterLatch\n", "WriterLatch"},
		{evs, "LatchOtherValues", "INVARIANT LatchOtherValues\n", ""},
	}
	tests := make([]*selfTest, len(specs))
	var wg sync.WaitGroup
	sem := make(chan struct{}, 3) // at most 3 JVMs at a time
	for i := range specs {
		wg.Add(1)
		go func(i int) {
			defer wg.Done()
			sem <- struct{}{}
			defer func() { <-sem }()
			t := specs[i]
			r, err := runTLC(ctx, core.TLCOpts{Module: "C12Model", Cfg: modelCfg(`"`+t.dev+`"`, "BuiltinProgs", t.decl),
				Workers: 1, Timeout: 3 * time.Minute, Label: "M1-selftest-" + t.dev + "-" + t.check})
			if r != nil && r.Violated == "" && strings.Contains(r.Stdout, "Error: Temporal property "+t.check+" was violated") {
				// this TLC version's wording of a liveness violation
				r.Violated, err = "temporal", nil
			}
			if err != nil {
				ctx.ToolError("M1 self-test %s: %v", t.check, err)
				return
			}
			st := &selfTest{Dev: t.dev, Check: t.check, Violated: r.Violated, Expect: t.expect,
				OK: r.Violated == t.expect || (t.expect == "temporal" && strings.HasPrefix(r.Violated, "temporal"))}
			st.Pid, st.Plan = counterexample(r.Trace)
			if m := reEid.FindAllStringSubmatch(r.Trace, -1); len(m) > 0 {
				st.ErrValue = m[len(m)-1][1]
			}
			if t.dev == evs && t.expect != "" && st.ErrValue != "shortwrite" {
				st.OK = false
			}
			if !st.OK {
				ctx.ToolError("self-test: Dev={%s}, check %s: expected %q but TLC reported %q (error value %q) - the check is vacuous", t.dev, t.check, t.expect, r.Violated, st.ErrValue)
			}
			tests[i] = st
		}(i)
	}
	wg.Wait()
	var done []*selfTest
	for _, t := range tests {
		if t != nil {
			done = append(done, t)
		}
	}
	tests = done
	return tests
}

// modelOnFamilies runs C12Model on programs of the harness's own families:
// every program x every plan, all invariants (M1 over the M2 families).
func modelOnFamilies(ctx *core.Ctx, units []*Unit, label string) {
	var buf bytes.Buffer
	n := 0
	for _, u := range units {
		if u.Prog == nil {
			continue
		}
		b, err := json.Marshal(u.Prog)
		if err != nil {
			ctx.ToolError("marshal program: %v", err)
			return
		}
		buf.Write(b)
		buf.WriteByte('\n')
		n++
	}
	if n == 0 {
		return
	}
	// programs of the random family may leave the model's domain (NoUnspec is
	// only demanded of the hand-written families)
	inv := refInvariants
	if label != "sites" {
		inv = regexp.MustCompile(`INVARIANT NoUnspec\n`).ReplaceAllString(inv, "")
	}
	res, err := runTLC(ctx, core.TLCOpts{Module: "C12ModelFile", Cfg: modelCfg("", "FileProgs", inv),
		Files: map[string][]byte{"c12_progs.ndjson": buf.Bytes()}, Workers: 8, Timeout: 6 * time.Minute, Label: "M1-reference-" + label})
	if err != nil {
		ctx.ToolError("M1 on %s: %v", label, err)
		return
	}
	if res.Violated != "" {
		ctx.ToolError("spec bug: the reference design violates %s on a %s program:\n%s", res.Violated, label, trunc(res.Trace, 3000))
		return
	}
	setExtra(ctx, "m1_reference_"+label, map[string]interface{}{"programs": n, "states": res.Distinct, "depth": res.Depth})
}

func trunc(s string, n int) string {
	if len(s) > n {
		return s[:n] + "..."
	}
	return s
}

// runTLC is ctx.RunTLC with one retry when the tool itself failed (the JVM
// was killed, a timeout): tool trouble is not a verdict either way.
func runTLC(ctx *core.Ctx, o core.TLCOpts) (*core.TLCResult, error) {
	r, err := ctx.RunTLC(o)
	if err == nil || (r != nil && (r.Violated != "" || strings.Contains(r.Stdout, "Error: Temporal property"))) {
		return r, err
	}
	fmt.Printf("note: TLC run %s failed (%v), retrying once\n", o.Label, err)
	return ctx.RunTLC(o)
}

var extraMu sync.Mutex

// setExtra writes ctx.Extra from concurrently running steps.
func setExtra(ctx *core.Ctx, k string, v interface{}) {
	extraMu.Lock()
	ctx.Extra[k] = v
	extraMu.Unlock()
}

var _ = fmt.Sprint
