package c12

import (
	"bytes"
	"encoding/json"
	"fmt"
	"regexp"
	"strconv"
	"sync"
	"time"

	"verif/core"
)

// traceLine is one line of c12_trace.ndjson (see spec/C12Trace.tla).
type traceLine struct {
	Prog *core.Program `json:"prog"`
	FF   traceFF       `json:"ff"`
	Obs  []traceObs    `json:"obs"`
}
type traceFF struct {
	Err bool   `json:"err"`
	Out string `json:"out"`
}
type traceObs struct {
	B   int    `json:"b"`
	Err bool   `json:"err"`
	Acc string `json:"acc"`
}

type m3Reject struct {
	line, obs   int
	status, out string
}

type m3Stats struct {
	Lines, Judged, Bad, Skipped int
}

var (
	reM3Bad  = regexp.MustCompile(`^<<"BAD", (\d+), (\d+), "(\w+)", (".*")>>$`)
	reM3Skip = regexp.MustCompile(`^<<"SKIP", (\d+), "(\w+)">>$`)
	reM3Done = regexp.MustCompile(`^<<"DONE", (\d+), (\d+), (\d+), (\d+)>>$`)
)

// validateTrace has TLC run SoyExec under the recorded cap plans and compare.
func validateTrace(ctx *core.Ctx, lines []traceLine, label string) ([]m3Reject, map[int]string, m3Stats, error) {
	var buf bytes.Buffer
	for _, l := range lines {
		b, err := json.Marshal(l)
		if err != nil {
			return nil, nil, m3Stats{}, err
		}
		buf.Write(b)
		buf.WriteByte('\n')
	}
	cfg := "CONSTANT Dev = {}\nINIT TInit\nNEXT TNext\nINVARIANT Report\nINVARIANT TLatch\nINVARIANT TPrefix\nINVARIANT FramesOK\nCHECK_DEADLOCK FALSE\n"
	res, err := runTLC(ctx, core.TLCOpts{Module: "C12Trace", Cfg: cfg, Files: map[string][]byte{"c12_trace.ndjson": buf.Bytes()},
		Workers: 1, Timeout: 8 * time.Minute, Label: label})
	if err != nil {
		return nil, nil, m3Stats{}, err
	}
	if res.Violated != "" {
		return nil, nil, m3Stats{}, fmt.Errorf("spec bug: the reference interpreter violates %s on a recorded program: %s", res.Violated, trunc(res.Trace, 1500))
	}
	var rej []m3Reject
	skips := map[int]string{}
	var st m3Stats
	done := false
	for _, t := range res.Tuples {
		if m := reM3Bad.FindStringSubmatch(t); m != nil {
			l, _ := strconv.Atoi(m[1])
			j, _ := strconv.Atoi(m[2])
			var o struct{ Out string }
			json.Unmarshal([]byte(core.TLAUnquote(m[4])), &o)
			rej = append(rej, m3Reject{l - 1, j - 1, m[3], o.Out})
		} else if m := reM3Skip.FindStringSubmatch(t); m != nil {
			l, _ := strconv.Atoi(m[1])
			skips[l-1] = m[2]
		} else if m := reM3Done.FindStringSubmatch(t); m != nil {
			done = true
			st.Lines, _ = strconv.Atoi(m[1])
			st.Judged, _ = strconv.Atoi(m[2])
			st.Bad, _ = strconv.Atoi(m[3])
			st.Skipped, _ = strconv.Atoi(m[4])
		}
	}
	if !done || st.Lines != len(lines) {
		return nil, nil, st, fmt.Errorf("trace validation did not consume the whole trace (%d of %d lines): %s", st.Lines, len(lines), trunc(res.Stdout, 1500))
	}
	return rej, skips, st, nil
}

// isASCII reports whether the unit's sources, data and output are ASCII (so
// that the model's characters are the real code's bytes).
func isASCII(bs ...[]byte) bool {
	for _, b := range bs {
		for _, c := range b {
			if c >= 0x80 {
				return false
			}
		}
	}
	return true
}

// validateAgainstModel is M3: the sampled cap-plan renders of the selected
// units are validated by TLC against SoyExec.
func validateAgainstModel(ctx *core.Ctx, units []*Unit, results map[*Unit]*unitResult) {
	var lines []traceLine
	var owner []*Unit
	for _, u := range units {
		r := results[u]
		if r == nil || !u.M3 || u.Prog == nil || len(r.obs) == 0 {
			continue
		}
		dj, _ := json.Marshal(u.Data)
		var src []byte
		for _, f := range u.Files {
			src = append(src, f.Text...)
		}
		if !isASCII(src, dj, u.ffOut) {
			continue
		}
		l := traceLine{Prog: u.Prog, FF: traceFF{Err: u.ffErr != nil, Out: string(u.ffOut)}}
		for _, o := range r.obs {
			l.Obs = append(l.Obs, traceObs{B: o.B, Err: o.Err, Acc: o.Acc})
		}
		lines = append(lines, l)
		owner = append(owner, u)
	}
	if len(lines) == 0 {
		return
	}
	total := m3Stats{}
	sameAsM2, onlyM3 := 0, 0
	// balanced batches, up to 4 TLC processes at a time; results are taken
	// in batch order so that reports are deterministic
	nb := (len(lines) + 499) / 500
	type batchRes struct {
		off, end int
		rej      []m3Reject
		skipped  map[int]string
		st       m3Stats
		err      error
	}
	brs := make([]*batchRes, nb)
	sem := make(chan struct{}, 4)
	var wg sync.WaitGroup
	for b := 0; b < nb; b++ {
		br := &batchRes{off: b * len(lines) / nb, end: (b + 1) * len(lines) / nb}
		brs[b] = br
		wg.Add(1)
		go func() {
			defer wg.Done()
			sem <- struct{}{}
			br.rej, br.skipped, br.st, br.err = validateTrace(ctx, lines[br.off:br.end], "M3-trace-validation")
			<-sem
		}()
	}
	wg.Wait()
	for b, br := range brs {
		if br.err != nil {
			ctx.ToolError("M3: %v", br.err)
			return
		}
		off, st := br.off, br.st
		total.Lines += st.Lines
		total.Judged += st.Judged
		total.Bad += st.Bad
		total.Skipped += st.Skipped
		ctx.AddTraces(int64(st.Judged))
		for _, rj := range br.rej {
			u := owner[off+rj.line]
			ob := results[u].obs[rj.obs]
			if ob.M2Bad {
				// the same faulted render was already judged (and reported) by
				// the fault enumeration; the model agrees that it is wrong
				sameAsM2++
				continue
			}
			onlyM3++
			reason := "accepted-differs-from-model"
			if ob.Err != (rj.status == "err") {
				reason = "error-differs-from-model"
			}
			o := u.run(Plan{Kind: "cap", K: ob.B})
			rc := u.replay(o)
			rc.Expected = fmt.Sprintf("model (SoyExec under plan cap %d): status=%s accepted=%q", ob.B, rj.status, rj.out)
			ctx.Violation(core.Sig{Family: "model-trace", Feature: ob.Site + "-" + reason},
				fmt.Sprintf("unit %s cap %d: real err=%v accepted=%q; model status=%s out=%q", u.ID, ob.B, ob.Err, ob.Acc, rj.status, rj.out), rc)
		}
		if b == 0 {
			bindingSelfTest(ctx, lines[br.off:br.end], br.rej, br.skipped)
		}
	}
	setExtra(ctx, "m3", map[string]interface{}{"programs": total.Lines, "observations_judged": total.Judged,
		"rejected": total.Bad, "rejected_also_by_fault_enumeration": sameAsM2, "rejected_only_by_model": onlyM3,
		"programs_skipped_model_disagrees_fault_free_or_unspec": total.Skipped})
}

// bindingSelfTest corrupts one field of an accepted observation and requires
// TLC to reject exactly that observation (the binding bites).
func bindingSelfTest(ctx *core.Ctx, lines []traceLine, rej []m3Reject, skipped map[int]string) {
	bad := map[int]bool{}
	for l := range skipped {
		bad[l] = true
	}
	for _, r := range rej {
		bad[r.line] = true
	}
	for i, l := range lines {
		if bad[i] || len(l.Obs) == 0 || len(l.FF.Out) < 2 || l.FF.Err {
			continue
		}
		// a clean line: flip the error flag of its last observation
		c := traceLine{Prog: l.Prog, FF: l.FF, Obs: append([]traceObs{}, l.Obs...)}
		last := len(c.Obs) - 1
		c.Obs[last].Err = !c.Obs[last].Err
		rj, skips, _, err := validateTrace(ctx, []traceLine{c}, "M3-binding-selftest")
		if err != nil {
			ctx.ToolError("M3 binding self-test: %v", err)
			return
		}
		ok := len(skips) == 0 && len(rj) == 1 && rj[0].obs == last
		setExtra(ctx, "m3_binding_selftest", map[string]interface{}{"corrupted": "err flag of one accepted observation", "rejected_exactly_it": ok})
		if !ok {
			ctx.ToolError("M3 binding self-test: a corrupted observation was not rejected (rejects=%v skips=%v)", rj, skips)
		}
		return
	}
}
