package c12

import (
	"bytes"
	"encoding/json"
	"fmt"
	"os"

	"verif/core"
)

// replayOne re-runs one saved replay case (bin/check C12 quick --replay path).
func replayOne(ctx *core.Ctx) {
	b, err := os.ReadFile(ctx.ReplayPath)
	if err != nil {
		ctx.ToolError("replay: %v", err)
		return
	}
	var v struct {
		Sig    core.Sig        `json:"sig"`
		Replay json.RawMessage `json:"replay"`
	}
	if err := json.Unmarshal(b, &v); err != nil {
		ctx.ToolError("replay: %v", err)
		return
	}
	var rc ReplayCase
	dec := json.NewDecoder(bytes.NewReader(v.Replay))
	dec.UseNumber()
	if err := dec.Decode(&rc); err != nil {
		ctx.ToolError("replay: %v", err)
		return
	}
	u := &Unit{UnitSpec: rc.Unit}
	u.build()
	if u.compileE != "" {
		ctx.ToolError("replay: the case does not compile: %s", u.compileE)
		return
	}
	u.faultFree()
	if u.skip != "" {
		ctx.ToolError("replay: %s", u.skip)
		return
	}
	if u.unstable {
		ctx.ToolError("replay: the fault-free output of the case is not reproducible")
		return
	}
	u.long = u.Family == "long"
	for _, p := range rc.History {
		u.run(p)
	}
	var o *Outcome
	if rc.HealthyRender {
		ok, out, err := u.healthy()
		o = &Outcome{Healthy: true, Err: err, Accepted: out, FirstBad: -1, Site: "n/a", History: rc.History}
		if !ok {
			o.Feature = "healthy-render-differs-after-failed-writes"
			o.What = "a render into an unfailing writer no longer produces the fault-free output after renders whose writer failed"
		}
	} else {
		o = u.run(rc.Plan)
		o.History = rc.History
	}
	ctx.AddEvals(1)
	ctx.AddTraces(1)
	ctx.Distinct(u.ID + "#" + rc.Plan.String())
	ctx.Rule = "replay of one saved case"
	fmt.Printf("replay %s plan %s site=%s: fault-free %d bytes in %d writes; accepted %d bytes, err=%q -> %s\n",
		u.ID, rc.Plan, o.Site, len(u.ffOut), len(u.writes), len(o.Accepted), errText(o.Err), verdict(o))
	ctx.Sample(map[string]interface{}{"unit": u.ID, "plan": rc.Plan, "verdict": verdict(o)})
	if o.Feature != "" {
		ctx.Violation(core.Sig{Family: "fault-enum", Feature: o.Feature}, describe(u, o), u.replay(o))
	}
}
