package c12

import (
	"reflect"
	"runtime"
	"strings"

	"github.com/robfig/soy/ast"
	"github.com/robfig/soy/soyhtml"
	"github.com/robfig/soy/template"
)

// Site kinds. The Feature of a violation is computed from the kind of the
// write site that was executing when the fault was injected, so that a
// different site dropping its error gets a different signature.
const (
	SiteEscapedPrint   = "escaped-print"
	SiteUnescapedPrint = "unescaped-print"
	SiteRawText        = "rawtext"
	SiteCss            = "css"
	SiteMsgHtmlTag     = "msg-html-tag"
	SiteMsgBundleText  = "msg-bundle-text"
)

// siteTracker follows the interpreter through soyhtml.VerifAt during the
// fault-free run: the last command node visited before a Write call is the
// command that issued it (expression nodes visited in between are ignored).
type siteTracker struct {
	last    ast.Node
	escaped map[*ast.PrintNode]bool
}

// isCommand reports whether n is a command-level node (not an expression).
func isCommand(n ast.Node) bool {
	switch n.(type) {
	case *ast.TemplateNode, *ast.ListNode, *ast.HeaderParamNode,
		*ast.PrintNode, *ast.RawTextNode, *ast.MsgNode, *ast.MsgHtmlTagNode,
		*ast.CssNode, *ast.DebuggerNode, *ast.LogNode, *ast.IfNode, *ast.ForNode,
		*ast.SwitchNode, *ast.CallNode, *ast.LetValueNode, *ast.LetContentNode:
		return true
	}
	return false
}

func (t *siteTracker) at(n ast.Node) {
	if isCommand(n) {
		t.last = n
	}
}

// site names the write site of the Write call being executed (called from
// inside recWriter.Write).
func (t *siteTracker) site() string {
	if writerCalledFrom("evalMsgParts") {
		// translated message text is written without visiting a node
		return SiteMsgBundleText
	}
	switch n := t.last.(type) {
	case nil:
		return "no-node"
	case *ast.PrintNode:
		if t.escaped[n] {
			return SiteEscapedPrint
		}
		return SiteUnescapedPrint
	case *ast.RawTextNode:
		return SiteRawText
	case *ast.MsgHtmlTagNode:
		return SiteMsgHtmlTag
	case *ast.CssNode:
		return SiteCss
	default:
		return "after-" + strings.TrimPrefix(reflect.TypeOf(n).String(), "*ast.")
	}
}

// writerCalledFrom reports whether the current Write call was issued by the
// soyhtml function fn itself or by a helper it called: fn is met on the stack
// before the interpreter's walk.
func writerCalledFrom(fn string) bool {
	var pcs [32]uintptr
	n := runtime.Callers(3, pcs[:])
	frames := runtime.CallersFrames(pcs[:n])
	for {
		f, more := frames.Next()
		if strings.Contains(f.Function, "/soyhtml.") {
			if strings.HasSuffix(f.Function, "."+fn) {
				return true
			}
			if strings.HasSuffix(f.Function, ".walk") {
				return false
			}
		}
		if !more {
			return false
		}
	}
}

// escapedPrints decides statically, for every print command of the bundle,
// whether its value goes through the HTML escaper: the template's effective
// autoescape mode is on and no directive of the print cancels autoescaping.
func escapedPrints(reg *template.Registry) map[*ast.PrintNode]bool {
	res := map[*ast.PrintNode]bool{}
	for _, t := range reg.Templates {
		mode := t.Node.Autoescape
		if mode == ast.AutoescapeUnspecified && t.Namespace != nil {
			mode = t.Namespace.Autoescape
		}
		on := mode != ast.AutoescapeOff
		visit(t.Node, func(n ast.Node) {
			p, ok := n.(*ast.PrintNode)
			if !ok {
				return
			}
			esc := on
			for _, d := range p.Directives {
				if pd, ok := soyhtml.PrintDirectives[d.Name]; ok && pd.CancelAutoescape {
					esc = false
				}
			}
			res[p] = esc
		})
	}
	return res
}

// visit walks the AST below n.
func visit(n ast.Node, f func(ast.Node)) {
	if n == nil || (reflect.ValueOf(n).Kind() == reflect.Ptr && reflect.ValueOf(n).IsNil()) {
		return
	}
	f(n)
	if p, ok := n.(ast.ParentNode); ok {
		for _, c := range p.Children() {
			visit(c, f)
		}
	}
}

// msgNodes lists the {msg} commands of the bundle.
func msgNodes(reg *template.Registry) []*ast.MsgNode {
	var res []*ast.MsgNode
	for _, t := range reg.Templates {
		visit(t.Node, func(n ast.Node) {
			if m, ok := n.(*ast.MsgNode); ok {
				res = append(res, m)
			}
		})
	}
	return res
}

// hasPlural reports whether the message has a {plural} part.
func hasPlural(m *ast.MsgNode) bool {
	found := false
	visit(m, func(n ast.Node) {
		if _, ok := n.(*ast.MsgPluralNode); ok {
			found = true
		}
	})
	return found
}
