package c12

import (
	"bytes"
	"crypto/sha1"
	"encoding/hex"
	"encoding/json"
	"fmt"
	"io"
	"reflect"
	"strings"

	"github.com/robfig/soy"
	"github.com/robfig/soy/data"
	"github.com/robfig/soy/soyhtml"
	"github.com/robfig/soy/soymsg"

	"verif/core"
)

// UnitSpec is everything needed to rebuild one template under test (it is
// what a replay file carries).
type UnitSpec struct {
	ID      string                 `json:"id"`
	Family  string                 `json:"family"`
	Files   []core.File            `json:"files"`
	Globals string                 `json:"globals,omitempty"` // text of a globals file
	Entry   string                 `json:"entry"`
	Data    map[string]interface{} `json:"data"`           // plain JSON data
	IJ      map[string]interface{} `json:"ij,omitempty"`   // plain JSON injected data
	Msgs    string                 `json:"msgs,omitempty"` // "" | "bracket": message bundle (see bracketBundle)
	// ViaTofu renders with Tofu.Render (as features_test.go does) instead of
	// Renderer.Execute.
	ViaTofu bool `json:"viaTofu,omitempty"`
}

// Unit is a UnitSpec compiled, with its fault-free run.
type Unit struct {
	UnitSpec
	Prog *core.Program // the program in the model's vocabulary, nil if it has none
	M3   bool          // selected for validation against the model

	comp *core.Compiled
	data data.Map
	ij   data.Map
	msgs soymsg.Bundle

	ffOut    []byte
	ffErr    error
	writes   []writeRec // write calls of the fault-free run, writer without WriteString
	writesSW []writeRec // ... writer with WriteString
	skip     string     // non-empty: unit not enumerated (reason)
	unstable bool       // the fault-free output is not reproducible even before any fault: not judged
	long     bool       // long-value family: byte capacities are chosen around chunk boundaries
	compileE string
}

// plainToData converts plain (JSON-like) Go data to Soy values: integral
// numbers become ints, other numbers floats.
func plainToData(x interface{}) data.Value {
	switch v := x.(type) {
	case nil:
		return data.Null{}
	case bool:
		return data.Bool(v)
	case string:
		return data.String(v)
	case int:
		return data.Int(v)
	case int64:
		return data.Int(v)
	case float64:
		return data.Float(v)
	case json.Number:
		if !strings.ContainsAny(string(v), ".eE") {
			if n, err := v.Int64(); err == nil {
				return data.Int(n)
			}
		}
		f, _ := v.Float64()
		return data.Float(f)
	case []interface{}:
		l := make(data.List, len(v))
		for i := range v {
			l[i] = plainToData(v[i])
		}
		return l
	case map[string]interface{}:
		return plainToMap(v)
	}
	panic(fmt.Sprintf("plainToData: %T", x))
}

func plainToMap(m map[string]interface{}) data.Map {
	r := make(data.Map, len(m))
	for k, v := range m {
		r[k] = plainToData(v)
	}
	return r
}

// vToPlain converts a value in the spec's tagged encoding to plain data.
func vToPlain(v core.V) interface{} {
	switch v["t"].(string) {
	case "null":
		return nil
	case "bool", "str":
		return v["v"]
	case "int":
		switch n := v["v"].(type) {
		case int:
			return n
		case float64:
			return int(n)
		}
	case "list":
		res := []interface{}{}
		switch xs := v["v"].(type) {
		case []core.V:
			for _, x := range xs {
				res = append(res, vToPlain(x))
			}
		case []interface{}:
			for _, x := range xs {
				res = append(res, vToPlain(x.(core.V)))
			}
		}
		return res
	case "map":
		return vMapToPlain(v["v"])
	}
	panic(fmt.Sprintf("vToPlain: %v", v))
}

func vMapToPlain(m interface{}) map[string]interface{} {
	res := map[string]interface{}{}
	switch mm := m.(type) {
	case map[string]core.V:
		for k, x := range mm {
			res[k] = vToPlain(x)
		}
	case map[string]interface{}:
		for k, x := range mm {
			res[k] = vToPlain(x.(core.V))
		}
	}
	return res
}

// progUnit makes a unit from a program of the model's vocabulary.
func progUnit(family, name string, p *core.Program, st core.Style) *Unit {
	u := &Unit{Prog: p}
	u.Family = family
	u.ID = family + "/" + name
	u.Files = core.UnparseProgram(p, st)
	u.Entry = p.Entry
	u.Data = vMapToPlain(p.Data)
	if p.IJ["t"] == "map" {
		u.IJ = vMapToPlain(p.IJ["v"])
	}
	return u
}

// key identifies the unit's content (to drop duplicates).
func (u *Unit) key() string {
	h := sha1.New()
	b, _ := json.Marshal([]interface{}{u.Files, u.Globals, u.Entry, u.Data, u.IJ, u.Msgs, u.ViaTofu})
	h.Write(b)
	return hex.EncodeToString(h.Sum(nil)[:10])
}

// build compiles the unit and converts its data.
func (u *Unit) build() {
	var globals data.Map
	if u.Globals != "" {
		g, err := soy.ParseGlobals(strings.NewReader(u.Globals))
		if err != nil {
			u.compileE = "globals: " + err.Error()
			return
		}
		globals = g
	}
	comp, err, _ := core.Compile(u.Files, globals)
	if err != nil {
		u.compileE = err.Error()
		return
	}
	u.comp = comp
	u.data = plainToMap(u.Data)
	if u.IJ != nil {
		u.ij = plainToMap(u.IJ)
	}
	if u.Prog != nil {
		// the real render and the model must be given the same data
		if want := core.ToDataMap(u.Prog.Data); !reflect.DeepEqual(want, u.data) {
			u.compileE = fmt.Sprintf("harness: data conversion mismatch %v vs %v", want, u.data)
			return
		}
	}
	if u.Msgs == "bracket" {
		u.msgs = bracketBundle(comp)
	}
}

// render runs the unit's entry template into w through the public API.
func (u *Unit) render(w io.Writer) (err error, panicked bool) {
	defer func() {
		if r := recover(); r != nil {
			err = fmt.Errorf("PANIC in render: %v", r)
			panicked = true
		}
	}()
	if u.ViaTofu {
		return u.comp.Tofu.Render(w, u.Entry, u.data), false
	}
	r := u.comp.Tofu.NewRenderer(u.Entry)
	if u.ij != nil {
		r.Inject(u.ij)
	}
	if u.msgs != nil {
		r.WithMessages(u.msgs)
	}
	return r.Execute(w, u.data), false
}

// faultFree runs the unit with the counting writer and the site tracker,
// once per writer flavour (without / with a WriteString method), and twice
// more to see that the output is reproducible. It runs before any fault has
// been injected in this process, sets soyhtml.VerifAt and therefore must not
// run concurrently.
func (u *Unit) faultFree() {
	one := func(sw bool) (*recWriter, error, bool) {
		tr := &siteTracker{escaped: escapedPrints(u.comp.Registry)}
		w := &recWriter{site: tr.site}
		soyhtml.VerifAt = tr.at
		var err error
		var pan bool
		if sw {
			err, pan = u.render(swRec{w})
		} else {
			err, pan = u.render(w)
		}
		soyhtml.VerifAt = nil
		return w, err, pan
	}
	w, err, pan := one(false)
	u.ffOut, u.ffErr, u.writes = w.out, err, w.writes
	if pan {
		u.skip = "fault-free render panics: " + err.Error()
		return
	}
	w2, err2, _ := one(true)
	u.writesSW = w2.writes
	w3 := &recWriter{}
	err3, _ := u.render(w3)
	same := func(out []byte, e error) bool { return bytes.Equal(out, u.ffOut) && (e == nil) == (u.ffErr == nil) }
	if !same(w2.out, err2) || !same(w3.out, err3) || len(w3.writes) != len(u.writes) {
		u.unstable = true
	}
}

// healthy renders once more into an unfailing writer and reports whether the
// result is still the fault-free output.
func (u *Unit) healthy() (ok bool, out []byte, err error) {
	w := &recWriter{}
	err, _ = u.render(w)
	return bytes.Equal(w.out, u.ffOut) && (err == nil) == (u.ffErr == nil), w.out, err
}

func (u *Unit) writesOf(sw bool) []writeRec {
	if sw {
		return u.writesSW
	}
	return u.writes
}

// bracketBundle is a message bundle that "translates" every plural-free
// message of the compiled bundle to "[" + its own text + "]", so that message
// text is written by the renderer's translated-message path.
type fakeBundle map[uint64]*soymsg.Message

func (b fakeBundle) Locale() string                    { return "xx" }
func (b fakeBundle) Message(id uint64) *soymsg.Message { return b[id] }
func (b fakeBundle) PluralCase(n int) int              { return 0 }

func bracketBundle(c *core.Compiled) soymsg.Bundle {
	b := fakeBundle{}
	for _, m := range msgNodes(c.Registry) {
		ph := soymsg.PlaceholderString(m)
		if strings.Contains(ph, "{plural") || hasPlural(m) {
			continue
		}
		b[m.ID] = soymsg.NewMessage(m.ID, "["+ph+"]")
	}
	return b
}
