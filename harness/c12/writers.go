package c12

import (
	"errors"
	"fmt"
)

// Plan is a fault plan for the output writer.
//
//	dead k     every Write call from the k-th on (counted from 0) returns (0, err)
//	once k     only the k-th Write call returns (0, err); later calls succeed
//	cap b      the writer accepts b bytes in total; the Write that would exceed
//	           b accepts what still fits and returns (n < len(p), err); every
//	           later non-empty Write returns (0, err)
//	caponce b  like cap, but the writer recovers after the one short write
//
// No plan ever returns n < len(p) with a nil error (that would break the
// io.Writer contract; the property says nothing about such writers).
type Plan struct {
	Kind string `json:"kind"`
	K    int    `json:"k"`
	// SW: the writer also has a WriteString method (like bytes.Buffer or
	// bufio.Writer), so io.WriteString hands it strings directly; otherwise it
	// is a plain struct with Write only. A WriteString call counts as a write
	// call like any other.
	SW bool `json:"sw,omitempty"`
}

func (p Plan) String() string {
	if p.SW {
		return fmt.Sprintf("%s:%d/sw", p.Kind, p.K)
	}
	return fmt.Sprintf("%s:%d", p.Kind, p.K)
}

// swFault / swRec add a WriteString method to the writers.
type swFault struct{ *faultWriter }

func (w swFault) WriteString(s string) (int, error) { return w.faultWriter.Write([]byte(s)) }

type swRec struct{ *recWriter }

func (w swRec) WriteString(s string) (int, error) { return w.recWriter.Write([]byte(s)) }

// ErrInjected is the error returned by the fault-injecting writers.
var ErrInjected = errors.New("verif: injected write failure")

// faultWriter implements every plan kind and records what happened.
type faultWriter struct {
	plan     Plan
	accepted []byte
	calls    int // Write calls seen so far
	firstBad int // index of the first call that returned an error, -1 if none
	atFail   int // bytes accepted up to and including the first failed call
	afterBad int // Write calls made after the first failed call
	fails    int // calls that returned an error
	tripped  bool
}

func newFaultWriter(p Plan, sizeHint int) *faultWriter {
	return &faultWriter{plan: p, firstBad: -1, accepted: make([]byte, 0, sizeHint)}
}

func (w *faultWriter) fail(n int) (int, error) {
	if w.firstBad < 0 {
		w.firstBad = w.calls - 1
		w.atFail = len(w.accepted)
	}
	w.fails++
	return n, ErrInjected
}

func (w *faultWriter) Write(p []byte) (int, error) {
	idx := w.calls
	w.calls++
	if w.firstBad >= 0 {
		w.afterBad++
	}
	switch w.plan.Kind {
	case "dead":
		if idx >= w.plan.K {
			return w.fail(0)
		}
	case "once":
		if idx == w.plan.K {
			return w.fail(0)
		}
	case "cap":
		room := w.plan.K - len(w.accepted)
		if len(p) > room {
			if room > 0 {
				w.accepted = append(w.accepted, p[:room]...)
			} else {
				room = 0
			}
			return w.fail(room)
		}
	case "caponce":
		if !w.tripped {
			room := w.plan.K - len(w.accepted)
			if len(p) > room {
				w.tripped = true
				w.accepted = append(w.accepted, p[:room]...)
				return w.fail(room)
			}
		}
	}
	w.accepted = append(w.accepted, p...)
	return len(p), nil
}

// writeRec is one Write call of the fault-free run.
type writeRec struct {
	Off  int    // bytes written before this call
	Len  int    // len(p)
	Site string // write-site kind that issued the call
}

// recWriter is the fault-free counting writer: it accepts everything and
// records, for every Write call, offset, length and the site kind (sites.go).
type recWriter struct {
	out    []byte
	writes []writeRec
	site   func() string
}

func (w *recWriter) Write(p []byte) (int, error) {
	s := ""
	if w.site != nil {
		s = w.site()
	}
	w.writes = append(w.writes, writeRec{Off: len(w.out), Len: len(p), Site: s})
	w.out = append(w.out, p...)
	return len(p), nil
}
