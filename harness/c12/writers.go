package c12

import (
	"bytes"
	stdctx "context"
	"errors"
	"fmt"
	"io"
	"net"
	"os"
	"syscall"
)

// Plan is a fault plan for the output writer.
//
//	dead k     every Write call from the k-th on (counted from 0) returns (0, err)
//	once k     only the k-th Write call returns (0, err); later calls succeed
//	cap b      the writer accepts b bytes in total; the Write that would exceed
//	           b accepts what still fits and returns (n < len(p), err); every
//	           later non-empty Write returns (0, err)
//	caponce b  like cap, but the writer recovers after the one short write
//
// Err names the error VALUE the failing calls return (errIDs; "" = the
// private sentinel ErrInjected). N says how much the failing call of a
// dead/once plan accepts: "" nothing, "half" len(p)/2, "full" all of p (an
// error together with n == len(p) is allowed by io.Writer).
//
// No judged plan returns n < len(p) with a nil error: that breaks the
// io.Writer contract and whether the property speaks about such writers is
// open; kind "shortnil" does it for the record only (never judged).
type Plan struct {
	Kind string `json:"kind"`
	K    int    `json:"k"`
	Err  string `json:"err,omitempty"`
	N    string `json:"n,omitempty"`
	// SW: the writer also has a WriteString method (like bytes.Buffer or
	// bufio.Writer), so io.WriteString hands it strings directly; otherwise it
	// is a plain struct with Write only. A WriteString call counts as a write
	// call like any other.
	SW bool `json:"sw,omitempty"`
}

func (p Plan) String() string {
	s := fmt.Sprintf("%s:%d", p.Kind, p.K)
	if p.N != "" {
		s += "/n=" + p.N
	}
	if p.Err != "" {
		s += "/err=" + p.Err
	}
	if p.SW {
		s += "/sw"
	}
	return s
}

// base is the plan with the default error value and count.
func (p Plan) base() Plan { return Plan{Kind: p.Kind, K: p.K, SW: p.SW} }

// timeoutErr is a net.Error that is a timeout and temporary.
type timeoutErr struct{}

func (timeoutErr) Error() string   { return "i/o timeout" }
func (timeoutErr) Timeout() bool   { return true }
func (timeoutErr) Temporary() bool { return true }

// emptyErr is an error whose text is empty.
type emptyErr struct{}

func (emptyErr) Error() string { return "" }

// ptrErr is an error implemented on a pointer to a struct.
type ptrErr struct{ code int }

func (e *ptrErr) Error() string { return fmt.Sprintf("device error %d", e.code) }

// errID is one identity of the writer's error. The property quantifies over
// ANY failing write, so the value of the error is a dimension of the fault:
// the values that wrappers and retry loops like to special-case are here.
type errID struct {
	Name string
	Err  error
}

var _ net.Error = timeoutErr{}

var errIDs = []errID{
	{"io.ErrShortWrite", io.ErrShortWrite},
	{"io.EOF", io.EOF},
	{"io.ErrUnexpectedEOF", io.ErrUnexpectedEOF},
	{"io.ErrClosedPipe", io.ErrClosedPipe},
	{"io.ErrNoProgress", io.ErrNoProgress},
	{"context.Canceled", stdctx.Canceled},
	{"context.DeadlineExceeded", stdctx.DeadlineExceeded},
	{"os.ErrDeadlineExceeded", os.ErrDeadlineExceeded},
	{"os.ErrClosed", os.ErrClosed},
	{"net-timeout-temporary", timeoutErr{}},
	{"net.OpError-EAGAIN", &net.OpError{Op: "write", Net: "tcp", Err: syscall.EAGAIN}},
	{"syscall.EAGAIN", syscall.EAGAIN},
	{"syscall.EINTR", syscall.EINTR},
	{"syscall.EPIPE", syscall.EPIPE},
	{"syscall.ECONNRESET", syscall.ECONNRESET},
	{"os.PathError-ENOSPC", &os.PathError{Op: "write", Path: "/dev/full", Err: syscall.ENOSPC}},
	{"wrapped-io.ErrShortWrite", fmt.Errorf("quota: %w", io.ErrShortWrite)},
	{"wrapped-io.EOF", fmt.Errorf("conn: %w", io.EOF)},
	{"bytes.ErrTooLarge", bytes.ErrTooLarge},
	{"empty-text", emptyErr{}},
	{"errors.New-empty", errors.New("")},
	{"pointer-receiver", &ptrErr{5}},
}

var errByName = func() map[string]error {
	m := map[string]error{"": ErrInjected}
	for _, e := range errIDs {
		m[e.Name] = e.Err
	}
	return m
}()

var nModes = []string{"", "half", "full"}

// swFault / swRec add a WriteString method to the writers.
type swFault struct{ *faultWriter }

func (w swFault) WriteString(s string) (int, error) { return w.faultWriter.Write([]byte(s)) }

type swRec struct{ *recWriter }

func (w swRec) WriteString(s string) (int, error) { return w.recWriter.Write([]byte(s)) }

// ErrInjected is the error returned by the fault-injecting writers.
var ErrInjected = errors.New("verif: injected write failure")

// faultWriter implements every plan kind and records what happened.
type faultWriter struct {
	plan     Plan
	accepted []byte
	calls    int // Write calls seen so far
	firstBad int // index of the first call that returned an error, -1 if none
	atFail   int // bytes accepted up to and including the first failed call
	afterBad int // Write calls made after the first failed call
	fails    int // calls that returned an error
	tripped  bool
	err      error // the error value the failing calls return
}

func newFaultWriter(p Plan, sizeHint int) *faultWriter {
	e, ok := errByName[p.Err]
	if !ok {
		panic("unknown error identity " + p.Err)
	}
	return &faultWriter{plan: p, firstBad: -1, accepted: make([]byte, 0, sizeHint), err: e}
}

func (w *faultWriter) fail(n int) (int, error) {
	if w.firstBad < 0 {
		w.firstBad = w.calls - 1
		w.atFail = len(w.accepted)
	}
	w.fails++
	return n, w.err
}

// failCall is the failing call of a dead/once plan: it accepts nothing, half
// or all of p (plan.N) and returns the error.
func (w *faultWriter) failCall(p []byte) (int, error) {
	n := 0
	switch w.plan.N {
	case "half":
		n = len(p) / 2
	case "full":
		n = len(p)
	}
	w.accepted = append(w.accepted, p[:n]...)
	return w.fail(n)
}

func (w *faultWriter) Write(p []byte) (int, error) {
	idx := w.calls
	w.calls++
	if w.firstBad >= 0 {
		w.afterBad++
	}
	switch w.plan.Kind {
	case "dead":
		if idx >= w.plan.K {
			return w.failCall(p)
		}
	case "once":
		if idx == w.plan.K {
			return w.failCall(p)
		}
	case "cap":
		room := w.plan.K - len(w.accepted)
		if len(p) > room {
			if room > 0 {
				w.accepted = append(w.accepted, p[:room]...)
			} else {
				room = 0
			}
			return w.fail(room)
		}
	case "shortnil":
		// contract-breaking writer, for the record only: short count, nil error
		room := w.plan.K - len(w.accepted)
		if len(p) > room {
			if room < 0 {
				room = 0
			}
			w.accepted = append(w.accepted, p[:room]...)
			return room, nil
		}
	case "caponce":
		if !w.tripped {
			room := w.plan.K - len(w.accepted)
			if len(p) > room {
				w.tripped = true
				w.accepted = append(w.accepted, p[:room]...)
				return w.fail(room)
			}
		}
	}
	w.accepted = append(w.accepted, p...)
	return len(p), nil
}

// writeRec is one Write call of the fault-free run.
type writeRec struct {
	Off  int    // bytes written before this call
	Len  int    // len(p)
	Site string // write-site kind that issued the call
}

// recWriter is the fault-free counting writer: it accepts everything and
// records, for every Write call, offset, length and the site kind (sites.go).
type recWriter struct {
	out    []byte
	writes []writeRec
	site   func() string
}

func (w *recWriter) Write(p []byte) (int, error) {
	s := ""
	if w.site != nil {
		s = w.site()
	}
	w.writes = append(w.writes, writeRec{Off: len(w.out), Len: len(p), Site: s})
	w.out = append(w.out, p...)
	return len(p), nil
}
