// Package c13 decides property C13: compilation and code generation are
// deterministic functions of the sources (spec/SoyBundleDet.tla).
//
// M1: TLC checks that the reference design is Deterministic and
// OrderInsensitive and that each named deviation (imports / placeholder names
// produced in hash-map iteration order, insertion order leaking into the
// output) makes it multi-valued.
// M2: TLC enumerates the abstract bundles of the family; every one is
// instantiated as Soy sources built to maximise internal Go-map use and is
// compiled, rendered and emitted repeatedly (in process and in fresh
// processes, under every insertion order, ES5/ES6, with/without a message
// catalogue); the observations must agree.
package c13

import (
	"bufio"
	"encoding/json"
	"fmt"
	"math/rand"
	"os"
	"os/exec"
	"path/filepath"
	"runtime"
	"sort"
	"strings"
	"sync"
	"time"

	"verif/core"
)

// Disagreement is the replay case of a violation.
type Disagreement struct {
	Case      *Case  `json:"case"`
	Component string `json:"component"`
	Kind      string `json:"kind"` // same-order | across-orders | across-processes | error-not-independent
	OrderA    string `json:"orderA"`
	OrderB    string `json:"orderB"`
	A         string `json:"a"`
	B         string `json:"b"`
}

const tlcCfgBase = "INIT Init\nNEXT Next\nINVARIANTS Deterministic OrderInsensitive\nCHECK_DEADLOCK FALSE\n"

// Run is the entry point for C13.
func Run(ctx *core.Ctx) {
	ctx.Rule = "cases: bundles of 1..4 files. TLC (SoyBundleDet!PrintShapes) enumerates every abstract bundle of the family " +
		"(per file: ES6 import classes {cross-file calls, Soy functions, print directives}, message with colliding placeholder base names, planted parse/check error); " +
		"each is instantiated as Soy sources with 2..7 members per import class, a map literal of 3..12 keys and 2..10 globals (drawn from VERIF_SEED), " +
		"plus hand-built shapes (plural/html/many-collision messages, 7 imports, two errors in one map literal). " +
		"Every insertion order of every bundle is compiled+rendered+emitted (ES5, ES6, with/without catalogue) repeatedly in process and in 3 fresh processes; " +
		"a case is non-trivial if it has >= 2 files, >= 2 imports, colliding placeholder names or >= 2 planted errors; distinct by hash of its sources"
	ctx.Assumptions = append(ctx.Assumptions,
		"no expected text: the verdict is agreement between runs, insertion orders and processes",
		"bundles have no duplicate template names (first-match-wins makes those order-sensitive by design; that is C07's subject)",
		"keys() iteration order is unspecified by the language and is never printed; randomInt is not used",
		"Go randomises map iteration per range statement, so repetition explores internal orders; detection of an order leak is probabilistic per run (p(miss) < 1e-6 per affected bundle at 40 repetitions with >= 3 map entries)")
	ctx.Trusted = append(ctx.Trusted, "Go harness (instantiation of shapes, comparison)", "TLC", "Go runtime map randomisation as the source of internal-order exploration")
	if ctx.ReplayPath != "" {
		replay(ctx)
		return
	}
	m1done := make(chan struct{})
	go func() { defer close(m1done); m1(ctx) }() // overlaps with the exploration
	defer func() { <-m1done }()
	shapes := tlcShapes(ctx)
	if shapes == nil {
		return
	}
	cases := buildCases(ctx, shapes)
	t0 := time.Now()
	st := explore(ctx, cases)
	t1 := time.Now()
	children(ctx, cases, st)
	ctx.Extra["explore_wall_s"] = t1.Sub(t0).Seconds()
	ctx.Extra["fresh_processes_wall_s"] = time.Since(t1).Seconds()
}

func m1(ctx *core.Ctx) {
	type run struct {
		label, consts, expect string
	}
	runs := []run{{"reference", fmt.Sprintf("CONSTANTS\n Dev = {}\n MaxFiles = 3\n Rich = %d\n", ctx.Pick(2, 3)), ""}}
	if ctx.Thorough() {
		runs = append(runs, run{"reference-4files", "CONSTANTS\n Dev = {}\n MaxFiles = 4\n Rich = 2\n", ""})
	}
	runs = append(runs,
		run{"dev:imports_in_map_order", "CONSTANTS\n Dev = {\"imports_in_map_order\"}\n MaxFiles = 2\n Rich = 2\n", "Deterministic"},
		run{"dev:phnames_in_map_order", "CONSTANTS\n Dev = {\"phnames_in_map_order\"}\n MaxFiles = 2\n Rich = 2\n", "Deterministic"},
		run{"dev:tie_broken_by_map_order", "CONSTANTS\n Dev = {\"tie_broken_by_map_order\"}\n MaxFiles = 2\n Rich = 2\n", "Deterministic"},
		run{"dev:order_leaks", "CONSTANTS\n Dev = {\"order_leaks\"}\n MaxFiles = 2\n Rich = 2\n", "OrderInsensitive"})
	self := map[string]interface{}{}
	var mu sync.Mutex
	var wg sync.WaitGroup
	for _, r := range runs {
		wg.Add(1)
		go func(r run) {
			defer wg.Done()
			workers := 1
			if r.expect == "" {
				workers = 4
			}
			res, err := ctx.RunTLC(core.TLCOpts{Module: "SoyBundleDet", Cfg: r.consts + tlcCfgBase, Workers: workers,
				Timeout: 8 * time.Minute, Label: "M1 " + r.label, Coverage: false})
			if err != nil {
				ctx.ToolError("M1 %s: %v", r.label, err)
				return
			}
			mu.Lock()
			defer mu.Unlock()
			if r.expect == "" {
				if res.Violated != "" {
					ctx.ToolError("M1 %s: reference model violates %s (spec bug):\n%s", r.label, res.Violated, res.Trace)
				}
				self[r.label] = fmt.Sprintf("no violation, %d distinct states", res.Distinct)
			} else {
				if res.Violated != r.expect {
					ctx.ToolError("M1 %s: expected TLC to violate %s, got %q (vacuous invariant?)", r.label, r.expect, res.Violated)
				}
				self[r.label] = "violates " + res.Violated + " (two distinct outputs exhibited)"
			}
		}(r)
	}
	wg.Wait()
	ctx.Extra["m1_selftest"] = self
}

// tlcShapes asks TLC for every abstract bundle of the family.
func tlcShapes(ctx *core.Ctx) []Shape {
	cfg := fmt.Sprintf("CONSTANTS\n Dev = {}\n MaxFiles = %d\n Rich = 2\nINIT Init\nNEXT NoNext\nINVARIANTS PrintShapes\nCHECK_DEADLOCK FALSE\n", ctx.Pick(3, 4))
	res, err := ctx.RunTLC(core.TLCOpts{Module: "SoyBundleDet", Cfg: cfg, Workers: 1, Timeout: 5 * time.Minute, Label: "M2 enumerate shapes"})
	if err != nil {
		ctx.ToolError("M2 shapes: %v", err)
		return nil
	}
	var lines []string
	for _, p := range res.Printed {
		if strings.HasPrefix(p, "{") {
			lines = append(lines, p)
		}
	}
	sort.Strings(lines)
	var shapes []Shape
	for _, l := range lines {
		var s Shape
		if err := json.Unmarshal([]byte(l), &s); err != nil {
			ctx.ToolError("M2 shapes: bad JSON from TLC: %v", err)
			return nil
		}
		shapes = append(shapes, s)
	}
	if int64(len(shapes)) != res.Distinct || len(shapes) == 0 {
		ctx.ToolError("M2 shapes: TLC found %d initial states but printed %d shapes", res.Distinct, len(shapes))
		return nil
	}
	ctx.Extra["tlc_shapes"] = len(shapes)
	return shapes
}

func buildCases(ctx *core.Ctx, shapes []Shape) []*Case {
	r := rand.New(rand.NewSource(ctx.Seed))
	var cases []*Case
	for i, s := range shapes {
		cases = append(cases, Instantiate(fmt.Sprintf("tlc-%04d", i), "tlc", s, r))
	}
	// hand-built shapes: what the model's deviations say to stress, beyond the abstract family
	imps := [][]int{{}, {1, 2}, {1, 2, 3}}
	n := 0
	add := func(s Shape) {
		s.NErr = 0
		for _, f := range s.Files {
			if f.Err != "ok" {
				s.NErr++
			}
		}
		cases = append(cases, Instantiate(fmt.Sprintf("go-%04d", n), "go", s, r))
		n++
	}
	for _, msg := range []string{"many", "html", "plural", "maplit"} {
		for _, im := range imps {
			add(Shape{NF: 1, Files: []FileShape{{im, msg, "ok"}}})
			add(Shape{NF: 2, Files: []FileShape{{im, msg, "ok"}, {[]int{1, 2, 3}, "collide_sfx", "ok"}}, Fan: 7})
		}
	}
	for _, e1 := range []string{"callee", "global", "check", "parse"} {
		for _, e2 := range []string{"callee", "global", "check", "parse", "ok"} {
			add(Shape{NF: 2, Files: []FileShape{{[]int{1, 2}, "none", e1}, {[]int{}, "collide", e2}}})
			add(Shape{NF: 3, Files: []FileShape{{[]int{1, 2}, "none", e1}, {[]int{}, "collide", "ok"}, {[]int{1}, "none", e2}}})
		}
	}
	for fan := 2; fan <= 7; fan++ {
		for keys := 2; keys <= 14; keys += 4 {
			add(Shape{NF: 2, Files: []FileShape{{[]int{1, 2, 3}, "collide_sfx", "ok"}, {[]int{1, 2, 3}, "many", "ok"}}, Fan: fan, Keys: keys, Global: keys})
		}
	}
	four := ctx.Pick(12, 60)
	for i := 0; i < four; i++ {
		var fs []FileShape
		for f := 0; f < 4; f++ {
			e := "ok"
			if r.Intn(6) == 0 {
				e = []string{"parse", "check", "callee", "global"}[r.Intn(4)]
			}
			fs = append(fs, FileShape{imps[r.Intn(3)], []string{"none", "collide", "collide_sfx", "many", "plural", "html"}[r.Intn(6)], e})
		}
		add(Shape{NF: 4, Files: fs})
	}
	// files that share one name ("" and "x.soy"): per-file bookkeeping must not be keyed by the name
	for _, nm := range []string{"-", "x.soy"} {
		for _, msg := range []string{"none", "collide_sfx"} {
			add(Shape{NF: 2, SameName: nm, Files: []FileShape{{[]int{1, 2}, msg, "ok"}, {[]int{}, "none", "ok"}}})
			add(Shape{NF: 3, SameName: nm, Files: []FileShape{{[]int{}, "none", "ok"}, {[]int{1, 2, 3}, msg, "ok"}, {[]int{2}, "none", "ok"}}})
		}
		add(Shape{NF: 2, SameName: nm, Files: []FileShape{{[]int{}, "none", "check"}, {[]int{}, "none", "ok"}}})
	}
	// the same nameless expression as a {plural} subject in one message and a printed placeholder
	// in another: across files, in one file, and after an EARLIER compile of the same process
	for k := 0; k < 4; k++ {
		u := 1000 + 10*k
		add(Shape{NF: 2, Uniq: u + 1, Files: []FileShape{{[]int{}, "xplural", "ok"}, {[]int{}, "xprint", "ok"}}})
		add(Shape{NF: 2, Uniq: u + 2, Files: []FileShape{{[]int{1}, "xprint", "ok"}, {[]int{2}, "xplural", "ok"}}})
		add(Shape{NF: 3, Uniq: u + 3, Files: []FileShape{{[]int{}, "none", "ok"}, {[]int{}, "xplural", "ok"}, {[]int{}, "xprint", "ok"}}})
		add(Shape{NF: 1, Uniq: u + 4, Files: []FileShape{{[]int{}, "xboth", "ok"}}})
		// history: a bundle with the plural use is compiled first, then the bundle with the print use (and vice versa)
		for j, pair := range [][2]string{{"xplural", "xprint"}, {"xprint", "xplural"}} {
			hist := Instantiate("hist", "go", Shape{NF: 1, Uniq: u + 5 + j, Files: []FileShape{{[]int{}, pair[0], "ok"}}}, r)
			add(Shape{NF: 1, Uniq: u + 5 + j, Files: []FileShape{{[]int{}, pair[1], "ok"}}})
			cases[len(cases)-1].History = [][]core.File{hist.Files}
		}
	}
	cases = append(cases, MapLitErrorCase("go-maplit-2err"))
	cases = append(cases, TieCases()...)
	cases = append(cases, SharedNamespaceCases()...)
	cases = append(cases, OneErrorCases()...)
	cases = append(cases, FailingOperationCases()...)
	cases = append(cases, FileNameCases()...)
	return cases
}

type caseState struct {
	reported map[string]bool // components already reported (or explained) for this case
}

type exploreState struct {
	mu    sync.Mutex
	cases map[string]*caseState
}

func identity(n int) []int {
	p := make([]int, n)
	for i := range p {
		p[i] = i
	}
	return p
}

// dependsOn lists the components whose instability explains comp's.
func dependsOn(comp string) []string {
	d := []string{"accept", "err"}
	if strings.HasSuffix(comp, "+cat") {
		d = append(d, "msgs")
	}
	return d
}

func explore(ctx *core.Ctx, cases []*Case) *exploreState {
	st := &exploreState{cases: map[string]*caseState{}}
	repsID := 40
	repsOther := ctx.Pick(4, 20)
	var wg sync.WaitGroup
	ch := make(chan *Case)
	var runs, behaviours int64
	var cmu sync.Mutex
	for w := 0; w < runtime.NumCPU(); w++ {
		wg.Add(1)
		go func() {
			defer wg.Done()
			for c := range ch {
				nr, nb := exploreCase(ctx, c, st, repsID, repsOther)
				cmu.Lock()
				runs += nr
				behaviours += nb
				cmu.Unlock()
			}
		}()
	}
	for _, c := range cases {
		ch <- c
	}
	close(ch)
	wg.Wait()
	ctx.AddEvals(runs)
	ctx.AddTraces(behaviours)
	ctx.Extra["inprocess_runs"] = runs
	ctx.Extra["cases"] = len(cases)
	return st
}

func nontrivial(c *Case) bool {
	if len(c.Files) >= 2 || c.Collide || c.NErr >= 2 {
		return true
	}
	for _, f := range c.Shape.Files {
		if len(f.Imps) >= 2 {
			return true
		}
	}
	return false
}

func exploreCase(ctx *core.Ctx, c *Case, st *exploreState, repsID, repsOther int) (runs, behaviours int64) {
	cs := &caseState{reported: map[string]bool{}}
	st.mu.Lock()
	st.cases[c.ID] = cs
	st.mu.Unlock()
	if nontrivial(c) {
		var h strings.Builder
		for _, f := range c.Files {
			h.WriteString(f.Text)
		}
		ctx.Distinct(Digest(h.String()))
	}
	runHistory(c)
	c.Catalogue = BuildCatalogue(c)
	cat := newCatalogue(c.Catalogue)
	for _, alt := range c.Alts {
		_, err := compile(alt, identity(len(alt)), c.Globals)
		if err == nil {
			ctx.ToolError("case %s: a planted error is not an error (harness bug)", c.ID)
			return
		}
		c.AllowedErrs = append(c.AllowedErrs, err.Error())
	}
	c.ExpectByOrder = map[string]map[string]string{}
	perms := Permutations(len(c.Files))
	unstable := map[string]*Disagreement{} // same-order disagreements, first per component
	refs := map[string]Obs{}
	for pi, p := range perms {
		key := OrderKey(p)
		reps := repsOther
		if pi == 0 {
			reps = repsID
			if c.Reps > reps {
				reps = c.Reps
			}
		}
		var ref Obs
		for rep := 0; rep < reps; rep++ {
			o := Observe(c, p, cat)
			runs++
			if ref == nil {
				ref = o
				if o["accept"] == "reject" && c.Origin == "tlc" && !ctx.Thorough() {
					// quick tier: a rejected bundle of the enumerated family exercises only the
					// front end; the hand-built error bundles keep the full repetition count
					reps = (reps + 2) / 3
				}
				continue
			}
			for _, comp := range Components {
				if o[comp] != ref[comp] && unstable[comp] == nil {
					unstable[comp] = &Disagreement{Case: c, Component: comp, Kind: "same-order", OrderA: key, OrderB: key, A: ref[comp], B: o[comp]}
				}
			}
		}
		behaviours++
		refs[key] = ref
		d := map[string]string{}
		for _, comp := range Components {
			d[comp] = Digest(ref[comp])
		}
		c.ExpectByOrder[key] = d
	}
	if c.ID == "tlc-0000" || c.ID == "go-0003" {
		ctx.Sample(map[string]interface{}{"id": c.ID, "files": c.Files, "orders": len(perms), "accept": refs[OrderKey(perms[0])]["accept"]})
	}
	explained := func(comp string) bool {
		for _, d := range dependsOn(comp) {
			if d != comp && unstable[d] != nil {
				return true
			}
		}
		return false
	}
	report := func(d *Disagreement) {
		sig := Classify(d.Component, c, d.A, d.B)
		if d.Kind == "across-orders" {
			sig.Feature += ",across-insertion-orders"
		}
		if d.Kind == "error-not-independent" {
			sig = core.Sig{Family: "compile", Feature: "reported-error-is-not-one-of-the-independent-errors"}
		}
		ctx.Violation(sig, fmt.Sprintf("case %s (%d files) component %s %s: orders %s/%s: %s", c.ID, len(c.Files), d.Component, d.Kind,
			d.OrderA, d.OrderB, diffHint(d.A, d.B)), d)
	}
	for _, comp := range Components {
		d := unstable[comp]
		if d == nil {
			continue
		}
		cs.reported[comp] = true
		if explained(comp) {
			continue
		}
		if comp == "err" && unstable["accept"] != nil {
			continue
		}
		report(d)
	}
	// the caller's input objects are the caller's: compiling must not have changed them
	if why := GlobalsIntact(c.Globals); why != "" {
		ctx.Violation(core.Sig{Family: "compile", Feature: "callers-globals-map-modified"},
			fmt.Sprintf("case %s: %s", c.ID, why), &Disagreement{Case: c, Component: "globals", Kind: "input-modified", A: why})
	}
	// the same Bundle object compiled again (Compile, CompileToTofu, one more file added)
	for _, p := range perms {
		key := OrderKey(p)
		if r := refs[key]; r["rebundle"] != "" && !cs.reported["rebundle"] && unstable["accept"] == nil && unstable["err"] == nil &&
			unstable["js:es5"] == nil && unstable["msgs"] == nil && unstable["render"] == nil {
			cs.reported["rebundle"] = true
			ctx.Violation(core.Sig{Family: "compile", Feature: "same-bundle-object-compiled-again-differs"},
				fmt.Sprintf("case %s order %s: %s", c.ID, key, r["rebundle"]),
				&Disagreement{Case: c, Component: "rebundle", Kind: "same-bundle-object", OrderA: key, OrderB: key, A: r["rebundle:a"], B: r["rebundle:b"]})
		}
	}
	// Generator.WriteFile(name) must return the script of the file that carries the name
	for _, p := range perms {
		key := OrderKey(p)
		if r := refs[key]; r["writefile:bad"] != "" && !cs.reported["writefile"] && unstable["js:es5"] == nil {
			cs.reported["writefile"] = true
			ctx.Violation(core.Sig{Family: "genjs", Feature: "writefile-returns-another-files-script"},
				fmt.Sprintf("case %s order %s: %s", c.ID, key, r["writefile:bad"]),
				&Disagreement{Case: c, Component: "js:writefile", Kind: "wrong-file", OrderA: key, OrderB: key, A: r["writefile:a"], B: r["writefile:b"]})
		}
	}
	// repetitions on the same compiled registry (second pass inside Observe)
	for _, p := range perms {
		key := OrderKey(p)
		r := refs[key]
		if r["reuse"] == "" || cs.reported["reuse"] {
			continue
		}
		comp := strings.SplitN(r["reuse"], " ", 2)[0]
		if unstable[comp] != nil || unstable["reuse"] != nil || explained(comp) {
			continue // the component is not even stable between fresh compiles: reported above
		}
		cs.reported["reuse"] = true
		ctx.Violation(core.Sig{Family: "reuse", Feature: strings.TrimSuffix(comp, "+cat") + "-changes-on-the-same-compiled-registry"},
			fmt.Sprintf("case %s order %s: %s", c.ID, key, r["reuse"]),
			&Disagreement{Case: c, Component: comp, Kind: "same-registry", OrderA: key, OrderB: key, A: r["reuse:a"], B: r["reuse:b"]})
	}
	// across insertion orders
	id := OrderKey(perms[0])
	for _, p := range perms[1:] {
		key := OrderKey(p)
		for _, comp := range Components {
			if cs.reported[comp] || explained(comp) {
				continue
			}
			dep := false
			for _, d := range dependsOn(comp) {
				if d != comp && cs.reported[d] {
					dep = true // an earlier component that this one depends on already differs
				}
			}
			if dep {
				continue
			}
			a, b := refs[id][comp], refs[key][comp]
			if comp == "err" && (c.NErr > 1 || c.ErrNamesFilesInOrder) {
				continue // membership is checked below / the text names the files in insertion order
			}
			if a != b {
				cs.reported[comp] = true
				report(&Disagreement{Case: c, Component: comp, Kind: "across-orders", OrderA: id, OrderB: key, A: a, B: b})
			}
		}
	}
	// multi-error bundles: the reported error must be one of the independent errors
	if c.NErr > 1 {
		for _, p := range perms {
			key := OrderKey(p)
			e := refs[key]["err"]
			ok := refs[key]["accept"] == "reject"
			if ok {
				ok = false
				for _, a := range c.AllowedErrs {
					if a == e {
						ok = true
					}
				}
			}
			if !ok && !cs.reported["err!"] {
				cs.reported["err!"] = true
				report(&Disagreement{Case: c, Component: "err", Kind: "error-not-independent", OrderA: key, OrderB: key,
					A: e, B: strings.Join(c.AllowedErrs, "\n")})
			}
		}
	}
	return
}

// runHistory compiles the bundles this process is to have compiled before it
// first looks at the case (skipped in some child processes: VERIF_C13_NOHISTORY).
func runHistory(c *Case) {
	if os.Getenv("VERIF_C13_NOHISTORY") != "" {
		return
	}
	for _, h := range c.History {
		// compile, render and generate (both formatters): any of them may fail; what they leave
		// behind must not show in what the process does next
		hc := &Case{ID: c.ID + "-history", Files: h, Globals: c.Globals}
		Observe(hc, identity(len(h)), nil)
	}
}

func diffHint(a, b string) string {
	la, lb := strings.Split(a, "\n"), strings.Split(b, "\n")
	for i := 0; i < len(la) && i < len(lb); i++ {
		if la[i] != lb[i] {
			return fmt.Sprintf("first differing line %d: %q vs %q", i+1, trunc(la[i], 160), trunc(lb[i], 160))
		}
	}
	return fmt.Sprintf("%d vs %d lines", len(la), len(lb))
}

func trunc(s string, n int) string {
	if len(s) > n {
		return s[:n] + "..."
	}
	return s
}

// ---- fresh processes ----------------------------------------------------

type childReport struct {
	ID    string `json:"id,omitempty"`
	Order string `json:"order,omitempty"`
	Comp  string `json:"comp,omitempty"`
	Text  string `json:"text,omitempty"`
	Done  bool   `json:"done,omitempty"`
	Runs  int64  `json:"runs,omitempty"`
}

// IsChild reports whether this process was started as a C13 child.
func IsChild() bool { return os.Getenv("VERIF_C13_CHILD") != "" }

// ChildMain is the child mode: re-observe every case/order in a fresh process
// and report the components whose digest differs from the parent's.
func ChildMain() {
	path := os.Getenv("VERIF_C13_CHILD")
	reps := 3
	fmt.Sscan(os.Getenv("VERIF_C13_REPS"), &reps)
	b, err := os.ReadFile(path)
	if err != nil {
		fmt.Fprintln(os.Stderr, err)
		os.Exit(2)
	}
	var cases []*Case
	if err := json.Unmarshal(b, &cases); err != nil {
		fmt.Fprintln(os.Stderr, err)
		os.Exit(2)
	}
	out := bufio.NewWriter(os.Stdout)
	enc := json.NewEncoder(out)
	var mu sync.Mutex
	var runs int64
	var wg sync.WaitGroup
	ch := make(chan *Case)
	nw := runtime.NumCPU() / 3
	if nw < 1 {
		nw = 1
	}
	for w := 0; w < nw; w++ {
		wg.Add(1)
		go func() {
			defer wg.Done()
			for c := range ch {
				runHistory(c)
				cat := newCatalogue(c.Catalogue)
				seen := map[string]bool{}
				var n int64
				perms := Permutations(len(c.Files))
				if os.Getenv("VERIF_C13_REVERSE") != "" {
					// another compile history: the insertion orders are visited last to first
					for a, b := 0, len(perms)-1; a < b; a, b = a+1, b-1 {
						perms[a], perms[b] = perms[b], perms[a]
					}
				}
				for _, p := range perms {
					key := OrderKey(p)
					nrep := reps
					if c.Origin == "tlc" && os.Getenv("VERIF_C13_LEAN") != "" {
						nrep = 1 // quick tier: the enumerated family once per order and process
					}
					for rep := 0; rep < nrep; rep++ {
						o := Observe(c, p, cat)
						n++
						for _, comp := range Components {
							if Digest(o[comp]) != c.ExpectByOrder[key][comp] && !seen[comp] {
								seen[comp] = true
								mu.Lock()
								enc.Encode(childReport{ID: c.ID, Order: key, Comp: comp, Text: o[comp]})
								mu.Unlock()
							}
						}
					}
				}
				mu.Lock()
				runs += n
				mu.Unlock()
			}
		}()
	}
	for _, c := range cases {
		ch <- c
	}
	close(ch)
	wg.Wait()
	enc.Encode(childReport{Done: true, Runs: runs})
	out.Flush()
}

func children(ctx *core.Ctx, cases []*Case, st *exploreState) {
	dir := filepath.Join(core.VerifDir, "out")
	os.MkdirAll(dir, 0o755)
	path := filepath.Join(dir, fmt.Sprintf("c13-cases-%d.json", os.Getpid()))
	b, err := json.Marshal(cases)
	if err != nil {
		ctx.ToolError("cannot encode cases: %v", err)
		return
	}
	if err := os.WriteFile(path, b, 0o644); err != nil {
		ctx.ToolError("cannot write cases: %v", err)
		return
	}
	defer os.Remove(path)
	exe, err := os.Executable()
	if err != nil {
		ctx.ToolError("os.Executable: %v", err)
		return
	}
	byID := map[string]*Case{}
	for _, c := range cases {
		byID[c.ID] = c
	}
	const nproc = 3
	var wg sync.WaitGroup
	var mu sync.Mutex
	var total int64
	var reports []childReport
	for i := 0; i < nproc; i++ {
		wg.Add(1)
		go func(i int) {
			defer wg.Done()
			cmd := exec.Command(exe, "quick")
			cmd.Env = append(os.Environ(), "VERIF_C13_CHILD="+path, fmt.Sprintf("VERIF_C13_REPS=%d", ctx.Pick(2, 6)))
			// the three processes have three compile histories: as the parent; insertion orders
			// visited in reverse; without the bundles the parent compiled before a case
			if !ctx.Thorough() {
				cmd.Env = append(cmd.Env, "VERIF_C13_LEAN=1")
			}
			if i == 1 {
				cmd.Env = append(cmd.Env, "VERIF_C13_REVERSE=1")
			}
			if i == 2 {
				cmd.Env = append(cmd.Env, "VERIF_C13_NOHISTORY=1")
			}
			cmd.Stderr = os.Stderr
			out, err := cmd.Output()
			if err != nil {
				ctx.ToolError("child process %d: %v", i, err)
				return
			}
			done := false
			dec := json.NewDecoder(strings.NewReader(string(out)))
			for dec.More() {
				var r childReport
				if err := dec.Decode(&r); err != nil {
					ctx.ToolError("child process %d: bad report: %v", i, err)
					return
				}
				mu.Lock()
				if r.Done {
					done = true
					total += r.Runs
				} else {
					reports = append(reports, r)
				}
				mu.Unlock()
			}
			if !done {
				ctx.ToolError("child process %d did not finish", i)
			}
		}(i)
	}
	wg.Wait()
	ctx.AddEvals(total)
	ctx.Extra["fresh_processes"] = nproc
	ctx.Extra["fresh_process_runs"] = total
	sort.Slice(reports, func(i, j int) bool {
		if reports[i].ID != reports[j].ID {
			return reports[i].ID < reports[j].ID
		}
		return compIndex(reports[i].Comp) < compIndex(reports[j].Comp)
	})
	mismatch := 0
	for _, r := range reports {
		c := byID[r.ID]
		cs := st.cases[r.ID]
		if c == nil || cs == nil {
			continue
		}
		mismatch++
		skip := cs.reported[r.Comp]
		for _, d := range dependsOn(r.Comp) {
			if d != r.Comp && cs.reported[d] {
				skip = true
			}
		}
		if skip {
			continue
		}
		cs.reported[r.Comp] = true
		// re-observe in this process to obtain a text to compare with
		var p []int
		for _, q := range Permutations(len(c.Files)) {
			if OrderKey(q) == r.Order {
				p = q
			}
		}
		cat := newCatalogue(c.Catalogue)
		mine := ""
		for try := 0; try < 50; try++ {
			mine = Observe(c, p, cat)[r.Comp]
			if mine != r.Text {
				break
			}
		}
		sig := Classify(r.Comp, c, mine, r.Text)
		sig.Feature += ",across-processes"
		ctx.Violation(sig, fmt.Sprintf("case %s component %s order %s: a fresh process observed another value than this process: %s",
			c.ID, r.Comp, r.Order, diffHint(mine, r.Text)),
			&Disagreement{Case: c, Component: r.Comp, Kind: "across-processes", OrderA: r.Order, OrderB: r.Order, A: mine, B: r.Text})
	}
	ctx.Extra["fresh_process_mismatches"] = mismatch
}

func compIndex(c string) int {
	for i, x := range Components {
		if x == c {
			return i
		}
	}
	return len(Components)
}

// replay re-runs one saved disagreement: the bundle is explored again.
func replay(ctx *core.Ctx) {
	b, err := os.ReadFile(ctx.ReplayPath)
	if err != nil {
		ctx.ToolError("replay: %v", err)
		return
	}
	var v struct {
		Replay Disagreement `json:"replay"`
	}
	if err := json.Unmarshal(b, &v); err != nil || v.Replay.Case == nil {
		ctx.ToolError("replay: not a C13 replay file: %v", err)
		return
	}
	c := v.Replay.Case
	c.AllowedErrs, c.Catalogue = nil, nil
	st := &exploreState{cases: map[string]*caseState{}}
	runs, beh := exploreCase(ctx, c, st, 200, 100)
	ctx.AddEvals(runs)
	ctx.AddTraces(beh)
}
