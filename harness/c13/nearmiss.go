package c13

import (
	"fmt"
	"strings"

	"github.com/robfig/soy/data"
	"github.com/robfig/soy/soyhtml"

	"verif/core"
)

// Near-collision bundles (round 2): name sets whose members are equal under
// some plausible comparison key that is NOT the identity -- ignoring letter
// case, ignoring a prefix/suffix/underscore, ignoring where the dot between
// namespace and template stands, ignoring diacritics. If any emission order
// comes from sorting by such a key, the tie is broken by Go map order. Two
// tied elements flip only when the iteration happens to start between them
// (p ~ 1/8 per emission), so these cases carry their own repetition count.

// tieNames are template names (one namespace) that collide pairwise under
// case folding, underscore/digit stripping and prefix/suffix trimming.
var tieNames = []string{"Button", "button", "BUTTON", "button_", "_button", "button1", "Button1", "item", "Item", "itemX", "itemx"}

func tmpl(name, doc, body string) string {
	return doc + "\n{template ." + name + "}\n" + body + "\n{/template}\n"
}

// TieCases builds the near-collision bundles.
func TieCases() []*Case {
	var cases []*Case
	mk := func(id string, reps int, files ...core.File) {
		cases = append(cases, &Case{ID: id, Origin: "go", Files: files, Globals: map[string]interface{}{
			"APP.Name": "g1", "app.name": "g2", "APP.NAME": "g3", "app.name_": "g4", "appname": "g5", "app_name": "g6",
		}, Shape: Shape{NF: len(files)}, Reps: reps})
	}
	// (1) callee names that differ only in case / underscore / digit, called from another file:
	//     1 pair, 2 pairs, and all of them (ES6 imports; also the call order in the source is shuffled)
	ui := "{namespace ui}\n"
	for _, n := range tieNames {
		ui += tmpl(n, "/** @param? s */", "["+n+" {$s}]")
	}
	for k, names := range [][]string{
		{"Button", "button"},
		{"button", "Button"},
		{"item", "Item", "button_", "_button"},
		{"itemx", "Button1", "BUTTON", "itemX", "button", "button1", "Button", "item", "_button", "Item", "button_"},
	} {
		var b strings.Builder
		for _, n := range names {
			b.WriteString("{call ui." + n + "}{param s: 'v'/}{/call}")
		}
		caller := "{namespace page}\n" + tmpl("main", "/** */", b.String())
		mk(fmt.Sprintf("tie-callee-%d", k), 160, core.File{Name: "page.soy", Text: caller}, core.File{Name: "ui.soy", Text: ui})
	}
	// (2) the dot between namespace and template part: a.bc / ab.c / a.b.c / abc.x ; namespaces differing in case
	nss := []string{"a", "ab", "a.b", "A", "aB", "a_b", "ab_"}
	nsFile := func(i int) core.File {
		t := "{namespace " + nss[i] + "}\n"
		for _, n := range []string{"bc", "c", "b_c", "C"} {
			t += tmpl(n, "/** */", "["+nss[i]+"."+n+"]")
		}
		return core.File{Name: fmt.Sprintf("n%d.soy", i), Text: t}
	}
	page := func(idx ...int) core.File {
		var calls strings.Builder
		for _, n := range []string{"c", "bc", "C", "b_c"} {
			for k := len(idx) - 1; k >= 0; k-- {
				calls.WriteString("{call " + nss[idx[k]] + "." + n + "/}")
			}
		}
		return core.File{Name: "page.soy", Text: "{namespace page}\n" + tmpl("main", "/** */", calls.String())}
	}
	mk("tie-ns-split", 160, page(0, 1, 2), nsFile(0), nsFile(1), nsFile(2))
	mk("tie-ns-case", 160, page(0, 3, 4), nsFile(0), nsFile(3), nsFile(4))
	mk("tie-ns-case2", 160, page(1, 4), nsFile(1), nsFile(4))
	mk("tie-ns-underscore", 160, page(1, 5, 6), nsFile(1), nsFile(5), nsFile(6))
	// (3) map literal keys, globals, params and let variables with near-colliding names, in one file
	keys := []string{"Key", "key", "KEY", "kéy", "key ", "ke y", "key_", "_key", "K", "K", "k", "ключ", "key1", "Key1"}
	var kv []string
	for i, k := range keys {
		kv = append(kv, fmt.Sprintf("'%s': %d", k, i))
	}
	body := "{let $ml: [" + strings.Join(kv, ", ") + "]/}{$ml}{$ml.key}{$ml.Key}" +
		"{let $Item: 1/}{let $item: 2/}{let $ITEM: 3/}{$Item}{$item}{$ITEM}" +
		"{$name}{$Name}{$NAME}{$name_}{$_name}" +
		" {APP.Name}{app.name}{APP.NAME}{app.name_}{appname}{app_name}" +
		" {msg desc=\"m\"}{$name}{$Name}{$NAME}{$name_}{$a.name}{$b.Name}{/msg}" +
		" {$name |truncate:5}{$Name |escapeUri}{length($l)}{length(keys($m))}"
	mk("tie-keys-params", 60, core.File{Name: "k.soy", Text: "{namespace keys}\n" +
		tmpl("main", "/**\n * @param? name\n * @param? Name\n * @param? NAME\n * @param? name_\n * @param? _name\n * @param? a\n * @param? b\n * @param? l\n * @param? m\n */", body)})
	for _, c := range cases {
		c.NErr = 0
	}
	return cases
}

// SharedNamespaceCases: several FILES declare the same namespace with
// different per-file attributes (autoescape mode, aliases); the templates'
// output depends on those attributes (a printed value with HTML specials, a
// call through an alias). Rendering and generated JS must not depend on the
// insertion order of the files.
func SharedNamespaceCases() []*Case {
	var cases []*Case
	lib := func(ns string) core.File {
		return core.File{Name: ns + ".soy", Text: "{namespace " + ns + "}\n" + tmpl("t", "/** @param? h */", "["+ns+".t {$h}]")}
	}
	file := func(i int, nsAttr, alias string, tmplAttr string) core.File {
		name := fmt.Sprintf("part%d", i)
		t := "{namespace app.ui" + nsAttr + "}\n"
		if alias != "" {
			t += "{alias " + alias + "}\n"
		}
		body := name + ": {$h} {$h |noAutoescape} {call .leaf" + fmt.Sprint(i) + " data=\"all\"/}"
		if alias != "" {
			body += " {call w.t data=\"all\"/}"
		}
		t += "/** @param? h */\n{template ." + name + tmplAttr + "}\n" + body + "\n{/template}\n"
		t += "/** @param? h */\n{template .leaf" + fmt.Sprint(i) + "}\nleaf {$h}\n{/template}\n"
		return core.File{Name: fmt.Sprintf("ui%d.soy", i), Text: t}
	}
	attrs := []string{"", ` autoescape="false"`, ` autoescape="true"`, ` autoescape="contextual"`}
	n := 0
	add := func(files ...core.File) {
		cases = append(cases, &Case{ID: fmt.Sprintf("shared-ns-%02d", n), Origin: "go", Files: files,
			Globals: map[string]interface{}{}, Shape: Shape{NF: len(files)}})
		n++
	}
	// every ordered pair of distinct namespace attributes, two files
	for i, a := range attrs {
		for j, b := range attrs {
			if i < j {
				add(file(1, a, "", ""), file(2, b, "", ""))
			}
		}
	}
	// three files: default / false / true, one template overriding the mode itself
	add(file(1, "", "", ""), file(2, ` autoescape="false"`, "", ""), file(3, ` autoescape="true"`, "", ` autoescape="false"`))
	// different aliases for the same short name in two files of one namespace (+ different modes)
	add(file(1, "", "lib.one.w", ""), file(2, ` autoescape="false"`, "lib.two.w", ""), lib("lib.one.w"), lib("lib.two.w"))
	add(file(1, ` autoescape="false"`, "lib.one.w", ""), file(2, "", "", ""), lib("lib.one.w"))
	// a caller in ANOTHER namespace reaching templates of both files
	caller := core.File{Name: "caller.soy", Text: "{namespace other autoescape=\"false\"}\n" +
		tmpl("main", "/** @param? h */", "{call app.ui.part1 data=\"all\"/}|{call app.ui.part2 data=\"all\"/}|{call app.ui.leaf2 data=\"all\"/}")}
	add(file(1, "", "", ""), file(2, ` autoescape="false"`, "", ""), caller)
	add(file(1, ` autoescape="true"`, "", ""), file(2, ` autoescape="false"`, "", ""), caller)
	return cases
}

// OneErrorCases (round 3): bundles that are INVALID in exactly one template
// (one per data-reference rule), together with VALID templates in another
// file that use the same names (the same param forwarded with data="all",
// the same let / loop variable names, the same callee). The verdict and the
// error text must be the same under every insertion order: the faulty file
// is added both before and after the "contaminating" one (all permutations),
// with and without a neutral third file.
func OneErrorCases() []*Case {
	type rule struct{ name, bad, cont string }
	rules := []rule{
		{"unused-param",
			"/** @param id */\n{template .footer}\nfooter\n{/template}\n",
			"/** @param id */\n{template .page}\n{call .leaf data=\"all\"/}\n{/template}\n/** @param id */\n{template .leaf}\n{$id}\n{/template}\n"},
		{"unused-param-2",
			"/**\n * @param id\n * @param name\n */\n{template .footer}\n{$name}\n{/template}\n",
			"/**\n * @param id\n * @param name\n */\n{template .page}\n{call .leaf data=\"all\"/}{call .leaf data=\"$name\"/}{call .leaf}{param id: $id/}{param name: 1/}{/call}\n{/template}\n" +
				"/**\n * @param? id\n * @param? name\n */\n{template .leaf}\n{$id}{$name}\n{/template}\n"},
		{"undeclared-variable",
			"/** */\n{template .footer}\n{$id}\n{/template}\n",
			"/** @param id */\n{template .page}\n{$id}{let $id2: $id/}{$id2}{foreach $x in [1]}{$x}{/foreach}\n{/template}\n/** */\n{template .other}\n{let $id: 1/}{$id}{foreach $id in [1]}{$id}{/foreach}\n{/template}\n"},
		{"undeclared-loop-variable",
			"/** */\n{template .footer}\n{foreach $x in [1]}a{/foreach}{$x}\n{/template}\n",
			"/** @param x */\n{template .page}\n{$x}{foreach $x in [1]}{$x}{/foreach}\n{/template}\n"},
		{"param-not-declared-by-callee",
			"/** */\n{template .footer}\n{call cont.leaf}{param zz: 1/}{/call}\n{/template}\n",
			"/** @param? zz */\n{template .wide}\n{$zz}\n{/template}\n/** @param? id */\n{template .leaf}\n{$id}\n{/template}\n/** @param zz */\n{template .page}\n{call .wide}{param zz: $zz/}{/call}{call .wide data=\"all\"/}\n{/template}\n"},
		{"missing-required-param",
			"/** */\n{template .footer}\n{call cont.leaf/}\n{/template}\n",
			"/** @param id */\n{template .leaf}\n{$id}\n{/template}\n/** @param id */\n{template .page}\n{call .leaf data=\"all\"/}{call .leaf}{param id: $id/}{/call}{call .leaf data=\"$id\"/}\n{/template}\n"},
		{"unknown-callee",
			"/** */\n{template .footer}\n{call cont.nope/}\n{/template}\n",
			"/** */\n{template .nope2}\nx\n{/template}\n/** */\n{template .page}\n{call .nope2/}{call bad.nope/}\n{/template}\n"},
		{"unused-let",
			"/** */\n{template .footer}\n{let $v: 1/}x\n{/template}\n",
			"/** */\n{template .page}\n{let $v: 1/}{$v}{let $w}{$v}{/let}{$w}\n{/template}\n"},
		{"unused-let-shadowing-param",
			"/** @param v */\n{template .footer}\n{$v}{if $v}{let $v: 2/}x{/if}\n{/template}\n",
			"/** @param v */\n{template .page}\n{$v}{if $v}{let $v: 2/}{$v}{/if}{call .leaf data=\"all\"/}\n{/template}\n/** @param v */\n{template .leaf}\n{$v}\n{/template}\n"},
		{"undefined-global",
			"/** */\n{template .footer}\n{NO_SUCH.GLOBAL}\n{/template}\n",
			"/** */\n{template .page}\n{SUCH.GLOBAL}{let $NO_SUCH: 1/}{$NO_SUCH}\n{/template}\n"},
	}
	neutral := core.File{Name: "neutral.soy", Text: "{namespace neutral}\n/** @param? id */\n{template .t}\n{$id}\n{/template}\n"}
	var cases []*Case
	for _, r := range rules {
		bad := core.File{Name: "bad.soy", Text: "{namespace bad}\n" + r.bad}
		if r.name == "unknown-callee" {
			bad.Text += "/** */\n{template .nope}\ny\n{/template}\n"
		}
		cont := core.File{Name: "cont.soy", Text: "{namespace cont}\n" + r.cont}
		g := map[string]interface{}{"SUCH.GLOBAL": "g"}
		cases = append(cases,
			&Case{ID: "one-error-" + r.name + "-2", Origin: "go", Files: []core.File{bad, cont}, Globals: g, Shape: Shape{NF: 2, NErr: 1}, NErr: 1, MustReject: true},
			&Case{ID: "one-error-" + r.name + "-3", Origin: "go", Files: []core.File{cont, neutral, bad}, Globals: g, Shape: Shape{NF: 3, NErr: 1}, NErr: 1, MustReject: true},
			// the valid part alone must be accepted: then the error above really is the only one
			&Case{ID: "one-error-" + r.name + "-valid-part", Origin: "go", Files: []core.File{cont, neutral}, Globals: g, Shape: Shape{NF: 2}, MustAccept: r.name != "unknown-callee"})
	}
	return cases
}

func init() {
	// a function the Go renderer knows and the JavaScript generator does not: compiling and
	// rendering succeed, soyjs.Write fails ("unimplemented function") at the place of the call
	soyhtml.Funcs["verifOnlyGo"] = soyhtml.Func{Apply: func(args []data.Value) data.Value { return args[0] }, ValidArgLengths: []int{1}}
	soyhtml.PrintDirectives["verifOnlyGoDir"] = soyhtml.PrintDirective{
		Apply: func(v data.Value, args []data.Value) data.Value { return v }, ValidArgLengths: []int{0}}
}

// FailingOperationCases (round 4): histories that contain FAILING operations.
// A generation that fails half-way (inside a {let} value, a {param} value, a
// data= expression, an [index], a print directive, a function argument) must
// leave nothing behind that shows in the next generations: the good file of
// the same bundle is generated right after the failing one in every Observe,
// and the same failing bundles are also the History of good bundles, which
// one of the fresh processes skips.
func FailingOperationCases() []*Case {
	good := core.File{Name: "b_good.soy", Text: "{namespace good}\n" +
		"/**\n * @param? l\n * @param? m\n * @param? s\n * @param? n\n */\n{template .main}\n" +
		"{let $t: 'T' + $l[$n - 1] + $m['k']/}{$t}{call .echo}{param p: 'P' + $l[0] + $s/}{/call}" +
		"{call .echo data=\"['p': $m['j'] + $l[1]]\"/}{$l[$l[0]]}{$m[$s == 'x' ? 'k' : 'j'] |truncate:3}{if $l[$n] > 2}big{/if}" +
		"{foreach $q in [$l[0], $l[1] + 1]}{$q}{/foreach}{css $m['k'], cls}\n{/template}\n" +
		"/** @param? p */\n{template .echo}\n[{$p}]\n{/template}\n"}
	bads := []struct{ name, body string }{
		{"let", "{let $v: 'STALE-LET' + verifOnlyGo($s) + 'x'/}{$v}"},
		{"param", "{call .echo}{param p: 'STALE-PARAM' + verifOnlyGo($s)/}{/call}"},
		{"data", "{call .echo data=\"['p': 'STALE-DATA' + verifOnlyGo($s)]\"/}"},
		{"index", "{$m['STALE-INDEX' + verifOnlyGo($s)]}"},
		{"nested-index", "{let $v: 'STALE-NESTED' + $l[$l[verifOnlyGo(0)]]/}{$v}"},
		{"directive", "{'STALE-DIR' + $s |verifOnlyGoDir}"},
		{"directive-arg", "{$s |truncate:verifOnlyGo(5)}"},
		{"if", "{if 'STALE-IF' + verifOnlyGo($s) == 'x'}a{/if}"},
		{"css", "{css 'STALE-CSS' + verifOnlyGo($s), cls}"},
		{"foreach", "{foreach $q in ['STALE-LIST', verifOnlyGo($s)]}{$q}{/foreach}"},
	}
	var cases []*Case
	for _, b := range bads {
		bad := core.File{Name: "a_bad_" + b.name + ".soy", Text: "{namespace bad" + strings.Replace(b.name, "-", "", -1) + "}\n" +
			"/**\n * @param? l\n * @param? m\n * @param? s\n */\n{template .main}\nbefore {length($l)}{length(keys($m))}{$s} " + b.body + " after\n{/template}\n" +
			"/** @param? p */\n{template .echo}\n[{$p}]\n{/template}\n"}
		// the failing file and the good file in one bundle (generated in this order by Observe)
		cases = append(cases, &Case{ID: "failgen-" + b.name, Origin: "go", Files: []core.File{bad, good},
			Globals: map[string]interface{}{}, Shape: Shape{NF: 2}})
		// the good bundle after a process history that contains the failing generation
		cases = append(cases, &Case{ID: "failgen-history-" + b.name, Origin: "go", Files: []core.File{good},
			Globals: map[string]interface{}{}, Shape: Shape{NF: 1}, History: [][]core.File{{bad}}})
	}
	// histories with a failing COMPILE and a failing RENDER before the good bundle
	broken := core.File{Name: "broken.soy", Text: "{namespace broken}\n/** */\n{template .main}\n{let $v: 'STALE' + }\n{/template}\n"}
	failing := core.File{Name: "failing.soy", Text: "{namespace failing}\n/** @param? s */\n{template .main}\n{let $v: 'STALE' + $s.nope.deeper/}{$v}{foreach $i in $s}{$i}{/foreach}\n{/template}\n"}
	cases = append(cases, &Case{ID: "failhistory-compile-render", Origin: "go", Files: []core.File{good},
		Globals: map[string]interface{}{}, Shape: Shape{NF: 1}, History: [][]core.File{{broken}, {failing}, {broken, good}}})
	return cases
}

// FileNameCases (round 5): the NAMES of the files as a dimension. Equal base
// names in different directories, names that are prefixes / suffixes of each
// other, "./", "..", double slashes, backslashes, no extension, the empty
// name, letter case, Unicode. Every observable -- in particular what
// Generator.WriteFile(name) returns for each name -- must be the same under
// every insertion order, and WriteFile(name) must be the script of THAT file.
// Near-invalid shapes (a template name twice in one file / across files /
// differing in case; a template named like a namespace): accept/reject and the
// error must not depend on the order either.
func FileNameCases() []*Case {
	file := func(name string, i int) core.File {
		ns := fmt.Sprintf("fn%d", i)
		return core.File{Name: name, Text: "{namespace " + ns + "}\n" + strings.Repeat("// pad\n", i) +
			tmpl("main", "/** @param? s */", "["+ns+" {$s}]{call .leaf"+fmt.Sprint(i)+" data=\"all\"/}") +
			tmpl("leaf"+fmt.Sprint(i), "/** @param? s */", "leaf"+fmt.Sprint(i)+" {$s}{foreach $i in $s}x{/foreach}")}
	}
	sets := [][]string{
		{"admin/index.soy", "shop/index.soy"},
		{"shop/index.soy", "admin/index.soy", "index.soy"},
		{"a.soy", "aa.soy", "x/a.soy"},
		{"x/a.soy", "a.soy", "x/aa.soy"},
		{"./a.soy", "a.soy"},
		{"x//a.soy", "x/a.soy", "x/./a.soy"},
		{"x\\a.soy", "a.soy", "x/a.soy"},
		{"a", "a.soy", "a.soy.bak"},
		{"", "a.soy"},
		{"", ".", ".."},
		{"../a.soy", "a.soy", "../../a.soy"},
		{"A.soy", "a.soy", "A.SOY"},
		{"é.soy", "e.soy", "é.soy"}, // precomposed / plain / decomposed
		{"dir/", "dir", "dir/."},
		{"a.soy", "a.soy", "b.soy"}, // the same name twice: WriteFile is judged for b.soy only
		{" a.soy", "a.soy", "a.soy "},
	}
	var cases []*Case
	for k, names := range sets {
		var fs []core.File
		for i, n := range names {
			fs = append(fs, file(n, i+1))
		}
		cases = append(cases, &Case{ID: fmt.Sprintf("filenames-%02d", k), Origin: "go", Files: fs,
			Globals: map[string]interface{}{}, Shape: Shape{NF: len(fs)}})
	}
	// near-invalid shapes
	ns := func(n, body string) string { return "{namespace " + n + "}\n" + body }
	t := func(n, b string) string { return tmpl(n, "/** */", b) }
	shapes := []struct {
		id    string
		nerr  int
		files []core.File
	}{
		{"dup-in-one-file", 1, []core.File{{Name: "a.soy", Text: ns("sh", t("t", "one")+t("t", "two")+t("main", "{call .t/}"))}, {Name: "b.soy", Text: ns("other", t("t", "other"))}}},
		{"dup-in-one-file-last", 1, []core.File{{Name: "b.soy", Text: ns("other", t("t", "other"))}, {Name: "c.soy", Text: ns("third", t("u", "third"))}, {Name: "a.soy", Text: ns("sh", t("main", "{call .t/}")+t("t", "one")+t("t", "two"))}}},
		{"dup-across-files", 1, []core.File{{Name: "a.soy", Text: ns("sh", t("t", "one")+t("main", "{call .t/}"))}, {Name: "b.soy", Text: ns("sh", t("t", "two"))}}},
		{"case-differs", 0, []core.File{{Name: "a.soy", Text: ns("sh", t("Tmpl", "T")+t("main", "{call .Tmpl/}{call .tmpl/}{call SH.tmpl/}"))}, {Name: "b.soy", Text: ns("sh", t("tmpl", "t"))}, {Name: "c.soy", Text: ns("SH", t("tmpl", "S"))}}},
		{"template-named-like-namespace", 0, []core.File{{Name: "a.soy", Text: ns("r.b", t("c", "C")+t("main", "{call .c/}{call r.b.c.d/}"))}, {Name: "b.soy", Text: ns("r.b.c", t("d", "D"))}}},
	}
	// template ATTRIBUTES on one or both duplicates: private, autoescape, kind
	ta := func(n, attrs, b string) string {
		return "/** */\n{template ." + n + attrs + "}\n" + b + "\n{/template}\n"
	}
	caller := func(nm string) string { return t("main"+nm, "{call .helper/}") }
	for i, pair := range [][2]string{
		{` private="true"`, ` private="true"`}, {``, ` private="true"`}, {` private="true"`, ``}, {` private="false"`, ` private="true"`},
		{` autoescape="false"`, ` autoescape="true"`}, {` kind="html"`, ` kind="text"`}, {` private="true" autoescape="false"`, ` private="true" kind="text"`},
	} {
		shapes = append(shapes, struct {
			id    string
			nerr  int
			files []core.File
		}{fmt.Sprintf("dup-with-attributes-%d", i), 1, []core.File{
			{Name: "a.soy", Text: ns("sh", caller("A")+ta("helper", pair[0], "helper of a {$ij.x}<b>"))},
			{Name: "b.soy", Text: ns("sh", caller("B")+ta("helper", pair[1], "helper of b {$ij.x}<i>"))},
			{Name: "c.soy", Text: ns("third", t("u", "{call sh.mainA/}{call sh.mainB/}"))}}})
	}
	for _, sh := range shapes {
		cases = append(cases, &Case{ID: "shape-" + sh.id, Origin: "go", Files: sh.files, Globals: map[string]interface{}{},
			Shape: Shape{NF: len(sh.files), NErr: sh.nerr}, NErr: sh.nerr, ErrNamesFilesInOrder: sh.id == "dup-across-files" || strings.HasPrefix(sh.id, "dup-with-attributes")})
	}
	return cases
}
