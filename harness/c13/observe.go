package c13

import (
	"bytes"
	"crypto/sha256"
	"encoding/hex"
	"fmt"
	"reflect"
	"sort"
	"strconv"
	"strings"
	"sync"

	"github.com/robfig/soy"
	"github.com/robfig/soy/ast"
	"github.com/robfig/soy/data"
	"github.com/robfig/soy/soyhtml"
	"github.com/robfig/soy/soyjs"
	"github.com/robfig/soy/soymsg"
	"github.com/robfig/soy/template"

	"verif/core"
)

// Components of an observation, in root-cause order: a disagreement in an
// earlier component explains disagreements in the later ones that depend on it.
var Components = []string{
	"accept", "err", "msgs",
	"render", "js:es5", "js:es6",
	"render+cat", "js:es5+cat", "js:es6+cat",
	// what Generator.WriteFile(name) gives for every file name that is unique in the bundle
	"js:writefile",
	// "" unless compiling the same Bundle object again gave another result
	"rebundle",
	// "reuse" is empty unless re-rendering / re-generating on the SAME compiled registry
	// gave another result than the first time (it then names the component and the difference)
	"reuse",
}

// Obs is everything the public API shows about one Compile + Render + GenJS of
// a bundle: component name -> text.
type Obs map[string]string

// CatEntry is one message of the catalogue handed to soyjs.Options.Messages
// and Renderer.WithMessages (built once by the parent from a reference
// compile, so that every run and process uses the same catalogue).
type CatEntry struct {
	ID     string   `json:"id"`
	Plain  string   `json:"plain,omitempty"`  // translated placeholder string
	Var    string   `json:"var,omitempty"`    // plural variable name
	Plural []string `json:"plural,omitempty"` // translated placeholder strings of the plural cases (one, other)
}

type catalogue struct{ msgs map[uint64]*soymsg.Message }

func (c *catalogue) Locale() string { return "xx" }
func (c *catalogue) Message(id uint64) *soymsg.Message {
	return c.msgs[id]
}
func (c *catalogue) PluralCase(n int) int {
	if n == 1 {
		return 0
	}
	return 1
}

func newCatalogue(entries []CatEntry) *catalogue {
	c := &catalogue{msgs: map[uint64]*soymsg.Message{}}
	for _, e := range entries {
		id, _ := strconv.ParseUint(e.ID, 10, 64)
		if e.Var == "" {
			c.msgs[id] = &soymsg.Message{ID: id, Parts: soymsg.Parts(e.Plain)}
			continue
		}
		var cases []soymsg.PluralCase
		for i, p := range e.Plural {
			spec := soymsg.PluralSpec{Type: soymsg.PluralSpecOther}
			if i == 0 {
				spec = soymsg.PluralSpec{Type: soymsg.PluralSpecOne}
			}
			cases = append(cases, soymsg.PluralCase{Spec: spec, Parts: soymsg.Parts(p)})
		}
		c.msgs[id] = &soymsg.Message{ID: id, Parts: []soymsg.Part{soymsg.PluralPart{VarName: e.Var, Cases: cases}}}
	}
	return c
}

// translate reverses the order of the parts of a placeholder string and marks
// the raw text, so that the translated message differs from the source.
func translate(phstr string) string {
	parts := soymsg.Parts(phstr)
	var b strings.Builder
	b.WriteString("«")
	for i := len(parts) - 1; i >= 0; i-- {
		switch p := parts[i].(type) {
		case soymsg.RawTextPart:
			b.WriteString(strings.ToUpper(p.Text))
		case soymsg.PlaceholderPart:
			b.WriteString("{" + p.Name + "}")
		}
	}
	b.WriteString("»")
	return b.String()
}

func toValue(v interface{}) data.Value {
	switch v := v.(type) {
	case float64: // after a JSON round trip (child processes) every number is a float64
		if v == float64(int64(v)) {
			return data.Int(int64(v))
		}
		return data.Float(v)
	case int:
		return data.Int(v)
	case map[string]interface{}:
		m := data.Map{}
		for k, x := range v {
			m[k] = toValue(x)
		}
		return m
	case []interface{}:
		l := data.List{}
		for _, x := range v {
			l = append(l, toValue(x))
		}
		return l
	}
	return data.New(v)
}

func toGlobals(g map[string]interface{}) data.Map {
	m := data.Map{}
	for k, v := range g {
		m[k] = toValue(v)
	}
	return m
}

func compile(files []core.File, order []int, globals map[string]interface{}) (*template.Registry, error) {
	return compileBundle(newBundle(files, order, globals))
}

func compileBundle(b *soy.Bundle) (reg *template.Registry, err error) {
	defer func() {
		if r := recover(); r != nil {
			reg, err = nil, fmt.Errorf("PANIC in compile: %v", r)
		}
	}()
	return b.Compile()
}

func newBundle(files []core.File, order []int, globals map[string]interface{}) *soy.Bundle {
	b := soy.NewBundle()
	for _, i := range order {
		b.AddTemplateString(files[i].Name, files[i].Text)
	}
	// the globals reach the bundle as TWO caller-owned maps, and every repetition hands the
	// bundle the very same Go objects (as a program that re-creates its bundle would)
	src := sourcesOf(globals)
	b.AddGlobalsMap(src.common)
	if src.extra != nil {
		b.AddGlobalsMap(src.extra)
	}
	return b
}

// renderAll renders every template of the registry (fixed data), in template-name order.
func renderAll(reg *template.Registry, withCat bool, cat *catalogue, skipNS string) string {
	tofu := soyhtml.NewTofu(reg)
	var names []string
	for _, t := range reg.Templates {
		if skipNS == "" || !strings.HasPrefix(t.Node.Name, skipNS+".") {
			names = append(names, t.Node.Name)
		}
	}
	sort.Strings(names)
	d := data.New(RenderData()).(data.Map)
	var b strings.Builder
	for _, n := range names {
		b.WriteString("== " + n + "\n")
		b.WriteString(renderOne(tofu, n, d, withCat, cat))
		b.WriteString("\n")
	}
	return b.String()
}

// sortedFiles: by name, then by text (several files may share one name).
func sortedFiles(reg *template.Registry, skipName string) []*ast.SoyFileNode {
	var files []*ast.SoyFileNode
	for _, f := range reg.SoyFiles {
		if skipName == "" || f.Name != skipName {
			files = append(files, f)
		}
	}
	sort.SliceStable(files, func(i, j int) bool {
		if files[i].Name != files[j].Name {
			return files[i].Name < files[j].Name
		}
		return files[i].Text < files[j].Text
	})
	return files
}

func jsAll(files []*ast.SoyFileNode, f soyjs.JSFormatter, withCat bool, cat *catalogue) string {
	var b strings.Builder
	for _, sf := range files {
		b.WriteString("//== " + sf.Name + "\n")
		b.WriteString(genOne(sf, f, withCat, cat))
		b.WriteString("\n")
	}
	return b.String()
}

const laterFileName = "zz_added_later.soy"
const laterFileText = "{namespace zzaddedlater}\n/** */\n{template .t}\nadded later\n{/template}\n"

// rebundle compiles the SAME Bundle object again (Compile, CompileToTofu, then with one more file
// added) and says how the results differ from the first compilation in o ("" = they do not).
func rebundle(b *soy.Bundle, o Obs, cat *catalogue) (why, was, now string) {
	verdict := func(err error) (string, string) {
		if err != nil {
			return "reject", err.Error()
		}
		return "accept", ""
	}
	differ := func(what, a, x string) (string, string, string) {
		return what + " differs when the same Bundle object is compiled again: " + diffHint(a, x), a, x
	}
	reg2, err2 := compileBundle(b)
	if v, e := verdict(err2); v != o["accept"] || e != o["err"] {
		return differ("the verdict of the second Compile()", o["accept"]+" "+o["err"], v+" "+e)
	}
	if err2 == nil {
		if m, _ := describeMsgs(reg2); m != o["msgs"] {
			return differ("msgs after the second Compile()", o["msgs"], m)
		}
		if js := jsAll(sortedFiles(reg2, ""), soyjs.ES5Formatter{}, false, cat); js != o["js:es5"] {
			return differ("js:es5 after the second Compile()", o["js:es5"], js)
		}
	}
	var err3 error
	var tofu *soyhtml.Tofu
	func() {
		defer func() {
			if r := recover(); r != nil {
				err3 = fmt.Errorf("PANIC in CompileToTofu: %v", r)
			}
		}()
		tofu, err3 = b.CompileToTofu()
	}()
	if v, e := verdict(err3); v != o["accept"] || e != o["err"] {
		return differ("the verdict of CompileToTofu() after Compile()", o["accept"]+" "+o["err"], v+" "+e)
	}
	_ = tofu
	b.AddTemplateString(laterFileName, laterFileText)
	reg4, err4 := compileBundle(b)
	if v, e := verdict(err4); v != o["accept"] || e != o["err"] {
		return differ("the verdict of Compile() after one more (valid) file was added", o["accept"]+" "+o["err"], v+" "+e)
	}
	if err4 == nil {
		if js := jsAll(sortedFiles(reg4, laterFileName), soyjs.ES5Formatter{}, false, cat); js != o["js:es5"] {
			return differ("js:es5 of the original files after one more file was added", o["js:es5"], js)
		}
		if r := renderAll(reg4, false, cat, "zzaddedlater"); r != o["render"] {
			return differ("render of the original templates after one more file was added", o["render"], r)
		}
	}
	return "", "", ""
}

// globalSources are the caller-owned globals maps of one case.
type globalSources struct {
	common, extra         data.Map
	commonKeys, extraKeys []string
}

var sourcesByMap sync.Map // address of Case.Globals -> *globalSources

func sortedKeys(m data.Map) []string {
	var ks []string
	for k := range m {
		ks = append(ks, k)
	}
	sort.Strings(ks)
	return ks
}

func sourcesOf(globals map[string]interface{}) *globalSources {
	key := reflect.ValueOf(globals).Pointer()
	if v, ok := sourcesByMap.Load(key); ok {
		return v.(*globalSources)
	}
	all := toGlobals(globals)
	ks := sortedKeys(all)
	src := &globalSources{common: data.Map{}}
	for i, k := range ks {
		if len(ks) >= 2 && i >= (len(ks)+1)/2 {
			if src.extra == nil {
				src.extra = data.Map{}
			}
			src.extra[k] = all[k]
		} else {
			src.common[k] = all[k]
		}
	}
	src.commonKeys, src.extraKeys = sortedKeys(src.common), sortedKeys(src.extra)
	v, _ := sourcesByMap.LoadOrStore(key, src)
	return v.(*globalSources)
}

// GlobalsIntact reports how the caller's globals maps differ from what the caller built ("" = intact).
func GlobalsIntact(globals map[string]interface{}) string {
	src := sourcesOf(globals)
	if a, b := strings.Join(sortedKeys(src.common), ","), strings.Join(src.commonKeys, ","); a != b {
		return "the first globals map handed to AddGlobalsMap now has keys [" + a + "], the caller built it with [" + b + "]"
	}
	if a, b := strings.Join(sortedKeys(src.extra), ","), strings.Join(src.extraKeys, ","); a != b {
		return "the second globals map handed to AddGlobalsMap now has keys [" + a + "], the caller built it with [" + b + "]"
	}
	return ""
}

func msgNodes(n ast.Node, out *[]*ast.MsgNode) {
	if m, ok := n.(*ast.MsgNode); ok {
		*out = append(*out, m)
		return
	}
	if p, ok := n.(ast.ParentNode); ok {
		for _, c := range p.Children() {
			msgNodes(c, out)
		}
	}
}

func phNames(n ast.Node, b *strings.Builder) {
	switch n := n.(type) {
	case *ast.MsgPlaceholderNode:
		b.WriteString(" ph=" + strconv.Quote(n.Name))
		return
	case *ast.MsgPluralNode:
		b.WriteString(" plural=" + strconv.Quote(n.VarName) + "(")
		for _, c := range n.Cases {
			b.WriteString(" case" + strconv.Itoa(c.Value) + ":")
			phNames(c.Body, b)
		}
		b.WriteString(" default:")
		phNames(n.Default, b)
		b.WriteString(")")
		return
	}
	if p, ok := n.(ast.ParentNode); ok {
		for _, c := range p.Children() {
			phNames(c, b)
		}
	}
}

// describeMsgs lists message ids and placeholder names of every template, in
// template-name order (so that the listing does not depend on insertion order).
func describeMsgs(reg *template.Registry) (string, []*ast.MsgNode) {
	type tm struct {
		name string
		msgs []*ast.MsgNode
	}
	var all []tm
	var flat []*ast.MsgNode
	for _, t := range reg.Templates {
		var ms []*ast.MsgNode
		msgNodes(t.Node, &ms)
		all = append(all, tm{t.Node.Name, ms})
	}
	sort.SliceStable(all, func(i, j int) bool { return all[i].name < all[j].name })
	var b strings.Builder
	for _, t := range all {
		for k, m := range t.msgs {
			fmt.Fprintf(&b, "%s#%d id=%d", t.name, k, m.ID)
			phNames(m.Body, &b)
			b.WriteString("\n")
			flat = append(flat, m)
		}
	}
	return b.String(), flat
}

// BuildCatalogue derives the catalogue of a bundle from one compile.
func BuildCatalogue(c *Case) []CatEntry {
	order := make([]int, len(c.Files))
	for i := range order {
		order[i] = i
	}
	reg, err := compile(c.Files, order, c.Globals)
	if err != nil {
		return nil
	}
	_, msgs := describeMsgs(reg)
	var out []CatEntry
	seen := map[uint64]bool{}
	for _, m := range msgs {
		if seen[m.ID] {
			continue
		}
		seen[m.ID] = true
		e := CatEntry{ID: strconv.FormatUint(m.ID, 10)}
		kids := m.Body.Children()
		if len(kids) == 1 {
			if pl, ok := kids[0].(*ast.MsgPluralNode); ok {
				e.Var = pl.VarName
				one := pl.Default
				for _, cs := range pl.Cases {
					if cs.Value == 1 {
						one = cs.Body
					}
				}
				e.Plural = []string{
					translate(soymsg.PlaceholderString(&ast.MsgNode{Body: one})),
					translate(soymsg.PlaceholderString(&ast.MsgNode{Body: pl.Default})),
				}
				out = append(out, e)
				continue
			}
		}
		e.Plain = translate(soymsg.PlaceholderString(m))
		out = append(out, e)
	}
	return out
}

// Observe compiles the files of c in the given insertion order and records
// every observable component.
func Observe(c *Case, order []int, cat *catalogue) Obs {
	o := Obs{}
	bundle := newBundle(c.Files, order, c.Globals)
	reg, err := compileBundle(bundle)
	defer func() {
		// repetition on the SAME Bundle object: Compile again, CompileToTofu, one more file, Compile
		o["rebundle"], o["rebundle:a"], o["rebundle:b"] = rebundle(bundle, o, cat)
	}()
	if err != nil {
		o["accept"] = "reject"
		o["err"] = err.Error()
		return o
	}
	o["accept"] = "accept"
	o["msgs"], _ = describeMsgs(reg)

	tofu := soyhtml.NewTofu(reg)
	var names []string
	for _, t := range reg.Templates {
		names = append(names, t.Node.Name)
	}
	sort.Strings(names)
	d := data.New(RenderData()).(data.Map)
	render := func(withCat bool) string {
		var b strings.Builder
		for _, n := range names {
			b.WriteString("== " + n + "\n")
			b.WriteString(renderOne(tofu, n, d, withCat, cat))
			b.WriteString("\n")
		}
		return b.String()
	}
	o["render"] = render(false)
	o["render+cat"] = render(true)

	files := append([]*ast.SoyFileNode(nil), reg.SoyFiles...)
	// by name, then by text: several files may share one name
	sort.SliceStable(files, func(i, j int) bool {
		if files[i].Name != files[j].Name {
			return files[i].Name < files[j].Name
		}
		return files[i].Text < files[j].Text
	})
	gen := func(f soyjs.JSFormatter, withCat bool) string {
		var b strings.Builder
		for _, sf := range files {
			b.WriteString("//== " + sf.Name + "\n")
			b.WriteString(genOne(sf, f, withCat, cat))
			b.WriteString("\n")
		}
		return b.String()
	}
	o["js:es5"] = gen(soyjs.ES5Formatter{}, false)
	o["js:es6"] = gen(soyjs.ES6Formatter{}, false)
	o["js:es5+cat"] = gen(soyjs.ES5Formatter{}, true)
	o["js:es6+cat"] = gen(soyjs.ES6Formatter{}, true)

	// Generator.WriteFile addresses a file by its NAME: for every name that only one file of the
	// bundle carries it must give the script of exactly that file (= Write of that file)
	{
		count := map[string]int{}
		for _, sf := range files {
			count[sf.Name]++
		}
		g := soyjs.NewGenerator(reg)
		var b strings.Builder
		for _, sf := range files {
			if count[sf.Name] != 1 {
				continue
			}
			var buf bytes.Buffer
			err := g.WriteFile(&buf, sf.Name)
			text := buf.String()
			if err != nil {
				text += "\nERR: " + err.Error() // as genOne writes it
			}
			b.WriteString("//== WriteFile(" + strconv.Quote(sf.Name) + ")\n" + text + "\n")
			if direct := genOne(sf, soyjs.ES5Formatter{}, false, cat); text != direct && o["writefile:bad"] == "" {
				o["writefile:bad"] = "WriteFile(" + strconv.Quote(sf.Name) + ") is not the script of that file: " + diffHint(direct, text)
				o["writefile:a"], o["writefile:b"] = direct, text
			}
		}
		o["js:writefile"] = b.String()
	}

	// Second pass over the SAME registry, in another sequence (render after generation, ES6
	// before ES5, a file generated twice in a row, files last to first, messages re-read):
	// generation and rendering must not change what a later generation/rendering gives.
	o["reuse"] = ""
	again := func(comp, now string) {
		if o["reuse"] == "" && now != o[comp] {
			o["reuse"] = comp + " changed on the same compiled registry: " + diffHint(o[comp], now)
			o["reuse:a"], o["reuse:b"] = o[comp], now
		}
	}
	again("render", render(false))
	again("js:es6", gen(soyjs.ES6Formatter{}, false))
	for _, sf := range files { // each file twice in a row, last file first
		_ = genOne(sf, soyjs.ES5Formatter{}, false, cat)
	}
	for i := len(files) - 1; i >= 0; i-- {
		_ = genOne(files[i], soyjs.ES6Formatter{}, true, cat)
		_ = genOne(files[i], soyjs.ES6Formatter{}, true, cat)
	}
	again("js:es5", gen(soyjs.ES5Formatter{}, false))
	again("render+cat", render(true))
	again("js:es5+cat", gen(soyjs.ES5Formatter{}, true))
	again("js:es6+cat", gen(soyjs.ES6Formatter{}, true))
	msgs2, _ := describeMsgs(reg)
	again("msgs", msgs2)
	again("render", render(false))
	return o
}

func renderOne(tofu *soyhtml.Tofu, name string, d data.Map, withCat bool, cat *catalogue) (out string) {
	defer func() {
		if r := recover(); r != nil {
			out = fmt.Sprintf("PANIC: %v", r)
		}
	}()
	var buf bytes.Buffer
	rd := tofu.NewRenderer(name)
	if withCat && cat != nil {
		rd = rd.WithMessages(cat)
	}
	if err := rd.Execute(&buf, d); err != nil {
		return buf.String() + "\nERR: " + err.Error()
	}
	return buf.String()
}

func genOne(sf *ast.SoyFileNode, f soyjs.JSFormatter, withCat bool, cat *catalogue) (out string) {
	defer func() {
		if r := recover(); r != nil {
			out = fmt.Sprintf("PANIC: %v", r)
		}
	}()
	var buf bytes.Buffer
	opt := soyjs.Options{Formatter: f}
	if withCat && cat != nil {
		opt.Messages = cat
	}
	if err := soyjs.Write(&buf, sf, opt); err != nil {
		return buf.String() + "\nERR: " + err.Error()
	}
	return buf.String()
}

// Digest is the hex sha256 of a component text.
func Digest(s string) string {
	h := sha256.Sum256([]byte(s))
	return hex.EncodeToString(h[:8])
}

// Classify names the structural kind of a disagreement between two texts of
// one component (the Feature of the violation's signature).
func Classify(comp string, c *Case, a, b string) core.Sig {
	switch comp {
	case "accept":
		return core.Sig{Family: "compile", Feature: "accept-reject-varies"}
	case "err":
		if c.NErr > 1 {
			return core.Sig{Family: "compile", Feature: "error-text-varies,several-independent-errors"}
		}
		return core.Sig{Family: "compile", Feature: "error-text-varies,single-error"}
	case "msgs":
		if stripIDs(a) == stripIDs(b) {
			return core.Sig{Family: "msg", Feature: "msg-ids-vary,names-equal"}
		}
		if c.Collide {
			return core.Sig{Family: "msg", Feature: "placeholder-names-vary,colliding-base-names"}
		}
		return core.Sig{Family: "msg", Feature: "placeholder-names-vary"}
	case "rebundle":
		return core.Sig{Family: "compile", Feature: "same-bundle-object-compiled-again-differs"}
	case "reuse":
		comp := strings.SplitN(a+b, " ", 2)[0]
		return core.Sig{Family: "reuse", Feature: strings.TrimSuffix(comp, "+cat") + "-changes-on-the-same-compiled-registry"}
	case "render", "render+cat":
		return core.Sig{Family: "render", Feature: "rendered-bytes-vary," + lineKind(a, b)}
	}
	// js:<fmt>[+cat]
	f := strings.TrimSuffix(strings.TrimPrefix(comp, "js:"), "+cat")
	la, lb := strings.Split(a, "\n"), strings.Split(b, "\n")
	isImp := func(l string) bool { return strings.HasPrefix(l, "import ") }
	var ia, ib, ra, rb []string
	for _, l := range la {
		if isImp(l) {
			ia = append(ia, l)
		} else {
			ra = append(ra, l)
		}
	}
	for _, l := range lb {
		if isImp(l) {
			ib = append(ib, l)
		} else {
			rb = append(rb, l)
		}
	}
	if strings.Join(ra, "\n") == strings.Join(rb, "\n") && len(ia) > 0 {
		sa, sb := append([]string(nil), ia...), append([]string(nil), ib...)
		sort.Strings(sa)
		sort.Strings(sb)
		if strings.Join(sa, "\n") == strings.Join(sb, "\n") {
			return core.Sig{Family: "genjs", Feature: f + "-import-block-order"}
		}
		return core.Sig{Family: "genjs", Feature: f + "-import-block-content"}
	}
	return core.Sig{Family: "genjs", Feature: f + "-body," + lineKind(a, b)}
}

func stripIDs(s string) string {
	var out []string
	for _, l := range strings.Split(s, "\n") {
		if i := strings.Index(l, " id="); i >= 0 {
			rest := l[i+4:]
			if j := strings.Index(rest, " "); j >= 0 {
				l = l[:i] + rest[j:]
			} else {
				l = l[:i]
			}
		}
		out = append(out, l)
	}
	return strings.Join(out, "\n")
}

// lineKind tells how two multi-line texts differ: the same lines in another
// order, lines whose characters are permuted (e.g. the entries of an object
// literal in another order), or different content.
func lineKind(a, b string) string {
	la, lb := strings.Split(a, "\n"), strings.Split(b, "\n")
	if len(la) != len(lb) {
		return "line-count-differs"
	}
	sa, sb := append([]string(nil), la...), append([]string(nil), lb...)
	sort.Strings(sa)
	sort.Strings(sb)
	if strings.Join(sa, "\n") == strings.Join(sb, "\n") {
		return "line-order-varies"
	}
	for i := range la {
		if la[i] == lb[i] {
			continue
		}
		ca, cb := []byte(la[i]), []byte(lb[i])
		sort.Slice(ca, func(x, y int) bool { return ca[x] < ca[y] })
		sort.Slice(cb, func(x, y int) bool { return cb[x] < cb[y] })
		if string(ca) != string(cb) {
			return "content-differs"
		}
	}
	return "order-within-line-varies"
}
