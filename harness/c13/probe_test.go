package c13

import (
	"fmt"
	"math/rand"
	"testing"
)

func TestProbe(t *testing.T) {
	r := rand.New(rand.NewSource(1))
	c := Instantiate("p", "go", Shape{NF: 1, Files: []FileShape{{[]int{}, "maplit", "ok"}}}, r)
	o := Observe(c, []int{0}, nil)
	fmt.Println(o["accept"], o["err"])
	fmt.Println(o["msgs"])
	fmt.Println(c.Files[0].Text[:600])
}
