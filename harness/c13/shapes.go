package c13

import (
	"fmt"
	"math/rand"
	"regexp"
	"sort"
	"strings"

	"verif/core"
)

// FileShape is the abstract description of one file (SoyBundleDet!FileShape).
type FileShape struct {
	Imps []int  `json:"imps"` // abstract import classes: 1 cross-file calls, 2 Soy functions, 3 print directives
	Msg  string `json:"msg"`  // none | collide | collide_sfx | (Go-only) plural | html | many
	Err  string `json:"err"`  // ok | parse | check | (Go-only) check2 (two errors inside one map literal), callee, global
}

// Shape is an abstract bundle as printed by SoyBundleDet!PrintShapes.
type Shape struct {
	NF    int         `json:"nf"`
	Files []FileShape `json:"files"`
	NErr  int         `json:"nerr"`
	// Go-only knobs (zero = chosen from the seed)
	Fan    int `json:"fan,omitempty"`    // number of members per import class (2..7)
	Keys   int `json:"keys,omitempty"`   // keys per map literal
	Global int `json:"global,omitempty"` // number of globals
	// SameName: every file of the bundle is added under this one name ("-" = the empty name).
	SameName string `json:"sameName,omitempty"`
	// Uniq makes the nameless expression of the xplural/xprint messages unique to the bundle.
	Uniq int `json:"uniq,omitempty"`
}

// Case is one concrete bundle to explore.
type Case struct {
	ID      string                 `json:"id"`
	Origin  string                 `json:"origin"` // tlc | go
	Shape   Shape                  `json:"shape"`
	Files   []core.File            `json:"files"` // canonical insertion order
	Globals map[string]interface{} `json:"globals"`
	// Alts[k] is the same bundle with only the k-th planted error left in
	// (used to compute the set of independent errors of a multi-error bundle).
	Alts [][]core.File `json:"alts,omitempty"`
	// History are bundles the process compiles (once) before it first observes this
	// case: what a process compiled earlier must not influence a later compile.
	History [][]core.File `json:"history,omitempty"`
	// Reps, when > 0, is the number of in-process repetitions of the identity order (cases
	// whose nondeterminism would show only in a fraction of the emissions).
	Reps int `json:"reps,omitempty"`
	// MustReject / MustAccept: what the case is built to be (a hand-built case that turns out
	// otherwise under the identity order AND every other order is a harness problem, not a verdict).
	MustReject bool `json:"mustReject,omitempty"`
	MustAccept bool `json:"mustAccept,omitempty"`
	// ErrNamesFilesInOrder: the (single) error legitimately names two files in the order they were
	// added ("defined more than once (in a.soy and b.soy)"): across insertion orders only the verdict
	// is compared, not the text.
	ErrNamesFilesInOrder bool `json:"errNamesFilesInOrder,omitempty"`
	// NErr is the number of independent planted errors.
	NErr int `json:"nerr"`
	// Collide: some message has placeholders with colliding base names.
	Collide bool `json:"collide"`
	// filled by the parent before the children run
	AllowedErrs []string   `json:"allowedErrs,omitempty"`
	Catalogue   []CatEntry `json:"catalogue,omitempty"`
	// ExpectByOrder[orderKey][component] = sha256 of the parent's first observation
	ExpectByOrder map[string]map[string]string `json:"expectByOrder,omitempty"`
}

var soyFuncs = []string{
	"{length($l)}", "{length(keys($m))}", "{round(2.5)}", "{floor(2.5)}", "{ceiling(2.5)}",
	"{min(1, 2)}", "{max(1, 2)}", "{strContains($s, 'a') ? 'y' : 'n'}", "{isNonnull($s) ? 'y' : 'n'}",
	"{length(keys(augmentMap($m, $m)))}",
}

// a second, disjoint pool used when a one-file bundle cannot have cross-file calls
var soyFuncs2 = []string{
	"{round(1.25, 1)}", "{floor(-0.5)}", "{max(3, length($l))}", "{min(0, length($l))}", "{ceiling(0.25)}",
	"{hasData() ? 'd' : 'e'}",
}

var soyDirectives = []string{
	"{$s |truncate:5}", "{$s |escapeUri}", "{$s |insertWordBreaks:3}", "{$s |changeNewlineToBr}",
	"{$s |escapeJsString}", "{$s |escapeHtml}", "{$s |json}",
	// chains with a marker directive (|id, |noAutoescape: no JS function of their own) in
	// non-final position, and with the directives that cancel autoescaping
	"{$s |id |truncate:5}", "{$s |noAutoescape |escapeUri}", "{$s |noAutoescape |insertWordBreaks:3 |truncate:30}",
	"{$s |changeNewlineToBr |truncate:20}", "{$s |id |escapeJsString |noAutoescape |truncate:9}", "{$s |insertWordBreaks:4 |escapeUri}",
}

type body struct {
	b    strings.Builder
	used map[string]bool
}

var reVar = regexp.MustCompile(`\$([a-z][a-z_0-9]*)`)

var paramNames = map[string]bool{"a": true, "b": true, "c": true, "d": true, "x_1": true, "n": true, "l": true, "m": true, "s": true}

func (b *body) add(s string) {
	b.b.WriteString(s)
	for _, m := range reVar.FindAllStringSubmatch(s, -1) {
		if paramNames[m[1]] {
			b.used[m[1]] = true
		}
	}
}

func (b *body) template(name string) string {
	var ps []string
	for p := range b.used {
		ps = append(ps, p)
	}
	sort.Strings(ps)
	var t strings.Builder
	t.WriteString("/**\n")
	for _, p := range ps {
		t.WriteString(" * @param? " + p + "\n")
	}
	t.WriteString(" */\n{template " + name + "}\n" + b.b.String() + "\n{/template}\n")
	return t.String()
}

// RenderData is the data every template is rendered with.
func RenderData() map[string]interface{} {
	return map[string]interface{}{
		"a": map[string]interface{}{"x": "ax", "name": "an"}, "b": map[string]interface{}{"x": "bx", "Name": "bN"},
		"c": map[string]interface{}{"x": "cx"}, "d": map[string]interface{}{"x": "dx"},
		"x_1": "x1", "n": 2, "l": []interface{}{1, 2, 3},
		"m": map[string]interface{}{"k": "v", "j": "w"}, "s": "some <text>\nwith a line",
		"h": "<b class=\"x\">Tom & 'Jerry'</b>", "name": "n1", "Name": "n2", "NAME": "n3", "name_": "n4", "_name": "n5",
	}
}

// namelessExpr is a data reference without a usable placeholder name whose
// text is unique to the bundle (it evaluates to $l[1]).
func namelessExpr(uniq int) string { return fmt.Sprintf("$l[1 + %d - %d]", uniq, uniq) }

func msgSource(kind string, uniq int) (src string, collide bool) {
	switch kind {
	case "xplural":
		// the same nameless expression is a {plural} subject here and a printed placeholder elsewhere
		return `{msg desc="xp"}{plural ` + namelessExpr(uniq) + `}{case 1}one row{default}many rows{/plural}{/msg}`, false
	case "xprint":
		return `{msg desc="xq"}The row is {` + namelessExpr(uniq) + `}.{/msg}`, false
	case "xboth":
		return `{msg desc="xq"}The row is {` + namelessExpr(uniq) + `}.{/msg} {msg desc="xp"}{plural ` + namelessExpr(uniq) + `}{case 1}one row{default}many rows{/plural}{/msg}`, false
	case "collide":
		return `{msg desc="m"}{$a.x} and {$b.x} and {$a.x}{/msg}`, true
	case "collide_sfx":
		return `{msg desc="m"}{$a.x}{$b.x}{$x_1}{/msg}`, true
	case "many":
		return `{msg desc="m" meaning="mm"}{$a.x},{$b.x},{$c.x},{$d.x},{$x_1},{$a.x}{/msg}`, true
	case "html":
		return `{msg desc="m"}<a href="1">{$a.x}</a><a href="2">{$b.x}</a><b>{$s}</b><br/>{/msg}`, true
	case "plural":
		return `{msg desc="m"}{plural $n}{case 1}{$a.x} one {$b.x}{default}{$a.x} many {$b.x} {$n} {$x_1}{/plural}{/msg}`, true
	case "maplit":
		// two occurrences of one expression that contains a map literal: they must be recognised as equal
		return `{msg desc="m"}{['p': $s, 'q': 2, 'r': 3, 't': 4]}-{$s}-{['p': $s, 'q': 2, 'r': 3, 't': 4]}{/msg}`, false
	}
	return "", false
}

// Instantiate turns an abstract shape into Soy sources. All choices that the
// shape leaves open are drawn from r.
func Instantiate(id, origin string, sh Shape, r *rand.Rand) *Case {
	c := &Case{ID: id, Origin: origin, Shape: sh, Globals: map[string]interface{}{}}
	fan := sh.Fan
	if fan == 0 {
		fan = 2 + r.Intn(6) // 2..7
	}
	nkeys := sh.Keys
	if nkeys == 0 {
		nkeys = 3 + r.Intn(10)
	}
	nglob := sh.Global
	if nglob == 0 {
		nglob = 2 + r.Intn(9)
	}
	for g := 0; g < nglob; g++ {
		switch g % 4 {
		case 0:
			c.Globals[fmt.Sprintf("G_%d", g)] = fmt.Sprintf("g%d", g)
		case 1:
			c.Globals[fmt.Sprintf("app.g%d", g)] = g
		case 2:
			c.Globals[fmt.Sprintf("G_%d", g)] = true
		case 3:
			c.Globals[fmt.Sprintf("app.sub.g%d", g)] = 0.5
		}
	}
	// collection-valued globals (only reachable through AddGlobalsMap): several keys, nested
	gm := map[string]interface{}{}
	for k := 0; k < 4+nglob; k++ {
		gm[fmt.Sprintf("%s%d", []string{"zeta", "alpha", "mid", "beta"}[k%4], k)] = fmt.Sprintf("m%d", k)
	}
	gm["inner"] = map[string]interface{}{"x": "ix", "y": true, "w": "iw", "v": []interface{}{"l1", map[string]interface{}{"p": "1", "q": "2", "r": "3"}}}
	collGlobals := map[string]interface{}{
		"GM_MAP":   gm,
		"app.list": []interface{}{"a", map[string]interface{}{"k1": "v1", "k2": "v2", "k3": "v3", "k4": false}, []interface{}{"n", "m"}},
	}
	globNames := make([]string, 0, len(c.Globals))
	for k := range c.Globals {
		globNames = append(globNames, k)
	}
	sort.Strings(globNames)
	for k, v := range collGlobals {
		c.Globals[k] = v
	}
	fileName := func(i int) string {
		switch sh.SameName {
		case "":
			return fmt.Sprintf("f%d.soy", i+1)
		case "-":
			return ""
		}
		return sh.SameName
	}

	type planted struct{ file int }
	var errs []planted
	good := make([]string, sh.NF) // text of the file without its planted error
	full := make([]string, sh.NF)
	for i := 0; i < sh.NF; i++ {
		fs := sh.Files[i]
		ns := fmt.Sprintf("n%d", i+1)
		var out strings.Builder
		out.WriteString("{namespace " + ns + "}\n\n")
		// a template whose RENDER fails, at a line that differs from file to file: the error
		// text (with its line) is an observable and must not depend on the other files
		for pad := 0; pad < 1+3*i; pad++ {
			out.WriteString("// pad " + fmt.Sprint(pad) + "\n")
		}
		out.WriteString("/** @param? s */\n{template .fail}\nbefore\n{foreach $i in $s}{$i}{/foreach}\n{/template}\n")
		// header params (no soydoc), required / optional / with a default: the compiler moves them
		// out of the template body, which must not make a second compilation see another template
		out.WriteString("{template .hdr}\n{@param s: string}\n{@param? n: int}\n{@param? dflt: string = 'dv'}\nhdr {$s} {$n ?: 0} {$dflt ?: 'none'}\n{/template}\n")
		main := &body{used: map[string]bool{}}
		main.add("file " + ns + ": ")
		has := map[int]bool{}
		for _, k := range fs.Imps {
			has[k] = true
		}
		if has[1] {
			if sh.NF > 1 {
				for k := 0; k < fan; k++ {
					j := (i + 1 + k%(sh.NF-1)) % sh.NF
					main.add(fmt.Sprintf("{call n%d.h%d}{param s: 'v%d'/}{/call}", j+1, 1+k, k))
				}
			} else {
				for k := 0; k < fan && k < len(soyFuncs2); k++ {
					main.add(soyFuncs2[(k+r.Intn(2))%len(soyFuncs2)])
				}
			}
		}
		if has[2] {
			// functions applied to compile-time values that are reference types (map / list valued
			// globals): rendering must not change them (A, B, A again; fresh compilations)
			main.add("{let $am: augmentMap(['base': 'b', 'zeta0': 'own'], GM_MAP)/}{length(keys($am))}/{length(keys(GM_MAP))}/{length(app.list)}" +
				"{length(keys(augmentMap(GM_MAP, ['extra': 1])))}{call .hdr data=\"augmentMap(['s': 'from-data'], GM_MAP)\"/}")
			off := r.Intn(len(soyFuncs))
			for k := 0; k < fan; k++ {
				main.add(soyFuncs[(off+k)%len(soyFuncs)])
			}
		}
		if has[3] {
			off := r.Intn(len(soyDirectives))
			for k := 0; k < fan && k < len(soyDirectives); k++ {
				main.add(soyDirectives[(off+k)%len(soyDirectives)])
			}
		}
		// map literal with several keys and several globals: always present
		var kv []string
		for k := 0; k < nkeys; k++ {
			key := fmt.Sprintf("k%d", (k*7+3)%(nkeys+5))
			val := fmt.Sprintf("%d", k)
			if k%3 == 1 {
				val = fmt.Sprintf("'v%d'", k)
			} else if k%3 == 2 && len(globNames) > 0 {
				val = globNames[k%len(globNames)]
			}
			kv = append(kv, "'"+key+"': "+val)
		}
		main.add("{let $ml: [" + strings.Join(kv, ", ") + "]/}{$ml}{$ml.k3}")
		for _, g := range globNames {
			main.add(" {" + g + "}")
		}
		main.add(" {let $gm: GM_MAP/}{$gm.inner.x}{$gm}{let $gl: app.list/}{$gl}{foreach $e in app.list}{$e}{/foreach}")
		if src, col := msgSource(fs.Msg, sh.Uniq); src != "" {
			main.add(" " + src)
			c.Collide = c.Collide || col
		}
		// call targets first (only as many as some caller may use), the entry template last, so
		// that the first and the last template of every file carry a message
		for k := 1; k <= fan && sh.NF > 1; k++ {
			h := &body{used: map[string]bool{}}
			h.add(fmt.Sprintf("[%s.h%d {$s}]", ns, k))
			if k == 1 && fs.Msg != "none" {
				h.add(` {msg desc="h"}{$s} in {$b.x}{/msg}`)
			}
			out.WriteString(h.template(fmt.Sprintf(".h%d", k)))
		}
		out.WriteString(main.template(".main"))
		good[i] = out.String()
		full[i] = good[i]
		switch fs.Err {
		case "parse":
			full[i] = good[i] + "/** */\n{template .bad}\n{if $s}unclosed\n{/template}\n"
			errs = append(errs, planted{i})
		case "check":
			full[i] = good[i] + "/** */\n{template .bad}\n{$undeclared" + fmt.Sprint(i+1) + "}\n{/template}\n"
			errs = append(errs, planted{i})
		case "callee":
			full[i] = good[i] + "/** */\n{template .bad}\n{call " + ns + ".nope" + fmt.Sprint(i+1) + "/}\n{/template}\n"
			errs = append(errs, planted{i})
		case "global":
			full[i] = good[i] + "/** */\n{template .bad}\n{NO_SUCH_GLOBAL_" + fmt.Sprint(i+1) + "}\n{/template}\n"
			errs = append(errs, planted{i})
		}
	}
	for i := 0; i < sh.NF; i++ {
		c.Files = append(c.Files, core.File{Name: fileName(i), Text: full[i]})
	}
	c.NErr = len(errs)
	if len(errs) > 1 {
		for _, e := range errs {
			var alt []core.File
			for i := 0; i < sh.NF; i++ {
				t := good[i]
				if i == e.file {
					t = full[i]
				}
				alt = append(alt, core.File{Name: fileName(i), Text: t})
			}
			c.Alts = append(c.Alts, alt)
		}
	}
	return c
}

// MapLitErrorCase is a one-file bundle whose only template has two undeclared
// variables inside ONE map literal: two independent errors in one place.
func MapLitErrorCase(id string) *Case {
	mk := func(a, b string) []core.File {
		return []core.File{{Name: "f1.soy", Text: "{namespace n1}\n/** @param? ok */\n{template .main}\n" +
			"{let $ml: ['k1': " + a + ", 'k2': " + b + ", 'k3': $ok]/}{$ml.k1}\n{/template}\n"}}
	}
	c := &Case{ID: id, Origin: "go", Shape: Shape{NF: 1, Files: []FileShape{{Err: "check2"}}, NErr: 2},
		Globals: map[string]interface{}{}, NErr: 2}
	c.Files = mk("$undeclaredA", "$undeclaredB")
	c.Alts = [][]core.File{mk("$undeclaredA", "1"), mk("1", "$undeclaredB")}
	return c
}

// Permutations returns every permutation of 0..n-1 in lexicographic order.
func Permutations(n int) [][]int {
	var res [][]int
	var rec func(cur []int, used []bool)
	rec = func(cur []int, used []bool) {
		if len(cur) == n {
			res = append(res, append([]int(nil), cur...))
			return
		}
		for i := 0; i < n; i++ {
			if !used[i] {
				used[i] = true
				rec(append(cur, i), used)
				used[i] = false
			}
		}
	}
	rec(nil, make([]bool, n))
	return res
}

// OrderKey names an insertion order.
func OrderKey(p []int) string {
	var s []string
	for _, i := range p {
		s = append(s, fmt.Sprint(i+1))
	}
	return strings.Join(s, "")
}
