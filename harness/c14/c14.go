// Package c14 decides property C14: generated JavaScript is always well-formed
// and preserves every literal (spec/SoyJsLit.tla).
//
// M1: TLC checks that the reference escaper round-trips through the JavaScript
// string-literal denotation and is safe to embed, for every string of <= 3 (4)
// symbols of the adversarial alphabet, and that each deviation breaks it.
// M2 (translation validation): every literal position x adversarial string x
// command context is generated as a Soy bundle; for each bundle the Go compiler
// accepts, the JavaScript emitted by BOTH formatters is parsed, evaluated and
// called in node, and must define exactly the templates and return exactly the
// characters the literal denotes.
// M3: literal bodies found in the emitted JavaScript are validated by TLC
// against SoyJsLit!JsDenote / SafeBody.
package c14

import (
	"bytes"
	"context"
	"encoding/json"
	"fmt"
	"math/rand"
	"os"
	"regexp"
	"runtime"
	"sort"
	"strings"
	"sync"
	"time"
	"unicode"
	"unicode/utf16"

	"github.com/robfig/soy"
	"github.com/robfig/soy/ast"
	"github.com/robfig/soy/data"
	"github.com/robfig/soy/soyhtml"
	"github.com/robfig/soy/soyjs"
	"github.com/robfig/soy/soymsg"
	"github.com/robfig/soy/template"

	"verif/core"
	"verif/jsrun"
)

const preScript = "var verifArg = function(v, a) { return a; };"

// Failure is the replay case of a violation.
type Failure struct {
	Program   *Program `json:"program"`
	Formatter string   `json:"formatter"`
	Kind      string   `json:"kind"`
	Detail    string   `json:"detail"`
	JS        string   `json:"js"`
	Observed  string   `json:"observed,omitempty"`
}

type compiled struct {
	p        *Program
	js       map[string][]string // formatter -> JS of each file of the bundle
	genErr   map[string]string
	rejected string
	goOut    string
	goErr    string
}

type translation struct {
	id   uint64
	text string
}

func (t *translation) Locale() string { return "xx" }
func (t *translation) Message(id uint64) *soymsg.Message {
	if id != t.id {
		return nil
	}
	return &soymsg.Message{ID: id, Parts: []soymsg.Part{soymsg.RawTextPart{Text: t.text}}}
}
func (t *translation) PluralCase(n int) int { return 0 }

var registerOnce sync.Once

func registerCustom() {
	registerOnce.Do(func() {
		soyjs.PrintDirectives["verifArg"] = soyjs.PrintDirective{Name: "verifArg", CancelAutoescape: true}
		soyhtml.PrintDirectives["verifArg"] = soyhtml.PrintDirective{
			Apply:           func(v data.Value, args []data.Value) data.Value { return args[0] },
			ValidArgLengths: []int{1}, CancelAutoescape: true}
	})
}

func toValue(v interface{}) data.Value {
	switch v := v.(type) {
	case float64:
		return data.Float(v)
	case map[string]interface{}:
		m := data.Map{}
		for k, x := range v {
			m[k] = toValue(x)
		}
		return m
	case []interface{}:
		l := data.List{}
		for _, x := range v {
			l = append(l, toValue(x))
		}
		return l
	}
	return data.New(v)
}

func firstMsg(n ast.Node) *ast.MsgNode {
	if m, ok := n.(*ast.MsgNode); ok {
		return m
	}
	if p, ok := n.(ast.ParentNode); ok {
		for _, c := range p.Children() {
			if m := firstMsg(c); m != nil {
				return m
			}
		}
	}
	return nil
}

// translate runs the real compiler, renderer and both JS formatters on p.
func translate(p *Program) (c *compiled) {
	c = &compiled{p: p, js: map[string][]string{}, genErr: map[string]string{}}
	defer func() {
		if r := recover(); r != nil {
			c.rejected = fmt.Sprintf("PANIC: %v", r)
		}
	}()
	b := soy.NewBundle().AddTemplateString(p.File.Name, p.File.Text)
	for _, x := range p.Extra {
		b.AddTemplateString(x.Name, x.Text)
	}
	globals := data.Map{}
	for k, v := range p.Globals {
		globals[k] = toValue(v)
	}
	if p.GlobalsText != "" {
		g, err := soy.ParseGlobals(strings.NewReader(p.GlobalsText))
		if err != nil {
			c.rejected = "globals: " + err.Error()
			return
		}
		for k, v := range g {
			globals[k] = v
		}
	}
	b.AddGlobalsMap(globals)
	reg, err := b.Compile()
	if err != nil {
		c.rejected = err.Error()
		return
	}
	var msgs soymsg.Bundle
	if p.Translation != nil {
		var m *ast.MsgNode
		for _, t := range reg.Templates {
			if m = firstMsg(t.Node); m != nil {
				break
			}
		}
		if m == nil {
			c.rejected = "harness: no message found"
			return
		}
		msgs = &translation{id: m.ID, text: *p.Translation}
	}
	c.goOut, c.goErr = renderGo(reg, p, msgs)
	for name, f := range map[string]soyjs.JSFormatter{"es5": soyjs.ES5Formatter{}, "es6": soyjs.ES6Formatter{}} {
		if p.Before != nil && name == "es5" {
			// Generator reuse across a registry update: generate from the old registry, update the
			// registry in place (as the WatchFiles recompiler does), generate again
			old, err := soy.NewBundle().AddTemplateString(p.Before.Name, p.Before.Text).Compile()
			if err != nil {
				c.rejected = "harness: the earlier version does not compile: " + err.Error()
				return
			}
			g := soyjs.NewGenerator(old)
			var first, second bytes.Buffer
			if err := g.WriteFile(&first, p.Before.Name); err != nil {
				c.genErr[name] = err.Error()
			}
			*old = *reg
			if err := g.WriteFile(&second, p.File.Name); err != nil {
				c.genErr[name] = err.Error()
			}
			c.js[name] = append(c.js[name], second.String())
			continue
		}
		names := map[string]int{}
		for _, sf := range reg.SoyFiles {
			names[sf.Name]++
		}
		for _, sf := range reg.SoyFiles {
			var buf bytes.Buffer
			var err error
			if name == "es5" && msgs == nil && names[sf.Name] == 1 {
				// the per-file entry point of the public API: the file is addressed by its NAME
				err = soyjs.NewGenerator(reg).WriteFile(&buf, sf.Name)
			} else {
				err = soyjs.Write(&buf, sf, soyjs.Options{Formatter: f, Messages: msgs})
			}
			if err != nil {
				c.genErr[name] = err.Error()
			}
			c.js[name] = append(c.js[name], buf.String())
		}
	}
	return
}

func renderGo(reg *template.Registry, p *Program, msgs soymsg.Bundle) (out, errs string) {
	defer func() {
		if r := recover(); r != nil {
			errs = fmt.Sprintf("PANIC: %v", r)
		}
	}()
	var buf bytes.Buffer
	rd := soyhtml.NewTofu(reg).NewRenderer(p.NS + ".main")
	if msgs != nil {
		rd = rd.WithMessages(msgs)
	}
	d := data.Map{}
	for k, v := range p.Data {
		d[k] = toValue(v)
	}
	if err := rd.Execute(&buf, d); err != nil {
		return buf.String(), err.Error()
	}
	return buf.String(), ""
}

type stats struct {
	mu             sync.Mutex
	programs       int64
	checks         int64
	rejected       map[string]int
	frontend       map[string]int
	frontendEx     []map[string]string
	batchOnly      int
	byPos          map[string]int
	byWrap         map[string]int
	lits           []litObs
	litCap         int
	nodeRequests   int64
	genErrs        int
	failures       []*Failure
	scriptClose    int
	m3only         int
	importsMissing map[string]int
}

type litObs struct {
	Q   int      `json:"q"`
	S   []uint16 `json:"s"`
	Lit []uint16 `json:"lit"`
	p   *Program
}

// Run is the entry point for C14.
func Run(ctx *core.Ctx) {
	ctx.Rule = "cases: one Soy bundle per (literal position, command context, string). Positions: raw text, {literal}, string literal (plain, \\uXXXX-spelled, in concat/ternary/elvis, as directive value/argument, function argument, switch case, if comparison, bracket index), " +
		"map literal key (printed and looked up) and value, list item, css name, css prefix expression, message text, html tag in a message, plural case text, catalogue translation, globals (string via map and via ParseGlobals, map key, list item, null/bool/int/float), " +
		"call param value/content/attribute form, call data, let value/content. Contexts: template top level, if/elseif/else, switch case/default, foreach/ifempty, for-range, let content, param content, msg, plural, log, nested foreach>if>switch>debugger, between quote characters. " +
		"Strings: the 16-symbol alphabet of SoyJsLit (all words of length 1-2, sampled 3-4), every ASCII byte 1..127 alone and between letters, script/comment closers, textual escapes, Soy syntax, injection shapes, non-printable and astral runes, long strings. " +
		"Every position x every string at top level; every position x every context x the alphabet+core specials; a case is non-trivial if its string is not plain or its context is not top level; distinct by (position, context, string)"
	ctx.Assumptions = append(ctx.Assumptions,
		"the intended string is the oracle: each literal is generated from it (core.QuoteSoy / \\uXXXX spelling / RawSoy special-character commands), so what the Soy source denotes is known by construction",
		"a program whose Go rendering (soyhtml) differs from the intended string is NOT judged (the shared front end, not the JS generator, lost the literal: C01/C15's subject); such programs are counted in frontend_disagree",
		"bundles the Go compiler rejects are not judged (C07's subject); counted per position",
		"valid UTF-8 only; NUL only where Soy can spell it (\\u0000); surrogate escapes (\\uD83D) are not used (Go and Java disagree on what they denote)",
		"the identifier-hazard programs choose reserved words, runtime names and Object.prototype member names for variables, params, templates and namespace segments; elsewhere identifiers are plain",
		"a {call} param or @param named __proto__ is not used to observe a literal: the param travels in a plain JS object and is lost on the way, but the script is well-formed, the templates are defined and the literal denotes its characters -- the loss is a Go/JS divergence of param passing (C04's ground, outside the common subset), not a claim of C14",
		"ES6 output is parsed and evaluated as an ES module (vm.SourceTextModule); imports 'a.b.js' are linked to the other modules / soy.$$ utilities by name (js/driver.js)",
	)
	ctx.Trusted = append(ctx.Trusted, "node v20 (V8 parser and evaluator)", "js/driver.js + harness/jsrun", "Go harness (program generator)", "TLC")
	registerCustom()

	bg := context.Background()
	if ctx.ReplayPath != "" {
		replay(ctx, bg)
		return
	}

	m1done := make(chan struct{})
	go func() { defer close(m1done); m1(ctx) }()
	defer func() { <-m1done }()

	nproc := runtime.NumCPU() / 2
	if nproc > 8 {
		nproc = 8
	}
	if nproc < 2 {
		nproc = 2
	}
	pool, err := jsrun.NewPool(bg, nproc)
	if err != nil {
		ctx.ToolError("cannot start the JavaScript engine: %v", err)
		return
	}
	defer pool.Close()
	ctx.Extra["js_engine"] = pool.Engine()

	progs := generate(ctx)
	st := &stats{rejected: map[string]int{}, frontend: map[string]int{}, byPos: map[string]int{}, byWrap: map[string]int{}, litCap: ctx.Pick(5000, 30000)}
	runAll(ctx, pool, progs, st)
	validateLits(ctx, st)
	classify(ctx, pool, st)

	ctx.Programs = st.programs
	ctx.Disagree = st.checks
	ctx.AddEvals(st.checks)
	ctx.AddTraces(st.programs)
	ctx.Extra["generated_programs"] = len(progs)
	ctx.Extra["rejected_by_compiler"] = st.rejected
	ctx.Extra["frontend_disagree"] = st.frontend
	ctx.Extra["frontend_disagree_examples"] = st.frontendEx
	ctx.Extra["failed_in_batch_but_not_alone"] = st.batchOnly
	ctx.Extra["programs_by_position"] = st.byPos
	ctx.Extra["programs_by_context"] = st.byWrap
	ctx.Extra["node_requests"] = st.nodeRequests
	ctx.Extra["node_restarts"] = pool.Restarts()
	ctx.Extra["generator_errors"] = st.genErrs
	if st.importsMissing == nil {
		st.importsMissing = map[string]int{}
	}
	ctx.Extra["es6_import_lines_missing"] = st.importsMissing // programs per name: observation only
}

func m1(ctx *core.Ctx) {
	base := "INIT Init\nNEXT Next\nINVARIANTS RoundTrip Safe\nCHECK_DEADLOCK FALSE\n"
	self := map[string]string{}
	res, err := ctx.RunTLC(core.TLCOpts{Module: "SoyJsLitMC", Cfg: fmt.Sprintf("CONSTANTS\n Dev = {}\n MaxLen = %d\n", ctx.Pick(3, 4)) + base,
		Workers: 4, Timeout: 8 * time.Minute, Label: "M1 reference"})
	if err != nil {
		ctx.ToolError("M1 reference: %v", err)
	} else if res.Violated != "" {
		ctx.ToolError("M1: the reference escaper violates %s (spec bug):\n%s", res.Violated, res.Trace)
	} else {
		self["reference"] = fmt.Sprintf("no violation, %d (position, string) states", res.Distinct)
	}
	for _, d := range []struct{ dev, inv string }{{"mapkey_unescaped", "RoundTrip"}, {"bs_raw", "RoundTrip"}, {"ls_raw", "RoundTrip"}, {"lt_raw", "Safe"}, {"post_pass_rewrites_output", "RoundTrip"}} {
		res, err := ctx.RunTLC(core.TLCOpts{Module: "SoyJsLitMC", Cfg: "CONSTANTS\n Dev = {\"" + d.dev + "\"}\n MaxLen = 3\n" + base,
			Workers: 1, Timeout: 3 * time.Minute, Label: "M1 dev:" + d.dev})
		if err != nil {
			ctx.ToolError("M1 dev %s: %v", d.dev, err)
			continue
		}
		if res.Violated != d.inv {
			ctx.ToolError("M1 dev %s: expected a violation of %s, got %q (vacuous invariant?)", d.dev, d.inv, res.Violated)
		}
		self["dev:"+d.dev] = "violates " + res.Violated
	}
	for _, d := range []struct{ dev, inv string }{{"", ""}, {"\"let_keeps_soy_name\"", "NoHazard"}} {
		res, err := ctx.RunTLC(core.TLCOpts{Module: "SoyJsIdent", Cfg: "CONSTANTS\n Dev = {" + d.dev + "}\n MaxDecls = 3\n MaxDepth = 3\nINIT Init\nNEXT Next\nINVARIANTS NoHazard Distinct\nCHECK_DEADLOCK FALSE\n",
			Workers: 1, Timeout: 3 * time.Minute, Label: "M1 identifiers " + d.dev})
		if err != nil {
			ctx.ToolError("M1 identifiers %s: %v", d.dev, err)
			continue
		}
		if res.Violated != d.inv {
			ctx.ToolError("M1 identifiers Dev={%s}: expected %q, TLC says %q", d.dev, d.inv, res.Violated)
		}
		if d.dev == "" {
			self["identifiers:reference"] = fmt.Sprintf("no violation, %d states", res.Distinct)
		} else {
			self["identifiers:dev:let_keeps_soy_name"] = "violates " + res.Violated
		}
	}
	ctx.Extra["m1_selftest"] = self
}

// generate builds the program list (deterministic given the seed).
func generate(ctx *core.Ctx) []*Program {
	r := rand.New(rand.NewSource(ctx.Seed))
	var all []string
	all = append(all, "")
	all = append(all, Words(1)...)
	all = append(all, Words(2)...)
	all = append(all, SampleWords(r, 3, ctx.Pick(100, 1500))...)
	all = append(all, SampleWords(r, 4, ctx.Pick(60, 1500))...)
	all = append(all, ASCII(ctx.Thorough())...)
	all = append(all, Specials...)
	all = append(all, "\x00", "a\x00b")
	lookalikes := Lookalikes(ctx.Thorough())
	lookPos := map[string]bool{"rawtext": true, "strlit": true, "mapkey": true, "mapvalue": true, "global-string": true, "global-mapkey": true,
		"msg-text": true, "msg-translation": true, "css-name": true, "css-name-after-var": true, "css-prefix": true, "param-value": true, "let-value": true, "literal": true}
	long := LongStrings(ctx.Thorough())
	// the strings every (position, context) pair sees; the quick tier takes the sharpest ones
	core1 := []string{"'", `"`, `\`, "\n", string(rune(0x2028)), "<", "a", string(rune(0x1F600)),
		`'"\`, "</script>", "{}", `\n`, "\U000E0001", "\x00"}
	if ctx.Thorough() {
		core1 = append(core1, Words(1)...)
		core1 = append(core1, "\n'", "  ", "a b", "//", "\x7f", `\"`)
		core1 = append(core1, Words(2)...)
		core1 = append(core1, Specials...)
	}
	seen := map[string]bool{}
	var progs []*Program
	id := 0
	add := func(pos position, w wrapper, s string) {
		key := pos.name + "\x00" + w.name + "\x00" + s
		if seen[key] {
			return
		}
		seen[key] = true
		if p, ok := Build(id, pos, w, s); ok {
			progs = append(progs, p)
			id++
		}
	}
	top := wrappers[0]
	for _, pos := range positions {
		for _, s := range all {
			add(pos, top, s)
		}
		for _, s := range long {
			add(pos, top, s)
		}
		if lookPos[pos.name] || ctx.Thorough() {
			for _, s := range lookalikes {
				add(pos, top, s)
			}
		}
		for _, w := range wrappers[1:] {
			for _, s := range core1 {
				add(pos, w, s)
			}
		}
	}
	// random (position, context, string) triples beyond the systematic part
	extra := ctx.Pick(700, 30000)
	for i := 0; i < extra; i++ {
		pos := positions[r.Intn(len(positions))]
		w := wrappers[r.Intn(len(wrappers))]
		var s string
		switch r.Intn(4) {
		case 0:
			s = SampleWords(r, 1+r.Intn(6), 1)[0]
		case 1:
			s = Specials[r.Intn(len(Specials))] + SampleWords(r, 1+r.Intn(2), 1)[0]
		case 2:
			s = all[r.Intn(len(all))] + all[r.Intn(len(all))]
		default:
			s = SampleWords(r, 2, 1)[0] + Specials[r.Intn(len(Specials))]
		}
		add(pos, w, s)
	}
	for _, k := range globalKinds {
		for _, parsed := range []bool{false, true} {
			for _, w := range wrappers {
				if w.msg || w.name == "top" || w.name == "foreach" || w.name == "log" || w.name == "between-quotes" {
					if p, ok := BuildGlobalKind(id, k, parsed, w); ok {
						progs = append(progs, p)
						id++
					}
				}
			}
		}
	}
	// round 4: indexed references after other operands, in every expression context
	idxStrings := []string{"a", "'", `"`, "\\", "\n", "<", string(rune(0x2028)), string(rune(0x1F600)), "\\" + "u003D=", "]", "[", "$arr[$i]"}
	idxWraps := []string{"top", "if", "foreach", "let-content", "param-content", "msg", "switch-case"}
	if ctx.Thorough() {
		idxStrings = append(idxStrings, core1...)
	}
	for _, f := range exprForms {
		for _, c := range exprContexts {
			for _, w := range wrappers {
				use := ctx.Thorough()
				for _, n := range idxWraps {
					if w.name == n {
						use = true
					}
				}
				if !use {
					continue
				}
				for si, s := range idxStrings {
					if w.name != "top" && !ctx.Thorough() && si > 3 {
						break
					}
					if p, ok := BuildIndexed(id, f, c, w, s); ok {
						progs = append(progs, p)
						id++
					}
				}
			}
		}
	}
	for _, kind := range []string{"range-args", "plural-subject", "if-arith"} {
		for _, w := range wrappers {
			if p, ok := BuildIndexedNumeric(id, kind, w); ok {
				progs = append(progs, p)
				id++
			}
		}
	}
	// mutation gaps: every registered JS function and print directive, in every syntactic role
	libWraps := map[string]bool{"top": true, "if": true, "let-content": true}
	for name := range soyjs.Funcs {
		if _, ok := FuncSamples[name]; !ok {
			ctx.ToolError("soyjs.Funcs has %q but harness/c14 FuncSamples has no sample call for it: add one", name)
		}
	}
	for name := range soyjs.PrintDirectives {
		if _, ok := DirectiveSamples[name]; !ok && name != "verifArg" {
			ctx.ToolError("soyjs.PrintDirectives has %q but harness/c14 DirectiveSamples has no sample for it: add one", name)
		}
	}
	var fnames, dnames []string
	for n := range FuncSamples {
		fnames = append(fnames, n)
	}
	for n := range DirectiveSamples {
		dnames = append(dnames, n)
	}
	sort.Strings(fnames)
	sort.Strings(dnames)
	for _, w := range wrappers {
		if !libWraps[w.name] && !(ctx.Thorough() && !w.msg) {
			continue
		}
		for _, n := range fnames {
			for _, use := range libraryUses {
				if p, ok := BuildFunc(id, n, use, w); ok {
					progs = append(progs, p)
					id++
				}
			}
		}
		for _, n := range dnames {
			for _, use := range directiveUses {
				if p, ok := BuildDirective(id, n, use, w); ok {
					progs = append(progs, p)
					id++
				}
			}
		}
	}
	for k := 0; k < 20; k++ {
		progs = append(progs, BuildAutoescaped(id))
		id++
	}
	for _, s := range core1 {
		if p, ok := BuildGeneratorReuse(id, s); ok {
			progs = append(progs, p)
			id++
		}
	}
	// round 5: near-invalid bundle shapes
	for _, kind := range ShapeKinds {
		if p, ok := BuildShape(id, kind); ok {
			progs = append(progs, p)
			id++
		}
	}
	// round 4: identifier hazards
	for _, use := range identUses {
		for _, name := range append(append([]string{}, HazardNames...), "<root>", "plain") {
			for _, w := range wrappers {
				if w.name == "top" || (w.name == "foreach" && (use == "let-value" || use == "foreach-var")) || (ctx.Thorough() && (w.name == "if" || w.name == "let-content" || w.name == "nested")) {
					if p, ok := BuildIdent(id, use, name, w); ok {
						progs = append(progs, p)
						id++
					}
				}
			}
		}
	}
	for _, k := range numGlobals {
		for _, f := range numForms {
			for _, parsed := range []bool{false, true} {
				for _, w := range wrappers {
					if w.name == "top" || w.name == "if" || w.name == "let-content" || (ctx.Thorough() && !w.msg) {
						if p, ok := BuildNumGlobal(id, k, f, parsed, w); ok {
							progs = append(progs, p)
							id++
						}
					}
				}
			}
		}
	}
	return progs
}

func nontrivial(p *Program) bool { return p.Wrap != "top" || CharClass(p.S) != "plain" }

const batchSize = 48

func runAll(ctx *core.Ctx, pool *jsrun.Pool, progs []*Program, st *stats) {
	var wg sync.WaitGroup
	ch := make(chan []*Program)
	nw := pool.Size() + 2
	for w := 0; w < nw; w++ {
		wg.Add(1)
		go func() {
			defer wg.Done()
			for batch := range ch {
				runBatch(ctx, pool, batch, st)
			}
		}()
	}
	for i := 0; i < len(progs); i += batchSize {
		j := i + batchSize
		if j > len(progs) {
			j = len(progs)
		}
		ch <- progs[i:j]
	}
	close(ch)
	wg.Wait()
}

func runBatch(ctx *core.Ctx, pool *jsrun.Pool, batch []*Program, st *stats) {
	var ok []*compiled
	for _, p := range batch {
		c := translate(p)
		st.mu.Lock()
		if c.rejected != "" {
			st.rejected[p.Pos]++
			st.mu.Unlock()
			continue
		}
		if !p.JSOnly && (c.goErr != "" || c.goOut != p.Expect) {
			st.frontend[p.Pos]++
			if len(st.frontendEx) < 12 {
				st.frontendEx = append(st.frontendEx, map[string]string{"pos": p.Pos, "wrap": p.Wrap, "s": fmt.Sprintf("%q", trunc(p.S, 60)),
					"go": fmt.Sprintf("%q", trunc(c.goOut, 80)), "err": c.goErr, "expect": fmt.Sprintf("%q", trunc(p.Expect, 80))})
			}
			st.mu.Unlock()
			continue
		}
		st.programs++
		st.byPos[p.Pos]++
		st.byWrap[p.Wrap]++
		if len(st.lits) < st.litCap {
			if l, found := extractLit(c); found {
				st.lits = append(st.lits, l)
			}
		}
		st.mu.Unlock()
		if nontrivial(p) {
			ctx.Distinct(p.Pos + "|" + p.Wrap + "|" + p.S)
		}
		if p.ID%977 == 0 {
			ctx.Sample(map[string]interface{}{"pos": p.Pos, "context": p.Wrap, "s": p.S, "soy": p.File.Text, "expect": p.Expect})
		}
		ok = append(ok, c)
	}
	if len(ok) == 0 {
		return
	}
	for _, f := range []string{"es5", "es6"} {
		fails, err := judge(pool, ok, f, st)
		if err != nil {
			ctx.ToolError("node: %v", err)
			return
		}
		for _, fl := range fails {
			// confirm in isolation: a fresh context with this program only
			var c *compiled
			for _, x := range ok {
				if x.p == fl.Program {
					c = x
				}
			}
			alone, err := judge(pool, []*compiled{c}, f, st)
			if err != nil {
				ctx.ToolError("node: %v", err)
				return
			}
			if len(alone) == 0 {
				st.mu.Lock()
				st.batchOnly++
				st.mu.Unlock()
				continue
			}
			st.mu.Lock()
			st.failures = append(st.failures, alone[0])
			st.mu.Unlock()
		}
	}
}

// nameClass says why an author-chosen name is hazardous.
func nameClass(n string) string {
	switch n {
	case "__proto__":
		return "__proto__"
	case "constructor", "toString", "hasOwnProperty", "valueOf", "prototype", "length", "name":
		return "object-prototype-member"
	case "output", "soy", "goog", "opt_data", "opt_sb", "opt_ijData", "JSON", "Math", "Object", "String", "console":
		return "runtime-name"
	case "plain":
		return "plain"
	}
	if strings.HasPrefix(n, "q") || strings.HasPrefix(n, "x") || strings.HasPrefix(n, "n") || strings.HasPrefix(n, "my") || strings.HasPrefix(n, "ab") || strings.HasPrefix(n, "shop") {
		for _, h := range HazardNames {
			if h == n {
				return "reserved-word"
			}
		}
		return "namespace-root"
	}
	return "reserved-word"
}

// runeClass names the class of a character for signatures.
func runeClass(r rune) string {
	switch {
	case r == '\n' || r == '\r':
		return "lf-cr"
	case r == 0x2028 || r == 0x2029:
		return "ls-ps"
	case r == '\\':
		return "backslash"
	case r == '\'':
		return "squote"
	case r == '"':
		return "dquote"
	case r == '<' || r == '>' || r == '&' || r == '=':
		return "html-special"
	case r < 0x20 || r == 0x7f:
		return "control"
	case r < 0x80:
		return "ascii-printable"
	case r > 0xFFFF && unicode.IsPrint(r):
		return "astral-printable"
	case r > 0xFFFF:
		return "astral-non-printable"
	case unicode.IsPrint(r):
		return "bmp-printable"
	}
	return "bmp-non-printable"
}

// classify turns the confirmed failures into violations. The signature says
// WHERE the literal is lost: if a single character of the failing string is
// already lost in the plainest position (a string literal printed at the top
// level of a template) the shared escaper is at fault and the signature is
// "any-position,char=<class>,<kind>"; otherwise the position is at fault and
// the signature is "pos=<position class>,<kind>".
func classify(ctx *core.Ctx, pool *jsrun.Pool, st *stats) {
	if len(st.failures) == 0 {
		return
	}
	sort.SliceStable(st.failures, func(i, j int) bool {
		a, b := st.failures[i], st.failures[j]
		if a.Program.ID != b.Program.ID {
			return a.Program.ID < b.Program.ID
		}
		return a.Formatter < b.Formatter
	})
	var runes []rune
	seen := map[rune]bool{}
	for _, f := range st.failures {
		for _, r := range f.Program.S {
			if !seen[r] {
				seen[r] = true
				runes = append(runes, r)
			}
		}
	}
	sort.Slice(runes, func(i, j int) bool { return runes[i] < runes[j] })
	probeKind := map[rune]string{}
	var strlit position
	for _, p := range positions {
		if p.name == "strlit" {
			strlit = p
		}
	}
	for i := 0; i < len(runes); i += batchSize {
		j := i + batchSize
		if j > len(runes) {
			j = len(runes)
		}
		var cs []*compiled
		for k, r := range runes[i:j] {
			p, ok := Build(9000000+i+k, strlit, wrappers[0], string(r))
			if !ok {
				continue
			}
			c := translate(p)
			if c.rejected != "" || c.goErr != "" || c.goOut != p.Expect {
				continue
			}
			cs = append(cs, c)
		}
		if len(cs) == 0 {
			continue
		}
		fails, err := judge(pool, cs, "es5", st)
		if err != nil {
			ctx.ToolError("node: %v", err)
			return
		}
		for _, f := range fails {
			probeKind[[]rune(f.Program.S)[0]] = f.Kind
		}
	}
	es5Classes := map[string]bool{}
	for _, f := range st.failures {
		if f.Formatter == "es5" {
			es5Classes[f.Program.Class] = true
		}
	}
	for _, f := range st.failures {
		p := f.Program
		feature := "pos=" + p.Class + "," + f.Kind
		if p.Class == "bundle-shape" {
			feature = "pos=bundle-shape,shape=" + p.S + "," + f.Kind
		}
		if p.Class == "identifier" {
			// the author's NAME is the hazard: say which use and which kind of name
			feature = "pos=identifier,use=" + strings.TrimPrefix(p.Pos, "ident-") + ",name=" + nameClass(p.S) + "," + f.Kind
		}
		if p.Class == "map-key" && p.S == "__proto__" {
			// JavaScript object literals treat this one key as the prototype setter
			feature = "pos=map-key,key=__proto__," + f.Kind
		}
		for _, r := range p.S {
			if k := probeKind[r]; k != "" {
				feature = "any-position,char=" + runeClass(r) + "," + k
				break
			}
		}
		if f.Formatter == "es6" && !es5Classes[p.Class] {
			// formatter-specific: no program of this position class fails under ES5
			feature += ",es6-only"
		}
		ctx.Violation(core.Sig{Family: "literal", Feature: feature},
			fmt.Sprintf("%s in %s context, string %q (%s), formatter %s: %s: %s", p.Pos, p.Wrap, trunc(p.S, 40), CharClass(p.S),
				f.Formatter, f.Kind, trunc(f.Detail, 200)), f)
	}
	ctx.Extra["probe_runes_failing_at_plain_string_literal"] = len(probeKind)
}

// judge loads the programs' JavaScript of one formatter into one fresh context
// and checks (a) well-formedness, (b) exactly the templates defined, (c) the
// entry template returns the expected characters.
func judge(pool *jsrun.Pool, cs []*compiled, f string, st *stats) ([]*Failure, error) {
	req := jsrun.Request{Pre: []string{preScript}, Enumerate: true, Timeout: 5 * time.Second}
	kind := ""
	if f == "es6" {
		kind = "module"
	}
	first := make([]int, len(cs)) // index of each program's first source
	for i, c := range cs {
		first[i] = len(req.Sources)
		for k, code := range c.js[f] {
			req.Sources = append(req.Sources, jsrun.Source{Name: fmt.Sprintf("%s#%d", c.p.NS, k), Code: code, Kind: kind})
		}
		fn := c.p.NS + ".main"
		if f == "es6" {
			fn = soyjs.ES6Identifier(fn)
		}
		req.Calls = append(req.Calls, jsrun.Call{Fn: fn, Data: c.p.Data})
	}
	resp, err := pool.Run(req)
	st.mu.Lock()
	st.nodeRequests++
	st.mu.Unlock()
	if err != nil {
		return nil, err
	}
	var fails []*Failure
	var checks int64
	for i, c := range cs {
		p := c.p
		fail := func(kind, detail, observed string) {
			fails = append(fails, &Failure{Program: p, Formatter: f, Kind: kind, Detail: detail, JS: strings.Join(c.js[f], "\n//---- next file\n"), Observed: observed})
		}
		checks++
		if e := c.genErr[f]; e != "" {
			st.mu.Lock()
			st.genErrs++
			st.mu.Unlock()
			fail("generator-error", e, "")
			continue
		}
		loaded := true
		for k := range c.js[f] {
			src := resp.Sources[first[i]+k]
			if src.Unsupported {
				return nil, fmt.Errorf("engine cannot parse ES modules: %s", src.Err)
			}
			if !src.OK {
				if src.Syntax {
					fail("syntax-error", src.Err, "")
				} else {
					fail("load-throws", src.Err, "")
				}
				loaded = false
				break
			}
		}
		if !loaded {
			continue
		}
		if f == "es6" {
			checks++
			if missing := missingImports(p, c.js[f]); missing != "" {
				// an OBSERVATION, never a verdict: no listed property states the ES6 formatter's import
				// scheme (the body reaches soy.$$x through the global whatever is imported)
				st.mu.Lock()
				if st.importsMissing == nil {
					st.importsMissing = map[string]int{}
				}
				st.importsMissing[missing]++
				st.mu.Unlock()
			}
		}
		checks++
		var got []string
		var want []string
		if f == "es6" {
			for k := range c.js[f] {
				got = append(got, resp.Exports[fmt.Sprintf("%s#%d", p.NS, k)]...)
			}
			sort.Strings(got)
			for _, t := range p.Templates {
				want = append(want, soyjs.ES6Identifier(t))
			}
		} else {
			for _, fn := range resp.Functions {
				if strings.HasPrefix(fn, rootOf(p.NS)+".") {
					got = append(got, fn)
				}
			}
			want = append(want, p.Templates...)
		}
		sort.Strings(want)
		if strings.Join(got, ",") != strings.Join(want, ",") {
			fail("templates-defined-differ", fmt.Sprintf("functions defined %v, templates %v", got, want), strings.Join(got, ","))
			continue
		}
		checks++
		call := resp.Calls[i]
		if p.AnyOutput {
			if !call.OK && strings.Contains(call.Err, "ReferenceError") {
				fail("call-throws", call.Err, "")
			}
			continue
		}
		if !call.OK {
			fail("call-throws", call.Err, "")
			continue
		}
		if !sameUnits(call.Units(), utf16.Encode([]rune(p.Expect))) {
			fail("wrong-chars", fmt.Sprintf("returned %q, the literal denotes %q", trunc(call.Out, 80), trunc(p.Expect, 80)), call.Out)
		}
	}
	st.mu.Lock()
	st.checks += checks
	st.mu.Unlock()
	return fails, nil
}

var (
	reImport  = regexp.MustCompile(`(?m)^import \{ (\S+) \} from '(.*)\.js';$`)
	reExport  = regexp.MustCompile(`(?m)^export function ([A-Za-z0-9_$]+)\(`)
	reTmplUse = regexp.MustCompile(`\b([A-Za-z_][A-Za-z0-9_$]*__[A-Za-z0-9_$]+)\(`)
)

// missingImports scans the ES6 modules of a program conservatively: every library function of a
// print directive that the body calls (soy.$$x, JSON.stringify), every Soy function the source
// uses and every template of another module that the body calls must have an import line
// (specifier "<name>.js"). It returns the first missing name, or "".
func missingImports(p *Program, modules []string) string {
	src := p.File.Text
	for _, x := range p.Extra {
		src += x.Text
	}
	for _, code := range modules {
		spec, bound, own := map[string]bool{}, map[string]bool{}, map[string]bool{}
		for _, m := range reImport.FindAllStringSubmatch(code, -1) {
			bound[m[1]], spec[m[2]] = true, true
		}
		for _, m := range reExport.FindAllStringSubmatch(code, -1) {
			own[m[1]] = true
		}
		body := reImport.ReplaceAllString(code, "")
		var names []string
		for k := range soyjs.PrintDirectives {
			names = append(names, k)
		}
		sort.Strings(names)
		for _, k := range names {
			d := soyjs.PrintDirectives[k]
			if d.Name != "" && k != "verifArg" && strings.Contains(body, d.Name+"(") && !spec[d.Name] {
				return d.Name
			}
		}
		for _, m := range reTmplUse.FindAllStringSubmatch(body, -1) {
			if !own[m[1]] && !bound[m[1]] && !strings.HasPrefix(m[1], "soy__") && !strings.HasPrefix(m[1], "JSON__") {
				return m[1]
			}
		}
	}
	// Soy functions are imported under their Soy name by the module that uses them
	all := strings.Join(modules, "\n")
	var fns []string
	for k := range soyjs.Funcs {
		fns = append(fns, k)
	}
	sort.Strings(fns)
	for _, k := range fns {
		if regexp.MustCompile(`[^A-Za-z0-9_.$]`+k+`\(`).MatchString(src) && !strings.Contains(all, "from '"+k+".js';") {
			return k + "()"
		}
	}
	return ""
}

func sameUnits(a, b []uint16) bool {
	if len(a) != len(b) {
		return false
	}
	for i := range a {
		if a[i] != b[i] {
			return false
		}
	}
	return true
}

func trunc(s string, n int) string {
	if len(s) > n {
		return s[:n] + "..."
	}
	return s
}

var (
	reOutLine = regexp.MustCompile(`^\s*output \+= '(.*)';$`)
)

// extractLit finds the literal body the ES5 generator wrote for p's string,
// when the emitted function has a shape in which it can be found reliably.
func extractLit(c *compiled) (litObs, bool) {
	p := c.p
	if p.Wrap != "top" || len(p.S) > 200 {
		return litObs{}, false
	}
	lines := strings.Split(c.js["es5"][0], "\n")
	start, end := -1, -1
	for i, l := range lines {
		if strings.HasPrefix(l, p.NS+".main = function") {
			start = i
		}
		if start >= 0 && end < 0 && strings.TrimSpace(l) == "return output;" {
			end = i
		}
	}
	if start < 0 || end < 0 {
		return litObs{}, false
	}
	body := lines[start+1 : end]
	switch p.Pos {
	case "rawtext", "literal", "strlit", "strlit-u", "msg-text", "css-name", "global-string", "global-parsed", "msg-translation":
		var lit strings.Builder
		for _, l := range body {
			t := strings.TrimSpace(l)
			if t == "var output = '';" || t == "opt_data = opt_data || {};" || t == "" {
				continue
			}
			m := reOutLine.FindStringSubmatch(l)
			if m == nil {
				return litObs{}, false
			}
			lit.WriteString(m[1])
		}
		return litObs{Q: 39, S: utf16.Encode([]rune(p.Expect)), Lit: utf16.Encode([]rune(lit.String())), p: p}, true
	case "mapkey":
		// a raw line terminator in the key splits the statement over lines: join them again
		joined := strings.Join(body, "\n")
		i := strings.Index(joined, "soy.$$getMapKeys({")
		j := strings.Index(joined, ":1});")
		if i < 0 || j < i {
			return litObs{}, false
		}
		inner := joined[i+len("soy.$$getMapKeys({") : j]
		if len(inner) < 2 {
			return litObs{}, false
		}
		qc := inner[0]
		if (qc != '"' && qc != '\'') || inner[len(inner)-1] != qc {
			return litObs{}, false
		}
		return litObs{Q: int(qc), S: utf16.Encode([]rune(p.S)), Lit: utf16.Encode([]rune(inner[1 : len(inner)-1])), p: p}, true
	}
	return litObs{}, false
}

var reBadLit = regexp.MustCompile(`^<<"BAD", (\d+), "([a-z-]+)">>`)
var reDoneLit = regexp.MustCompile(`^<<"DONE", (\d+), (\d+)>>`)

// validateLits has TLC validate the recorded literal bodies (M3).
func validateLits(ctx *core.Ctx, st *stats) {
	if len(st.lits) == 0 {
		return
	}
	sort.SliceStable(st.lits, func(i, j int) bool { return st.lits[i].p.ID < st.lits[j].p.ID })
	var buf bytes.Buffer
	for _, l := range st.lits {
		if l.S == nil {
			l.S = []uint16{}
		}
		if l.Lit == nil {
			l.Lit = []uint16{}
		}
		b, _ := json.Marshal(l)
		buf.Write(b)
		buf.WriteByte('\n')
	}
	cfg := "CONSTANTS\n Dev = {}\nINIT Init\nNEXT Next\nINVARIANT Report\nPOSTCONDITION TraceAccepted\nCHECK_DEADLOCK FALSE\n"
	res, err := ctx.RunTLC(core.TLCOpts{Module: "SoyJsLitTrace", Cfg: cfg, Files: map[string][]byte{"c14_lits.ndjson": buf.Bytes()},
		Workers: 1, Timeout: 8 * time.Minute, Label: "M3 literal bodies"})
	if err != nil {
		ctx.ToolError("M3: %v", err)
		return
	}
	if res.Violated != "" {
		ctx.ToolError("M3: trace spec reported %s: %s", res.Violated, trunc(res.Trace, 400))
		return
	}
	done := false
	nbad := 0
	for _, t := range res.Tuples {
		if m := reBadLit.FindStringSubmatch(t); m != nil {
			var i int
			fmt.Sscan(m[1], &i)
			l := st.lits[i-1]
			nbad++
			if m[2] == "script-close" {
				// the characters are preserved; "</script" inside a literal only matters when the
				// file is inlined into HTML, which the property does not speak about: observation only
				st.scriptClose++
				continue
			}
			kind := map[string]string{"not-one-literal": "syntax-error", "raw-line-terminator": "syntax-error", "raw-delimiter": "syntax-error",
				"denotes-other-string": "wrong-chars"}[m[2]]
			dup := false
			for _, f := range st.failures {
				if f.Program == l.p && f.Formatter == "es5" {
					dup = true // node already reported this program
				}
			}
			if !dup {
				st.failures = append(st.failures, &Failure{Program: l.p, Formatter: "es5", Kind: kind,
					Detail: "TLC SoyJsLitTrace rejects the emitted literal body (" + m[2] + ")", Observed: string(utf16.Decode(l.Lit))})
				st.m3only++
			}
		} else if m := reDoneLit.FindStringSubmatch(t); m != nil {
			var n int
			fmt.Sscan(m[1], &n)
			done = n == len(st.lits)
		}
	}
	if !done {
		ctx.ToolError("M3: TLC did not consume the whole literal trace: %s", trunc(res.Stdout, 400))
		return
	}
	ctx.AddTraces(int64(len(st.lits)))
	ctx.Extra["m3_literals_validated"] = len(st.lits)
	ctx.Extra["m3_literals_rejected"] = nbad
	ctx.Extra["m3_rejected_but_node_accepted"] = st.m3only
	ctx.Extra["m3_script_close_observations"] = st.scriptClose
}

// replay re-runs one saved failure.
func replay(ctx *core.Ctx, bg context.Context) {
	b, err := os.ReadFile(ctx.ReplayPath)
	if err != nil {
		ctx.ToolError("replay: %v", err)
		return
	}
	var v struct {
		Replay Failure `json:"replay"`
	}
	if err := json.Unmarshal(b, &v); err != nil || v.Replay.Program == nil {
		ctx.ToolError("replay: not a C14 replay file: %v", err)
		return
	}
	pool, err := jsrun.NewPool(bg, 1)
	if err != nil {
		ctx.ToolError("cannot start the JavaScript engine: %v", err)
		return
	}
	defer pool.Close()
	st := &stats{rejected: map[string]int{}, frontend: map[string]int{}, byPos: map[string]int{}, byWrap: map[string]int{}}
	runBatch(ctx, pool, []*Program{v.Replay.Program}, st)
	classify(ctx, pool, st)
	ctx.Programs = st.programs
	ctx.Disagree = st.checks
	fmt.Printf("replay: programs=%d rejected=%v frontend=%v\n", st.programs, st.rejected, st.frontend)
}
